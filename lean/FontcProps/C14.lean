/-
  C14 — Writing intermediate state to disk is transparent and faithful.
  Property theorems only; helper lemmas live in FontcProofs/Paths*.lean.

  Models: FontcModel/Paths.lean  (fontdrasil/src/paths.rs `string_to_filename`, fontir/src/paths.rs and
          fontbe/src/paths.rs `target_file`), FontcModel/Persist.lean (ContextItem / ContextMap with
          optional on-disk storage). Strings are lists of code points; every theorem holds for all lists.

  Outside the model (monitored by the c14emit stream instead): the codecs (`Persistable::read/write`:
  serde_yaml, bincode, write-fonts), the file system itself, Unicode (non-ASCII) case folding and
  normalisation done by some file systems, Windows device-name handling of names with extensions.
-/
import FontcModel.Paths
import FontcModel.Persist
import FontcProofs.PathsStf
import FontcProofs.PathsKern
import FontcProofs.PathsTarget
import FontcProofs.PathsPersist

namespace Fontc.C14
open Fontc Fontc.Paths Fontc.Persist

/-! ## `string_to_filename` -/

/-- Two names never share a file name (same suffix). No hypothesis on the suffix is needed: it may
    even contain the separator '^'. -/
theorem stf_injective (n₁ n₂ suffix : List Nat)
    (h : stringToFilename n₁ suffix = stringToFilename n₂ suffix) : n₁ = n₂ :=
  stf_inj n₁ n₂ suffix h

/-- Two names never share a file name even on a file system that folds ASCII case: names that differ
    only in ASCII case get different case codes after '^'. Case folding of non-ASCII letters (É/é) is
    not modelled and not handled by the code (see the advisory tag of stream c14names). -/
theorem stf_ascii_caseless_injective (n₁ n₂ suffix : List Nat)
    (h : asciiFold (stringToFilename n₁ suffix) = asciiFold (stringToFilename n₂ suffix)) : n₁ = n₂ :=
  stf_fold_inj n₁ n₂ suffix h

/-- Different suffixes in one directory (".glyf" / ".gvar"): the exact hypothesis the proof needs is
    that the suffixes have the same length. -/
theorem stf_injective_two_suffixes (n₁ n₂ s₁ s₂ : List Nat) (hlen : s₁.length = s₂.length)
    (h : stringToFilename n₁ s₁ = stringToFilename n₂ s₂) : n₁ = n₂ ∧ s₁ = s₂ :=
  stf_inj_suffix n₁ n₂ s₁ s₂ hlen h

/-- … and that hypothesis cannot be dropped: with suffixes of different lengths two different
    (name, suffix) pairs give one file name. (No call site in fontc mixes such suffixes in a directory.) -/
theorem stf_two_suffixes_needs_equal_length :
    stringToFilename (lit "a.yml") (lit "") = stringToFilename (lit "a") (lit ".yml") ∧ lit "a.yml" ≠ lit "a" := by
  decide

example : stringToFilename (lit "Aa") (lit ".yml") = lit "Aa^1.yml" := by decide
example : stringToFilename (lit "a_a") (lit ".yml") = lit "a_a.yml" := by decide
example : stringToFilename (lit "con") (lit ".yml") = lit "con^0.yml" := by decide
example : stringToFilename (lit ".notdef") (lit ".yml") = lit "%2Enotdef.yml" := by decide
example : (lit ".glyf").length = (lit ".gvar").length := by decide

/-! ## file names stay inside their directory -/

/-- `string_to_filename` never produces a path separator (the suffix aside), so glyph, anchor and
    kerning files land in their directory whatever the glyph or the axis is called. -/
theorem stf_no_path_separator (n suffix : List Nat) (hs : 0x2F ∉ suffix) :
    0x2F ∉ stringToFilename n suffix :=
  stf_no_slash n suffix hs

/-! ## FE ids (`fontir::paths::Paths::target_file`, current code: after fix 75d720d)

  The f64 `Display` printer is a parameter `pr` of the model; what is assumed of it
  (`PrintInjective`: different values print differently — it prints the shortest text that parses back
  to the same value; `PrintNoUnderscore`) is part of the trusted base and is checked by the driver on
  every case of stream c14paths against the texts the real printer produced. -/

/-- The property at full strength: distinct FE work ids are written to distinct files. -/
def FullStatement (pr : Rat → List Nat) : Prop :=
  ∀ a b : FeId, a.printable → b.printable → feTarget pr a = feTarget pr b → a = b

/-- It holds for the current code (axis tags as produced by `Tag::from_str`: printable ASCII). -/
theorem fe_target_file_injective (pr : Rat → List Nat) (hi : PrintInjective pr) (hu : PrintNoUnderscore pr) :
    FullStatement pr :=
  fun a b pa pb h => fe_target_inj pr hi hu a b pa pb h

/-- The kerning file is directly in the build directory whatever the axis tags are. -/
theorem kern_file_flat (pr : Rat → List Nat) (l : Loc) : 0x2F ∉ kernFileName pr l :=
  kernFileName_no_slash pr l

def wght : Tag := ⟨0x77, 0x67, 0x68, 0x74⟩

/-- non-vacuity: a printer with both assumed properties exists -/
example : ∃ pr : Rat → List Nat, PrintInjective pr ∧ PrintNoUnderscore pr :=
  ⟨prWitness, prWitness_injective, prWitness_noUnderscore⟩

example : feTarget prWitness (.kernInstance [(wght, 1)]) = lit "kern_wght_1%2F1.yml" := by decide +kernel

example : (FeId.kernInstance [(wght, 0)]).printable := by
  intro e he
  simp at he
  subst he
  decide

/-! ## the kerning file as it was before the fix (record of defects F4 and "tag separator") -/

/-- Old naming, equal file names ⇔ same axes and same coordinates after rounding to two decimals. -/
theorem kern_file_name_old_collides_iff (l1 l2 : Loc) (p1 : l1.printable) (p2 : l2.printable) :
    kernFileNameOld l1 = kernFileNameOld l2 ↔ l1.key = l2.key :=
  ⟨kernFileNameOld_key l1 l2 p1 p2, kernFileNameOld_of_key l1 l2⟩

/-- Kerning masters at wght 699 and 700 on a 400–700 axis (normalised 299/300 and 1) were both
    written to `kern_wght_1.00.yml`. -/
theorem kern_file_name_old_counterexample :
    kernFileNameOld [(wght, (299 : Rat) / 300)] = kernFileNameOld [(wght, 1)] ∧
    ([(wght, (299 : Rat) / 300)] : Loc) ≠ [(wght, 1)] := by
  decide +kernel

example : kernFileNameOld [(wght, (299 : Rat) / 300)] = lit "kern_wght_1.00.yml" := by decide +kernel

/-- Old naming stayed in the build directory only when no axis tag contained '/' … -/
theorem kern_file_old_flat_partial (l : Loc) (p : l.printable) (hn : ∀ e ∈ l, e.1.noSlash) :
    0x2F ∉ kernFileNameOld l :=
  kernFileNameOld_no_slash l p hn

/-- … axis tag `a/b ` asked for a file in a directory `kern_a` that nobody creates. -/
theorem kern_file_old_flat_counterexample :
    ¬ ∀ l : Loc, l.printable → 0x2F ∉ kernFileNameOld l := by
  intro h
  have := h [(⟨0x61, 0x2F, 0x62, 0x20⟩, 0)] (by intro e he; simp at he; subst he; decide)
  revert this
  decide +kernel

example : kernFileNameOld [(⟨0x61, 0x2F, 0x62, 0x20⟩, 0)] = lit "kern_a/b _0.00.yml" := by decide +kernel
example : wght.noSlash := by unfold Tag.noSlash; decide

/-! ## BE ids (`fontbe::paths::Paths::target_file`) -/

/-- Distinct BE work ids are written to distinct files. -/
theorem be_target_file_injective (a b : BeId) (h : beTarget a = beTarget b) : a = b :=
  be_target_inj a b h

/-- FE and BE items share the build directory: no FE file is a BE file. -/
theorem fe_be_target_files_disjoint (pr : Rat → List Nat) (a : FeId) (b : BeId) : feTarget pr a ≠ beTarget b :=
  fe_be_disjoint pr a b

/-- All ids of one build together. -/
theorem any_target_file_injective (pr : Rat → List Nat) (hi : PrintInjective pr) (hu : PrintNoUnderscore pr)
    (a b : AnyId) (hp : ∀ x, a = .fe x ∨ b = .fe x → x.printable)
    (h : anyTarget pr a = anyTarget pr b) : a = b := by
  cases a with
  | fe x =>
    cases b with
    | fe y => rw [fe_target_inj pr hi hu x y (hp x (Or.inl rfl)) (hp y (Or.inr rfl)) h]
    | be y => exact absurd h (fe_be_disjoint pr x y)
  | be x =>
    cases b with
    | fe y => exact absurd h.symm (fe_be_disjoint pr y x)
    | be y => rw [be_target_inj x y h]

/-! ## persistence -/

section
variable {Id V Path Bytes : Type} [DecidableEq Id] [DecidableEq V] [DecidableEq Path]

/-- With injective paths, starting from a fresh process and a fresh build directory, every `get` /
    `try_get` answers exactly as in the run without on-disk storage, and memory ends up the same:
    every job sees the same values, hence computes the same font. -/
theorem persist_refines (c : Cfg Id V Path Bytes) (hinj : ∀ a b, c.path a = c.path b → a = b)
    (hact : c.active = true) (ops : List (Op Id V)) :
    (run c empty ops).2 = (run c.off empty ops).2 ∧ (run c.off empty ops).1.mem = (run c empty ops).1.mem := by
  obtain ⟨h1, h2, _⟩ := run_refines c hinj hact ops empty empty (inv_empty c) rfl
  exact ⟨h1, h2⟩

/-- … and the build directory is faithful: every value in memory reads back from its file
    (codec with read ∘ write = id), and every file belongs to an id that is in memory. -/
theorem persist_faithful (c : Cfg Id V Path Bytes) (hinj : ∀ a b, c.path a = c.path b → a = b)
    (hact : c.active = true) (hcodec : ∀ v, c.dec (c.enc v) = v) (ops : List (Op Id V)) :
    (∀ id v, (run c empty ops).1.mem id = some v → ((run c empty ops).1.disk (c.path id)).map c.dec = some v) ∧
    (∀ p b, (run c empty ops).1.disk p = some b → ∃ id v, p = c.path id ∧ (run c empty ops).1.mem id = some v) := by
  obtain ⟨_, _, hA, hB⟩ := run_refines c hinj hact ops empty empty (inv_empty c) rfl
  refine ⟨?_, hB⟩
  intro id v h
  rw [hA id v h]
  simp [hcodec]

/-- Without injective paths faithfulness is lost: two ids, one file, the first value cannot be
    read back (`set A 1; set B 2` with `path A = path B`). -/
theorem persist_unfaithful_on_collision :
    let c : Cfg Bool Nat Unit Nat := { active := true, path := fun _ => (), enc := id, dec := id }
    let s := (run c empty [.set true 1, .set false 2]).1
    s.mem true = some 1 ∧ (s.disk (c.path true)).map c.dec = some 2 := by
  decide

/-- Transparency alone survives a collision: if no `get` comes before its `set` in the run without
    storage (which the job graph guarantees, C02), the run with storage gives the same answers for any
    path function and any initial directory content — the font is byte-identical even where two
    items overwrite each other's file. -/
theorem persist_transparent_without_injectivity (c : Cfg Id V Path Bytes) (ops : List (Op Id V))
    (s s' : Store Id V Path Bytes) (hm : s'.mem = s.mem) (hit : AllHit c.off s ops) :
    (run c s' ops).2 = (run c.off s ops).2 :=
  run_same_of_allHit c ops s s' hm hit
end

/-- The BE table instantiates `persist_refines` outright. -/
theorem persist_refines_be {V Bytes : Type} [DecidableEq V] (enc : V → Bytes) (dec : Bytes → V)
    (ops : List (Op BeId V)) :
    let c : Cfg BeId V (List Nat) Bytes := { active := true, path := beTarget, enc := enc, dec := dec }
    (run c empty ops).2 = (run c.off empty ops).2 :=
  (persist_refines _ be_target_inj rfl ops).1

/-- non-vacuity: a run in which storage is exercised (set, get hit, get miss) -/
example :
    let c : Cfg Nat Nat Nat Nat := { active := true, path := id, enc := id, dec := id }
    (run c empty [.set 1 10, .get 1, .get 2, .tryGet 2]).2 = [.done, .value 10, .panic, .absent] := by
  decide

end Fontc.C14
