/-
  C10 — Mark attachment in the font places marks on the source's anchors.
  Property theorems only; helper lemmas live in FontcProofs/MarksKind.lean, MarksCover.lean, MarksValue.lean.

  Setting (model: FontcModel/Marks.lean, tied to fontir/src/ir.rs and fontbe/src/features/marks.rs by the `c10`
  stream, and to whole compiled fonts by the `c10e2e` stream).

  * `anchorKind n` models `AnchorKind::new(n)`; `NameSpec` is the naming convention written down declaratively.
  * `gs : List (Glyph α)` are the glyphs of the final glyph order (glyph id, GDEF category of the source if any,
    anchors in source order with their parsed kind; `α` is whatever an anchor carries — its positions).
  * `sourcePairs gs` is the quantifier domain of the property: every attaching anchor `n` (base glyph, mark glyph,
    or `n_i` on a ligature) × every mark glyph with `_n`.  A glyph counts as a *mark glyph* when it is a GDEF mark
    (or the source has no categories at all) and has an `_x` anchor whose group is used; as a *base* when it is not
    a mark glyph and is a GDEF base (or there are no categories); as a *ligature* when it is a GDEF ligature (or
    there are no categories) and has `n_i` anchors.  This is fontc's (= ufo2ft's) reading of the source; the points
    it leaves out are listed after `every_pair_covered`.
  * `allLookups gs` is what `MarkLookupBuilder::build` hands to fea-rs for the `mark`/`mkmk` features: one lookup per
    (lookup type, anchor group).
  * `resolveAnchor n positions` models `resolve_anchor_once`; `AnchorOut.at` evaluates the emitted default + deltas
    at a location the way OpenType does; `attach`/`placed` is the positioning rule of GPOS lookup types 4/5/6.
-/
import FontcModel.Marks
import FontcProofs.MarksKind
import FontcProofs.MarksCover
import FontcProofs.MarksValue

namespace Fontc.C10
open Fontc Fontc.Marks Fontc.VarModel

/-- (only used by the `decide` examples below) -/
local instance : DecidableEq (Except BadAnchor Kind) := fun a b =>
  match a, b with
  | .ok x, .ok y => if h : x = y then isTrue (by rw [h]) else isFalse (fun e => h (Except.ok.inj e))
  | .error x, .error y => if h : x = y then isTrue (by rw [h]) else isFalse (fun e => h (Except.error.inj e))
  | .ok _, .error _ => isFalse (fun e => by cases e)
  | .error _, .ok _ => isFalse (fun e => by cases e)

/-! ## 1. Anchor names -/

/-- The model of `AnchorKind::new` is total (it is a function) and is exactly the naming convention `NameSpec`:
    its result satisfies the convention, and the convention determines the result. -/
theorem anchor_kind_total_and_spec (n : Name) :
    NameSpec n (anchorKind n) ∧ ∀ r, NameSpec n r → r = anchorKind n :=
  ⟨anchorKind_spec n, fun r h => (anchorKind_complete n r h).symm⟩

/-- Equivalent form. -/
theorem anchor_kind_iff_spec (n : Name) (r : Except BadAnchor Kind) : anchorKind n = r ↔ NameSpec n r :=
  ⟨fun h => h ▸ anchorKind_spec n, anchorKind_complete n r⟩

/-- Ligature anchors that come out of the parser always have a component index ≥ 1
    (this discharges hypothesis `hlig` of `every_pair_covered` for parsed anchors). -/
theorem parsed_ligature_index_pos (n g : Name) (i : Nat) (h : anchorKind n = .ok (.ligature g i)) : 1 ≤ i :=
  anchorKind_ligature_pos n g i h

-- non-vacuity: the convention on concrete names (each line is an instance of `anchor_kind_iff_spec`)
example : anchorKind "top".toList = .ok (.base "top".toList) := by decide
example : anchorKind "_top".toList = .ok (.mark "top".toList) := by decide
example : anchorKind "top_right_2".toList = .ok (.ligature "top_right".toList 2) := by decide
example : anchorKind "top_+2".toList = .ok (.ligature "top".toList 2) := by decide
example : anchorKind "top_0".toList = .error .zeroIndex := by decide
example : anchorKind "_top_3".toList = .error .numberedMarkAnchor := by decide
example : anchorKind "_".toList = .error .nilMarkGroup := by decide
example : anchorKind "_3".toList = .ok (.componentMarker 3) := by decide
example : anchorKind "caret_x".toList = .ok (.caret 1) := by decide
example : anchorKind "top_18446744073709551616".toList = .ok (.base "top_18446744073709551616".toList) := by decide
example : NameSpec "top_2".toList (.ok (.ligature "top".toList 2)) :=
  (anchor_kind_iff_spec _ _).mp (by decide)

/-! ## 2. Coverage -/

/-- **Every source pair is carried by exactly one emitted lookup, with exactly its two anchors.**

    Hypotheses (all about the input; none about the lookups):
    * `hgid`  glyph ids are pairwise distinct (they are positions in the glyph order);
    * `hkind` no glyph has two anchors of the same kind.  Anchor *names* are unique per glyph in the IR, but
      `top_1`, `top_+1` and `top_01` all parse to the same kind; fontc then keeps the later anchor
      (`component_anchors[i-1] = Some(anchor)` overwrites), so the earlier one is not carried;
    * `hlig`  ligature component indices are ≥ 1 (true of every parsed anchor: `parsed_ligature_index_pos`).

    Conclusion: exactly one lookup of `allLookups gs` carries the pair (`carries`: same lookup type, same group,
    the lookup's mark record for the mark glyph is the pair's mark anchor and its base/ligature-component/mark2
    record for the attaching glyph is the pair's attaching anchor), and that lookup is named. -/
theorem every_pair_covered {α : Type} [DecidableEq α] (gs : List (Glyph α))
    (hgid : (gs.map (·.gid)).Pairwise (· ≠ ·))
    (hkind : ∀ g ∈ gs, (g.anchors.map (·.kind)).Pairwise (· ≠ ·))
    (hlig : ∀ g ∈ gs, ∀ a ∈ g.anchors, ∀ n i, a.kind = .ligature n i → 1 ≤ i)
    (p : Pair α) (hp : p ∈ sourcePairs gs) :
    ((allLookups gs).filter (·.carries p)).length = 1 ∧
    ∃ l ∈ allLookups gs, l.kind = p.kind ∧ l.name = p.name ∧
      l.markAnchor p.mark = some p.markVal ∧ l.baseAnchor p.base (p.comp - 1) = some p.baseVal :=
  pair_covered_once gs hgid hkind hlig p hp

/-- Conversely, every glyph a lookup attaches as a mark is a mark glyph of the source: a GDEF mark whenever the
    source has categories at all. -/
theorem lookup_marks_are_source_marks {α : Type} (gs : List (Glyph α)) (l : Lookup α) (hl : l ∈ allLookups gs)
    (x : Nat × α) (hx : x ∈ l.marks) :
    ∃ g ∈ gs, g.gid = x.1 ∧ (classesEmpty gs = true ∨ g.cls = some .mark) :=
  lookup_marks_are_mark_glyphs gs l hl x hx

/-! What `sourcePairs` leaves out (each point is produced by the `c10` generator, tags in brackets, and the
    behaviour of the real code there is what the model says — the stream agrees):
    * a GDEF-mark glyph with an attaching anchor `top` but no retained `_x` anchor is not a mark glyph for fontc;
      being a GDEF mark it is not a base either: its `top` is in no lookup [gdefmark-without-markanchor];
    * a glyph with both `top` and `_top` and no categories is a mark: its `top` only takes part in mark-to-mark
      [top-and-_top];
    * a `_top` anchor on a glyph that is not a mark glyph (e.g. GDEF base) is ignored [markanchor-on-nonmark];
    * a mark with several `_x` anchors is in one lookup per group (fontc builds one lookup per group, so there is
      no "first mark class wins" exclusion as in ufo2ft's single lookup) [multi-markclass];
    * duplicate kinds on one glyph (`hkind`) [dupkind]. -/

section Example
/-- a base `a` (gid 1, `top`, `bottom`), a mark `acute` (gid 2, `_top`, and `top` for stacking), a ligature `f_i`
    (gid 3, `top_1`, `top_2`); payloads are just numbers -/
def exGlyphs : List (Glyph Nat) :=
  [ { gid := 1, cls := some .base, anchors := [⟨.base "top".toList, 10⟩, ⟨.base "bottom".toList, 11⟩] },
    { gid := 2, cls := some .mark, anchors := [⟨.mark "top".toList, 20⟩, ⟨.base "top".toList, 21⟩] },
    { gid := 3, cls := some .ligature, anchors := [⟨.ligature "top".toList 1, 30⟩, ⟨.ligature "top".toList 2, 31⟩] } ]

theorem exGlyphs_gids : (exGlyphs.map (·.gid)).Pairwise (· ≠ ·) := by decide
theorem exGlyphs_kinds : ∀ g ∈ exGlyphs, (g.anchors.map (·.kind)).Pairwise (· ≠ ·) := by decide
theorem exGlyphs_lig : ∀ g ∈ exGlyphs, ∀ a ∈ g.anchors, ∀ n i, a.kind = .ligature n i → 1 ≤ i := by
  intro g hg a ha n i h
  simp only [exGlyphs, List.mem_cons, List.not_mem_nil, or_false] at hg
  rcases hg with rfl | rfl | rfl <;> simp at ha <;> rcases ha with rfl | rfl <;> simp_all <;> omega

/-- the pairs of the example: base, mark-to-mark and both ligature components -/
theorem exGlyphs_pairs : sourcePairs exGlyphs =
    [ ⟨.base, "top".toList, 1, 1, 10, 2, 20⟩, ⟨.mkmk, "top".toList, 2, 1, 21, 2, 20⟩,
      ⟨.lig, "top".toList, 3, 1, 30, 2, 20⟩, ⟨.lig, "top".toList, 3, 2, 31, 2, 20⟩ ] := by decide

/-- `every_pair_covered` applies to the second ligature component … -/
example : ((allLookups exGlyphs).filter (·.carries ⟨.lig, "top".toList, 3, 2, 31, 2, 20⟩)).length = 1 :=
  (every_pair_covered exGlyphs exGlyphs_gids exGlyphs_kinds exGlyphs_lig _
    (by rw [exGlyphs_pairs]; decide)).1
/-- … and the model really emits three lookups here (`bottom` has no mark, so no lookup). -/
example : (allLookups exGlyphs).map (fun l => (l.kind, l.name)) =
    [(LKind.base, "top".toList), (LKind.lig, "top".toList), (LKind.mkmk, "top".toList)] := by decide +kernel
example : (allLookups exGlyphs).map (·.marks) = [[(2, 20)], [(2, 20)], [(2, 20)]] := by decide +kernel
example : (allLookups exGlyphs).map (·.bases) =
    [[(1, [some 10])], [(3, [some 30, some 31])], [(2, [some 21])]] := by decide +kernel
end Example

/-! ## 3. Attachment -/

/-- A source anchor is well formed for `n` axes: every location has `n` coordinates, locations are pairwise
    distinct, and the default location is among them (the IR refuses anchors without a default position). -/
def WellFormed (n : Nat) (p : Positions) : Prop :=
  (∀ q ∈ p, q.1.length = n) ∧ (p.map (·.1)).Pairwise (· ≠ ·) ∧ List.replicate n 0 ∈ p.map (·.1)

/-- Each emitted anchor coordinate, evaluated at a location where the source defines the anchor, is within 1/2 of
    the rounded source coordinate, and equal to it at the default location.
    (Corollary of the C07 theorems `deltas_reproduce_rounded` and `default_exact` about `Model.new`, through
    `resolveMetric_eval`: the emitted default+deltas evaluate to the model's `interpolate`.) -/
theorem anchor_value_at_master (n : Nat) (p : Positions) (hp : WellFormed n p)
    (loc : Loc) (x y : Rat) (hl : (loc, x, y) ∈ p) :
    ratAbs (((resolveAnchor n p).at loc).1 - ((otRound x : Int) : Rat)) ≤ 1/2 ∧
    ratAbs (((resolveAnchor n p).at loc).2 - ((otRound y : Int) : Rat)) ≤ 1/2 ∧
    (loc = List.replicate n 0 →
      (resolveAnchor n p).at loc = (((otRound x : Int) : Rat), ((otRound y : Int) : Rat))) := by
  obtain ⟨hlen, hnd, hz⟩ := hp
  have hxl : ∀ q ∈ p.map (fun (q : Loc × Rat × Rat) => (q.1, q.2.1)), q.1.length = n := by
    intro q hq; obtain ⟨r, hr, rfl⟩ := List.mem_map.mp hq; exact hlen r hr
  have hyl : ∀ q ∈ p.map (fun (q : Loc × Rat × Rat) => (q.1, q.2.2)), q.1.length = n := by
    intro q hq; obtain ⟨r, hr, rfl⟩ := List.mem_map.mp hq; exact hlen r hr
  have hxn : ((p.map (fun (q : Loc × Rat × Rat) => (q.1, q.2.1))).map (fun q : Loc × Rat => q.1)).Pairwise (· ≠ ·) := by
    rw [List.map_map]; exact hnd
  have hyn : ((p.map (fun (q : Loc × Rat × Rat) => (q.1, q.2.2))).map (fun q : Loc × Rat => q.1)).Pairwise (· ≠ ·) := by
    rw [List.map_map]; exact hnd
  have hxz : List.replicate n 0 ∈ (p.map (fun (q : Loc × Rat × Rat) => (q.1, q.2.1))).map (fun q : Loc × Rat => q.1) := by
    rw [List.map_map]; exact hz
  have hyz : List.replicate n 0 ∈ (p.map (fun (q : Loc × Rat × Rat) => (q.1, q.2.2))).map (fun q : Loc × Rat => q.1) := by
    rw [List.map_map]; exact hz
  have hxm : (loc, x) ∈ p.map (fun (q : Loc × Rat × Rat) => (q.1, q.2.1)) := List.mem_map.mpr ⟨_, hl, rfl⟩
  have hym : (loc, y) ∈ p.map (fun (q : Loc × Rat × Rat) => (q.1, q.2.2)) := List.mem_map.mpr ⟨_, hl, rfl⟩
  refine ⟨resolveMetric_at_master n _ hxl hxn hxz loc x hxm, resolveMetric_at_master n _ hyl hyn hyz loc y hym, ?_⟩
  intro hloc
  subst hloc
  show ((resolveMetric n _).eval _, (resolveMetric n _).eval _) = _
  rw [resolveMetric_at_default n _ hxl hxn x hxm, resolveMetric_at_default n _ hyl hyn y hym]

/-- the emitted anchor of source positions `p`, evaluated at `loc` as OpenType evaluates it -/
def emittedAt (n : Nat) (p : Positions) (loc : Loc) : Rat × Rat := (resolveAnchor n p).at loc

/-- a source position rounded to font units (`ot_round` per coordinate) -/
def rounded (x y : Rat) : Rat × Rat := (((otRound x : Int) : Rat), ((otRound y : Int) : Rat))

/-- **Placing the mark by the emitted anchors makes the source anchors coincide.**
    `B = emittedAt n pb loc`, `M = emittedAt n pm loc`: the emitted base and mark anchors evaluated at a location
    `loc` where the source defines both (`(xb, yb)` on the attaching glyph, `(xm, ym)` on the mark).  With the GPOS
    offset `attach B M`:
    1. the emitted anchors coincide exactly;
    2. each emitted anchor is within 1/2 of the rounded source anchor, so the mark's rounded source anchor lands
       within 1 unit (1/2 + 1/2) of the attaching glyph's rounded source anchor in each coordinate;
    3. at the default location it lands exactly on it. -/
theorem attachment_coincides (n : Nat) (pb pm : Positions) (hb : WellFormed n pb) (hm : WellFormed n pm)
    (loc : Loc) (xb yb xm ym : Rat) (hlb : (loc, xb, yb) ∈ pb) (hlm : (loc, xm, ym) ∈ pm) :
    placed (attach (emittedAt n pb loc) (emittedAt n pm loc)) (emittedAt n pm loc) = emittedAt n pb loc ∧
    ratAbs ((placed (attach (emittedAt n pb loc) (emittedAt n pm loc)) (rounded xm ym)).1 - (rounded xb yb).1) ≤ 1 ∧
    ratAbs ((placed (attach (emittedAt n pb loc) (emittedAt n pm loc)) (rounded xm ym)).2 - (rounded xb yb).2) ≤ 1 ∧
    (loc = List.replicate n 0 →
      placed (attach (emittedAt n pb loc) (emittedAt n pm loc)) (rounded xm ym) = rounded xb yb) := by
  obtain ⟨b1, b2, b3⟩ := anchor_value_at_master n pb hb loc xb yb hlb
  obtain ⟨m1, m2, m3⟩ := anchor_value_at_master n pm hm loc xm ym hlm
  rw [ratAbs_le_iff] at b1 b2 m1 m2
  generalize hB : emittedAt n pb loc = B
  generalize hM : emittedAt n pm loc = M
  have hB' : (resolveAnchor n pb).at loc = B := hB
  have hM' : (resolveAnchor n pm).at loc = M := hM
  rw [hB'] at b1 b2 b3
  rw [hM'] at m1 m2 m3
  obtain ⟨B1, B2⟩ := B
  obtain ⟨M1, M2⟩ := M
  simp only [placed, attach, rounded] at *
  refine ⟨?_, ?_, ?_, ?_⟩
  · have e1 : (B1 - M1) + M1 = B1 := by grind
    have e2 : (B2 - M2) + M2 = B2 := by grind
    rw [e1, e2]
  · rw [ratAbs_le_iff]; constructor <;> grind
  · rw [ratAbs_le_iff]; constructor <;> grind
  · intro hloc
    have hB := b3 hloc
    have hM := m3 hloc
    simp only [Prod.mk.injEq] at hB hM
    obtain ⟨rfl, rfl⟩ := hB
    obtain ⟨rfl, rfl⟩ := hM
    have e1 : ∀ a b : Rat, (a - b) + b = a := by intro a b; grind
    rw [e1, e1]

section Example
/-- one axis, masters at 0, 1 and 1/2; the base anchor moves non-linearly and has a half-integer coordinate -/
def exBase : Positions := [([0], 250, 700), ([1], 301/2, 720), ([1/2], 260, 705)]
def exMark : Positions := [([0], 100, 0), ([1], 120, -10)]

theorem exBase_wf : WellFormed 1 exBase := by
  refine ⟨by decide +kernel, by decide +kernel, by decide +kernel⟩
theorem exMark_wf : WellFormed 1 exMark := by
  refine ⟨by decide +kernel, by decide +kernel, by decide +kernel⟩

/-- `attachment_coincides` applies at the master `[1]`, which both anchors define. -/
example :
    ratAbs ((placed (attach (emittedAt 1 exBase [1]) (emittedAt 1 exMark [1])) (rounded 120 (-10))).1
      - (rounded (301/2) 720).1) ≤ 1 :=
  (attachment_coincides 1 exBase exMark exBase_wf exMark_wf [1] (301/2) 720 120 (-10)
    (by decide +kernel) (by decide +kernel)).2.1
end Example

/-! ## 4. GDEF -/

/-- **Glyphs the source classifies as marks are GDEF marks**, and only those: the GDEF class value fontc writes
    for a glyph is 3 exactly when the source category is `mark`, whether categories are used as they are
    (`public.openTypeCategories`) or recomputed after anchor propagation (GlyphData). -/
theorem source_marks_are_gdef_marks (inferFromAnchors : Bool) (c : Option GClass) (kinds : List Kind) :
    gdefClassValue (finalCategory inferFromAnchors c kinds) = 3 ↔ c = some .mark := by
  by_cases h : kinds.any (fun k => !k.isMark) = true <;>
  cases inferFromAnchors <;> cases c with
  | none => simp [finalCategory, gdefClassValue, GClass.toNat, h]
  | some c => cases c <;> simp [finalCategory, gdefClassValue, GClass.toNat, h]

example : gdefClassValue (finalCategory true (some .mark) [.mark "top".toList]) = 3 :=
  (source_marks_are_gdef_marks true _ _).mpr rfl

end Fontc.C10
