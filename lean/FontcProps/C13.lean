/-
  C13 — The feature-file front end is total and lossless: the lexer part, proved.

  Model: FontcModel/FeaLex.lean (fea-rs/src/parse/lexer.rs as it is).  `lexAll inp` runs `next_token` until
  it reports `Eof` and returns the `(kind, len)` list; `lexAllFixed` is the same with the proposed fix
  (fixes/C13-nul.patch).  Inputs are Lean `String`s, i.e. exactly the valid UTF-8 byte sequences;
  `String.Pos.Raw.IsValid s ⟨p⟩` is core Lean's "byte offset `p` is a character boundary of `s`".

  The full statement is FALSE on the unchanged tree (NUL is the lexer's end-of-input sentinel), so — per the
  conventions — it is kept as `FullStatement`, proved under the explicit hypothesis "no NUL byte"
  (`lex_partition_partial`), refuted with a concrete witness (`lex_partition_counterexample`) and in general
  (`lex_truncates_at_nul`: every string containing U+0000 is a counterexample), and proved for the fixed lexer
  (`lex_partition_fixed`).  Helper lemmas: FontcProofs/FeaLex*.lean.
-/
import FontcProofs.FeaLexUtf8
import FontcProofs.FeaInclude

namespace Fontc.C13
open Fontc Fontc.FeaLex

/-- the tokens partition the string: positive lengths, summing to the byte length, every token end a
    character boundary -/
structure Partition (s : String) (toks : List (Kind × Nat)) : Prop where
  positive : ∀ t ∈ toks, 0 < t.2
  total : totalLen toks = s.utf8ByteSize
  boundary : ∀ p ∈ boundaries 0 toks, (String.Pos.Raw.mk p).IsValid s

/-- the property at full strength, for the lexer of the unchanged tree -/
def FullStatement : Prop := ∀ s : String, Partition s (lexAll s.toUTF8.data)

/-- `lex_terminates` (step form): `next_token` never leaves the input, and every token other than `Eof`
    consumes at least one byte — this is what makes `lexAll` a total function (it is its termination proof). -/
theorem lex_terminates (inp : Bytes) (st : LexState) (hle : st.pos ≤ inp.size) :
    st.pos ≤ (nextToken inp st).2.pos ∧ (nextToken inp st).2.pos ≤ inp.size ∧
    ((nextToken inp st).1 ≠ .eof → st.pos < (nextToken inp st).2.pos) :=
  nextTokenWith_progress true inp st hle

/-- For every valid UTF-8 input, with or without NUL bytes: the tokens that are produced have positive
    lengths and end on character boundaries inside the input (so `&text[pos..pos + len]` in
    `AstSink::token` can never panic). -/
theorem lex_boundaries_valid (s : String) :
    (∀ t ∈ lexAll s.toUTF8.data, 0 < t.2) ∧
    (∀ p ∈ boundaries 0 (lexAll s.toUTF8.data), 0 < p ∧ p ≤ s.utf8ByteSize ∧ (String.Pos.Raw.mk p).IsValid s) := by
  refine ⟨lexAllWith_pos true _ _, ?_⟩
  intro p hp
  have h := lexAllWith_boundaries true s.toUTF8.data {} p hp
  have hsz : s.toUTF8.data.size = s.utf8ByteSize := rfl
  exact ⟨h.2.1, by rw [← hsz]; exact h.2.2, endOK_isValid s p h.1 (by rw [← hsz]; exact h.2.2)⟩

theorem partition_of_total (s : String) (e : Bool)
    (ht : totalLen (lexAllWith e s.toUTF8.data {}) = s.utf8ByteSize) :
    Partition s (lexAllWith e s.toUTF8.data {}) := by
  have hsz : s.toUTF8.data.size = s.utf8ByteSize := rfl
  refine ⟨lexAllWith_pos e _ _, ht, ?_⟩
  intro p hp
  have h := lexAllWith_boundaries e s.toUTF8.data {} p hp
  exact endOK_isValid s p h.1 (by rw [← hsz]; exact h.2.2)

/-- `lex_partition` for every valid UTF-8 input without a NUL byte. -/
theorem lex_partition_partial (s : String) (hnul : ∀ b ∈ s.toUTF8.data.toList, b ≠ 0) :
    Partition s (lexAll s.toUTF8.data) := by
  apply partition_of_total s true
  have h := lexAllWith_total_eq true s.toUTF8.data {} (Nat.zero_le _) (Or.inr (by
    intro i hi
    rw [nth_eq_getElem _ i hi]
    exact hnul _ (by simp)))
  have hsz : s.toUTF8.data.size = s.utf8ByteSize := rfl
  simpa [hsz] using h

/-- `lex_partition` at full strength for the lexer with the proposed fix (fixes/C13-nul.patch). -/
theorem lex_partition_fixed (s : String) : Partition s (lexAllFixed s.toUTF8.data) := by
  apply partition_of_total s false
  have h := lexAllWith_total_eq false s.toUTF8.data {} (Nat.zero_le _) (Or.inl rfl)
  have hsz : s.toUTF8.data.size = s.utf8ByteSize := rfl
  simpa [hsz] using h

/-- The defect in general: if byte `k` of the input is NUL, the tokens of the unchanged lexer cover at most
    the first `k` bytes — everything after the first U+0000 is dropped. -/
theorem lex_truncates_at_nul (s : String) (k : Nat) (hk : k < s.utf8ByteSize)
    (hz : s.toUTF8.data[k]'hk = 0) : totalLen (lexAll s.toUTF8.data) ≤ k ∧ ¬ Partition s (lexAll s.toUTF8.data) := by
  have hsz : s.toUTF8.data.size = s.utf8ByteSize := rfl
  have hn : nth s.toUTF8.data k 0 = EOF := by
    have hk' : k < s.toUTF8.data.size := hk
    rw [nth_eq_getElem s.toUTF8.data k hk']
    exact hz
  have hle := lexAll_total_le_nul s.toUTF8.data k hn hk
  refine ⟨hle, ?_⟩
  intro hp
  have := hp.total
  omega

/-- the witness replayed on the real code: `"a\0b"` (bytes 61 00 62) lexes to a single 1-byte token -/
theorem lex_partition_counterexample : ¬ FullStatement := by
  intro h
  exact (lex_truncates_at_nul "a\x00b" 1 (by decide) (by decide)).2 (h _)

-- non-vacuity: the hypotheses of the theorems above are satisfiable, and the conclusions are not trivial
example : Partition "sub a by b;" (lexAll "sub a by b;".toUTF8.data) :=
  lex_partition_partial _ (by decide)
example : totalLen (lexAll "sub a by b;".toUTF8.data) = 11 :=
  (lex_partition_partial "sub a by b;" (by decide)).total
example : ∃ s : String, (∃ k, ∃ hk : k < s.utf8ByteSize, s.toUTF8.data[k]'hk = 0) :=
  ⟨"a\x00b", 1, by decide, by decide⟩
example : totalLen (lexAll "a\x00b".toUTF8.data) ≤ 1 :=
  (lex_truncates_at_nul "a\x00b" 1 (by decide) (by decide)).1

-- ------------------------------------------------------------------------------------------------
-- include resolution (fea-rs/src/parse/context.rs), model FontcModel/FeaInclude.lean

open Fontc.FeaInclude in
/-- `include_terminates`: the work-list loop of `ParseContext::parse` (visited set `parsed_files`) and the
    stack loop of `IncludeGraph::validate` (visited set `seen`, depth limit) admit no infinite run, on any
    include graph (cyclic or not). -/
theorem include_terminates (g : Graph) :
    WellFounded (fun s' s : LoadState => loadStep g s = some s') ∧
    WellFounded (fun s' s : VState => validateStep g s = some s') :=
  ⟨loadStep_wf g, validateStep_wf g⟩

open Fontc.FeaInclude in
/-- `include_cycle_reported`: whatever the include graph, once the statements reported by `validate` are
    skipped (as `generate_recurse` does), no file can be reached from itself: the recursive assembly of the
    tree follows an acyclic graph, so it terminates; and a graph in which the root can reach a cycle always
    gets at least one error. -/
theorem include_cycle_reported (g : Graph) (root : Nat) :
    (∀ v, Reach (keptEdge g (validate g root)) root v → ¬ ReachPlus (keptEdge g (validate g root)) v v) ∧
    ((∃ v, Reach (edge g) root v ∧ ReachPlus (edge g) v v) → validate g root ≠ []) :=
  ⟨validate_kept_acyclic g root, validate_reports_cycle g root⟩

-- non-vacuity: a graph in which the root reaches a cycle exists (a file that includes itself)
example : ∃ (g : FeaInclude.Graph) (root v : Nat),
    FeaInclude.Reach (FeaInclude.edge g) root v ∧ FeaInclude.ReachPlus (FeaInclude.edge g) v v :=
  ⟨[[0]], 0, 0, .refl 0, .single ⟨0, rfl⟩⟩

end Fontc.C13

#print axioms Fontc.C13.lex_terminates
#print axioms Fontc.C13.lex_boundaries_valid
#print axioms Fontc.C13.lex_partition_partial
#print axioms Fontc.C13.lex_partition_fixed
#print axioms Fontc.C13.lex_truncates_at_nul
#print axioms Fontc.C13.lex_partition_counterexample
#print axioms Fontc.C13.include_terminates
#print axioms Fontc.C13.include_cycle_reported
