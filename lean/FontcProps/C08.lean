/-
  C08 — Axis ranges and the user/design/normalized mapping survive into fvar and avar.

  Model: FontcModel/Plm.lean (`PiecewiseLinearMap`, `CoordConverter`), FontcModel/Avar.lean
  (`to_segment_map`, fvar record; spec side: `defaultNormalize`, `avarApply`, `designNormalize`).
  Property theorems only; helper lemmas live in FontcProofs/Plm*.lean.

  An axis definition `a : AxisDef` is what a source states: user:design examples (in any order), the index of
  the default example, and the user bounds. `a.WellFormed`: once sorted by user value the examples have strictly
  increasing user and non-decreasing design values, the default example carries the axis default, and the axis
  minimum / maximum are the first / last example. `a.axis? = some ax` is the axis fontc builds from it.
-/
import FontcProofs.PlmQ3

namespace Fontc.C08
open Fontc Fontc.Plm Fontc.Avar Fontc.PlmProofs

/-- **avar_agrees.** For every well-formed axis and *every* rational user coordinate in `[min, max]`:
    normalising with fvar (default normalisation) and then applying the (unquantised) segment map that
    `to_segment_map` builds gives exactly the source's user → design mapping followed by design normalisation
    (design default ↦ 0, design min ↦ -1, design max ↦ +1). -/
theorem avar_agrees (a : AxisDef) (h : a.WellFormed) (ax : Axis) (hax : a.axis? = some ax) (u : Rat)
    (hmin : a.min ≤ u) (hmax : u ≤ a.max) :
    avarApply (segmentMapExact ax) (defaultNormalize a.min a.default a.max u) =
      designNormalize a.designMin a.designDefault a.designMax (ax.conv.toDesign u) :=
  wf_avar_agrees a h ax hax u hmin hmax

/-- fontc's own user → normalized conversion (used for master locations, gvar regions …) is that same
    "user → design, then design normalisation". Together with `avar_agrees`: fvar∘avar = fontc's normalisation. -/
theorem to_normalized_is_design_normalize (a : AxisDef) (h : a.WellFormed) (ax : Axis) (hax : a.axis? = some ax)
    (u : Rat) (hmin : a.min ≤ u) (hmax : u ≤ a.max) :
    ax.conv.toNormalized u = designNormalize a.designMin a.designDefault a.designMax (ax.conv.toDesign u) :=
  wf_toNormalized a h ax hax u hmin hmax

/-- `user → design` is the linear interpolation of the source's examples: between two adjacent examples
    `p`, `q` (end points included) it is the straight line through them. -/
theorem user_to_design_interpolates (a : AxisDef) (h : a.WellFormed) (ax : Axis) (hax : a.axis? = some ax)
    (l r : List Pt) (p q : Pt) (hadj : a.nodes = l ++ p :: q :: r) (u : Rat) (h1 : p.1 ≤ u) (h2 : u ≤ q.1) :
    ax.conv.toDesign u = p.2 + (u - p.1) * (q.2 - p.2) / (q.1 - p.1) := by
  obtain ⟨ax', hax', _, _, _, hu2d, _⟩ := wf_axis a h
  have : ax = ax' := by rw [hax] at hax'; exact Option.some.inj hax'
  subst this
  unfold Conv.toDesign
  rw [hu2d]
  exact map_consec a.nodes (wf_sorted a h).strict p q ⟨l, r, hadj⟩ u h1 h2

/-- `CoordConverter::default_normalization` (the first half of `to_segment_map`) is the fvar default
    normalisation of the OpenType spec on `[min, max]`. -/
theorem default_converter_is_fvar_normalization (mn df mx u : Rat) (h1 : mn ≤ df) (h2 : df ≤ mx)
    (hu1 : mn ≤ u) (hu2 : u ≤ mx) :
    (Conv.defaultNormalization mn df mx).toNormalized u = defaultNormalize mn df mx u :=
  defaultConv_toNormalized mn df mx u h1 h2 hu1 hu2

/-- **segmap_has_required** (partial). `-1:-1`, `0:0`, `1:1` are present in the exact and in the emitted
    (F2Dot14) map — *provided* that, when the axis extends below its default, the design range does too
    (`hleft`). Without `hleft` the statement is false: see `SegmapRequiredFull` below. -/
theorem segmap_has_required_partial (a : AxisDef) (h : a.WellFormed) (ax : Axis) (hax : a.axis? = some ax)
    (hleft : a.min < a.default → a.designMin < a.designDefault) :
    hasRequired (segmentMapExact ax) = true ∧
    ((-16384 : Int), (-16384 : Int)) ∈ segmentMap ax ∧ ((0 : Int), (0 : Int)) ∈ segmentMap ax ∧
    ((16384 : Int), (16384 : Int)) ∈ segmentMap ax :=
  wf_required a h ax hax hleft

/-- The property as stated (every well-formed axis definition, flat segments included). -/
def SegmapRequiredFull : Prop :=
  ∀ (a : AxisDef), a.WellFormed → ∀ ax, a.axis? = some ax → hasRequired (segmentMapExact ax) = true

/-- Witness: user 100..400 all mapped to design 400 (flat below the default), 700 ↦ 700. -/
def flatBelowDefault : AxisDef := ⟨[(100, 400), (400, 400), (700, 700)], 1, 100, 400, 700⟩

theorem flatBelowDefault_wf : flatBelowDefault.WellFormed :=
  ⟨by decide, ⟨400, by decide⟩, ⟨400, by decide⟩, ⟨700, by decide⟩⟩

/-- … for which `to_segment_map` emits `-1:0, 0:0, 1:1`: the required `-1:-1` entry is missing. -/
theorem flatBelowDefault_segmap :
    flatBelowDefault.axis?.map segmentMap = some [(-16384, 0), (0, 0), (16384, 16384)] := by decide +kernel

theorem segmap_has_required_counterexample : ¬ SegmapRequiredFull := by
  intro hfull
  have hax : ∃ ax, flatBelowDefault.axis? = some ax ∧ hasRequired (segmentMapExact ax) = false := by decide
  obtain ⟨ax, hax, hfalse⟩ := hax
  have := hfull flatBelowDefault flatBelowDefault_wf ax hax
  rw [hfalse] at this
  exact Bool.noConfusion this

/-- **segmap_monotone.** from- and to-coordinates never decrease along the map, before and after
    quantisation to F2Dot14. -/
theorem segmap_monotone (a : AxisDef) (h : a.WellFormed) (ax : Axis) (hax : a.axis? = some ax) :
    monotone (segmentMapExact ax) = true ∧ monotone (qpts (segmentMap ax)) = true :=
  wf_monotone a h ax hax

/-- **avar_quantised_bound** (vertices). If the emitted F2Dot14 `fromCoordinate`s are pairwise distinct, then at every
    example of the source, feeding the F2Dot14-rounded default-normalised coordinate through the emitted map
    gives the example's design-normalised coordinate to within half an F2Dot14 unit (2⁻¹⁵). -/
theorem avar_quantised_bound_nodes (a : AxisDef) (h : a.WellFormed) (ax : Axis) (hax : a.axis? = some ax)
    (hdistinct : strictFrom (qpts (segmentMap ax)) = true) (n : Pt) (hn : n ∈ a.nodes) :
    ratAbs (avarApply (qpts (segmentMap ax)) (qv (defaultNormalize a.min a.default a.max n.1)) -
            designNormalize a.designMin a.designDefault a.designMax n.2) ≤ 1 / 32768 :=
  wf_quantised_nodes a h ax hax hdistinct n hn

/-- **avar_quantised_bound** (every coordinate). What a rasteriser computes — default normalisation, rounding to
    F2Dot14, the emitted F2Dot14 segment map — differs from the source's design-normalised coordinate by at most
    `2⁻¹⁵ · (1 + 2 L)`, where `L` is a Lipschitz constant (largest slope) of the exact map on `[-1, 1]`:
    one half unit for the rounded to-coordinates, `L` half units for the rounded from-coordinates and `L` for the
    rounded input. Hypothesis `hdistinct`: rounding did not merge two `fromCoordinate`s. -/
theorem avar_quantised_bound (a : AxisDef) (h : a.WellFormed) (ax : Axis) (hax : a.axis? = some ax)
    (hdistinct : strictFrom (qpts (segmentMap ax)) = true) (L : Rat) (hL : 0 ≤ L)
    (hLip : ∀ s t, -1 ≤ s → s ≤ 1 → -1 ≤ t → t ≤ 1 →
      ratAbs (avarApply (segmentMapExact ax) s - avarApply (segmentMapExact ax) t) ≤ L * ratAbs (s - t))
    (u : Rat) (hmin : a.min ≤ u) (hmax : u ≤ a.max) :
    ratAbs (avarApply (qpts (segmentMap ax)) (qv (defaultNormalize a.min a.default a.max u)) -
            designNormalize a.designMin a.designDefault a.designMax (ax.conv.toDesign u)) ≤ 1 / 32768 * (1 + 2 * L) :=
  wf_quantised_bound a h ax hax hdistinct L hL hLip u hmin hmax

/-- **fvar_bounds.** The fvar axis record is the user bounds converted to 16.16: ordered; within half a
    16.16 unit of the bounds when they are in the 16.16 range; exactly the bounds when they are on the grid. -/
theorem fvar_bounds (a : AxisDef) (h : a.WellFormed) (ax : Axis) (hax : a.axis? = some ax) :
    fvarRecord ax = (fixed16 a.min, fixed16 a.default, fixed16 a.max) ∧
    fixed16 a.min ≤ fixed16 a.default ∧ fixed16 a.default ≤ fixed16 a.max := by
  obtain ⟨ax', hax', e1, e2, e3, _, _⟩ := wf_axis a h
  have : ax = ax' := by rw [hax] at hax'; exact Option.some.inj hax'
  subst this
  obtain ⟨o1, o2, _, _⟩ := (wf_sorted a h).order
  exact ⟨by simp [fvarRecord, e1, e2, e3], fixed16_mono _ _ o1, fixed16_mono _ _ o2⟩

theorem fixed16_close (x : Rat) (h1 : -32768 ≤ x) (h2 : x ≤ 2147483647 / 65536) :
    ratAbs (fixed16Val (fixed16 x) - x) ≤ 1 / 131072 := by
  have := fixed16_err x h1 h2
  exact ratAbs_le_and _ _ ⟨by linarith [this.2], by linarith [this.1]⟩

theorem fixed16_exact_on_grid (k : Int) (h1 : -2147483648 ≤ k) (h2 : k ≤ 2147483647) :
    fixed16Val (fixed16 ((k : Rat) / 65536)) = (k : Rat) / 65536 := by
  rw [fixed16_exact k h1 h2]; rfl

/-- **instances_in_range.** A named instance whose design location lies within the axis' design range gets a
    user coordinate within `[min, max]`, and its 16.16 fvar coordinate lies within the fvar record's bounds. -/
theorem instances_in_range (a : AxisDef) (h : a.WellFormed) (ax : Axis) (hax : a.axis? = some ax) (d : Rat)
    (hd1 : a.designMin ≤ d) (hd2 : d ≤ a.designMax) :
    a.min ≤ ax.conv.designToUserMap d ∧ ax.conv.designToUserMap d ≤ a.max ∧
    (fvarRecord ax).1 ≤ fvarInstanceCoord ax (some (ax.conv.designToUserMap d)) ∧
    fvarInstanceCoord ax (some (ax.conv.designToUserMap d)) ≤ (fvarRecord ax).2.2 :=
  wf_instances_in_range a h ax hax d hd1 hd2

/-- `Fontc.f2dot14Bits` of Basic.lean is `F2Dot14::from_f64` as font-types 0.12.5 implements it. -/
theorem f2dot14_matches_basic (x : Rat) : f2dot14 x = Fontc.f2dot14Bits x := f2dot14_eq_basic x

/-! ### Non-vacuity: the hypotheses are satisfiable, with a non-trivial map -/

/-- fontbe/src/avar.rs test `simple_functional_segment_map`, listed out of order. -/
def sample : AxisDef := ⟨[(700, 19), (100, -10), (800, 20), (400, 0)], 3, 100, 400, 800⟩

theorem sample_wf : sample.WellFormed :=
  ⟨by decide, ⟨0, by decide⟩, ⟨-10, by decide⟩, ⟨20, by decide⟩⟩

example : ∃ ax, sample.axis? = some ax ∧ segmentMap ax = [(-16384, -16384), (0, 0), (12288, 15565), (16384, 16384)] ∧
    strictFrom (qpts (segmentMap ax)) = true ∧ (sample.min < sample.default → sample.designMin < sample.designDefault) := by
  decide +kernel

example : ∃ ax, sample.axis? = some ax ∧
    avarApply (segmentMapExact ax) (defaultNormalize sample.min sample.default sample.max 750) =
      designNormalize sample.designMin sample.designDefault sample.designMax (ax.conv.toDesign 750) ∧
    ax.conv.toDesign 750 = 39 / 2 := by
  obtain ⟨ax, hax⟩ : ∃ ax, sample.axis? = some ax := by
    cases h : sample.axis? with
    | none => exact absurd h (by decide +kernel)
    | some ax => exact ⟨ax, rfl⟩
  refine ⟨ax, hax, avar_agrees sample sample_wf ax hax 750 (by decide) (by decide), ?_⟩
  have : sample.axis?.map (fun ax => ax.conv.toDesign 750) = some (39 / 2) := by decide +kernel
  rw [hax] at this
  exact Option.some.inj this

/-- non-vacuity of `avar_quantised_bound`: an unmapped axis (identity map, `L = 1`) -/
def plain : AxisDef := ⟨[(100, 100), (400, 400), (700, 700)], 1, 100, 400, 700⟩

theorem plain_wf : plain.WellFormed :=
  ⟨by decide, ⟨400, by decide⟩, ⟨100, by decide⟩, ⟨700, by decide⟩⟩

example : ∃ ax, plain.axis? = some ax ∧
    ratAbs (avarApply (qpts (segmentMap ax)) (qv (defaultNormalize plain.min plain.default plain.max 333)) -
            designNormalize plain.designMin plain.designDefault plain.designMax (ax.conv.toDesign 333)) ≤ 1 / 32768 * (1 + 2 * 1) := by
  have hex : ∃ ax, plain.axis? = some ax ∧ segmentMapExact ax = defaultSegmentMap ∧
      strictFrom (qpts (segmentMap ax)) = true := by decide +kernel
  obtain ⟨ax, hax, hseg, hstrict⟩ := hex
  refine ⟨ax, hax, avar_quantised_bound plain plain_wf ax hax hstrict 1 (by decide) ?_ 333 (by decide) (by decide)⟩
  intro s t _ _ _ _
  rw [hseg, avarApply_ident _ s (by decide), avarApply_ident _ t (by decide)]
  simp

end Fontc.C08
