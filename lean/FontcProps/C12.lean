/-
  C12 — Component handling options never change what a glyph looks like.

  Model: FontcModel/Components.lean — one location of the designspace; `G : Env` maps a glyph name to its instance
  there (contours + components (base, affine)); `resolve G fuel n` is what a TrueType rasteriser draws for `n`
  (components resolved recursively, points transformed).  `Fits G rk` is the explicit acyclicity hypothesis (a rank
  that strictly decreases along every component edge; no bound on depth or size), `rk n < fuel` says the fuel is
  not exhausted (by `resolve_fuel_irrelevant` the value does not depend on which such fuel is used).

  The relation that is TRUE of the code, and the weakest one needed: `SameDrawing xs ys` = the same multiset of
  contours, each up to its direction.  Direction is NOT preserved: fontc (like ufo2ft) reverses a contour that is
  decomposed through a transform of negative determinant, while a composite that keeps the flipped component is
  drawn with the points in stored order; `decompose_oriented` states exactly which contours end up reversed.
  `flatten` preserves the outline as a LIST (same contours, same order, same direction, same start points).

  Every theorem is exact over ℚ.  What happens when the result is stored (otRound'ed offsets, F2Dot14 2×2) is
  `rounding_per_level` / `rounding_general_2x2`; that flattening can compose two representable 2×2s into one that
  F2Dot14 cannot hold (and fontbe then saturates) is `flatten_keeps_representable_false` — a genuine defect of
  the unchanged code, replayed end to end by the `c12e2e` stream (class `flatten-overflow-saturated`).
-/
import FontcModel.Components
import FontcProofs.Components
import FontcProofs.ComponentsOps
import FontcProofs.ComponentsSteps
import FontcProofs.Rounding

namespace Fontc.C12
open Fontc Fontc.Components

/-! ### Affine helper laws -/

theorem affine_comp_assoc (s t u : Affine) : (s.comp t).comp u = s.comp (t.comp u) := Affine.comp_assoc s t u

/-- Applying a composition is applying the inner map first (kurbo `A * B`). -/
theorem apply_comp (s t : Affine) (p : Pt) : (s.comp t).apply p = s.apply (t.apply p) := Affine.apply_comp s t p

theorem det_comp (s t : Affine) : (s.comp t).det = s.det * t.det := Affine.det_comp s t

/-- With enough fuel the outline does not depend on the fuel. -/
theorem resolve_fuel_irrelevant (G : Env) (rk : String → Nat) (hfit : Fits G rk) (f f' : Nat) (n : String)
    (h : rk n < f) (h' : rk n < f') : resolve G f n = resolve G f' n :=
  resolveWith_stable applyC G rk hfit f f' n h h'

/-! ### The operations -/

/-- flatten_glyph: replacing the components of `n` by the leaves below them with composed transforms leaves the
    outline of EVERY glyph `m` unchanged, as a list.  `hmix` is the code's stated assumption that no mixed
    contour+component glyph is reachable (glyph.rs:615); `F` is the fuel of the model's flatten loop. -/
theorem flatten_preserves (G : Env) (rk : String → Nat) (hfit : Fits G rk) (n : String) (i : Inst)
    (hG : G n = some i) (F : Nat) (hF : rk n ≤ F) (hmix : ∀ c ∈ i.comps, NoMixedFrom G c.base)
    (f : Nat) (m : String) (hm : rk m < f) :
    resolve (G.set n (flattenInst G F i)) f m = resolve G f m := by
  refine set_cong congEq G rk hfit n i _ hG (flattenInst_rank G rk hfit F n i hG) ?_ f m hm
  intro f' hf'
  apply flattenInst_resolve applyC applyC_comp G rk hfit f' F i
  · intro c hc; have := hfit n i hG c hc; omega
  · intro c hc; have := hfit n i hG c hc; omega
  · exact hmix

/-- convert_components_to_contours: the glyph becomes contour-only and every glyph `m` is drawn with the same
    contours up to order and direction. -/
theorem decompose_preserves (G : Env) (rk : String → Nat) (hfit : Fits G rk) (n : String) (i : Inst)
    (hG : G n = some i) (F : Nat) (hF : rk n ≤ F) (f : Nat) (m : String) (hm : rk m < f) :
    (decomposeInst G F i).comps = [] ∧
    SameDrawing (resolve (G.set n (decomposeInst G F i)) f m) (resolve G f m) := by
  refine ⟨rfl, ?_⟩
  refine set_cong congSame G rk hfit n i _ hG (by intro c hc; simp [decomposeInst] at hc) ?_ f m hm
  intro f' hf'
  apply decomposeInst_resolve G rk hfit f' F i
  · intro c hc; have := hfit n i hG c hc; omega
  · intro c hc; have := hfit n i hG c hc; omega

/-- Exactly which direction each decomposed contour has: the decomposed glyph's contours are, up to order, the
    orientation-corrected outline `resolveO` (a contour is reversed iff the determinant of its accumulated
    transform is negative). -/
theorem decompose_oriented (G : Env) (rk : String → Nat) (hfit : Fits G rk) (n : String) (i : Inst)
    (hG : G n = some i) (F : Nat) (hF : rk n ≤ F) (f : Nat) (hf : rk n < f) :
    List.Perm (decomposeInst G F i).contours (resolveO G f n) := by
  obtain ⟨f0, rfl⟩ : ∃ f0, f = f0 + 1 := ⟨f - 1, by omega⟩
  have hid : orient Affine.id = id := by
    funext c
    have : ¬ (Affine.id.det < 0) := by decide +kernel
    simp [orient, this, applyC_id]
  simp only [decomposeInst, resolveO, resolveAcc, hG, hid, List.map_id, Affine.id_comp]
  apply List.Perm.append_left
  apply decomposeLevels_perm G rk hfit f0 F i.comps
  · intro c hc; have := hfit n i hG c hc; omega
  · intro c hc; have := hfit n i hG c hc; omega

/-- The orientation-corrected outline is the drawn outline up to the direction of each contour. -/
theorem oriented_same_up_to_direction (G : Env) (f : Nat) (n : String) : RevEq (resolveO G f n) (resolve G f n) :=
  resolveO_revEq_resolve G f n

/-- flatten_non_export_components_for_glyph: inlining the non-exported components of `n` (their contours,
    transformed and reversed when the determinant is negative, and their components, composed) leaves every glyph
    `m` drawn with the same contours up to order and direction. -/
theorem inline_nonexport_preserves (G : Env) (rk : String → Nat) (hfit : Fits G rk) (exported : String → Bool)
    (n : String) (i : Inst) (hG : G n = some i) (f : Nat) (m : String) (hm : rk m < f) :
    SameDrawing (resolve (G.set n (inlineInst G exported i)) f m) (resolve G f m) := by
  refine set_cong congSame G rk hfit n i _ hG (inlineInst_rank G rk hfit exported n i hG) ?_ f m hm
  intro f' hf'
  apply inlineInst_resolve G rk hfit exported f' i
  intro c hc; have := hfit n i hG c hc; omega

/-- split_glyph / move_contours_to_new_component: moving the contours of a mixed glyph `n` into a new glyph `nn`
    (fresh: neither a glyph nor referenced) used as an identity component keeps every existing glyph's contours
    (up to order); the component graph stays acyclic with the new glyph at rank 0. -/
theorem split_preserves (G : Env) (rk : String → Nat) (hfit : Fits G rk) (n nn : String) (i : Inst)
    (hG : G n = some i) (hne : i.comps ≠ []) (hfresh : Fresh G nn) :
    let G' := (G.set nn (splitInst i nn).1).set n (splitInst i nn).2
    Fits G' (splitRank rk nn) ∧
    ∀ (f : Nat) (m : String), m ≠ nn → rk m < f → SameDrawing (resolve G' f m) (resolve G f m) := by
  intro G'
  have hnn : n ≠ nn := by intro h; subst h; rw [hfresh.1] at hG; cases hG
  let rk' := splitRank rk nn
  have hfit0 : Fits G rk' := hfit.splitRank nn hfresh
  have hfit1 : Fits (G.set nn (splitInst i nn).1) rk' := hfit0.set nn _ (by intro c hc; simp [splitInst] at hc)
  have hG1 : (G.set nn (splitInst i nn).1) n = some i := by simp [Env.set, hnn, hG]
  have hrkn : rk' n = rk n := by simp [rk', splitRank, hnn]
  have hpos : 0 < rk n := by
    cases hc : i.comps with
    | nil => exact absurd hc hne
    | cons c _ => have := hfit n i hG c (by simp [hc]); omega
  have hcomps : ∀ c ∈ (splitInst i nn).2.comps, rk' c.base < rk' n := by
    intro c hc
    simp only [splitInst, List.mem_append, List.mem_singleton] at hc
    rcases hc with hc | hc
    · have h1 := hfresh.2 n i hG c hc
      have h2 := hfit n i hG c hc
      simp only [rk', splitRank, h1, hnn, if_false]; exact h2
    · subst hc; simp only [rk', splitRank, hnn, if_true, if_false]; exact hpos
  refine ⟨hfit1.set n _ hcomps, ?_⟩
  intro f m hmnn hm
  have hm' : rk' m < f := by simp [rk', splitRank, hmnn]; exact hm
  have step2 := set_cong congSame (G.set nn (splitInst i nn).1) rk' hfit1 n i _ hG1 hcomps (fun f' hf' => by
    obtain ⟨f0, rfl⟩ : ∃ f0, f' = f0 + 1 := ⟨f' - 1, by omega⟩
    simp only [resolveInst, splitInst, List.nil_append, List.flatMap_append, List.flatMap_cons, List.flatMap_nil,
      List.append_nil]
    have hnnres : resolveWith applyC (G.set nn { i with comps := [] }) (f0 + 1) nn = i.contours := by
      simp [resolveWith, Env.set]
    rw [hnnres]
    have : List.map (applyC Affine.id) i.contours = i.contours := by
      have : applyC Affine.id = id := funext applyC_id
      rw [this, List.map_id]
    rw [this]
    exact SameDrawing.of_perm List.perm_append_comm) f m hm'
  rw [← resolve_set_fresh G nn (splitInst i nn).1 hfresh f m hmnn]
  exact step2

/-- None of the operations touches the advance: a glyph's advance is its own, never a component's. -/
theorem advance_preserved (G : Env) (exported : String → Bool) (F : Nat) (i : Inst) (nn : String) :
    (flattenInst G F i).advance = i.advance ∧ (decomposeInst G F i).advance = i.advance ∧
    (inlineInst G exported i).advance = i.advance ∧ (splitInst i nn).2.advance = i.advance :=
  ⟨rfl, rfl, rfl, rfl⟩

/-! ### Any sequence of the operations, in any order -/

/-- One step of GlyphOrderWork::exec on (environment, rank): any of the four operations applied to any glyph,
    with the side conditions under which the code applies them. -/
inductive Step (exported : String → Bool) : Env × (String → Nat) → Env × (String → Nat) → Prop
  | flatten {G : Env} {rk : String → Nat} {n : String} {i : Inst} {F : Nat} :
      G n = some i → rk n ≤ F → (∀ c ∈ i.comps, NoMixedFrom G c.base) →
      Step exported (G, rk) (G.set n (flattenInst G F i), rk)
  | decompose {G : Env} {rk : String → Nat} {n : String} {i : Inst} {F : Nat} :
      G n = some i → rk n ≤ F → Step exported (G, rk) (G.set n (decomposeInst G F i), rk)
  | inline {G : Env} {rk : String → Nat} {n : String} {i : Inst} :
      G n = some i → Step exported (G, rk) (G.set n (inlineInst G exported i), rk)
  | split {G : Env} {rk : String → Nat} {n nn : String} {i : Inst} :
      G n = some i → i.comps ≠ [] → Fresh G nn →
      Step exported (G, rk) ((G.set nn (splitInst i nn).1).set n (splitInst i nn).2, splitRank rk nn)

inductive Steps (exported : String → Bool) : Env × (String → Nat) → Env × (String → Nat) → Prop
  | refl (s) : Steps exported s s
  | tail {s t u} : Steps exported s t → Step exported t u → Steps exported s u

/-- What every step and every sequence of steps preserves. -/
def Preserves (s t : Env × (String → Nat)) : Prop :=
  (Fits s.1 s.2 → Fits t.1 t.2) ∧
  (Fits s.1 s.2 → ∀ m, s.1 m ≠ none →
    t.1 m ≠ none ∧ advanceOf t.1 m = advanceOf s.1 m ∧
    ∀ f f', s.2 m < f → t.2 m < f' → SameDrawing (resolve t.1 f' m) (resolve s.1 f m))

theorem step_preserves (exported : String → Bool) (s t : Env × (String → Nat)) (h : Step exported s t) :
    Preserves s t := by
  cases h with
  | @flatten G rk n i F hG hF hmix =>
    refine ⟨fun hfit => hfit.set n _ (flattenInst_rank G rk hfit F n i hG), fun hfit m hm => ⟨?_, ?_, ?_⟩⟩
    · simp only [Env.set]; split <;> simp_all
    · simp only [advanceOf, Env.set]; split
      · next h => subst h; simp [hG, flattenInst]
      · rfl
    · intro f f' hf hf'
      rw [flatten_preserves G rk hfit n i hG F hF hmix f' m hf']
      exact SameDrawing.of_eq (resolve_fuel_irrelevant G rk hfit f' f m hf' hf)
  | @decompose G rk n i F hG hF =>
    refine ⟨fun hfit => hfit.set n _ (by intro c hc; simp [decomposeInst] at hc), fun hfit m hm => ⟨?_, ?_, ?_⟩⟩
    · simp only [Env.set]; split <;> simp_all
    · simp only [advanceOf, Env.set]; split
      · next h => subst h; simp [hG, decomposeInst]
      · rfl
    · intro f f' hf hf'
      refine SameDrawing.trans (decompose_preserves G rk hfit n i hG F hF f' m hf').2 ?_
      exact SameDrawing.of_eq (resolve_fuel_irrelevant G rk hfit f' f m hf' hf)
  | @inline G rk n i hG =>
    refine ⟨fun hfit => hfit.set n _ (inlineInst_rank G rk hfit exported n i hG), fun hfit m hm => ⟨?_, ?_, ?_⟩⟩
    · simp only [Env.set]; split <;> simp_all
    · simp only [advanceOf, Env.set]; split
      · next h => subst h; simp [hG, inlineInst]
      · rfl
    · intro f f' hf hf'
      refine SameDrawing.trans (inline_nonexport_preserves G rk hfit exported n i hG f' m hf') ?_
      exact SameDrawing.of_eq (resolve_fuel_irrelevant G rk hfit f' f m hf' hf)
  | @split G rk n nn i hG hne hfresh =>
    have hnn : n ≠ nn := by intro h; subst h; rw [hfresh.1] at hG; cases hG
    refine ⟨fun hfit => (split_preserves G rk hfit n nn i hG hne hfresh).1, fun hfit m hm => ?_⟩
    have hmnn : m ≠ nn := by intro h; subst h; exact hm hfresh.1
    refine ⟨?_, ?_, ?_⟩
    · simp only [Env.set]; split
      · simp
      · simp; exact hm
    · simp only [advanceOf, Env.set]
      by_cases hmn : m = n
      · subst hmn; simp [hG, splitInst]
      · simp [hmn, hmnn]
    · intro f f' hf hf'
      have hf'' : rk m < f' := by simpa [splitRank, hmnn] using hf'
      refine SameDrawing.trans ((split_preserves G rk hfit n nn i hG hne hfresh).2 f' m hmnn hf'') ?_
      exact SameDrawing.of_eq (resolve_fuel_irrelevant G rk hfit f' f m hf'' hf)

/-- HEADLINE.  Whatever sequence of flatten / decompose / inline-non-export / split steps the option flags make
    GlyphOrderWork::exec perform, in whatever order and on whichever glyphs: the component graph stays acyclic,
    and every glyph of the source keeps its advance and is drawn with the same contours (up to order and
    direction) — for all acyclic component graphs, no bound on depth or size. -/
theorem any_sequence_preserves (exported : String → Bool) (G G' : Env) (rk rk' : String → Nat)
    (h : Steps exported (G, rk) (G', rk')) (hfit : Fits G rk) :
    Fits G' rk' ∧ ∀ m, G m ≠ none →
      advanceOf G' m = advanceOf G m ∧
      ∀ f f', rk m < f → rk' m < f' → SameDrawing (resolve G' f' m) (resolve G f m) := by
  have key : ∀ s t, Steps exported s t → Preserves s t := by
    intro s t h
    induction h with
    | refl =>
      exact ⟨id, fun hfit m hm => ⟨hm, rfl, fun f f' hf hf' =>
        SameDrawing.of_eq (resolve_fuel_irrelevant s.1 s.2 hfit f' f m hf' hf)⟩⟩
    | @tail t u _ hstep ih =>
      have hs := step_preserves exported t u hstep
      refine ⟨fun hfit => hs.1 (ih.1 hfit), fun hfit m hm => ?_⟩
      obtain ⟨hm1, ha1, hd1⟩ := ih.2 hfit m hm
      obtain ⟨hm2, ha2, hd2⟩ := hs.2 (ih.1 hfit) m hm1
      refine ⟨hm2, ha2.trans ha1, fun f f' hf hf' => ?_⟩
      exact SameDrawing.trans (hd2 (t.2 m + 1) f' (Nat.lt_succ_self _) hf') (hd1 f (t.2 m + 1) hf (Nat.lt_succ_self _))
  obtain ⟨k1, k2⟩ := key _ _ h
  refine ⟨k1 hfit, fun m hm => ?_⟩
  obtain ⟨_, ha, hd⟩ := k2 hfit m hm
  exact ⟨ha, hd⟩

/-! ### Storing the result: rounding -/

/-- Storing every component offset otRound'ed (fontbe create_component_ref_gid) moves every resolved point by at
    most 1/2 unit per nesting level (max norm) — hence at most 1 per level together with the ≤ 1/2 of a rounded
    gvar delta — for translate-only components, every acyclic graph, every glyph. -/
theorem rounding_per_level (G : Env) (rk : String → Nat) (hfit : Fits G rk) (htr : TranslateOnly G)
    (f : Nat) (n : String) (hn : rk n < f) :
    CloseCs ((rk n : Rat) * (1/2)) (resolve (roundOffsets G) f n) (resolve G f n) := by
  apply perturbed_offsets_close (1/2) (by decide +kernel) G (roundOffsets G) rk hfit htr ?_ f n hn
  intro m
  simp only [roundOffsets]
  cases hGm : G m with
  | none => simp
  | some i =>
    simp only [Option.map_some, List.length_map, true_and]
    intro k c c' hc hc'
    simp only [List.getElem?_map, hc, Option.map_some, Option.some.injEq] at hc'
    subst hc'
    have hmem : c ∈ i.comps := List.mem_of_getElem? hc
    obtain ⟨a1, b1, c1, d1⟩ := htr m i hGm c hmem
    refine ⟨rfl, ⟨a1, b1, c1, d1⟩, ?_, ?_⟩
    · exact otRound_abs_le c.t.e
    · exact otRound_abs_le c.t.f

/-- The general 2×2 case, with its explicit bound: along a chain of component transforms (outermost first) whose
    stored offsets are within ε of the true ones (ε = 1/2 for otRound) and whose 2×2 parts are stored exactly, a
    point moves by at most ε · Σ_k Π_{j<k} ‖A_j‖∞ (row-sum norm): a rounding error made at depth k is amplified
    by the scales of the k−1 enclosing components. -/
theorem rounding_general_2x2 (ε : Rat) (hε : 0 ≤ ε) (ts ts' : List Affine) (h : ChainClose ε ts ts') (p : Pt) :
    ratAbs ((applyChain ts' p).x - (applyChain ts p).x) ≤ ε * chainBound ts ∧
    ratAbs ((applyChain ts' p).y - (applyChain ts p).y) ≤ ε * chainBound ts :=
  chain_perturb_bound ε hε ts ts' h p

/-! ### A genuine defect: flattening can leave the representable range -/

/-- What apply_optional_transformations relies on (the overflow check `has_overflowing_component_transforms`
    runs BEFORE flattening, glyph.rs:918 vs :949): if no component transform of the source overflows F2Dot14,
    none does after flattening. -/
def FlattenKeepsRepresentable : Prop :=
  ∀ (G : Env) (rk : String → Nat) (F : Nat) (n : String) (i : Inst), Fits G rk → G n = some i → rk n ≤ F →
    (∀ m j, G m = some j → ∀ c ∈ j.comps, c.t.overflows = false) →
    ∀ c ∈ (flattenInst G F i).comps, c.t.overflows = false

def scale (s : Rat) (dx dy : Rat) : Affine := ⟨s, 0, 0, s, dx, dy⟩
def exSquare : Contour := [⟨0, 0, true⟩, ⟨100, 0, true⟩, ⟨100, 100, true⟩, ⟨0, 100, true⟩]
/-- a = a square; b = a scaled 3/2; c = b scaled 3/2. -/
def exA : Inst := ⟨500, [exSquare], []⟩
def exB : Inst := ⟨500, [], [⟨"a", scale (3/2) 0 0⟩]⟩
def exC : Inst := ⟨500, [], [⟨"b", scale (3/2) 10 20⟩]⟩
def exEnv : Env := fun n => if n = "a" then some exA else if n = "b" then some exB else if n = "c" then some exC else none
def exRank : String → Nat := fun n => if n = "a" then 0 else if n = "b" then 1 else 2

theorem exEnv_cases {m : String} {j : Inst} (h : exEnv m = some j) :
    (m = "a" ∧ j = exA) ∨ (m = "b" ∧ j = exB) ∨ (m = "c" ∧ j = exC) := by
  unfold exEnv at h
  split at h
  · left; exact ⟨‹_›, (Option.some.inj h).symm⟩
  · split at h
    · right; left; exact ⟨‹_›, (Option.some.inj h).symm⟩
    · split at h
      · right; right; exact ⟨‹_›, (Option.some.inj h).symm⟩
      · cases h

theorem exEnv_c : exEnv "c" = some exC := by simp [exEnv]

theorem exEnv_fits : Fits exEnv exRank := by
  intro n i h c hc
  rcases exEnv_cases h with ⟨rfl, rfl⟩ | ⟨rfl, rfl⟩ | ⟨rfl, rfl⟩
  · simp [exA] at hc
  · simp [exB] at hc; subst hc; decide
  · simp [exC] at hc; subst hc; decide

theorem exEnv_noOverflow : ∀ m j, exEnv m = some j → ∀ c ∈ j.comps, c.t.overflows = false := by
  intro m j h c hc
  rcases exEnv_cases h with ⟨rfl, rfl⟩ | ⟨rfl, rfl⟩ | ⟨rfl, rfl⟩
  · simp [exA] at hc
  · simp [exB] at hc; subst hc; decide +kernel
  · simp [exC] at hc; subst hc; decide +kernel

theorem exEnv_noMixed : ∀ m j, exEnv m = some j → j.comps ≠ [] → j.contours = [] := by
  intro m j h hne
  rcases exEnv_cases h with ⟨rfl, rfl⟩ | ⟨rfl, rfl⟩ | ⟨rfl, rfl⟩
  · simp [exA] at hne
  · rfl
  · rfl

/-- Witness: 3/2 ∘ 3/2 = 9/4 > 2. Flattening `c` yields the single component `a` scaled 9/4, which F2Dot14 cannot
    hold; fontbe stores 32767/16384 and the glyph is drawn 1/9 too small (replayed by `c12e2e`). -/
theorem flatten_keeps_representable_false : ¬ FlattenKeepsRepresentable := by
  intro h
  have := h exEnv exRank 2 "c" exC exEnv_fits exEnv_c (by decide) exEnv_noOverflow
    ⟨"a", (scale (3/2) 10 20).comp (scale (3/2) 0 0)⟩ (by decide +kernel)
  revert this
  decide +kernel

/-- …and what storing does to it: the stored scale is 32767/16384, not 9/4. -/
theorem flatten_overflow_stored : (storeAffine ((scale (3/2) 10 20).comp (scale (3/2) 0 0))).a = 32767 / 16384 := by
  decide +kernel

theorem f2dot14_grid (k : Int) (h : -32768 ≤ k ∧ k ≤ 32767) : f2dot14 ((k : Rat) / 16384) = (k : Rat) / 16384 := by
  have hs : (k : Rat) / 16384 * 16384 = (k : Rat) := by grind
  have hbits : f2dot14Bits ((k : Rat) / 16384) = k := by
    unfold f2dot14Bits
    simp only [hs]
    have hsat : satI16 k = k := by
      unfold satI16
      split
      · omega
      · split <;> omega
    by_cases hk : (k : Rat) < 0
    · simp only [hk, if_true]
      have : -(k : Rat) = ((-k : Int) : Rat) := by simp [Rat.intCast_neg]
      rw [this]
      have := otRound_intCast (-k)
      unfold otRound at this
      rw [this]
      simpa using hsat
    · simp only [hk, if_false]
      have := otRound_intCast k
      unfold otRound at this
      rw [this]
      exact hsat
  unfold f2dot14
  rw [hbits]

/-- The partial statement that does hold: flattening is exact over ℚ (`flatten_preserves`), and storing a
    component whose 2×2 entries lie on the F2Dot14 grid (k/16384, -32768 ≤ k ≤ 32767) and whose offsets are
    integers is exact; so the stored flattened glyph draws the same whenever the COMPOSED transforms are
    representable. -/
theorem store_exact_partial (t : Affine) (ka kb kc kd : Int) (e f : Int)
    (ha : t.a = (ka : Rat) / 16384) (hb : t.b = (kb : Rat) / 16384) (hc : t.c = (kc : Rat) / 16384)
    (hd : t.d = (kd : Rat) / 16384) (he : t.e = (e : Rat)) (hf : t.f = (f : Rat))
    (ra : -32768 ≤ ka ∧ ka ≤ 32767) (rb : -32768 ≤ kb ∧ kb ≤ 32767)
    (rc : -32768 ≤ kc ∧ kc ≤ 32767) (rd : -32768 ≤ kd ∧ kd ≤ 32767) :
    storeAffine t = t := by
  cases t
  simp only at ha hb hc hd he hf
  subst ha hb hc hd he hf
  simp only [storeAffine, f2dot14_grid _ ra, f2dot14_grid _ rb, f2dot14_grid _ rc, f2dot14_grid _ rd,
    otRound_intCast]

/-! ### Non-vacuity -/

/-- The hypotheses of the operation theorems are satisfiable: on the three-glyph chain above, flattening `c`
    keeps its outline (here: as a list). -/
example : resolve (exEnv.set "c" (flattenInst exEnv 2 exC)) 3 "c" = resolve exEnv 3 "c" :=
  flatten_preserves exEnv exRank exEnv_fits "c" exC exEnv_c 2 (by decide)
    (fun _ _ m r _ hm hne => exEnv_noMixed m r hm hne) 3 "c" (by decide)

/-- … decomposing `c` keeps the drawing … -/
example : SameDrawing (resolve (exEnv.set "c" (decomposeInst exEnv 2 exC)) 3 "c") (resolve exEnv 3 "c") :=
  (decompose_preserves exEnv exRank exEnv_fits "c" exC exEnv_c 2 (by decide) 3 "c" (by decide)).2

/-- … and so does any sequence of steps (here: inline the non-exported `b` into `c`, then decompose `c`). -/
example : ∃ G' rk', Steps (fun n => n != "b") (exEnv, exRank) (G', rk') ∧ (G' "c").map (·.comps.length) = some 0 :=
  ⟨_, _, .tail (.tail (.refl _) (.inline (n := "c") exEnv_c))
      (.decompose (n := "c") (i := inlineInst exEnv (fun n => n != "b") exC) (F := 2) (by simp [Env.set]) (by decide)),
    by simp [Env.set, decomposeInst]⟩

example : (resolve exEnv 3 "c").length = 1 := by decide +kernel

end Fontc.C12
