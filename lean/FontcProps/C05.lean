/-
  C05 — Every emitted font is a well-formed, internally consistent OpenType file.

  What is proved here (for every table list, no bounds): the container.  `Sfnt.build` is the model of
  `write_fonts::FontBuilder::build` (tied to the real code byte-for-byte by the `c05sfnt` stream), and
  `Bytes.wellFormedSfnt` is the executable container check that the e2e oracle also runs on every font
  the real compiler emits (`c05font` stream).  The table-level clauses of C05 (glyph counts, component
  graph, name ids, axis counts, region indices) are decided by the verified-checker-on-output
  `Bytes.wellFormedFont`, not by a theorem.

  Hypotheses, all necessary:
  * `(ts.map (·.tag)).Nodup` — FontBuilder keeps tables in a BTreeMap, so this always holds of the real input
    (`addRaw_nodup` / `selectTables_nodup` show the model's insertions preserve it);
  * `fits ts` — fewer than 4096 tables (beyond that `u16::try_from(searchRange)` panics in Rust) and a file
    shorter than 2^32 bytes (beyond that the Rust `u32` position counter overflows);
  * a `head` table, if present, has at least the 12 bytes that contain checkSumAdjustment (FontBuilder
    leaves a shorter `head` alone and the file checksum is then arbitrary).
-/
import FontcProofs.SfntMain

namespace Fontc.C05
open Fontc.Bytes Fontc.Sfnt Fontc.SfntProofs

/-- The meaning of the Bool checker, as a proposition a reader can audit. -/
structure WellFormed (f : Bytes) (d : Dir) : Prop where
  parses : parseDir f = some d
  version : d.version = if hasCff d.recs then 0x4F54544F else 0x00010000
  search : (d.entrySelector, d.searchRange, d.rangeShift) = searchParams d.numTables
  sorted : List.Pairwise (fun a b => a.tag.toNat < b.tag.toNat) d.recs
  aligned : ∀ r ∈ d.recs, r.offset % 4 = 0
  afterDirectory : ∀ r ∈ d.recs, headerLen d.numTables ≤ r.offset
  inBounds : ∀ r ∈ d.recs, r.offset + pad4 r.length ≤ f.length
  checksums : ∀ r ∈ d.recs, r.checksum = checksum (zeroedRaw r.tag (recData f r))
  zeroPadding : ∀ r ∈ d.recs, ∀ b ∈ (f.drop (r.offset + r.length)).take (pad4 r.length - r.length), b = 0
  disjoint : List.Pairwise (fun a b => a.offset + pad4 a.length ≤ b.offset ∨ b.offset + pad4 b.length ≤ a.offset) d.recs
  compact : headerLen d.numTables + (d.recs.map fun r => pad4 r.length).sum = f.length
  fileChecksum : ∀ r ∈ d.recs, r.tag = headTag → checksum f = 0xB1B0AFBA

/-- Soundness of the executable checker: `true` means every clause above. -/
theorem wellFormedSfnt_sound (f : Bytes) (h : wellFormedSfnt f = true) : ∃ d, WellFormed f d := by
  unfold wellFormedSfnt at h
  split at h
  · exact absurd h (by simp)
  · rename_i d hd
    simp only [Bool.and_eq_true, decide_eq_true_eq] at h
    obtain ⟨⟨⟨⟨⟨⟨hv, hs⟩, hsorted⟩, hrec⟩, hdis⟩, hcompact⟩, hhead⟩ := h
    have hrec' := List.all_eq_true.1 hrec
    have hrec'' : ∀ r ∈ d.recs, _ := fun r hr => by
      have := hrec' r hr
      unfold recOk at this
      simp only [Bool.and_eq_true, decide_eq_true_eq, List.all_eq_true] at this
      exact this
    refine ⟨d, hd, hv, hs, ?_, fun r hr => (hrec'' r hr).1.1.1.1, fun r hr => (hrec'' r hr).1.1.1.2,
      fun r hr => (hrec'' r hr).1.1.2, fun r hr => (hrec'' r hr).1.2, ?_, ?_, hcompact, ?_⟩
    · exact ((pairwiseB_iff _ _).1 hsorted).imp (fun h => by simpa [tagLtB] using h)
    · intro r hr b hb
      simpa using (hrec'' r hr).2 b hb
    · exact ((pairwiseB_iff _ _).1 hdis).imp (fun h => by simpa [disjointB] using h)
    · intro r hr htag
      unfold headOk at hhead
      split at hhead
      · rename_i hnone
        have := List.find?_eq_none.1 hnone r hr
        simp [htag] at this
      · simp only [Bool.and_eq_true, decide_eq_true_eq] at hhead
        exact hhead.2

/-- **build_wellformed** — for every list of tables with distinct tags that fits the format, the file
    assembled by (the model of) `FontBuilder::build` passes the container check: directory header fields
    right, records strictly sorted by tag, every offset 4-aligned / behind the directory / in bounds, every
    length exact, padded extents pairwise disjoint and tiling the file, every table checksum right, padding
    zero, and the whole-file checksum 0xB1B0AFBA when `head` is present. -/
theorem build_wellformed (ts : List Table) (hnd : (ts.map (·.tag)).Nodup) (hf : fits ts)
    (hhead : ∀ t ∈ ts, t.tag = headTag → 12 ≤ t.data.length) :
    wellFormedSfnt (build ts) = true := by
  unfold wellFormedSfnt
  rw [parseDir_build ts hf]
  simp only [Bool.and_eq_true, decide_eq_true_eq]
  refine ⟨⟨⟨⟨⟨?_, ?_⟩, ?_⟩, ?_⟩, records_compact ts⟩, headOk_build ts hnd hhead⟩
  · exact ⟨rfl, trivial⟩
  · exact (pairwiseB_iff _ _).2 ((records_sorted ts hnd).imp (fun h => by simpa [tagLtB, recKey] using h))
  · exact List.all_eq_true.2 (fun r hr => recOk_build ts r hr)
  · exact (pairwiseB_iff _ _).2 ((records_disjoint ts).imp (fun h => by simpa [disjointB, disjointP] using h))

/-- **build_roundtrip** — reading the tables back out of the built file gives exactly the input tables,
    sorted by tag, with only `head`'s checkSumAdjustment field (bytes 8..12) replaced. -/
theorem build_roundtrip (ts : List Table) (hnd : (ts.map (·.tag)).Nodup) (hf : fits ts) :
    tablesOf (build ts) = some (expectedTables ts) := by
  unfold tablesOf
  rw [parseDir_build ts hf]
  have hb : (records ts).all (fun r => decide (r.offset + r.length ≤ (build ts).length)) = true := by
    rw [List.all_eq_true]
    intro r hr
    obtain ⟨t, _, ft⟩ := records_facts ts r hr
    have := ft.upper
    have := pad4_ge r.length
    simp only [decide_eq_true_eq]; omega
  simp only [hb, if_true]
  congr 1
  apply eq_of_perm_of_strict tagKey
  · rw [List.pairwise_map]
    exact (records_sorted ts hnd).imp (fun h => h)
  · unfold expectedTables
    rw [List.pairwise_map]
    have hk : ((ts.map tagKey)).Nodup := by
      unfold List.Nodup at hnd ⊢
      rw [List.pairwise_map] at hnd ⊢
      exact hnd.imp (fun hne he => hne (UInt32.toNat.inj he))
    exact (sortBy_strict tagKey ts hk).imp (fun h => h)
  · have hlen : (directory (records ts)).length = headerLen ts.length := by
      rw [length_directory, length_records]
    have hrb := assign_readback (adjustment ts) (physOrder ts) (directory (records ts))
    rw [hlen] at hrb
    refine (((sortBy_perm recKey _).map _).trans ?_)
    show List.Perm (List.map (fun r => (⟨r.tag, recData (build ts) r⟩ : Table)) _) _
    unfold build
    rw [hrb]
    exact ((physOrder_perm ts).map _).trans ((sortBy_perm tagKey ts).symm.map _)

/-- the non-`head` tables come back byte-identical, and `head` differs at most in the adjustment field -/
theorem build_roundtrip_data (t : Table) (adj : Nat) :
    (¬ isHeadAdj t → final adj t = t.data) ∧ zeroedRaw t.tag (final adj t) = zeroedRaw t.tag t.data := by
  refine ⟨fun h => by simp [final, h], zeroedRaw_final adj t⟩

/-- **build_file_checksum** — with a `head` of ≥ 12 bytes the whole file sums to 0xB1B0AFBA. -/
theorem build_file_checksum (ts : List Table) (hnd : (ts.map (·.tag)).Nodup)
    (hh : ∃ t ∈ ts, t.tag = headTag ∧ 12 ≤ t.data.length) : checksum (build ts) = 0xB1B0AFBA :=
  checksum_build ts hnd hh

/-- searchRange / entrySelector / rangeShift are what the OpenType spec asks for. -/
theorem searchParams_spec (n : Nat) (h : 0 < n) :
    2 ^ (searchParams n).1 ≤ n ∧ n < 2 ^ ((searchParams n).1 + 1) ∧
    (searchParams n).2.1 = 16 * 2 ^ (searchParams n).1 ∧
    (searchParams n).2.2 = 16 * n - (searchParams n).2.1 := by
  unfold searchParams
  simp only
  refine ⟨Nat.log2_self_le (by omega), Nat.lt_log2_self, by omega, by omega⟩

/-- `add_raw` keeps tags distinct (BTreeMap semantics). -/
theorem addRaw_nodup (ts : List Table) (t : Table) (h : (ts.map (·.tag)).Nodup) :
    ((addRaw ts t).map (·.tag)).Nodup := SfntProofs.addRaw_nodup ts t h

/-- **assemble_wellformed** — whatever the backend context holds (every slot of TABLES_TO_MERGE absent,
    dropped by `to_bytes(..).ok()`, or present with arbitrary bytes; optional BASE / Debg from FEA), the
    font glued together by `FontWork::exec` passes the container check. -/
theorem assemble_wellformed (base debg : Option Bytes) (slots : List Slot)
    (hf : fits (selectTables base debg slots))
    (hhead : ∀ t ∈ selectTables base debg slots, t.tag = headTag → 12 ≤ t.data.length) :
    wellFormedSfnt (assembleFont base debg slots) = true :=
  build_wellformed _ (selectTables_nodup base debg slots) hf hhead

/-! ## non-vacuity: the hypotheses are satisfiable and the conclusions are not trivially true -/

def exampleTables : List Table :=
  [⟨tagOf "zzzz", [1, 2, 3]⟩, ⟨headTag, (List.range 13).map UInt8.ofNat⟩, ⟨tagOf "abcd", []⟩, ⟨tagOf "cmap", [9, 9, 9, 9, 9]⟩]

example : (exampleTables.map (·.tag)).Nodup ∧ fits exampleTables ∧
    (∀ t ∈ exampleTables, t.tag = headTag → 12 ≤ t.data.length) := by decide

example : wellFormedSfnt (build exampleTables) = true := by decide
example : tablesOf (build exampleTables) = some (expectedTables exampleTables) := by decide
example : (∃ t ∈ exampleTables, t.tag = headTag ∧ 12 ≤ t.data.length) := by decide
/-- the checker is not constantly true: one flipped byte in a table breaks it -/
example : wellFormedSfnt ((build exampleTables).set 100 0xFF) = false := by decide
/-- without the `head ≥ 12` hypothesis the statement is false (the hypothesis is necessary) -/
example : wellFormedSfnt (build [⟨headTag, [1, 2, 3]⟩]) = false := by decide
example : wellFormedSfnt (assembleFont none (some [1]) [.absent, .bytes [1, 2], .dropped]) = true := by decide

end Fontc.C05

#print axioms Fontc.C05.build_wellformed
#print axioms Fontc.C05.build_roundtrip
#print axioms Fontc.C05.build_file_checksum
#print axioms Fontc.C05.wellFormedSfnt_sound
#print axioms Fontc.C05.assemble_wellformed
#print axioms Fontc.C05.searchParams_spec
