/-
  C17 — Summary fields agree with the data they summarise.

  Property theorems only (all glyph lists, no bounds); helper lemmas live in FontcProofs/Limits*.lean,
  the model in FontcModel/Limits.lean.  Integers are unbounded in the model; wherever the Rust code
  narrows (clamp / `as u16` / unchecked u16 `+`) the in-range side condition is an explicit hypothesis
  here and the out-of-range behaviour is property C19's.
-/
import FontcModel.Limits
import FontcProofs.LimitsMetrics
import FontcProofs.LimitsMaxp
import FontcProofs.LimitsBbox
import FontcProofs.LimitsOs2
import FontcProofs.LimitsF32

namespace Fontc.C17
open Fontc Fontc.Limits

/-! ## hmtx / vmtx -/

/-- Decoding the emitted long metrics ++ side-bearing run per the OpenType spec gives back exactly the
    per-glyph (advance, side bearing) that went in; the two arrays cover every glyph; and a non-empty
    glyph list has `numberOfHMetrics ≥ 1`. (Same builder for vmtx.) -/
theorem hmtx_expands_to_input (gs : List GlyphMetric) :
    let m := buildMetrics gs
    hmtxExpand m.longMetrics m.firstSideBearings = gs.map (fun g => ⟨g.advance, g.sideBearing⟩) ∧
    m.longMetrics.length + m.firstSideBearings.length = gs.length ∧
    (gs ≠ [] → 1 ≤ m.longMetrics.length) := by
  intro m
  have hlm : (gs.foldl MetricsBuilder.update {}).longMetrics = gs.map lmOf := by
    rw [foldl_update_longMetrics]; rfl
  have hm1 : m.longMetrics = (gs.map lmOf).take ((gs.map lmOf).length - numLsbOnly (gs.map lmOf)) := by
    simp only [m, buildMetrics, MetricsBuilder.build, hlm]
  have hm2 : m.firstSideBearings =
      ((gs.map lmOf).drop ((gs.map lmOf).length - numLsbOnly (gs.map lmOf))).map (·.sideBearing) := by
    simp only [m, buildMetrics, MetricsBuilder.build, hlm]
  refine ⟨?_, ?_, ?_⟩
  · rw [hm1, hm2, expand_build_eq _ _ rfl]; rfl
  · rw [hm1, hm2]; simp
  · intro hne
    have hne' : gs.map lmOf ≠ [] := by simpa using hne
    have := numLsbOnly_lt _ hne'
    rw [hm1]; simp at this ⊢; omega

/-! ## hhea / vhea extrema -/

/-- side bearings of the glyphs that have a bounding box -/
def firstBearings (gs : List GlyphMetric) : List Int :=
  gs.filterMap fun g => g.boundsAdvance.map fun _ => g.sideBearing
/-- advance − (side bearing + box extent) of the glyphs that have a bounding box (rsb / bsb) -/
def secondBearings (gs : List GlyphMetric) : List Int :=
  gs.filterMap fun g => g.boundsAdvance.map fun ba => (g.advance : Int) - g.sideBearing - ba
/-- side bearing + box extent of the glyphs that have a bounding box (xMaxExtent / yMaxExtent) -/
def extents (gs : List GlyphMetric) : List Int :=
  gs.filterMap fun g => g.boundsAdvance.map fun ba => g.sideBearing + ba

/-- no second side bearing / extent leaves the i16 range (the clamp of metrics_and_limits.rs:125-140
    is the identity) -/
def NoClamp (gs : List GlyphMetric) : Prop :=
  (∀ v ∈ secondBearings gs, -32768 ≤ v ∧ v ≤ 32767) ∧ (∀ v ∈ extents gs, -32768 ≤ v ∧ v ≤ 32767)

/-- What the builder computes with its clamps, for all inputs: advance max over *all* glyphs; the other
    three over the glyphs with a bounding box only, 0 when there is none. -/
theorem hhea_extrema_clamped (gs : List GlyphMetric) :
    let m := buildMetrics gs
    IsMaxNat m.advanceMax (gs.map (·.advance)) ∧
    IsMinOr0 m.minFirst (firstBearings gs) ∧
    IsMinOr0 m.minSecond ((secondBearings gs).map clampI16) ∧
    IsMaxOr0 m.maxExtent ((extents gs).map clampI16) := by
  intro m
  have e1 : m.advanceMax = (gs.map (·.advance)).foldl max 0 := by
    simp only [m, buildMetrics, MetricsBuilder.build, foldl_update_advanceMax]
  have e2 : m.minFirst = (((boxed gs).map (·.2.1)).foldl optMin none).getD 0 := by
    simp only [m, buildMetrics, MetricsBuilder.build, foldl_update_minFirst]
  have e3 : m.minSecond = (((boxed gs).map secondOf).foldl optMin none).getD 0 := by
    simp only [m, buildMetrics, MetricsBuilder.build, foldl_update_minSecond]
  have e4 : m.maxExtent = (((boxed gs).map extentOf).foldl optMax none).getD 0 := by
    simp only [m, buildMetrics, MetricsBuilder.build, foldl_update_maxExtent]
  have l1 : (boxed gs).map (·.2.1) = firstBearings gs := by
    simp only [boxed, firstBearings, List.map_filterMap]
    congr 1; funext g; cases g.boundsAdvance <;> rfl
  have l2 : (boxed gs).map secondOf = (secondBearings gs).map clampI16 := by
    simp only [boxed, secondBearings, List.map_filterMap]
    congr 1; funext g; cases g.boundsAdvance <;> rfl
  have l3 : (boxed gs).map extentOf = (extents gs).map clampI16 := by
    simp only [boxed, extents, List.map_filterMap]
    congr 1; funext g; cases g.boundsAdvance <;> rfl
  rw [e1, e2, e3, e4, l1, l2, l3]
  exact ⟨isMaxNat_fold _, isMinOr0_fold _, isMinOr0_fold _, isMaxOr0_fold _⟩

/-- hhea/vhea per the spec: `advanceWidthMax` = max over all glyphs; `minLeftSideBearing`,
    `minRightSideBearing` (= min of aw − (lsb + xMax − xMin)) and `xMaxExtent` (= max of lsb + (xMax − xMin))
    over the glyphs with a bounding box — provided nothing is clamped. -/
theorem hhea_extrema (gs : List GlyphMetric) (h : NoClamp gs) :
    let m := buildMetrics gs
    IsMaxNat m.advanceMax (gs.map (·.advance)) ∧
    IsMinOr0 m.minFirst (firstBearings gs) ∧
    IsMinOr0 m.minSecond (secondBearings gs) ∧
    IsMaxOr0 m.maxExtent (extents gs) := by
  intro m
  obtain ⟨h1, h2, h3, h4⟩ := hhea_extrema_clamped gs
  have c1 : (secondBearings gs).map clampI16 = secondBearings gs := by
    rw [List.map_congr_left (g := id)]; · simp
    intro v hv; have := h.1 v hv; unfold clampI16; simp only [id]
    rw [if_neg (by omega), if_neg (by omega)]
  have c2 : (extents gs).map clampI16 = extents gs := by
    rw [List.map_congr_left (g := id)]; · simp
    intro v hv; have := h.2 v hv; unfold clampI16; simp only [id]
    rw [if_neg (by omega), if_neg (by omega)]
  rw [c1] at h3; rw [c2] at h4
  exact ⟨h1, h2, h3, h4⟩

/-- The arguments the two `exec`s pass to the builder: horizontally lsb = xMin, rsb = advance − xMax,
    extent = xMax; vertically tsb = vertical origin − yMax, bsb = advance − tsb − (yMax − yMin). -/
theorem metric_args_spec (advance : Nat) (vorg : Int) (b : Box) :
    (hMetricOf advance (some b)).sideBearing = b.xMin ∧
    secondBearings [hMetricOf advance (some b)] = [(advance : Int) - b.xMax] ∧
    extents [hMetricOf advance (some b)] = [b.xMax] ∧
    (hMetricOf advance none).sideBearing = 0 ∧ (hMetricOf advance none).boundsAdvance = none ∧
    (vMetricOf advance vorg (some b)).sideBearing = vorg - b.yMax ∧
    secondBearings [vMetricOf advance vorg (some b)] = [(advance : Int) - (vorg - b.yMax) - (b.yMax - b.yMin)] := by
  simp [hMetricOf, vMetricOf, secondBearings, extents]

/-! ## maxp -/

/-- `update_composite_limits`, for every iteration order of the pending set, on every closed acyclic
    component graph: the loop terminates without panicking and returns, per field, the maximum over
    the composite glyphs of the recursively defined totals (points, contours) and nesting depth. -/
theorem composite_limits_spec (gs : List Glyph) (rank : Nat → Nat) (fuel : Nat) (pending : List Nat)
    (hA : Acyclic (gs.map (·.shape)) rank)
    (hfuel : ∀ gid, gid < gs.length → rank gid < fuel)
    (hpending : ∀ gid, gid ∈ pending ↔ (gid < gs.length ∧ isComposite (gs.map (·.shape)) gid = true)) :
    let g := gs.map (·.shape)
    let composites := (List.range gs.length).filter (isComposite g)
    ∃ l, updateCompositeLimits (maxBuilderOf gs) pending = some l ∧
      IsMaxNat l.maxPoints (composites.map (specPoints g fuel)) ∧
      IsMaxNat l.maxContours (composites.map (specContours g fuel)) ∧
      IsMaxNat l.maxDepth (composites.map (specDepth g fuel)) := by
  intro g composites
  have hlen : g.length = gs.length := by simp [g]
  have hfuel' : ∀ gid, gid < g.length → rank gid < fuel := fun gid h => hfuel gid (by omega)
  have hI := Inv_initial gs rank fuel hfuel
  have hvalid : ∀ gid ∈ pending, isComposite g gid = true := fun gid h => ((hpending gid).1 h).2
  have hunk : ∀ (j : Nat) (gi : GlyphInfo), ((maxBuilderOf gs).glyphInfo)[j]? = some gi → gi.limits = none → j ∈ pending := by
    intro j gi hj hn
    have hjl : j < gs.length := by
      have := (List.getElem?_eq_some_iff.1 hj).1
      rw [hI.len] at this; simpa using this
    exact (hpending j).2 ⟨hjl, hI.unknownComposite j gi hj hn⟩
  obtain ⟨l, hl, hfin, hatt⟩ := loop_spec hA fuel hfuel' pending.length pending rfl _ _ hI hvalid hunk
  refine ⟨l, hl, ?_, ?_, ?_⟩
  all_goals
    refine ⟨?_, ?_⟩
    · intro x hx
      simp only [composites, List.mem_map, List.mem_filter, List.mem_range] at hx
      obtain ⟨gid, ⟨hlt, hc⟩, rfl⟩ := hx
      have := hfin gid (by simp; exact hlt) hc
      first | exact this.1 | exact this.2.1 | exact this.2.2
  · rcases hatt.1 with h | ⟨gid, hlt, hc, h⟩
    · exact Or.inr h
    · left; simp only [composites, List.mem_map, List.mem_filter, List.mem_range]
      exact ⟨gid, ⟨by simpa [g] using hlt, hc⟩, h⟩
  · rcases hatt.2.1 with h | ⟨gid, hlt, hc, h⟩
    · exact Or.inr h
    · left; simp only [composites, List.mem_map, List.mem_filter, List.mem_range]
      exact ⟨gid, ⟨by simpa [g] using hlt, hc⟩, h⟩
  · rcases hatt.2.2 with h | ⟨gid, hlt, hc, h⟩
    · exact Or.inr h
    · left; simp only [composites, List.mem_map, List.mem_filter, List.mem_range]
      exact ⟨gid, ⟨by simpa [g] using hlt, hc⟩, h⟩

/-- The code as it is now (range-checked, /repo 944e88e): when no composite's resolved totals leave the
    u16 range, `update_composite_limits` returns `Ok` with exactly the maxima of the specification
    (no saturation, no recorded overflow), for every pending order. -/
theorem composite_limits_checked (gs : List Glyph) (rank : Nat → Nat) (fuel : Nat) (pending : List Nat)
    (hA : Acyclic (gs.map (·.shape)) rank)
    (hfuel : ∀ gid, gid < gs.length → rank gid < fuel)
    (hpending : ∀ gid, gid ∈ pending ↔ (gid < gs.length ∧ isComposite (gs.map (·.shape)) gid = true))
    (hfit : ∀ gid, gid < gs.length → isComposite (gs.map (·.shape)) gid = true →
      specPoints (gs.map (·.shape)) fuel gid ≤ 65535 ∧ specContours (gs.map (·.shape)) fuel gid ≤ 65535 ∧
      specDepth (gs.map (·.shape)) fuel gid ≤ 65535) :
    let g := gs.map (·.shape)
    let composites := (List.range gs.length).filter (isComposite g)
    ∃ l, updateCompositeLimitsC (maxBuilderOf gs) pending = .ok l ∧
      IsMaxNat l.maxPoints (composites.map (specPoints g fuel)) ∧
      IsMaxNat l.maxContours (composites.map (specContours g fuel)) ∧
      IsMaxNat l.maxDepth (composites.map (specDepth g fuel)) := by
  intro g composites
  obtain ⟨l, hl, hspec⟩ := composite_limits_spec gs rank fuel pending hA hfuel hpending
  refine ⟨l, ?_, hspec⟩
  have hfuel' : ∀ gid, gid < g.length → rank gid < fuel := fun gid h => hfuel gid (by simpa [g] using h)
  have hB : Bounded g fuel := fun gid hlt hc => hfit gid (by simpa [g] using hlt) hc
  have hI := Inv_initial gs rank fuel hfuel
  have hvalid : ∀ gid ∈ pending, isComposite g gid = true := fun gid h => ((hpending gid).1 h).2
  have hsim := loopC_sim hA fuel hfuel' hB false pending.length pending rfl _ _ hI hvalid
  unfold updateCompositeLimits at hl
  unfold updateCompositeLimitsC
  rw [hsim, hl]
  rfl

/-- The maxp part of `MetricAndLimitWork::exec` as it is now: with at most 65535 glyphs, per-glyph counts
    within u16 and composite totals within u16 it returns `Ok` and the composite fields are the maxima
    of the recursive specification. (Outside these hypotheses the code returns `Err(OutOfBounds)`; that
    direction is checked by the correspondence stream, and is property C19's.) -/
theorem maxp_checked_spec (gs : List Glyph) (rank : Nat → Nat) (fuel : Nat)
    (hA : Acyclic (gs.map (·.shape)) rank)
    (hfuel : ∀ gid, gid < gs.length → rank gid < fuel)
    (hn : gs.length ≤ 65535)
    (hcounts : ∀ g ∈ gs, shapeCountsFit g.shape = true)
    (hfit : ∀ gid, gid < gs.length → isComposite (gs.map (·.shape)) gid = true →
      specPoints (gs.map (·.shape)) fuel gid ≤ 65535 ∧ specContours (gs.map (·.shape)) fuel gid ≤ 65535 ∧
      specDepth (gs.map (·.shape)) fuel gid ≤ 65535) :
    let g := gs.map (·.shape)
    let composites := (List.range gs.length).filter (isComposite g)
    ∃ m, buildMaxpC gs = .ok m ∧ m.numGlyphs = gs.length ∧
      m.maxPoints = (maxBuilderOf gs).maxPoints ∧ m.maxContours = (maxBuilderOf gs).maxContours ∧
      m.maxComponentElements = (maxBuilderOf gs).maxComponentElements ∧
      IsMaxNat m.maxCompositePoints (composites.map (specPoints g fuel)) ∧
      IsMaxNat m.maxCompositeContours (composites.map (specContours g fuel)) ∧
      IsMaxNat m.maxComponentDepth (composites.map (specDepth g fuel)) := by
  intro g composites
  obtain ⟨l, hl, h1, h2, h3⟩ := composite_limits_checked gs rank fuel
    (compositeGids (maxBuilderOf gs).glyphInfo) hA hfuel (mem_compositeGids_of_shapes gs) hfit
  have hall : gs.all (fun g => shapeCountsFit g.shape) = true := List.all_eq_true.2 hcounts
  unfold buildMaxpC
  simp only [hall, if_true, hl, hn]
  exact ⟨_, rfl, rfl, rfl, rfl, rfl, h1, h2, h3⟩

/-- hmtx/vmtx advances as the code computes them now: OpenType rounding of the source value, accepted
    exactly when it fits u16 (otherwise `Err(OutOfBounds)`, no clamping). -/
theorem advance_checked_spec (w : Rat) :
    (∀ a, advanceOfWidth w = some a → (a : Int) = otRound w ∧ a ≤ 65535) ∧
    (advanceOfWidth w = none ↔ (otRound w < 0 ∨ 65535 < otRound w)) := by
  unfold advanceOfWidth
  simp only
  constructor
  · intro a h
    split at h
    · rename_i hc
      simp only [Option.some.injEq] at h
      subst h
      omega
    · cases h
  · constructor
    · intro h
      split at h
      · cases h
      · rename_i hc; omega
    · intro h
      rw [if_neg (by omega)]

/-- maxPoints / maxContours / maxComponentElements are the maxima over the glyphs of the per-glyph point
    count, contour count and component count (no narrowing in the model: `as u16` is C19's). -/
theorem maxp_simple_maxima (gs : List Glyph) :
    let b := maxBuilderOf gs
    IsMaxNat b.maxPoints (gs.map fun g => simplePoints g.shape) ∧
    IsMaxNat b.maxContours (gs.map fun g => simpleContours g.shape) ∧
    IsMaxNat b.maxComponentElements (gs.map fun g => componentCount g.shape) := by
  intro b
  simp only [b, maxBuilderOf, foldl_update_maxPoints, foldl_update_maxContours, foldl_update_maxComponentElements]
  exact ⟨isMaxNat_fold _, isMaxNat_fold _, isMaxNat_fold _⟩

/-! ## head bounding box -/

/-- head xMin/yMin/xMax/yMax are the min/min/max/max over the glyphs that have a bounding box
    (all zero when none has). -/
theorem head_bbox_is_union (gs : List Glyph) :
    let boxes := gs.filterMap (·.bbox)
    let h := headBbox gs
    IsMinOr0 h.xMin (boxes.map (·.xMin)) ∧ IsMinOr0 h.yMin (boxes.map (·.yMin)) ∧
    IsMaxOr0 h.xMax (boxes.map (·.xMax)) ∧ IsMaxOr0 h.yMax (boxes.map (·.yMax)) := by
  intro boxes h
  simp only [h, headBbox_eq]
  rw [getD_zero_xMin, getD_zero_yMin, getD_zero_xMax, getD_zero_yMax,
    foldl_optUnion_xMin, foldl_optUnion_yMin, foldl_optUnion_xMax, foldl_optUnion_yMax]
  exact ⟨isMinOr0_fold _, isMinOr0_fold _, isMaxOr0_fold _, isMaxOr0_fold _⟩

/-- Every composite's stored box is the rounding of the exact bounds of its resolved outline (all points
    of all simple glyphs reached through the component tree, under the accumulated transforms), hence it
    covers every resolved point to within the ½ unit of rounding; with no resolved point it is (0,0,0,0).
    Hypothesis: the bounds fit i16 (otherwise `f64 as i16` saturates: C19). -/
theorem composite_bbox_covers (g : List Shape) (fuel : Nat) (comps : List Component) (b : Box)
    (h : glyphBbox g fuel (.composite comps) = some (some b))
    (hfit : ∀ p ∈ resolvedPoints g fuel comps Affine.identity,
      -32768 ≤ otRound p.1 ∧ otRound p.1 ≤ 32767 ∧ -32768 ≤ otRound p.2 ∧ otRound p.2 ≤ 32767) :
    let pts := resolvedPoints g fuel comps Affine.identity
    (pts = [] → b = Box.zero) ∧
    (pts ≠ [] →
      (∃ p ∈ pts, b.xMin = otRound p.1 ∧ ∀ q ∈ pts, p.1 ≤ q.1) ∧
      (∃ p ∈ pts, b.yMin = otRound p.2 ∧ ∀ q ∈ pts, p.2 ≤ q.2) ∧
      (∃ p ∈ pts, b.xMax = otRound p.1 ∧ ∀ q ∈ pts, q.1 ≤ p.1) ∧
      (∃ p ∈ pts, b.yMax = otRound p.2 ∧ ∀ q ∈ pts, q.2 ≤ p.2) ∧
      ∀ q ∈ pts, (b.xMin : Rat) - 1/2 ≤ q.1 ∧ q.1 < (b.xMax : Rat) + 1/2 ∧
                 (b.yMin : Rat) - 1/2 ≤ q.2 ∧ q.2 < (b.yMax : Rat) + 1/2) := by
  intro pts
  unfold glyphBbox at h
  simp only at h
  cases hb : bboxOfComposite g fuel comps Affine.identity none with
  | none => rw [hb] at h; cases h
  | some r =>
    have hr := bboxOfComposite_eq g fuel comps Affine.identity none r hb
    rw [hb] at h
    cases r with
    | none =>
      simp only [Option.some.injEq] at h
      have hnil := ptsRect_none_eq_none _ hr.symm
      exact ⟨fun _ => h.symm, fun hne => absurd hnil hne⟩
    | some r =>
      simp only [Option.some.injEq] at h
      have hbounds := ptsRect_bounds pts r hr.symm
      obtain ⟨⟨hx0, hx0m⟩, ⟨hy0, hy0m⟩, ⟨hx1, hx1m⟩, ⟨hy1, hy1m⟩⟩ := hbounds
      refine ⟨fun hnil => by rw [hnil] at hx0m; simp at hx0m, fun _ => ?_⟩
      obtain ⟨pl, hpl, hpl1⟩ := List.mem_map.1 hx0m
      obtain ⟨pb, hpb, hpb1⟩ := List.mem_map.1 hy0m
      obtain ⟨pr, hpr, hpr1⟩ := List.mem_map.1 hx1m
      obtain ⟨pt, hpt, hpt1⟩ := List.mem_map.1 hy1m
      have hxle : r.x0 ≤ r.x1 := hx1 r.x0 hx0m
      have hyle : r.y0 ≤ r.y1 := hy1 r.y0 hy0m
      have e1 : ratMin r.x0 r.x1 = r.x0 := by unfold ratMin; simp [hxle]
      have e2 : ratMin r.y0 r.y1 = r.y0 := by unfold ratMin; simp [hyle]
      have e3 : ratMax r.x0 r.x1 = r.x1 := by unfold ratMax; simp [hxle]
      have e4 : ratMax r.y0 r.y1 = r.y1 := by unfold ratMax; simp [hyle]
      have sat : ∀ v : Int, -32768 ≤ v → v ≤ 32767 → satI16 v = v := by
        intro v h1 h2; unfold satI16; rw [if_neg (by omega), if_neg (by omega)]
      have hbx : b.xMin = otRound pl.1 ∧ b.yMin = otRound pb.2 ∧ b.xMax = otRound pr.1 ∧ b.yMax = otRound pt.2 := by
        rw [← h]; unfold rectToBox; simp only [e1, e2, e3, e4]
        have f1 := hfit pl hpl; have f2 := hfit pb hpb; have f3 := hfit pr hpr; have f4 := hfit pt hpt
        rw [← hpl1, ← hpb1, ← hpr1, ← hpt1]
        exact ⟨sat _ f1.1 f1.2.1, sat _ f2.2.2.1 f2.2.2.2, sat _ f3.1 f3.2.1, sat _ f4.2.2.1 f4.2.2.2⟩
      have mem1 : ∀ q ∈ pts, q.1 ∈ pts.map Prod.fst := fun q hq => List.mem_map.2 ⟨q, hq, rfl⟩
      have mem2 : ∀ q ∈ pts, q.2 ∈ pts.map Prod.snd := fun q hq => List.mem_map.2 ⟨q, hq, rfl⟩
      refine ⟨⟨pl, hpl, hbx.1, fun q hq => by rw [hpl1]; exact hx0 _ (mem1 q hq)⟩,
              ⟨pb, hpb, hbx.2.1, fun q hq => by rw [hpb1]; exact hy0 _ (mem2 q hq)⟩,
              ⟨pr, hpr, hbx.2.2.1, fun q hq => by rw [hpr1]; exact hx1 _ (mem1 q hq)⟩,
              ⟨pt, hpt, hbx.2.2.2, fun q hq => by rw [hpt1]; exact hy1 _ (mem2 q hq)⟩, ?_⟩
      intro q hq
      have a1 := hx0 _ (mem1 q hq); have a2 := hy0 _ (mem2 q hq)
      have a3 := hx1 _ (mem1 q hq); have a4 := hy1 _ (mem2 q hq)
      rw [← hpl1] at a1; rw [← hpb1] at a2; rw [← hpr1] at a3; rw [← hpt1] at a4
      rw [hbx.1, hbx.2.1, hbx.2.2.1, hbx.2.2.2]
      unfold otRound
      have l1 := Rat.floor_le (pl.1 + 1/2)
      have l2 := Rat.floor_le (pb.2 + 1/2)
      have l3 := Rat.lt_floor_add_one (pr.1 + 1/2)
      have l4 := Rat.lt_floor_add_one (pt.2 + 1/2)
      push_cast at l3 l4
      refine ⟨by linarith, by linarith, by linarith, by linarith⟩

/-! ## loca -/

/-- The loca format matches the glyf data: offsets are the running sums of the glyph record sizes
    (first 0, last = glyf length, consecutive differences = sizes); the short format is chosen exactly
    when glyf is shorter than 0x20000 bytes and every record has even length; and in the chosen format
    the stored entries decode (per the spec) to the offsets — provided glyf is below 4 GiB. -/
theorem loca_format_matches (sizes : List Nat) (hfit : sizes.sum < 4294967296) :
    let offs := locaOffsets sizes
    let fmt := locaFormat offs
    offs.head? = some 0 ∧ offs.getLast? = some sizes.sum ∧ diffs offs = sizes ∧
    (fmt = .short ↔ (sizes.sum < 0x20000 ∧ ∀ s ∈ sizes, s % 2 = 0)) ∧
    locaDecode fmt (locaEncode fmt offs) = offs := by
  intro offs fmt
  have hoffs : offs = 0 :: prefixSums 0 sizes := locaOffsets_eq sizes
  have hlast : offs.getLast? = some sizes.sum := by
    rw [hoffs, prefixSums_getLast?]; simp
  have hle : ∀ o ∈ offs, o ≤ sizes.sum := by
    intro o ho; rw [hoffs] at ho
    rcases List.mem_cons.1 ho with rfl | ho
    · omega
    · have := prefixSums_le 0 sizes o ho; omega
  have heven : (∀ o ∈ offs, o % 2 = 0) ↔ (∀ s ∈ sizes, s % 2 = 0) := by
    rw [hoffs]
    simp only [List.mem_cons, forall_eq_or_imp, Nat.zero_mod, true_and]
    exact prefixSums_even 0 sizes rfl
  have hfmt : fmt = .short ↔ (sizes.sum < 0x20000 ∧ ∀ s ∈ sizes, s % 2 = 0) := by
    simp only [fmt, locaFormat, hlast, Option.getD_some]
    rw [← heven]
    constructor
    · intro h
      split at h
      · rename_i hc; exact ⟨hc.1, by simpa using hc.2⟩
      · cases h
    · intro h
      rw [if_pos ⟨h.1, by simpa using h.2⟩]
  refine ⟨by rw [hoffs]; rfl, hlast, by rw [hoffs]; exact diffs_prefixSums 0 sizes, hfmt, ?_⟩
  cases hf : fmt with
  | short =>
    have hs := hfmt.1 hf
    have hev := heven.2 hs.2
    simp only [locaDecode, locaEncode, List.map_map]
    rw [List.map_congr_left (g := id)]; · simp
    intro o ho
    have h1 := hle o ho; have h2 := hev o ho
    simp only [Function.comp, id]
    omega
  | long =>
    simp only [locaDecode, locaEncode]
    rw [List.map_congr_left (g := id)]; · simp
    intro o ho
    have h1 := hle o ho
    simp only [id]; omega

/-! ## OS/2 -/

/-- `x_avg_char_width` reads the *compressed* hmtx (long metrics + a count of trailing glyphs sharing the
    last advance); its (count, total) are exactly the number and sum of the non-zero advances of *all*
    glyphs. -/
theorem avg_count_total_spec (gs : List GlyphMetric) :
    avgCountTotal (buildMetrics gs).longMetrics gs.length =
      ((nonZero (gs.map (·.advance))).length, (nonZero (gs.map (·.advance))).sum) := by
  obtain ⟨h1, h2, _⟩ := hmtx_expands_to_input gs
  have := avgCountTotal_expand (buildMetrics gs).longMetrics (buildMetrics gs).firstSideBearings
  rw [h2, h1] at this
  simpa [List.map_map, Function.comp_def] using this

/-- OS/2.xAvgCharWidth of the code as it is (integer arithmetic since /repo d188b11), for every glyph
    list: the OpenType rounding of the mean of the non-zero advances of all glyphs (0 if there is none),
    saturated to i16. -/
theorem avg_width_spec (gs : List GlyphMetric) :
    xAvgCharWidth (buildMetrics gs).longMetrics gs.length =
      satI16 (avgOfExact (nonZero (gs.map (·.advance))).length (nonZero (gs.map (·.advance))).sum) := by
  unfold xAvgCharWidth
  rw [avg_count_total_spec]
  simp only
  by_cases hc : (nonZero (gs.map (·.advance))).length = 0
  · simp [avgOfInt, avgOfExact, hc, satI16]
  · simp only [avgOfInt, avgOfExact, hc, if_false]
    rw [otRound_div_eq _ _ (by omega)]

/-! ### History: the binary32 division used until /repo d188b11 (finding F-C17-1, fixed) -/

/-- The full statement for the OLD code. It was FALSE: the old code divided in binary32. -/
def AvgWidthOldFullStatement : Prop :=
  ∀ gs : List GlyphMetric,
    avgWidthOld (buildMetrics gs).longMetrics gs.length =
      satI16 (avgOfExact (nonZero (gs.map (·.advance))).length (nonZero (gs.map (·.advance))).sum)

theorem nonZero_length_le_sum (xs : List Nat) : (nonZero xs).length ≤ (nonZero xs).sum := by
  unfold nonZero
  induction xs with
  | nil => simp
  | cons x xs ih =>
    by_cases hx : x = 0
    · subst hx; rw [List.filter_cons_of_neg (by simp)]; exact ih
    · have : (x != 0) = true := by simp [hx]
      simp only [List.filter_cons, this, if_true, List.length_cons, List.sum_cons]; omega

/-- …the old code was right whenever the advances summed to less than 2^22. -/
theorem avg_width_old_partial (gs : List GlyphMetric) (h : (nonZero (gs.map (·.advance))).sum < 2 ^ 22) :
    avgWidthOld (buildMetrics gs).longMetrics gs.length =
      satI16 (avgOfExact (nonZero (gs.map (·.advance))).length (nonZero (gs.map (·.advance))).sum) := by
  unfold avgWidthOld
  rw [avg_count_total_spec]
  simp only
  by_cases hc : (nonZero (gs.map (·.advance))).length = 0
  · simp [avgOfF32, avgOfExact, hc, satI16]
  · rw [avgOfF32_exact _ _ (by omega) (nonZero_length_le_sum _) h]
    simp [avgOfExact, hc]

/-- 257 glyphs of advance 16384 and 256 of advance 16385: mean 16384.499…, the old code answered 16385. -/
def avgWitness : List GlyphMetric :=
  List.replicate 257 ⟨16384, 0, none⟩ ++ List.replicate 256 ⟨16385, 0, none⟩

theorem avg_width_old_counterexample : ¬ AvgWidthOldFullStatement := by
  intro h
  have := h avgWitness
  unfold avgWidthOld at this
  rw [avg_count_total_spec] at this
  have e1 : (nonZero (avgWitness.map (·.advance))).length = 513 := by decide +kernel
  have e2 : (nonZero (avgWitness.map (·.advance))).sum = 8405248 := by decide +kernel
  simp only [e1, e2] at this
  have l : avgOfF32 513 8405248 = 16385 := by decide +kernel
  have r : satI16 (avgOfExact 513 8405248) = 16384 := by decide +kernel
  rw [l, r] at this
  exact absurd this (by decide)

/-- the current code on the old witness -/
example : xAvgCharWidth (buildMetrics avgWitness).longMetrics avgWitness.length = 16384 := by
  rw [avg_width_spec]
  have e1 : (nonZero (avgWitness.map (·.advance))).length = 513 := by decide +kernel
  have e2 : (nonZero (avgWitness.map (·.advance))).sum = 8405248 := by decide +kernel
  rw [e1, e2]; decide +kernel

/-- usFirstCharIndex / usLastCharIndex: least / greatest mapped codepoint, capped at 0xFFFF
    (for a non-empty codepoint set). -/
theorem first_last_char_spec (cps : List Nat) (hne : cps ≠ []) :
    ∃ lo hi, lo ∈ cps ∧ (∀ c ∈ cps, lo ≤ c) ∧ hi ∈ cps ∧ (∀ c ∈ cps, c ≤ hi) ∧
      minMaxCharIndex cps = (min lo 0xFFFF, min hi 0xFFFF) := by
  obtain ⟨a1, a2, a3⟩ := foldl_min_nat cps 0xFFFF
  obtain ⟨b1, b2, b3⟩ := foldl_max_nat cps 0
  obtain ⟨c0, hc0⟩ := List.exists_mem_of_ne_nil cps hne
  -- the true extrema
  obtain ⟨x, xs, rfl⟩ : ∃ x xs, cps = x :: xs := by
    cases cps with
    | nil => exact absurd rfl hne
    | cons x xs => exact ⟨x, xs, rfl⟩
  obtain ⟨m1, m2, m3⟩ := foldl_min_nat xs x
  obtain ⟨n1, n2, n3⟩ := foldl_max_nat xs x
  refine ⟨xs.foldl min x, xs.foldl max x, ?_, ?_, ?_, ?_, ?_⟩
  · rcases m3 with h | h
    · rw [h]; exact List.mem_cons_self
    · exact List.mem_cons_of_mem _ h
  · intro c hc
    rcases List.mem_cons.1 hc with rfl | hc
    · exact m1
    · exact m2 c hc
  · rcases n3 with h | h
    · rw [h]; exact List.mem_cons_self
    · exact List.mem_cons_of_mem _ h
  · intro c hc
    rcases List.mem_cons.1 hc with rfl | hc
    · exact n1
    · exact n2 c hc
  · unfold minMaxCharIndex
    rw [foldl_minmax]
    simp only [List.foldl_cons]
    have hmin : ∀ (ys : List Nat) (a b : Nat), min (ys.foldl min (min a b)) a = min (ys.foldl min b) a := by
      intro ys
      induction ys with
      | nil => intro a b; simp; omega
      | cons y ys ih =>
        intro a b
        simp only [List.foldl_cons]
        have := ih a (min b y)
        rw [show min (min a b) y = min a (min b y) by omega]
        exact this
    have hmax : ∀ (ys : List Nat) (b : Nat), ys.foldl max (max 0 b) = ys.foldl max b := by
      intro ys b; rw [Nat.zero_max]
    rw [hmax, hmin]

/-- the precondition under which `binary_search_by` over `UNICODE_RANGES` is a function:
    the table is sorted, its ranges are non-empty and pairwise disjoint, and all bits are < 128 -/
theorem unicodeRanges_sorted_disjoint :
    List.Pairwise (fun (r1 r2 : Nat × Nat × Nat) => r1.2.1 < r2.1) unicodeRanges ∧
    ∀ r ∈ unicodeRanges, r.1 ≤ r.2.1 ∧ r.2.2 < 128 :=
  ⟨unicodeRanges_pairwise, unicodeRanges_wf⟩

/-- ulUnicodeRange bit `b` is set iff some mapped codepoint lies in a table range carrying bit `b`,
    or `b = 57` and some codepoint is beyond the BMP. -/
theorem unicode_range_spec (cps : List Nat) (b : Nat) :
    b ∈ unicodeRangeBits cps ↔
      ∃ cp ∈ cps, (∃ r ∈ unicodeRanges, r.2.2 = b ∧ r.1 ≤ cp ∧ cp ≤ r.2.1) ∨
                  (b = 57 ∧ 0x10000 ≤ cp ∧ cp ≤ 0x10FFFF) := by
  unfold unicodeRangeBits
  rw [mem_bitSet]
  simp only [List.mem_flatMap]
  constructor
  · rintro ⟨_, cp, hcp, hb⟩
    refine ⟨cp, hcp, ?_⟩
    unfold unicodeRangeBitsOf at hb
    simp only [List.mem_append] at hb
    rcases hb with hb | hb
    · left
      cases hf : unicodeRanges.find? (fun r => decide (r.1 ≤ cp) && decide (cp ≤ r.2.1)) with
      | none => rw [hf] at hb; simp at hb
      | some r =>
        rw [hf] at hb
        simp only [List.mem_singleton] at hb
        have hp := List.find?_some hf
        simp only [Bool.and_eq_true, decide_eq_true_eq] at hp
        exact ⟨r, List.mem_of_find?_eq_some hf, hb.symm, hp.1, hp.2⟩
    · right
      split at hb
      · rename_i hc; simp only [List.mem_singleton] at hb; exact ⟨hb, hc.1, hc.2⟩
      · simp at hb
  · rintro ⟨cp, hcp, h⟩
    rcases h with ⟨r, hr, hbit, hlo, hhi⟩ | ⟨hb57, hlo, hhi⟩
    · refine ⟨by rw [← hbit]; exact (unicodeRanges_wf r hr).2, cp, hcp, ?_⟩
      unfold unicodeRangeBitsOf
      simp only [List.mem_append]
      left
      cases hf : unicodeRanges.find? (fun r => decide (r.1 ≤ cp) && decide (cp ≤ r.2.1)) with
      | none =>
        have := (List.find?_eq_none.1 hf) r hr
        simp [hlo, hhi] at this
      | some r' =>
        have hp := List.find?_some hf
        simp only [Bool.and_eq_true, decide_eq_true_eq] at hp
        have : r' = r := pairwise_unique unicodeRanges_pairwise (fun r hr => (unicodeRanges_wf r hr).1) cp r' r
          (List.mem_of_find?_eq_some hf) hr hp ⟨hlo, hhi⟩
        simp [this, hbit]
    · refine ⟨by omega, cp, hcp, ?_⟩
      unfold unicodeRangeBitsOf
      simp only [List.mem_append]
      right
      rw [if_pos ⟨hlo, hhi⟩]; simp [hb57]

/-! ## non-vacuity: every hypothesis used above is satisfiable, and the conclusions are not trivial -/

/-- three glyphs, the last two sharing an advance: one lsb-only entry -/
example : (buildMetrics [⟨500, 10, some 400⟩, ⟨600, -20, some 700⟩, ⟨600, 0, none⟩]).firstSideBearings = [0] := by
  decide
example : NoClamp [⟨500, 10, some 400⟩, ⟨600, -20, some 700⟩, ⟨600, 0, none⟩] := by
  unfold NoClamp secondBearings extents; decide
example : ¬ NoClamp [⟨40000, 0, some 100⟩] := by
  unfold NoClamp secondBearings extents; decide

/-- gid 0 simple (4 points), gid 1 = composite of 0 twice, gid 2 = composite of 1 and 0 -/
def demoGlyphs : List Glyph :=
  [⟨.simple [[(0,0),(10,0),(10,10),(0,10)]], some ⟨0,0,10,10⟩⟩,
   ⟨.composite [⟨0, Affine.identity⟩, ⟨0, ⟨1,0,0,1,20,0⟩⟩], some ⟨0,0,30,10⟩⟩,
   ⟨.composite [⟨1, Affine.identity⟩, ⟨0, ⟨1,0,0,1,0,20⟩⟩], some ⟨0,0,30,30⟩⟩]

example : Acyclic (demoGlyphs.map (·.shape)) id := by
  constructor
  · intro gid comps h c hc
    match gid with
    | 0 => simp [demoGlyphs] at h
    | 1 => simp [demoGlyphs] at h; subst h; simp at hc; rcases hc with rfl | rfl <;> simp [demoGlyphs]
    | 2 => simp [demoGlyphs] at h; subst h; simp at hc; rcases hc with rfl | rfl <;> simp [demoGlyphs]
    | n + 3 => simp [demoGlyphs] at h
  · intro gid comps h c hc
    match gid with
    | 0 => simp [demoGlyphs] at h
    | 1 => simp [demoGlyphs] at h; subst h; simp at hc; rcases hc with rfl | rfl <;> simp
    | 2 => simp [demoGlyphs] at h; subst h; simp at hc; rcases hc with rfl | rfl <;> simp
    | n + 3 => simp [demoGlyphs] at h

example : buildMaxp demoGlyphs = some ⟨3, 4, 1, 12, 3, 2, 2⟩ := by decide +kernel
example : buildMaxpC demoGlyphs = .ok ⟨3, 4, 1, 12, 3, 2, 2⟩ := by decide +kernel
example : advanceOfWidth (131071 / 2) = none ∧ advanceOfWidth (-1/2) = some 0 ∧ advanceOfWidth (-1) = none := by
  decide +kernel
example : glyphBbox (demoGlyphs.map (·.shape)) 4 (.composite [⟨1, Affine.identity⟩, ⟨0, ⟨1,0,0,1,0,20⟩⟩])
    = some (some ⟨0, 0, 30, 30⟩) := by
  simp [glyphBbox, bboxOfComposite, demoGlyphs, Affine.mul, Affine.identity, Affine.apply, ptToRat, Rect.addPt,
    ratMin, ratMax, rectToBox, otRound, satI16]
  constructor <;> decide +kernel
example : locaFormat (locaOffsets [28, 40, 64, 54]) = .short := by decide
example : locaFormat (locaOffsets [28, 41, 64]) = .long := by decide
example : minMaxCharIndex [0x1F000, 0x41] = (0x41, 0xFFFF) := by decide
example : unicodeRangeBits [0x1F02F] = [57, 122] := by decide +kernel

end Fontc.C17

#print axioms Fontc.C17.hmtx_expands_to_input
#print axioms Fontc.C17.hhea_extrema_clamped
#print axioms Fontc.C17.hhea_extrema
#print axioms Fontc.C17.metric_args_spec
#print axioms Fontc.C17.composite_limits_spec
#print axioms Fontc.C17.maxp_simple_maxima
#print axioms Fontc.C17.head_bbox_is_union
#print axioms Fontc.C17.composite_bbox_covers
#print axioms Fontc.C17.loca_format_matches
#print axioms Fontc.C17.avg_count_total_spec
#print axioms Fontc.C17.avg_width_spec
#print axioms Fontc.C17.avg_width_old_partial
#print axioms Fontc.C17.avg_width_old_counterexample
#print axioms Fontc.C17.composite_limits_checked
#print axioms Fontc.C17.maxp_checked_spec
#print axioms Fontc.C17.advance_checked_spec
#print axioms Fontc.C17.first_last_char_spec
#print axioms Fontc.C17.unicodeRanges_sorted_disjoint
#print axioms Fontc.C17.unicode_range_spec
