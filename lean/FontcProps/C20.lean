/-
  C20 — Same design, same font through every entry point and container.
  Property theorems only; helper lemmas live in FontcProofs/Plist{Lex,Parse,Canon,Bare,Package}.lean.

  Setting.
  * `Plist.parse` models `glyphs_reader::Plist::parse` (glyphs-reader/src/plist.rs) over `List Char`.
    A `PVal` is a plist value; a dictionary is the list of its entries in *written* order.
    `Plist.canon v` is what the reader's `BTreeMap` makes of it (keys sorted, last duplicate wins).
    `Plist.print v st` is the text of `v` in style `st : Style = List Nat → NodeStyle`: every function is a
    style; it fixes, for every node of the value, the whitespace before/after it, before `=`, `;`/`,` and
    the closing bracket, whether a string/key is written bare when that is allowed, how each character of
    a quoted string is rendered (raw / `\"`-style / octal / `\Uhhhh` incl. surrogate pairs, hex case),
    the case of data hex digits and a trailing comma.
    `Plist.valid v` states the invariants of the Rust types (integers are `i64`, floats come from float
    text); strings range over *all* Unicode scalar values (Lean `Char`), including NUL, `"`, `\`, controls
    and characters outside the BMP.
  * `Entry` models the dispatch of `fontc::Input`, `Args → Options`, the flag merge and the two entry
    points `fontc::run` / `fontc::generate_font`.
-/
import FontcModel.Plist
import FontcModel.Entry
import FontcProofs.PlistParse
import FontcProofs.PlistCanon
import FontcProofs.PlistBare
import FontcProofs.PlistPackage

namespace Fontc.C20
open Fontc Fontc.Plist

/-! ## formatting does not matter (plist level) -/

/-- The reader reads every valid value back from every style — as its canonical form.  No hypothesis on
    keys: with repeated keys the result is still determined (`duplicate_key_last_wins`). -/
theorem parse_print_reads_canon (v : PVal) (hv : valid v = true) (st : Style) :
    parse (print v st) = some (canon v) :=
  parse_print v hv st

/-- `parse (print v style) = some v` for every value whose dictionaries are in key order (hence have
    distinct keys) and every style. -/
theorem parse_print_any_style (v : PVal) (hv : valid v = true) (hc : canonical v = true) (st : Style) :
    parse (print v st) = some v := by
  rw [parse_print v hv st, canon_of_canonical v hc]

/-- Two styles of the same value read back the same: whitespace, quoting, escapes, hex case and trailing
    commas are insignificant. -/
theorem style_insensitive (v : PVal) (hv : valid v = true) (st st' : Style) :
    parse (print v st) = parse (print v st') := by
  rw [parse_print v hv st, parse_print v hv st']

/-- Dictionary key order is insignificant, at every depth, as long as keys are distinct: `w` is `v` with
    dictionary entries reordered anywhere (`KeyPerm`), each printed in its own style. -/
theorem key_order_insensitive (v w : PVal) (h : KeyPerm v w) (hd : distinctKeys v = true)
    (hv : valid v = true) (hw : valid w = true) (st st' : Style) :
    parse (print v st) = parse (print w st') := by
  rw [parse_print v hv st, parse_print w hw st', (canon_keyPerm h hd).1]

/-- Every value in the reader's own order, written with its keys in any order and in any style, reads
    back as itself. -/
theorem parse_print_any_key_order (v w : PVal) (hc : canonical v = true) (h : KeyPerm v w)
    (hd : distinctKeys v = true) (hw : valid w = true) (st : Style) :
    parse (print w st) = some v := by
  rw [parse_print w hw st, ← (canon_keyPerm h hd).1, canon_of_canonical v hc]

/-- With a repeated key the *last* entry wins … -/
theorem duplicate_key_last_wins (pre post : List (Key × PVal)) (k : Key) (x : PVal)
    (hlast : ∀ kv ∈ post, kv.1 ≠ k) (kvs : List (Key × PVal))
    (h : canon (.dict (pre ++ (k, x) :: post)) = .dict kvs) :
    lookupKV k kvs = some (canon x) := by
  simp only [canon] at h
  cases h
  exact lookup_canonE_last pre post k x [] hlast

/-- … so with repeated keys the written order *is* significant: `{a = 1; a = 2;}` and `{a = 2; a = 1;}`
    are reorderings of each other and read back differently (the `distinctKeys` hypothesis of
    `key_order_insensitive` cannot be dropped). -/
def KeyOrderNeverMatters : Prop := ∀ v w : PVal, KeyPerm v w → valid v = true → canon v = canon w

theorem duplicate_keys_order_significant : ¬ KeyOrderNeverMatters := by
  intro h
  have := h (.dict [(['a'], .int 1), (['a'], .int 2)]) (.dict [(['a'], .int 2), (['a'], .int 1)])
    (KeyPerm.reorder (List.Perm.swap _ _ _)) (by decide)
  simp [canon, canonE, insertKV, keyLt] at this

/-! ## where quotes are optional -/

/-- A string value may be written without quotes exactly when it is `bareOk`: non-empty, all characters in
    `[0-9A-Za-z_$/:.-]` (plist.rs:92 `is_alnum`), and not something `parse_atom` turns into a number
    (`looksNumeric`).  `r` is the text that follows (it must not continue the bare word). -/
theorem unquoted_iff_safe (s r : List Char) (f : Nat) (hr : Stop r) :
    parseRec (f + 1) (s ++ r) = some (.str s, r) ↔ bareOk s = true :=
  bare_reads_back_iff s r f hr

/-- The printer leaves quotes out only there (so it is safe), and may always put them. -/
theorem printer_quotes_when_needed (s : List Char) (n : NodeStyle) (h : bareOk s = false) :
    printStr s n = printQuoted s n.esc := by
  simp [printStr, h]

/-- Strings that look like numbers: `123` and `"123"` are *different* values for the untyped reader
    (`Plist::Integer(123)` vs `Plist::String("123")`), likewise `1.5`, `1e5`, `-inf`.  So number-like
    strings need their quotes, and the style space never removes them. -/
theorem number_like_strings_need_quotes :
    parse "123".toList = some (.int 123) ∧ parse "\"123\"".toList = some (.str "123".toList) ∧
    parse "1e5".toList = some (.flt "1e5".toList) ∧ parse "\"1e5\"".toList = some (.str "1e5".toList) ∧
    parse "-inf".toList = some (.flt "-inf".toList) ∧ parse "inf".toList = some (.str "inf".toList) ∧
    parse "007".toList = some (.str "007".toList) ∧ parse "1E5".toList = some (.str "1E5".toList) ∧
    bareOk "123".toList = false ∧ bareOk "007".toList = true := by
  refine ⟨by rfl, by rfl, by rfl, by rfl, by rfl, by rfl, by rfl, by rfl, by rfl, by rfl⟩

/-- Outside the grammar: comments are not recognised (`/` is a bare-word character, and `Plist::parse`
    does not look at what follows the first value); a trailing comma is accepted, an empty element is
    not; `\U` takes up to four hex digits; a lone surrogate is an error. -/
theorem outside_the_grammar :
    parse "/* c */ 1".toList = some (.str "/".toList) ∧ (parse "{a = /* c */ 1;}".toList).isNone = true ∧
    parse "1 2 3 trailing { garbage".toList = some (.int 1) ∧
    parse "(a, b,)".toList = some (.arr [.str "a".toList, .str "b".toList]) ∧ parse "(a,,)".toList = none ∧
    parse "\"\\U41\"".toList = some (.str "A".toList) ∧ parse "\"\\U00411\"".toList = some (.str "A1".toList) ∧
    parse "\"\\UD83D\"".toList = none ∧ parse "<0a 0b>".toList = none := by
  refine ⟨by rfl, by decide +kernel, by rfl, by rfl, by rfl, by rfl, by rfl, by rfl, by rfl⟩

/-! ## `.glyphspackage` -/

/-- Value level: split the top-level dictionary of a single-file source (keys in reader order) into
    `fontinfo.plist` (everything but `glyphs`), one file per glyph and `order.plist` (the glyph names);
    then `load_package` (font.rs:2254) — whatever order the directory listing yields the glyph files in —
    rebuilds exactly the single-file value.  Forced hypotheses: every glyph has a non-empty string
    `glyphname` (`namesOf`), and the names are pairwise distinct (a package keys glyphs by name). -/
theorem package_reassembly_eq (kvs : List (Key × PVal)) (gs : List PVal) (names : List Key) (files : List PVal)
    (hsorted : sortedKeys kvs = true) (hglyphs : lookupKV kGlyphs kvs = some (.arr gs))
    (hnames : namesOf gs = some names) (hnd : names.Nodup) (hfiles : files.Perm gs) :
    split (.dict kvs) = some ⟨.dict (eraseKV kGlyphs kvs), some (.arr (names.map .str)), gs⟩ ∧
    reassemble ⟨.dict (eraseKV kGlyphs kvs), some (.arr (names.map .str)), files⟩ = some (.dict kvs) :=
  package_reassembly kvs gs names files hsorted hglyphs hnames hnd hfiles

/-! ## entry points -/

open Fontc.Entry

/-- The command-line entry (`fontc::run`, given an output file) and the library entry
    (`fontc::generate_font`) make the *same* internal call — same source reader, same merged flags, same
    version stamp — for equal `Options`. -/
theorem entry_points_same_call (version : List Char) (sourceFlags : SourceSpec → Flags) (input : Input)
    (o : Options) (out : List Char) (hout : o.outputFile = some out) :
    run version sourceFlags input o = .ok (generateFont version sourceFlags input.createSource o, out) := by
  simp [run, generateFont, hout]

/-- … and without an output file the command-line entry refuses (`Error::NoOutputFile`). -/
theorem run_requires_output (version : List Char) (sourceFlags : SourceSpec → Flags) (input : Input)
    (o : Options) (hout : o.outputFile = none) : run version sourceFlags input o = .error .noOutputFile := by
  simp [run, hout]

/-- The bytes cannot depend on where they are written: the internal call ignores `output_file` and
    `timing_file`. -/
theorem internal_call_ignores_output_paths (version : List Char) (sourceFlags : SourceSpec → Flags)
    (src : SourceSpec) (o : Options) (a b : Option (List Char)) :
    internalCall version sourceFlags src { o with outputFile := a, timingFile := b } =
      internalCall version sourceFlags src o := rfl

/-- A bare `fontc <path>` command line gives the library's default `Options` (up to the output path):
    `Args::flags()` of the defaults is `Flags::default()`. -/
theorem cli_default_is_library_default (path : List Char) :
    ({ path := path } : Args).toOptions = { Options.default with outputFile := some "build/font.ttf".toList } := by
  rfl

/-- Hence the whole command line `fontc <path>` and `generate_font(Input::new(path).create_source(), Options::default())`
    make the same internal call. -/
theorem cli_main_same_call (version : List Char) (sourceFlags : SourceSpec → Flags) (path : List Char)
    (input : Input) (hin : Input.new true path = .ok input) :
    (cliMain version sourceFlags true { path := path }).map (·.1) =
      .ok (generateFont version sourceFlags input.createSource Options.default) := by
  simp [cliMain, hin, run, Args.toOptions, generateFont, internalCall, mergeFlags, Args.flags, Args.flagsToDisable,
    Options.default, Flags.default, Flags.empty, joinPath, Except.map]
  rfl

/-- The flag merge: a flag the options disable is off; otherwise it is on iff the options or the source
    enable it (lib.rs:199). -/
theorem merge_flags_spec (o : Options) (s : Flags) :
    (mergeFlags o s).flattenComponents = ((o.flags.flattenComponents || s.flattenComponents) && !o.flagsToDisable.flattenComponents) ∧
    (mergeFlags o s).eraseOpenCorners = ((o.flags.eraseOpenCorners || s.eraseOpenCorners) && !o.flagsToDisable.eraseOpenCorners) ∧
    (mergeFlags o s).propagateAnchors = ((o.flags.propagateAnchors || s.propagateAnchors) && !o.flagsToDisable.propagateAnchors) :=
  ⟨rfl, rfl, rfl⟩

theorem fileName_append (dir name : List Char) (hn : name.all (· != '/') = true) :
    fileName (dir ++ '/' :: name) = name := by
  unfold fileName
  have : ∀ (a b : List Char), a.all (· != '/') = true → (a ++ '/' :: b).takeWhile (· != '/') = a := by
    intro a b ha
    induction a with
    | nil => simp [List.takeWhile]
    | cons c a ih => simp at ha; simp [List.takeWhile, ha.1]; exact ih (by simpa using ha.2)
  rw [List.reverse_append, List.reverse_cons, List.append_assoc, List.singleton_append,
    this _ _ (by simpa using hn), List.reverse_reverse]

/-- `.ufo` and `.designspace` go to the same reader, `.glyphs` and `.glyphspackage` to the same reader;
    the extension is matched exactly (`X.GLYPHS` is not recognised). -/
theorem input_dispatch (dir : List Char) :
    Input.new true (dir ++ '/' :: "x.ufo".toList) = .ok (.designSpacePath (dir ++ '/' :: "x.ufo".toList)) ∧
    Input.new true (dir ++ '/' :: "x.designspace".toList) = .ok (.designSpacePath (dir ++ '/' :: "x.designspace".toList)) ∧
    Input.new true (dir ++ '/' :: "x.glyphs".toList) = .ok (.glyphsPath (dir ++ '/' :: "x.glyphs".toList)) ∧
    Input.new true (dir ++ '/' :: "x.glyphspackage".toList) = .ok (.glyphsPath (dir ++ '/' :: "x.glyphspackage".toList)) ∧
    Input.new true (dir ++ '/' :: "X.GLYPHS".toList) = .error .unrecognizedSource ∧
    Input.new false (dir ++ '/' :: "x.glyphs".toList) = .error .fileExpected := by
  refine ⟨?_, ?_, ?_, ?_, ?_, ?_⟩
  · simp only [Input.new, fileName_append dir "x.ufo".toList (by decide)]; rfl
  · simp only [Input.new, fileName_append dir "x.designspace".toList (by decide)]; rfl
  · simp only [Input.new, fileName_append dir "x.glyphs".toList (by decide)]; rfl
  · simp only [Input.new, fileName_append dir "x.glyphspackage".toList (by decide)]; rfl
  · simp only [Input.new, fileName_append dir "X.GLYPHS".toList (by decide)]; rfl
  · rfl

/-! ## non-vacuity -/

/-- a value with nested dictionaries (keys out of order), strings that force quoting and escapes
    (quote, backslash, newline, NUL, Latin-1, BMP, astral), a number-like string, numbers, data -/
def exWritten : PVal :=
  .dict [("name".toList, .str "a \"b\"\\\n\x00é’💩".toList),
         ("glyphs".toList, .arr [.dict [("unicode".toList, .str "0041".toList), ("glyphname".toList, .str "A".toList)],
                                 .int (-42), .flt "1.5e3".toList, .data [0, 255], .str "123".toList, .str "".toList]),
         (".formatVersion".toList, .int 3)]

/-- the same value in the reader's key order -/
def exCanon : PVal :=
  .dict [(".formatVersion".toList, .int 3),
         ("glyphs".toList, .arr [.dict [("glyphname".toList, .str "A".toList), ("unicode".toList, .str "0041".toList)],
                                 .int (-42), .flt "1.5e3".toList, .data [0, 255], .str "123".toList, .str "".toList]),
         ("name".toList, .str "a \"b\"\\\n\x00é’💩".toList)]

/-- a style that uses every freedom: whitespace everywhere, alternating bare/quoted, all escape forms,
    mixed hex case, trailing commas -/
def exStyle : Style := fun p =>
  { pre := " \n".toList, post := "\t".toList, bare := p.length % 2 == 0,
    esc := [.uni true, .octal, .short, .raw, .short, .uni false, .short, .octal, .octal, .uni false, .uni true],
    upper := [true, false, false, true], close := "\r\n ".toList, trailingComma := true,
    keyPre := "\n  ".toList, keyBare := p.length % 2 == 1, keyEsc := [.uni false, .octal], eqPre := " ".toList }

theorem exWritten_valid : valid exWritten = true := by decide +kernel
theorem exCanon_valid : valid exCanon = true := by decide +kernel
theorem exCanon_canonical : canonical exCanon = true := by decide +kernel
theorem exWritten_canon : canon exWritten = exCanon := by
  simp [exWritten, exCanon, canon, canonL, canonE, insertKV, keyLt]

example : parse (print exCanon exStyle) = some exCanon :=
  parse_print_any_style exCanon exCanon_valid exCanon_canonical exStyle
example : parse (print exWritten exStyle) = some exCanon := by
  rw [parse_print_reads_canon exWritten exWritten_valid exStyle, exWritten_canon]
example : parse (print exCanon exStyle) = parse (print exCanon (fun _ => {})) :=
  style_insensitive exCanon exCanon_valid _ _

/-- key order at two depths: `{a = {x = 1; y = 2;}; b = 3;}` written as `{b = 3; a = {y = 2; x = 1;};}` -/
def exV : PVal := .dict [(['a'], .dict [(['x'], .int 1), (['y'], .int 2)]), (['b'], .int 3)]
def exW : PVal := .dict [(['b'], .int 3), (['a'], .dict [(['y'], .int 2), (['x'], .int 1)])]

theorem exV_keyPerm_exW : KeyPerm exV exW :=
  KeyPerm.trans
    (KeyPerm.inEntry (pre := []) (post := [(['b'], .int 3)]) (k := ['a'])
      (KeyPerm.reorder (List.Perm.swap (['y'], PVal.int 2) (['x'], PVal.int 1) [])))
    (KeyPerm.reorder (List.Perm.swap _ _ []))

example : parse (print exV exStyle) = parse (print exW (fun _ => {})) :=
  key_order_insensitive exV exW exV_keyPerm_exW (by decide +kernel) (by decide +kernel) (by decide +kernel) _ _
example : parse (print exW exStyle) = some exV :=
  parse_print_any_key_order exV exW (by decide +kernel) exV_keyPerm_exW (by decide +kernel) (by decide +kernel) _

/-- `unquoted_iff_safe`, both ways: `A.alt` may stay bare, `1e5` and `a b` may not -/
example : parseRec 1 "A.alt;".toList = some (.str "A.alt".toList, ";".toList) :=
  (unquoted_iff_safe "A.alt".toList ";".toList 0 (stop_cons _ (by decide))).2 (by decide +kernel)
example : parseRec 1 "1e5;".toList ≠ some (.str "1e5".toList, ";".toList) := fun h =>
  absurd ((unquoted_iff_safe "1e5".toList ";".toList 0 (stop_cons _ (by decide))).1 h) (by decide +kernel)
example : parseRec 1 "a b;".toList ≠ some (.str "a b".toList, ";".toList) := fun h =>
  absurd ((unquoted_iff_safe "a b".toList ";".toList 0 (stop_cons _ (by decide))).1 h) (by decide +kernel)

/-- a two-glyph source as a package whose directory lists the glyph files in the other order -/
def exGlyphA : PVal := .dict [("glyphname".toList, .str "A".toList), ("unicode".toList, .str "0041".toList)]
def exGlyphB : PVal := .dict [("glyphname".toList, .str "B".toList)]
def exFont : List (Key × PVal) :=
  [(".formatVersion".toList, .int 3), ("familyName".toList, .str "X".toList), ("glyphs".toList, .arr [exGlyphA, exGlyphB])]

example : reassemble ⟨.dict (eraseKV kGlyphs exFont), some (.arr (["A".toList, "B".toList].map .str)), [exGlyphB, exGlyphA]⟩
    = some (.dict exFont) :=
  (package_reassembly_eq exFont [exGlyphA, exGlyphB] ["A".toList, "B".toList] [exGlyphB, exGlyphA]
    (by decide +kernel) (by rfl) (by rfl) (by decide) (List.Perm.swap _ _ [])).2

/-- entry points: `fontc x.glyphs -o out.ttf --flatten-components=false` vs the library with the same options -/
example : run [] (fun _ => { flattenComponents := true, eraseOpenCorners := true }) (.glyphsPath "x.glyphs".toList)
      ({ path := "x.glyphs".toList, outputFile := some "out.ttf".toList, flattenComponents := .off } : Entry.Args).toOptions
    = .ok (generateFont [] (fun _ => { flattenComponents := true, eraseOpenCorners := true }) (.glyphsFile "x.glyphs".toList)
        ({ path := "x.glyphs".toList, outputFile := some "out.ttf".toList, flattenComponents := .off } : Entry.Args).toOptions,
        "out.ttf".toList) :=
  entry_points_same_call _ _ _ _ _ rfl

/-! ## F-C20-1 — the *typed* reader of a glyph's `unicode` entry depends on the layout

  `glyphs-reader` rewrites, before parsing, every line that matches
  `(?m)^\s*unicode\s*=\s*[(]?[0-9a-zA-Z,]+[)]?;\s*$` into `unicode = "…";` (font.rs:3798) and then reads the
  field as a string (font.rs:1522).  `typedUnicodeRaw entry` models both steps for the text of one entry. -/

/-- the text of a dictionary holding the entry -/
def entryDict (entry : List Char) : List Char := '{' :: entry ++ ['}']

/-- Full statement (false of the code): entry texts that the untyped reader reads as the same value are
    read the same by the typed reader. -/
def UnicodeEntryLayoutInsensitive : Prop :=
  ∀ e₁ e₂ : List Char, (parse (entryDict e₁)).isSome = true → parse (entryDict e₁) = parse (entryDict e₂) →
    typedUnicodeRaw e₁ = typedUnicodeRaw e₂

def exUni : PVal := .dict [("unicode".toList, .arr [.int 1619, .int 1764])]
def exUniStyle₁ : Style := fun p => if p == [0] then { pre := " ".toList, eqPre := " ".toList } else {}
def exUniStyle₂ : Style := fun p =>
  if p == [0] then { pre := " ".toList, eqPre := " ".toList } else if p == [0, 1] then { pre := " ".toList } else {}

/-- Witness: `unicode = (1619,1764);` and `unicode = (1619, 1764);` are two styles of one value, the first
    is read as the string `1619,1764`, the second makes the source unreadable. -/
theorem unicode_entry_layout_counterexample : ¬ UnicodeEntryLayoutInsensitive := by
  intro h
  have h1 : print exUni exUniStyle₁ = entryDict "unicode = (1619,1764);".toList := by decide +kernel
  have h2 : print exUni exUniStyle₂ = entryDict "unicode = (1619, 1764);".toList := by decide +kernel
  have hv : valid exUni = true := by decide +kernel
  have e := style_insensitive exUni hv exUniStyle₁ exUniStyle₂
  have s : (parse (print exUni exUniStyle₁)).isSome = true := by
    rw [parse_print_reads_canon exUni hv]; rfl
  rw [h1] at s
  rw [h1, h2] at e
  exact absurd (h _ _ s e) (by decide +kernel)

/-- the two readings of the witness -/
theorem unicode_entry_layout_witness :
    typedUnicodeRaw "unicode = (1619,1764);".toList = some "1619,1764".toList ∧
    typedUnicodeRaw "unicode = (1619, 1764);".toList = none ∧
    typedUnicodeRaw "\"unicode\" = (1619,1764);".toList = none ∧
    typedUnicodeRaw "unicode = (\n1619,1764\n);".toList = none ∧
    typedUnicodeRaw "unicode = (1619,1764); note = x;".toList = none ∧
    typedUnicodeRaw "unicode = 0041;".toList = some "0041".toList ∧
    typedUnicodeRaw "\"unicode\"=\n0041 ;".toList = some "0041".toList := by
  decide +kernel

/-- the text of the entry `unicode = <string s>;` in style `st` -/
def unicodeEntryText (s : List Char) (st : Style) : List Char := printEntries [("unicode".toList, .str s)] st 0

/-- Partial statement (true): a *scalar* `unicode` entry is read as its string in every style, as long
    as the rewriting step leaves the text alone (`hpre`; it only ever touches lines of the shape above). -/
theorem unicode_scalar_entry_partial (s : List Char) (st : Style)
    (hpre : preprocessUnicode (unicodeEntryText s st) = unicodeEntryText s st) :
    typedUnicodeRaw (unicodeEntryText s st) = some s := by
  have htxt : unicodeEntryText s st = ws (st [0]).keyPre ++ (printKey "unicode".toList (st [0]) ++
      (ws (st [0]).eqPre ++ '=' :: (ws (st.sub 0 []).pre ++ (printStr s (st.sub 0 []) ++ (ws (st [0]).post ++ [';']))))) := by
    unfold unicodeEntryText
    rw [printEntries_cons, printVal]
    simp only [printEntries, List.append_assoc]
  obtain ⟨tok, hlex, hkey⟩ := lex_printKey "unicode".toList (st [0]) (st [0]).keyPre
    (ws (st [0]).eqPre ++ '=' :: (ws (st.sub 0 []).pre ++ (printStr s (st.sub 0 []) ++ (ws (st [0]).post ++ [';']))))
    (stop_ws_cons _ '=' _ (by decide))
  have hval : readStringTok (ws (st.sub 0 []).pre ++ (printStr s (st.sub 0 []) ++ (ws (st [0]).post ++ [';']))) =
      some (s, ws (st [0]).post ++ [';']) := by
    unfold readStringTok printStr
    by_cases hb : ((st.sub 0 []).bare && bareOk s) = true
    · rw [if_pos hb]
      simp only [Bool.and_eq_true, bareOk] at hb
      obtain ⟨_, ⟨⟨h1, h2⟩, _⟩⟩ := hb
      rw [lex_atom _ s _ (by intro h; subst h; simp at h1) h2 (stop_ws_cons _ ';' _ (by decide))]
    · rw [if_neg hb, lex_quoted]
  unfold typedUnicodeRaw
  rw [hpre, htxt, hlex]
  simp only [hkey, beq_self_eq_true, if_true, expect_hit (st [0]).eqPre '=' _ (by decide), hval,
    expect_hit (st [0]).post ';' [] (by decide)]
  rfl

/-- the partial statement applies (quoted key, line breaks: the rewriting step does not fire) -/
example : typedUnicodeRaw (unicodeEntryText "0041".toList (fun _ => { keyBare := false, eqPre := " \n".toList, pre := "\t".toList })) =
    some "0041".toList :=
  unicode_scalar_entry_partial _ _ (by decide +kernel)

end Fontc.C20
