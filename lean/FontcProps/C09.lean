/-
  C09 — Kerning in the font equals the source kerning at every master.
  Property theorems only; helper lemmas live in FontcProofs/Kern{Basic,Build,Partition,Eval}.lean.

  Setting (FontcModel/Kern.lean).  `srcs : List Source` are the kerning masters (per master: side-1 groups, side-2 groups,
  kerning pairs, as `ir::KerningInstance` carries them).  `ufoLookup s g₁ g₂` is the UFO3 kerning value lookup
  (glyph,glyph → glyph,group₂ → group₁,glyph → group₁,group₂ → 0), written from the UFO specification.
  `build srcs` is the model of `build_variable_kern_adjustments` (fontbe/src/features/kern.rs:583): the emitted
  glyph/glyph, class/glyph and class/class adjustments with one value per master.  `evalPairs ps i g₁ g₂` is the
  adjustment (font units, at master `i`) that the compiled kern lookup applies to the ordered glyph pair (g₁, g₂):
  rounded master values, the sort of kern.rs:836, `PairPosBuilder`'s first-glyph-pair-wins and class-subtable
  splitting, and the OpenType PairPos rule that the first class subtable covering g₁ decides.

  RESULT.  The property as stated (for every UFO3-valid source) is FALSE of the code: `reconcile_counterexample`.
  It holds (`reconcile_correct_partial`) when every glyph whose group differs between masters is, in every master,
  in a group that master's kerning references (`KernedWhereDivergent`), and more generally whenever the emitted
  classes of each side are pairwise equal or disjoint (`reconcile_correct_of_partition`) — which is exactly what
  fails in the counterexample (`classes_partition_counterexample`).
-/
import FontcModel.Kern
import FontcModel.VarModel
import FontcProofs.KernBasic
import FontcProofs.KernBuild
import FontcProofs.KernPartition
import FontcProofs.KernEval
import FontcProofs.Rounding
import FontcProofs.VarModelAlg
import FontcProofs.VarModelTri

namespace Fontc.C09
open Fontc Fontc.Kern

/-! ### 1. `lookup_kerning_value` is the UFO lookup -/

/-- For a source whose groups are UFO3-valid (a glyph in at most one group per side), the code's
    `lookup_kerning_value` on a glyph pair, with the per-source maps `KernSource::new` builds, is the UFO lookup. -/
theorem lookup_is_ufo (s : Source) (hv : s.valid = true) (g₁ g₂ : Nat) :
    lookupKerningValue (.glyph g₁, .glyph g₂) s.kerns (s.groupOf .first) (s.groupOf .second) = ufoLookup s g₁ g₂ :=
  lookup_eq_ufoLookup s hv g₁ g₂

/-! ### 2. Reconciliation across masters -/

/-- The property at full strength: every UFO3-valid multi-master source, every master, every ordered glyph pair. -/
def ReconcileFull : Prop :=
  ∀ (srcs : List Source), (∀ s ∈ srcs, s.valid = true) →
    ∀ (i : Nat) (s : Source), srcs[i]? = some s → ∀ g₁ g₂ : Nat,
      evalPairs (build srcs) i g₁ g₂ = otRound (ufoLookup s g₁ g₂)

/-- The classes `build_variable_kern_adjustments` emits (`refined_groups`) partition the glyphs of each side. -/
def ClassesPartitionFull : Prop :=
  ∀ (srcs : List Source), (∀ s ∈ srcs, s.valid = true) → ∀ (side : Side) (c c' : List Nat),
    c ∈ outputClasses srcs side → c' ∈ outputClasses srcs side → ∀ g, g ∈ c → g ∈ c' → c = c'

/-- The extra hypothesis (also available as the executable `kernedWhereDivergent`, which the drivers evaluate on every
    generated case): a glyph whose group differs between masters is, in every master, in a group that master's
    kerning references on that side — or in no group. -/
abbrev Hyp (srcs : List Source) : Prop := KernedWhereDivergent srcs

theorem hyp_iff_check (srcs : List Source) : kernedWhereDivergent srcs = true ↔ Hyp srcs :=
  kernedWhereDivergent_iff srcs

/-- Under `Hyp`, the emitted classes of one side that share a glyph are equal: the classes are pairwise disjoint. -/
theorem classes_partition_partial (srcs : List Source) (hK : Hyp srcs) (side : Side) (c c' : List Nat)
    (hc : c ∈ outputClasses srcs side) (hc' : c' ∈ outputClasses srcs side) (g : Nat) (hg : g ∈ c) (hg' : g ∈ c') :
    c = c' := by
  obtain ⟨G, u, hu, hue⟩ := outputClasses_unit srcs side c hc
  obtain ⟨G', u', hu', hue'⟩ := outputClasses_unit srcs side c' hc'
  exact units_class_eq srcs hK side G G' u u' hu hu' c c' hue hue' g hg hg'

/-- Reconciliation is correct whenever the classes of the emitted pairs are pairwise equal or disjoint on each side. -/
theorem reconcile_correct_of_partition (srcs : List Source) (hvalid : ∀ s ∈ srcs, s.valid = true)
    (hpart : Compat (build srcs)) (i : Nat) (s : Source) (hs : srcs[i]? = some s) (g₁ g₂ : Nat) :
    evalPairs (build srcs) i g₁ g₂ = otRound (ufoLookup s g₁ g₂) :=
  evalPairs_correct_of_compat srcs hvalid hpart i s hs g₁ g₂

/-- Reconciliation is correct under `Hyp`: for every UFO3-valid source satisfying it (any number of masters, groups
    that differ between masters, glyphs grouped in one master only, pairs defined in only some masters, zero-valued
    pairs, exceptions), every master and every ordered glyph pair, the emitted pairs evaluate to that master's own
    rounded UFO lookup. -/
theorem reconcile_correct_partial (srcs : List Source) (hvalid : ∀ s ∈ srcs, s.valid = true) (hK : Hyp srcs)
    (i : Nat) (s : Source) (hs : srcs[i]? = some s) (g₁ g₂ : Nat) :
    evalPairs (build srcs) i g₁ g₂ = otRound (ufoLookup s g₁ g₂) :=
  evalPairs_correct srcs hvalid hK i s hs g₁ g₂

/-! The witness: glyphs 0,1,2 = a,b,c; two masters.
    Master 0: kern1.G0 = [a]; kern2.H0 = [a], kern2.H1 = [b, c];  (G0,H0) = 13, (G0,H1) = −115.
    Master 1: kern1.G0 = [a]; kern2.H0 = [a, b];                   (c,c) = 1.
    Glyph b is in H1 in master 0 and in H0 in master 1, where H0 is not referenced by any pair.
    `refine_divergent_groups` splits H0 into {a},{b} and H1 into {b,c}: two overlapping side-2 classes.
    The pairs ({a},{a}), ({a},{b}), ({a},{b,c}) go to two class subtables; the first covers `a`, has no class for `c`,
    and so yields 0 for (a,c), where master 0 says −115. -/
def wM0 : Source :=
  ⟨[(0, [0])], [(0, [0]), (1, [1, 2])], [((.group 0, .group 0), 13), ((.group 0, .group 1), -115)]⟩
def wM1 : Source := ⟨[(0, [0])], [(0, [0, 1])], [((.glyph 2, .glyph 2), 1)]⟩
def wSrcs : List Source := [wM0, wM1]

theorem witness_valid : ∀ s ∈ wSrcs, s.valid = true := by decide +kernel
theorem witness_font_value : evalPairs (build wSrcs) 0 0 2 = 0 := by decide +kernel
theorem witness_source_value : otRound (ufoLookup wM0 0 2) = -115 := by decide +kernel
theorem witness_hyp_fails : kernedWhereDivergent wSrcs = false := by decide +kernel

/-- The full statement is false of the code as it is. -/
theorem reconcile_counterexample : ¬ ReconcileFull := by
  intro h
  have := h wSrcs witness_valid 0 wM0 rfl 0 2
  rw [witness_font_value, witness_source_value] at this
  exact absurd this (by decide)

/-- … because the emitted classes overlap: side-2 classes [b] and [b,c]. -/
theorem classes_partition_counterexample : ¬ ClassesPartitionFull := by
  intro h
  have := h wSrcs witness_valid .second [1] [1, 2] (by decide +kernel) (by decide +kernel) 1 (by decide) (by decide)
  exact absurd this (by decide)

/-! ### 3. Colliding insertions -/

/-- Two emitted adjustments for the same two sides carry the same values (the `debug_assert` in `insert_resolved`,
    kern.rs:704, cannot fire; overwriting is benign and independent of hash-set iteration order). No hypothesis. -/
theorem colliding_inserts_equal (srcs : List Source) (p q : EPair) (hp : p ∈ build srcs) (hq : q ∈ build srcs)
    (h₁ : p.e₁ = q.e₁) (h₂ : p.e₂ = q.e₂) : p.vals = q.vals :=
  vals_eq_of_same_emits srcs p q hp hq h₁ h₂

/-! ### 4. Through the variation model -/

open Fontc.VarModel in
/-- `resolve_variable_metric` (fontbe/src/features.rs:181) feeds the rounded master values of an adjustment to
    the variation model of the kerning locations (`n` axes, locations `locs`, pairwise distinct) with ties-even delta
    rounding.  At every kerning master the interpolated value — what the font's value record plus its GDEF variation
    deltas give there — is within 1/2 of that master's rounded UFO lookup.
    `srcOf[j]` is the index in `srcs` of the master located at the model's `j`-th location. -/
theorem kern_master_reproduced (srcs : List Source) (hvalid : ∀ s ∈ srcs, s.valid = true) (hK : Hyp srcs)
    (n : Nat) (locs : List Loc) (hlen : ∀ l ∈ locs, l.length = n) (hnd : locs.Pairwise (· ≠ ·))
    (M : Model) (hM : M = Model.new n locs) (g₁ g₂ : Nat)
    (srcOf : List Nat) (hsrcOf : srcOf.length = M.locations.length)
    (vals : Values) (hvals : vals = srcOf.map fun i => some ((evalPairs (build srcs) i g₁ g₂ : Int) : Rat))
    (j i : Nat) (loc : Loc) (s : Source)
    (hloc : M.locations[j]? = some loc) (hj : srcOf[j]? = some i) (hs : srcs[i]? = some s) :
    ratAbs (interpolate M.influence (M.deltas Rounding.tiesEven.apply vals) loc
      - ((otRound (ufoLookup s g₁ g₂) : Int) : Rat)) ≤ 1/2 := by
  subst hM
  have hv : vals[j]? = some (some ((otRound (ufoLookup s g₁ g₂) : Int) : Rat)) := by
    rw [hvals, List.getElem?_map, hj]
    simp only [Option.map]
    rw [evalPairs_correct srcs hvalid hK i s hs g₁ g₂]
  have hvl : vals.length = (Model.new n locs).locations.length := by
    rw [hvals, List.length_map, hsrcOf]
  exact VarModel.deltas_reproduce_rounding .tiesEven _ _ vals (Model.new_triangular n locs hlen hnd) hvl
    j loc _ hloc hv

/-! ### Non-vacuity: a two-master source with divergent groups that satisfies every hypothesis -/

/-- Glyphs 0..3.  Master 0: kern1.G0 = [0,1]; kern2.H0 = [2,3]; (G0,H0) = −50, (0,2) = 10.
    Master 1: kern1.G0 = [0], kern1.G1 = [1]; kern2.H0 = [2,3]; (G0,H0) = −40, (G1,H0) = −20, (G1,3) = 5.
    Glyph 1 changes group between the masters; both its groups are kerned where it is in them. -/
def exSrcs : List Source :=
  [ ⟨[(0, [0, 1])], [(0, [2, 3])], [((.group 0, .group 0), -50), ((.glyph 0, .glyph 2), 10)]⟩,
    ⟨[(0, [0]), (1, [1])], [(0, [2, 3])],
      [((.group 0, .group 0), -40), ((.group 1, .group 0), -20), ((.group 1, .glyph 3), 5)]⟩ ]

theorem ex_valid : ∀ s ∈ exSrcs, s.valid = true := by decide +kernel
theorem ex_hyp : Hyp exSrcs := (hyp_iff_check exSrcs).mp (by decide +kernel)

example : isDivergent exSrcs .first 1 = true := by decide +kernel
example : evalPairs (build exSrcs) 0 1 2 = -50 := by decide +kernel
example : evalPairs (build exSrcs) 1 1 2 = -20 := by decide +kernel
example : evalPairs (build exSrcs) 1 1 3 = 5 := by decide +kernel
example : evalPairs (build exSrcs) 0 0 2 = 10 := by decide +kernel
example : evalPairs (build exSrcs) 1 0 2 = -40 := by decide +kernel
/-- the theorem applies to it (hypotheses are satisfiable) and agrees with direct evaluation -/
example : evalPairs (build exSrcs) 1 1 3 = otRound (ufoLookup (exSrcs[1]) 1 3) :=
  reconcile_correct_partial exSrcs ex_valid ex_hyp 1 _ rfl 1 3
example : (outputClasses exSrcs .first) = [[0], [1]] := by decide +kernel
example : ∀ c ∈ outputClasses exSrcs .first, ∀ c' ∈ outputClasses exSrcs .first, ∀ g, g ∈ c → g ∈ c' → c = c' :=
  fun c hc c' hc' g hg hg' => classes_partition_partial exSrcs ex_hyp .first c c' hc hc' g hg hg'
example : lookupKerningValue (.glyph 1, .glyph 3) (exSrcs[1]).kerns ((exSrcs[1]).groupOf .first)
    ((exSrcs[1]).groupOf .second) = 5 := by decide +kernel

#print axioms lookup_is_ufo
#print axioms classes_partition_partial
#print axioms reconcile_correct_of_partition
#print axioms reconcile_correct_partial
#print axioms reconcile_counterexample
#print axioms classes_partition_counterexample
#print axioms colliding_inserts_equal
#print axioms kern_master_reproduced

end Fontc.C09
