import Driver.Common
import FontcModel.VarModel

namespace Fontc.Driver.C07
open Fontc Fontc.VarModel Fontc.Driver

def parseLoc (s : Sexp) : Option Loc := s.mapM? Sexp.asRat?
def parseLocs (s : Sexp) : Option (List Loc) := s.mapM? parseLoc
def parseTent (s : Sexp) : Option Tent :=
  match s with
  | .list [a, b, c] => do some ⟨← a.asRat?, ← b.asRat?, ← c.asRat?⟩
  | _ => none
def parseRegion (s : Sexp) : Option Region := s.mapM? parseTent
def parseOptRat (s : Sexp) : Option (Option Rat) :=
  match s with
  | .atom "none" => some none
  | _ => some <$> s.asRat?

/-- distance of `x` to the nearest half-integer tie -/
def tieDist (x : Rat) : Rat :=
  let f : Rat := (x.floor : Rat)
  ratAbs (x - f - 1/2)

/-- Step-wise check of the implementation's deltas against the model's recurrence, using the
    implementation's own earlier deltas (so one near-tie rounding cannot cascade). -/
def checkDeltas (round : Bool) (infl : List Region) :
    List (Loc × Option Rat × Option Rat) → List (Option Rat) → Bool × Bool
  | [], _ => (true, false)
  | (_, none, d) :: rest, done =>
    let (ok, tie) := checkDeltas round infl rest (done ++ [none])
    (ok && d.isNone, tie)
  | (loc, some v, d) :: rest, done =>
    let contrib : List Rat := (done.zip infl).map fun (dk, inf) =>
      match dk with
      | some dk => scalarAt inf loc * dk
      | none => 0
    let pre := contrib.foldl (fun acc c => acc - c) v
    let (okHere, tieHere) :=
      match d with
      | none => (false, false)
      | some dImpl =>
        if round then
          if dImpl = (roundTiesEven pre : Rat) then (true, false)
          else if tieDist pre ≤ 1 / (2 ^ 30 : Nat) ∧ (dImpl = (pre.floor : Rat) ∨ dImpl = (pre.floor : Rat) + 1)
            then (true, true)
          else (false, false)
        else (ratClose tol40 dImpl pre, false)
    let (ok, tie) := checkDeltas round infl rest (done ++ [d])
    (ok && okHere, tie || tieHere)

def handle : Handler := fun s =>
  let r : Option Verdict := do
    let n ← (← s.field1? "n").asNat?
    let locs ← parseLocs (← s.field1? "locs")
    let vals ← (← s.field1? "vals").mapM? parseOptRat
    let round := (← (← s.field1? "round").asNat?) == 1
    let probes ← parseLocs (← s.field1? "probes")
    let impl := Sexp.list (← s.field? "impl")
    let iLocs ← parseLocs (← impl.field1? "locations")
    let iInfl ← (← impl.field1? "influence").mapM? parseRegion
    let iDeltas ← (← impl.field1? "deltas").mapM? parseOptRat
    let iInterp ← (← impl.field1? "interp").mapM? parseOptRat
    let iProbe ← (← impl.field1? "probe_interp").mapM? Sexp.asRat?
    let iScalars ← (← impl.field1? "scalars").mapM? (fun r => r.mapM? Sexp.asRat?)
    let permEq := (← impl.field1? "perm_equal") == Sexp.atom "true"
    -- model
    let m := Model.new n locs
    -- value defined at each *model* location
    let valAt (l : Loc) : Option Rat :=
      match (locs.zip vals).find? (fun p => p.1 == l) with
      | some (_, v) => v
      | none => none
    let mVals : Values := iLocs.map valAt
    let locsAgree := m.locations == iLocs
    let inflAgree := m.influence == iInfl
    let (deltasOk, tie) := checkDeltas round iInfl (iLocs.zip (mVals.zip iDeltas)) []
    -- interpolation: implementation's interpolate vs the spec evaluator on the implementation's deltas
    let interpOk := (iLocs.zip iInterp).all fun (l, iv) =>
      match iv with
      | none => true
      | some iv => ratClose tol40 iv (interpolate iInfl iDeltas l)
    let probeOk := (probes.zip iProbe).all fun (l, iv) => ratClose tol40 iv (interpolate iInfl iDeltas l)
    let scalarsAgree := (iInfl.zip iScalars).all fun (inf, row) =>
      (iLocs.zip row).all fun (l, sv) => ratClose tol40 sv (scalarAt inf l)
    let corr := locsAgree && inflAgree && deltasOk && interpOk && probeOk && scalarsAgree
    -- oracle: the property, evaluated on the implementation's own output
    let bound : Rat := if round then 1/2 + tol40 else 0
    let reproduced := (iLocs.zip (mVals.zip iInterp)).all fun (_, v, iv) =>
      match v, iv with
      | some v, some iv => if round then ratAbs (iv - v) ≤ bound else ratClose tol40 iv v
      | none, _ => true
      | some _, none => false
    let defaultExact :=
      match iLocs, mVals, iInterp with
      | l0 :: _, some v0 :: _, some i0 :: _ =>
        if l0.all (· == 0) then (if round then i0 = (roundTiesEven v0 : Rat) else ratClose tol40 i0 v0) else false
      | _, _, _ => true
    let regionsValid := iInfl.all fun r => r.all Tent.wellFormed
    let scalarsUnit := iScalars.all fun row => row.all fun sv => 0 ≤ sv ∧ sv ≤ 1
    let oracle := reproduced && defaultExact && regionsValid && scalarsUnit && permEq
    let nMasters := iLocs.length
    let offAxis := iLocs.any fun l => rank l ≥ 2
    let nt := nMasters ≥ 3 && (offAxis || nMasters ≥ 4)
    let cls :=
      if !oracle then
        (if !reproduced then "master-not-reproduced" else if !defaultExact then "default-not-exact"
         else if !regionsValid then "region-invalid" else if !scalarsUnit then "scalar-out-of-unit" else "order-dependent")
      else if !corr then
        (if !locsAgree then "sort-order" else if !inflAgree then "influence" else if !deltasOk then "deltas"
         else if !scalarsAgree then "scalars" else "interpolate")
      else ""
    let tags := [s!"axes{n}", s!"masters{nMasters}"] ++ (if offAxis then ["offaxis"] else []) ++
      (if tie then ["near-tie"] else []) ++ (if round then ["round"] else ["noround"]) ++
      (if mVals.any Option.isNone then ["sparse"] else [])
    let detail := if corr then "" else s!"model_locs={repr m.locations} model_infl={repr m.influence}"
    some { corr := some corr, oracle := some oracle, nontrivial := nt, cls := cls, tags := tags, detail := detail }
  r.getD (badInput "c07: cannot parse case")

end Fontc.Driver.C07
