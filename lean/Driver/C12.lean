import Driver.Common
import FontcModel.E2E
import FontcModel.Ivs
import FontcModel.SrcInterp
import FontcModel.Components

/-!
  C12 end-to-end oracle.  One generated design, 16 real fonts (one per subset of the four component options).

  oracle — for every font, every exported glyph and every master location L: the FONT glyph, fully resolved
           through its glyf components (F2Dot14 2×2 as stored, offsets and outline points instantiated at L with
           the spec evaluator FontcModel/Ivs.lean) must be the SOURCE's drawing at L (`Design.glyphAt` resolved
           with `Components.resolve`) as a multiset of contours, each up to start point and direction, every
           point within a bound that is computed from the font's own tuple geometry (see `leafBound`,
           `levelBound`), never more than "1/2 for delta rounding + 1 per nesting level" at a master of the
           glyphs involved; advances within 1 of the source at every master of the glyph and identical across
           the 16 fonts.
  corr   — the gating model `Components.process` run on the source at the default location predicts, for every
           flag set, the glyph order and for every glyph how it is stored (simple with which contour sizes /
           composite with which bases, F2Dot14 2×2 and otRound'ed offsets): compared with the real glyf table.
-/
namespace Fontc.Driver.C12
open Fontc Fontc.E2E Fontc.Ivs Fontc.Driver Fontc.Components

def absR (x : Rat) : Rat := if x < 0 then -x else x
def maxR (a b : Rat) : Rat := if a < b then b else a

/-! ### Source side -/

def instOf (g : SGlyph) : Inst :=
  { advance := g.advance,
    contours := g.contours.map fun c => c.map fun p => ⟨p.x, p.y, p.typ != PtType.off⟩,
    comps := g.components.map fun c => ⟨c.base, Affine.ofList c.t⟩ }

/-- The source at normalized location `loc`: every glyph of the default master, at `loc` (`Design.glyphAt`). -/
def envAt (d : Design) (names : List String) (loc : List Rat) : List (String × Inst) :=
  names.filterMap fun n => (d.glyphAt n loc).map fun g => (n, instOf g)

/-! ### Error bounds from the font's own tuple geometry

  A value stored as default + rounded deltas reproduces the (rounded) master values within 1/2 at every master;
  at any other location the error is the model's interpolation of those per-master errors, bounded by
  1/2 · Σ_m |ℓ_m(L)| with ℓ_m the cardinal function of master m (ℓ_m = 1 at master m, 0 at the other masters). -/

/-- (Σ over all masters |ℓ_m(L)|, Σ over non-default masters |ℓ_m(L)|); `none` if the tuples are not triangular
    in the stored order. -/
def lebesgue (tuples : List GTuple) (nAxes : Nat) (loc : List Rat) : Option (Rat × Rat) :=
  let zero := List.replicate nAxes (0 : Rat)
  let locs : List (List Rat) := zero :: tuples.map (·.peak)
  let regs : List (List (Rat × Rat × Rat)) := [] :: tuples.map tupleRegion
  let n := locs.length
  -- S[i][j] = scalar of region j at master i
  let S : List (List Rat) := locs.map fun l => regs.map fun r => regionScalar r l
  let sAt : List Rat := regs.map fun r => regionScalar r loc
  let cardinal (m : Nat) : Option Rat :=
    let ds : List Rat := (List.range n).foldl (fun (ds : List Rat) j =>
      let row := S.getD j []
      let prev := ((row.take j).zip ds).foldl (fun a (w, dd) => a + w * dd) (0 : Rat)
      ds ++ [(if j == m then 1 else 0) - prev]) []
    let ok := (List.range n).all fun i =>
      ((S.getD i []).zip ds).foldl (fun a (w, dd) => a + w * dd) (0 : Rat) == (if i == m then 1 else 0)
    if ok then some ((sAt.zip ds).foldl (fun a (w, dd) => a + w * dd) (0 : Rat)) else none
  match (List.range n).mapM cardinal with
  | none => none
  | some ls => some ((ls.map absR).foldl (· + ·) 0, ((ls.drop 1).map absR).foldl (· + ·) 0)

/-- Bound for a stored value (outline coordinate / component offset) at `loc`:
    `p` = rounding of the master values themselves (0 when they are integers in the source, else 1/2),
    1/2 per delta (ties-even rounded), 1/2·Σscalars for deltas the IUP optimiser left to inference. -/
def storedBound (tuples : List GTuple) (nAxes : Nat) (loc : List Rat) (p : Rat) : Rat :=
  let isDefault := loc.all (· == 0)
  if isDefault then p else
  let iup := if tuples.any (!·.all) then 1/2 * activeScalarSum tuples loc else 0
  match lebesgue tuples nAxes loc with
  | some (lam, lam') => p * lam + 1/2 * lam' + iup
  | none => p + 1/2 * (1 + activeScalarSum tuples loc) + iup

/-! ### Font side: resolve through glyf components at a location -/

structure BPt where
  x : Rat
  y : Rat
  on : Bool
  /-- error bound of this point (max norm) -/
  b : Rat
  deriving Inhabited

/-- Is glyph `name` a pure outline with integer coordinates in the source (then the font's master values are the
    source's, no rounding)? -/
def pureInt (d : Design) (name : String) : Bool :=
  d.masters.all fun m =>
    match m.glyph? name with
    | none => true
    | some g => g.components.isEmpty && g.contours.all fun c => c.all fun p => p.x.den == 1 && p.y.den == 1

def satSlack (entry coord : Rat) : Rat := if absR entry > 19999/10000 then absR coord / 16384 else 0

/-- Returns the contours with per-point bounds, the nesting depth reached, and whether a negative determinant
    was met. -/
def fontResolve (d : Design) (f : Font) (loc : List Rat) : Nat → Nat → List (List BPt) × Nat × Bool
  | 0, _ => ([], 0, false)
  | fuel + 1, gid =>
    let tuples := (f.gvar.getD []).getD gid []
    let nAxes := d.axes.length
    let adv : Rat := ((f.hmtx.getD gid (0, 0)).1 : Rat)
    let phantom : List (Rat × Rat) := [(0, 0), (adv, 0), (0, 0), (0, 0)]
    match f.glyf.getD gid .empty with
    | .empty => ([], 0, false)
    | .simple _ ends fpts =>
      let pts : List (Rat × Rat) := fpts.map fun (x, y, _) => ((x : Rat), (y : Rat))
      let inst := (instantiateSimple pts phantom ends tuples loc).take pts.length
      let p : Rat := if pureInt d (f.names.getD gid "") then 0 else 1/2
      let b := storedBound tuples nAxes loc p
      let flat : List BPt := (inst.zip fpts).map fun ((x, y), (_, _, on)) => ⟨x, y, on, b⟩
      (splitByEnds flat ends, 0, false)
    | .composite _ comps =>
      let offsets : List (Rat × Rat) := comps.map fun c => ((c.dx : Rat), (c.dy : Rat))
      let inst := instantiateComposite offsets phantom tuples loc
      let lb := storedBound tuples nAxes loc (1/2)
      (comps.zip inst).foldl (fun (acc : List (List BPt) × Nat × Bool) (c, (dx, dy)) =>
        let (sub, dep, neg) := fontResolve d f loc fuel c.gid
        let norm := maxR (absR c.xx + absR c.xy) (absR c.yx + absR c.yy)
        let det := c.xx * c.yy - c.xy * c.yx
        let moved := sub.map fun ct => ct.map fun q =>
          -- glyf: x' = xscale·x + scale10·y + dx (read-fonts: xx, xy), y' = scale01·x + yscale·y + dy (yx, yy)
          let slack := maxR (satSlack c.xx q.x + satSlack c.xy q.y) (satSlack c.yx q.x + satSlack c.yy q.y)
          (⟨c.xx * q.x + c.xy * q.y + dx, c.yx * q.x + c.yy * q.y + dy, q.on, norm * q.b + lb + slack⟩ : BPt)
        (acc.1 ++ moved, Nat.max acc.2.1 (dep + 1), acc.2.2 || neg || det < 0)) ([], 0, false)

/-! ### Comparing drawings: multiset of contours, each up to start point and direction -/

def rotations {α} (l : List α) : List (List α) := (List.range l.length).map fun k => l.drop k ++ l.take k

/-- first point of `fc` outside its bound w.r.t. `sc` (index, message); `none` = match -/
def firstDiff (fc : List BPt) (sc : Contour) : Option (Nat × String) :=
  ((fc.zip sc).zipIdx.find? fun ((p, q), _) =>
    !(absR (p.x - q.x) ≤ p.b && absR (p.y - q.y) ≤ p.b && p.on == q.on)).map fun ((p, q), i) =>
    (i, s!"point {i}: font ({p.x},{p.y},{if p.on then "on" else "off"}) vs source ({q.x},{q.y},{if q.on then "on" else "off"}) bound {p.b}")

def matchesFwd (fc : List BPt) (sc : Contour) : Bool :=
  fc.length == sc.length && (rotations sc).any fun r => (firstDiff fc r).isNone
def matchesBwd (fc : List BPt) (sc : Contour) : Bool := matchesFwd fc sc.reverse
def contourMatches (fc : List BPt) (sc : Contour) : Bool := matchesFwd fc sc || matchesBwd fc sc

def matchGo (fcs : List (List BPt)) (rest : List Contour) (allFwd allBwd : Bool) : Except String (Bool × Bool) :=
  match fcs with
  | [] => .ok (allFwd, allBwd)
  | fc :: more =>
    match rest.zipIdx.find? fun (sc, _) => contourMatches fc sc with
    | some (sc, i) => matchGo more (rest.eraseIdx i) (allFwd && matchesFwd fc sc) (allBwd && matchesBwd fc sc)
    | none =>
      -- report the closest attempt (rotation / direction of a same-size source contour, least total deviation)
      let cost (r : Contour) : Rat := ((fc.zip r).map fun (p, q) => absR (p.x - q.x) + absR (p.y - q.y)).foldl (· + ·) 0
      let tries := (rest.filter (·.length == fc.length)).flatMap fun sc => rotations sc ++ rotations sc.reverse
      match tries.foldl (fun (best : Option (Rat × Contour)) r =>
          let c := cost r
          match best with
          | none => some (c, r)
          | some b => if c < b.1 then some (c, r) else some b) none with
      | some (_, r) => .error ((firstDiff fc r).map (·.2) |>.getD "?")
      | none => .error s!"no source contour with {fc.length} points"

/-- Greedy matching of font contours to source contours. Returns an error message, or whether every match was
    possible in the same direction / in the reversed direction. -/
def matchDrawings (fcs : List (List BPt)) (scs : List Contour) : Except String (Bool × Bool) :=
  if fcs.length != scs.length then
    .error s!"contour count: font {if fcs.length < scs.length then "fewer" else "more"}: {fcs.length} vs source {scs.length}"
  else matchGo fcs scs true true

/-! ### Model correspondence: how each glyph is stored -/

def storedKey (c : Comp) : String × List Rat :=
  let s := storeComp c
  (c.base, [s.t.a, s.t.b, s.t.c, s.t.d, s.t.e, s.t.f])

/-- Does the font store glyph `n` the way the model state says? -/
def storageAgrees (f : Font) (st : State) (n : String) : Option String :=
  match f.gidOf? n, st.env n with
  | none, _ => some s!"{n}: not in font"
  | _, none => some s!"{n}: not in model"
  | some gid, some i =>
    match f.glyf.getD gid .empty with
    | .empty => if i.comps.isEmpty && i.contours.isEmpty then none else some s!"{n}: font glyph empty"
    | .simple _ ends fpts =>
      if !i.comps.isEmpty then some s!"{n}: font simple, model composite" else
      let flens := (splitByEnds fpts ends).map (·.length)
      let mlens := i.contours.map (·.length)
      if flens != mlens then some s!"{n}: contour sizes font {flens} model {mlens}" else
      -- default points are the otRound'ed model points, contour by contour, up to start point and direction
      let fcs : List (List BPt) := (splitByEnds fpts ends).map fun c => c.map fun (x, y, on) => ⟨(x : Rat), (y : Rat), on, 0⟩
      let mcs : List Contour := i.contours.map fun c => c.map fun p => ⟨(otRound p.x : Rat), (otRound p.y : Rat), p.on⟩
      if (fcs.zip mcs).all fun (fc, mc) => contourMatches fc mc then none
      else some s!"{n}: default points differ from the rounded model points"
    | .composite _ comps =>
      if i.comps.isEmpty then some s!"{n}: font composite, model simple" else
      let fkeys := comps.map fun c => (f.names.getD c.gid "", [c.xx, c.yx, c.xy, c.yy, (c.dx : Rat), (c.dy : Rat)])
      let mkeys := i.comps.map storedKey
      if fkeys == mkeys then none else some s!"{n}: components font {repr fkeys} model {repr mkeys}"

/-! ### One build -/

structure Failure where
  cls : String
  detail : String

structure BuildCheck where
  fails : List Failure := []
  corr : Option Bool := none
  corrDetail : String := ""
  maxDepth : Nat := 0
  composites : Nat := 0
  dirFwd : Bool := true
  dirBwd : Bool := true

/-- Classes of failures that are recorded findings (known_findings.json); everything else is generic. -/
def knownClasses : List String :=
  ["flatten-overflow-saturated", "flatten-loses-nested-master", "decompose-dedups-duplicate-visit"]

/-- Does the drawing contain the same contour twice (same base reached twice with the same accumulated
    transform)?  Then convert_components_to_contours' `visited` set may drop one of the visits, depending on the
    iteration order of a HashMap (glyph.rs:139, 454). -/
def hasDuplicateContour (cs : List Contour) : Bool :=
  cs.zipIdx.any fun (c, i) => !c.isEmpty && (cs.drop (i + 1)).contains c

def flagWord (bits : Nat) : String :=
  let fl := Flags.ofBits bits
  s!"flags={bits}[{if fl.preferSimple then "P" else "-"}{if fl.flatten then "F" else "-"}{if fl.decomposeTransformed then "T" else "-"}{if fl.decomposeAll then "D" else "-"}]"

/-- `has_consistent_components` after non-export inlining: the (base, 2×2) sequence of the glyph's components is
    the same at every location. -/
def inconsistentNames (names exported : List String) (envs : List (List (String × Inst))) : List String :=
  let key (G : Env) (n : String) : List (String × List Rat) :=
    match G n with
    | none => []
    | some i => i.comps.map fun c => (c.base, [c.t.a, c.t.b, c.t.c, c.t.d])
  let inl := envs.map fun e => Env.ofList (inlineAll (fun n => exported.contains n) names e)
  names.filter fun n =>
    match inl with
    | [] => false
    | g0 :: rest => rest.any fun g => key g n != key g0 n

/-- Names reachable from `n` through components in the source at the default location. -/
def closure (G : Env) (fuel : Nat) (n : String) : List String := reachable G fuel [n]

def classify (d : Design) (fl : Flags) (st : State) (srcG : Env) (names : List String) (n : String) (loc : List Rat)
    (dup : Bool) (msg : String) : String :=
  -- fewer contours than the source, and the source drawing contains the same contour twice
  if dup && msg.startsWith "contour count: font fewer" then "decompose-dedups-duplicate-visit"
  else if fl.flatten && !fl.decomposeAll then
    -- (A) the flattened glyph (exact model state) has a composed 2×2 entry outside [-2, 2]: fontbe saturates it
    let reach := closure st.env (st.names.length + 1) n
    let overflow := reach.any fun m =>
      match st.env m with
      | none => false
      | some i => i.comps.any (·.t.overflows)
    if overflow then "flatten-overflow-saturated" else
    -- (B) `loc` is a master location of a glyph nested below `n` but not of `n` itself
    --     that is itself a composite (the nesting flatten removes), and `n` is stored as a composite
    let hasMaster (g : String) := d.masters.any fun m => m.nloc == loc && (m.glyph? g).isSome
    let isComposite (g : String) := match srcG g with | some i => !i.comps.isEmpty | none => false
    -- … or of any glyph at depth ≥ 2 below `n` (reached through a composite that flatten removes): once `n` refers to
    -- it directly, `n` would have to be instantiated at that location too, because the composed offsets are products
    -- of two varying transforms and are not linear in the location
    let direct : List String := match srcG n with | some i => i.comps.map (·.base) | none => []
    let deep : List String := direct.flatMap fun c => (closure srcG (names.length + 1) c).filter (· != c)
    let nested := (closure srcG (names.length + 1) n).any fun m =>
      m != n && hasMaster m && (isComposite m || deep.contains m)
    let stored := match st.env n with | some i => !i.comps.isEmpty | none => false
    -- (B') the same loss one level further down: a composite `p` below `n` lacks the master at `loc` that a glyph `m`
    --      below `p` has (whether or not `n` itself has it): flattening `p` away loses `m`'s master there
    let below := (closure srcG (names.length + 1) n).filter (· != n)
    let lostBelow := below.any fun p => isComposite p && !hasMaster p &&
      ((closure srcG (names.length + 1) p).any fun m => m != p && hasMaster m)
    if ((!hasMaster n && nested) || lostBelow) && stored then "flatten-loses-nested-master" else "resolved-outline-differs"
  else "resolved-outline-differs"

/-- The side conditions under which FontcProps.C12 `Step` covers the run of `process` on this input, evaluated:
    the source graph is acyclic (depth stabilises below the fuel `process` uses); names created by splitting are
    fresh; when flattening runs, no glyph reachable from the final glyph order is mixed. -/
def sideConditions (fl : Flags) (exported incons names : List String) (gl0 : Glyphs) (st : State) : Option String :=
  let env0 := Env.ofList gl0
  let n := names.length
  if names.any fun g => depth env0 (n + 1) g != depth env0 n g || depth env0 n g ≥ n then some "source component graph is cyclic / deeper than the fuel"
  else if (st.names.drop n).any names.contains then some "a split glyph reuses an existing glyph name"
  else if fl.flatten && !fl.decomposeAll then
    let pre := process { fl with flatten := false } (fun g => exported.contains g) (fun g => incons.contains g) names gl0
    let reach := reachable pre.env (pre.names.length + 1) pre.order
    if reach.any fun g => match pre.env g with | some i => i.mixed | none => false then some "a mixed glyph is reachable when flatten runs"
    else none
  else none

def checkBuild (d : Design) (names exported incons : List String) (locs : List (String × List Rat))
    (envs : List (List (String × Inst))) (bits : Nat) (f : Font) : BuildCheck := Id.run do
  let mut r : BuildCheck := {}
  r := { r with composites := (f.glyf.filter fun g => match g with | .composite .. => true | _ => false).length }
  let fl := Flags.ofBits bits
  -- correspondence with the gating model (default location)
  let dLoc := List.replicate d.axes.length (0 : Rat)
  let gl0 := envAt d names dLoc
  let env0 := Env.ofList gl0
  let st := process fl (fun n => exported.contains n) (fun n => incons.contains n) names gl0
  if let some msg := sideConditions fl exported incons names gl0 st then
    r := { r with corr := some false, corrDetail := s!"{flagWord bits} model side condition: {msg}" }
  else if f.names != ".notdef" :: st.order then
    r := { r with corr := some false, corrDetail := s!"{flagWord bits} glyph order font {f.names} model {st.order}" }
  else
    match st.order.findSome? (storageAgrees f st) with
    | some msg => r := { r with corr := some false, corrDetail := s!"{flagWord bits} {msg}" }
    | none => r := { r with corr := some true }
  -- oracle
  for n in exported do
    match f.gidOf? n with
    | none => r := { r with fails := r.fails ++ [⟨"glyph-missing-from-font", s!"{flagWord bits} {n}"⟩] }
    | some gid =>
      -- the glyphs involved in drawing `n` (source, default location)
      let involved := closure env0 (names.length + 1) n
      for ((mname, loc), envL) in locs.zip envs do
        -- only where the source draws something: `loc` is a master location of `n` or of a glyph nested in it
        -- (elsewhere the outline is pure interpolation, which legitimately depends on how the glyph is stored)
        if !(d.masters.any fun m => m.nloc == loc && involved.any fun g => (m.glyph? g).isSome) then continue
        -- a glyph whose component 2×2 varies over the designspace has no agreed drawing where it has no master
        -- (interpolating its transform and interpolating its outline differ; fontc always does the latter,
        -- whatever the flags): only its own masters are checked
        if involved.any fun g => incons.contains g && !(d.masters.any fun m => m.nloc == loc && (m.glyph? g).isSome) then continue
        let G := Env.ofList envL
        let src := resolve G (names.length + 1) n
        let (fcs, dep, _) := fontResolve d f loc (f.names.length + 1) gid
        r := { r with maxDepth := Nat.max r.maxDepth dep }
        match matchDrawings fcs src with
        | .error msg =>
          r := { r with fails := r.fails ++ [⟨classify d fl st env0 names n loc (hasDuplicateContour src) msg,
                        s!"{flagWord bits} glyph {n} at master {mname} {loc}: {msg}"⟩] }
        | .ok (fwd, bwd) => r := { r with dirFwd := r.dirFwd && fwd, dirBwd := r.dirBwd && bwd }
      -- advance: exact at the default, within 1 at every master that draws the glyph
      let adv0 : Rat := ((f.hmtx.getD gid (0, 0)).1 : Rat)
      for m in d.masters do
        match m.glyph? n with
        | none => pure ()
        | some sg =>
          let adv : Rat := adv0 + (match f.hvar with | some hv => varTableDelta hv gid m.nloc | none => 0)
          let isDef := m.nloc.all (· == 0)
          if (isDef && adv ≠ (otRound sg.advance : Rat)) || absR (adv - sg.advance) > 1 then
            r := { r with fails := r.fails ++ [⟨"advance-differs",
                          s!"{flagWord bits} glyph {n} at master {m.name}: font {adv} vs source {sg.advance}"⟩] }
  return r

def dedupLocs (ms : List SMaster) : List (String × List Rat) :=
  ms.foldl (fun acc m => if acc.any (·.2 == m.nloc) then acc else acc ++ [(m.name, m.nloc)]) []

def handle : Handler := fun s =>
  match parseDesign s with
  | none => badInput "c12: cannot parse design"
  | some d =>
    match s.field1? "builds" with
    | some (.list builds) =>
      let dm := d.masters.getD d.default default
      let names := match d.order with
        | some o => o.filter fun n => (dm.glyph? n).isSome
        | none => dm.glyphs.map (·.name)
      let exported := names.filter fun n => !d.skip.contains n
      let locs := dedupLocs d.masters
      let envs := locs.map fun (_, l) => envAt d names l
      let incons := inconsistentNames names exported envs
      let results : List (Nat × Option BuildCheck × String) := builds.map fun b =>
        let bits := ((b.field1? "flags").bind Sexp.asNat?).getD 0
        match b.field? "result" with
        | some (.atom "ok" :: _) =>
          match parseFont b with
          | some f => (bits, some (checkBuild d names exported incons locs envs bits f), "")
          | none => (bits, none, "unparseable font dump")
        | some (.atom "err" :: msg) => (bits, none, (msg.head?.bind Sexp.asString?).getD "")
        | _ => (bits, none, "no result")
      let rejected := results.find? fun (_, c, _) => c.isNone
      let srcG0 := Env.ofList (envs.headD [])
      let dupGlyphs := exported.filter fun n => hasDuplicateContour (resolve srcG0 (names.length + 1) n)
      let checks := results.filterMap fun (_, c, _) => c
      let allFails := checks.flatMap (·.fails)
      -- a failure of an unrecorded kind is reported before the recorded findings
      let bad := match allFails.find? fun x => !knownClasses.contains x.cls with
        | some x => some x
        | none => allFails.head?
      let corrBad := checks.find? (·.corr == some false)
      -- with duplicate visits the stored form depends on HashMap iteration order: not comparable with the model
      let corr : Option Bool := if checks.isEmpty || !dupGlyphs.isEmpty then none else some corrBad.isNone
      let dGlyphs := dm.glyphs
      let srcG := Env.ofList (envs.headD [])
      let maxDepthSrc := (names.map fun n => depth srcG names.length n).foldl Nat.max 0
      let hasT := dGlyphs.any fun g => g.components.any fun c => (Affine.ofList c.t).nonIdentity2x2
      let hasFlip := dGlyphs.any fun g => g.components.any fun c => (Affine.ofList c.t).det < 0
      let hasMixed := dGlyphs.any fun g => !g.components.isEmpty && !g.contours.isEmpty
      let hasOverflow := dGlyphs.any fun g => g.components.any fun c => (Affine.ofList c.t).overflows
      let neUsed := dGlyphs.any fun g => g.components.any fun c => d.skip.contains c.base
      let compCounts := checks.map (·.composites)
      let dirVaries := checks.any (fun c => !c.dirFwd) && checks.any (fun c => !c.dirBwd) ||
        checks.any (fun c => !c.dirFwd && !c.dirBwd)
      let tags := [s!"axes{d.axes.length}", s!"masters{d.masters.length}", s!"depth{maxDepthSrc}"] ++
        (if d.masters.any (·.sparse) then ["sparse"] else []) ++
        (if hasT then ["transformed"] else []) ++ (if hasFlip then ["flipped"] else []) ++
        (if hasMixed then ["mixed"] else []) ++ (if neUsed then ["nonexport-used"] else []) ++
        (if hasOverflow then ["overflow2x2"] else []) ++ (if dupGlyphs.isEmpty then [] else ["duplicate-visit"]) ++ (if incons.isEmpty then [] else ["inconsistent2x2"]) ++
        (if compCounts.any (· != compCounts.headD 0) then ["storage-varies"] else ["storage-same"]) ++
        (if dirVaries then ["direction-varies"] else [])
      let nt := maxDepthSrc ≥ 1 && (hasT || hasMixed || neUsed || maxDepthSrc ≥ 2)
      match rejected, bad with
      | some (bits, _, msg), _ =>
        -- the random rejection names a glyph whose source drawing contains the same contour twice
        let named := dupGlyphs.any fun g => (msg.splitOn s!"'{g}' has interpolation-incompatible paths").length > 1
        let cls := if named then "decompose-dedups-duplicate-visit" else "valid-source-rejected"
        { corr := corr, oracle := some false, nontrivial := nt, cls, tags,
          detail := s!"{flagWord bits}: {msg}" }
      | none, some b =>
        { corr := corr, oracle := some false, nontrivial := nt, cls := b.cls, tags,
          detail := s!"{b.detail} ({allFails.length} failing (flags, glyph, master) triples)" }
      | none, none =>
        { corr := corr, oracle := some true, nontrivial := nt, tags,
          cls := if corr == some false then "storage-differs-from-model" else "",
          detail := (corrBad.map (·.corrDetail)).getD "" }
    | _ => badInput "c12: no builds"

/-! ### c12 (pure): the real GlyphOrderWork on synthetic IR glyphs vs the model's `process` -/

def parsePGlyph (s : Sexp) : Option (String × Inst) :=
  match s with
  | .list [n, adv, cs, ks] => do
    let contours ← cs.mapM? fun c => c.mapM? fun p =>
      match p with
      | .list [x, y] => do some (Pt.mk (← x.asRat?) (← y.asRat?) true)
      | _ => none
    let comps ← ks.mapM? fun k =>
      match k with
      | .list [b, t] => do some (Comp.mk (← b.asString?) (Affine.ofList (← t.mapM? Sexp.asRat?)))
      | _ => none
    some (← n.asString?, { advance := ← adv.asRat?, contours, comps })
  | _ => none

def parseLocs (s : Sexp) : Option (List (List (String × Inst))) := s.mapM? fun l => l.mapM? parsePGlyph

/-- same contour up to the start point (direction exact) -/
def sameUpToStart (a b : Contour) : Bool := a.length == b.length && (a.isEmpty || (rotations b).contains a)

def instAgrees (n : String) (m i : Inst) : Option String :=
  if m.advance != i.advance then some s!"{n}: advance model {m.advance} impl {i.advance}"
  else if m.comps != i.comps then some s!"{n}: components model {repr m.comps} impl {repr i.comps}"
  else if m.contours.length != i.contours.length then some s!"{n}: {m.contours.length} contours in the model, {i.contours.length} in the implementation"
  else match (m.contours.zip i.contours).zipIdx.find? fun ((a, b), _) => !sameUpToStart a b with
    | some ((a, b), k) =>
      some s!"{n}: contour {k} model {a.map fun p => (p.x, p.y)} impl {b.map fun p => (p.x, p.y)}{if sameUpToStart a b.reverse then " (reversed)" else ""}"
    | none => none

def handlePure : Handler := fun s =>
  match (s.field1? "flags").bind Sexp.asNat?, (s.field1? "order").bind (·.mapM? Sexp.asString?),
        (s.field1? "skip").bind (·.mapM? Sexp.asString?), (s.field1? "locs").bind parseLocs, s.field? "impl" with
  | some bits, some names, some skip, some envs, some impl =>
    let fl := Flags.ofBits bits
    let exported := names.filter fun n => !skip.contains n
    let incons := inconsistentNames names exported envs
    let srcG0 := Env.ofList (envs.headD [])
    let fuel := names.length + 1
    let maxDepth := (names.map fun n => depth srcG0 names.length n).foldl Nat.max 0
    let all0 := envs.headD []
    let hasT := all0.any fun (_, i) => i.comps.any (·.t.nonIdentity2x2)
    let hasFlip := all0.any fun (_, i) => i.comps.any (·.t.det < 0)
    let hasMixed := all0.any fun (_, i) => i.mixed
    let hasOverflow := all0.any fun (_, i) => i.comps.any (·.t.overflows)
    let neUsed := all0.any fun (_, i) => i.comps.any fun c => skip.contains c.base
    let dupGlyphs := exported.filter fun n => hasDuplicateContour (resolve srcG0 fuel n)
    let tags := [flagWord bits, s!"locs{envs.length}", s!"depth{maxDepth}"] ++
      (if hasT then ["transformed"] else []) ++ (if hasFlip then ["flipped"] else []) ++
      (if hasMixed then ["mixed"] else []) ++ (if neUsed then ["nonexport-used"] else []) ++
      (if hasOverflow then ["overflow2x2"] else []) ++ (if dupGlyphs.isEmpty then [] else ["duplicate-visit"])
    let nt := maxDepth ≥ 1 && (hasT || hasMixed || neUsed || maxDepth ≥ 2)
    let implS := Sexp.list (impl.map id)
    match implS.field? "result" with
    | some [Sexp.atom "ok"] =>
      match (implS.field1? "order").bind (·.mapM? Sexp.asString?), (implS.field1? "locs").bind parseLocs with
      | some iorder, some ienvs =>
        if ienvs.length != envs.length then badInput "c12: location count" else
        -- model
        let states := envs.map fun e => process fl (fun n => exported.contains n) (fun n => incons.contains n) names e
        let side := (states.zip envs).findSome? fun (st, e) => sideConditions fl exported incons names e st
        let corrMsg : Option String :=
          match side with
          | some m => some s!"model side condition: {m}"
          | none =>
            ((states.zip ienvs).zipIdx.findSome? fun ((st, ie), l) =>
              if st.order != iorder then some s!"glyph order model {st.order} impl {iorder}" else
              let iG := Env.ofList ie
              st.order.findSome? fun n =>
                match st.env n, iG n with
                | some m, some i => (instAgrees n m i).map fun msg => s!"location {l}: {msg}"
                | _, _ => some s!"location {l}: {n} missing")
        -- oracle on the implementation's output: every exported glyph draws the same, exactly, at every location
        let bad : Option (String × String) := ((envs.zip ienvs).zipIdx.findSome? fun ((e, ie), l) =>
          let G := Env.ofList e
          let iG := Env.ofList ie
          exported.findSome? fun n =>
            let src := resolve G fuel n
            let got := resolve iG (iorder.length + 1) n
            let gotB : List (List BPt) := got.map fun c => c.map fun p => ⟨p.x, p.y, p.on, 0⟩
            if advanceOf iG n != advanceOf G n then some ("advance-differs", s!"glyph {n} location {l}: {repr (advanceOf iG n)} vs {repr (advanceOf G n)}")
            else match matchDrawings gotB src with
              | .error msg =>
                let cls := if hasDuplicateContour src && msg.startsWith "contour count: font fewer" then "decompose-dedups-duplicate-visit"
                  else "resolved-outline-differs"
                some (cls, s!"{flagWord bits} glyph {n} location {l}: {msg}")
              | .ok _ => none)
        let corr : Option Bool := if !dupGlyphs.isEmpty then none else some corrMsg.isNone
        match bad with
        | some (cls, msg) => { corr, oracle := some false, nontrivial := nt, cls, tags, detail := msg }
        | none =>
          { corr, oracle := some true, nontrivial := nt, tags,
            cls := if corr == some false then "ir-differs-from-model" else "", detail := corrMsg.getD "" }
      | _, _ => badInput "c12: cannot parse impl"
    | some (Sexp.atom w :: msg) =>
      { corr := none, oracle := some false, nontrivial := nt, tags,
        cls := if w == "panic" then "panic" else "valid-source-rejected",
        detail := s!"{flagWord bits}: {(msg.head?.bind Sexp.asString?).getD ""}" }
    | _ => badInput "c12: no result"
  | _, _, _, _, _ => badInput "c12: cannot parse case"

end Fontc.Driver.C12
