import Driver.Common
import FontcModel.Plm
import FontcModel.Avar

/-!
  C08 driver: streams `c08` (well-formed axis definitions) and `c08mal` (malformed ones).
  corr   = the Lean model (FontcModel/Plm.lean, Avar.lean) reproduces what the real code returned;
  oracle = the property itself, evaluated with the *spec-side* functions (`defaultNormalize`, `avarApply`)
           on the implementation's own fvar/avar output, against the implementation's own
           user → design → normalized conversion.
-/

namespace Fontc.Driver.C08
open Fontc Fontc.Plm Fontc.Avar Fontc.Driver

def parsePt (s : Sexp) : Option Pt :=
  match s with
  | .list [a, b] => do some (← a.asRat?, ← b.asRat?)
  | _ => none
def parseIntPair (s : Sexp) : Option (Int × Int) :=
  match s with
  | .list [a, b] => do some (← a.asInt?, ← b.asInt?)
  | _ => none
def parseTriple (s : Sexp) : Option (Rat × Rat × Rat) :=
  match s with
  | .list [a, b, c] => do some (← a.asRat?, ← b.asRat?, ← c.asRat?)
  | _ => none
def rats (s : Sexp) (k : String) : Option (List Rat) := do (← s.field1? k).mapM? Sexp.asRat?

def eps : Rat := 1 / 32768          -- half an F2Dot14 unit
def tol : Rat := 1 / (2 ^ 36 : Nat) -- f64 vs exact, relative to the magnitudes involved

/-- f64 result `a` vs exact `b`, error relative to `scale` (the magnitude of the operands). -/
def closeAbs (scale a b : Rat) : Bool := ratAbs (a - b) ≤ tol * (if scale < 1 then 1 else scale)

def allClose (scale : Rat) (xs ys : List Rat) : Bool :=
  xs.length == ys.length && (xs.zip ys).all fun (a, b) => closeAbs scale a b

/-- distance of `s` from the nearest rounding tie `k + 1/2` -/
def tieDist (s : Rat) : Rat := ratAbs (s - (s.floor : Rat) - 1/2)

/-- quantised value agrees with the model's, or the exact value is within 2^-20 of a rounding tie and
    they differ by one unit (f64 `x*ONE + 0.5` can round across the tie). -/
def qAgree (scaleBits : Rat) (exact : Rat) (modelBits implBits : Int) : Bool × Bool :=
  if modelBits == implBits then (true, false)
  else if tieDist (exact * scaleBits) ≤ 1 / (2 ^ 20 : Nat) ∧ (modelBits - implBits).natAbs ≤ 1 then (true, true)
  else (false, false)

/-- max slope of the exact map (nodes `(a_i, b_i)`) over the segments meeting `[x-eps, x+eps]`. -/
def localSlope (x : Rat) : List Pt → Rat
  | p :: q :: rest =>
    let tailS := localSlope x (q :: rest)
    if q.1 < x - eps ∨ x + eps < p.1 ∨ q.1 ≤ p.1 then tailS
    else ratMax ((q.2 - p.2) / (q.1 - p.1)) tailS
  | _ => 0

def bitsToPts (m : List (Int × Int)) : List Pt := m.map fun p => (f2dot14Val p.1, f2dot14Val p.2)

structure Obs where
  fvarOk : Bool
  required : Bool
  mono : Bool
  strictFrom : Bool
  agree : Bool
  nodesAgree : Bool
  instOk : Bool
  worst : Rat

def handle : Handler := fun s =>
  let r : Option Verdict := do
    let kind ← (← s.field1? "kind").asAtom?
    let ctor ← (← s.field1? "ctor").asAtom?
    let mappings ← (← s.field1? "mappings").mapM? parsePt
    let idx ← (← s.field1? "default_idx").asNat?
    let mn ← (← s.field1? "min").asRat?
    let df ← (← s.field1? "default").asRat?
    let mx ← (← s.field1? "max").asRat?
    let probes ← rats s "probes"
    let dprobes ← rats s "dprobes"
    let impl := Sexp.list (← s.field? "impl")
    let iNew ← (← impl.field1? "new").asAtom?
    let wf := kind == "wf" || kind == "wf-shuffled" || kind == "unmapped"
    let mconv : Except ConvError Conv :=
      if ctor == "unmapped" then .ok (Conv.unmapped mn df mx) else Conv.new mappings idx
    match mconv, iNew with
    | .error _, "err-DefaultOutOfBounds" =>
      some { corr := some true, oracle := none, nontrivial := false, tags := [kind, "new-err"] }
    | .error _, _ =>
      some { corr := some false, oracle := none, cls := "new-result", tags := [kind], detail := s!"model=err impl={iNew}" }
    | .ok _, "panic" =>
      -- the model is total; a panic of the real code on an axis definition is reported as an oracle failure
      -- for well-formed kinds and as an observation for malformed ones
      some { corr := some false, oracle := (if wf then some false else none), cls := "panic", tags := [kind, "obs-panic"],
             detail := toString (impl.field1? "msg") }
    | .ok conv, "ok" =>
      let iIter ← (← impl.field1? "iter").mapM? parseTriple
      let iToDesign ← rats impl "to_design"
      let iToNorm ← rats impl "to_norm"
      let iDefNorm ← rats impl "def_norm"
      let iD2u ← rats impl "d2u"
      let iD2n ← rats impl "d2n"
      let iSeg ← (← impl.field1? "segmap").mapM? parseIntPair
      let iIdent := (← impl.field1? "is_identity") == Sexp.atom "true"
      let iFvar ← (← impl.field1? "fvar").mapM? Sexp.asInt?
      let iInst ← (← impl.field1? "inst").mapM? Sexp.asInt?
      let (fMin, fDef, fMax) ← match iFvar with | [a, b, c] => some (a, b, c) | _ => none
      let ax : Axis := ⟨mn, df, mx, conv⟩
      let dconv := ax.defaultConverter
      -- magnitudes for the f64 comparison
      let mag := ([mn, df, mx] ++ mappings.flatMap (fun p => [p.1, p.2]) ++ probes).foldl (fun a x => ratMax a (ratAbs x)) 1
      ------------------------------------------------------------ correspondence
      let mIter := conv.iter
      let iterOk := mIter.length == iIter.length && (mIter.zip iIter).all fun ((u, d, n), (u', d', n')) =>
        u == u' && d == d' && closeAbs 1 n' n
      let toDesignOk := allClose mag iToDesign (probes.map conv.toDesign)
      -- design → normalized is compared on the implementation's own design value (no compounding)
      let toNormOk := allClose 1 iToNorm (iToDesign.map conv.designToNorm) ||
                      allClose 1 iToNorm (probes.map conv.toNormalized)
      let defNormOk := allClose mag iDefNorm (probes.map dconv.toNormalized)
      let d2uOk := allClose mag iD2u (dprobes.map conv.designToUserMap)
      let d2nOk := allClose 1 iD2n (dprobes.map conv.designToNorm)
      let mSegExact := segmentMapExact ax
      let mSeg := segmentMap ax
      let segPairs := (mSegExact.zip (mSeg.zip iSeg))
      let segRes := segPairs.map fun (ex, m, i) =>
        let (o1, t1) := qAgree 16384 ex.1 m.1 i.1
        let (o2, t2) := qAgree 16384 ex.2 m.2 i.2
        (o1 && o2, t1 || t2)
      -- a map all of whose (quantised) nodes lie on the diagonal *is* the identity, whichever on-diagonal nodes it lists:
      -- the code elides them when the f64 values of both sides are equal, the exact model when the rationals are
      -- (they can differ by one part in 2⁵³ on non-dyadic grids); compared as the same map
      let segOk := (mSeg.length == iSeg.length && segRes.all (·.1)) || (isIdentityMap mSeg && isIdentityMap iSeg) ||
        -- a node listed twice (a value within one part in 2⁵³ of ±1 is, or is not, seen as the missing end node) is the
        -- same map
        (mSeg.eraseDups == iSeg.eraseDups)
      let segTie := segRes.any (·.2)
      let identOk := isIdentityMap iSeg == iIdent
      let fvarRes := [qAgree 65536 mn (fixed16 mn) fMin, qAgree 65536 df (fixed16 df) fDef, qAgree 65536 mx (fixed16 mx) fMax]
      let fvarCorr := fvarRes.all (·.1)
      let instRes := (iD2u.zip iInst).map fun (u, b) => qAgree 65536 u (fixed16 u) b
      let instCorr := iD2u.length == iInst.length && instRes.all (·.1)
      let corr := iterOk && toDesignOk && toNormOk && defNormOk && d2uOk && d2nOk && segOk && identOk && fvarCorr && instCorr
      let corrCls :=
        if !iterOk then "iter" else if !toDesignOk then "to-design" else if !toNormOk then "to-normalized"
        else if !defNormOk then "default-normalization" else if !d2uOk then "design-to-user"
        else if !d2nOk then "design-to-normalized" else if !segOk then "segment-map" else if !identOk then "is-identity"
        else if !fvarCorr then "fvar-fixed" else if !instCorr then "instance-fixed" else ""
      ------------------------------------------------------------ oracle (implementation output only)
      let segPts := bitsToPts iSeg
      -- fvar: decoded record is the user bounds to within half a 16.16 unit, exact when representable, ordered
      let fx (v : Rat) (b : Int) : Bool :=
        ratAbs (fixed16Val b - v) ≤ 1 / 131072 && ((v * 65536).den != 1 || fixed16Val b == v)
      let inRange := ratAbs mn < 32767 && ratAbs df < 32767 && ratAbs mx < 32767
      let fvarOk := !inRange || (fx mn fMin && fx df fDef && fx mx fMax && fMin ≤ fDef && fDef ≤ fMax)
      let required := segPts.contains (-1, -1) && segPts.contains (0, 0) && segPts.contains (1, 1)
      let mono := monotone segPts
      let strict := strictFrom segPts
      -- exact nodes of the intended map: spec-side default normalisation of the implementation's vertices
      let nodes : List Pt := iIter.map fun (u, _, n) => (defaultNormalize mn df mx u, n)
      let inDom (u : Rat) : Bool := mn ≤ u && u ≤ mx
      let errs : List (Rat × Rat) := (probes.zip iToNorm).filterMap fun (u, n) =>
        if inDom u then
          let x := defaultNormalize mn df mx u
          let y := avarApply segPts x
          some (ratAbs (y - n), eps * (1 + localSlope x nodes) + tol * (1 + localSlope x nodes))
        else none
      let agree := errs.all fun (e, b) => e ≤ b
      let worst : Rat := errs.foldl (fun a (e, _) => ratMax a e) (0 : Rat)
      -- at the vertices themselves: feeding the quantised default-normalised vertex gives its normalized value ±eps
      let nodesAgree := !strict || (nodes.all fun (a, b) =>
        ratAbs (avarApply segPts (f2dot14Val (f2dot14 a)) - b) ≤ eps + tol)
      -- instance coordinates for design locations inside the design range stay inside [min,max] of fvar
      let instOk := iInst.all fun b => fMin ≤ b && b ≤ fMax
      let o : Obs := { fvarOk, required, mono, strictFrom := strict, agree, nodesAgree, instOk, worst }
      let oracleAll := o.fvarOk && o.required && o.mono && o.agree && o.nodesAgree && o.instOk
      let oCls :=
        if !o.fvarOk then "fvar-bounds"
        else if !o.required then
          (if (mn != df && conv.toDesign mn == conv.toDesign df) || (mx != df && conv.toDesign mx == conv.toDesign df)
           then "missing-required-entry" else "missing-required-entry-nonflat")
        else if !o.mono then "segmap-not-monotone" else if !o.agree then "avar-disagrees"
        else if !o.nodesAgree then "avar-disagrees-at-node" else if !o.instOk then "instance-out-of-range" else ""
      let nNodes := iIter.length
      let flat := (iIter.zip (iIter.drop 1)).any fun ((_, d, _), (_, d', _)) => d == d'
      let defPos := if df == mn && df == mx then "point" else if df == mn then "def-at-min" else if df == mx then "def-at-max" else "def-inside"
      let nonInt := mappings.any fun p => p.1.den != 1 || p.2.den != 1
      let tags := [kind, s!"nodes{nNodes}", defPos] ++ (if flat then ["flat"] else []) ++ (if nonInt then ["non-integer"] else []) ++
        (if iIdent then ["avar-identity"] else ["avar-nontrivial"]) ++ (if !strict then ["dup-from"] else []) ++
        (if segTie then ["near-tie"] else []) ++
        (if !wf then
          (if !o.fvarOk then ["obs-fvar-bounds"] else []) ++ (if !o.required then ["obs-missing-required-entry"] else []) ++
          (if !o.mono then ["obs-segmap-not-monotone"] else []) ++ (if !o.agree then ["obs-avar-disagrees"] else []) ++
          (if !o.nodesAgree then ["obs-avar-disagrees-at-node"] else []) ++
          (if !o.instOk then ["obs-instance-out-of-range"] else []) ++
          (if oracleAll then ["obs-property-holds"] else [])
         else [])
      let nt := wf && nNodes ≥ 3 && !iIdent
      let cls := if wf && !oracleAll then oCls else if !corr then corrCls else ""
      let detail :=
        if wf && !oracleAll then s!"worst_err={o.worst} segmap={iSeg}"
        else if !corr then s!"model_seg={mSeg} model_iter={repr mIter}" else ""
      some { corr := some corr, oracle := (if wf then some oracleAll else none), nontrivial := nt, cls := cls, tags := tags, detail := detail }
    | .ok _, other =>
      some { corr := some false, oracle := none, cls := "new-result", tags := [kind], detail := s!"model=ok impl={other}" }
  r.getD (badInput "c08: cannot parse case")

/-! ## c08e2e: fvar/avar read back from fonts built by `fontc::generate_font` -/

structure SrcAxis where
  mappings : List Pt
  nodes : List Pt
  idx : Nat
  mn : Rat
  df : Rat
  mx : Rat
  probes : List Rat

def parseSrcAxis (s : Sexp) : Option SrcAxis := do
  some { mappings := ← (← s.field1? "mappings").mapM? parsePt, nodes := ← (← s.field1? "nodes").mapM? parsePt,
         idx := ← (← s.field1? "default_idx").asNat?, mn := ← (← s.field1? "min").asRat?,
         df := ← (← s.field1? "default").asRat?, mx := ← (← s.field1? "max").asRat?, probes := ← rats s "probes" }

/-- the source's own user → design mapping: straight lines between adjacent examples (sorted, distinct users).
    Written independently of `Plm.map`. -/
def srcInterp : List Pt → Rat → Rat
  | p :: q :: rest, u =>
    if u ≤ q.1 then p.2 + (u - p.1) / (q.1 - p.1) * (q.2 - p.2) else srcInterp (q :: rest) u
  | [p], _ => p.2
  | [], u => u

/-- largest slope of the exact map over the segments meeting `[lo, hi]` -/
def slopeOver (lo hi : Rat) : List Pt → Rat
  | p :: q :: rest =>
    let tailS := slopeOver lo hi (q :: rest)
    if q.1 < lo ∨ hi < p.1 ∨ q.1 ≤ p.1 then tailS else ratMax ((q.2 - p.2) / (q.1 - p.1)) tailS
  | _ => 0

/-- ufo2fontir/src/toir.rs:194-219: a `<map>` gives `CoordConverter::new`, no map gives `unmapped`. -/
def SrcAxis.model (a : SrcAxis) : Option Axis :=
  if a.mappings.isEmpty then some ⟨a.mn, a.df, a.mx, Conv.unmapped a.mn a.df a.mx⟩
  else match Conv.new a.mappings a.idx with
    | .ok c => some ⟨a.mn, a.df, a.mx, c⟩
    | .error _ => none

def handleE2E : Handler := fun s =>
  let r : Option Verdict := do
    let axes ← (← s.field1? "axes").mapM? parseSrcAxis
    let insts ← (← s.field1? "instances").mapM? (fun l => l.mapM? Sexp.asRat?)
    let impl := Sexp.list (← s.field? "impl")
    let res ← (← impl.field1? "result").asAtom?
    if res != "ok" then
      -- every generated source is well-formed: a failed build is a correspondence failure, not a pass
      some { corr := some false, oracle := none, cls := "build-failed", tags := [res], detail := toString (impl.field1? "msg") }
    else
    let fvarS ← impl.field1? "fvar"
    let iFvar : List (Int × Int × Int) ← (match fvarS with
      | .atom _ => some []
      | _ => fvarS.mapM? fun a => match a with
        | .list [_, x, y, z] => do some (← x.asInt?, ← y.asInt?, ← z.asInt?)
        | _ => none)
    let iInst : List (List Int) := ((impl.field1? "inst").bind (fun l => l.mapM? (fun c => c.mapM? Sexp.asInt?))).getD []
    let avarS ← impl.field1? "avar"
    let iAvar : Option (List (List (Int × Int))) ← (match avarS with
      | .atom _ => some none
      | _ => some <$> avarS.mapM? (fun m => m.mapM? parseIntPair))
    let models ← axes.mapM SrcAxis.model
    ------------------------------------------------------------ correspondence with the model
    let mFvar := models.map fvarRecord
    let mSegs := models.map segmentMap
    let mAvar : Option (List (List (Int × Int))) := if mSegs.any (fun m => !isIdentityMap m) then some mSegs else none
    let fvarCorr := mFvar == iFvar
    -- per axis: equal, or both the identity (see the pure stream: which on-diagonal nodes are listed is not observable)
    let avarCorr := mAvar == iAvar || (match mAvar, iAvar with
      | some m, some i => m.length == i.length && (m.zip i).all fun (a, b) => a == b || (isIdentityMap a && isIdentityMap b)
      | some m, none => m.all isIdentityMap
      | none, some i => i.all isIdentityMap
      | none, none => true)
    let mInst : List (List Int) := insts.map fun loc =>
      (models.zip loc).map fun (ax, d) => fvarInstanceCoord ax (some (ax.conv.designToUserMap d))
    -- instance coordinates: f64 design→user then 16.16; allow one unit on a near tie
    let instCorr := mInst.length == iInst.length && (mInst.zip iInst).all fun (m, i) =>
      m.length == i.length && (m.zip i).all fun (a, b) => (a - b).natAbs ≤ 1
    let corr := fvarCorr && avarCorr && instCorr
    let corrCls := if !fvarCorr then "fvar" else if !avarCorr then "avar" else if !instCorr then "instances" else ""
    ------------------------------------------------------------ oracle (font tables + source only)
    let segsOf (k : Nat) : List (Int × Int) := match iAvar with
      | none => []
      | some ms => ms.getD k []
    let perAxis : List (Bool × Bool × Bool × Bool × Rat × Bool) := (axes.zip (iFvar.zip (List.range axes.length))).map fun (a, fv, k) =>
      let (fMin, fDef, fMax) := fv
      let seg := segsOf k
      let segPts := bitsToPts seg
      let fx (v : Rat) (b : Int) : Bool := ratAbs (fixed16Val b - v) ≤ 1 / 131072 && ((v * 65536).den != 1 || fixed16Val b == v)
      let fvarOk := fx a.mn fMin && fx a.df fDef && fx a.mx fMax && fMin ≤ fDef && fDef ≤ fMax
      let required := seg.isEmpty || (segPts.contains (-1, -1) && segPts.contains (0, 0) && segPts.contains (1, 1))
      let mono := monotone segPts
      let dmin := (a.nodes.head?.map (·.2)).getD 0
      let dmax := (a.nodes.getLast?.map (·.2)).getD 0
      let ddef := srcInterp a.nodes a.df
      let exact : List Pt := a.nodes.map fun n => (defaultNormalize a.mn a.df a.mx n.1, designNormalize dmin ddef dmax n.2)
      let errs := a.probes.map fun u =>
        let want := designNormalize dmin ddef dmax (srcInterp a.nodes u)
        let got := consumerNormalize (fMin, fDef, fMax) seg u
        let x := defaultNormalize a.mn a.df a.mx u
        let xq := f2dot14Val (f2dot14 (defaultNormalize (fixed16Val fMin) (fixed16Val fDef) (fixed16Val fMax) u))
        let lo := ratMin x xq - eps
        let hi := ratMax x xq + eps
        let L := slopeOver lo hi exact
        let bound := if seg.isEmpty then 2 * eps + ratAbs (xq - x) + tol else eps * (1 + L) + L * ratAbs (xq - x) + tol
        (ratAbs (got - want), bound)
      let agree := errs.all fun (e, b) => e ≤ b
      let worst : Rat := errs.foldl (fun acc (e, _) => ratMax acc e) (0 : Rat)
      -- F-C08-1 (known finding) is exactly: a required entry is missing AND a whole side of the axis is flat in design space
      let flatSide := (a.mn != a.df && dmin == ddef) || (a.mx != a.df && dmax == ddef)
      (fvarOk, required, mono, agree, worst, required || flatSide)
    let axesCount := iFvar.length == axes.length
    let fvarOk := axesCount && perAxis.all (·.1)
    let required := perAxis.all (·.2.1)
    let mono := perAxis.all (·.2.2.1)
    let agree := perAxis.all (·.2.2.2.1)
    let worst : Rat := perAxis.foldl (fun acc p => ratMax acc p.2.2.2.2.1) (0 : Rat)
    let reqFlatOnly := perAxis.all (·.2.2.2.2.2)
    let instOk := iInst.all fun cs => (cs.zip iFvar).all fun (c, (lo, _, hi)) => lo ≤ c && c ≤ hi
    let oracle := fvarOk && required && mono && agree && instOk
    let oCls := if !fvarOk then "fvar-bounds"
      else if !required then (if reqFlatOnly then "missing-required-entry" else "missing-required-entry-nonflat")
      else if !mono then "segmap-not-monotone"
      else if !agree then "avar-disagrees" else if !instOk then "instance-out-of-range" else ""
    let flat := axes.any fun a => (a.nodes.zip (a.nodes.drop 1)).any fun (p, q) => p.2 == q.2
    let tags := [s!"axes{axes.length}", if iAvar.isSome then "avar-present" else "avar-absent", s!"instances{iInst.length}"] ++
      (if flat then ["flat"] else []) ++ (if axes.any (fun a => a.mappings.isEmpty) then ["unmapped-axis"] else [])
    some { corr := some corr, oracle := some oracle, nontrivial := iAvar.isSome,
           cls := if !oracle then oCls else if !corr then corrCls else "", tags := tags,
           detail := if !oracle then s!"worst_err={worst} avar={repr iAvar}" else if !corr then s!"model_fvar={mFvar} model_avar={repr mAvar} model_inst={mInst}" else "" }
  r.getD (badInput "c08e2e: cannot parse case")

end Fontc.Driver.C08
