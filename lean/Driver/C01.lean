import Driver.Common

/-!
  C01 oracle: every run of one source (separate processes = different hash seeds, different thread counts,
  seeded scheduling jitter) produced the same bytes.
-/
namespace Fontc.Driver.C01
open Fontc Fontc.Driver

def handle : Handler := fun s =>
  let r : Option Verdict := do
    let src ← (← s.field1? "source").asString?
    let runs ← (← s.field1? "runs").asList?
    let infos ← runs.mapM fun r => do
      let st ← (← r.field1? "status").asAtom?
      let fp ← (← r.field1? "fp").asAtom?
      let len ← (← r.field1? "len").asNat?
      let th ← (← r.field1? "threads").asNat?
      let ji ← (← r.field1? "jitter").asNat?
      some (st, fp, len, th, ji)
    let diffTable := ((s.field1? "first_diff_table").bind Sexp.asString?).getD ""
    let statuses := infos.map (·.1)
    let allOk := statuses.all (· == "ok")
    let sameStatus := match statuses with | [] => true | x :: xs => xs.all (· == x)
    let crashed := statuses.any fun st => st == "signal" || st == "exit101" || st == "exit134"
    let fps := infos.map fun i => (i.2.1, i.2.2.1)
    let sameBytes := match fps with | [] => true | x :: xs => xs.all (· == x)
    let tags := [if src.startsWith "generated" then "generated" else "fixture", s!"runs{infos.length}"] ++
      (if infos.any (·.2.2.2.2 != 0) then ["jitter"] else []) ++ (if allOk then ["built"] else ["rejected"])
    if crashed then
      some { oracle := some false, cls := "build-crashed", tags, detail := s!"{src}: {statuses}" }
    else if !sameStatus then
      some { oracle := some false, cls := "outcome-differs-between-runs", tags, detail := s!"{src}: {statuses}" }
    else if allOk && !sameBytes then
      some { oracle := some false, cls := "bytes-differ-between-runs", nontrivial := true, tags,
             detail := s!"{src}: first differing table {diffTable}; (fingerprint,len) per run {fps}" }
    else
      some { oracle := some true, nontrivial := allOk && infos.length ≥ 4, tags }
  r.getD (badInput "c01: cannot parse case")

end Fontc.Driver.C01
