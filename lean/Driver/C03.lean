import Driver.Common
import FontcModel.E2E
import FontcModel.Ivs
import FontcModel.VarModel
import FontcModel.SrcInterp

/-!
  C03 / C04 end-to-end oracle: instantiate the *real* font (tables dumped by the harness) at every master
  location with the spec evaluator of `FontcModel/Ivs.lean` and compare with what the generated source says.
-/
namespace Fontc.Driver.C03
open Fontc Fontc.E2E Fontc.Ivs Fontc.Driver

/-- Affine map in UFO order `xx xy yx yy dx dy`. -/
def applyT (t : List Rat) (p : Rat × Rat) : Rat × Rat :=
  match t with
  | [xx, xy, yx, yy, dx, dy] => (xx * p.1 + yx * p.2 + dx, xy * p.1 + yy * p.2 + dy)
  | _ => p

/-- Source outline of glyph `n` at normalized location `loc`, components fully resolved (fuel = nesting bound);
    a base glyph without a master at `loc` is interpolated (`Design.glyphAt`). -/
def resolveAt (d : Design) (loc : List Rat) : Nat → String → List (Rat × Rat × Bool)
  | 0, _ => []
  | fuel + 1, n =>
    match d.glyphAt n loc with
    | none => []
    | some g =>
      let own := g.contours.flatMap fun c => c.map fun p => (p.x, p.y, p.typ != PtType.off)
      own ++ g.components.flatMap fun c =>
        (resolveAt d loc fuel c.base).map fun (x, y, on) =>
          let (x', y') := applyT c.t (x, y)
          (x', y', on)

def resolveSrc (d : Design) (m : SMaster) (fuel : Nat) (n : String) := resolveAt d m.nloc fuel n

structure GlyphCheck where
  ok : Bool := true
  cls : String := ""
  detail : String := ""
  maxErr : Rat := 0
  iupUsed : Bool := false
  /-- model/implementation correspondence on the gvar deltas (none = not comparable for this glyph) -/
  corr : Option Bool := none

def fail (cls detail : String) : GlyphCheck := { ok := false, cls, detail }

def absR (x : Rat) : Rat := if x < 0 then -x else x

/-- Match each font point of the default outline to the index of the equal source point. -/
def matchPoints (fontPts : List (Int × Int × Bool)) (src : List (Rat × Rat × Bool)) : Option (List Nat) :=
  fontPts.mapM fun (x, y, on) =>
    let cands := (src.zipIdx.filter fun ((sx, sy, son), _) => sx = (x : Rat) ∧ sy = (y : Rat) ∧ son == on).map (·.2)
    match cands with
    | [i] => some i
    | _ => none

def isPerm (pi : List Nat) (n : Nat) : Bool :=
  pi.length == n && (List.range n).all fun i => pi.contains i

/-- `Model.deltas` with ties-even rounding, *following the implementation at rounding ties*: the code evaluates the
    same expression in `f64`, so a value that is exactly `k + 1/2` over ℚ can come out a hair below or above and round
    either way (DESIGN.md §3 C03 B). Where the unrounded value is within `2⁻²⁰` of a tie and the implementation's delta
    (`impl j`, for the `j`-th model location) is one of the two neighbouring integers, that delta is taken — also as
    input to the later masters, whose deltas depend on it; everywhere else the model's own rounding decides. -/
def deltasFollowing (m : VarModel.Model) (vals : VarModel.Values) (impl : Nat → Option Rat) : List (Option Rat) :=
  let step (done : List (Option Rat)) (p : (VarModel.Loc × Option Rat) × Nat) : List (Option Rat) :=
    let ((loc, v), j) := p
    match v with
    | none => done ++ [none]
    | some v =>
      let contrib : List Rat := (done.zip m.influence).map fun (d, inf) =>
        match d with
        | some dk => VarModel.scalarAt inf loc * dk
        | none => 0
      let raw := contrib.foldl (fun acc c => acc - c) v
      let fl : Rat := (raw.floor : Int)
      let nearTie := absR (raw - fl - 1/2) ≤ 1 / 1048576
      let d : Rat := match impl j with
        | some f => if nearTie && (f == fl || f == fl + 1) then f else (roundTiesEven raw : Rat)
        | none => (roundTiesEven raw : Rat)
      done ++ [some d]
  ((m.locations.zip vals).zipIdx).foldl step []

/-- Correspondence: the font's explicit gvar deltas for a simple glyph equal the deltas the `VarModel` model computes
    (ties-even rounding) from the source coordinates on the glyph's own location set.
    `coords m` = the glyph's coordinate vector (x₀,y₀,x₁,y₁,…, in font point order, then advance) in master `m`. -/
def modelDeltasAgree (nAxes : Nat) (masters : List SMaster) (coords : SMaster → List Rat)
    (tuples : List GTuple) : Option Bool :=
  if tuples.any (!·.all) then none else
  let locs := masters.map (·.nloc)
  let m := VarModel.Model.new nAxes locs
  let nvals := (masters.head?.map coords |>.getD []).length
  let npts := (nvals - 1) / 2
  -- font deltas per model region as one flat vector: x,y per outline point, then the advance phantom (right − left)
  let fontFlat : List (Option (List Rat)) := m.influence.map fun region =>
    let reg : List (Rat × Rat × Rat) := region.map fun t => (t.min, t.peak, t.max)
    (tuples.find? (fun t => tupleRegion t == reg)).map fun t =>
      let flat : List Rat := (List.range npts).flatMap (fun i =>
        match t.deltas.find? (·.1 == i) with
        | some (_, dx, dy) => [(dx : Rat), (dy : Rat)]
        | none => [0, 0])
      let l := (t.deltas.find? (·.1 == npts)).map (fun d => (d.2.1 : Rat)) |>.getD 0
      let r := (t.deltas.find? (·.1 == npts + 1)).map (fun d => (d.2.1 : Rat)) |>.getD 0
      flat ++ [r - l]
  let fontDelta (j k : Nat) : Option Rat :=
    if j == 0 then none else some (match fontFlat.getD j none with | some fl => fl.getD k 0 | none => 0)
  -- per coordinate index: model deltas in model order (following the font at rounding ties)
  let perCoord : List (List (Option Rat)) := (List.range nvals).map fun k =>
    let vals : VarModel.Values := m.locations.map fun l =>
      match masters.find? (·.nloc == l) with
      | some ms => (coords ms)[k]?
      | none => none
    deltasFollowing m vals (fun j => fontDelta j k)
  let ok := (m.influence.zipIdx.drop 1).all fun (_, j) =>
    let want : List Rat := perCoord.map fun ds => (ds.getD j none).getD 0
    match fontFlat.getD j none with
    | some flat => flat == want
    | none => want.all (· == 0)
  some (ok && tuples.length ≤ m.influence.length - 1)

/-- Check one glyph at every master that draws it. `masters`: those containing the glyph (default first). -/
def checkGlyph (d : Design) (f : Font) (name : String) (gid : Nat) : GlyphCheck :=
  let dm := d.masters.getD d.default default
  let tuples := (f.gvar.getD []).getD gid []
  let adv : Rat := ((f.hmtx.getD gid (0, 0)).1 : Rat)
  match dm.glyph? name, f.glyf.getD gid .empty with
  | none, _ => fail "glyph-not-in-default-master" name
  | some sg, fg =>
    -- default advance is exactly the rounded source advance
    if adv ≠ (otRound sg.advance : Rat) then fail "default-advance" s!"{name}: hmtx {adv} vs source {sg.advance}" else
    let masters := d.masters.filter fun m => (m.glyph? name).isSome
    match fg with
    | .empty =>
      if (resolveSrc d dm 8 name).isEmpty then {} else fail "glyph-lost-outline" name
    | .simple _ ends fpts =>
      let srcDefault := resolveSrc d dm 8 name
      match matchPoints fpts srcDefault with
      | none => fail "default-outline-differs" s!"{name}: font default points are not the rounded default master's points"
      | some pi =>
        if !isPerm pi srcDefault.length then fail "default-outline-differs" s!"{name}: point count {fpts.length} vs source {srcDefault.length}" else
        let pts : List (Rat × Rat) := fpts.map fun (x, y, _) => ((x : Rat), (y : Rat))
        let phantom : List (Rat × Rat) := [(0, 0), (adv, 0), (0, 0), (0, 0)]
        let iup := tuples.any fun t => !t.all
        let coords (m : SMaster) : List Rat :=
          let src := resolveSrc d m 8 name
          (pi.flatMap fun i => let (sx, sy, _) := src.getD i (0, 0, true); [(otRound sx : Rat), (otRound sy : Rat)]) ++
            [(otRound ((m.glyph? name).map (·.advance) |>.getD 0) : Rat)]
        -- decomposed glyphs inherit the intermediate locations of their components (modelled under C12): compare pure outlines only
        let corr := if sg.components.isEmpty then modelDeltasAgree d.axes.length masters coords tuples else none
        masters.foldl (fun acc m =>
          if !acc.ok then acc else
          let inst := instantiateSimple pts phantom ends tuples m.nloc
          let src := resolveSrc d m 8 name
          let bound : Rat := 1/2 + 1/2 * activeScalarSum tuples m.nloc
          -- outline points
          let errs := (inst.take pts.length).zip pi |>.map fun ((x, y), i) =>
            let (sx, sy, _) := src.getD i (0, 0, true)
            let ex := absR (x - sx); let ey := absR (y - sy)
            if ex < ey then ey else ex
          let worst := errs.foldl (fun a b => if a < b then b else a) 0
          -- advance phantom: right side point minus left side point
          let l := inst.getD pts.length (0, 0); let r := inst.getD (pts.length + 1) (0, 0)
          let advErr := absR ((r.1 - l.1) - (m.glyph? name |>.map (·.advance) |>.getD 0))
          if worst > bound then
            { acc with ok := false, cls := "master-outline-not-reproduced",
                       detail := s!"{name} at master {m.name}: error {worst} > bound {bound}" }
          else if advErr > 1 then
            { acc with ok := false, cls := "phantom-advance", detail := s!"{name} at master {m.name}: phantom advance error {advErr}" }
          else { acc with maxErr := if acc.maxErr < worst then worst else acc.maxErr }) { iupUsed := iup, corr := corr }
    | .composite _ comps =>
      -- component offsets are the rounded default master's, and reproduce each master's offsets
      if comps.length ≠ sg.components.length then fail "component-count" name else
      let okBase := (comps.zip sg.components).all fun (fc, sc) =>
        f.names.getD fc.gid "" == sc.base ∧ (fc.dx : Rat) = (otRound (sc.t.getD 4 0) : Rat) ∧ (fc.dy : Rat) = (otRound (sc.t.getD 5 0) : Rat)
      if !okBase then fail "default-component-offsets" s!"{name}: component base/offset differ from the rounded default master" else
      let offsets : List (Rat × Rat) := comps.map fun c => ((c.dx : Rat), (c.dy : Rat))
      let phantom : List (Rat × Rat) := [(0, 0), (adv, 0), (0, 0), (0, 0)]
      masters.foldl (fun acc m =>
        if !acc.ok then acc else
        let inst := instantiateComposite offsets phantom tuples m.nloc
        let sgm := (m.glyph? name).getD default
        let errs := (inst.take offsets.length).zip sgm.components |>.map fun ((x, y), sc) =>
          let ex := absR (x - sc.t.getD 4 0); let ey := absR (y - sc.t.getD 5 0)
          if ex < ey then ey else ex
        let worst := errs.foldl (fun a b => if a < b then b else a) 0
        if worst > 1 then
          { acc with ok := false, cls := "master-component-offset", detail := s!"{name} at master {m.name}: offset error {worst}" }
        else { acc with maxErr := if acc.maxErr < worst then worst else acc.maxErr }) {}

/-- hmtx + HVAR at each master equals the master's rounded advance within 1 unit (C04), and agrees with gvar's phantom points. -/
def checkAdvances (d : Design) (f : Font) : GlyphCheck :=
  match f.hvar with
  | none => if d.masters.length ≤ 1 then {} else fail "no-HVAR" ""
  | some hv =>
    d.masters.foldl (fun acc m =>
      if !acc.ok then acc else
      m.glyphs.foldl (fun acc sg =>
        if !acc.ok then acc else
        match f.gidOf? sg.name with
        | none => acc
        | some gid =>
          let adv : Rat := ((f.hmtx.getD gid (0, 0)).1 : Rat) + varTableDelta hv gid m.nloc
          let want : Rat := (otRound sg.advance : Rat)
          if absR (adv - want) > 1 then
            { acc with ok := false, cls := "advance-at-master", detail := s!"{sg.name} at {m.name}: hmtx+HVAR = {adv}, source {sg.advance}" }
          else acc) acc) {}

def handle : Handler := fun s =>
  match parseDesign s with
  | none => badInput "c03: cannot parse design"
  | some d =>
    match s.field? "result" with
    | some (.atom "ok" :: _) =>
      match parseFont s with
      | none => badInput "c03: cannot parse font dump"
      | some f =>
        let dm := d.masters.getD d.default default
        let exported := dm.glyphs.filter fun g => !d.skip.contains g.name
        let checks := exported.map fun g =>
          match f.gidOf? g.name with
          | none => fail "glyph-missing-from-font" g.name
          | some gid => checkGlyph d f g.name gid
        let adv := checkAdvances d f
        let all := checks ++ [adv]
        let bad := all.find? (!·.ok)
        let corrs := all.filterMap (·.corr)
        let corr : Option Bool := if corrs.isEmpty then none else some (corrs.all id)
        let worst : Rat := all.foldl (fun a c => if a < c.maxErr then c.maxErr else a) (0 : Rat)
        let nMasters := d.masters.length
        let tags := [s!"axes{d.axes.length}", s!"masters{nMasters}"] ++
          (if d.masters.any (·.sparse) then ["sparse"] else []) ++
          (if all.any (·.iupUsed) then ["iup"] else []) ++
          (if dm.glyphs.any (fun g => !g.components.isEmpty) then ["composite"] else []) ++
          (if worst > 1/2 then ["err>half"] else if worst > 0 then ["err>0"] else ["exact"])
        match bad with
        | some b => { corr := corr, oracle := some false, nontrivial := nMasters ≥ 3, cls := b.cls, tags, detail := b.detail }
        | none => { corr := corr, oracle := some true, nontrivial := nMasters ≥ 3, tags,
                    cls := if corr == some false then "gvar-deltas-differ-from-model" else "" }
    | some (.atom "err" :: msg) =>
      -- a generated source is valid by construction: a build error is a finding of its own kind
      { corr := none, oracle := some false, cls := "valid-source-rejected",
        detail := (msg.head?.bind Sexp.asString?).getD "" }
    | _ => badInput "c03: no result"

end Fontc.Driver.C03
