import Driver.Common
import FontcModel.Kern
import FontcModel.E2E
import FontcModel.Ivs

/-!
  C09 — kerning.
  `handle`    (stream c09):    the real `build_variable_kern_adjustments` / `lookup_kerning_value` vs the model,
                               and the property on the implementation's emitted pairs.
  `handleE2E` (stream c09e2e): the compiled font's GPOS kern lookups + GDEF variation store, evaluated per the
                               OpenType spec at every kerning master, vs the UFO lookup on that master's source.
-/
namespace Fontc.Driver.C09
open Fontc Fontc.Kern Fontc.Driver

def sortNat (l : List Nat) : List Nat := l.mergeSort (fun a b => decide (a ≤ b))

def Emit.canon : Emit → Emit
  | .glyph g => .glyph g
  | .cls ms => .cls (sortNat ms).eraseDups

def EPair.canon (p : EPair) : EPair := ⟨Emit.canon p.e₁, Emit.canon p.e₂, p.vals⟩

def parseKSide (s : Sexp) : Option KSide :=
  match s with
  | .list [.atom "g", n] => KSide.glyph <$> n.asNat?
  | .list [.atom "c", n] => KSide.group <$> n.asNat?
  | _ => none

def parseGroups (s : Sexp) : Option Groups :=
  s.mapM? fun g =>
    match g with
    | .list [n, ms] => do some ((← n.asNat?), (← ms.mapM? Sexp.asNat?))
    | _ => none

def parseSource (s : Sexp) : Option Source := do
  let kerns ← (← s.field1? "kerns").mapM? fun k =>
    match k with
    | .list [a, b, v] => do some (((← parseKSide a), (← parseKSide b)), (← v.asRat?))
    | _ => none
  some ⟨← parseGroups (← s.field1? "groups1"), ← parseGroups (← s.field1? "groups2"), kerns⟩

def sameSet {α} [BEq α] (a b : List α) : Bool := a.all b.contains && b.all a.contains

def pairKey (p : EPair) : Emit × Emit × List Rat := (p.e₁, p.e₂, p.vals)

def disjointClasses (cs : List (List Nat)) : Bool :=
  let cs := cs.eraseDups
  cs.zipIdx.all fun (a, i) => cs.zipIdx.all fun (b, j) => i == j || a.all fun g => !b.contains g

def classesOf (ps : List EPair) (first : Bool) : List (List Nat) :=
  (ps.filterMap fun p => match (if first then p.e₁ else p.e₂) with | .cls ms => some ms | _ => none).eraseDups

/-- first (master, g₁, g₂) where the emitted pairs do not evaluate to the rounded UFO lookup -/
def firstBad (srcs : List Source) (ps : List EPair) (n : Nat) : Option (Nat × Nat × Nat × Int × Int) :=
  srcs.zipIdx.findSome? fun (s, i) =>
    (List.range n).findSome? fun g₁ =>
      (List.range n).findSome? fun g₂ =>
        let got := evalPairs ps i g₁ g₂
        let want := otRound (ufoLookup s g₁ g₂)
        if got = want then none else some (i, g₁, g₂, got, want)

def handle : Handler := fun s =>
  let r : Option Verdict := do
    let n ← (← s.field1? "n").asNat?
    let (n1, n2) ← match ← s.field1? "ngroups" with
      | .list [a, b] => do some ((← a.asNat?), (← b.asNat?))
      | _ => none
    let srcs ← (← s.field1? "masters").mapM? parseSource
    let impl := Sexp.list (← s.field? "impl")
    let iClasses ← (← impl.field1? "classes").mapM? fun c =>
      match c with
      | .list [side, name, ms] => do some ((← side.asNat?), (← name.asString?), (← ms.mapM? Sexp.asNat?))
      | _ => none
    let emitOf (e : Sexp) : Option Emit :=
      match e with
      | .list [.atom "g", g] => Emit.glyph <$> g.asNat?
      | .list [.atom "c", side, name] => do
        let side ← side.asNat?
        let name ← name.asString?
        let c ← iClasses.find? fun c => c.1 == side && c.2.1 == name
        some (Emit.cls c.2.2)
      | _ => none
    let iAdj ← (← impl.field1? "adjustments").mapM? fun a =>
      match a with
      | .list [e1, e2, vs, cnt] => do
        let vs ← vs.mapM? fun v => match v with | .atom "none" => some none | v => some <$> v.asRat?
        some ((← emitOf e1), (← emitOf e2), vs, (← cnt.asNat?))
      | _ => none
    let iLookups ← (← impl.field1? "lookups").mapM? fun m => m.mapM? Sexp.asRat?
    -- the implementation's pairs; a location without value counts as a disagreement below
    let valsComplete := iAdj.all fun a => a.2.2.1.all Option.isSome && a.2.2.2 == srcs.length
    let iPairs : List EPair := iAdj.map fun a => EPair.canon ⟨a.1, a.2.1, a.2.2.1.map (·.getD 0)⟩
    -- model
    let mPairs := (build srcs).map EPair.canon
    let pairsAgree := sameSet (iPairs.map pairKey) (mPairs.map pairKey)
    let classesAgree := [(1, Side.first), (2, Side.second)].all fun (k, side) =>
      sameSet ((iClasses.filter (·.1 == k)).map fun c => (sortNat c.2.2).eraseDups)
              ((outputClasses srcs side).map fun c => (sortNat c).eraseDups)
    let sides1 := (List.range n).map KSide.glyph ++ (List.range n1).map KSide.group
    let sides2 := (List.range n).map KSide.glyph ++ (List.range n2).map KSide.group
    let combos := sides1.flatMap fun a => sides2.map fun b => (a, b)
    let lookupsAgree := iLookups.length == srcs.length && (srcs.zip iLookups).all fun (s, row) =>
      row.length == combos.length && (combos.zip row).all fun (k, v) => s.lookup k == v
    let corr := valsComplete && pairsAgree && classesAgree && lookupsAgree
    -- oracle, on the implementation's output only
    let lookupIsUfo := (srcs.zip iLookups).all fun (s, row) =>
      (combos.zip row).all fun (k, v) =>
        match k with
        | (.glyph g₁, .glyph g₂) => ufoLookup s g₁ g₂ == v
        | _ => true
    let bad := firstBad srcs iPairs n
    let oracle := lookupIsUfo && bad.isNone
    let overlap := !(disjointClasses (classesOf iPairs true) && disjointClasses (classesOf iPairs false))
    let divergent := [Side.first, Side.second].any fun side =>
      (sideGlyphs srcs side).any (isDivergent srcs side)
    let keys := allKeys srcs
    let missing := keys.any fun k => srcs.any fun s => (s.kerns.lookup k).isNone
    let zero := srcs.any fun s => s.kerns.any fun p => p.2 == 0
    let exc := keys.any fun k => k.1.isGlyph != k.2.isGlyph
    let hasGroups := srcs.any fun s => !s.groups1.isEmpty || !s.groups2.isEmpty
    let nt := srcs.length ≥ 2 && hasGroups && !keys.isEmpty
    let cls :=
      if !oracle then (if !lookupIsUfo then "lookup-not-ufo" else if overlap then "kern-differs-overlapping-classes" else "kern-differs-from-source")
      else if !corr then
        (if !valsComplete then "values-incomplete" else if !pairsAgree then "pairs" else if !classesAgree then "classes" else "lookup")
      else ""
    let tags := [s!"masters{srcs.length}"] ++ (if divergent then ["divergent"] else []) ++
      (if missing then ["missing-in-some"] else []) ++ (if zero then ["zero-pair"] else []) ++
      (if exc then ["exception"] else []) ++ (if overlap then ["classes-overlap"] else []) ++
      (if iPairs.any (·.isCC) then ["class-class"] else []) ++
      (if kernedWhereDivergent srcs then ["hyp-holds"] else ["hyp-fails"])
    let detail :=
      match bad with
      | some (i, g₁, g₂, got, want) => s!"master {i} pair ({g₁},{g₂}): emitted pairs give {got}, UFO lookup rounds to {want}"
      | none => if corr then "" else s!"model_pairs={repr (mPairs.map pairKey)} impl_pairs={repr (iPairs.map pairKey)}"
    some { corr := some corr, oracle := some oracle, nontrivial := nt, cls, tags, detail }
  r.getD (badInput "c09: cannot parse case")

/-! ### e2e -/

open Fontc.E2E Fontc.Ivs

structure KValue where
  xadv : Int
  var : Option (Nat × Nat)
  /-- a device table, an unreadable offset, or any value-record field other than xAdvance of the first glyph -/
  other : Bool
  deriving Repr, Inhabited

inductive KSub where
  | f1 (cov : List Nat) (sets : List (List (Nat × KValue)))
  | f2 (cov : List Nat) (cd1 cd2 : List (Nat × Nat)) (c1n c2n : Nat) (recs : List (List KValue))
  | bad
  deriving Repr, Inhabited

def parseKValue (s : Sexp) : Option KValue :=
  match s with
  | .list [x, v, o] => do
    let x ← x.asInt?
    let o := o == .atom "true"
    match v with
    | .atom "none" => some ⟨x, none, o⟩
    | .list [a, b] => do some ⟨x, some ((← a.asNat?), (← b.asNat?)), o⟩
    | _ => some ⟨x, none, true⟩
  | _ => none

def parsePairsNN (s : Sexp) : Option (List (Nat × Nat)) :=
  s.mapM? fun p => match p with
    | .list [a, b] => do some ((← a.asNat?), (← b.asNat?))
    | _ => none

def parseKSub (s : Sexp) : Option KSub :=
  match s with
  | .list [.atom "f1", cov, sets] => do
    let sets ← sets.mapM? fun ps =>
      match ps with
      | .atom _ => some []
      | ps => ps.mapM? fun r => match r with
        | .list [g, v] => do some ((← g.asNat?), (← parseKValue v))
        | _ => none
    some (.f1 (← cov.mapM? Sexp.asNat?) sets)
  | .list [.atom "f2", cov, cd1, cd2, .list [a, b], recs] => do
    some (.f2 (← cov.mapM? Sexp.asNat?) (← parsePairsNN cd1) (← parsePairsNN cd2) (← a.asNat?) (← b.asNat?)
      (← recs.mapM? fun r => r.mapM? parseKValue))
  | .atom _ => some .bad
  | _ => none

structure KFont where
  names : List String
  scripts : List (String × List Nat)
  lookups : List (Nat × Nat × Option (List KSub))
  ivs : Option Ivs

def parseKFont (c : Sexp) : Option KFont := do
  let names ← (← c.field1? "names").mapM? Sexp.asString?
  let k := Sexp.list (← c.field? "kern")
  let scripts ← (← k.field1? "scripts").mapM? fun s => match s with
    | .list [t, ls] => do some ((← t.asString?), (← ls.mapM? Sexp.asNat?))
    | _ => none
  let lookups ← (← k.field1? "lookups").mapM? fun l => match l with
    | .list [i, fl, .atom _] => do some ((← i.asNat?), (← fl.asNat?), none)
    | .list [i, fl, subs] => do some ((← i.asNat?), (← fl.asNat?), some (← subs.mapM? parseKSub))
    | _ => none
  let ivs ← match ← k.field1? "ivs" with
    | .atom "none" => some none
    | v => some <$> parseIvs v
  some ⟨names, scripts, lookups, ivs⟩

/-- Value of a record at a normalized location: xAdvance + the variation store's delta (OpenType: the
    VariationIndex table in the xAdvDevice slot adds `Σ scalar·delta` of delta set (outer, inner)). -/
def KValue.at (v : KValue) (ivs : Option Ivs) (loc : List Rat) : Rat :=
  (v.xadv : Rat) + match v.var, ivs with
    | some (o, i), some ivs => ivsDelta ivs o i loc
    | _, _ => 0

/-- GPOS lookup type 2 on the glyph pair (g₁, g₂): `none` = the subtable does not apply (try the next). -/
def KSub.apply (t : KSub) (g₁ g₂ : Nat) : Option KValue :=
  match t with
  | .f1 cov sets =>
    match cov.idxOf? g₁ with
    | none => none
    | some ci => ((sets.getD ci []).find? (·.1 == g₂)).map (·.2)
  | .f2 cov cd1 cd2 c1n c2n recs =>
    if !cov.contains g₁ then none else
    let k1 := (cd1.lookup g₁).getD 0
    let k2 := (cd2.lookup g₂).getD 0
    if k1 < c1n && k2 < c2n then (recs.getD k1 []).getD k2 ⟨0, none, true⟩ |> some else none
  | .bad => none

/-- ADVISORY ONLY: the reading in which a format-1 subtable that covers the first glyph ends the lookup even when it
    has no record for the second glyph.  No shaper does this (HarfBuzz, CoreText, DirectWrite continue with the next
    subtable), and fontc/fontTools rely on the fall-through whenever glyph pairs precede class subtables; the tag
    `f1-terminal-reading-differs` counts the cases in which this reading would change the result. -/
def KSub.applyTerminal (t : KSub) (g₁ g₂ : Nat) : Option KValue :=
  match t with
  | .f1 cov sets =>
    match cov.idxOf? g₁ with
    | none => none
    | some ci => some ((((sets.getD ci []).find? (·.1 == g₂)).map (·.2)).getD ⟨0, none, false⟩)
  | t => t.apply g₁ g₂

def kernAtTerminal (f : KFont) (lookups : List Nat) (loc : List Rat) (g₁ g₂ : Nat) : Rat :=
  lookups.foldl (fun (acc : Rat) li =>
    match f.lookups.find? (·.1 == li) with
    | some (_, _, some subs) =>
      match subs.findSome? (fun t => t.applyTerminal g₁ g₂) with
      | some v => acc + v.at f.ivs loc
      | none => acc
    | _ => acc) 0

/-- All lookups of the script's kern feature apply in turn, each through its first applicable subtable;
    their advances add up. -/
def kernAt (f : KFont) (lookups : List Nat) (loc : List Rat) (g₁ g₂ : Nat) : Rat × Bool :=
  lookups.foldl (fun (acc : Rat × Bool) li =>
    match f.lookups.find? (·.1 == li) with
    | some (_, _, some subs) =>
      match subs.findSome? (fun t => t.apply g₁ g₂) with
      | some v => (acc.1 + v.at f.ivs loc, acc.2 || v.other)
      | none => acc
    | _ => (acc.1, true)) (0, false)

def stripPrefix? (p s : String) : Option String :=
  if s.startsWith p then some (s.drop p.length).toString else none

/-- ufo2fontir (source.rs:1667 `kern_groups_from_norad`, :1811 `resolve`): kern1/kern2 groups with at least one
    existing member; a pair is kept iff each side is an existing glyph or a kept group of the right side. -/
def irSource (gid : String → Option Nat) (names1 names2 : List String) (m : SMaster) : Source :=
  let grp (pre : String) (names : List String) : Groups :=
    names.zipIdx.filterMap fun (nm, i) =>
      match m.groups.find? (·.1 == pre ++ nm) with
      | some (_, ms) =>
        let ms := ms.filterMap gid
        if ms.isEmpty then none else some (i, ms)
      | none => none
  let g1 := grp "public.kern1." names1
  let g2 := grp "public.kern2." names2
  let side (pre other : String) (names : List String) (gs : Groups) (nm : String) : Option KSide :=
    match stripPrefix? pre nm with
    | some r => match names.idxOf? r with
      | some i => if gs.any (·.1 == i) then some (.group i) else none
      | none => none
    | none => if nm.startsWith other then none else KSide.glyph <$> gid nm
  let kerns := m.kerning.filterMap fun (a, b, v) =>
    match side "public.kern1." "public.kern2." names1 g1 a, side "public.kern2." "public.kern1." names2 g2 b with
    | some x, some y => some ((x, y), v)
    | _, _ => none
  ⟨g1, g2, kerns⟩

def sortStr (l : List String) : List String := l.mergeSort (fun a b => decide (a ≤ b))

def handleE2E : Handler := fun s =>
  match parseDesign s with
  | none => badInput "c09e2e: cannot parse design"
  | some d =>
    -- a glyph listed in two groups of one side in one master is not a valid UFO3: outside the property
    let invalid := d.masters.any fun m => ["public.kern1.", "public.kern2."].any fun pre =>
      let gs := m.groups.filter fun g => g.1.startsWith pre
      let all := gs.flatMap (·.2)
      all.length != all.eraseDups.length
    match s.field? "result" with
    | some (.atom "ok" :: _) =>
      match parseKFont s with
      | none => badInput "c09e2e: cannot parse kern dump"
      | some f =>
        let gid (n : String) : Option Nat := f.names.idxOf? n
        -- kerning masters (ufo2fontir source.rs:1735): full sources that have kerning, plus the default source
        let kms := d.masters.zipIdx.filter fun (m, i) => !m.sparse && (i == d.default || !m.kerning.isEmpty)
        let groupNames (pre : String) : List String :=
          sortStr ((d.masters.flatMap fun m => m.groups.filterMap fun g => stripPrefix? pre g.1).eraseDups)
        let names1 := groupNames "public.kern1."
        let names2 := groupNames "public.kern2."
        let srcs := kms.map fun (m, _) => irSource gid names1 names2 m
        let dm := d.masters.getD d.default default
        let glyphs := dm.glyphs.filterMap fun g => gid g.name
        let model := (build srcs).map EPair.canon
        let scriptLookups (tag : String) : Option (List Nat) := (f.scripts.find? (·.1 == tag)).map (·.2)
        let hasKern := srcs.any fun s => !s.kerns.isEmpty
        -- check one script's kern feature at every kerning master
        let check (lookups : List Nat) : Option String × Bool :=
          let r := (kms.zip srcs).zipIdx.findSome? fun (((m, _), src), i) =>
            glyphs.findSome? fun g₁ => glyphs.findSome? fun g₂ =>
              let (got, other) := kernAt f lookups m.nloc g₁ g₂
              let want : Rat := (otRound (ufoLookup src g₁ g₂) : Rat)
              if other then some s!"unexpected value-record field/device at master {m.name} pair ({g₁},{g₂})"
              else if ratAbs (got - want) ≤ 1/2 then none
              else some s!"master {m.name} pair (gid {g₁}, gid {g₂}): font applies {got}, source says {ufoLookup src g₁ g₂} (model emits {evalPairs model i g₁ g₂})"
          let corr := (kms.zip srcs).zipIdx.all fun (((m, _), _), i) =>
            glyphs.all fun g₁ => glyphs.all fun g₂ =>
              ratAbs ((kernAt f lookups m.nloc g₁ g₂).1 - (evalPairs model i g₁ g₂ : Rat)) ≤ 1/2
          (r, corr)
        let latn := scriptLookups "latn"
        let dflt := scriptLookups "DFLT"
        let (badL, corrL) := check (latn.getD [])
        let (badD, corrD) := check (dflt.getD [])
        let featureMissing := hasKern && (latn.isNone || dflt.isNone) &&
          (srcs.zipIdx.any fun (src, _) => glyphs.any fun g₁ => glyphs.any fun g₂ => otRound (ufoLookup src g₁ g₂) != 0)
        let divergent := [Side.first, Side.second].any fun side => (sideGlyphs srcs side).any (isDivergent srcs side)
        let overlap := !(disjointClasses (classesOf model true) && disjointClasses (classesOf model false))
        let nSubs := (f.lookups.map fun l => (l.2.2.getD []).length).foldl (· + ·) 0
        let tags := [s!"axes{d.axes.length}", s!"kernmasters{srcs.length}"] ++ (if divergent then ["divergent"] else []) ++
          (if overlap then ["classes-overlap"] else []) ++ (if f.ivs.isSome then ["variable-kern"] else []) ++
          (if model.any (·.isCC) then ["class-class"] else []) ++ [s!"subtables{nSubs}"] ++
          (if kms.length < (d.masters.filter (!·.sparse)).length then ["kernless-master"] else []) ++
          (if kernedWhereDivergent srcs then ["hyp-holds"] else ["hyp-fails"]) ++
          (if (kms.any fun (m, _) => glyphs.any fun g₁ => glyphs.any fun g₂ =>
                kernAtTerminal f (latn.getD []) m.nloc g₁ g₂ != (kernAt f (latn.getD []) m.nloc g₁ g₂).1)
            then ["f1-terminal-reading-differs"] else [])
        let nt := srcs.length ≥ 2 && hasKern && srcs.any fun s => !s.groups1.isEmpty || !s.groups2.isEmpty
        if invalid then
          { corr := none, oracle := none, nontrivial := false, tags := tags ++ ["invalid-groups"],
            detail := s!"built; latn check: {badL.getD "ok"}" } else
        match badL, badD with
        | some msg, _ => { corr := some corrL, oracle := some false, nontrivial := nt, tags,
                           cls := if overlap then "kern-differs-overlapping-classes" else "kern-differs-from-source", detail := "latn: " ++ msg }
        | none, some msg => { corr := some corrD, oracle := some false, nontrivial := nt, tags,
                              cls := if overlap then "kern-differs-overlapping-classes" else "kern-differs-from-source-DFLT", detail := "DFLT: " ++ msg }
        | none, none =>
          if featureMissing then { corr := some false, oracle := some false, nontrivial := nt, tags, cls := "kern-feature-missing" }
          else { corr := some (corrL && corrD), oracle := some true, nontrivial := nt, tags,
                 cls := if corrL && corrD then "" else "font-differs-from-model" }
    | some (.atom "err" :: msg) =>
      if invalid then
        { corr := none, oracle := none, tags := ["invalid-groups-rejected"], detail := (msg.head?.bind Sexp.asString?).getD "" }
      else
      { corr := none, oracle := some false, cls := "valid-source-rejected",
        detail := (msg.head?.bind Sexp.asString?).getD "" }
    | _ => badInput "c09e2e: no result"

end Fontc.Driver.C09
