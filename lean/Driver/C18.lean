import Driver.Common
import FontcModel.E2E
import FontcModel.Names

/-!
  C18 driver.
  `c18`    pure stream: real `NameBuilder::build` → `StaticMetadata::new` → `generate_fvar` / `make_stat`, several runs.
           corr   = each stage of the model (fallback chain, allocation with the *recorded* hash order, fvar, STAT)
                    reproduces the implementation's output of that stage;
           oracle = the property on the implementation's output: one result for all runs/processes, no panic, every
                    referenced id has a Windows record carrying the source's (non-empty) string, ids < 256 only as
                    subfamily id 2/17 of a default-located instance, one id per string, ids 1-6/16/17 follow the
                    documented fallback rules, source records survive.
  `c18e2e` real fonts: the same property read off name / fvar / STAT / GSUB feature parameters.
-/
namespace Fontc.Driver.C18
open Fontc Fontc.Names Fontc.Driver

def str? (s : Sexp) : Option Str := (fun (t : String) => t.toList.map Char.toNat) <$> s.asString?
def optStr? (s : Sexp) : Option (Option Str) :=
  match s with
  | .atom "none" => some none
  | _ => some <$> str? s
def show_ (s : Str) : String := String.ofList (s.map Char.ofNat)

def parseRec (s : Sexp) : Option (NameKey × Str) :=
  match s with
  | .list [i, p, e, l, v] => do some (⟨← i.asNat?, ← p.asNat?, ← e.asNat?, ← l.asNat?⟩, ← str? v)
  | _ => none
def parseKey (s : Sexp) : Option NameKey :=
  match s with
  | .list [i, p, e, l] => do some ⟨← i.asNat?, ← p.asNat?, ← e.asNat?, ← l.asNat?⟩
  | _ => none

structure AxisSrc where
  name : Str
  label : Option Str
  min : Rat
  default : Rat
  max : Rat

def parseAxis (s : Sexp) : Option AxisSrc :=
  match s with
  | .list [n, l, _, mn, d, mx] => do some ⟨← str? n, ← optStr? l, ← mn.asRat?, ← d.asRat?, ← mx.asRat?⟩
  | _ => none

/-- outcome of one run, as printed by the harness -/
structure Run where
  order : List NameKey
  names : Table
  fvar : Res FvarOut
  stat : Res (List Nat)
  elided : Option Nat
  err : Bool

def parseOptNat (s : Sexp) : Option (Option Nat) :=
  match s with
  | .atom "none" => some none
  | _ => some <$> s.asNat?

def parseRun (s : Sexp) : Option Run := do
  let order ← (← s.field1? "order").mapM? parseKey
  let names ← (← s.field1? "names").mapM? parseRec
  let fvar ← match ← s.field1? "fvar" with
    | .atom "none" => some Res.noTable
    | .atom "panic" => some Res.panic
    | f => do
      let axes ← (← f.field1? "axes").mapM? Sexp.asNat?
      let insts ← (← f.field1? "insts").mapM? fun i =>
        match i with
        | .list [a, b] => do some ((← a.asNat?), (← parseOptNat b))
        | _ => none
      some (Res.table ⟨axes, insts⟩)
  let (stat, elided) ← match ← s.field1? "stat" with
    | .atom "none" => some (Res.noTable, none)
    | .atom "panic" => some (Res.panic, none)
    | f => do some (Res.table (← (← f.field1? "axes").mapM? Sexp.asNat?), ← parseOptNat (← f.field1? "elided"))
  let err := (← s.field1? "err") != .atom "none"
  some { order, names, fvar, stat, elided, err }

def sameTable (a b : Table) : Bool := a.length == b.length && a.all (fun p => b.contains p) && b.all (fun p => a.contains p)

def resEq {α} [BEq α] : Res α → Res α → Bool
  | .noTable, .noTable => true
  | .panic, .panic => true
  | .table a, .table b => a == b
  | _, _ => false

instance : BEq FvarOut := ⟨fun a b => a.axisIds == b.axisIds && a.instIds == b.instIds⟩

/-- how many registrations the allocator can make at most -/
def allocBound (x : Input) : Nat := x.labels.length + 2 * x.insts.length

/-- does the source supply a font-specific id inside the range the allocator handed out before commit ba69b97? -/
def sourceIdInAllocRange (x : Input) : Bool :=
  x.names.any fun p => 256 ≤ p.1.id && p.1.id < 256 + allocBound x

structure Checks where
  fails : List String := []
def Checks.add (c : Checks) (ok : Bool) (what : String) : Checks := if ok then c else { fails := c.fails ++ [what] }

/-- the property on one run's output (independent of the model's allocation) -/
def checkRun (x : Input) (r : Run) : Checks :=
  let c : Checks := {}
  -- a Windows record with this id carrying exactly the source's string (hence non-empty whenever the source's label is)
  let winRec (id : Nat) (s : Str) : Bool := r.names.any fun p => p.1.id == id && p.1.platform == 3 && p.2 == s
  let isVariable := !x.labels.isEmpty
  let insts := effInsts x
  -- source records survive
  let c := c.add (x.names.all fun p => r.names.contains p) "source-record-lost"
  -- one id per string among the allocated records
  let fresh := r.names.filter fun p => !(x.names.any fun q => q.1 == p.1)
  let c := c.add (fresh.all fun p => 256 ≤ p.1.id) "allocated-id-below-256"
  let c := c.add (fresh.all fun p => (fresh.filter fun q => q.2 == p.2).length == 1 &&
                    !(x.names.any fun q => 256 ≤ q.1.id && q.2 == p.2)) "string-allocated-twice"
  let c := c.add (!r.err) "static-metadata-error"
  if !isVariable then
    let c := c.add (resEq r.fvar .noTable && resEq r.stat .noTable) "static-font-has-fvar"
    c.add (fresh.isEmpty) "static-font-allocates-names"
  else
  match r.fvar with
  | .panic => c.add false "fvar-panic"
  | .noTable => c.add false "variable-font-without-fvar"
  | .table f =>
    let c := c.add (f.axisIds.length == x.labels.length && f.instIds.length == insts.length) "fvar-shape"
    -- axis names
    let c := c.add ((f.axisIds.zip x.labels).all fun (id, l) => winRec id l) "axis-name-missing-or-wrong"
    let c := c.add (f.axisIds.all fun id => 256 ≤ id) "reserved-id-for-axis"
    -- instances
    let c := c.add ((f.instIds.zip insts).all fun ((sub, _), ni) => winRec sub ni.name) "instance-name-missing-or-wrong"
    let c := c.add ((f.instIds.zip insts).all fun ((sub, _), ni) => 256 ≤ sub || (ni.atDefault && isSub sub)) "reserved-id-in-fvar"
    let hasPs := insts.any (·.ps.isSome)
    let c := c.add ((f.instIds.zip insts).all fun ((_, ps), ni) =>
      match ps, ni.ps with
      | none, _ => !hasPs
      | some id, some p => hasPs && winRec id p && 256 ≤ id
      | some id, none => hasPs && id == noPostscriptName) "instance-psname-missing-or-wrong"
    match r.stat with
    | .panic => c.add false "stat-panic"
    | .noTable => c.add false "variable-font-without-STAT"
    | .table ids =>
      let c := c.add (ids.length == x.labels.length && (ids.zip x.labels).all fun (id, l) => winRec id l && 256 ≤ id) "stat-axis-name-missing-or-wrong"
      c.add (r.elided == some 2 && r.names.any fun p => p.1.id == 2 && !p.2.isEmpty) "stat-elided-fallback-name"

/-- ids the fallback rules speak about, plus whatever the source added -/
def checkFallback (b : Builder) (vendor : Str) (built : Table) : Bool :=
  let spec := fallbackSpec b.get b.major b.minor vendor
  let ids : List Nat := ([1, 2, 3, 4, 5, 6, 16, 17] ++ b.names.map (fun (p : Nat × Str) => p.1)).eraseDups
  -- every id: the (unique) record is what the rules say; no other records
  (ids.all fun id =>
    let recs := built.filter fun (p : NameKey × Str) => p.1.id == id
    match spec.get b.get id with
    | none => recs.isEmpty
    | some v => recs == [(NameKey.new id v, v)]) &&
  built.all fun (p : NameKey × Str) => ids.contains p.1.id

def handle : Handler := fun s =>
  let r : Option Verdict := do
    if let some _ := s.field? "panic" then
      return { corr := none, oracle := some false, cls := "harness-panic" }
    let adds ← (← s.field1? "adds").mapM? fun a =>
      match a with
      | .list [i, v] => do some ((← i.asNat?), (← str? v))
      | _ => none
    let (major, minor) ← match ← s.field? "version" with
      | [a, b] => do some ((← a.asInt?), (← b.asNat?))
      | _ => none
    let vendor ← str? (← s.field1? "vendor")
    let axes ← (← s.field1? "axes").mapM? parseAxis
    let instsSrc ← (← s.field1? "insts").mapM? fun i =>
      match i with
      | .list [n, p, l] => do some ((← str? n), (← optStr? p), (← l.mapM? Sexp.asRat?))
      | _ => none
    let built ← (← s.field1? "built").mapM? parseRec
    let run0 ← parseRun (Sexp.list (← s.field? "impl"))
    let alt ← match s.field? "alt" with
      | none => some none
      | some a => some <$> parseRun (Sexp.list a)
    let (nRuns, nChildren, childMissing, variants) ← match ← s.field? "runs" with
      | [a, b, c, d] => do some ((← a.asNat?), (← b.asNat?), (← c.asNat?), (← d.asNat?))
      | _ => none
    -- model input
    let isPoint (a : AxisSrc) : Bool := a.min == a.default && a.max == a.default
    let labels := (axes.filter (!isPoint ·)).map fun a => uiLabel a.name a.label
    let insts : List Inst := instsSrc.map fun (n, p, loc) =>
      -- `subset_axes` keeps the variable axes; compare with their defaults
      let atDefault := (axes.zip loc).all fun (a, v) => isPoint a || v == a.default
      ⟨n, p, atDefault⟩
    let x : Input := ⟨built, labels, insts⟩
    let b := Builder.ofAdds adds major minor
    -- stage 1: fallback chain
    let mBuilt := builtTable (b.build vendor)
    let corrBuild := sameTable mBuilt built
    -- stage 2-4 per run: allocation under the recorded iteration order, fvar and STAT on the implementation's names
    -- the source supplies font-specific ids; `clash` = inside the range the pre-ba69b97 allocator handed out again
    let clash := sourceIdInAllocRange x
    let srcFontSpecific := built.any fun p => 256 ≤ p.1.id
    let corrRun (r : Run) : Bool × Bool × Bool :=
      let okOrder := r.order.length == built.length && r.order.all fun k => (alookup k built).isSome
      (okOrder && sameTable (alloc r.order x) r.names, resEq (fvar r.names x) r.fvar, resEq (stat r.names x) r.stat)
    let (a0, f0, s0) := corrRun run0
    let (a1, f1, s1) := match alt with
      | some r => corrRun r
      | none => (true, true, true)
    let corrAlloc := a0 && a1
    let corr := corrBuild && corrAlloc && f0 && f1 && s0 && s1
    -- oracle
    let c0 := checkRun x run0
    let c1 := match alt with
      | some r => checkRun x r
      | none => {}
    let fb := checkFallback b vendor built
    let deterministic := variants == 1 && alt.isNone && childMissing == 0
    let fails := (c0.fails ++ c1.fails).eraseDups ++ (if fb then [] else ["fallback-rule"]) ++
      (if deterministic then [] else ["order-dependent"])
    let oracle := fails.isEmpty
    let cls :=
      if !oracle then
        (if srcFontSpecific && (fails.contains "source-record-lost" || fails.contains "fvar-panic" || fails.contains "stat-panic")
           then "source-font-specific-id-clobbered"
         else if !deterministic then "name-id-order-dependent"
         else fails.headD "")
      else if !corr then
        (if !corrBuild then "model-fallback-chain" else if !corrAlloc then "model-alloc"
         else if !(f0 && f1) then "model-fvar" else "model-stat")
      else ""
    -- distribution
    let collide := (effInsts x).any fun ni => built.any fun p => p.2 == ni.name
    let repeated := let ns := (effInsts x).map (·.name) ++ labels; ns.eraseDups.length < ns.length
    let ambiguous := (effInsts x).any fun ni => ni.atDefault &&
      (built.any fun p => p.2 == ni.name && isSub p.1.id) && (built.any fun p => p.2 == ni.name && !isSub p.1.id)
    let emptyLabel := labels.any (·.isEmpty) || insts.any fun ni => ni.name.isEmpty || ni.ps == some []
    let nt := !labels.isEmpty && !(effInsts x).isEmpty && (collide || repeated) && !emptyLabel
    let tags := [s!"axes{labels.length}", s!"insts{min insts.length 4}"] ++
      (if labels.isEmpty then ["static"] else []) ++ (if emptyLabel then ["empty-label(outside-domain)"] else []) ++
      (if collide then ["inst-name-collides"] else []) ++ (if repeated then ["repeated-string"] else []) ++
      (if ambiguous then ["ambiguous-2/17"] else []) ++
      (if clash then ["src-id-in-alloc-range"] else if built.any (fun p => 256 ≤ p.1.id) then ["src-font-specific-id"] else []) ++
      (if (adds.any fun p => p.1 == 2) then [] else ["no-legacy-style"]) ++
      (if (adds.any fun p => p.1 == 1) then [] else ["no-legacy-family"]) ++
      (if (adds.any fun p => p.1 == 17 && !isRibbi p.2) then ["non-ribbi"] else []) ++
      (if insts.any (·.ps.isSome) then ["psnames"] else []) ++
      (if insts.any (·.atDefault) then ["default-inst"] else []) ++
      [s!"runs{nRuns}+{nChildren}"]
    let detail :=
      (if oracle then "" else s!"failed={fails} variants={variants}") ++
      (if corr then "" else s!" model_built={mBuilt.map fun p => (p.1.id, show_ p.2)} model_alloc={(alloc run0.order x).map fun p => (p.1.id, show_ p.2)} model_fvar={repr (fvar run0.names x)}")
    some { corr := some corr, oracle := some oracle, nontrivial := nt, cls, tags, detail }
  r.getD (badInput "c18: cannot parse case")

/-! ### end to end -/

open Fontc.E2E in
def handleE2E : Handler := fun s =>
  match parseDesign s with
  | none => badInput "c18e2e: cannot parse design"
  | some d =>
    let naming := Sexp.list ((s.field? "naming").getD [])
    let r : Option Verdict := do
      let family ← str? (← naming.field1? "family")
      let style ← str? (← naming.field1? "style")
      let instps ← (← naming.field1? "instps").mapM? optStr?
      let feaLabel ← optStr? (← naming.field1? "fealabel")
      let kind ← (← naming.field1? "kind").asAtom?
      let (_, nDistinct) ← match ← s.field1? "builds" with
        | .list [a, b] => do some ((← a.asNat?), (← b.asNat?))
        | _ => none
      match s.field? "result" with
      | some (.atom "ok" :: _) =>
        let f ← parseFont s
        let extra := Sexp.list ((s.field? "extra").getD [])
        let toS (t : String) : Str := t.toList.map Char.toNat
        let recs : Table := f.name.map fun (i, p, e, l, v) => (⟨i, p, e, l⟩, toS v)
        let winRec (id : Nat) (v : Str) : Bool := recs.any fun p => p.1.id == id && p.1.platform == 3 && p.2 == v && !v.isEmpty
        let isVar := d.axes.any fun a => a.min != a.max
        let c : Checks := {}
        let c := c.add (nDistinct == 1) "order-dependent"
        -- family / style per the fallback rules of a source with only familyName / styleName
        let b := Builder.ofAdds [(16, family), (17, style)] 0 0
        let spec := fallbackSpec b.get 0 0 (lit "NONE")
        let c := c.add ([1, 2, 4, 6, 16, 17].all fun id =>
          let got := (recs.filter fun p => p.1.id == id).map (·.2)
          match spec.get b.get id with
          | none => got.isEmpty
          | some v => got == [v]) "fallback-rule"
        let c :=
          if !isVar then c.add (f.fvar.isEmpty) "static-font-has-fvar" else
          -- fvar axes in designspace order
          let varAxes := d.axes.filter fun a => a.min != a.max
          let c := c.add (f.fvar.length == varAxes.length) "fvar-shape"
          let c := c.add ((f.fvar.zip varAxes).all fun ((_, _, _, _, nid, _), a) => winRec nid (uiLabel (toS a.name) none) && 256 ≤ nid) "axis-name-missing-or-wrong"
          let c := c.add (f.instances.length == d.instances.length) "instance-count"
          let defaults := varAxes.map (·.default)
          let hasPs := instps.any Option.isSome
          let zipped := f.instances.zip (d.instances.zip instps)
          let c := c.add (zipped.all fun ((sub, _, _), ((_, st, _), _)) => winRec sub (toS st)) "instance-name-missing-or-wrong"
          let c := c.add (zipped.all fun ((sub, _, coords), _) => 256 ≤ sub || (coords == defaults && isSub sub)) "reserved-id-in-fvar"
          -- read-fonts reports postScriptNameID 0xFFFF (and an absent field) as none
          let c := c.add (zipped.all fun ((_, ps, _), (_, p)) =>
            match ps, p with
            | none, none => true
            | none, some _ => false
            | some id, some pn => winRec id pn && 256 ≤ id
            | some id, none => hasPs && id == noPostscriptName) "instance-psname-missing-or-wrong"
          -- STAT
          match extra.field? "STAT" with
          | none => c.add false "variable-font-without-STAT"
          | some st =>
            let stS := Sexp.list st
            let ok : Option Bool := do
              let axes ← (← stS.field1? "axes").mapM? fun a =>
                match a with
                | .list [t, nid, _] => do some ((← t.asString?), (← nid.asNat?))
                | _ => none
              let values ← (← stS.field1? "values").mapM? Sexp.asNat?
              let elided ← parseOptNat (← stS.field1? "elided")
              some (axes.length == varAxes.length &&
                (axes.all fun (t, nid) =>
                  match varAxes.find? (·.tag == t) with
                  | some a => winRec nid (uiLabel (toS a.name) none) && 256 ≤ nid
                  | none => false) &&
                (values.all fun id => recs.any fun p => p.1.id == id && p.1.platform == 3 && !p.2.isEmpty) &&
                (match elided with
                 | some id => recs.any fun p => p.1.id == id && !p.2.isEmpty
                 | none => true))
            c.add (ok.getD false) "stat-name-missing-or-wrong"
        -- names supplied through feature code
        let c := match feaLabel, extra.field1? "featparams" with
          | some l, some fp =>
            let ids := (fp.mapM? fun p =>
              match p with
              | .list [_, nid] => nid.asNat?
              | _ => none).getD []
            let c := c.add (!ids.isEmpty) "feature-name-not-referenced"
            c.add (ids.all fun id => winRec id l && 256 ≤ id) "feature-name-missing-or-wrong"
          | some _, none => c.add false "feature-name-not-referenced"
          | none, _ => c
        -- no two records of one platform/language share an id; every record non-empty
        let c := c.add (recs.all fun p => (recs.filter fun q => q.1 == p.1).length == 1) "duplicate-name-record"
        let c := c.add (recs.all fun p => !p.2.isEmpty) "empty-name-record"
        let oracle := c.fails.isEmpty
        let styles := d.instances.map fun (_, st, _) => toS st
        let collide := styles.any fun st => st == family || st == style
        let tags := [s!"kind-{kind}", s!"axes{d.axes.length}", s!"insts{min d.instances.length 4}"] ++
          (if collide then ["inst-name-collides"] else []) ++ (if instps.any Option.isSome then ["psnames"] else []) ++
          (if feaLabel.isSome then ["fea-names"] else [])
        let cls := if oracle then "" else if c.fails.contains "order-dependent" then "name-id-order-dependent" else c.fails.headD ""
        some { corr := none, oracle := some oracle, nontrivial := isVar && !d.instances.isEmpty, cls, tags,
               detail := if oracle then "" else s!"failed={c.fails}" }
      | some (.atom "err" :: msg) =>
        some { corr := none, oracle := some false, cls := "valid-source-rejected",
               detail := (msg.head?.bind Sexp.asString?).getD "" }
      | _ => none
    r.getD (badInput "c18e2e: cannot parse case")

/-! ### names supplied through feature code (`c18fea`) -/

def parseSpec (s : Sexp) : Option FeaSpec :=
  match s with
  | .list [p, e, l, t] => do some ⟨← p.asNat?, ← e.asNat?, ← l.asNat?, ← str? t⟩
  | _ => none
def parseSpecs (s : Sexp) : Option (List FeaSpec) := s.mapM? parseSpec

structure StatSrc where
  /-- `ElidedFallbackNameID n` (inl) or `ElidedFallbackName { … }` (inr) -/
  elided : Nat ⊕ List FeaSpec
  axes : List (String × Nat × List FeaSpec)
  values : List (String × Rat × List FeaSpec)

structure FeaSrc where
  explicit : List (Nat × FeaSpec)
  stat : Option StatSrc
  ss : List (String × List FeaSpec)
  cv : Option (String × List FeaSpec × List FeaSpec × List FeaSpec × List (List FeaSpec))
  size : Option (List FeaSpec)

def parseFea (c : Sexp) : Option FeaSrc := do
  let s := Sexp.list (← c.field? "fea")
  let explicit ← (← s.field1? "explicit").mapM? fun r =>
    match r with
    | .list [i, sp] => do some ((← i.asNat?), (← parseSpec sp))
    | _ => none
  let stat ← match ← s.field1? "stat" with
    | .atom "none" => some none
    | st => do
      let elided ← match ← st.field1? "elided" with
        | .list [.atom "id", n] => Sum.inl <$> n.asNat?
        | .list [.atom "names", ns] => Sum.inr <$> parseSpecs ns
        | _ => none
      let axes ← (← st.field1? "axes").mapM? fun a =>
        match a with
        | .list [t, o, ns] => do some ((← t.asString?), (← o.asNat?), (← parseSpecs ns))
        | _ => none
      let values ← (← st.field1? "values").mapM? fun a =>
        match a with
        | .list [t, v, ns] => do some ((← t.asString?), (← v.asRat?), (← parseSpecs ns))
        | _ => none
      some (some { elided, axes, values })
  let ss ← (← s.field1? "ss").mapM? fun a =>
    match a with
    | .list [t, ns] => do some ((← t.asString?), (← parseSpecs ns))
    | _ => none
  let cv ← match ← s.field1? "cv" with
    | .atom "none" => some none
    | .list [t, a, b, c, ps] => do some (some ((← t.asString?), (← parseSpecs a), (← parseSpecs b), (← parseSpecs c), (← ps.mapM? parseSpecs)))
    | _ => none
  let size ← match ← s.field1? "size" with
    | .atom "none" => some none
    | ns => some <$> parseSpecs ns
  some { explicit, stat, ss, cv, size }

/-- insertion sort of tagged things by tag (`BTreeMap<Tag, _>` iteration) -/
def sortByTag {α : Type} (l : List (String × α)) : List (String × α) :=
  l.foldr (fun p acc => (acc.takeWhile fun q => q.1 < p.1) ++ p :: (acc.dropWhile fun q => q.1 < p.1)) []

/-- What each anonymous group is for. -/
inductive Ref where
  | elided | axis (tag : String) | value (tag : String) (v : Rat) | size | ss (tag : String)
  | cvLabel (tag : String) | cvTip (tag : String) | cvSample (tag : String) | cvParam (tag : String) (k : Nat)
  deriving Repr, BEq

/-- the anonymous groups in fea-rs' build order (stat.rs:60-140, features.rs:246-265, 567-580) -/
def groupsOf (f : FeaSrc) : List (Ref × List FeaSpec) :=
  let stat : List (Ref × List FeaSpec) := match f.stat with
    | none => []
    | some st =>
      (match st.elided with
       | .inr ns => [(Ref.elided, ns)]
       | .inl _ => []) ++
      st.axes.flatMap fun (tag, _, ns) =>
        (Ref.axis tag, ns) :: (st.values.filter fun v => v.1 == tag).map fun (t, v, vns) => (Ref.value t v, vns)
  let size := match f.size with
    | some ns => [(Ref.size, ns)]
    | none => []
  let ss := (sortByTag f.ss).map fun (t, ns) => (Ref.ss t, ns)
  let cv := match f.cv with
    | none => []
    | some (t, a, b, c, ps) =>
      (if a.isEmpty then [] else [(Ref.cvLabel t, a)]) ++ (if b.isEmpty then [] else [(Ref.cvTip t, b)]) ++
      (if c.isEmpty then [] else [(Ref.cvSample t, c)]) ++ ps.zipIdx.map fun (p, k) => (Ref.cvParam t k, p)
  stat ++ size ++ ss ++ cv

def handleFea : Handler := fun s =>
  match Fontc.E2E.parseDesign s, parseFea s with
  | some d, some src =>
    match s.field? "result" with
    | some (.atom "ok" :: _) =>
      let r : Option Verdict := do
        let f ← Fontc.E2E.parseFont s
        let refs := Sexp.list (← s.field? "refs")
        let isStatic := (← s.field1? "static") == .atom "true"
        let toS (t : String) : Str := t.toList.map Char.toNat
        let recs : Table := f.name.map fun (i, p, e, l, v) => (⟨i, p, e, l⟩, toS v)
        -- the font's references
        let fStat : Option (List (String × Nat × Nat) × List (Nat × Nat × Rat × Nat) × Option Nat) := do
          let st := Sexp.list (← refs.field? "STAT")
          let axes ← (← st.field1? "axes").mapM? fun a =>
            match a with
            | .list [t, nid, o] => do some ((← t.asString?), (← nid.asNat?), (← o.asNat?))
            | _ => none
          let values ← (← st.field1? "values").mapM? fun a =>
            match a with
            | .list [fmt, ax, v, nid] => do some ((← fmt.asNat?), (← ax.asNat?), (← v.asRat?), (← nid.asNat?))
            | _ => none
          some (axes, values, ← parseOptNat (← st.field1? "elided"))
        let fParams ← (← refs.field1? "featparams").mapM? fun p =>
          match p with
          | .list (t :: .atom kind :: ids) => do some ((← t.asString?), kind, (← ids.mapM Sexp.asNat?))
          | _ => none
        -- font id of each anonymous group
        let fontId (r : Ref) : Option Nat :=
          match r with
          | .elided => fStat.bind (·.2.2)
          | .axis t => fStat.bind fun st => (st.1.find? (·.1 == t)).map (·.2.1)
          | .value t v => fStat.bind fun st =>
              match st.1.findIdx? (·.1 == t) with
              | some ai => (st.2.1.find? fun (_, a, fv, _) => a == ai && fv == v).map (·.2.2.2)
              | none => none
          | .size => (fParams.find? (·.2.1 == "size")).bind (·.2.2[0]?)
          | .ss t => (fParams.find? fun p => p.1 == t && p.2.1 == "ss").bind (·.2.2[0]?)
          | .cvLabel t => (fParams.find? fun p => p.1 == t && p.2.1 == "cv").bind (·.2.2[0]?)
          | .cvTip t => (fParams.find? fun p => p.1 == t && p.2.1 == "cv").bind (·.2.2[1]?)
          | .cvSample t => (fParams.find? fun p => p.1 == t && p.2.1 == "cv").bind (·.2.2[2]?)
          | .cvParam t k => (fParams.find? fun p => p.1 == t && p.2.1 == "cv").bind fun p => (p.2.2[4]?).map (· + k)
        let groups := groupsOf src
        -- ---------------- oracle (independent of the model's id arithmetic)
        let c : Checks := {}
        -- exactly one record per (id, platform, encoding, language), never empty
        let c := c.add (recs.all fun p => (recs.filter fun q => q.1 == p.1).length == 1) "duplicate-name-record"
        let c := c.add (recs.all fun p => !p.2.isEmpty) "empty-name-record"
        -- every anonymous group: the referenced id carries exactly the group's strings, language by language
        let groupOk (r : Ref) (ns : List FeaSpec) : Bool :=
          match fontId r with
          | none => false
          | some id =>
            let want := ns.filter fun n => !n.str.isEmpty
            let got := recs.filter fun p => p.1.id == id
            256 ≤ id && got.length == want.length &&
              (want.all fun n => got.any fun p => p.1.platform == n.platform && p.1.encoding == n.encoding && p.1.lang == n.lang && p.2 == n.str) &&
              -- exactly one Windows-English record
              (got.filter fun p => p.1.platform == 3 && p.1.lang == 0x409).length == 1
        let badGroups := groups.filter fun (r, ns) => !groupOk r ns
        let classOf (r : Ref) : String :=
          match r with
          | .elided | .axis _ | .value _ _ => "stat-name-missing"
          | .size => "size-name-missing"
          | .ss _ => "feature-name-missing"
          | _ => "cv-name-missing"
        let c := badGroups.foldl (fun c (r, _) => c.add false (classOf r)) c
        -- distinct groups get distinct ids
        let gids := groups.filterMap fun (r, _) => fontId r
        let c := c.add (gids.eraseDups.length == gids.length) "anonymous-ids-collide"
        -- explicit records: reserved ids stay; font-specific ids are moved by one common offset; none is lost
        let fontSpecific := src.explicit.filter fun e => 256 ≤ e.1
        let keep (delta : Nat) : Bool := src.explicit.all fun (id, n) =>
          let id' := if id ≤ 255 then id else id + delta
          recs.any fun p => p.1 == ⟨id', n.platform, n.encoding, n.lang⟩ && p.2 == n.str
        let delta? := (List.range 64).find? keep
        let c := c.add delta?.isSome "fea-name-id-clobbered"
        let delta := delta?.getD 0
        -- explicit ids do not collide with anonymous ones
        let c := c.add (fontSpecific.all fun e => !gids.contains (e.1 + delta)) "fea-name-id-clobbered"
        -- ElidedFallbackNameID n: the referenced record is the explicit one
        let c := match src.stat, fStat with
          | some st, some fs =>
            match st.elided with
            | .inl n =>
              let want : List Str := (src.explicit.filter fun (e : Nat × FeaSpec) => e.1 == n && e.2.lang == 0x409).map (fun (e : Nat × FeaSpec) => e.2.str)
              let id' := if n ≤ 255 then n else n + delta
              let got : List Str := (recs.filter fun (p : NameKey × Str) => some p.1.id == fs.2.2 && p.1.platform == 3 && p.1.lang == 0x409).map (fun (p : NameKey × Str) => p.2)
              -- a reserved id may name one of the compiler's own records (then `want` is empty and any non-empty record does)
              c.add (fs.2.2 == some id' && got.length == 1 && (want.isEmpty || got == want)) "stat-elided-fallback-wrong"
            | .inr _ => c
          | some _, none => c.add false "stat-table-missing"
          | none, _ => c
        -- the compiler's own references survive the merge: fvar axis / instance names (strings from the design)
        let varAxes := d.axes.filter fun a => a.min != a.max
        let c := c.add ((f.fvar.zip varAxes).all fun ((_, _, _, _, nid, _), a) =>
          256 ≤ nid && recs.any fun p => p.1.id == nid && p.1.platform == 3 && p.1.lang == 0x409 && p.2 == uiLabel (toS a.name) none) "own-axis-name-lost"
        let c := c.add ((f.instances.zip d.instances).all fun ((sub, _, _), (_, st, _)) =>
          recs.any fun p => p.1.id == sub && p.1.platform == 3 && p.1.lang == 0x409 && p.2 == toS st) "own-instance-name-lost"
        let c := c.add (isStatic || f.fvar.length == varAxes.length) "fvar-shape"
        -- ---------------- correspondence: the model's ids + one offset = the font's ids
        let (b, ids) := feaCompile src.explicit (groups.map (·.2))
        let own := recs.filter fun p => p.1.id < 256 + delta && !(src.explicit.any fun e => e.1 ≤ 255 && e.1 == p.1.id && e.2.lang == p.1.lang)
        let shift := feaShift own
        -- fea-rs output.rs:127-151 remaps stylistic-set and character-variant parameters only: the `size` menu name id
        -- keeps its unshifted value (literal model of the current code; the oracle reports it as size-name-missing)
        let refShift (r : Ref) (id : Nat) : Nat := if r == Ref.size then feaShiftSize own id else shift id
        let corrIds := (groups.zip ids).all fun ((r, _), id) => fontId r == some (refShift r id)
        let corrRecs := sameTable (mergeNames own (feaRecordsShifted own b)) recs
        let corrElided := match src.stat, fStat with
          | some st, some fs =>
            match st.elided with
            | .inl n => fs.2.2 == some (feaShiftElided own n)
            | .inr _ => true
          | _, _ => true
        let corr := corrIds && corrRecs && corrElided
        let oracle := c.fails.isEmpty
        let order := ((Sexp.list ((s.field? "fea").getD [])).field1? "order").bind Sexp.asAtom? |>.getD "?"
        let ntl := ((Sexp.list ((s.field? "fea").getD [])).field1? "nametablelast") == some (.atom "true")
        let langs := (src.explicit.map (·.2.lang)).eraseDups.length
        let tags := [s!"order-{order}", s!"explicit{min src.explicit.length 6}", s!"langs{langs}", s!"groups{min groups.length 12}", s!"shift{min delta 4}"] ++
          (if isStatic then ["static"] else ["variable"]) ++ (if ntl then ["name-table-last"] else ["name-table-first"]) ++
          (match src.stat with
           | none => ["no-STAT"]
           | some st => (match st.elided with
              | .inl n => if n ≤ 255 then ["elided-reserved-id"] else ["elided-explicit-id"]
              | .inr _ => ["elided-inline-name"]) ++ [s!"axisvalues{min st.values.length 6}"]) ++
          (if src.ss.isEmpty then [] else [s!"ss{src.ss.length}"]) ++ (if src.cv.isSome then ["cv"] else []) ++
          (if src.size.isSome then ["size"] else []) ++ (if d.instances.isEmpty then [] else ["instances"]) ++
          (if src.explicit.any (fun e => e.1 == 2) then ["fea-overrides-id2"] else [])
        let cls := if !oracle then c.fails.headD "" else if !corr then
          (if !corrIds then "model-fea-ids" else if !corrRecs then "model-fea-merge" else "model-fea-elided") else ""
        let detail := (if oracle then "" else s!"failed={c.fails.eraseDups} bad={badGroups.map fun (r, _) => (repr r, fontId r)}") ++
          (if corr then "" else s!" model_ids={ids.map shift} delta={delta} own_max={maxId own}")
        some { corr := some corr, oracle := some oracle, nontrivial := groups.length ≥ 2 && src.explicit.length ≥ 2, cls, tags, detail }
      r.getD (badInput "c18fea: cannot parse font")
    | some (.atom "err" :: msg) =>
      { corr := none, oracle := some false, cls := "valid-source-rejected",
        detail := (msg.head?.bind Sexp.asString?).getD "" }
    | _ => badInput "c18fea: no result"
  | _, _ => badInput "c18fea: cannot parse case"

end Fontc.Driver.C18
