import Driver.Common
import FontcModel.FeaCompile

/-!
  C11 driver.  One case = an abstract feature program, its `.fea` text, and the tables the real
  fea-rs produced from the text (read back from bytes).
  * oracle: `shape realTables = interp program` on every string up to length 3 over the glyphs the
    program mentions (length 4 over a smaller alphabet), the harness' random longer strings, every
    registered script/language, all features and each single feature.
  * corr:   `shape (compile program)` agrees with `shape realTables` on the same strings
            (the model of the compiler is behaviourally the real compiler).
  * advisory tags: structural comparison of `compile program` with the real tables.
-/
namespace Fontc.Driver.C11
open Fontc Fontc.Driver Fontc.FeaCompile

/-! parsing -/

def pGlyphs (s : Sexp) : Option (List Glyph) := s.mapM? Sexp.asNat?

def pGC : Sexp → Option GC
  | .list [.atom "g", x] => GC.g <$> x.asNat?
  | .list (.atom "c" :: xs) => GC.c <$> xs.mapM Sexp.asNat?
  | _ => none

def pGCs (s : Sexp) : Option (List GC) := s.mapM? pGC

def pOptSet : Sexp → Option (Option (List Glyph))
  | .atom "none" => some none
  | s => some <$> pGlyphs s

def pFlag : Sexp → Option Flag
  | .list [.atom "flag", a, b, c, d, e, f] => do
    some { rtl := (← a.asNat?) == 1, ib := (← b.asNat?) == 1, il := (← c.asNat?) == 1, im := (← d.asNat?) == 1,
           attach := ← pOptSet e, filter := ← pOptSet f }
  | _ => none

def pValue : Sexp → Option Value
  | .list [a, b, c, d] => do some ⟨← a.asInt?, ← b.asInt?, ← c.asInt?, ← d.asInt?⟩
  | _ => none

def pInline : Sexp → Option Inline
  | .atom "none" => some .none
  | .list [.atom "by", x] => Inline.single <$> pGC x
  | .list [.atom "bylig", x] => Inline.lig <$> x.asNat?
  | .list [.atom "byseq", x] => Inline.multi <$> pGlyphs x
  | _ => none

def pInput : Sexp → Option (GC × List String)
  | .list [gc, refs] => do some (← pGC gc, ← refs.mapM? Sexp.asString?)
  | _ => none

def pIgnoreAlt : Sexp → Option (List GC × List GC × List GC)
  | .list [b, i, l] => do some (← pGCs b, ← pGCs i, ← pGCs l)
  | _ => none

def pRule : Sexp → Option Rule
  | .list [.atom "single", a, b] => do some (.single (← pGC a) (← pGC b))
  | .list [.atom "multiple", a, b] => do some (.multiple (← a.asNat?) (← pGlyphs b))
  | .list [.atom "alternate", a, b] => do some (.alternate (← a.asNat?) (← pGlyphs b))
  | .list [.atom "ligature", a, b] => do some (.ligature (← pGCs a) (← b.asNat?))
  | .list [.atom "chain", b, i, l, inl] => do
    some (.chain (← pGCs b) (← i.mapM? pInput) (← pGCs l) (← pInline inl))
  | .list (.atom "ignore" :: alts) => Rule.ignore <$> alts.mapM pIgnoreAlt
  | .list [.atom "spos", a, v] => do some (.spos (← pGC a) (← pValue v))
  | .list [.atom "ppos", e, a, b, v] => do some (.ppos ((← e.asNat?) == 1) (← pGC a) (← pGC b) (← pValue v))
  | _ => none

def pBStmt : Sexp → Option BStmt
  | .list [.atom "rule", r] => BStmt.rule <$> pRule r
  | s => BStmt.flag <$> pFlag s

def pStmt : Sexp → Option Stmt
  | .list [.atom "script", t] => Stmt.script <$> t.asString?
  | .list [.atom "language", t, ex] => do some (.language (← t.asString?) ((← ex.asNat?) == 1))
  | .list [.atom "rule", r] => Stmt.rule <$> pRule r
  | .list [.atom "lookup", n, body] => do some (.lookup (← n.asString?) (← body.mapM? pBStmt))
  | .list [.atom "ref", n] => Stmt.ref <$> n.asString?
  | s => Stmt.flag <$> pFlag s

def pTop : Sexp → Option Top
  | .list [.atom "langsys", s, l] => do some (.langsys (← s.asString?) (← l.asString?))
  | .list [.atom "lookup", n, body] => do some (.lookup (← n.asString?) (← body.mapM? pBStmt))
  | .list [.atom "feature", n, body] => do some (.feature (← n.asString?) (← body.mapM? pStmt))
  | _ => none

def pPair : Sexp → Option (Nat × Nat)
  | .list [a, b] => do some (← a.asNat?, ← b.asNat?)
  | _ => none

def pProgram (s : Sexp) : Option (Program × Nat) := do
  let n ← (← s.field1? "nglyphs").asNat?
  let gdef ← (← s.field1? "gdef").mapM? pPair
  let tops ← (← s.field1? "tops").mapM? pTop
  some ({ gdef := gdef, tops := tops }, n)

/-! tables -/

def pRecs : Sexp → Option (List (Nat × Nat))
  | .list (.atom "recs" :: rs) => rs.mapM pPair
  | _ => none

def pSeqRule : Sexp → Option OT.SeqRule
  | .list [b, i, l, r] => do some ⟨← pGlyphs b, ← pGlyphs i, ← pGlyphs l, ← pRecs r⟩
  | _ => none

def pRuleSet : Sexp → Option (Option (List OT.SeqRule))
  | .atom "none" => some none
  | s => some <$> s.mapM? pSeqRule

def pCovs (s : Sexp) : Option (List (List Glyph)) := s.mapM? pGlyphs

def pVal2 : Sexp → Option (Value × Value)
  | .list [a, b] => do some (← pValue a, ← pValue b)
  | _ => none

def pSubtable : Sexp → Option OT.Subtable
  | .list (.atom "single" :: ps) => OT.Subtable.single <$> ps.mapM pPair
  | .list (.atom "multiple" :: ps) => OT.Subtable.multiple <$> ps.mapM fun
      | .list [g, xs] => do some (← g.asNat?, ← pGlyphs xs)
      | _ => none
  | .list (.atom "alternate" :: ps) => OT.Subtable.alternate <$> ps.mapM fun
      | .list [g, xs] => do some (← g.asNat?, ← pGlyphs xs)
      | _ => none
  | .list (.atom "ligature" :: ps) => OT.Subtable.ligature <$> ps.mapM fun
      | .list [g, ligs] => do
        let ligs ← ligs.mapM? fun l => do
          match ← pGlyphs l with
          | lig :: comps => some (lig, comps)
          | [] => none
        some (← g.asNat?, ligs)
      | _ => none
  | .list (.atom "chain1" :: ps) => OT.Subtable.chain1 <$> ps.mapM fun
      | .list [g, set] => do some (← g.asNat?, ← pRuleSet set)
      | _ => none
  | .list [.atom "chain2", cov, b, i, l, sets] => do
    some (.chain2 (← pGlyphs cov) (← b.mapM? pPair) (← i.mapM? pPair) (← l.mapM? pPair) (← sets.mapM? pRuleSet))
  | .list [.atom "chain3", b, i, l, r] => do some (.chain3 (← pCovs b) (← pCovs i) (← pCovs l) (← pRecs r))
  | .list (.atom "spos" :: ps) => OT.Subtable.spos <$> ps.mapM fun
      | .list [g, v] => do some (← g.asNat?, ← pValue v)
      | _ => none
  | .list (.atom "ppos1" :: f1 :: f2 :: ps) => do
    let m ← ps.mapM fun
      | .list [g, set] => do
        let set ← set.mapM? fun
          | .list [g2, v1, v2] => do some (← g2.asNat?, ← pValue v1, ← pValue v2)
          | _ => none
        some (← g.asNat?, set)
      | _ => none
    some (.ppos1 (← f1.asNat?) (← f2.asNat?) m)
  | .list [.atom "ppos2", f1, f2, cov, cd1, cd2, rows] => do
    some (.ppos2 (← f1.asNat?) (← f2.asNat?) (← pGlyphs cov) (← cd1.mapM? pPair) (← cd2.mapM? pPair)
      (← rows.mapM? fun r => r.mapM? pVal2))
  | .list [.atom "other"] => some .other
  | _ => none

def pLookup : Sexp → Option OT.Lookup
  | .list [ty, flag, mfs, subs] => do
    let mfs ← match mfs with
      | .atom "none" => some none
      | m => some <$> m.asNat?
    some ⟨← ty.asNat?, ← flag.asNat?, mfs, ← subs.mapM? pSubtable⟩
  | _ => none

def pLangSys : Sexp → Option OT.LangSys
  | .list [r, fs] => do some ⟨← r.asNat?, ← pGlyphs fs⟩
  | _ => none

def pScript : Sexp → Option OT.Script
  | .list [tag, dflt, langs] => do
    let dflt ← match dflt with
      | .atom "none" => some none
      | d => some <$> pLangSys d
    let langs ← langs.mapM? fun
      | .list [t, l] => do some (← t.asString?, ← pLangSys l)
      | _ => none
    some ⟨← tag.asString?, dflt, langs⟩
  | _ => none

def pTable (s : List Sexp) : Option OT.Table := do
  let s := Sexp.list s
  let lookups ← (← s.field1? "lookups").mapM? pLookup
  let features ← (← s.field1? "features").mapM? fun
    | .list [t, ls] => do some (← t.asString?, ← pGlyphs ls)
    | _ => none
  let scripts ← (← s.field1? "scripts").mapM? pScript
  some ⟨lookups, features, scripts⟩

def pGdef (s : List Sexp) : Option OT.Gdef := do
  let s := Sexp.list s
  some ⟨← (← s.field1? "classes").mapM? pPair, ← (← s.field1? "attach").mapM? pPair, ← (← s.field1? "sets").mapM? pGlyphs⟩

def pTables (impl : Sexp) : Option OT.Tables := do
  some ⟨← pTable (← impl.field? "gsub"), ← pTable (← impl.field? "gpos"), ← pGdef (← impl.field? "gdef")⟩

/-! test strings -/

def gcGlyphs (xs : List GC) : List Glyph := xs.flatMap GC.glyphs

/-- glyphs a rule looks at, glyphs it produces -/
def ruleGlyphs : Rule → List Glyph × List Glyph
  | .single t r => (t.glyphs, r.glyphs)
  | .multiple t r => ([t], r)
  | .alternate t a => ([t], a)
  | .ligature ts r => (gcGlyphs ts, [r])
  | .chain b i l inl =>
    (gcGlyphs (i.map (·.1)) ++ gcGlyphs b ++ gcGlyphs l,
     match inl with | .single x => x.glyphs | .lig r => [r] | .multi rs => rs | .none => [])
  | .ignore alts => (alts.flatMap fun (b, i, l) => gcGlyphs i ++ gcGlyphs b ++ gcGlyphs l, [])
  | .spos t _ => (t.glyphs, [])
  | .ppos _ a b _ => (a.glyphs ++ b.glyphs, [])

def bodyRules (b : List BStmt) : List Rule := b.filterMap fun | .rule r => some r | _ => none

def programRules (p : Program) : List Rule :=
  p.tops.flatMap fun
    | .lookup _ b => bodyRules b
    | .feature _ b => b.flatMap fun
      | .rule r => [r]
      | .lookup _ b => bodyRules b
      | _ => []
    | _ => []

def programFlags (p : Program) : List Flag :=
  let bf (b : List BStmt) : List Flag := b.filterMap fun | .flag f => some f | _ => none
  p.tops.flatMap fun
    | .lookup _ b => bf b
    | .feature _ b => b.flatMap fun
      | .flag f => [f]
      | .lookup _ b => bf b
      | _ => []
    | _ => []

/-- all strings over `alpha` of length ≤ n -/
def stringsUpTo (alpha : List Glyph) : Nat → List (List Glyph)
  | 0 => [[]]
  | n + 1 =>
    let shorter := stringsUpTo alpha n
    [] :: alpha.flatMap fun g => shorter.map (g :: ·)

def showGlyphs (names : List String) (s : List Glyph) : String :=
  " ".intercalate (s.map fun g => names.getD g s!"#{g}")

def showP (names : List String) (s : List PGlyph) : String :=
  " ".intercalate (s.map fun (g, v) =>
    let n := names.getD g s!"#{g}"
    if v == Value.zero then n else s!"{n}<{v.xp},{v.yp},{v.xa},{v.ya}>")

structure Combo where
  script : Tag
  lang : Tag
  feats : List Tag
  alt : Nat
  deriving Repr

/-- first string on which the two shapers differ -/
def firstDiff (f g : Combo → List Glyph → List PGlyph) (c : Combo) : List (List Glyph) → Option (List Glyph)
  | [] => none
  | s :: rest => if f c s == g c s then firstDiff f g c rest else some s

def firstDiffAll (f g : Combo → List Glyph → List PGlyph) : List (Combo × List (List Glyph)) → Option (Combo × List Glyph)
  | [] => none
  | (c, ss) :: rest =>
    match firstDiff f g c ss with
    | some s => some (c, s)
    | none => firstDiffAll f g rest

def handle : Handler := fun s =>
  let r : Option Verdict := do
    let (p, nglyphs) ← pProgram (Sexp.list (← s.field? "prog"))
    let names ← (← (Sexp.list (← s.field? "prog")).field1? "names").mapM? Sexp.asString?
    let rand ← (← s.field1? "rand").mapM? pGlyphs
    let impl := Sexp.list (← s.field? "impl")
    let status ← (← impl.field1? "status").asAtom?
    let rules := programRules p
    let kinds := (rules.map Rule.kind).eraseDups
    let ktags := kinds.map fun k => match k with
      | .single => "single" | .multiple => "multiple" | .alternate => "alternate" | .ligature => "ligature"
      | .chain => "chain" | .spos => "spos" | .ppos => "ppos"
    let flags := programFlags p
    let ftags :=
      (if flags.any (·.im) then ["ignoremarks"] else []) ++ (if flags.any (fun f => f.ib || f.il) then ["ignorebaselig"] else []) ++
      (if flags.any (·.attach.isSome) then ["markattach"] else []) ++ (if flags.any (·.filter.isSome) then ["markfilter"] else [])
    let hasScript := p.tops.any fun | .feature _ b => b.any (fun | .script _ => true | .language .. => true | _ => false) | _ => false
    let hasNamed := p.tops.any fun | .lookup .. => true | .feature _ b => b.any (fun | .lookup .. => true | .ref _ => true | _ => false) | _ => false
    let tags := ktags ++ ftags ++ (if hasScript then ["scriptlang"] else []) ++ (if hasNamed then ["named"] else []) ++
      (if p.gdef.isEmpty then ["nogdef"] else [])
    if status != "ok" then
      let msg := ((impl.field1? "msg").bind Sexp.asString?).getD ""
      let msg := (msg.replace "\n" " | ").take 400
      some { corr := none, oracle := some false, nontrivial := true, cls := "valid-fea-rejected", tags := tags ++ [status],
             detail := s!"real compiler rejected the program: {msg}" }
    else
    let t ← pTables impl
    -- alphabets
    let looked := (rules.flatMap fun r => (ruleGlyphs r).1).eraseDups
    let produced := ((rules.flatMap fun r => (ruleGlyphs r).2).eraseDups).filter (!looked.contains ·)
    let marks := (p.gdef.filter (·.2 == 3)).map (·.1)
    let fresh := ((List.range nglyphs).filter fun g => g != 0 && !looked.contains g && !produced.contains g && !marks.contains g).take 1
    let alphaBig := ((looked.take 9) ++ (marks.filter (!looked.contains ·)).take 1 ++ produced.take 1 ++ fresh).eraseDups
    let alphaSmall := (looked.take 4 ++ (marks.filter fun m => !(looked.take 4).contains m).take 1).eraseDups
    let full := (stringsUpTo alphaBig 3 ++ (stringsUpTo alphaSmall 4).filter (·.length == 4) ++ rand)
    let short := stringsUpTo alphaBig 2 ++ rand
    -- script / language / feature combinations
    let featTags := (p.tops.filterMap fun | .feature t _ => some t | _ => none).eraseDups
    let pairs := (p.tops.flatMap fun
      | .feature _ b => Src.allPairs (Src.langsysOf p.tops) b
      | _ => []).eraseDups
    let pairs := if pairs.isEmpty then Src.langsysOf p.tops else pairs
    let hasAlt := kinds.contains .alternate
    let combos : List (Combo × List (List Glyph)) :=
      pairs.zipIdx.flatMap fun ((sc, lg), i) =>
        [(⟨sc, lg, featTags, 0⟩, if i == 0 then full else short)] ++
        (if featTags.length > 1 then featTags.map fun f => (⟨sc, lg, [f], 0⟩, short) else []) ++
        (if hasAlt then [(⟨sc, lg, featTags, 1⟩, short), (⟨sc, lg, featTags, 2⟩, short)] else [])
    -- a language for which the source registers nothing in a table has no LangSys record there
    -- (fea-rs drops empty features) and a client falls back to the script default: outside the claim
    let regG (c : Combo) : Bool := c.lang == "dflt" || Src.registersAny p false c.script c.lang
    let regP (c : Combo) : Bool := c.lang == "dflt" || Src.registersAny p true c.script c.lang
    let skipped := combos.filter fun (c, _) => !regG c
    let glyphsOnly := combos.any fun (c, _) => regG c && !regP c
    let combos := combos.filter fun (c, _) => regG c
    let view (c : Combo) (r : List PGlyph) : List PGlyph := if regP c then r else r.map fun (g, _) => (g, Value.zero)
    let nStrings := combos.foldl (fun n c => n + c.2.length) 0
    let fReal : Combo → List Glyph → List PGlyph := fun c s => view c (shape t c.script c.lang c.feats c.alt s)
    let fSrc : Combo → List Glyph → List PGlyph := fun c s => view c (interp p c.script c.lang c.feats c.alt s)
    let diff := firstDiffAll fReal fSrc combos
    let oracle := diff.isNone
    -- the model of the compiler against the real compiler: behaviour, and (advisory) structure
    let tm := compile p
    let fModel : Combo → List Glyph → List PGlyph := fun c s => view c (shape tm c.script c.lang c.feats c.alt s)
    let mdiff := firstDiffAll fReal fModel combos
    let corr := mdiff.isNone
    let stags :=
      (if tm.gsub.lookups.length == t.gsub.lookups.length && tm.gpos.lookups.length == t.gpos.lookups.length
        then [] else ["struct-lookup-count"]) ++
      (if tm.gsub.lookups.map (fun l => (l.ty, l.flag, l.markFilteringSet)) == t.gsub.lookups.map (fun l => (l.ty, l.flag, l.markFilteringSet))
          && tm.gpos.lookups.map (fun l => (l.ty, l.flag, l.markFilteringSet)) == t.gpos.lookups.map (fun l => (l.ty, l.flag, l.markFilteringSet))
        then [] else ["struct-lookup-headers"]) ++
      (if tm.gsub.features == t.gsub.features && tm.gpos.features == t.gpos.features then [] else ["struct-features"]) ++
      (if tm.gsub.scripts == t.gsub.scripts && tm.gpos.scripts == t.gpos.scripts then [] else ["struct-scripts"]) ++
      (if tm.gdef == t.gdef then [] else ["struct-gdef"]) ++
      (if tm.gsub.lookups == t.gsub.lookups && tm.gpos.lookups == t.gpos.lookups then ["struct-lookups-identical"] else ["struct-subtables"])
    let changed := combos.any fun (c, ss) => ss.any fun s => fSrc c s != s.map (·, Value.zero)
    let mdetail := match mdiff with
      | none => ""
      | some (c, str) =>
        s!" MODEL-VS-REAL script={c.script} lang={c.lang} feats={c.feats} alt={c.alt} string=[{showGlyphs names str}] model-tables=[{showP names (fModel c str)}] real-tables=[{showP names (fReal c str)}]"
    let detail := match diff with
      | none => ""
      | some (c, str) =>
        let fea := (((s.field1? "fea").bind Sexp.asString?).getD "").replace "\n" " ⏎ "
        s!"script={c.script} lang={c.lang} feats={c.feats} alt={c.alt} string=[{showGlyphs names str}] source-semantics=[{showP names (fSrc c str)}] compiled-tables=[{showP names (fReal c str)}] fea={fea}"
    -- the modelled subset, and attribution of a failure to one of the known defects of the anonymous
    -- lookups: the failure is theirs iff the model with that defect repaired agrees with the source
    let wf := Wf.violations p
    let fixedAgrees (fx : Cmp.Fixes) : Bool :=
      let tf := compileWith fx p
      (firstDiffAll (fun c s => view c (shape tf c.script c.lang c.feats c.alt s)) fSrc combos).isNone
    -- the real compiler behaves like the model with one of the repairs of the anonymous lookups undone
    let realLike (fx : Cmp.Fixes) : Bool :=
      let tf := compileWith fx p
      (firstDiffAll (fun c s => view c (shape tf c.script c.lang c.feats c.alt s)) fReal combos).isNone
    let attribution : String :=
      if oracle then ""
      else if !corr && realLike { anonLig := true, anonLigPrefix := true } then "anon-single-clobber"
      else if !corr && realLike { anonSingle := true, anonLigPrefix := true } then "anon-lig-split"
      else if !corr && realLike { anonSingle := true, anonLig := true } then "anon-lig-pooled-longer"
      else if !corr && realLike {} then "anon-several-defects"
      else if fixedAgrees Cmp.Fixes.all && !corr then "shape-differs-from-source-semantics"
      else
        -- programs outside the modelled subset (only the advisory stream generates them)
        match wf.filter (fun w => !w.startsWith "anon-") with
        | w :: _ => "outside-subset-" ++ w
        | [] => "shape-differs-from-source-semantics"
    let wtags := (if wf.isEmpty then ["in-subset"] else wf.map ("outside-" ++ ·)) ++
      (if skipped.isEmpty then [] else ["lang-unregistered-skipped"]) ++ (if glyphsOnly then ["lang-unregistered-gpos"] else [])
    let detail := if !corr && detail.isEmpty then
        mdetail ++ " fea=" ++ ((((s.field1? "fea").bind Sexp.asString?).getD "").replace "\n" " ⏎ ")
      else detail ++ mdetail
    -- a program the generator let slip outside the modelled subset (e.g. a repeated identical `lookupflag` statement does
    -- not start a new lookup, so a glyph is targeted twice in one lookup: fea-rs, like fontTools, lets the last rule win)
    -- is not covered by the claim: the behavioural comparison with the rule-by-rule source semantics is not applicable
    -- there (the model-vs-real correspondence still is)
    let outside := !oracle && attribution.startsWith "outside-subset-"
    some { corr := some corr, oracle := if outside then none else some oracle, nontrivial := changed && rules.length ≥ 2,
           cls := if outside then "" else if !oracle then attribution else if !corr then "model-differs-from-real" else "",
           tags := tags ++ wtags ++ stags ++ [s!"strings{nStrings / 1000}k"] ++ (if outside then ["outside-subset-not-judged"] else []),
           detail := detail }
  r.getD (badInput "c11: cannot parse case")

end Fontc.Driver.C11
