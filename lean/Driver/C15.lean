/-
  Driver for C15 (bad input ends in a reported error, never a crash, hang or bogus font).

    stream c15graph : (kind w) (graph ((xname (xcomp…))…)) (skip (x…)) (mixed (x…)) (flags none|bits)
                      (impl (sorted (x…)) (sorted_pruned (x…))) (millis n) (outcome …) [(font x…) (rf …)]
    stream c15mut   : (source x…) (muts ((kind xfile xdetail)…)) (millis n) (outcome …) [(font x…) (rf …)]
    stream c15corpus: (source x…) (millis n) (outcome …) [(font x…) (rf …)]      minimised reproducers (corpus/c15)
    (outcome (kind exit|signal|timeout) (code n) (font_written b) (stderr_empty b) (caught_panic b)
             (stack_overflow b) (alloc_failed b) (msg x…))

  The real compiler ran in a child process under a wall-clock limit, an address-space limit and the default 8 MB
  stack; the harness only reports what the operating system saw.

  corr   : c15graph — the real `fontdrasil::util::depth_sorted_composite_glyphs` (called in-process on the raw and on
           the pruned graph) returns exactly the order of the model `depthSort`; and, when the child exited normally,
           "the model's gate `rejectCycles` says cyclic" ⇔ "the compiler reported an error".
  oracle : the property itself on the child's outcome: exit 0 with a font that passes C05's whole-font checker
           (`Driver.C05.checkFontFields`), or exit 1 with a diagnostic and no font file; never a signal, a timeout,
           an uncaught panic (101) or any other exit code.
  failure classes: component-cycle-crash / component-cycle-hang / cycle-accepted-bogus-font (defect F1: no cycle check),
           panic-exit:<source file of the panic>, crash-signal, memory-exhausted, timeout, ok-but-malformed-font,
           ok-but-no-font, error-but-font-written, error-without-diagnostic, unexpected-exit-code, valid-source-rejected.
           A panic caught by the workload and reported as `Error::Panic` (exit 1, no font) passes, tagged `caught-panic`.
-/
import Driver.Common
import Driver.C05
import FontcModel.CompGraph

namespace Fontc.Driver.C15
open Fontc Fontc.Driver Fontc.CompGraph

structure Outcome where
  kind : String
  code : Int
  fontWritten : Bool
  stderrEmpty : Bool
  caughtPanic : Bool
  stackOverflow : Bool
  allocFailed : Bool
  msg : String

def asBool? (s : Sexp) : Option Bool :=
  match s with
  | .atom "true" => some true
  | .atom "false" => some false
  | _ => none

def parseOutcome (s : Sexp) : Option Outcome := do
  let o := Sexp.list (← s.field? "outcome")
  let kind ← (← o.field1? "kind").asAtom?
  let code ← (← o.field1? "code").asInt?
  let fw ← asBool? (← o.field1? "font_written")
  let se ← asBool? (← o.field1? "stderr_empty")
  let cp ← asBool? (← o.field1? "caught_panic")
  let so ← asBool? (← o.field1? "stack_overflow")
  let af ← asBool? (← o.field1? "alloc_failed")
  let msg := ((o.field1? "msg").bind Sexp.asString?).getD ""
  some ⟨kind, code, fw, se, cp, so, af, msg⟩

def sanitize (s : String) : String :=
  s.map fun c => if c.isAlphanum || c == '-' || c == '_' || c == '.' || c == ':' || c == '/' then c else '_'

/-- short stable word for the kind of diagnostic: the text after `error: ` up to the first quote/colon -/
def errWord (msg : String) : String :=
  let body := match msg.splitOn "error: " with
    | _ :: b :: _ => b
    | _ => msg
  let cut := (body.takeWhile fun c => c != '\'' && c != ':' && c != '|' && c != '/').toString
  sanitize ((cut.trimAscii.toString.take 32).toString)

/-- `…panicked at /repo/glyphs-reader/src/font.rs:2049:41:` ↦ `glyphs-reader/src/font.rs` (line numbers are not stable) -/
def panicSite (msg : String) : String :=
  match msg.splitOn "panicked at " with
  | _ :: rest :: _ =>
    let path := (rest.takeWhile fun c => c != ':' && c != ' ' && c != ',').toString
    let rel := match path.splitOn "/repo/" with
      | _ :: r :: _ => r
      | _ => "/".intercalate ((path.splitOn "/").reverse.take 3).reverse
    sanitize rel
  | _ => "unknown"

structure Judged where
  /-- `none` = harness fault (the child could not be started) -/
  oracle : Option Bool
  cls : String := ""
  /-- ok | error | signalN | timeout | exitN -/
  word : String
  tags : List String := []
  detail : String := ""

/-- The property as a predicate on what the operating system reported (+ C05's checker on the font). -/
def judge (s : Sexp) (o : Outcome) : Judged :=
  if o.kind == "timeout" then { oracle := some false, cls := "timeout", word := "timeout" }
  else if o.kind == "signal" then
    { oracle := some false, cls := if o.allocFailed then "memory-exhausted" else "crash-signal", word := s!"signal{o.code}",
      tags := (if o.stackOverflow then ["stack-overflow"] else []) ++ (if o.allocFailed then ["alloc-failed"] else []),
      detail := o.msg }
  else if o.kind != "exit" then { oracle := none, cls := "harness", word := "harness", detail := "unknown outcome kind" }
  else if o.code == 126 || o.code == 127 then { oracle := none, cls := "harness", word := "harness", detail := o.msg }
  else if o.code == 0 then
    if !o.fontWritten then { oracle := some false, cls := "ok-but-no-font", word := "ok" }
    else match C05.checkFontFields s with
      | none => { oracle := none, cls := "harness", word := "harness", detail := "cannot parse font fields" }
      | some v =>
        if v.ok then { oracle := some true, word := "ok", tags := if v.parsersAgree then [] else ["parser-disagreement"] }
        else { oracle := some false, cls := "ok-but-malformed-font", word := "ok", detail := v.cls ++ " " ++ v.detail }
  else if o.code == 1 then
    if o.fontWritten then { oracle := some false, cls := "error-but-font-written", word := "error", detail := o.msg }
    else if o.stderrEmpty then { oracle := some false, cls := "error-without-diagnostic", word := "error" }
    else { oracle := some true, word := "error",
           tags := (if o.caughtPanic then ["caught-panic"] else []) ++ ["err:" ++ errWord o.msg],
           detail := if o.caughtPanic then o.msg else "" }
  else if o.code == 101 then { oracle := some false, cls := "panic-exit:" ++ panicSite o.msg, word := "exit101", detail := o.msg }
  else { oracle := some false, cls := "unexpected-exit-code", word := s!"exit{o.code}", detail := o.msg }

/-- one text line: control characters out -/
def cleanDetail (d : String) : String := d.map fun c => if c.toNat < 32 || c.toNat == 127 then ' ' else c

def strLt (a b : String) : Bool := decide (a < b)

def parseGraph (s : Sexp) : Option (Graph String) :=
  s.mapM? fun e =>
    match e with
    | .list [n, cs] => do some (← n.asString?, ← cs.mapM? Sexp.asString?)
    | _ => none

def flagWord (s : Sexp) : String :=
  match (s.field1? "flags").bind Sexp.asNat? with
  | none => "flags-default"
  | some b =>
    if b &&& 0x100 != 0 then "flags-decompose" else if b &&& 0x8 != 0 then "flags-flatten"
    else if b &&& 0x10 != 0 then "flags-decompose-transformed" else "flags-other"

/-- nesting depth of the deepest placed glyph -/
def maxDepth (g : Graph String) : Nat := (depthSort strLt g).placed.foldl (fun a e => max a e.2) 0

def handleGraph : Handler := fun s =>
  let r : Option Verdict := do
    let g ← parseGraph (← s.field1? "graph")
    let kind ← (← s.field1? "kind").asAtom?
    let skip ← (← s.field1? "skip").mapM? Sexp.asString?
    let impl := Sexp.list (← s.field? "impl")
    let iSorted ← (← impl.field1? "sorted").mapM? Sexp.asString?
    let iSortedPruned ← (← impl.field1? "sorted_pruned").mapM? Sexp.asString?
    let o ← parseOutcome s
    let pg := prune g
    let sortAgree := depthSortNames strLt g == iSorted && depthSortNames strLt pg == iSortedPruned
    let cyclic := rejectCycles g
    let j := judge s o
    let leftover := (depthSort strLt pg).leftover
    let tags := ["kind:" ++ kind, if cyclic then "cyclic" else "acyclic", "out:" ++ j.word, flagWord s] ++
      (if pg != g then ["dangling"] else []) ++ (if skip.isEmpty then [] else ["nonexport"]) ++
      (if cyclic then [s!"leftover{leftover.length}"] else [s!"depth{maxDepth pg}"]) ++ j.tags
    let nt := cyclic || maxDepth pg ≥ 2
    match j.oracle with
    | none => some (badInput ("c15graph: " ++ j.detail))
    | some passed =>
      -- refine the verdict with what the model says about the graph
      let (oracle, cls) :=
        if cyclic then
          if o.kind == "signal" then (false, "component-cycle-crash")
          else if o.kind == "timeout" then (false, "component-cycle-hang")
          else if j.word == "ok" then (false, "cycle-accepted-bogus-font")
          else (passed, j.cls)
        else if passed && j.word == "error" then (false, "valid-source-rejected")
        else (passed, j.cls)
      let predicted := if o.kind == "exit" && (o.code == 0 || o.code == 1) then cyclic == (o.code == 1) else true
      let corrCls := if !sortAgree then "depth-sort-differs-from-model" else if !predicted then "gate-prediction-differs" else ""
      let detail := if !sortAgree then s!"model={depthSortNames strLt g}/{depthSortNames strLt pg} impl={iSorted}/{iSortedPruned}"
        else if cyclic && j.word == "ok" then (if passed then "the font itself passes the whole-font checker" else j.cls ++ " " ++ j.detail)
        else j.detail
      some { corr := some (sortAgree && predicted), oracle := some oracle, nontrivial := nt,
             cls := if oracle then corrCls else cls, tags, detail := sanitizeDetail detail }
  r.getD (badInput "c15graph: cannot parse case")
where
  sanitizeDetail (d : String) : String := cleanDetail d

def parseMuts (s : Sexp) : Option (List (String × String × String)) :=
  s.mapM? fun e =>
    match e with
    | .list [k, f, d] => do some (← k.asAtom?, ← f.asString?, ← d.asString?)
    | _ => none

def handleMut : Handler := fun s =>
  let r : Option Verdict := do
    let source ← (← s.field1? "source").asString?
    let muts ← parseMuts (← s.field1? "muts")
    let o ← parseOutcome s
    let j := judge s o
    let kinds := (muts.map (·.1)).eraseDups
    let cycleMut := kinds.contains "comp-cycle"
    let tags := ["src:" ++ sanitize source, "out:" ++ j.word, s!"muts{muts.length}"] ++ kinds.map ("mut:" ++ ·) ++ j.tags
    match j.oracle with
    | none => some (badInput ("c15mut: " ++ j.detail))
    | some passed =>
      let (oracle, cls) :=
        if cycleMut && o.kind == "signal" then (false, "component-cycle-crash")
        else if cycleMut && o.kind == "timeout" then (false, "component-cycle-hang")
        else if muts.isEmpty && passed && j.word == "error" then (false, "valid-source-rejected")
        else (passed, j.cls)
      let what := "; ".intercalate (muts.map fun (k, f, d) => s!"{k} {f} [{d}]")
      let detail := if oracle && !o.caughtPanic then "" else s!"{source}: {what} => {j.word} {j.detail}"
      some { corr := if muts.isEmpty then some (j.word == "ok") else none, oracle := some oracle, nontrivial := !muts.isEmpty,
             cls, tags, detail := cleanDetail detail }
  r.getD (badInput "c15mut: cannot parse case")

/-- c15corpus: minimised reproducers of past findings (/verif/corpus/c15) and sources of the repo's own testdata that
    are known to end badly. Oracle: the property on the child's outcome; a reproducer named `component-cycle…` is F1. -/
def handleCorpus : Handler := fun s =>
  let r : Option Verdict := do
    let source ← (← s.field1? "source").asString?
    let o ← parseOutcome s
    let j := judge s o
    let cycle := source.startsWith "component-cycle"
    match j.oracle with
    | none => some (badInput ("c15corpus: " ++ j.detail))
    | some passed =>
      let cls :=
        if cycle && o.kind == "signal" then "component-cycle-crash"
        else if cycle && o.kind == "timeout" then "component-cycle-hang"
        else if cycle && j.word == "ok" then "cycle-accepted-bogus-font"
        else j.cls
      let oracle := passed && !(cycle && j.word == "ok")
      some { corr := none, oracle := some oracle, nontrivial := true, cls,
             tags := ["src:" ++ sanitize source, "out:" ++ j.word] ++ j.tags,
             detail := cleanDetail (if oracle && !o.caughtPanic then "" else s!"{source} => {j.word} {j.detail}") }
  r.getD (badInput "c15corpus: cannot parse case")

end Fontc.Driver.C15
