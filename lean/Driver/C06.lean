import Driver.Common
import FontcModel.E2E
import FontcModel.GlyphOrder

/-!
  C06 drivers.
    c06       : ufo2fontir `glyph_order` vs `ufoGlyphOrder`; oracle = the ordering property on the implementation's output
    c06glyphs : glyphs-reader `make_glyph_order` (through `Font::load`) vs `glyphsMakeOrder`
    c06e2e    : real fonts; model = `finalOrder` / `buildCmap` / `postNames`; oracle = the property read off the
                font (post names, cmap pairs, glyf components, maxp.numGlyphs), written from the property text,
                not from the pipeline model.
-/
namespace Fontc.Driver.C06
open Fontc Fontc.E2E Fontc.GlyphOrder Fontc.Driver

/-! ### shared spec helpers (independent of the model: written from the property statement) -/

/-- first occurrences, in order -/
def firstOcc : List String → List String
  | [] => []
  | x :: xs => x :: (firstOcc xs).filter (· ≠ x)

def strictlySorted : List String → Bool
  | a :: b :: rest => decide (a < b) && strictlySorted (b :: rest)
  | _ => true

def nodup (xs : List String) : Bool :=
  match xs with
  | [] => true
  | x :: rest => !rest.contains x && nodup rest

def sameMembers (a b : List String) : Bool := a.all (b.contains ·) && b.all (a.contains ·)

/-- the property: `order` = declared names that exist (first occurrences, declared order), then the rest ascending -/
def orderSpecHolds (declared names order : List String) : Bool × String :=
  let d := firstOcc (declared.filter (names.contains ·))
  if !(nodup order && sameMembers order names && order.length == names.length) then (false, "not-a-permutation")
  else if order.take d.length != d then (false, "declared-prefix")
  else
    let rest := order.drop d.length
    if !strictlySorted rest then (false, "rest-not-sorted") else (true, "")

def parseDeclared (s : Sexp) : Option (Option (List (Option String))) :=
  match s with
  | .atom "absent" => some none
  | .atom "notarray" => some none
  | .list es => do
    let xs ← es.mapM fun e =>
      match e with
      | .list [.atom "s", h] => do some (some (← h.asString?))
      | .list [.atom "i", _] => some none
      | _ => none
    some (some xs)
  | _ => none

def handle : Handler := fun s =>
  let r : Option Verdict := do
    let names ← (← s.field1? "names").mapM? Sexp.asString?
    let dRaw ← s.field1? "declared"
    let declared ← parseDeclared dRaw
    let impl := Sexp.list (← s.field? "impl")
    match impl.field1? "order" with
    | none => some { corr := some false, oracle := some false, cls := "glyph-order-error" }
    | some o => do
      let iOrder ← o.mapM? Sexp.asString?
      let model := ufoGlyphOrder declared names
      let corr := model == iOrder
      let declNames := (declared.getD []).filterMap id
      let (ok, why) := orderSpecHolds declNames names iOrder
      let known := declNames.filter (names.contains ·)
      let tags :=
        [match dRaw with | .atom a => a | _ => "array"] ++
        (if names.isEmpty then ["empty-set"] else []) ++
        (if !nodup declNames then ["dups"] else []) ++
        (if declNames.any (!names.contains ·) then ["unknown"] else []) ++
        (if (declared.getD []).any Option.isNone then ["nonstring"] else []) ++
        (if !names.contains notdef then ["no-notdef"]
         else if declNames.head? == some notdef then ["notdef-first"]
         else if declNames.contains notdef then ["notdef-misplaced"] else ["notdef-undeclared"]) ++
        (if names.any (fun n => n.toList.any (·.toNat ≥ 128)) then ["non-ascii"] else [])
      let nt := names.length ≥ 3 && (firstOcc known).length ≥ 2 && names.length - (firstOcc known).length ≥ 2
      some { corr := some corr, oracle := some ok, nontrivial := nt, tags,
             cls := if !ok then why else if !corr then "glyph-order-differs" else "",
             detail := if corr then "" else s!"model={model} impl={iOrder}" }
  r.getD (badInput "c06: cannot parse case")

/-! ### c06glyphs -/

def handleGlyphs : Handler := fun s =>
  let r : Option Verdict := do
    let file ← (← s.field1? "file").mapM? Sexp.asString?
    let custom ← match ← s.field1? "custom" with
      | .atom "none" => some none
      | c => some <$> c.mapM? Sexp.asString?
    let impl := Sexp.list (← s.field? "impl")
    match impl.field1? "order" with
    | none => some { corr := none, oracle := some false, cls := "valid-source-rejected",
                     detail := ((impl.field1? "err").bind Sexp.asString?).getD "" }
    | some o => do
      let iOrder ← o.mapM? Sexp.asString?
      let model := glyphsMakeOrder custom file
      let corr := model == iOrder
      -- property: custom names that exist (first occurrences) first, the rest in file order
      let d := firstOcc ((custom.getD []).filter (file.contains ·))
      let ok := nodup iOrder && sameMembers iOrder file && iOrder.take d.length == d &&
        iOrder.drop d.length == file.filter (!d.contains ·) &&
        glyphsGlyphOrder custom file == iOrder
      let tags := (if custom.isNone then ["no-custom"] else ["custom"]) ++
        (if !nodup (custom.getD []) then ["dups"] else []) ++
        (if (custom.getD []).any (!file.contains ·) then ["unknown"] else [])
      some { corr := some corr, oracle := some ok, nontrivial := file.length ≥ 3 && d.length ≥ 2, tags,
             cls := if !ok then "glyphs-order-property" else if !corr then "glyphs-order-differs" else "",
             detail := if corr then "" else s!"model={model} impl={iOrder}" }
  r.getD (badInput "c06glyphs: cannot parse case")

/-! ### c06e2e -/

def srcGlyphs (d : Design) : List Glyph :=
  let dm := d.masters.getD d.default default
  dm.glyphs.map fun g =>
    { name := g.name, exported := !d.skip.contains g.name,
      codepoints := (d.cps.lookup g.name).getD [],
      components := g.components.map (·.base),
      hasContours := !g.contours.isEmpty }

/-- The specification of inlining (what "non-export components are inlined" means, written recursively):
    (has contours, component names) of glyph `n` once every non-export component is replaced by its own content. -/
def inlined (gs : List Glyph) : Nat → String → Bool × List String
  | 0, _ => (false, [])
  | f + 1, n =>
    match gs.find? (·.name == n) with
    | none => (false, [])
    | some g =>
      g.components.foldl (fun (acc : Bool × List String) c =>
        match gs.find? (·.name == c) with
        | none => acc                               -- missing component: dropped
        | some cg =>
          if cg.exported then (acc.1, acc.2 ++ [c])
          else let (hc, cs) := inlined gs f c; (acc.1 || hc, acc.2 ++ cs)) (g.hasContours, [])

def isDigits (s : String) : Bool := !s.isEmpty && s.toList.all Char.isDigit

/-- `name = base ++ "." ++ digits` -/
def isSuffixedOf (base name : String) : Bool :=
  name.startsWith (base ++ ".") && isDigits (String.ofList (name.toList.drop (base.length + 1)))

structure E2EIn where
  d : Design
  flags : Nat
  psnames : Option (List (String × String))
  conflict : Bool
  route : String

def parseIn (s : Sexp) : Option E2EIn := do
  let d ← parseDesign s
  let flags ← (← s.field1? "flags").asNat?
  let psnames ← match ← s.field1? "psnames" with
    | .atom "none" => some none
    | p => some <$> p.mapM? fun e =>
      match e with
      | .list [a, b] => do some ((← a.asString?), (← b.asString?))
      | _ => none
  let conflict := (← s.field1? "conflict") == .atom "true"
  let route ← (← s.field1? "route").asAtom?
  some { d, flags, psnames, conflict, route }

/-- decidable form of `TopoOk` (the hypothesis of `inlined_components_exported`) -/
def topoOkB (snap : Table) : List String → List String → Bool
  | _, [] => true
  | pre, n :: post =>
    ((snap.comps n).all fun c => snap.isExport c || pre.contains c || (snap.comps c).all snap.isExport) &&
      topoOkB snap (pre ++ [n]) post

def containsSub (hay needle : String) : Bool := (hay.splitOn needle).length > 1

def dedupPairs (xs : List (Nat × Nat)) : List (Nat × Nat) :=
  xs.foldl (fun acc x => if acc.contains x then acc else acc ++ [x]) []

def samePairs (a b : List (Nat × Nat)) : Bool := a.all (b.contains ·) && b.all (a.contains ·)

def handleE2E : Handler := fun s =>
  match parseIn s with
  | none => badInput "c06e2e: cannot parse case"
  | some inp =>
    let d := inp.d
    let gs := srcGlyphs d
    let names := gs.map (·.name)
    let preferSimple := inp.flags &&& 4 != 0
    let production := inp.flags &&& 128 != 0
    let rename := if production then inp.psnames else none
    let exported := gs.filter (·.exported)
    let expNames := exported.map (·.name)
    let declNames := d.order.getD []
    -- ---------------- model
    let prelim := ufoGlyphOrder (d.order.map (·.map some)) names
    let fin := finalOrder { glyphs := gs, prelim, preferSimple }
    let mCmap := fin.bind buildCmap
    -- hypothesis of `inlined_components_exported`, evaluated on this source
    let t0 := pruneMissing names (Table.ofList gs)
    let topo := topoOkB t0 [] (depthSorted names t0)
    -- ---------------- property-level expectations (independent of the pipeline model)
    let core := (firstOcc (declNames.filter (expNames.contains ·)) ++
      sortNames (expNames.filter (!declNames.contains ·))).filter (· ≠ notdef)
    let spec := notdef :: core
    let fuel := names.length + 1
    let mixed := core.filter fun n => let (hc, cs) := inlined gs fuel n; hc && !cs.isEmpty
    let notdefMixed := expNames.contains notdef && (let (hc, cs) := inlined gs fuel notdef; hc && !cs.isEmpty)
    let nDerived := if preferSimple then 0 else mixed.length + (if notdefMixed then 1 else 0)
    -- a codepoint claimed by two exported glyphs: the property is unsatisfiable, the build must be refused
    let cpConflict := exported.any fun a => exported.any fun b =>
      a.name != b.name && a.codepoints.any (b.codepoints.contains ·)
    let tags :=
      [s!"flags{inp.flags}", inp.route] ++
      (if rename.isSome then ["psnames"] else []) ++
      (if d.order.isNone then ["no-declared-order"] else []) ++
      (if !nodup declNames then ["declared-dups"] else []) ++
      (if declNames.any (!names.contains ·) then ["declared-unknown"] else []) ++
      (if !names.contains notdef then ["notdef-absent"]
       else if !expNames.contains notdef then ["notdef-nonexport"]
       else if declNames.head? == some notdef then ["notdef-first"]
       else if declNames.contains notdef then ["notdef-misplaced"] else ["notdef-undeclared"]) ++
      (if gs.any (fun g => g.exported && g.components.any fun c => names.contains c && !expNames.contains c) then ["nonexport-component"] else []) ++
      (if gs.any (fun g => !g.exported && !g.codepoints.isEmpty) then ["nonexport-codepoint"] else []) ++
      (if gs.any (fun g => g.codepoints.length ≥ 2) then ["multi-cp"] else []) ++
      (if gs.any (fun g => g.codepoints.any (· ≥ 0x10000)) then ["supplementary-cp"] else []) ++
      (if nDerived > 0 then ["derived"] else []) ++
      (if topo then [] else ["TOPO-HYPOTHESIS-FALSE"]) ++
      (if cpConflict then ["cp-conflict"] else []) ++
      (match fin, s.field? "result" with
       | some fo, some (.atom "ok" :: _) =>
         if allCompiled { glyphs := gs, prelim, preferSimple } fo then [] else ["shadow-compiled-by-schedule"]
       | _, _ => [])
    let nt := expNames.length ≥ 3 && expNames.length < names.length && d.order.isSome
    match s.field? "result" with
    | some (.atom "err" :: msg) =>
      let m := (msg.head?.bind Sexp.asString?).getD ""
      if cpConflict && containsSub m "Error making CMap" then
        -- excluded point: refused; the model refuses too
        { corr := some (fin.isSome && mCmap.isNone), oracle := some true, nontrivial := nt, tags,
          cls := if fin.isSome && mCmap.isNone then "" else "model-accepts-cp-conflict" }
      else if containsSub m "Fragment(" && containsSub m "is not available" then
        -- a glyph of the final order was never compiled. The model of the job set (`allCompiled`) predicts it.
        let mAll := fin.map (allCompiled { glyphs := gs, prelim, preferSimple })
        let shadow := gs.any fun g => !g.exported && containsSub m ("Fragment(" ++ g.name ++ ")")
        { corr := some (mAll == some false), oracle := some false, nontrivial := nt, tags,
          cls := if shadow then "made-glyph-shadows-nonexport-glyph" else "glyph-not-compiled", detail := m }
      else
        { corr := none, oracle := some false, nontrivial := nt, tags, cls := "valid-source-rejected", detail := m }
    | some (.atom "ok" :: _) =>
      match parseFont s with
      | none => badInput "c06e2e: cannot parse font dump"
      | some f =>
        let fnames := f.names
        let numGlyphs := f.maxp.getD 0 0
        -- ---------- correspondence
        let (corr, corrWhy) : Bool × String :=
          match fin, mCmap with
          | some fo, some cm =>
            let mPost := postNames rename fo.order
            if !topo then (false, "the depth-sorted order is not topological for non-export references")
            -- `allCompiled = false` (a made glyph carries the name of a non-exported source glyph, defect F-C06-1):
            -- since fix 9762529 the outcome depends on the schedule. If the completion of that glyph's IR job is
            -- handled before glyph order is launched, its back-end job is skipped and the build panics (the usual
            -- order); if it is handled after glyph order has started, the refinement is deferred, sees the made
            -- (exported) glyph and compiles it. The job-set model admits both outcomes; a successful build is
            -- compared like any other (tag `shadow-compiled-by-schedule`).
            else if mPost != fnames then (false, s!"post: model={mPost} font={fnames}")
            else if !samePairs (dedupPairs (cm.filter (·.2 != 0))) (f.cmap.filter (·.2 != 0)) then
              (false, s!"cmap: model={cm} font={f.cmap}")
            else
              let compsOk := fo.order.zipIdx.all fun (n, gid) =>
                let mc := (fo.table.comps n).map fun c => (fo.order.idxOf? c).getD 99999
                let fc := match f.glyf.getD gid .empty with
                  | .composite _ cs => cs.map (·.gid)
                  | _ => []
                mc == fc
              if !compsOk then (false, "components") else (true, "")
          | _, _ => (false, "model refuses, implementation builds")
        -- ---------- oracle
        let srcOf (gid : Nat) : Option String := spec[gid]?
        let checks : List (Bool × String × String) := [
          (cpConflict == false, "cp-conflict-accepted", "two exported glyphs share a codepoint and the build succeeded"),
          (numGlyphs == fnames.length, "numGlyphs-vs-post", s!"{numGlyphs} vs {fnames.length}"),
          (nodup fnames, "post-names-not-distinct", s!"{fnames}"),
          (numGlyphs == spec.length + nDerived, "glyph-count",
            s!"font has {numGlyphs} glyphs {fnames}, source exports {spec.length} (with .notdef) + {nDerived} derived"),
          -- gid 0 is .notdef and the exported glyphs follow in the declared-then-sorted order
          (match rename with
           | none => fnames.take spec.length == spec
           | some r =>
             (fnames.take spec.length).zipIdx.all fun (fname, i) =>
               let base := sanitize ((r.lookup (spec.getD i "")).getD (spec.getD i ""))
               if (fnames.take i).contains base then isSuffixedOf base fname else fname == base,
           "order", s!"font={fnames} expected={spec}"),
          -- derived glyphs: base.N of a glyph with contours and components, never the name of a source glyph
          ((fnames.drop spec.length).all fun fname =>
             rename.isSome || ((spec.any fun b => isSuffixedOf b fname)),
           "derived-name-form", s!"{fnames.drop spec.length}"),
          ((fnames.drop spec.length).all fun fname => rename.isSome || !names.contains fname,
           "derived-name-collides-with-source-glyph", s!"{(fnames.drop spec.length).filter (names.contains ·)}"),
          -- cmap: exactly the codepoints of exported glyphs, each to its glyph
          (let want : List (Nat × Nat) := exported.flatMap fun g =>
             match spec.idxOf? g.name with
             | some gid => g.codepoints.map fun cp => (cp, gid)
             | none => []
           samePairs (dedupPairs (want.filter (·.2 != 0))) (f.cmap.filter (·.2 != 0)) &&
           (f.cmap.all fun a => f.cmap.all fun b => a.1 != b.1 || a.2 == b.2),
           "cmap", s!"font={f.cmap}"),
          -- components: valid glyph ids, and exactly the exported glyphs that remain after inlining (+ the derived one)
          ((List.range numGlyphs).all fun gid =>
             match f.glyf.getD gid .empty with
             | .composite _ cs =>
               cs.all (·.gid < numGlyphs) &&
               (match srcOf gid with
                | some n =>
                  let (hc, want) := inlined gs fuel n
                  let got := cs.filterMap fun c => srcOf c.gid
                  let extra := cs.filter fun c => (srcOf c.gid).isNone
                  got == want && extra.length == (if hc && !preferSimple then 1 else 0)
                | none => false)     -- a derived glyph holds contours only
             | _ =>
               match srcOf gid with
               | some n => gid == 0 && !expNames.contains notdef ||
                   (let (hc, cs) := inlined gs fuel n; cs.isEmpty || (hc && preferSimple))
               | none => true,
           "components", "")
        ]
        let bad := checks.find? (!·.1)
        match bad with
        | some (_, cls, detail) =>
          { corr := some corr, oracle := some false, nontrivial := nt, cls, tags, detail := detail ++ " " ++ corrWhy }
        | none =>
          { corr := some corr, oracle := some true, nontrivial := nt, tags,
            cls := if corr then "" else "model-differs", detail := corrWhy }
    | _ => badInput "c06e2e: no result"

end Fontc.Driver.C06
