import Driver.Common

/-! Generic line loop shared by every driver executable. -/
namespace Fontc.Driver
open Fontc

def processLineWith (handlers : List (String × Handler)) (line : String) : String :=
  match Sexp.parse line with
  | some (.list (.atom stream :: .atom id :: rest)) =>
    match handlers.lookup stream with
    | some h => (h (.list rest)).render stream id
    | none => (badInput s!"unknown stream {stream}").render stream id
  | _ => (badInput "unparseable line").render "?" "?"

partial def loopWith (handlers : List (String × Handler)) (h : IO.FS.Stream) (out : IO.FS.Stream) : IO Unit := do
  let line ← h.getLine
  if line.isEmpty then return ()
  let t := line.trimAscii.toString
  if !t.isEmpty then
    out.putStrLn (processLineWith handlers t)
  loopWith handlers h out

def runDriver (handlers : List (String × Handler)) : IO Unit := do
  let stdin ← IO.getStdin
  let stdout ← IO.getStdout
  loopWith handlers stdin stdout

end Fontc.Driver
