/-
  Driver plumbing: every stream handler maps one parsed case to a `Verdict`.
  Output line:  <stream> <id> corr=<agree|DISAGREE|na> oracle=<pass|FAIL|na> nt=<0|1> [class=<c>] [detail]
-/
import FontcModel.Sexp

namespace Fontc.Driver
open Fontc

structure Verdict where
  /-- `none` = the stream has no model output to compare for this case. -/
  corr : Option Bool := none
  /-- `none` = the oracle does not apply to this case (e.g. the implementation rejected the input). -/
  oracle : Option Bool := none
  /-- is this case non-trivial by the stream's stated rule? -/
  nontrivial : Bool := false
  /-- classification of a failure, matched against known_findings.json -/
  cls : String := ""
  /-- features of the input, for the distribution histogram in the evidence -/
  tags : List String := []
  detail : String := ""

def Verdict.render (stream id : String) (v : Verdict) : String :=
  let c := match v.corr with | none => "na" | some true => "agree" | some false => "DISAGREE"
  let o := match v.oracle with | none => "na" | some true => "pass" | some false => "FAIL"
  let cls := if v.cls.isEmpty then "" else s!" class={v.cls}"
  let tags := if v.tags.isEmpty then "" else s!" tags={",".intercalate v.tags}"
  -- one verdict = one line: pretty-printed values inside a detail may contain line breaks
  let d := if v.detail.isEmpty then "" else s!" detail={(v.detail.replace "\n" " ").replace "\r" " "}"
  s!"{stream} {id} corr={c} oracle={o} nt={if v.nontrivial then 1 else 0}{cls}{tags}{d}"

def badInput (msg : String) : Verdict :=
  { corr := some false, oracle := none, cls := "driver-parse", detail := msg }

abbrev Handler := Sexp → Verdict

/-- |a - b| ≤ tol · max(1,|a|,|b|): float-vs-exact comparison used by advisory/numeric streams. -/
def ratClose (tol a b : Rat) : Bool :=
  let d := if a < b then b - a else a - b
  let ma := if a < 0 then -a else a
  let mb := if b < 0 then -b else b
  let m := if ma < mb then mb else ma
  let m := if m < 1 then 1 else m
  d ≤ tol * m

def tol40 : Rat := 1 / (2 ^ 40 : Nat)

end Fontc.Driver
