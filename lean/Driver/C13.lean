/-
  Driver for C13 (fea-rs front end).
    stream c13lex : (src x…) (gen w) (gm 0|1) (impl (status ok|panic|hang) (toks (Kind x… …)) (textlen n)
                    (diags ((L xfile start end srclen bs be class)…)) (fmt ok|(panic x…)) (validate …) (vdiags …) (compile …))
    stream c13inc : (shape w) (n k) (edges ((t…)…)) (lens (l…)) (stmts (((s e)…)…)) (impl (status …) (result tree|loaderr) …)

  corr   : boundaries of the real tree's tokens vs the Lean lexer (the parser may split a lexeme — only the
           documented kinds — and re-kinds many; kinds are advisory tags) / include errors vs the Lean model
           Systematic re-kindings observed (tags `rekind:<lexeme>><tree>`), all by `eat_remap`/`eat_tag` in the grammar:
             Ident > Tag | GlyphName | GlyphNameOrRange | Label | GlyphsNumberIdent | BaseKw | LigatureKw | …(contextual
             keywords the lexer does not know); MarkKw/NameKw/FlagKw > Tag; any keyword > GlyphName in glyph position;
             StringUnterminated > String and HexEmpty > Hex (with an error, parser.rs `validate_new_token`).
           Splits observed (tags `split:<lexeme>><tree>`): Path > Whitespace Path Whitespace; Ident > GlyphsNumberIdent |
             Hyphen | Slash | Number | Float inside `${…}`; Number/Float > Hyphen + Number/Float inside `${…}`;
             with a glyph map Ident > GlyphName Hyphen GlyphName (a range).  No gluing of lexemes occurs (`do_bump::<N>`
             is only used with N = 1).  The parser also pushes zero-length `Eof` tokens into the tree when it
             "eats" at the end of input, and — on a NUL byte — a 1-byte `Eof` token (tag eof-token-nonempty).
  oracle : the property on the implementation's output, independent of the model
-/
import Driver.Common
import FontcModel.FeaLex
import FontcModel.FeaInclude

namespace Fontc.Driver.C13
open Fontc Fontc.Driver Fontc.FeaLex

structure Tok where
  kind : String
  start : Nat
  stop : Nat
  deriving Repr

def toksOf (lexed : List (Kind × Nat)) : List Tok :=
  let rec go (ts : List (Kind × Nat)) (pos : Nat) (acc : List Tok) : List Tok :=
    match ts with
    | [] => acc.reverse
    | (k, n) :: rest => go rest (pos + n) (⟨k.name, pos, pos + n⟩ :: acc)
  go lexed 0 []

/-- the lexer of the unchanged tree -/
def modelToks (inp : Bytes) : List Tok := toksOf (lexAll inp)

/-- `(toks Kind xhex Kind xhex …)` -/
def parseToks : List Sexp → Option (List (String × List UInt8))
  | [] => some []
  | .atom k :: t :: rest => do
    let bs ← t.asBytes?
    let tl ← parseToks rest
    some ((k, bs) :: tl)
  | _ => none

/-- what the parser turns a lexeme kind into when it eats the token unchanged
    (parser.rs `validate_new_token`, lexeme.rs `to_token_kind`) -/
def eatenAs (k : String) : String :=
  if k == "StringUnterminated" then "String" else if k == "HexEmpty" then "Hex" else k

/-- lexeme kinds that the parser is known to split into several tree tokens:
    Path (grammar/mod.rs:100, whitespace trimmed off an include path), Number/Float with a leading `-` and Ident
    containing `-` or `/` inside `${…}` (grammar/metrics.rs:193, :227), and — only with a glyph map — Ident that
    is a range `a-z` of known glyphs (token_tree.rs `try_split_range`) -/
def splittable (k : String) : Bool := k == "Path" || k == "Ident" || k == "Number" || k == "Float"

structure Cmp where
  ok : Bool := true
  why : String := ""
  tags : List String := []

def addTag (c : Cmp) (t : String) : Cmp := if c.tags.contains t then c else { c with tags := t :: c.tags }

/-- walk both token lists up to byte `limit` -/
def compareToks : Nat → List Tok → List Tok → Nat → Cmp → Cmp
  | 0, _, _, _, c => { c with ok := false, why := "fuel" }
  | fuel + 1, ms, is, limit, c =>
    match ms, is with
    | [], _ => c                                   -- impl tokens past the model's last token are not compared
    | m :: _, [] => { c with ok := false, why := s!"impl has no token for model token {m.kind} {m.start}..{m.stop}" }
    | m :: ms', i :: is' =>
      if i.start == i.stop then compareToks fuel ms is' limit c        -- empty tokens (Eof at the real end)
      else if limit ≤ i.start then { c with ok := false, why := s!"impl tokens end at {i.start}, model token {m.kind} {m.start}..{m.stop} missing" }
      else if i.start < m.start || m.stop < i.stop then
        { c with ok := false, why := s!"impl token {i.kind} {i.start}..{i.stop} crosses model token {m.kind} {m.start}..{m.stop}" }
      else if i.start == m.start && i.stop == m.stop then
        let c := if eatenAs m.kind == i.kind then c else addTag c s!"rekind:{m.kind}>{i.kind}"
        compareToks fuel ms' is' limit c
      else
        -- a fragment of the model token
        let c := addTag c s!"split:{m.kind}>{i.kind}"
        let c := if splittable m.kind then c else
          { c with ok := false, why := s!"impl splits {m.kind} {m.start}..{m.stop} at {i.start}..{i.stop}" }
        if i.stop == m.stop then compareToks fuel ms' is' limit c else compareToks fuel ms is' limit c

def isCont (b : UInt8) : Bool := 0x80 ≤ b && b < 0xC0

/-- Rust `str::is_char_boundary` -/
def isCharBoundary (inp : Bytes) (p : Nat) : Bool :=
  p == 0 || p == inp.size || (p < inp.size && !isCont (inp.getD p 0))

/-- the token texts, concatenated, equal the input up to byte `n`; returns `n` -/
def matchPrefix (inp : Bytes) : List (String × List UInt8) → Nat → Option Nat
  | [], pos => some pos
  | (_, bs) :: rest, pos =>
    let rec eq (bs : List UInt8) (p : Nat) : Bool :=
      match bs with
      | [] => true
      | b :: bs' => p < inp.size && inp.getD p 0 == b && eq bs' (p + 1)
    if eq bs pos then matchPrefix inp rest (pos + bs.length) else none

structure Diag where
  level : String
  file : String
  start : Nat
  stop : Nat
  srclen : Int
  bs : Bool
  be : Bool
  cls : String

def parseDiag (s : Sexp) : Option Diag :=
  match s with
  | .list [l, f, a, b, n, bs, be, c] => do
    some { level := ← l.asAtom?, file := (← f.asString?), start := ← a.asNat?, stop := ← b.asNat?,
           srclen := ← n.asInt?, bs := (← bs.asAtom?) == "true", be := (← be.asAtom?) == "true", cls := ← c.asAtom? }
  | _ => none

/-- "" when the range is inside its source and on character boundaries, else the class of the failure -/
def diagFault (d : Diag) : String :=
  if d.srclen < 0 then "diag-no-source"
  else if d.stop < d.start then "diag-inverted"
  else if (d.srclen.toNat) < d.stop then
    -- the signature of `Parser::err_before_ws` / `warn_before_ws` (`pos..pos + 1`) at the end of the source
    (if d.start == d.srclen.toNat && d.stop == d.start + 1 then "diag-past-eof-by-one" else "diag-out-of-range")
  else if !d.bs || !d.be then
    -- the same `pos..pos + 1` where `pos` is a boundary and `pos + 1` is inside a multi-byte character
    (if d.bs && !d.be && d.stop == d.start + 1 then "diag-mid-char-by-one" else "diag-not-on-char-boundary")
  else ""

def firstFault (ds : List Diag) : String :=
  match ds.find? (fun d => diagFault d != "") with
  | some d => diagFault d
  | none => ""

def isPanic (s : Sexp) : Bool :=
  match s with
  | .list (.atom "panic" :: _) => true
  | _ => false

def stageWord (s : Sexp) : String :=
  match s with
  | .atom w => w
  | .list (.atom w :: _) => w
  | _ => "?"

def panicText (s : Sexp) : String :=
  match s with
  | .list (.atom "panic" :: m :: _) => (m.asString?).getD ""
  | _ => ""

/-- `file.rs:line` of a `(panic xmsg file.rs:line)` stage result -/
def panicLoc (s : Sexp) : String :=
  match s with
  | .list [.atom "panic", _, .atom l] => l
  | _ => "?"

/-- Is the tree exactly the input with extra `-` bytes dropped where `try_split_range` (token_tree.rs) split a
    `GlyphNameOrRange` into `GlyphName Hyphen GlyphName` (it strips *all* leading hyphens of the tail:
    `a--b` ↦ `a`,`-`,`b`)?  Returns the number of dropped bytes, `none` if the tree differs in any other way. -/
def droppedRangeHyphens (inp : Bytes) : List (String × List UInt8) → Nat → String → Nat → Option Nat
  | [], pos, _, dropped => if pos == inp.size then some dropped else none
  | (k, bs) :: rest, pos, prev, dropped =>
    let rec eq (bs : List UInt8) (p : Nat) : Bool :=
      match bs with
      | [] => true
      | b :: bs' => p < inp.size && inp.getD p 0 == b && eq bs' (p + 1)
    if !eq bs pos then none
    else
      let pos := pos + bs.length
      let nextIsGlyph := match rest with | (k2, _) :: _ => k2 == "GlyphName" | [] => false
      if k == "Hyphen" && prev == "GlyphName" && nextIsGlyph then
        -- skip the hyphens the split dropped
        let rec skip (fuel p n : Nat) : Nat × Nat :=
          match fuel with
          | 0 => (p, n)
          | fuel + 1 => if p < inp.size && inp.getD p 0 == 0x2D then skip fuel (p + 1) (n + 1) else (p, n)
        let (p', n) := skip (inp.size - pos) pos 0
        droppedRangeHyphens inp rest p' k (dropped + n)
      else droppedRangeHyphens inp rest pos k dropped

def handleLex : Handler := fun s =>
  let r : Option Verdict := do
    let srcL ← (← s.field1? "src").asBytes?
    let inp : Bytes := srcL.toArray
    let gen ← (← s.field1? "gen").asAtom?
    let gm ← (← s.field1? "gm").asNat?
    let impl := Sexp.list (← s.field? "impl")
    let status ← (← impl.field1? "status").asAtom?
    let nulPos := srcL.findIdx? (· == 0)
    let nonAscii := srcL.any (fun b => 0x80 ≤ b)
    let mToks := modelToks inp
    let baseTags := [s!"gen:{gen}", s!"gm{gm}"] ++ (if nulPos.isSome then ["nul"] else []) ++
      (if nonAscii then ["nonascii"] else [])
    let nt := mToks.length ≥ 5
    if status != "ok" then
      let msg := ((impl.field1? "panicmsg").bind Sexp.asString?).getD ""
      -- the class names the call site: where the panic was raised / the last keyword in front of the point at
      -- which the parser stops making progress (end of the shortest prefix that still hangs)
      let site :=
        if status == "panic" then ((impl.field1? "panicloc").bind Sexp.asAtom?).getD "?"
        else match (impl.field1? "hangprefix").bind Sexp.asNat? with
          | some n =>
            let kws := (toksOf (lexAllFixed inp)).filter (fun t => t.start < n && t.kind.endsWith "Kw")
            (match kws.getLast? with | some t => t.kind | none => "none")
          | none => "?"
      some { corr := none, oracle := some false, nontrivial := nt, cls := s!"parse-{status}@{site}", tags := baseTags,
             detail := msg }
    else
    let toks ← parseToks (← (← impl.field1? "toks").asList?)
    let textlen ← (← impl.field1? "textlen").asNat?
    let diags ← (← impl.field1? "diags").mapM? parseDiag
    let vdiags ← (← impl.field1? "vdiags").mapM? parseDiag
    let fmt ← impl.field1? "fmt"
    let validate ← impl.field1? "validate"
    let compile ← impl.field1? "compile"
    let vfmtPanic := match impl.field1? "vfmt" with | some v => isPanic v | none => false
    -- implementation tokens with offsets
    let iToks : List Tok :=
      let rec go (ts : List (String × List UInt8)) (pos : Nat) (acc : List Tok) : List Tok :=
        match ts with
        | [] => acc.reverse
        | (k, bs) :: rest => go rest (pos + bs.length) (⟨k, pos, pos + bs.length⟩ :: acc)
      go toks 0 []
    let implTotal := (toks.map (·.2.length)).sum
    let modelTotal := match mToks.getLast? with | some t => t.stop | none => 0
    -- correspondence
    let cmp := compareToks (mToks.length + iToks.length + 2) mToks iToks modelTotal {}
    let totalOk := if nulPos.isSome then modelTotal ≤ implTotal else modelTotal == implTotal
    let unchangedOk := cmp.ok && totalOk
    -- The two lexers differ only on inputs with a NUL byte.  The correspondence accepts either: the lexer of
    -- the tree as it was (`lexAll`: only the text in front of the first NUL is compared — behind it the old
    -- parser either stops or eats the NUL as a 1-byte `Eof` token and goes on), or the lexer with the fix
    -- fixes/C13-nul.patch (`lexAllFixed`: the whole input is compared).  The tag says which one matched.
    let fixedOk :=
      if nulPos.isNone then unchangedOk else
        let fToks := toksOf (lexAllFixed inp)
        let fTotal := match fToks.getLast? with | some t => t.stop | none => 0
        (compareToks (fToks.length + iToks.length + 2) fToks iToks fTotal {}).ok && fTotal == implTotal
    let corr := unchangedOk || fixedOk
    let eofTokenNonEmpty := toks.any (fun t => t.1 == "Eof" && !t.2.isEmpty)    -- only the old lexer yields these
    let lexerTag :=
      if nulPos.isNone then []
      else if fixedOk && !eofTokenNonEmpty then ["lexer:fixed"]
      else if unchangedOk then ["lexer:unchanged"] else []
    -- oracle, on the implementation's own output
    let pre := matchPrefix inp toks 0
    let lossless := pre == some inp.size && textlen == inp.size
    -- diagnostics of the root file are re-checked against `src` here; others rely on the harness' flags
    let recheck (d : Diag) : Diag :=
      if d.file == "root.fea" then
        { d with srclen := inp.size, bs := isCharBoundary inp d.start, be := isCharBoundary inp d.stop } else d
    let dFault := firstFault (diags.map recheck)
    let vFault := firstFault (vdiags.map recheck)
    let lossCls :=
      if lossless then ""
      else match pre, nulPos with
        | some n, some _ => if n < inp.size && inp.getD n 1 == 0 && textlen == n then "nul-truncation" else "lossy-tree"
        | _, _ =>
          match droppedRangeHyphens inp toks 0 "" 0 with
          | some n => if 0 < n && textlen + n == inp.size then "lossy-tree-range-double-hyphen" else "lossy-tree"
          | none => "lossy-tree"
    let cls :=
      if lossCls != "" then lossCls
      else if dFault != "" then dFault
      else if isPanic fmt then "diag-format-panic@" ++ panicLoc fmt
      else if vfmtPanic then "diag-format-panic@" ++ (match impl.field1? "vfmt" with | some v => panicLoc v | none => "?")
      else if isPanic validate then "validate-panic@" ++ panicLoc validate
      else if vFault != "" then "v" ++ vFault
      else ""
    let oracle := cls == ""
    let cls := if !oracle then cls else if !corr then
      (if !cmp.ok then "boundaries" else "total-length") else ""
    let tags := baseTags ++ cmp.tags.reverse ++ [s!"validate:{stageWord validate}", s!"compile:{stageWord compile}"] ++
      (if diags.isEmpty then [] else ["parse-diags"]) ++ lexerTag ++
      (if isPanic compile then [s!"compile-panic@{panicLoc compile}"] else []) ++
      (if eofTokenNonEmpty then ["eof-token-nonempty"] else [])
    let detail :=
      if !oracle then
        (if isPanic validate then panicText validate else if isPanic fmt then panicText fmt else
          s!"srclen={inp.size} concat={repr pre} textlen={textlen}")
      else if !corr then (if !cmp.ok then cmp.why else s!"modelTotal={modelTotal} implTotal={implTotal}")
      else if isPanic compile then s!"compile-panic@{panicLoc compile}: " ++ panicText compile
      else ""
    some { corr := some corr, oracle := some oracle, nontrivial := nt, cls := cls, tags := tags, detail := detail }
  r.getD (badInput "c13lex: cannot parse case")

-- ---------------------------------------------------------------------------------------------
-- include graphs

open Fontc.FeaInclude in
def handleInc : Handler := fun s =>
  let r : Option Verdict := do
    let shape ← (← s.field1? "shape").asAtom?
    let n ← (← s.field1? "n").asNat?
    let edgesRaw ← (← s.field1? "edges").mapM? (fun e => e.mapM? Sexp.asNat?)
    let lens ← (← s.field1? "lens").mapM? Sexp.asNat?
    let stmts ← (← s.field1? "stmts").mapM? (fun f => f.mapM? (fun p =>
      match p with | .list [a, b] => do some ((← a.asNat?), (← b.asNat?)) | _ => none))
    let impl := Sexp.list (← s.field? "impl")
    let status ← (← impl.field1? "status").asAtom?
    -- the graph the implementation builds: only resolvable targets become edges (context.rs:157-:168);
    -- `idxMap[u][j]` = index (among all statements of u) of the j-th resolvable one
    let g : Graph := edgesRaw.map (fun es => es.filter (· < n))
    let idxMap : List (List Nat) := edgesRaw.map (fun es => (es.zipIdx.filter (fun p => p.1 < n)).map (·.2))
    let missing := (edgesRaw.zipIdx.map fun (es, u) => (u, (es.filter (fun t => n ≤ t)).length))
    let tags := [s!"shape:{shape}", s!"files:{if n ≤ 3 then "1-3" else if n ≤ 10 then "4-10" else if n ≤ 49 then "11-49" else "50+"}"]
    if status != "ok" then
      let site := if status == "panic" then "@" ++ ((impl.field1? "panicloc").bind Sexp.asAtom?).getD "?" else ""
      some { corr := none, oracle := some false, nontrivial := true, cls := s!"include-{status}{site}", tags := tags,
             detail := ((impl.field1? "panicmsg").bind Sexp.asString?).getD "" }
    else
    let result ← (← impl.field1? "result").asAtom?
    if result != "tree" then
      some { corr := some false, oracle := some false, nontrivial := true, cls := "include-loaderr", tags := tags }
    else
    let textlen ← (← impl.field1? "textlen").asNat?
    let toklen ← (← impl.field1? "toklen").asNat?
    let diags ← (← impl.field1? "diags").mapM? parseDiag
    let fmt ← (← impl.field1? "fmt").asAtom?
    -- model
    let parsed := runLoad g ⟨[0], []⟩
    let bad := validate g 0
    let stmtRange (u j : Nat) : Nat × Nat :=            -- j-th *resolvable* statement of file u
      let k := ((idxMap.getD u []).getD j 0)
      (stmts.getD u []).getD k (0, 0)
    let stmtLen (u j : Nat) : Nat := let r := stmtRange u j; r.2 - r.1
    let mLen := expandLen g bad (fun i => lens.getD i 0) stmtLen (n + 60) 0
    let fileIdx (name : String) : Option Nat :=
      ((name.drop 1).dropEnd 4).toString.toNat?
    let implErrs : List (String × Nat × Nat × Nat) :=      -- (class, file, start, stop) of cycle/deep errors
      diags.filterMap fun d =>
        if d.cls == "cycle" || d.cls == "deep" then (fileIdx d.file).map (fun f => (d.cls, f, d.start, d.stop)) else none
    let modelErrs : List (String × Nat × Nat × Nat) :=
      bad.map fun e => let r := stmtRange e.file e.stmtIdx
        ((if e.kind == .cycle then "cycle" else "deep"), e.file, r.1, r.2)
    let key (e : String × Nat × Nat × Nat) : Nat × Nat × Nat := (e.2.1, e.2.2.1, if e.1 == "cycle" then 0 else 1)
    let lt (a b : String × Nat × Nat × Nat) : Bool :=
      let ka := key a; let kb := key b
      ka.1 < kb.1 || (ka.1 == kb.1 && (ka.2.1 < kb.2.1 || (ka.2.1 == kb.2.1 && ka.2.2 ≤ kb.2.2)))
    let errsAgree := (implErrs.mergeSort lt) == (modelErrs.mergeSort lt)
    -- load errors: one per unresolvable include statement of a *parsed* file
    let expLoad := (missing.filter (fun p => parsed.contains p.1)).foldl (fun a p => a + p.2) 0
    let loadAgree := (diags.filter (fun d => d.cls == "load")).length == expLoad
    let lenAgree := mLen == some textlen
    let corr := errsAgree && loadAgree && lenAgree
    -- oracle (independent of the model): terminated with a tree; ranges fine; cycles / over-deep nesting reported
    let reach : List Nat :=                                   -- files reachable from the root
      let rec go (fuel : Nat) (front seen : List Nat) : List Nat :=
        match fuel with
        | 0 => seen
        | fuel + 1 =>
          let next := (front.flatMap (fun u => edgesOf g u)).eraseDups.filter (fun v => !seen.contains v)
          if next.isEmpty then seen else go fuel next (seen ++ next)
      go (n + 1) [0] [0]
    -- longest include chain from the root, in files; `none` = there is a cycle
    let depth : Option Nat :=
      let rec longest (fuel : Nat) (u : Nat) : Option Nat :=
        match fuel with
        | 0 => none
        | fuel + 1 => (edgesOf g u).foldl (fun acc v =>
            match acc, longest fuel v with
            | some a, some b => some (max a (b + 1))
            | _, _ => none) (some 1)
      longest (reach.length + 1) 0
    let hasCycle := depth.isNone
    let anyErr (c : String) := diags.any (fun d => d.cls == c && d.level == "E")
    let dFault := firstFault diags
    let cls :=
      if dFault != "" then dFault
      else if fmt != "ok" then "diag-format-panic"
      else if toklen != textlen then "lossy-tree"
      else if hasCycle && !(anyErr "cycle" || anyErr "deep") then "cycle-unreported"
      else match depth with
        | some d => if d > MAX_INCLUDE_DEPTH && !anyErr "deep" then "deep-unreported" else ""
        | none => ""
    let oracle := cls == ""
    let cls := if !oracle then cls else if !corr then
      (if !errsAgree then "include-errors" else if !loadAgree then "load-errors" else "assembled-length") else ""
    let tags := tags ++ (if hasCycle then ["cyclic"] else ["acyclic"]) ++
      (match depth with | some d => if d > MAX_INCLUDE_DEPTH then ["deeper-than-max"] else [] | none => []) ++
      (if anyErr "cycle" then ["err:cycle"] else []) ++ (if anyErr "deep" then ["err:deep"] else []) ++
      (if anyErr "load" then ["err:load"] else [])
    let detail := if corr && oracle then "" else
      s!"depth={repr depth} implErrs={repr implErrs} modelErrs={repr modelErrs} mLen={repr mLen} textlen={textlen} expLoad={expLoad}"
    some { corr := some corr, oracle := some oracle, nontrivial := n ≥ 2 && (g.getD 0 []).length ≥ 1, cls := cls,
           tags := tags, detail := detail }
  r.getD (badInput "c13inc: cannot parse case")

end Fontc.Driver.C13
