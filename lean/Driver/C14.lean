import Driver.Common
import FontcModel.Paths

namespace Fontc.Driver.C14
open Fontc Fontc.Paths Fontc.Driver

def cps (s : String) : List Nat := s.toList.map Char.toNat
def parseStr (s : Sexp) : Option (List Nat) := cps <$> s.asString?
def showCps (l : List Nat) : String := String.ofList (l.map Char.ofNat)

/-- all unordered pairs (i < j) of a list -/
def pairs {α : Type} : List α → List (α × α)
  | [] => []
  | x :: r => r.map (fun y => (x, y)) ++ pairs r

/-! ### c14names -/

def handleNames : Handler := fun s =>
  let r : Option Verdict := do
    let suffix ← parseStr (← s.field1? "suffix")
    let names ← (← s.field1? "names").mapM? parseStr
    let impl := Sexp.list (← s.field? "impl")
    let outs ← (← impl.field1? "out").mapM? parseStr
    let merged ← (← impl.field1? "unicode_fold_merged").asNat?
    if outs.length != names.length then none
    let model := names.map fun n => stringToFilename n suffix
    let corr := model == outs
    -- the property on the implementation's own output: distinct names ⇒ distinct file names,
    -- also after ASCII case folding
    let nos := names.zip outs
    let exactOk := (pairs nos).all fun (a, b) => a.1 == b.1 || a.2 != b.2
    let foldOk := (pairs nos).all fun (a, b) => a.1 == b.1 || asciiFold a.2 != asciiFold b.2
    -- no output may contain a path separator or be a bare dot name
    let noSep := outs.all fun o => !(o.contains 0x2F) && !(o.contains 0x5C) && !(o.contains 0)
    let oracle := exactOk && foldOk && noSep
    let casePair := (pairs names).any fun (a, b) => a != b && asciiFold a == asciiFold b
    let anyN (p : List Nat → Bool) := names.any p
    let nt := names.length ≥ 2 && (casePair || anyN (fun n => n.any isReservedChar) || anyN isReservedFilename)
    let cls :=
      if !oracle then (if !exactOk then "name-collision" else if !foldOk then "name-collision-ascii-caseless" else "separator-in-filename")
      else if !corr then "string_to_filename" else ""
    let tags :=
      (if casePair then ["case-pair"] else []) ++
      (if anyN (fun n => n.any isReservedChar) then ["reserved-char"] else []) ++
      (if anyN isReservedFilename then ["device-name"] else []) ++
      (if anyN (fun n => n.head? == some 0x2E) then ["leading-dot"] else []) ++
      (if anyN (fun n => n.any (· ≥ 0x80)) then ["non-ascii"] else []) ++
      (if anyN (fun n => n.any (· ≥ 0x10000)) then ["astral"] else []) ++
      (if anyN List.isEmpty then ["empty"] else []) ++
      (if anyN (fun n => n.length ≥ 100) then ["long"] else []) ++
      (if anyN (fun n => n.contains 0x5E || n.contains 0x25) then ["escape-lookalike"] else []) ++
      (if suffix.contains 0x5E then ["suffix-with-sep"] else []) ++
      (if merged > 0 then ["advisory-unicode-casefold-merge"] else [])
    let detail :=
      if corr then "" else
        match (names.zip (model.zip outs)).find? (fun (_, m, o) => m != o) with
        | some (n, m, o) => s!"name={repr (showCps n)} model={repr (showCps m)} impl={repr (showCps o)}"
        | none => "length"
    some { corr := some corr, oracle := some oracle, nontrivial := nt, cls := cls, tags := tags, detail := detail }
  r.getD (badInput "c14names: cannot parse case")

/-! ### c14paths -/

def parseTag (s : Sexp) : Option Tag := do
  match ← s.asBytes? with
  | [a, b, c, d] => some ⟨a.toNat, b.toNat, c.toNat, d.toNat⟩
  | _ => none

/-- entries `(tag value text)`: the location and, per coordinate, the text the real f64 printer gave -/
def parseLocT (s : Sexp) : Option (List (Tag × Rat × List Nat)) :=
  s.mapM? fun e =>
    match e with
    | .list [t, x, txt] => do some (← parseTag t, ← x.asRat?, ← parseStr txt)
    | _ => none

def feFixed : String → Option FeId
  | "static_metadata" => some .staticMetadata
  | "global_metrics" => some .globalMetrics
  | "preliminary_glyph_order" => some .preliminaryGlyphOrder
  | "glyph_order" => some .glyphOrder
  | "preliminary_gdef_categories" => some .preliminaryGdefCategories
  | "gdef_categories" => some .gdefCategories
  | "features" => some .features
  | "kerning_locations" => some .kerningLocations
  | "color_palettes" => some .colorPalettes
  | "paint_graph" => some .paintGraph
  | _ => none

def beFixed : String → Option BeId
  | "features" => some .features
  | "features_ast" => some .featuresAst
  | "avar" => some .avar
  | "cmap" => some .cmap
  | "colr" => some .colr
  | "cpal" => some .cpal
  | "font" => some .font
  | "fvar" => some .fvar
  | "gasp" => some .gasp
  | "glyf" => some .glyf
  | "gpos" => some .gpos
  | "gsub" => some .gsub
  | "gdef" => some .gdef
  | "gvar" => some .gvar
  | "head" => some .head
  | "hhea" => some .hhea
  | "hmtx" => some .hmtx
  | "hvar" => some .hvar
  | "meta" => some .metaTable
  | "vhea" => some .vhea
  | "vmtx" => some .vmtx
  | "vvar" => some .vvar
  | "gather_ir_kerning" => some .gatherIrKerning
  | "gather_be_kerning" => some .gatherBeKerning
  | "loca" => some .loca
  | "loca_format" => some .locaFormat
  | "marks" => some .marks
  | "maxp" => some .maxp
  | "mvar" => some .mvar
  | "name" => some .name
  | "os2" => some .os2
  | "post" => some .post
  | "stat" => some .stat
  | "extra_fea_tables" => some .extraFeaTables
  | _ => none

/-- the printed texts of the coordinates of a kerning-instance id -/
def idTexts (s : Sexp) : Option (List (Rat × List Nat)) :=
  match s with
  | .list [.atom "fe", .atom "kern_instance", l] => do some ((← parseLocT l).map fun e => (e.2.1, e.2.2))
  | _ => some []

def parseId (s : Sexp) : Option AnyId :=
  match s with
  | .list [.atom "fe", .atom "glyph", n] => do some (.fe (.glyph (← parseStr n)))
  | .list [.atom "fe", .atom "anchor", n] => do some (.fe (.anchor (← parseStr n)))
  | .list [.atom "fe", .atom "kern_instance", l] => do some (.fe (.kernInstance ((← parseLocT l).map fun e => (e.1, e.2.1))))
  | .list [.atom "fe", .atom w] => AnyId.fe <$> feFixed w
  | .list [.atom "be", .atom "glyf_fragment", n] => do some (.be (.glyfFragment (← parseStr n)))
  | .list [.atom "be", .atom "gvar_fragment", n] => do some (.be (.gvarFragment (← parseStr n)))
  | .list [.atom "be", .atom "kern_fragment", k] => do some (.be (.kernFragment (← k.asNat?)))
  | .list [.atom "be", .atom w] => AnyId.be <$> beFixed w
  | _ => none

def isKern : AnyId → Bool
  | .fe (.kernInstance _) => true
  | _ => false

def kernLoc : AnyId → Loc
  | .fe (.kernInstance l) => l
  | _ => []

/-- the confirmed defect's signature: two different locations over the same axes whose coordinates
    agree after rounding to two decimals -/
def agreeTwoDecimals (a b : Loc) : Bool :=
  a.map (·.1) == b.map (·.1) && a.map (fun e => round2 e.2) == b.map (fun e => round2 e.2)

def ratStr (r : Rat) : String := if r.den == 1 then toString r.num else s!"{r.num}/{r.den}"

def descLoc (l : Loc) : String :=
  "{" ++ ",".intercalate (l.map fun e => s!"{showCps e.1.render}={ratStr e.2}") ++ "}"

/-- one-line description of an id for the detail field -/
def descId : AnyId → String
  | .fe (.glyph n) => s!"fe.Glyph({repr (showCps n)})"
  | .fe (.anchor n) => s!"fe.Anchor({repr (showCps n)})"
  | .fe (.kernInstance l) => s!"fe.KernInstance{descLoc l}"
  | .be (.glyfFragment n) => s!"be.GlyfFragment({repr (showCps n)})"
  | .be (.gvarFragment n) => s!"be.GvarFragment({repr (showCps n)})"
  | .be (.kernFragment k) => s!"be.KernFragment({k})"
  | i => s!"fixed:{showCps (anyTarget (fun _ => []) i)}"

def handlePaths : Handler := fun s =>
  let r : Option Verdict := do
    let ids ← (← s.field1? "ids").mapM? parseId
    let table := (← (← s.field1? "ids").mapM? idTexts).flatten
    let impl := Sexp.list (← s.field? "impl")
    let paths ← (← impl.field1? "paths").mapM? parseStr
    if paths.length != ids.length then none
    -- the float printer of this case: the texts the real `f64 as Display` produced
    let pr : Rat → List Nat := fun x => (table.lookup x).getD []
    -- what the theorems assume of it (PrintInjective, PrintNoUnderscore), checked on the case
    let printerOk := (pairs table).all (fun (a, b) => (a.1 == b.1) == (a.2 == b.2)) &&
      table.all (fun e => !e.2.isEmpty && !(e.2.contains 0x5F))
    let model := ids.map (anyTarget pr)
    let corr := model == paths && printerOk
    let ips := ids.zip paths
    -- the harness sends ids that are pairwise distinct by the real `Eq`
    let clashes := (pairs ips).filter fun (a, b) => a.2 == b.2
    let foldClashes := (pairs ips).filter fun (a, b) => a.2 != b.2 && asciiFold a.2 == asciiFold b.2
    let kernClash (p : (AnyId × List Nat) × (AnyId × List Nat)) : Bool :=
      isKern p.1.1 && isKern p.2.1 && agreeTwoDecimals (kernLoc p.1.1) (kernLoc p.2.1)
    -- every file is where its directory was created for it: named items one level down, the rest at top level
    let depthOf (p : List Nat) : Nat := (p.filter (· == 0x2F)).length
    let wantDepth : AnyId → Nat
      | .fe (.glyph _) | .fe (.anchor _) | .be (.glyfFragment _) | .be (.gvarFragment _) => 1
      | _ => 0
    let misplaced := ips.filter fun (i, p) => depthOf p != wantDepth i
    let oracle := clashes.isEmpty && foldClashes.isEmpty && misplaced.isEmpty
    let cls :=
      if !misplaced.isEmpty && clashes.all kernClash && foldClashes.isEmpty then
        (if misplaced.all (fun (i, _) => isKern i) then "kern-file-tag-separator" else "path-outside-directory")
      else if !clashes.isEmpty then
        (if clashes.all kernClash then "kern-location-2-decimals" else "path-collision")
      else if !foldClashes.isEmpty then "path-collision-ascii-caseless"
      else if !printerOk then "float-printer-assumption"
      else if !corr then "target_file" else ""
    let nKern := (ids.filter isKern).length
    let closeKern := (pairs (ids.filter isKern)).any fun (a, b) => agreeTwoDecimals (kernLoc a) (kernLoc b)
    let nNamed := (ids.filter fun i => match i with
      | .fe (.glyph _) | .fe (.anchor _) | .be (.glyfFragment _) | .be (.gvarFragment _) => true
      | _ => false).length
    let nt := nNamed ≥ 2 || nKern ≥ 2
    let tags := [s!"ids{min ids.length 40 / 10 * 10}+"] ++
      (if nKern ≥ 2 then ["kern-locations"] else []) ++
      (if closeKern then ["kern-close-pair"] else []) ++
      (if !misplaced.isEmpty then ["separator-in-tag"] else []) ++
      (if ids.any (fun i => (kernLoc i).any fun e => decide ¬ e.1.printable) then ["raw-tag"] else []) ++
      (if ids.any (fun i => match i with | .be (.kernFragment _) => true | _ => false) then ["kern-fragment"] else []) ++
      (if nNamed ≥ 2 then ["named"] else [])
    let detail :=
      if !misplaced.isEmpty then
        match misplaced.head? with
        | some (i, p) => s!"path_with_unexpected_directory={repr (showCps p)} id={descId i}"
        | none => ""
      else if !clashes.isEmpty then
        match clashes.head? with
        | some (a, b) => s!"same_path={repr (showCps a.2)} a={descId a.1} b={descId b.1}"
        | none => ""
      else if !printerOk then
        match (pairs table).find? (fun (a, b) => (a.1 == b.1) != (a.2 == b.2)) with
        | some (a, b) => s!"printer: {ratStr a.1} -> {repr (showCps a.2)}, {ratStr b.1} -> {repr (showCps b.2)}"
        | none => "printer: empty text or '_' in a text"
      else if corr then "" else
        match (ids.zip (model.zip paths)).find? (fun (_, m, o) => m != o) with
        | some (i, m, o) => s!"id={descId i} model={repr (showCps m)} impl={repr (showCps o)}"
        | none => "length"
    some { corr := some corr, oracle := some oracle, nontrivial := nt, cls := cls, tags := tags, detail := detail }
  r.getD (badInput "c14paths: cannot parse case")

/-! ### c14emit: whole builds with and without an IR directory (no model: monitored) -/

def handleEmit : Handler := fun s =>
  let r : Option Verdict := do
    let impl := Sexp.list (← s.field? "impl")
    let status ← (← impl.field1? "status").asAtom?
    let word (k : String) : Option String := do (← impl.field1? k).asAtom?
    let num (k : String) : Option Nat := do (← impl.field1? k).asNat?
    if status != "ok" then
      -- both builds must fail alike; a failure only with the IR directory is a transparency violation
      let plain ← word "plain_status"
      let emit ← word "emit_status"
      let same := plain == emit
      let kernFile := (word "emit_failed_writing_kern_file") == some "true"
      some { corr := none, oracle := some same, nontrivial := false,
             cls := if same then "" else if plain == "ok" && kernFile then "kern-file-tag-separator" else "emit-ir-changes-outcome",
             tags := ["build-failed"],
             detail := s!"plain={plain} emit={emit}" }
    else
      let fontsEqual := (← word "fonts_equal") == "true"
      let plainVariants ← num "plain_variants"
      let nIds ← num "n_ids"
      let nFiles ← num "n_files"
      let missing ← num "ids_without_file"
      let shared ← num "ids_sharing_a_file"
      let sharedKern ← num "kern_ids_sharing_a_file"
      let unexpected ← num "files_without_id"
      let readBack ← num "readback_checked"
      let readBad ← num "readback_differs"
      let badKern ← num "readback_differs_kern_shared"
      let kinds ← (← impl.field1? "readback_differs_kinds").mapM? fun e =>
        match e with
        | .list [.atom k, n] => do some (k, ← n.asNat?)
        | _ => none
      let cnt (k : String) : Nat := (kinds.lookup k).getD 0
      let badEmpty := cnt "be.glyf_fragment.empty"
      let badPost := cnt "be.post.empty-string-data"
      let badFvar := cnt "be.fvar.psname-ffff"
      let otherKinds := kinds.filter fun (k, _) =>
        k != "be.glyf_fragment.empty" && k != "be.post.empty-string-data" && k != "be.fvar.psname-ffff"
      let notes := ((← impl.field1? "notes").asString?).getD ""
      -- the property on what the build left behind
      -- a build directory that another source was built into before holds that build's files too: only this build's
      -- ids are looked at then (the font comparison and the read-back are what a stale file could disturb)
      let reused := ((s.field1? "reused_build_dir").bind Sexp.asAtom?) == some "true"
      let unexpected := if reused then 0 else unexpected
      let oneFilePerId := missing == 0 && shared == 0 && unexpected == 0
      let faithful := readBad == 0
      let oracle := fontsEqual && oneFilePerId && faithful
      -- failure class: anything not yet explained first, then the recorded kinds
      let unexplained := !otherKinds.isEmpty || readBad != badKern + badPost + badEmpty + badFvar
      let cls :=
        if oracle then ""
        else if !fontsEqual then "emit-ir-changes-font"
        else if missing != 0 || unexpected != 0 || shared != sharedKern then "files-vs-ids"
        else if unexplained then
          (match otherKinds.head? with
           | some (k, _) => s!"readback-mismatch:{k}"
           | none => "readback-mismatch:count")
        else if sharedKern != 0 then "kern-location-2-decimals"
        -- rarest recorded kind first, so that each of them is the class of some case
        else if badFvar != 0 then "readback-fvar-psname"
        else if badEmpty != 0 then "readback-empty-glyph"
        else "readback-post-string-data"
      if !fontsEqual && plainVariants > 1 then
        -- the source does not build repeatably even without --emit-ir (C01's business): undecidable here
        some { corr := none, oracle := none, nontrivial := false, cls := "", tags := ["nondeterministic-source"],
               detail := s!"plain builds of this source differ among themselves ({plainVariants} variants seen)" }
      else
      some { corr := none, oracle := some oracle, nontrivial := nIds ≥ 10 && readBack ≥ 5, cls := cls,
             tags := [s!"files{min nFiles 100 / 20 * 20}+"] ++ (if reused then ["reused-build-dir"] else []) ++ (if sharedKern > 0 then ["fail-kern-shared-file"] else []) ++
               (if badPost > 0 then ["fail-post-readback"] else []) ++ (if badEmpty > 0 then ["fail-empty-glyph-readback"] else []) ++
               (if badFvar > 0 then ["fail-fvar-readback"] else []),
             detail := if oracle then "" else
               s!"fonts_equal={fontsEqual} ids={nIds} files={nFiles} missing={missing} shared={shared} shared_kern={sharedKern} unexpected={unexpected} readback_differs={readBad} kern={badKern} post={badPost} empty_glyph={badEmpty} fvar={badFvar} other_kinds={",".intercalate (otherKinds.map fun (k, n) => s!"{k}:{n}")} notes={notes.replace "\n" " "}" }
  r.getD (badInput "c14emit: cannot parse case")

end Fontc.Driver.C14
