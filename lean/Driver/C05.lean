/-
  C05 driver.
  * `c05sfnt`: model `Sfnt.build` vs real `FontBuilder::build` (byte-exact); oracle = `wellFormedSfnt` on the
    implementation's bytes + round trip of the tables (independent of the model's `build`).
  * `c05font`: whole-font oracle `wellFormedFont` on raw bytes of fonts compiled by the real fontc; the
    harness' read-fonts/skrifa traversal is the independent reader; the numbers both parsers extract are
    cross-checked (a mismatch is a harness fault: class `parser-disagreement`).
  Reusable by other e2e streams: `checkFontBytes`, `checkFontFields`.
-/
import Driver.Common
import FontcModel.Sfnt

namespace Fontc.Driver.C05
open Fontc Fontc.Bytes Fontc.Sfnt Fontc.Driver

/-- tail-recursive hex decoder (fonts are long) -/
def hexToBytes (cs : List Char) : Option Bytes :=
  let rec go (cs : List Char) (acc : Array UInt8) : Option Bytes :=
    match cs with
    | [] => some acc.toList
    | [_] => none
    | a :: b :: rest =>
      match Sexp.hexVal a, Sexp.hexVal b with
      | some x, some y => go rest (acc.push (UInt8.ofNat (x * 16 + y)))
      | _, _ => none
  go cs #[]

def asBytes? (s : Sexp) : Option Bytes :=
  match s with
  | .atom a =>
    match a.toList with
    | 'x' :: rest => hexToBytes rest
    | _ => none
  | _ => none

/-- **The whole-font oracle of C05** on raw font bytes: (passes?, failed clauses joined by `;`). -/
def checkFontBytes (bytes : List UInt8) : Bool × String :=
  let r := wellFormedFont bytes
  (r.ok, ";".intercalate r.failures)

structure FontVerdict where
  /-- C05 holds of this font (Lean checker passes and the independent reader parsed everything) -/
  ok : Bool
  /-- Lean parsers and read-fonts agree on every number both extracted -/
  parsersAgree : Bool
  cls : String
  detail : String
  tags : List String

def parseInfo (s : Sexp) : Option (List (String × List Nat)) :=
  s.mapM? fun e =>
    match e with
    | .list [k, v] => do some (← k.asString?, ← v.mapM? Sexp.asNat?)
    | _ => none

/-- Evaluate the fields produced by the harness' `font_check_fields` (`(font x…)` and `(rf …)`). -/
def checkFontFields (s : Sexp) : Option FontVerdict := do
  let bytes ← asBytes? (← s.field1? "font")
  let rf := Sexp.list (← s.field? "rf")
  let rfOk := (← rf.field1? "readfonts") == Sexp.atom "ok"
  let rfErrors ← (← rf.field1? "errors").mapM? Sexp.asString?
  let rfInfo ← parseInfo (← rf.field1? "info")
  let rep := wellFormedFont bytes
  let mismatches := rfInfo.filterMap fun (k, v) =>
    match rep.info.lookup k with
    | some v' => if v == v' then none else some s!"{k}:lean={v'}:readfonts={v}"
    | none => some s!"{k}:lean=absent:readfonts={v}"
  let agree := mismatches.isEmpty
  let ok := rep.ok && rfOk
  let cls :=
    if !rep.ok then rep.failures.head!
    else if !rfOk then "readfonts:" ++ (rfErrors.head?.getD "?").map (fun c => if c == ' ' then '_' else c)
    else if !agree then "parser-disagreement" else ""
  let get (k : String) : Nat := ((rep.info.lookup k).bind (·.head?)).getD 0
  let tags :=
    [s!"tables{get "numTables"}"] ++
    (if (rep.info.lookup "fvar.axisCount").isSome then [s!"axes{get "fvar.axisCount"}"] else ["static"]) ++
    (if ((rep.info.lookup "components").getD []).isEmpty then [] else [s!"composites-depth{get "componentDepth"}"]) ++
    (["gvar.glyphCount", "HVAR.axisCount", "VVAR.axisCount", "MVAR.axisCount", "avar.axisCount", "STAT.nameIds", "vhea.numLongMetrics"].filterMap
      fun k => if (rep.info.lookup k).isSome then some ((k.splitOn ".").head!) else none) ++
    (if (rep.info.lookup "GDEF.axisCount").isSome then ["GDEF-varstore"] else []) ++
    (if get "GSUB.featureVariationRecords" + get "GPOS.featureVariationRecords" > 0 then ["FeatureVariations"] else []) ++
    (if ((rep.info.lookup "varIdx").getD []).isEmpty then [] else ["VariationIndex"]) ++
    (if (rep.info.lookup "BASE.axisCount").isSome then ["BASE-varstore"] else []) ++
    (if (rep.info.lookup "COLR.axisCount").isSome then ["COLR-varstore"] else [])
  let detail := ";".intercalate (rep.failures ++ (if rfOk then [] else rfErrors.take 3) ++ mismatches.take 3)
  some { ok, parsersAgree := agree, cls, detail := detail.map (fun c => if c == ' ' then '_' else c), tags }

/-! ## c05sfnt -/

def parseAdd (s : Sexp) : Option Table :=
  match s with
  | .list [t, d] => do some ⟨UInt32.ofNat (← t.asNat?), ← asBytes? d⟩
  | _ => none

def handleSfnt : Handler := fun s =>
  let r : Option Verdict := do
    let adds ← (← s.field1? "adds").mapM? parseAdd
    let impl := Sexp.list (← s.field? "impl")
    let iBytes ← asBytes? (← impl.field1? "bytes")
    let ts := adds.foldl addRaw []
    let model := build ts
    let corr := model == iBytes
    let head? := ts.find? (·.tag == headTag)
    let shortHead : Bool := match head? with | some h => decide (h.data.length < 12) | none => false
    -- oracle on the implementation's bytes; a `head` shorter than its checkSumAdjustment field is outside
    -- the property's precondition (no such table can come out of fontc: Head serialises to 54 bytes)
    let wf := wellFormedSfnt iBytes
    let rt := match tablesOf iBytes with
      | some back =>
        back.map (fun t => (t.tag, zeroedRaw t.tag t.data)) ==
          (sortBy tagKey ts).map (fun t => (t.tag, zeroedRaw t.tag t.data))
      | none => false
    let oracle : Option Bool := if shortHead then none else some (wf && rt)
    let unaligned := ts.any fun t => t.data.length % 4 != 0
    let nt := ts.length ≥ 3 && unaligned && (match head? with | some h => h.data.length ≥ 12 | none => false)
    let cls :=
      if oracle == some false then (if !wf then "sfnt:" ++ ((sfntFailures iBytes).head?.getD "?") else "roundtrip")
      else if !corr then "bytes-differ" else ""
    let tags := [s!"tables{ts.length}"] ++ (if head?.isSome then (if shortHead then ["shorthead"] else ["head"]) else ["nohead"]) ++
      (if ts.any (fun t => t.tag == cffTag || t.tag == cff2Tag) then ["cff"] else []) ++
      (if ts.any (fun t => t.tag == dsigTag) then ["dsig"] else []) ++
      (if adds.length != ts.length then ["replaced"] else []) ++
      (if unaligned then ["unaligned"] else []) ++ (if ts.any (·.data.isEmpty) then ["empty-table"] else [])
    let detail := if corr then "" else s!"model={Sexp.ofBytes model}"
    some { corr := some corr, oracle := oracle, nontrivial := nt, cls := cls, tags := tags, detail := detail }
  r.getD (badInput "c05sfnt: cannot parse case")

/-! ## c05font -/

/-- Correspondence of the fontbe/src/font.rs model on a real font: the slots reported by `FontWork::exec`'s
    own log (absent / no content) plus the table bytes found in the font, pushed through the model
    (`assembleFont` = `selectTables` + `build`), must reproduce the font byte for byte.
    Returns (agrees?, tags dropped by `to_bytes(..).ok()` other than the legitimately empty avar). -/
def mergeCheck (s : Sexp) (bytes : Bytes) : Option (Bool × List String) := do
  let back ← tablesOf bytes
  let find (t : UInt32) : Option Bytes := (back.find? (·.tag == t)).map (·.data)
  match s.field? "merge" with
  | some [.atom "nolog"] => some (build back == bytes, [])
  | some m =>
    let m := Sexp.list m
    let skip ← (← m.field? "skip").mapM Sexp.asString?
    let nocontent ← (← m.field? "nocontent").mapM Sexp.asString?
    let slots := tablesToMerge.map fun t =>
      if skip.contains (tagStr t) then Slot.absent
      else if nocontent.contains (tagStr t) then Slot.dropped
      else match find t with
        | some b => Slot.bytes b
        | none => Slot.absent   -- claimed present but not in the font: the byte comparison below fails
    let presentOk := tablesToMerge.all fun t =>
      skip.contains (tagStr t) || nocontent.contains (tagStr t) || (find t).isSome
    let model := assembleFont (find baseTag) (find debgTag) slots
    some (presentOk && model == bytes, nocontent.filter (· != "avar"))
  | none => none

def errWord (e : String) : String :=
  match e.splitOn ":" with
  | "build" :: k :: _ => "build:" ++ k
  | w :: _ => w
  | [] => "?"

def handleFont : Handler := fun s =>
  let r : Option Verdict := do
    let result ← s.field? "result"
    match result with
    | [.atom "ok"] =>
      let v ← checkFontFields s
      let bytes ← asBytes? (← s.field1? "font")
      let (mergeOk, dropped) := (mergeCheck s bytes).getD (false, [])
      let debg := (s.field1? "compile_debg") == some (Sexp.atom "true")
      let skip := (s.field1? "skip_features") == some (Sexp.atom "true")
      let ok := v.ok && dropped.isEmpty
      let cls :=
        if !v.ok then v.cls
        else if !dropped.isEmpty then "table-dropped:" ++ dropped.head!
        else if !mergeOk then "assembly-differs" else v.cls
      some { corr := some (v.parsersAgree && mergeOk), oracle := some ok, nontrivial := true, cls := cls,
             tags := v.tags ++ (if debg then ["debg"] else []) ++ (if skip then ["skip-features"] else []) ++
               (match s.field1? "pointaxis" with
                | some (.atom "none") | none => []
                | some (.atom "0") => ["point-axis", "point-axis-first"]
                | some _ => ["point-axis"]) ++
               (if (s.field1? "varfea") == some (Sexp.atom "true") then ["varfea"] else []),
             detail := v.detail }
    | .atom "err" :: e :: _ =>
      some { corr := none, oracle := none, nontrivial := false, tags := ["err:" ++ errWord (e.asString?.getD "?")] }
    | _ => none
  r.getD (badInput "c05font: cannot parse case")

end Fontc.Driver.C05
