import Driver.Common
import FontcModel.Sched
import FontcModel.SchedCheck

/-!
  Stream `c02`: one case = one real run of the compiler on one source under one schedule
  (thread count + jitter seed), as recorded by the `fontc_verif` event log.

  (a) `checkScript` (verified in FontcProofs/SchedCheck*.lean) on the script extracted from the run;
  (b) the recorded trace is replayed through the model's `step`: every event must be admitted, the access a
      job was launched under and all counter values must match;
  (c) conflict-freedom of the ACTUAL context accesses: every pair of accesses to one item by two different
      jobs, one of them a write, must be ordered (finish of one before launch of the other) in the recorded
      trace, and that order must be forced by the verified static relation `mustPrecede`.
-/

namespace Fontc.Driver.C02
open Fontc Fontc.Sched Fontc.Driver

inductive TEv where
  | launch (id : Id) (a : Access) (ctrs : List (String × Nat))
  | finish (id : Id)
  | deliver (id : Id)
  | bad (what : String)
  deriving Inhabited

inductive Who where
  | job (id : Id)
  /-- the main thread while it handles the completion of `at_` (`none` = while it creates the workload) -/
  | main (at_ : Option Id)
  /-- the main thread after `exec` returned (all workers joined) -/
  | mainEnd
  deriving Inhabited, DecidableEq

structure Acc where
  who : Who
  write : Bool
  item : Id
  deriving Inhabited

def idAt (ids : Array Id) (s : Sexp) : Option Id := do
  let n ← s.asNat?
  ids[n]?

def parseDep (ids : Array Id) : Sexp → Option Dep
  | .list [.atom "v", .atom d] => some (.variant d)
  | .list [.atom "s", i] => .specific <$> idAt ids i
  | _ => none

def parseAccess (ids : Array Id) : Sexp → Option Access
  | .atom "none" => some .none
  | .atom "unknown" => some .unknown
  | .atom "all" => some .all
  | .list (.atom "set" :: ds) => .set <$> ds.mapM (parseDep ids)
  | _ => none

def parseKind : Sexp → Option Kind
  | .atom "real" => some .real
  | .atom "nop" => some .nop
  | _ => none

def parseJob (ids : Array Id) : Sexp → Option Job
  | .list [.atom "job", i, k, r, w, .list also] => do
    some { id := ← idAt ids i, kind := ← parseKind k, reads := ← parseAccess ids r, writes := ← parseAccess ids w,
           also := ← also.mapM (idAt ids) }
  | _ => none

def parseEffect (ids : Array Id) : Sexp → Option Effect
  | .list [.atom "add", j] => .add <$> parseJob ids j
  | .list [.atom "rw", i, a, .atom m] => do some (.rewrite (← idAt ids i) (← parseAccess ids a) (m == "must"))
  | .list [.atom "skip", i] => .skip <$> idAt ids i
  | .list [.atom "g", i, .atom st] => do
    let st ← match st with
      | "idle" => some GuardSt.idle
      | "running" => some GuardSt.running
      | "gone" => some GuardSt.gone
      | _ => none
    some (.guard (← idAt ids i) st)
  | _ => none

def parseScript (ids : Array Id) (parts : List Sexp) : Option Script := do
  let mut init : List Job := []
  let mut on : List (Id × List Effect) := []
  for p in parts do
    match p with
    | .list (.atom "init" :: js) => init := ← js.mapM (parseJob ids)
    | .list (.atom "on" :: i :: effs) => on := on ++ [(← idAt ids i, ← effs.mapM (parseEffect ids))]
    | _ => none
  some { init := init, onDeliver := on }

def parseTEv (ids : Array Id) : Sexp → Option TEv
  | .list [.atom "l", i, a, .list cs] => do
    let cs ← cs.mapM fun c => match c with
      | .list [.atom d, n] => do some (d, ← n.asNat?)
      | _ => none
    some (.launch (← idAt ids i) (← parseAccess ids a) cs)
  | .list [.atom "f", i] => .finish <$> idAt ids i
  | .list [.atom "d", i] => .deliver <$> idAt ids i
  | .list [.atom "e", i] => do some (.bad s!"job failed: {(← idAt ids i).show}")
  | .list [.atom "err", i] => do some (.bad s!"error delivered: {(← idAt ids i).show}")
  | .list [.atom "stuck", .atom n] => some (.bad s!"unable to proceed with {n} pending")
  | _ => none

def parseAcc (ids : Array Id) : Sexp → Option Acc
  | .list [.atom "a", who, .atom k, item] => do
    let who ← match who with
      | .list [.atom "m", .atom "init"] => some (Who.main none)
      | .list [.atom "m", .atom "end"] => some Who.mainEnd
      | .list [.atom "m", i] => (fun x => Who.main (some x)) <$> idAt ids i
      | i => Who.job <$> idAt ids i
    some { who := who, write := k == "w", item := ← idAt ids item }
  | _ => none

/-- order-insensitive comparison of accesses (the log prints `HashSet`s) -/
def accessEq : Access → Access → Bool
  | .set a, .set b => a.all (b.contains ·) && b.all (a.contains ·)
  | a, b => a == b

/-- (b) replay. Returns the final state or the first divergence. -/
def replay (sc : Script) (evs : List TEv) : Except String State := do
  let s0 ← match initState sc with
    | some s => pure s
    | none => throw "model rejects the initial job table (duplicate id?)"
  let mut s := s0
  let mut n := 0
  for ev in evs do
    n := n + 1
    match ev with
    | .bad w => throw s!"event {n}: {w}"
    | .launch id a cs =>
      match s.entry? id with
      | none => throw s!"event {n}: launch of {id.show} which is not pending in the model"
      | some e =>
        if !accessEq e.reads a then throw s!"event {n}: launch of {id.show} under an access that differs from the model's current access"
        for (d, k) in cs do
          if ctrGet s.counters d != k then throw s!"event {n}: counter {d} is {k} in the implementation, {ctrGet s.counters d} in the model (launch {id.show})"
        for (d, k) in s.counters do
          if k != 0 && !(cs.any (·.1 == d)) then throw s!"event {n}: model counter {d}={k} unknown to the implementation"
        match step sc s (.launch id) with
        | some s' => s := s'
        | none => throw s!"event {n}: not admitted: {explain sc s (.launch id)}"
    | .finish id =>
      match step sc s (.finish id) with
      | some s' => s := s'
      | none => throw s!"event {n}: not admitted: {explain sc s (.finish id)}"
    | .deliver id =>
      match step sc s (.deliver id) with
      | some s' => s := s'
      | none => throw s!"event {n}: not admitted: {explain sc s (.deliver id)}"
    if s.unableToProceed then throw s!"event {n}: the model state is stuck (unable to proceed) although the build went on"
  if !s.done then throw s!"trace ends with {s.success.length}/{s.jobCount} jobs complete"
  if s.counters.any (·.2 != 0) then throw "trace ends with a non-zero counter"
  if !s.pending.isEmpty || !s.inflight.isEmpty then throw "trace ends with pending jobs"
  return s

/-- positions (1-based index in the trace) of launch / finish / deliver of each job -/
structure Pos where
  launch : List (Id × Nat) := []
  finish : List (Id × Nat) := []
  deliver : List (Id × Nat) := []

def positions (evs : List TEv) : Pos := Id.run do
  let mut p : Pos := {}
  let mut n := 0
  for ev in evs do
    n := n + 1
    match ev with
    | .launch id _ _ => p := { p with launch := (id, n) :: p.launch }
    | .finish id => p := { p with finish := (id, n) :: p.finish }
    | .deliver id => p := { p with deliver := (id, n) :: p.deliver }
    | .bad _ => pure ()
  return p

def lookupPos (l : List (Id × Nat)) (id : Id) : Option Nat := (l.find? (·.1 = id)).map (·.2)

/-- the interval of trace positions during which `w` may touch the context -/
def interval (p : Pos) : Who → Option (Nat × Nat)
  | .job id => do some (← lookupPos p.launch id, ← lookupPos p.finish id)
  | .main none => some (0, 0)
  | .mainEnd => some (1000000000, 1000000000)
  | .main (some id) => do let d ← lookupPos p.deliver id; some (d, d)

def Who.show : Who → String
  | .job id => id.show
  | .main none => "main@init"
  | .mainEnd => "main@end"
  | .main (some id) => s!"main@deliver({id.show})"

/-- the fact whose truth forces "a is entirely before b" in every schedule; `none` = always true -/
def orderGoal (sc : Script) (launchAcc : Id → Option Access) (a b : Who) : Option (Option Fact) :=
  match a, b with
  | .job k, .job j => (launchAcc j).map fun acc => some ⟨.fin k, j, acc⟩
  | .job k, .main (some p) =>
    -- the main thread acts at Deliver(p) only after it saw that `k` is no longer pending: program order of the main thread
    if k = p || (sc.effects p).contains (.guard k .gone) then some none
    else (launchAcc p).map fun acc => some ⟨.fin k, p, acc⟩
  | .main (some p), .job j =>
    -- the main thread acts at Deliver(p) only after it saw that `j` is not launched yet; it is the main thread that launches
    if (sc.effects p).contains (.guard j .idle) then some none
    else (launchAcc j).map fun acc => some ⟨.del p, j, acc⟩
  | .main none, _ => some none
  | _, .mainEnd => some none
  | _, .main none => none
  | .mainEnd, _ => none
  | .main (some _), .main (some _) => some none   -- same thread

structure Conflict where
  a : Who        -- the one that is first in the recorded trace (if ordered)
  b : Who
  item : Id
  recordedOrdered : Bool
  /-- what must hold statically for the recorded order to be forced; `none` = nothing -/
  goal : Option Fact
  goalKnown : Bool

/-- (c): all pairs of accesses to one item by two different parties, one of them a write -/
def conflictPairs (sc : Script) (p : Pos) (launchAcc : Id → Option Access) (accs : List Acc) : List Conflict := Id.run do
  let mut out : List Conflict := []
  let idx := accs.zipIdx
  for (w, wi) in idx do
    if w.write then
      for (x, xi) in idx do
        if x.item = w.item && x.who ≠ w.who && (!x.write || wi < xi) then
          match interval p w.who, interval p x.who with
          | some (wl, wf), some (xl, xf) =>
            let isMain (w : Who) := match w with | .job _ => false | _ => true
            let sameThread := isMain w.who && isMain x.who
            let wFirst := wf < xl || (sameThread && wl ≤ xl)
            let xFirst := xf < wl || (sameThread && xl ≤ wl)
            if wFirst then
              let g := orderGoal sc launchAcc w.who x.who
              out := { a := w.who, b := x.who, item := w.item, recordedOrdered := true, goal := g.getD none, goalKnown := g.isSome } :: out
            else if xFirst then
              let g := orderGoal sc launchAcc x.who w.who
              out := { a := x.who, b := w.who, item := w.item, recordedOrdered := true, goal := g.getD none, goalKnown := g.isSome } :: out
            else
              out := { a := w.who, b := x.who, item := w.item, recordedOrdered := false, goal := none, goalKnown := false } :: out
          | _, _ => out := { a := w.who, b := x.who, item := w.item, recordedOrdered := false, goal := none, goalKnown := false } :: out
  return out

def sanitize (s : String) : String :=
  String.ofList (s.toList.map fun c => if c.isAlphanum then c else '_')

def bucket (n : Nat) : String :=
  if n < 40 then "lt40" else if n < 60 then "40to59" else if n < 100 then "60to99" else "ge100"

def schedWords : List String := ["nable to proceed", "is not available", "llegal", "Multiple completions", "isn't pending",
  "Repeat signals", "No count of type", "Not all counts", "has to be pending", "only"]

def containsSub (s sub : String) : Bool := (s.splitOn sub).length > 1

/-- drop everything between double quotes (glyph names etc.) -/
def stripQuoted (s : String) : String :=
  let rec go (cs : List Char) (inq : Bool) (acc : List Char) : List Char :=
    match cs with
    | [] => acc.reverse
    | c :: rest => if c == '"' then go rest (!inq) acc else if inq then go rest inq acc else go rest inq (c :: acc)
  String.ofList (go s.toList false [])

/-- maximal alphabetic tokens -/
def alphaTokens (s : String) : List String :=
  (s.split (fun c => !c.isAlpha)).toList.map (·.toString) |>.filter (fun t => !t.isEmpty)

/-- the work-id variant (`GlyphOrder`, `Glyph`, `GlyfFragment` …) named in a piece of a panic message -/
def idWord (piece : String) (last : Bool) : String :=
  let toks := (alphaTokens (stripQuoted piece)).filter fun t =>
    t != "Fe" && t != "Be" && (t.front.isUpper)
  let toks := toks.filter fun t => !(["A", "Illegal", "Multiple", "Repeat"].contains t)
  ((if last then toks.getLast? else toks.head?).getD "unknown")

/-- kind of scheduling failure and the id it names, e.g. `not-available:GlyphOrder` -/
def failureClass (msg : String) : Option String :=
  let before (m : String) := (msg.splitOn m).headD ""
  let after (m : String) := ((msg.splitOn m).drop 1).headD ""
  if containsSub msg " is not available" then some s!"not-available:{idWord (before " is not available") true}"
  else if containsSub msg "nable to proceed" then some "unable-to-proceed"
  else if containsSub msg "Illegal read of" then some s!"illegal-read:{idWord (after "Illegal read of") false}"
  else if containsSub msg "Illegal write of" then some s!"illegal-write:{idWord (after "Illegal write of") false}"
  else if containsSub msg "Multiple completions of" then some s!"completed-twice:{idWord (after "Multiple completions of") false}"
  else if containsSub msg "completed but isn't pending" then some s!"completed-twice:{idWord (before "completed but isn't pending") true}"
  else if containsSub msg "Repeat signals for completion of" then some s!"completed-twice:{idWord (after "Repeat signals for completion of") false}"
  else if schedWords.any (containsSub msg ·) then some "sched-failure"
  else none

def handle : Handler := fun s =>
  let r : Option Verdict := do
    let source ← (← s.field1? "source").asString?
    let threads ← (← s.field1? "threads").asNat?
    let status ← s.field? "status"
    let srcTag := "src_" ++ sanitize source
    let feats := ((s.field? "feats").getD []).filterMap Sexp.asAtom?
    let generated := feats.contains "generated"
    let featTags := feats.map (fun f => "f_" ++ f)
    let schedTag := match s.field1? "delay" with
      | some (.atom d) => if d == "none" then (if (s.field1? "jitter") == some (.atom "none") then "sched_undisturbed" else "sched_jitter")
                          else if (s.field1? "jitter") == some (.atom "none") then s!"sched_{d}" else s!"sched_{d}+jitter"
      | _ => "sched_unknown"
    match status with
    | .atom "ok" :: _ => pure ()
    | .atom "missing" :: _ => return { corr := none, oracle := none, tags := [srcTag, "missing"] }
    | .atom kind :: rest =>
      -- a valid source failed to build: a scheduling failure is a violation of the property itself
      let msg := (rest.head?.bind Sexp.asString?).getD ""
      let fc := failureClass msg
      let fc := if fc.isNone && (kind == "crash") then some "crash" else fc
      -- any error of a generated (valid by construction) source is a failure; of a fixture only a scheduling failure
      let fc := if fc.isNone && generated then some "generated-source-build-error" else fc
      return { corr := none, oracle := if fc.isSome then some false else none, nontrivial := false,
               cls := fc.getD "", tags := [srcTag, schedTag, s!"build-{kind}"] ++ featTags, detail := sanitize (msg.take 300).toString }
    | _ => none
    let idsS ← s.field? "ids"
    let idsL ← idsS.mapM fun
      | .list [.atom d, k] => do some ({ disc := d, key := ← k.asString? } : Id)
      | _ => none
    let ids := idsL.toArray
    let sc ← parseScript ids (← s.field? "script")
    let trace ← (← s.field? "trace").mapM (parseTEv ids)
    let accs ← (← s.field? "acc").mapM (parseAcc ids)
    let counts ← (← s.field? "counts").mapM Sexp.asNat?
    let problems := ((s.field? "problems").getD []).filterMap Sexp.asString?
    let ended := (s.field1? "ended") == some (.atom "true")
    let scriptSame := match s.field? "scriptcmp" with
      | some (.atom "same" :: _) => true
      | _ => false
    let scriptDiff := match s.field? "scriptcmp" with
      | some [_, d] => (d.asString?).getD ""
      | _ => ""
    let outSame := (s.field1? "outcmp") == some (.atom "same")
    -- (a)
    let chk := checkScriptFull sc
    let fresh := freshIds sc
    let prog := checkProgress sc (findCert sc)
    -- (b)
    let rep := replay sc trace
    let repOk := match rep with | .ok _ => true | .error _ => false
    -- (c)
    let launchAcc (id : Id) : Option Access := trace.findSome? fun
      | .launch i a _ => if i = id then some a else none
      | _ => none
    let cs := conflictPairs sc (positions trace) launchAcc accs
    let goals := (cs.filterMap (·.goal)).eraseDups
    let mp := (MPTable.mk sc (if chk.ok then chk.table else [])).extend goals
    let mpValid := mp.valid
    let isForced (c : Conflict) : Bool := c.recordedOrdered && c.goalKnown && mpValid &&
      (match c.goal with | none => true | some g => mp.has g)
    let unorderedRec := cs.filter (!·.recordedOrdered)
    let unforced := cs.filter (fun c => c.recordedOrdered && !isForced c)
    let corr := repOk && problems.isEmpty && ended
    let oracle := fresh && prog && chk.ok && repOk && unorderedRec.isEmpty && unforced.isEmpty
    let nJobs := counts.getD 0 0
    let nSpawned := counts.getD 1 0
    -- the one known shape (finding F-C02-1): GlyphOrder rewrites IR glyph X while `handle_success(Glyph X)` reads it on the
    -- main thread to decide the BE glyph job's dependencies, and (then) that BE job reads X without waiting for GlyphOrder
    let isGlyphOrderRace (c : Conflict) : Bool :=
      c.item.disc == "IrGlyph" &&
      (match c.a, c.b with
       | .job w, .main (some p) => w.disc == "IrGlyphOrder" && p = c.item
       | .main (some p), .job w => w.disc == "IrGlyphOrder" && p = c.item
       | .job a, .job b => (a.disc == "IrGlyphOrder" && b.disc == "BeGlyfFragment") || (b.disc == "IrGlyphOrder" && a.disc == "BeGlyfFragment")
       | _, _ => false)
    let bad := unorderedRec ++ unforced
    let cls :=
      if !repOk then "replay"
      else if !fresh then "freshIds"
      else if !prog then "checkProgress"
      else if chk.ok && !bad.isEmpty && bad.all isGlyphOrderRace then
        (if bad.any (fun c => match c.a, c.b with | .job _, .job _ => true | _, _ => false) then "glyphorder-vs-beglyph-unordered" else "glyphorder-vs-deliver-irglyph")
      else if !unorderedRec.isEmpty then "conflict-unordered-in-trace"
      else if !chk.ok then "checkScript"
      else if !unforced.isEmpty then "conflict-order-not-forced"
      else if !problems.isEmpty then "log-shape"
      else ""
    let showC (c : Conflict) := s!"{c.item.show} accessed by {c.a.show} and {c.b.show}"
    let detail :=
      (match rep with | .error e => s!"replay: {e}; " | .ok _ => "") ++
      (if fresh then "" else "freshIds: an id is inserted twice in the script; ") ++
      (if prog then "" else "checkProgress: no rank/resolver certificate found (dependency cycle or unresolved Unknown); ") ++
      (if chk.ok then "" else s!"checkScript: {chk.why}; ") ++
      (if unorderedRec.isEmpty then "" else s!"unordered in the recorded trace ({unorderedRec.length}): {"; ".intercalate ((unorderedRec.take 3).map showC)}; ") ++
      (if unforced.isEmpty then "" else s!"ordered in this trace but not forced ({unforced.length}): {"; ".intercalate ((unforced.take 3).map showC)}; ") ++
      (if problems.isEmpty then "" else s!"log: {"; ".intercalate (problems.take 3)}; ") ++
      (if scriptSame then "" else s!"script differs from the reference run: {scriptDiff}; ")
    let tags := [srcTag, s!"threads{threads}", s!"jobs_{bucket nJobs}", s!"spawned{nSpawned}", s!"pairs_{bucket cs.length}",
                 schedTag] ++ featTags ++
      (if scriptSame then [] else ["script-varies"]) ++ (if outSame then [] else ["output-varies"]) ++
      (if (counts.getD 3 0) > 0 then ["has-skips"] else []) ++
      (if ids.any (fun i => i.disc == "BeGlyfFragment" && i.key != "GlyfFragment(.notdef)" &&
            sc.spawns.any (fun p => p.2.id = i)) then ["glyphorder-created-glyph"] else [])
    some { corr := some corr, oracle := some oracle, nontrivial := nSpawned > 0, cls := cls, tags := tags,
           detail := (detail.replace "\n" " ") }
  r.getD (badInput "c02: cannot parse case")

end Fontc.Driver.C02
