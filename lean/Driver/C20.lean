import Driver.Common
import FontcModel.Plist
import FontcModel.Entry

namespace Fontc.Driver.C20
open Fontc Fontc.Driver Fontc.Plist

/-! ## c20plist -/

def digitsNat (ds : List Char) : Nat := digitsVal ds

/-- exact value of decimal float text `[-]digits[.digits][(e|E)[-]digits]` -/
def fltTextToRat (t : List Char) : Option Rat :=
  let neg := t.head? == some '-'
  let b := stripSign t
  let ip := b.takeWhile isDigit
  let r1 := b.dropWhile isDigit
  let (fp, r2) : List Char × List Char :=
    match r1 with
    | '.' :: u => (u.takeWhile isDigit, u.dropWhile isDigit)
    | _ => ([], r1)
  if ip.length + fp.length == 0 then none else
  let mant : Rat := ((digitsNat (ip ++ fp) : Nat) : Rat) / ((10 ^ fp.length : Nat) : Rat)
  let expo : Option Int :=
    match r2 with
    | [] => some 0
    | e :: u =>
      if e == 'e' || e == 'E' then
        let d := stripSign u
        if d.isEmpty || !d.all isDigit then none
        else some (if u.head? == some '-' then -(digitsNat d : Int) else (digitsNat d : Int))
      else none
  match expo with
  | none => none
  | some x =>
    let scale : Rat := if x ≥ 0 then ((10 ^ x.toNat : Nat) : Rat) else 1 / ((10 ^ (-x).toNat : Nat) : Rat)
    let v := mant * scale
    some (if neg then -v else v)

def fltAgrees (t : List Char) (a : String) : Bool :=
  let b := (stripSign t).map asciiLower
  let neg := t.head? == some '-'
  if b == "inf".toList || b == "infinity".toList then a == (if neg then "-inf" else "inf")
  else if b == "nan".toList then a == "nan"
  else
    match fltTextToRat t, (Sexp.atom a).asRat? with
    | some q, some f => ratClose (1 / (2 ^ 52 : Nat)) q f
    | _, _ => false

/-- does the model's value equal the implementation's dump? -/
partial def agrees (m : PVal) (s : Sexp) : Bool :=
  match m, s with
  | .dict kvs, .list (.atom "d" :: es) =>
    kvs.length == es.length && (kvs.zip es).all fun (kv, e) =>
      match e with
      | .list [k, v] => k.asString? == some (String.ofList kv.1) && agrees kv.2 v
      | _ => false
  | .arr xs, .list (.atom "a" :: es) => xs.length == es.length && (xs.zip es).all fun (x, e) => agrees x e
  | .str t, .list [.atom "s", h] => h.asString? == some (String.ofList t)
  | .int i, .list [.atom "i", a] => a.asInt? == some i
  | .flt t, .list [.atom "f", .atom a] => fltAgrees t a
  | .data bs, .list [.atom "b", h] => h.asBytes? == some bs
  | _, _ => false

def isErr : Sexp → Bool
  | .list (.atom "err" :: _) => true
  | _ => false

partial def sexpDepth : Sexp → Nat
  | .atom _ => 0
  | .list xs => 1 + (xs.map sexpDepth).foldl max 0

def handlePlist : Handler := fun s =>
  let r : Option Verdict := do
    let value ← s.field1? "value"
    let distinct := (← s.field1? "distinct") == Sexp.atom "true"
    let styled ← (← s.field1? "styled").asNat?
    let texts ← (← s.field? "texts").mapM Sexp.asString?
    let impls ← s.field? "impl"
    if texts.length != impls.length then none
    let models := texts.map fun t => parse t.toList
    let pairs := models.zip impls
    let okOne (p : Option PVal × Sexp) : Bool :=
      match p.1 with
      | none => isErr p.2
      | some m => agrees m p.2
    let bad := (pairs.zipIdx.filter fun (p, _) => !okOne p).map (·.2)
    let corr := bad.isEmpty
    let panicked := impls.any (· == Sexp.atom "panic")
    -- oracle, on the implementation's output alone: every styled text reads back as the value
    let styledImpl := impls.take styled
    let sens := (styledImpl.zipIdx.filter fun (r, _) => r != value).map (·.2)
    let oracle := sens.isEmpty
    let distinctTexts := (texts.take styled).eraseDups.length
    let nt := sexpDepth value ≥ 3 && distinctTexts ≥ 3
    let kind := match value with | .list (.atom k :: _) => k | _ => "?"
    let mutOk := match impls.getLast? with | some r => !isErr r | none => false
    let corpOk := match impls[styled]? with | some r => !isErr r | none => false
    let cls :=
      if !oracle then "plist-style-sensitive"
      else if panicked then "plist-parser-panics"
      else if !corr then "plist-parse-disagrees-with-model" else ""
    let tags := [s!"top-{kind}", s!"depth{sexpDepth value}"] ++ (if distinct then [] else ["dupkeys"]) ++
      [if mutOk then "mutant-accepted" else "mutant-rejected", if corpOk then "corpus-accepted" else "corpus-rejected"]
    let detail :=
      if !oracle then s!"styled texts {sens} read back differently"
      else if !corr then
        let i := bad.headD 0
        s!"text {i}: model={repr (models.getD i none)} impl={impls.getD i (.atom "?")}"
      else ""
    some { corr := some corr, oracle := some oracle, nontrivial := nt, cls := cls, tags := tags, detail := detail }
  r.getD (badInput "c20plist: cannot parse case")

/-! ## c20args -/

open Fontc.Entry in
def parseTri (s : Sexp) : Option Tri :=
  match s with
  | .atom "none" => some .unset
  | .atom "bare" => some .on
  | .atom "true" => some .on
  | .atom "false" => some .off
  | _ => none

def asBool? (s : Sexp) : Option Bool :=
  match s with
  | .atom "true" => some true
  | .atom "false" => some false
  | _ => none

def optStr? (s : Sexp) : Option (Option (List Char)) :=
  match s with
  | .atom "none" => some none
  | _ => (fun (x : String) => some x.toList) <$> s.asString?

open Fontc.Entry in
def handleArgs : Handler := fun s =>
  let r : Option Verdict := do
    let kind ← (← s.field1? "path_kind").asAtom?
    let fname ← (← s.field1? "fname").asString?
    let b (k : String) : Option Bool := do asBool? (← s.field1? k)
    let output ← optStr? (← s.field1? "output")
    let buildDir ← optStr? (← s.field1? "build_dir")
    let prefer ← (← s.field1? "prefer_simple").asAtom?
    let srcFlags := (← s.field1? "src_flags").asNat?
    let impl := Sexp.list (← s.field? "impl")
    -- the file name stands for the path: dispatch looks at the last component only
    let a : Args :=
      { path := ("/d/" ++ fname).toList
        emitIr := ← b "emit_ir", emitDebug := ← b "emit_debug", emitTiming := ← b "emit_timing"
        outputFile := output
        buildDir := buildDir.getD "build".toList
        preferSimpleGlyphs := prefer != "false"
        flattenComponents := ← parseTri (← s.field1? "flatten")
        eraseOpenCorners := ← parseTri (← s.field1? "erase")
        propagateAnchors := ← parseTri (← s.field1? "propagate")
        decomposeTransformedComponents := ← b "dtc", decomposeComponents := ← b "dc"
        skipFeatures := ← b "skip_features", emitLookupDebugInfo := ← b "debg"
        keepDirection := ← b "keep_direction", noProductionNames := ← b "no_production_names" }
    if (impl.field? "clap").isSome then
      -- clap rejected the command line: nothing to compare
      some { corr := none, oracle := none, cls := "clap-rejected", tags := ["clap-rejected"] }
    else
    let o := a.toOptions
    let iInput ← impl.field1? "input"
    let mInput := Input.new (kind != "missing") a.path
    let inputOk :=
      match mInput, iInput with
      | .ok (.designSpacePath _), .list [.atom "designspace", _] => true
      | .ok (.glyphsPath _), .list [.atom "glyphs", _] => true
      | .ok (.fontraPath _), .list [.atom "fontra", _] => true
      | .error .fileExpected, .list [.atom "err", .atom "FileExpected"] => true
      | .error .unrecognizedSource, .list [.atom "err", .atom "UnrecognizedSource"] => true
      | _, _ => false
    let n (k : String) : Option Nat := do (← impl.field1? k).asNat?
    let flagsOk := (← n "flags") == o.flags.bits
    let disableOk := (← n "disable") == o.flagsToDisable.bits
    let boolsOk := asBool? (← impl.field1? "skip_features") == some o.skipFeatures &&
      asBool? (← impl.field1? "compile_debg") == some o.compileDebg
    let pathsOk := optStr? (← impl.field1? "output_file") == some o.outputFile &&
      optStr? (← impl.field1? "timing_file") == some o.timingFile &&
      optStr? (← impl.field1? "debug_dir") == some o.debugDir &&
      optStr? (← impl.field1? "ir_dir") == some o.irDir
    let iMerged := (← impl.field1? "merged").asNat?
    let mergedOk :=
      match srcFlags, iMerged with
      | some sf, some im => (mergeFlags o (Flags.ofBits sf)).bits == im
      | none, none => true
      | _, _ => false
    let libDefaultOk := (← n "lib_default_flags") == Options.default.flags.bits
    let corr := inputOk && flagsOk && disableOk && boolsOk && pathsOk && mergedOk && libDefaultOk
    -- oracle on the implementation's output: a flag the user disabled is off, a flag the user or the source
    -- enabled (and nobody disabled) is on, in the merged set
    let oracle :=
      match srcFlags, iMerged, n "flags", n "disable" with
      | some sf, some im, some fl, some di =>
        (List.range 11).all fun bit =>
          let on (x : Nat) := x.testBit bit
          if on di then !on im else on im == (on fl || on sf)
      | _, _, _, _ => true
    let cls := if !oracle then "flag-merge-wrong" else if !corr then
      (if !inputOk then "input-dispatch" else if !flagsOk then "flags" else if !disableOk then "disable"
       else if !pathsOk then "paths" else if !mergedOk then "merge" else "other") else ""
    let tags := [s!"kind-{kind}"] ++ (if a.flattenComponents != .unset || a.eraseOpenCorners != .unset || a.propagateAnchors != .unset then ["tristate"] else [])
    some { corr := some corr, oracle := some oracle, nontrivial := srcFlags.isSome, cls := cls, tags := tags,
           detail := if corr then "" else s!"model flags={o.flags.bits} disable={o.flagsToDisable.bits} out={repr o.outputFile} input={repr mInput}" }
  r.getD (badInput "c20args: cannot parse case")

/-! ## c20e2e -/

structure RouteRes where
  name : String
  ok : Bool
  len : Nat
  sha : String
  diff : String
  msg : String

def parseRoute (s : Sexp) : Option RouteRes :=
  match s with
  | .list [.atom name, .atom st, len, .atom sha, .atom diff, msg] => do
    some { name := name, ok := st == "ok", len := ← len.asNat?, sha := sha, diff := diff, msg := (msg.asString?).getD "" }
  | _ => none

def handleE2E : Handler := fun s =>
  let r : Option Verdict := do
    let kind ← (← s.field1? "kind").asAtom?
    let src ← (← s.field1? "source").asString?
    let notes ← (← s.field? "notes").mapM Sexp.asString?
    let routes ← (← s.field? "routes").mapM parseRoute
    let ref ← routes.head?
    -- the property: every route gives what the reference route gives (same bytes, or all refuse)
    let differs := routes.filter fun r => r.ok != ref.ok || (r.ok && (r.sha != ref.sha || r.len != ref.len))
    let oracle := differs.isEmpty
    let cls := match differs.head? with
      | some d => s!"route-differs:{d.name}"
      | none => ""
    let detail := match differs.head? with
      | some d => s!"source={src} reference={ref.name}({if ref.ok then s!"ok len={ref.len} sha={ref.sha}" else "err " ++ ref.msg}) route={d.name}({if d.ok then s!"ok len={d.len} sha={d.sha} first-differing-table={d.diff}" else "err " ++ d.msg}) all-differing={differs.map (·.name)}"
      | none => ""
    let nt := ref.ok && routes.length ≥ 5
    let tags := [s!"kind-{kind}", s!"routes{routes.length}", if ref.ok then "builds" else "all-refuse"] ++
      notes.map (fun n => ((n.splitOn ":").headD n))
    some { corr := none, oracle := some oracle, nontrivial := nt, cls := cls, tags := tags, detail := detail }
  r.getD (badInput "c20e2e: cannot parse case")

/-! ## c20unicode -/

def handleUnicode : Handler := fun s =>
  let r : Option Verdict := do
    let radix ← (← s.field1? "radix").asNat?
    let expected ← (← s.field? "codepoints").mapM Sexp.asNat?
    let variants ← (← s.field? "variants").mapM fun v =>
      match v with
      | .list [.atom n, t] => (fun (x : String) => (n, x)) <$> t.asString?
      | _ => none
    let impls ← s.field? "impl"
    if variants.length != impls.length then none
    let okOf (l : List Nat) : Sexp := .list (.atom "ok" :: (l.mergeSort (· ≤ ·)).eraseDups.map Sexp.ofNat)
    let model (t : String) : Sexp :=
      match typedUnicodeRaw t.toList with
      | none => .atom "err"
      | some raw =>
        match codepoints radix raw with
        | none => .atom "panic"
        | some l => okOf l
    let bad := ((variants.zip impls).filter fun (v, i) => model v.2 != i).map (·.1.1)
    let corr := bad.isEmpty
    let want := okOf expected
    let sens := ((variants.zip impls).filter fun (_, i) => i != want).map (·.1.1)
    let oracle := sens.isEmpty
    let cls := if !oracle then "unicode-layout-sensitive" else if !corr then "unicode-model-disagrees" else ""
    let detail :=
      if !oracle then s!"layouts of the same tokens that do not read as {want}: {sens}"
      else if !corr then s!"model differs on {bad}" else ""
    some { corr := some corr, oracle := some oracle, nontrivial := expected.length ≥ 2, cls := cls,
           tags := [s!"radix{radix}", s!"codepoints{expected.length}"], detail := detail }
  r.getD (badInput "c20unicode: cannot parse case")

end Fontc.Driver.C20
