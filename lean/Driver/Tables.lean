import FontcModel.Limits
import FontcModel.FeaLex
import FontcModel.FeaInclude
import FontcModel.Paths
import FontcModel.Sfnt

/-!
  `vtables`: prints every constant table that a model copies from the Rust source, one canonical line per entry,
  prefixed by the property that relies on it. `bin/tablesync.py` extracts the same tables from /repo's current source
  text and compares: a table edited in the code is seen exactly, whether or not a generated input happens to reach the
  edited entry.
-/
open Fontc

def tagString (t : UInt32) : String :=
  String.ofList ([24, 16, 8, 0].map fun sh => Char.ofNat ((t.toNat >>> sh) % 256))

def main : IO Unit := do
  for (a, b, c) in Limits.unicodeRanges do
    IO.println s!"C17 unicodeRanges {a} {b} {c}"
  for (w, k) in FeaLex.keywordTable do
    IO.println s!"C13 keyword {w} {k}"
  IO.println s!"C13 maxIncludeDepth {FeaInclude.MAX_INCLUDE_DEPTH}"
  IO.println s!"C14 sepChar {Paths.sepChar}"
  for c in List.range 0x100 do
    if Paths.isReservedChar c then IO.println s!"C14 reservedChar {c}"
  for n in Paths.reservedNames do
    IO.println s!"C14 reservedName {String.ofList (n.map Char.ofNat)}"
  for t in Sfnt.tablesToMerge do
    IO.println s!"C05 tablesToMerge {tagString t}"
