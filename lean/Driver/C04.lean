import Driver.Common
import Driver.C03
import FontcModel.Metric

/-!
  C04 end-to-end oracle: hmtx+HVAR, vmtx+VVAR and every MVAR-tagged global metric of the *real* font, evaluated
  with the spec evaluator at every master location, against the generated source's values for that master.
-/
namespace Fontc.Driver.C04
open Fontc Fontc.E2E Fontc.Ivs Fontc.Driver Fontc.Driver.C03

def kvInt (kv : List (String × Sexp)) (k : String) : Option Int := (kv.lookup k).bind Sexp.asInt?

/-- (fontinfo key, MVAR tag, how to read the default value from the font). -/
def metricTable (f : Font) : List (String × String × Option Int) := [
  ("xHeight", "xhgt", kvInt f.os2 "sxHeight"),
  ("capHeight", "cpht", kvInt f.os2 "sCapHeight"),
  ("openTypeOS2TypoAscender", "hasc", kvInt f.os2 "sTypoAscender"),
  ("openTypeOS2TypoDescender", "hdsc", kvInt f.os2 "sTypoDescender"),
  ("openTypeOS2TypoLineGap", "hlgp", kvInt f.os2 "sTypoLineGap"),
  ("openTypeOS2WinAscent", "hcla", kvInt f.os2 "usWinAscent"),
  ("openTypeOS2WinDescent", "hcld", kvInt f.os2 "usWinDescent"),
  ("openTypeOS2StrikeoutSize", "strs", kvInt f.os2 "yStrikeoutSize"),
  ("openTypeOS2StrikeoutPosition", "stro", kvInt f.os2 "yStrikeoutPosition"),
  ("openTypeOS2SubscriptXSize", "sbxs", kvInt f.os2 "ySubscriptXSize"),
  ("openTypeOS2SubscriptYSize", "sbys", kvInt f.os2 "ySubscriptYSize"),
  ("openTypeOS2SubscriptXOffset", "sbxo", kvInt f.os2 "ySubscriptXOffset"),
  ("openTypeOS2SubscriptYOffset", "sbyo", kvInt f.os2 "ySubscriptYOffset"),
  ("openTypeOS2SuperscriptXSize", "spxs", kvInt f.os2 "ySuperscriptXSize"),
  ("openTypeOS2SuperscriptYSize", "spys", kvInt f.os2 "ySuperscriptYSize"),
  ("openTypeOS2SuperscriptXOffset", "spxo", kvInt f.os2 "ySuperscriptXOffset"),
  ("openTypeOS2SuperscriptYOffset", "spyo", kvInt f.os2 "ySuperscriptYOffset"),
  ("postscriptUnderlinePosition", "undo", kvInt f.post "underlinePosition"),
  ("postscriptUnderlineThickness", "unds", kvInt f.post "underlineThickness"),
  ("openTypeHheaCaretOffset", "hcof", f.hhea[9]?),
  -- no MVAR tag: default-only fields
  ("openTypeHheaAscender", "", f.hhea[0]?),
  ("openTypeHheaDescender", "", f.hhea[1]?),
  ("openTypeHheaLineGap", "", f.hhea[2]?)
]

def checkMetrics (d : Design) (f : Font) : GlyphCheck × Nat :=
  let dm := d.masters.getD d.default default
  let full := d.masters.filter (!·.sparse)
  (metricTable f).foldl (fun (acc : GlyphCheck × Nat) (key, tag, fontDefault) =>
    if !acc.1.ok then acc else
    match dm.info.lookup key with
    | none => acc
    | some v0 =>
      match fontDefault with
      | none => ({ acc.1 with ok := false, cls := "metric-field-missing", detail := key }, acc.2)
      | some fd =>
        if (fd : Rat) ≠ (otRound v0 : Rat) then
          ({ acc.1 with ok := false, cls := "default-metric", detail := s!"{key}: font {fd} vs source {v0}" }, acc.2)
        else if tag.isEmpty then acc
        else
          let mrec := f.mvar.bind fun (_, recs) => recs.find? (·.1 == tag)
          let bad := full.find? fun m =>
            match m.info.lookup key with
            | none => false
            | some v =>
              let delta : Rat := match f.mvar, mrec with
                | some (ivs, _), some (_, o, i) => ivsDelta ivs o i m.nloc
                | _, _ => 0
              absR ((fd : Rat) + delta - (otRound v : Rat)) > 1/2
          match bad with
          | some m =>
            let src := (m.info.lookup key).getD 0
            ({ acc.1 with ok := false, cls := "metric-at-master", detail := s!"{key} {tag} at master {m.name}: source {src}" }, acc.2)
          | none => (acc.1, acc.2 + (if mrec.isSome then 1 else 0))) ({}, 0)

/-- vmtx + VVAR at each master equals the master's rounded advance height within 1 unit. -/
def checkHeights (d : Design) (f : Font) : GlyphCheck :=
  match f.vmtx with
  | none =>
    let dm := d.masters.getD d.default default
    let wantsVertical := ["openTypeVheaVertTypoAscender", "openTypeVheaVertTypoDescender", "openTypeVheaVertTypoLineGap"].all
      fun k => (dm.info.lookup k).isSome
    if wantsVertical then fail "no-vmtx" "" else {}
  | some vmtx =>
    d.masters.foldl (fun acc m =>
      if !acc.ok then acc else
      m.glyphs.foldl (fun acc sg =>
        if !acc.ok then acc else
        match f.gidOf? sg.name, sg.height with
        | some gid, some h =>
          let delta := match f.vvar with
            | some vv => varTableDelta vv gid m.nloc
            | none => 0
          let adv : Rat := ((vmtx.getD gid (0, 0)).1 : Rat) + delta
          if absR (adv - (otRound h : Rat)) > 1 then
            { acc with ok := false, cls := "height-at-master", detail := s!"{sg.name} at {m.name}: vmtx+VVAR = {adv}, source {h}" }
          else acc
        | _, _ => acc) acc) {}

/-! ### correspondence: the font's HVAR delta sets are those of the `AdvanceDeltas` model -/

/-- the delta set of glyph `gid` in the font: (region as (start, peak, end) per axis, delta), zero deltas dropped -/
def fontDeltaSet (vt : VarTable) (gid : Nat) : List (List (Rat × Rat × Rat) × Int) :=
  let (o, i) : Nat × Nat := match vt.map with
    | some m => (m[gid]?).getD ((m.getLast?).getD (0, 0))
    | none => (0, gid)
  match vt.ivs.data[o]? with
  | some (some d) =>
    ((d.regionIdx.zip (d.rows.getD i [])).filterMap fun (ri, dv) =>
      (vt.ivs.regions[ri]?).map fun r => (r, dv)).filter (·.2 != 0)
  | _ => []

def modelDeltaSet (e : Option Metric.Entry) : List (List (Rat × Rat × Rat) × Int) :=
  ((Metric.deltaSetOf e).map fun (r, d) => (r.map fun t => (t.min, t.peak, t.max), d.floor)).filter (·.2 != 0)

def sameSet {α} [BEq α] (a b : List α) : Bool := a.all (b.contains ·) && b.all (a.contains ·)

/-- `FontcModel/Metric.lean` (`State.addAll` over the font's glyph order) against the HVAR table of the real font.
    Glyphs with components are skipped (a decomposed glyph inherits the intermediate locations of its components:
    modelled under C12); `none` when nothing is comparable. -/
def hvarAgrees (d : Design) (f : Font) : Option (Bool × String) :=
  match f.hvar with
  | none => none
  | some hv =>
    let n := d.axes.length
    let full := d.masters.filter (!·.sparse)
    let gs : List Metric.GlyphSrc := f.names.map fun nm =>
      ⟨nm, d.masters.filterMap fun m => (m.glyph? nm).map fun sg => (m.nloc, sg.advance)⟩
    let st := (Metric.State.init n (full.map (·.nloc)) (d.masters.map (·.nloc))).addAll gs
    let comparable (nm : String) : Bool :=
      d.masters.any (fun m => (m.glyph? nm).isSome) &&
      d.masters.all fun m => match m.glyph? nm with | some sg => sg.components.isEmpty | none => true
    -- second chance at rounding ties: the code evaluates the delta expression in f64 (see `C03.deltasFollowing`)
    let followed (gid : Nat) : List (List (Rat × Rat × Rat) × Int) :=
      match st.deltas.getD gid none, gs[gid]? with
      | some e, some g =>
        if g.masters.length < 2 then modelDeltaSet (some e) else
        let fset := fontDeltaSet hv gid
        let impl (j : Nat) : Option Rat :=
          if j == 0 then none else
          (e.model.influence[j]?).map fun r =>
            ((fset.find? fun p => p.1 == r.map fun t => (t.min, t.peak, t.max)).map fun p => (p.2 : Rat)).getD 0
        let ds := deltasFollowing e.model (Metric.valuesAt n e.model g.masters) impl
        modelDeltaSet (some { e with deltas := ds })
      | e, _ => modelDeltaSet e
    let bad := (f.names.zipIdx).find? fun (nm, gid) =>
      comparable nm && !sameSet (fontDeltaSet hv gid) (modelDeltaSet ((st.deltas.getD gid none))) &&
        !sameSet (fontDeltaSet hv gid) (followed gid)
    match bad with
    | some (nm, gid) => some (false, s!"HVAR delta set of {nm}: font {fontDeltaSet hv gid} model {modelDeltaSet (st.deltas.getD gid none)}")
    | none => if f.names.any comparable then some (true, "") else none

def handle : Handler := fun s =>
  match parseDesign s with
  | none => badInput "c04: cannot parse design"
  | some d =>
    match s.field? "result" with
    | some (.atom "ok" :: _) =>
      match parseFont s with
      | none => badInput "c04: cannot parse font dump"
      | some f =>
        let adv := checkAdvances d f
        let hts := checkHeights d f
        let (met, nrec) := checkMetrics d f
        let all := [adv, hts, met]
        let nMasters := d.masters.length
        let tags := [s!"axes{d.axes.length}", s!"masters{nMasters}", s!"mvarRecords{nrec}"] ++
          (if f.vmtx.isSome then ["vertical"] else []) ++ (if d.masters.any (·.sparse) then ["sparse"] else []) ++
          (match f.hvar with | some hv => if hv.map.isSome then ["hvar-indirect"] else ["hvar-direct"] | none => [])
        let corr := hvarAgrees d f
        match all.find? (!·.ok) with
        | some b => { corr := corr.map (·.1), oracle := some false, nontrivial := nMasters ≥ 3, cls := b.cls, tags, detail := b.detail }
        | none =>
          { corr := corr.map (·.1), oracle := some true, nontrivial := nMasters ≥ 3 && nrec ≥ 1, tags,
            cls := if corr.map (·.1) == some false then "hvar-model-differs" else "",
            detail := (corr.map (·.2)).getD "" }
    | some (.atom "err" :: msg) =>
      { oracle := some false, cls := "valid-source-rejected", detail := (msg.head?.bind Sexp.asString?).getD "" }
    | _ => badInput "c04: no result"

end Fontc.Driver.C04
