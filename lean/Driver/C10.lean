import Driver.Common
import FontcModel.E2E
import FontcModel.Ivs
import FontcModel.VarModel
import FontcModel.Marks

/-!
  C10 drivers.
  * `handle`     (stream `c10`):    real `AnchorKind::new` and real `MarkLookupBuilder` vs `FontcModel/Marks.lean`;
                                    oracle: every source pair is carried by exactly one emitted lookup, every emitted
                                    anchor evaluates to otRound(source) at the default and within 1/2 at every location.
  * `handleE2E`  (stream `c10e2e`): the same property evaluated on the GPOS/GDEF tables of the compiled font.
-/
namespace Fontc.Driver.C10
open Fontc Fontc.Marks Fontc.VarModel Fontc.Driver

def absR (x : Rat) : Rat := if x < 0 then -x else x

/-! ### shared parsing -/

def parseTent (s : Sexp) : Option Tent :=
  match s with
  | .list [a, b, c] => do some ⟨← a.asRat?, ← b.asRat?, ← c.asRat?⟩
  | _ => none

def parseDeltas (s : Sexp) : Option (Option (List (Region × Int))) :=
  match s with
  | .atom "none" => some none
  | .atom _ => none
  | l => some <$> l.mapM? fun p =>
    match p with
    | .list [r, d] => do some ((← r.mapM? parseTent), (← d.asInt?))
    | _ => none

/-- an anchor as the builder received it: default x, y and optional delta sets -/
structure IAnchor where
  x : Int
  y : Int
  xd : Option (List (Region × Int))
  yd : Option (List (Region × Int))
  deriving Repr, BEq

def parseIAnchor (s : Sexp) : Option IAnchor :=
  match s with
  | .list [x, y, xd, yd] => do some ⟨← x.asInt?, ← y.asInt?, ← parseDeltas xd, ← parseDeltas yd⟩
  | _ => none

def IAnchor.eval (a : IAnchor) (loc : Loc) : Rat × Rat :=
  let ev (v : Int) (d : Option (List (Region × Int))) : Rat :=
    (v : Rat) + ratSum ((d.getD []).map fun (r, dv) => scalarAt r loc * (dv : Rat))
  (ev a.x a.xd, ev a.y a.yd)

def IAnchor.ofModel (a : AnchorOut) : IAnchor := ⟨a.x.default, a.y.default, a.x.device, a.y.device⟩

/-- canonical view of one lookup on both sides -/
structure ILookup where
  kind : LKind
  name : String
  flags : Nat
  filter : Option (List Nat)
  /-- mark map: gid ↦ anchor -/
  marks : List (Nat × IAnchor)
  /-- base map: gid ↦ per component the anchors pushed (in push order; the last one is built) -/
  bases : List (Nat × List (List IAnchor))
  deriving Repr, BEq

def parseKind (s : Sexp) : Option LKind :=
  match s with
  | .atom "base" => some .base | .atom "lig" => some .lig | .atom "mkmk" => some .mkmk | _ => none

/-- one subtable of the harness dump → ILookup (each fontc mark lookup has one subtable and one class) -/
def parseILookup (s : Sexp) : Option ILookup :=
  match s with
  | .list [k, fl, filt, .list [.list [classes, marks, bases]]] => do
    let kind ← parseKind k
    let flags ← fl.asNat?
    let filter ← match filt with
      | .atom "none" => some none
      | f => some <$> f.mapM? Sexp.asNat?
    let name ← match classes with
      | .list [.list [_, n]] => n.asString?
      | _ => none
    let marks ← marks.mapM? fun m =>
      match m with
      | .list [g, _, a] => do some ((← g.asNat?), (← parseIAnchor a))
      | _ => none
    let bases ← bases.mapM? fun b =>
      match b with
      | .list [g, comps] => do
        let comps ← comps.mapM? fun c => c.mapM? fun ca =>
          match ca with
          | .list [_, a] => parseIAnchor a
          | _ => none
        some ((← g.asNat?), comps)
      | _ => none
    some { kind, name, flags, filter, marks, bases }
  | _ => none

/-! ### pure stream -/

/-- payload of a source anchor in the pure stream: original name and its positions -/
structure Src where
  name : String
  pos : Positions
  deriving Repr, BEq

instance : DecidableEq Src := fun a b =>
  if h : a.name = b.name ∧ a.pos = b.pos then isTrue (by cases a; cases b; simp_all)
  else isFalse (by intro e; subst e; simp at h)

def kindToSexp : Except BadAnchor Kind → Sexp
  | .ok (.base g) => .list [.atom "base", Sexp.ofString (String.ofList g)]
  | .ok (.mark g) => .list [.atom "mark", Sexp.ofString (String.ofList g)]
  | .ok (.ligature g i) => .list [.atom "lig", Sexp.ofString (String.ofList g), .atom (toString i)]
  | .ok (.componentMarker i) => .list [.atom "comp", .atom (toString i)]
  | .ok (.caret i) => .list [.atom "caret", .atom (toString i)]
  | .ok (.vcaret i) => .list [.atom "vcaret", .atom (toString i)]
  | .ok .cursiveEntry => .list [.atom "entry"]
  | .ok .cursiveExit => .list [.atom "exit"]
  | .error .zeroIndex => .list [.atom "err", .atom "ZeroIndex"]
  | .error .nilMarkGroup => .list [.atom "err", .atom "NilMarkGroup"]
  | .error .numberedMarkAnchor => .list [.atom "err", .atom "NumberedMarkAnchor"]

/-- group pushes by glyph id (ascending), keeping push order within a glyph -/
def groupByGid {β : Type} (xs : List (Nat × β)) : List (Nat × List β) :=
  (sortDedupNat (xs.map (·.1))).map fun g => (g, (xs.filter (·.1 == g)).map (·.2))

def modelILookup (nAxes : Nat) (l : Lookup Src) : ILookup :=
  let res (s : Src) : IAnchor := IAnchor.ofModel (resolveAnchor nAxes s.pos)
  let marks := (groupByGid l.marks).filterMap fun (g, vs) => vs.getLast?.map fun v => (g, res v)
  let bases : List (Nat × List (List IAnchor)) :=
    match l.kind with
    | .lig =>
      -- one insert_ligature call per glyph: per component at most one anchor
      (groupByGid l.bases).filterMap fun (g, pushes) => pushes.getLast?.map fun comps =>
        (g, comps.map fun c => match c with | some v => [res v] | none => [])
    | _ =>
      (groupByGid l.bases).map fun (g, pushes) =>
        (g, [pushes.filterMap fun comps => (comps.head?.join).map res])
  { kind := l.kind, name := String.ofList l.name, flags := if l.filter.isSome then 16 else 0,
    filter := l.filter, marks, bases }

structure PGlyph where
  name : String
  gid : Option Nat
  cls : Option GClass
  anchors : List (String × List (Nat × Rat × Rat))

def parsePGlyph (s : Sexp) : Option PGlyph :=
  match s with
  | .list [n, g, c, as] => do
    let gid ← match g with
      | .atom "none" => some none
      | g => some <$> g.asNat?
    let cls ← match c with
      | .atom "none" => some none
      | c => do some (GClass.ofNat? (← c.asNat?))
    let anchors ← as.mapM? fun a =>
      match a with
      | .list [an, ps] => do
        let ps ← ps.mapM? fun p =>
          match p with
          | .list [li, x, y] => do some ((← li.asNat?), (← x.asRat?), (← y.asRat?))
          | _ => none
        some ((← an.asString?), ps)
      | _ => none
    some ⟨← n.asString?, gid, cls, anchors⟩
  | _ => none

/-- value check of one emitted anchor against its source positions: exact at the default, within 1/2 elsewhere -/
def valueOk (nAxes : Nat) (a : IAnchor) (pos : Positions) : Bool :=
  pos.all fun (loc, sx, sy) =>
    let (ex, ey) := a.eval loc
    let (rx, ry) : Rat × Rat := ((otRound sx : Int), (otRound sy : Int))
    if loc == List.replicate nAxes 0 then ex == rx && ey == ry
    else absR (ex - rx) ≤ 1/2 && absR (ey - ry) ≤ 1/2

def ILookup.markAnchor (l : ILookup) (m : Nat) : Option IAnchor := (l.marks.find? (·.1 == m)).map (·.2)

def ILookup.baseAnchor (l : ILookup) (g comp : Nat) : Option IAnchor := do
  let (_, comps) ← l.bases.find? (·.1 == g)
  let pushes ← comps[comp]?
  pushes.getLast?

def handle : Handler := fun s =>
  let r : Option Verdict := do
    let nAxes ← (← s.field1? "naxes").asNat?
    let locs ← (← s.field1? "locs").mapM? (fun l => l.mapM? Sexp.asRat?)
    let names ← (← s.field1? "names").mapM? Sexp.asString?
    let pglyphs ← (← s.field1? "glyphs").mapM? parsePGlyph
    let impl := Sexp.list (← s.field? "impl")
    let iKinds ← (← impl.field1? "kinds").asList?
    -- 1. anchor names
    let mKinds := names.map fun n => kindToSexp (anchorKind n.toList)
    let kindsAgree := mKinds == iKinds
    -- 2. glyphs of the glyph order, by gid
    let inOrder := pglyphs.filterMap fun g => g.gid.map fun gid => (gid, g)
    let gids := sortDedupNat (inOrder.map (·.1))
    let gs : List (Glyph Src) := gids.filterMap fun gid =>
      (inOrder.find? (·.1 == gid)).map fun (_, g) =>
        { gid, cls := g.cls,
          anchors := g.anchors.filterMap fun (an, ps) =>
            match anchorKind an.toList with
            | .ok k => some { kind := k, val := ⟨an, ps.map fun (li, x, y) => (locs.getD li [], x, y)⟩ }
            | .error _ => none }
    let pairs := sourcePairs gs
    let isVariable := gs.any fun g => g.anchors.any fun a => a.val.pos.length > 1
    let dupKind := gs.any fun g => !(g.anchors.map (·.kind)).Pairwise (· ≠ ·)
    let tagsBase := [s!"axes{nAxes}", if classesEmpty gs then "noclasses" else "classes"] ++
      (if isVariable then ["variable"] else []) ++ (if dupKind then ["dupkind"] else []) ++
      (if pairs.any (·.kind == .base) then ["markbase"] else []) ++
      (if pairs.any (·.kind == .lig) then ["marklig"] else []) ++
      (if pairs.any (·.kind == .mkmk) then ["mkmk"] else []) ++
      -- the points the pair quantifier excludes, to see that they are exercised:
      (if (pruned gs).any (fun g => g.cls == some .mark && !isMarkGlyph gs g && g.anchors.any (fun a => (baseGroupOf a.kind).isSome))
        then ["gdefmark-without-markanchor"] else []) ++
      (if (pruned gs).any (fun g => isMarkGlyph gs g && g.anchors.any (fun a => match a.kind with
          | .base n => g.anchors.any (fun b => b.kind == .mark n) | _ => false)) then ["top-and-_top"] else []) ++
      (if (pruned gs).any (fun g => !isMarkGlyph gs g && g.anchors.any (·.kind.isMark)) then ["markanchor-on-nonmark"] else []) ++
      (if (pruned gs).any (fun g => isMarkGlyph gs g && (g.anchors.filter (·.kind.isMark)).length > 1) then ["multi-markclass"] else [])
    match impl.field? "result" with
    | some [.atom "ok"] =>
      let iLookups ← (← impl.field1? "lookups").mapM? parseILookup
      let abvm ← (← impl.field1? "abvm").asNat?
      let mLookups := (allLookups gs).map (modelILookup nAxes)
      let lookupsAgree := mLookups == iLookups && abvm == 0
      let corr := kindsAgree && lookupsAgree
      -- oracle on the implementation's lookups
      let covered := pairs.all fun p =>
        let carrying := iLookups.filter fun l =>
          l.kind == p.kind && l.name == String.ofList p.name &&
          (l.markAnchor p.mark).isSome && (l.baseAnchor p.base (p.comp - 1)).isSome
        carrying.length == 1
      let values := pairs.all fun p =>
        iLookups.all fun l =>
          if l.kind == p.kind && l.name == String.ofList p.name then
            (match l.markAnchor p.mark with
              | some a => valueOk nAxes a p.markVal.pos
              | none => true) &&
            -- with duplicate anchor kinds on one glyph the later anchor is built; values are checked for the built one
            (match l.baseAnchor p.base (p.comp - 1) with
              | some a => dupKind || valueOk nAxes a p.baseVal.pos
              | none => true)
          else true
      let oracle := covered && values
      let cls :=
        if !oracle then (if !covered then "pair-not-covered-once" else "anchor-value")
        else if !corr then (if !kindsAgree then "anchor-kind" else "lookups")
        else ""
      let detail := if corr then "" else
        if !kindsAgree then s!"model_kinds={Sexp.list mKinds}" else s!"model_lookups={repr mLookups}"
      some { corr := some corr, oracle := some oracle, nontrivial := pairs.length ≥ 2, cls,
             tags := tagsBase ++ [s!"pairs{min pairs.length 9}"], detail }
    | some (.atom "err" :: w) =>
      some { corr := some false, oracle := some false, cls := "builder-error",
             tags := tagsBase, detail := toString (Sexp.list w) }
    | _ => none
  match s.field? "panic" with
  | some m => { corr := some false, oracle := some false, cls := "panic", detail := toString (Sexp.list m) }
  | none => r.getD (badInput "c10: cannot parse case")

/-! ### end-to-end stream -/

open Fontc.E2E in
/-- `propagate_anchors.rs` restricted to what the generator produces under the propagateAnchors filter:
    a composite without anchors of its own whose components are simple glyphs with pure-offset transforms.
    (Not part of the model or of any theorem: only used to know what the *source* says in those cases.) -/
def propagated (m : SMaster) (g : SGlyph) : List (String × Rat × Rat) :=
  let step (st : List (String × Rat × Rat) × Bool) (ic : SComp × Nat) : List (String × Rat × Rat) × Bool :=
    let (c, idx) := ic
    match m.glyph? c.base with
    | none => st
    | some cg =>
      cg.anchors.foldl (fun (st : List (String × Rat × Rat) × Bool) (a : String × Rat × Rat) =>
        let (all, hasU) := st
        let (n, x, y) := a
        let under := n.startsWith "_"
        if (idx > 0 || hasU) && under then st
        else if idx > 0 && n.startsWith "entry" then st
        else
          let p : String × Rat × Rat := (n, x + c.t.getD 4 0, y + c.t.getD 5 0)
          let all' := if all.any (·.1 == n) then all.map (fun q => if q.1 == n then p else q) else all ++ [p]
          (all', hasU || under)) st
  let own := g.anchors
  let (all, _) := g.components.zipIdx.foldl step ([], own.any (·.1.startsWith "_"))
  own.foldl (fun all p => if all.any (·.1 == p.1) then all.map (fun q => if q.1 == p.1 then p else q) else all ++ [p]) all

open Fontc.E2E in
/-- the anchors the source gives glyph `g` in master `m` -/
def effAnchors (variant : Nat) (m : SMaster) (g : SGlyph) : List (String × Rat × Rat) :=
  if variant == 2 && !g.components.isEmpty then propagated m g else g.anchors

/-- font-side anchor: coordinates and optional variation indices -/
structure FAnchor where
  x : Int
  y : Int
  xd : Option (Nat × Nat)
  yd : Option (Nat × Nat)
  deriving Repr

def parseDev (s : Sexp) : Option (Option (Nat × Nat)) :=
  match s with
  | .atom "none" => some none
  | .list [o, i] => do some (some ((← o.asNat?), (← i.asNat?)))
  | _ => none

def parseFAnchor (s : Sexp) : Option (Option FAnchor) :=
  match s with
  | .atom "none" => some none
  | .list [x, y, xd, yd] => do some (some ⟨← x.asInt?, ← y.asInt?, ← parseDev xd, ← parseDev yd⟩)
  | _ => none

structure FSub where
  kind : LKind
  markCov : List Nat
  baseCov : List Nat
  marks : List (Nat × Option FAnchor)
  /-- per covered base glyph, per component (one for base/mkmk), per class -/
  bases : List (List (List (Option FAnchor)))

structure FLookup where
  index : Nat
  typ : Nat
  flags : Nat
  subs : List FSub

def parseFSub (s : Sexp) : Option FSub :=
  match s with
  | .list [k, mc, bc, marks, bases] => do
    let kind ← parseKind k
    let marks ← marks.mapM? fun m =>
      match m with
      | .list [c, a] => do some ((← c.asNat?), (← parseFAnchor a))
      | _ => none
    let bases ← match kind with
      | .lig => bases.mapM? fun l => l.mapM? fun c => c.mapM? parseFAnchor
      | _ => bases.mapM? fun r => do some [← r.mapM? parseFAnchor]
    some ⟨kind, ← mc.mapM? Sexp.asNat?, ← bc.mapM? Sexp.asNat?, marks, bases⟩
  | _ => none

def FAnchor.eval (ivs : Option E2E.Ivs) (a : FAnchor) (loc : List Rat) : Rat × Rat :=
  let ev (v : Int) (d : Option (Nat × Nat)) : Rat :=
    (v : Rat) + match d, ivs with
      | some (o, i), some ivs => Ivs.ivsDelta ivs o i loc
      | _, _ => 0
  (ev a.x a.xd, ev a.y a.yd)

/-- the (mark anchor, base anchor) a subtable applies to mark glyph `m` on base glyph `g`, component `comp` -/
def FSub.rule (st : FSub) (m g comp : Nat) : Option (FAnchor × FAnchor) := do
  let mi ← st.markCov.idxOf? m
  let (cls, ma) ← st.marks[mi]?
  let ma ← ma
  let bi ← st.baseCov.idxOf? g
  let rec_ ← st.bases[bi]?
  let comps ← rec_[comp]?
  let ba ← (← comps[cls]?)
  some (ma, ba)

def endsWith (s suffix : String) : Bool := (s.toList.reverse.take suffix.length) == suffix.toList.reverse

open Fontc.E2E in
def handleE2E : Handler := fun s =>
  match parseDesign s with
  | none => badInput "c10e2e: cannot parse design"
  | some d =>
    match s.field? "result" with
    | some (.atom "ok" :: _) =>
      let r : Option Verdict := do
        let variant ← (← s.field1? "variant").asNat?
        let cats ← (← s.field1? "cats").mapM? fun c =>
          match c with
          | .list [n, .atom c] => do some ((← n.asString?), c)
          | _ => none
        let font := Sexp.list (← s.field? "font")
        let names ← (← font.field1? "names").mapM? Sexp.asString?
        let gm := Sexp.list (← s.field? "gposmarks")
        let features ← match gm.field1? "features" with
          | none => some []
          | some f => f.mapM? fun p =>
            match p with
            | .list [t, ls] => do some ((← t.asString?), (← ls.mapM? Sexp.asNat?))
            | _ => none
        let lookups ← match gm.field1? "lookups" with
          | none => some []
          | some ls => (← ls.asList?).zipIdx.mapM fun (l, i) =>
            match l with
            | .list [t, fl, _, subs] => do some (FLookup.mk i (← t.asNat?) (← fl.asNat?) (← subs.mapM? parseFSub))
            | _ => none
        let gdefClasses ← match gm.field1? "gdefclasses" with
          | none => some []
          | some c => c.mapM? Sexp.asNat?
        let ivs ← match gm.field? "ivs" with
          | none => some none
          | some [i] => some <$> parseIvs i
          | _ => none
        let dm := d.masters.getD d.default default
        let nAxes := d.axes.length
        -- source categories
        let prelim (n : String) : Option GClass :=
          if variant == 0 then
            match cats.find? (·.1 == n) with
            | some (_, "base") => some .base | some (_, "mark") => some .mark
            | some (_, "ligature") => some .ligature | some (_, "component") => some .component
            | _ => none
          else if variant == 2 then
            (if endsWith n "comb" then some .mark else if n.toList.contains '_' then some .ligature else none)
          else none
        -- glyphs in font order with the source's anchors (names) and kinds
        let gs : List (Glyph String) := names.zipIdx.filterMap fun (n, gid) =>
          (dm.glyph? n).map fun sg =>
            let anchors := (effAnchors variant dm sg).filterMap fun (an, _, _) =>
              match anchorKind an.toList with
              | .ok k => some { kind := k, val := an }
              | .error _ => none
            { gid, cls := finalCategory (variant == 2) (prelim n) (anchors.map (·.kind)), anchors }
        -- positions of anchor `an` of glyph `n` over the masters
        let positions (n an : String) : Positions := d.masters.filterMap fun m =>
          (m.glyph? n).bind fun sg => ((effAnchors variant m sg).find? (·.1 == an)).map fun (_, x, y) => (m.nloc, x, y)
        let nameOf (gid : Nat) : String := names.getD gid ""
        let pairs := sourcePairs gs
        let featLookups (tags : List String) : List Nat := (features.filter fun f => tags.contains f.1).flatMap (·.2)
        let inMark := featLookups ["mark", "mkmk"]
        -- check one pair
        let check (p : Pair String) : Option (String × String) :=
          let bpos := positions (nameOf p.base) p.baseVal
          let mpos := positions (nameOf p.mark) p.markVal
          let dflt := List.replicate nAxes (0 : Rat)
          let want (pos : Positions) : Option (Int × Int) := (pos.find? (·.1 == dflt)).map fun (_, x, y) => (otRound x, otRound y)
          let desc := s!"{nameOf p.base}:{p.baseVal} <- {nameOf p.mark}:{p.markVal}"
          match want bpos, want mpos with
          | some wb, some wm =>
            let typ := match p.kind with | .base => 4 | .lig => 5 | .mkmk => 6
            let cands : List (FLookup × FAnchor × FAnchor) := (lookups.filter (·.typ == typ)).flatMap fun l =>
              l.subs.filterMap fun st => (st.rule p.mark p.base (p.comp - 1)).map fun (ma, ba) => (l, ma, ba)
            let matching := cands.filter fun (_, ma, ba) => (ma.x, ma.y) == wm && (ba.x, ba.y) == wb
            let inFeature := matching.filter fun (l, _, _) => inMark.contains l.index
            if cands.isEmpty then some ("pair-not-covered", desc)
            else if matching.isEmpty then some ("anchor-default-differs", s!"{desc}: want base {wb} mark {wm}")
            else if inFeature.isEmpty then some ("lookup-not-in-feature", desc)
            else if inFeature.length > 1 then some ("pair-covered-twice", desc)
            else
              -- every master
              let bad := inFeature.findSome? fun (_, ma, ba) =>
                let chk (a : FAnchor) (pos : Positions) : Option String := pos.findSome? fun (loc, sx, sy) =>
                  let (ex, ey) := a.eval ivs loc
                  let (rx, ry) : Rat × Rat := ((otRound sx : Int), (otRound sy : Int))
                  let ok := if loc == dflt then ex == rx && ey == ry else absR (ex - rx) ≤ 1/2 && absR (ey - ry) ≤ 1/2
                  if ok then none else some s!"at {loc}: font ({ex},{ey}) source ({sx},{sy})"
                match chk ma mpos with
                | some e => some s!"mark anchor {e}"
                | none => (chk ba bpos).map fun e => s!"base anchor {e}"
              bad.map fun e => ("anchor-at-master", s!"{desc}: {e}")
          | _, _ => some ("source-anchor-without-default", desc)
        let pairFail := pairs.findSome? check
        -- GDEF: source marks are class 3; glyphs used as marks are class 3
        let srcMarks := gs.filter fun g => g.cls == some .mark
        let gdefFail : Option (String × String) :=
          match srcMarks.find? (fun g => gdefClasses.getD g.gid 0 != 3) with
          | some g => some ("source-mark-not-gdef-mark", nameOf g.gid)
          | none =>
            match (lookups.flatMap fun l => l.subs.flatMap (·.markCov)).find? (fun g => gdefClasses.getD g 0 != 3) with
            | some g => some ("attaching-mark-not-gdef-mark", nameOf g)
            | none => none
        -- source categories reach GDEF unchanged
        let catFail : Option (String × String) :=
          if gs.all (·.cls.isNone) then none else
          (gs.find? fun g => gdefClasses.getD g.gid 0 != gdefClassValue g.cls).map fun g =>
            ("gdef-class-differs", s!"{nameOf g.gid}: font {gdefClasses.getD g.gid 0} source {gdefClassValue g.cls}")
        let fail := pairFail <|> gdefFail <|> catFail
        let nMasters := d.masters.length
        let tags := [s!"variant{variant}", s!"axes{nAxes}", s!"masters{nMasters}", s!"pairs{min pairs.length 9}"] ++
          (if pairs.any (·.kind == .base) then ["markbase"] else []) ++
          (if pairs.any (·.kind == .lig) then ["marklig"] else []) ++
          (if pairs.any (·.kind == .mkmk) then ["mkmk"] else []) ++
          (if d.masters.any (·.sparse) then ["sparse"] else []) ++
          (if features.any (fun f => f.1 == "abvm" || f.1 == "blwm") then ["abvm"] else []) ++
          (if variant == 2 && gs.any (fun g => pairs.any (fun p => p.base == g.gid) &&
              ((dm.glyph? (nameOf g.gid)).map (fun sg => !sg.components.isEmpty)).getD false) then ["propagated-pair"] else []) ++
          (if ivs.isSome then ["variable"] else [])
        let nt := pairs.length ≥ 2 && nMasters ≥ 2
        match fail with
        | some (cls, detail) => some { corr := none, oracle := some false, nontrivial := nt, cls, tags, detail }
        | none => some { corr := none, oracle := some true, nontrivial := nt, tags }
      r.getD (badInput "c10e2e: cannot parse font dump")
    | some (.atom "err" :: msg) =>
      { corr := none, oracle := some false, cls := "valid-source-rejected",
        detail := (msg.head?.bind Sexp.asString?).getD "" }
    | _ =>
      match s.field? "panic" with
      | some m => { corr := none, oracle := some false, cls := "panic", detail := toString (Sexp.list m) }
      | none => badInput "c10e2e: no result"

/-! ### directed stream `c10big`: large mark lookups

  The source (written down in harness/src/c10.rs `big_design`) has `attaching` glyphs that each carry the anchor `top`
  (or `top_1`/`top_N` on one ligature) and one mark `acutecomb` with `_top`, no categories: every attaching glyph ×
  `acutecomb` is a source pair.  The oracle is clause (a) of the property on the compiled font: every one of them is
  covered for that mark. -/
def handleBig : Handler := fun s =>
  let r : Option Verdict := do
    let case_ ← s.field? "case"
    let attaching ← (← s.field1? "attaching").asNat?
    let tags := match case_ with
      | [.atom k, n, v] => [k, s!"n{n}", if v == .atom "true" then "variable" else "static"]
      | _ => []
    match s.field? "result" with
    | some [.atom "ok"] =>
      let hasGpos := (← s.field1? "has_gpos") == .atom "true"
      let covered ← (← s.field1? "covered").asNat?
      let ok := hasGpos && covered == attaching
      some { corr := none, oracle := some ok, nontrivial := attaching ≥ 1000, tags,
             cls := if ok then "" else if !hasGpos then "gpos-table-dropped" else "pair-not-covered",
             detail := if ok then "" else s!"{attaching} source pairs (x:top <- acutecomb:_top), {covered} covered; GPOS present: {hasGpos}" }
    | some (.atom "err" :: msg) =>
      some { corr := none, oracle := some false, cls := "valid-source-rejected", tags,
             detail := (msg.head?.bind Sexp.asString?).getD "" }
    | _ => none
  match s.field? "panic" with
  | some m => { corr := none, oracle := some false, cls := "panic", detail := toString (Sexp.list m) }
  | none => r.getD (badInput "c10big: cannot parse case")

end Fontc.Driver.C10
