import Driver.Common
import FontcModel.E2E
import FontcModel.Ivs
import FontcModel.Casts

/-!
  C19 end-to-end oracle and correspondence (streams `c19e2e`, `c19e2e_rel`, `c19big`, `c19big_rel`).

  One case = one tiny design with ONE numeric field at / beyond a format limit, compiled by the real fontc in the
  harness binary's own profile (`(profile debug|release)`), plus the digest of the SAME case compiled by the other
  profile's binary (`(self (obs …))`, `(other (obs …))`).

  oracle — the property, evaluated on the implementation's output without the model:
             the build failed, or every number the source states is found unchanged in the font:
               · each glyph's outline, fully resolved through the font's components (2.14 entries as stored,
                 simple glyph points decoded with a wide accumulator as rasterisers do), is the source's resolved
                 outline within ½ unit — a decomposed glyph passes, a clamped / wrapped coordinate does not;
               · advances (hmtx / vmtx), kerning pairs, base anchors, the fontinfo numbers with a 16-bit field;
               · in a two-master design the same at the second master (gvar with IUP, HVAR / VVAR, GDEF store),
                 within ½ unit (two masters, integral sources: the instance at a master is exact up to IUP's ½);
               · heavy cases: point / contour / component / glyph counts and the maxp totals;
           and both profiles produced the same outcome (same Ok/fail, identical font dump).
           Failure classes of the fields fixed by d8817db / 944e88e / f8fa190 (must never fire on the current tree):
           coord-clamped, ptdelta-wrapped, compoff-clamped, advance-clamped, height-clamped, kern-clamped,
           anchor-clamped, gvardelta-clamped, hvardelta-clamped, vvardelta-clamped, compoffdelta-clamped,
           kerndelta-clamped, anchordelta-clamped, numpoints-wrapped, maxp-wrapped, maxp-composite-wrapped.
           Classes of the open fields: metric-clamped:<fontinfo key>, bbox-clamped:<xMin|yMin|xMax|yMax>,
           lsb-clamped, vmtx-tsb-wrapped, hhea-clamped:<field>, vhea-clamped:<field>, profile-disagree:<probe field>
           (`-differs` instead of `-clamped` / `-wrapped` when the emitted value is neither the clamp nor the wrap).
  corr   — the model `Casts.fieldPipeline` (and the stage functions `encodeDeltas` / `decodeDeltas`, `atMaster…`)
           predicts, for the probed field and this profile, whether the build fails and which value a reader finds;
           compared with what the real build did.
-/
namespace Fontc.Driver.C19
open Fontc Fontc.E2E Fontc.Ivs Fontc.Driver Fontc.Casts

def absR (x : Rat) : Rat := if x < 0 then -x else x

/-! ### parsing the extra fields of the stream -/

structure Probe where
  field : String
  sub : String
  vals : List Rat
  deriving Repr, Inhabited

def parseProbe (s : Sexp) : Option Probe := do
  let p := Sexp.list (← s.field? "probe")
  let f ← (← p.field1? "field").asAtom?
  some ⟨f, ← (← p.field1? "sub").asString?, ← (← p.field1? "vals").mapM? Sexp.asRat?⟩

/-- `(obs ok|err|crash hash)` -/
def parseObs (s : Sexp) : Option (String × String) :=
  match s with
  | .list [.atom "obs", .atom k, .atom h] => some (k, h)
  | _ => none

/-- simple glyph outlines decoded with a 32-bit accumulator; `none` for non-simple glyphs -/
def parseGlyf32 (s : Sexp) : Option (List (Option (List (Int × Int × Bool)))) := do
  (← s.field1? "glyf32").mapM? fun g =>
    match g with
    | .atom _ => some none
    | g => some <$> g.mapM? fun p =>
      match p with
      | .list [x, y, o] => do some ((← x.asInt?), (← y.asInt?), (← o.asNat?) == 1)
      | _ => none

def parseVarIdx (s : Sexp) : Option (Option (Nat × Nat)) :=
  match s with
  | .list [o, i] => do some (some ((← o.asNat?), (← i.asNat?)))
  | .atom "none" => some none
  | _ => none

structure KernPair where
  g1 : Nat
  g2 : Nat
  xadv : Int
  var : Option (Nat × Nat)
  deriving Repr, Inhabited

structure FAnchor where
  kind : String
  gid : Nat
  cls : Nat
  x : Int
  y : Int
  xvar : Option (Nat × Nat)
  yvar : Option (Nat × Nat)
  deriving Repr, Inhabited

structure Gpos where
  pairs : List KernPair
  anchors : List FAnchor
  ivs : Option Ivs
  /-- ascender descender lineGap advanceHeightMax minTopSideBearing minBottomSideBearing yMaxExtent -/
  vhea : Option (List Int) := none
  deriving Inhabited

def parseGpos (s : Sexp) : Option Gpos := do
  let pairs ← (← s.field1? "kernpairs").mapM? fun p =>
    match p with
    | .list [a, b, v, d] => do some (KernPair.mk (← a.asNat?) (← b.asNat?) (← v.asInt?) (← parseVarIdx d))
    | _ => none
  let anchors ← (← s.field1? "anchors").mapM? fun p =>
    match p with
    | .list [.atom k, g, c, x, y, xd, yd] => do
      some (FAnchor.mk k (← g.asNat?) (← c.asNat?) (← x.asInt?) (← y.asInt?) (← parseVarIdx xd) (← parseVarIdx yd))
    | _ => none
  let ivs ← match s.field1? "gdefivs" with
    | some (.atom "none") => some none
    | some i => some <$> parseIvs i
    | none => some none
  let vhea := (s.field1? "vhea").bind (·.mapM? Sexp.asInt?)
  some ⟨pairs, anchors, ivs, vhea⟩

def Gpos.varDelta (g : Gpos) (v : Option (Nat × Nat)) (loc : List Rat) : Rat :=
  match v, g.ivs with
  | some (o, i), some ivs => ivsDelta ivs o i loc
  | _, _ => 0

/-! ### resolved outlines -/

abbrev Pts := List (Rat × Rat × Bool)

/-- Source outline of glyph `n` in master `m`, components resolved (UFO affine `xx xy yx yy dx dy`). -/
def resolveSrc (m : SMaster) : Nat → String → Pts
  | 0, _ => []
  | fuel + 1, n =>
    match m.glyph? n with
    | none => []
    | some g =>
      let own : Pts := g.contours.flatMap fun c => c.map fun p => (p.x, p.y, p.typ != PtType.off)
      own ++ g.components.flatMap fun c =>
        (resolveSrc m fuel c.base).map fun (x, y, on) =>
          match c.t with
          | [xx, xy, yx, yy, dx, dy] => (xx * x + yx * y + dx, xy * x + yy * y + dy, on)
          | _ => (x, y, on)

/-- points of a simple font glyph: the wide-accumulator decoding when the stream carries it -/
def simplePts (g32 : List (Option (List (Int × Int × Bool)))) (gid : Nat) (pts : List (Int × Int × Bool)) :
    List (Int × Int × Bool) :=
  match g32[gid]? with
  | some (some p) => p
  | _ => pts

/-- Font outline of glyph `gid`, components resolved with the stored 2.14 entries and (possibly instantiated) offsets.
    `pointsOf gid` / `offsetsOf gid` give the simple glyph's points / the composite's offsets at the location. -/
def resolveFont (f : Font) (pointsOf : Nat → List (Rat × Rat × Bool)) (offsetsOf : Nat → List (Rat × Rat)) :
    Nat → Nat → Pts
  | 0, _ => []
  | fuel + 1, gid =>
    match f.glyf[gid]? with
    | some (.simple _ _ _) => pointsOf gid
    | some (.composite _ comps) =>
      (comps.zip (offsetsOf gid)).flatMap fun (c, (dx, dy)) =>
        (resolveFont f pointsOf offsetsOf fuel c.gid).map fun (x, y, on) =>
          (c.xx * x + c.xy * y + dx, c.yx * x + c.yy * y + dy, on)
    | _ => []

/-- every source point has its own font point within `tol` (greedy; the generated outlines have well separated points) -/
def matchPts (tol : Rat) : Pts → Pts → Bool
  | [], rest => rest.isEmpty
  | (x, y, on) :: src, font =>
    match font.findIdx? (fun (fx, fy, fon) => absR (fx - x) ≤ tol ∧ absR (fy - y) ≤ tol ∧ fon == on) with
    | some i => matchPts tol src (font.eraseIdx i)
    | none => false

/-! ### the checks -/

structure Check where
  ok : Bool := true
  cls : String := ""
  detail : String := ""

def bad (cls detail : String) : Check := { ok := false, cls, detail }

def firstBad (cs : List Check) : Check := (cs.find? (!·.ok)).getD {}

/-- how does the emitted integer `got` relate to the source's rounded value `want`? -/
def mech (signed : Bool) (got want : Int) : String :=
  if signed then (if got = satI16 want then "clamped" else if got = wrapI16 want then "wrapped" else "differs")
  else (if got = satU16 want then "clamped" else if got = wrapU16 want then "wrapped" else "differs")

def checkOutlines (d : Design) (f : Font) (g32 : List (Option (List (Int × Int × Bool)))) : Check :=
  let dm := d.masters.getD d.default default
  let pointsOf (gid : Nat) : Pts :=
    match f.glyf[gid]? with
    | some (.simple _ _ pts) => (simplePts g32 gid pts).map fun (x, y, on) => ((x : Rat), (y : Rat), on)
    | _ => []
  let offsetsOf (gid : Nat) : List (Rat × Rat) :=
    match f.glyf[gid]? with
    | some (.composite _ comps) => comps.map fun c => ((c.dx : Rat), (c.dy : Rat))
    | _ => []
  firstBad <| dm.glyphs.map fun sg =>
    match f.gidOf? sg.name with
    | none => bad "glyph-missing" sg.name
    | some gid =>
      let src := resolveSrc dm 6 sg.name
      let fnt := resolveFont f pointsOf offsetsOf 6 gid
      if matchPts (1/2) src fnt then {} else
      -- classify
      match f.glyf[gid]?, sg.components with
      | some (.simple _ _ pts), [] =>
        let i16view : Pts := pts.map fun (x, y, on) => ((x : Rat), (y : Rat), on)
        if matchPts (1/2) src i16view then
          bad "ptdelta-wrapped" s!"{sg.name}: the encoder's coordinates are the source's, but the stored point deltas decode (running sum) to other coordinates"
        else
          let clamped : Pts := src.map fun (x, y, on) => ((satI16 (otRound x) : Rat), (satI16 (otRound y) : Rat), on)
          if matchPts 0 clamped fnt then bad "coord-clamped" s!"{sg.name}: outline coordinates saturated to the i16 range"
          else bad "coord-differs" s!"{sg.name}: outline differs from the source"
      | some (.composite _ comps), sc :: _ =>
        match comps.head? with
        | some c =>
          let wdx := otRound (sc.t.getD 4 0); let wdy := otRound (sc.t.getD 5 0)
          if c.dx ≠ wdx ∨ c.dy ≠ wdy then
            bad s!"compoff-{mech true (if c.dx ≠ wdx then c.dx else c.dy) (if c.dx ≠ wdx then wdx else wdy)}"
              s!"{sg.name}: component offset ({c.dx},{c.dy}) vs source ({wdx},{wdy})"
          else bad "compscale-differs" s!"{sg.name}: component 2x2 ({c.xx},{c.xy},{c.yx},{c.yy}) vs source {sc.t.take 4}"
        | none => bad "component-differs" sg.name
      | _, _ => bad "outline-differs" s!"{sg.name}: resolved outline differs from the source"

def checkAdvances (d : Design) (f : Font) : Check :=
  let dm := d.masters.getD d.default default
  firstBad <| dm.glyphs.flatMap fun sg =>
    match f.gidOf? sg.name with
    | none => []
    | some gid =>
      let h : Check :=
        let got : Int := ((f.hmtx.getD gid (0, 0)).1 : Int)
        let want := otRound sg.advance
        if got = want then {} else bad s!"advance-{mech false got want}" s!"{sg.name}: hmtx advance {got} vs source {sg.advance}"
      let v : Check :=
        match f.vmtx, sg.height with
        | some vm, some hgt =>
          let got : Int := ((vm.getD gid (0, 0)).1 : Int)
          let want := otRound hgt
          if got = want then {} else bad s!"height-{mech false got want}" s!"{sg.name}: vmtx advance {got} vs source {hgt}"
        | _, _ => {}
      [h, v]

def osField (f : Font) (k : String) : Option Int := (f.os2.lookup k).bind Sexp.asInt?
def postField (f : Font) (k : String) : Option Int := (f.post.lookup k).bind Sexp.asInt?

/-- fontinfo key ↦ (the font's field, signed?) -/
def metricOf (f : Font) (key : String) : Option (Option Int × Bool) :=
  match key with
  | "openTypeOS2TypoAscender" => some (osField f "sTypoAscender", true)
  | "openTypeOS2TypoDescender" => some (osField f "sTypoDescender", true)
  | "openTypeOS2WinAscent" => some (osField f "usWinAscent", false)
  | "openTypeOS2WinDescent" => some (osField f "usWinDescent", false)
  | "openTypeHheaAscender" => some (f.hhea[0]?, true)
  | "openTypeHheaDescender" => some (f.hhea[1]?, true)
  | "postscriptUnderlinePosition" => some (postField f "underlinePosition", true)
  | _ => none

def checkMetrics (d : Design) (f : Font) : Check :=
  let dm := d.masters.getD d.default default
  firstBad <| dm.info.map fun (k, v) =>
    match metricOf f k with
    | some (some got, signed) =>
      let want := otRound v
      if got = want then {} else bad s!"metric-{mech signed got want}:{k}" s!"{k}: font {got} vs source {v}"
    | _ => {}

def kernAt (f : Font) (g : Gpos) (l r : String) (loc : List Rat) : Option Rat :=
  match f.gidOf? l, f.gidOf? r with
  | some a, some b =>
    match g.pairs.find? (fun p => p.g1 == a ∧ p.g2 == b) with
    | some p => some ((p.xadv : Rat) + g.varDelta p.var loc)
    | none => none
  | _, _ => none

def checkKerning (d : Design) (f : Font) (g : Gpos) : Check :=
  firstBad <| d.masters.zipIdx.flatMap fun (m, mi) =>
    let isDefault := mi == d.default
    m.kerning.map fun (l, r, v) =>
      let want := otRound v
      let got := (kernAt f g l r m.nloc).getD 0
      if isDefault then
        if got = (want : Rat) then {} else
          bad s!"kern-{mech true got.floor want}" s!"{l}/{r}: font {got} vs source {v}"
      else if absR (got - (want : Rat)) ≤ 1/2 then {} else
        bad "kerndelta-clamped" s!"{l}/{r} at master {m.name}: font {got} vs source {v}"

def checkAnchors (d : Design) (f : Font) (g : Gpos) : Check :=
  firstBad <| d.masters.zipIdx.flatMap fun (m, mi) =>
    let isDefault := mi == d.default
    m.glyphs.flatMap fun sg =>
      (sg.anchors.filter fun (n, _, _) => !n.startsWith "_").map fun (n, x, y) =>
        match f.gidOf? sg.name with
        | none => {}
        | some gid =>
          match g.anchors.find? (fun a => a.kind == "base" ∧ a.gid == gid) with
          | none => bad "anchor-missing" s!"{sg.name}:{n}"
          | some a =>
            let gx := (a.x : Rat) + g.varDelta a.xvar m.nloc
            let gy := (a.y : Rat) + g.varDelta a.yvar m.nloc
            let wx := otRound x; let wy := otRound y
            if isDefault then
              if gx = (wx : Rat) ∧ gy = (wy : Rat) then {} else
                bad s!"anchor-{mech true (if gx = (wx : Rat) then gy.floor else gx.floor) (if gx = (wx : Rat) then wy else wx)}"
                  s!"{sg.name}:{n}: font ({gx},{gy}) vs source ({x},{y})"
            else if absR (gx - (wx : Rat)) ≤ 1/2 ∧ absR (gy - (wy : Rat)) ≤ 1/2 then {} else
              bad "anchordelta-clamped" s!"{sg.name}:{n} at master {m.name}: font ({gx},{gy}) vs source ({x},{y})"

/-- Bounding boxes, side bearings and the hhea / vhea extrema against the font's own resolved outlines (the open
    fields `compositeBbox`, `tsb`, `rsbExtent`): every glyph header bbox and lsb is the box of the resolved outline;
    tsb = vertical origin (sTypoAscender) − yMax; min second side bearings and max extents are the true extrema. -/
def checkSummaries (f : Font) (g32 : List (Option (List (Int × Int × Bool)))) (g : Gpos) : Check :=
  let pointsOf (gid : Nat) : Pts :=
    match f.glyf[gid]? with
    | some (.simple _ _ pts) => (simplePts g32 gid pts).map fun (x, y, on) => ((x : Rat), (y : Rat), on)
    | _ => []
  let offsetsOf (gid : Nat) : List (Rat × Rat) :=
    match f.glyf[gid]? with
    | some (.composite _ comps) => comps.map fun c => ((c.dx : Rat), (c.dy : Rat))
    | _ => []
  let minL (xs : List Int) : Int := xs.foldl (fun a b => if b < a then b else a) (xs.headD 0)
  let maxL (xs : List Int) : Int := xs.foldl (fun a b => if a < b then b else a) (xs.headD 0)
  -- per glyph: (gid, xMin, yMin, xMax, yMax) of the resolved outline
  let boxes : List (Nat × Int × Int × Int × Int) := (List.range f.glyf.length).filterMap fun gid =>
    let pts := resolveFont f pointsOf offsetsOf 6 gid
    if pts.isEmpty then none else
    let xs := pts.map fun (x, _, _) => otRound x
    let ys := pts.map fun (_, y, _) => otRound y
    some (gid, minL xs, minL ys, maxL xs, maxL ys)
  let perGlyph : List Check := boxes.flatMap fun (gid, x0, y0, x1, y1) =>
    let name := f.names.getD gid s!"gid{gid}"
    let hdr : List Int := match f.glyf[gid]? with
      | some (.simple bb _ _) => bb
      | some (.composite bb _) => bb
      | _ => []
    let bb : List Check := ([("xMin", x0), ("yMin", y0), ("xMax", x1), ("yMax", y1)].zip hdr).map fun ((k, want), got) =>
      if got = want then {} else bad s!"bbox-{mech true got want}:{k}" s!"{name}: glyph header {k} {got}, resolved outline {want}"
    let lsb : Check :=
      let got := (f.hmtx.getD gid (0, 0)).2
      if got = x0 then {} else bad s!"lsb-{mech true got x0}" s!"{name}: hmtx lsb {got}, resolved xMin {x0}"
    let tsb : Check :=
      match f.vmtx, osField f "sTypoAscender" with
      | some vm, some vorg =>
        let got := (vm.getD gid (0, 0)).2
        if got = vorg - y1 then {} else
          bad s!"vmtx-tsb-{mech true got (vorg - y1)}" s!"{name}: vmtx top side bearing {got}, vertical origin {vorg} − yMax {y1} = {vorg - y1}"
      | _, _ => {}
    bb ++ [lsb, tsb]
  let hh : List Check :=
    if boxes.isEmpty then [] else
    let rsb := minL (boxes.map fun (gid, _, _, x1, _) => ((f.hmtx.getD gid (0, 0)).1 : Int) - x1)
    let ext := maxL (boxes.map fun (_, _, _, x1, _) => x1)
    [ (if f.hhea.getD 5 0 = rsb then {} else bad s!"hhea-{mech true (f.hhea.getD 5 0) rsb}:minRightSideBearing" s!"hhea {f.hhea.getD 5 0}, true minimum {rsb}"),
      (if f.hhea.getD 6 0 = ext then {} else bad s!"hhea-{mech true (f.hhea.getD 6 0) ext}:xMaxExtent" s!"hhea {f.hhea.getD 6 0}, true maximum {ext}") ]
  let vh : List Check :=
    match g.vhea, f.vmtx, osField f "sTypoAscender" with
    | some vhea, some vm, some vorg =>
      if boxes.isEmpty then [] else
      let bsb := minL (boxes.map fun (gid, _, y0, _, _) => ((vm.getD gid (0, 0)).1 : Int) - vorg + y0)
      let ext := maxL (boxes.map fun (_, _, y0, _, _) => vorg - y0)
      [ (if vhea.getD 5 0 = bsb then {} else bad s!"vhea-{mech true (vhea.getD 5 0) bsb}:minBottomSideBearing" s!"vhea {vhea.getD 5 0}, true minimum {bsb}"),
        (if vhea.getD 6 0 = ext then {} else bad s!"vhea-{mech true (vhea.getD 6 0) ext}:yMaxExtent" s!"vhea {vhea.getD 6 0}, true maximum {ext}") ]
    | _, _, _ => []
  firstBad (perGlyph ++ hh ++ vh)

/-- second (and further) masters of a variable design: instantiate glyf+gvar, hmtx+HVAR, vmtx+VVAR -/
def checkMasters (d : Design) (f : Font) (g32 : List (Option (List (Int × Int × Bool)))) : Check :=
  let tuplesOf (gid : Nat) : List GTuple := (f.gvar.getD []).getD gid []
  firstBad <| d.masters.zipIdx.flatMap fun (m, mi) =>
    if mi == d.default then [] else
    let loc := m.nloc
    let pointsOf (gid : Nat) : Pts :=
      match f.glyf[gid]? with
      | some (.simple _ ends pts) =>
        let p := simplePts g32 gid pts
        let base : List (Rat × Rat) := p.map fun (x, y, _) => ((x : Rat), (y : Rat))
        let inst := instantiateSimple base [(0, 0), (0, 0), (0, 0), (0, 0)] ends (tuplesOf gid) loc
        (inst.take base.length).zip p |>.map fun ((x, y), (_, _, on)) => (x, y, on)
      | _ => []
    let offsetsOf (gid : Nat) : List (Rat × Rat) :=
      match f.glyf[gid]? with
      | some (.composite _ comps) =>
        let offs : List (Rat × Rat) := comps.map fun c => ((c.dx : Rat), (c.dy : Rat))
        (instantiateComposite offs [(0, 0), (0, 0), (0, 0), (0, 0)] (tuplesOf gid) loc).take offs.length
      | _ => []
    m.glyphs.flatMap fun sg =>
      match f.gidOf? sg.name with
      | none => []
      | some gid =>
        let src := resolveSrc m 6 sg.name
        let fnt := resolveFont f pointsOf offsetsOf 6 gid
        let o : Check := if matchPts (1/2) src fnt then {} else
          bad (if sg.components.isEmpty then "gvardelta-clamped" else "compoffdelta-clamped")
            s!"{sg.name} at master {m.name}: the font's instance is not the master's drawing"
        let a : Check :=
          match f.hvar with
          | some hv =>
            let got : Rat := ((f.hmtx.getD gid (0, 0)).1 : Rat) + varTableDelta hv gid loc
            if absR (got - (otRound sg.advance : Rat)) ≤ 1/2 then {} else
              bad "hvardelta-clamped" s!"{sg.name} at master {m.name}: hmtx+HVAR {got} vs source {sg.advance}"
          | none => {}
        let v : Check :=
          match f.vvar, f.vmtx, sg.height with
          | some vv, some vm, some h =>
            let got : Rat := ((vm.getD gid (0, 0)).1 : Rat) + varTableDelta vv gid loc
            if absR (got - (otRound h : Rat)) ≤ 1/2 then {} else
              bad "vvardelta-clamped" s!"{sg.name} at master {m.name}: vmtx+VVAR {got} vs source {h}"
          | _, _, _ => {}
        [o, a, v]

/-! ### the model's prediction for the probed field (correspondence) -/

/-- `none` = the model says the build fails; `some vs` = the values a reader finds for the probe.
    Every narrowing goes through `Casts.fieldPipeline` (the model of the current code). -/
def predict (pr : Probe) (p : Profile) : Option (List Rat) :=
  let v := pr.vals.getD 0 0
  let v1 := pr.vals.getD 1 0
  let okVal (o : Outcome) : Option Rat := match o with | .ok w => some w | _ => none
  let one (o : Outcome) : Option (List Rat) :=
    match o with
    | .ok w => some [w]
    | .fallback => some []
    | _ => none
  match pr.field with
  | "coord" => one (fieldPipeline .outlineCoord v p)
  | "compoff" => one (fieldPipeline .compOffset v p)
  | "compscale" => one (fieldPipeline .comp2x2 v p)
  | "advance" | "height" => one (fieldPipeline .advance v p)
  | "kern" => one (fieldPipeline .kernValue v p)
  | "anchor" => one (fieldPipeline .anchorCoord v p)
  | "metric" =>
    -- fontinfo.plist declares usWinAscent / usWinDescent non-negative: the UFO reader (norad, outside the model) refuses
    -- a negative value before fontc sees it ("failed to load font info data"), the build fails
    -- (likewise a non-integral one: the two keys are non-negative integers in the UFO specification)
    if (pr.sub == "openTypeOS2WinAscent" ∨ pr.sub == "openTypeOS2WinDescent") && (v < 0 || v.den != 1) then none else
    one (fieldPipeline (if pr.sub == "openTypeOS2WinAscent" ∨ pr.sub == "openTypeOS2WinDescent" then .metricU16 else .metricI16) v p)
  | "ptdelta" => do
    -- font point order: start point, then the rest reversed (contour direction is flipped);
    -- coordinates are checked first (`check_path_bounds`), then the successive differences (`check_encodable`)
    let x0 ← okVal (fieldPipeline .outlineCoord v p)
    let x1 ← okVal (fieldPipeline .outlineCoord (v + 5) p)
    let x2 ← okVal (fieldPipeline .outlineCoord v1 p)
    let ds ← encodeDeltasChecked p [x0.floor, x1.floor, x2.floor]
    some ((decodeDeltas 0 ds).map fun (x : Int) => (x : Rat))
  | "gvardelta" => do
    -- every master's coordinates are checked, then the delta
    let d ← okVal (fieldPipeline .outlineCoord v p)
    let m1 ← okVal (fieldPipeline .outlineCoord v1 p)
    let dl ← okVal (fieldPipeline .gvarDelta (m1 - d) p)
    some [d + dl]
  | "compoffdelta" => do
    let d ← okVal (fieldPipeline .compOffset v p)
    let dl ← okVal (fieldPipeline .gvarDelta ((otRound v1 - otRound v : Int) : Rat) p)
    some [d + dl]
  | "kerndelta" => do
    let d ← okVal (fieldPipeline .kernValue v p)
    let dl ← okVal (fieldPipeline .valueDelta ((otRound v1 - otRound v : Int) : Rat) p)
    some [d + dl]
  | "anchordelta" => do
    let d ← okVal (fieldPipeline .anchorCoord v p)
    let dl ← okVal (fieldPipeline .valueDelta ((otRound v1 - otRound v : Int) : Rat) p)
    some [d + dl]
  | "hvardelta" => do
    -- hmtx default, HVAR delta between the unsaturated rounded advances, gvar phantom delta between the u16 advances
    let d ← okVal (fieldPipeline .advance v p)
    let dl ← okVal (fieldPipeline .hvarDelta ((otRound v1 - otRound v : Int) : Rat) p)
    let _ ← okVal (fieldPipeline .gvarDelta ((otRoundU16 v1 - otRoundU16 v : Int) : Rat) p)
    some [d + dl]
  | "vvardelta" => do
    -- `GlyphInstance::height()` is a saturated u16 at every master; VVAR delta and the bottom phantom point's gvar delta
    let d ← okVal (fieldPipeline .advance v p)
    let m1 : Int := otRoundU16 v1
    let dl ← okVal (fieldPipeline .hvarDelta (m1 - d) p)
    let _ ← okVal (fieldPipeline .gvarDelta (d - m1) p)
    some [d + dl]
  | "tsb" => one (fieldPipeline .tsb (v - v1) p)
  | "vextent" =>
    -- vertical origin 16000, advance height 1000, yMax 0: yMaxExtent = 16000 − yMin, min bottom side bearing = 1000 − 16000 + yMin
    match fieldPipeline .rsbExtent (16000 - v) p, fieldPipeline .rsbExtent (1000 - 16000 + v) p with
    | .ok e, .ok b => some [e, b]
    | _, _ => none
  | "compbbox" => do
    -- glyph a spans x = 200..300: the composite's xMin (= its lsb) and xMax
    let _ ← okVal (fieldPipeline .compOffset v p)
    let lo ← okVal (fieldPipeline .compositeBbox (v + 200) p)
    let hi ← okVal (fieldPipeline .compositeBbox (v + 300) p)
    some [lo, hi]
  | _ => some []

/-- what the font shows for the probe (same shape as `predict`) -/
def observe (pr : Probe) (d : Design) (f : Font) (g32 : List (Option (List (Int × Int × Bool)))) (g : Gpos) :
    Option (List Rat) :=
  let gidA := (f.gidOf? "a").getD 1
  let gidB := (f.gidOf? "b").getD 2
  let ptsA : List (Int × Int × Bool) :=
    match f.glyf[gidA]? with
    | some (.simple _ _ pts) => simplePts g32 gidA pts
    | _ => []
  let m1loc : List Rat := (d.masters.getD 1 default).nloc
  match pr.field with
  | "coord" =>
    if pr.sub == "x" then (ptsA.find? (·.2.1 == 777)).map fun p => [(p.1 : Rat)]
    else (ptsA.find? (·.1 == 333)).map fun p => [(p.2.1 : Rat)]
  | "ptdelta" => some (ptsA.map fun p => if pr.sub == "x" then (p.1 : Rat) else (p.2.1 : Rat))
  | "compoff" =>
    match f.glyf[gidB]? with
    | some (.composite _ (c :: _)) => some [if pr.sub == "x" then (c.dx : Rat) else (c.dy : Rat)]
    | _ => none
  | "compscale" =>
    match f.glyf[gidB]? with
    | some (.composite _ (c :: _)) =>
      some [match pr.sub with | "xx" => c.xx | "xy" => c.yx | "yx" => c.xy | _ => c.yy]
    | some (.simple _ _ _) => some []
    | _ => none
  | "advance" => some [((f.hmtx.getD gidA (0, 0)).1 : Rat)]
  | "height" => f.vmtx.map fun vm => [((vm.getD gidA (0, 0)).1 : Rat)]
  | "kern" => some [(kernAt f g "a" "b" []).getD 0]
  | "anchor" =>
    (g.anchors.find? (fun a => a.kind == "base" ∧ a.gid == gidA)).map fun a => [if pr.sub == "x" then (a.x : Rat) else (a.y : Rat)]
  | "metric" =>
    match metricOf f pr.sub with
    | some (some got, _) => some [(got : Rat)]
    | _ => none
  | "gvardelta" =>
    match f.glyf[gidA]? with
    | some (.simple _ ends _) =>
      let base : List (Rat × Rat) := ptsA.map fun (x, y, _) => ((x : Rat), (y : Rat))
      let inst := (instantiateSimple base [(0, 0), (0, 0), (0, 0), (0, 0)] ends ((f.gvar.getD []).getD gidA []) m1loc).take base.length
      if pr.sub == "x" then (inst.find? (·.2 == 777)).map fun p => [p.1]
      else (inst.find? (·.1 == 333)).map fun p => [p.2]
    | _ => none
  | "compoffdelta" =>
    match f.glyf[gidB]? with
    | some (.composite _ comps) =>
      let offs : List (Rat × Rat) := comps.map fun c => ((c.dx : Rat), (c.dy : Rat))
      (instantiateComposite offs [(0, 0), (0, 0), (0, 0), (0, 0)] ((f.gvar.getD []).getD gidB []) m1loc).head?.map fun p =>
        [if pr.sub == "x" then p.1 else p.2]
    | _ => none
  | "kerndelta" => some [(kernAt f g "a" "b" m1loc).getD 0]
  | "anchordelta" =>
    (g.anchors.find? (fun a => a.kind == "base" ∧ a.gid == gidA)).map fun a =>
      [if pr.sub == "x" then (a.x : Rat) + g.varDelta a.xvar m1loc else (a.y : Rat) + g.varDelta a.yvar m1loc]
  | "tsb" => f.vmtx.map fun vm => [((vm.getD gidA (0, 0)).2 : Rat)]
  | "vextent" => g.vhea.map fun vh => [((vh.getD 6 0 : Int) : Rat), ((vh.getD 5 0 : Int) : Rat)]
  | "compbbox" =>
    match f.glyf[gidB]? with
    | some (.composite bb _) => some [((f.hmtx.getD gidB (0, 0)).2 : Rat), ((bb.getD 2 0 : Int) : Rat)]
    | _ => none
  | "hvardelta" => f.hvar.map fun hv => [((f.hmtx.getD gidA (0, 0)).1 : Rat) + varTableDelta hv gidA m1loc]
  | "vvardelta" =>
    match f.vvar, f.vmtx with
    | some vv, some vm => some [((vm.getD gidA (0, 0)).1 : Rat) + varTableDelta vv gidA m1loc]
    | _, _ => none
  | _ => some []

/-- note on `compscale` sub-selectors: the harness writes `t = [xx xy yx yy dx dy]` in UFO order (x' = t0·x + t2·y),
    read-fonts names the stored entries (xx yx xy yy) with x' = xx·x + xy·y: UFO `xy` is the font's `yx`. -/
def profileOf (s : Sexp) : Profile :=
  match s.field1? "profile" with
  | some (.atom "release") => .release
  | _ => .debug

def isRepresentableProbe (pr : Probe) : Bool :=
  let v := pr.vals.getD 0 0
  let v1 := pr.vals.getD 1 0
  match pr.field with
  | "coord" => decide (Representable .outlineCoord v)
  | "compoff" => decide (Representable .compOffset v)
  | "compscale" => decide (Representable .comp2x2 v)
  | "advance" | "height" => decide (Representable .advance v)
  | "kern" => decide (Representable .kernValue v)
  | "anchor" => decide (Representable .anchorCoord v)
  | "metric" => if pr.sub == "openTypeOS2WinAscent" ∨ pr.sub == "openTypeOS2WinDescent" then decide (Representable .metricU16 v)
                else decide (Representable .metricI16 v)
  | "ptdelta" => decide (Representable .pointDelta (v1 - v))
  | "gvardelta" | "compoffdelta" | "kerndelta" | "anchordelta" | "hvardelta" | "vvardelta" =>
    decide (Representable .valueDelta ((otRound v1 - otRound v : Int) : Rat))
  | "tsb" => decide (Representable .tsb (v - v1))
  | "vextent" => decide (Representable .rsbExtent (16000 - v)) && decide (Representable .rsbExtent (1000 - 16000 + v))
  | "compbbox" => decide (Representable .compositeBbox (v + 200)) && decide (Representable .compositeBbox (v + 300))
  | "numpoints" => decide (Representable .endPt v)
  | "numcontours" => decide (Representable .numContours v)
  | "comptotal" => decide (Representable .compositeTotal (2 * v))
  | "glyphcount" => decide (Representable .glyphCount v)
  | "numcomponents" => decide (Representable .countU16 v) && decide (Representable .compositeTotal (3 * v))
  | _ => true

def commonVerdict (s : Sexp) (pr : Probe) (corr : Option Bool) (res : Check) (tags : List String) (failed : Bool) : Verdict :=
  let self := (s.field1? "self").bind parseObs
  let other := (s.field1? "other").bind parseObs
  let (agree, relTag) : Option Bool × String :=
    match self, other with
    | some a, some b => (some (a == b), "both-profiles")
    | _, _ => (none, "other-profile-missing")
  let tags := tags ++ [pr.field, relTag, if failed then "build-failed" else "font-emitted"]
  let nontrivial := !isRepresentableProbe pr
  if !res.ok then
    { corr, oracle := some false, nontrivial, cls := res.cls, tags,
      detail := res.detail ++ (if agree == some false then " [and the other profile's outcome differs]" else "") }
  else if agree == some false then
    { corr, oracle := some false, nontrivial, cls := s!"profile-disagree:{pr.field}", tags,
      detail := s!"{pr.field} {pr.vals}: this profile {self.map (·.1)}, other profile {other.map (·.1)}" }
  else { corr, oracle := some true, nontrivial, tags, cls := if corr == some false then "model-differs" else "" }

def handle : Handler := fun s =>
  match parseProbe s, parseDesign s with
  | some pr, some d =>
    let p := profileOf s
    let pred := predict pr p
    match s.field? "result" with
    | some (.atom "ok" :: _) =>
      match parseFont s, parseGlyf32 s, parseGpos s with
      | some f, some g32, some g =>
        let res := firstBad [checkOutlines d f g32, checkAdvances d f, checkMetrics d f, checkKerning d f g,
                             checkAnchors d f g, checkMasters d f g32, checkSummaries f g32 g]
        let obs := observe pr d f g32 g
        let corr : Option Bool := some (match pred, obs with
          | some a, some b => a == b
          | _, _ => false)
        let v := commonVerdict s pr corr res [s!"masters{d.masters.length}"] false
        if corr == some false then { v with detail := v.detail ++ s!" [model predicts {pred}, font shows {obs}]" } else v
      | _, _, _ => badInput "c19: cannot parse font dump"
    | some (.atom "err" :: rest) =>
      -- the source reader (norad, outside the model) refused the fontinfo value before fontc saw it (a negative,
      -- fractional or over-long number where the UFO specification wants a (non-negative) integer): the model of fontc's
      -- own narrowing has nothing to predict there; the build was refused, which is what the property asks
      let msg := ((rest.getLast?).bind Sexp.asString?).getD ""
      let readerRefused := (msg.splitOn "failed to load font info data").length > 1
      let corr : Option Bool := if readerRefused && pred.isSome then none else some pred.isNone
      let v := commonVerdict s pr corr {} ([s!"masters{d.masters.length}"] ++ (if readerRefused then ["reader-refused"] else [])) true
      if corr == some false then { v with detail := v.detail ++ s!" [model predicts a font with {pred}, the build failed]" } else v
    | _ => badInput "c19: no result"
  | _, _ => badInput "c19: cannot parse probe/design"

/-! ### heavy cases: counts -/

structure BigGlyph where
  name : String
  contours : Nat
  points : Nat
  comps : Nat
  deriving Repr, Inhabited

def parseBig (s : Sexp) : Option (Nat × List BigGlyph) := do
  let b := Sexp.list (← s.field? "bigdesign")
  let gs ← (← b.field1? "glyphs").mapM? fun g =>
    match g with
    | .list [n, _, c, p, k] => do some (BigGlyph.mk (← n.asString?) (← c.asNat?) (← p.asNat?) (← k.asNat?))
    | _ => none
  some ((← (← b.field1? "nglyphs").asNat?), gs)

inductive Shape where
  | simple (pts contours : Nat)
  | composite (n : Nat)
  | empty
  | unreadable
  deriving Repr, Inhabited

def Shape.show : Shape → String
  | .simple p c => s!"simple glyph, {p} points in {c} contours"
  | .composite n => s!"composite of {n} components"
  | .empty => "empty glyph"
  | .unreadable => "unreadable glyph"

def parseShapes (fs : Sexp) : Option (List Shape) := do
  (← fs.field1? "shapes").mapM? fun g =>
    match g with
    | .list [.atom "simple", p, c] => do some (Shape.simple (← p.asNat?) (← c.asNat?))
    | .list [.atom "composite", n] => do some (Shape.composite (← n.asNat?))
    | .list [.atom "empty"] => some .empty
    | _ => some .unreadable

/-- model: does the build fail, and if not which maxp numbers / shapes does a reader find -/
def predictBig (pr : Probe) (p : Profile) : Option (List Rat) :=
  let n := pr.vals.getD 0 0
  let vals (os : List Outcome) : Option (List Rat) :=
    os.foldr (fun o acc => match o, acc with
      | .ok w, some l => some (w :: l)
      | _, _ => none) (some [])
  match pr.field with
  -- end point of the single contour, maxp.maxPoints (the 8-point .notdef is the other candidate)
  | "numpoints" =>
    (vals [fieldPipeline .endPt n p, fieldPipeline .countU16 n p]).map fun l =>
      match l with
      | [e, c] => [e, if c < 8 then 8 else c]
      | l => l
  | "numcontours" => vals [fieldPipeline .numContours n p]
  | "comptotal" => vals [fieldPipeline .compositeTotal (2 * n) p]
  -- observed only: with ≥ 65535 glyphs write-fonts' post table (name index = 258 + custom names, `try_into().unwrap()`)
  -- panics before maxp.numGlyphs is converted; the exact glyph count where that starts is not modelled
  | "glyphcount" => if n ≥ 65535 then none else vals [fieldPipeline .glyphCount n p]
  -- n components of the 3-point glyph a: composite total 3n, component count n
  | "numcomponents" => vals [fieldPipeline .compositeTotal (3 * n) p, fieldPipeline .countU16 n p]
  | _ => some []

def handleBig : Handler := fun s =>
  match parseProbe s, parseBig s with
  | some pr, some (nglyphs, gs) =>
    let p := profileOf s
    let pred := predictBig pr p
    let ga := (gs.find? (·.name == "a")).getD default
    let gb := (gs.find? (·.name == "b")).getD default
    let n : Nat := (pr.vals.getD 0 0).floor.toNat
    match s.field? "result" with
    | some (.atom "ok" :: _) =>
      match s.field? "fontsum" with
      | some fs =>
        let fs := Sexp.list fs
        match (fs.field1? "maxp").bind (·.mapM? Sexp.asNat?), parseShapes fs with
        | some [numGlyphs, maxPoints, maxContours, maxCompPoints, maxCompContours, maxCompElems, _], some shapes =>
          -- ground truth from the source
          let wantA : Shape := if ga.comps > 0 then .composite ga.comps else if ga.points == 0 then .empty else .simple ga.points ga.contours
          let wantB : Shape := if gb.comps > 0 then .composite gb.comps else if gb.points == 0 then .empty else .simple gb.points gb.contours
          let shapeOk (got want : Shape) : Bool :=
            match got, want with
            | .simple p c, .simple p' c' => p == p' && c == c'
            | .composite k, .composite k' => k == k'
            | .empty, .empty => true
            | _, _ => false
          let maxPts := max 8 (max (if ga.comps == 0 then ga.points else 0) (if gb.comps == 0 then gb.points else 0))
          let maxCts := max 2 (max (if ga.comps == 0 then ga.contours else 0) (if gb.comps == 0 then gb.contours else 0))
          let res : Check := firstBad [
            if numGlyphs == nglyphs + 1 then {} else bad "numglyphs-wrapped" s!"maxp.numGlyphs {numGlyphs} vs {nglyphs + 1} glyphs",
            if shapeOk (shapes.getD 1 .unreadable) wantA then {} else
              bad "numpoints-wrapped" s!"glyph a: font has a {(shapes.getD 1 .unreadable).show}, source: {wantA.show}",
            if shapeOk (shapes.getD 2 .unreadable) wantB then {} else
              bad "numcomponents-wrapped" s!"glyph b: font has a {(shapes.getD 2 .unreadable).show}, source: {wantB.show}",
            if maxPoints == maxPts ∧ maxContours == maxCts then {} else
              bad "maxp-wrapped" s!"maxp.maxPoints/maxContours {maxPoints}/{maxContours} vs true {maxPts}/{maxCts}",
            if gb.comps > 0 ∧ ga.comps == 0 ∧ (maxCompPoints != gb.comps * ga.points ∨ maxCompContours != gb.comps * ga.contours) then
              bad "maxp-composite-wrapped" s!"maxp.maxCompositePoints/Contours {maxCompPoints}/{maxCompContours} vs true {gb.comps * ga.points}/{gb.comps * ga.contours}"
            else {},
            if maxCompElems == gb.comps then {} else bad "maxp-wrapped" s!"maxp.maxComponentElements {maxCompElems} vs {gb.comps}"]
          let obs : Option (List Rat) :=
            match pr.field with
            | "numpoints" =>
              -- a reader finds `end point + 1` points in the single contour
              match shapes.getD 1 .unreadable with
              | .simple pts _ => some [((pts : Int) - 1 : Int), (maxPoints : Rat)]
              | _ => none
            | "numcontours" => (match shapes.getD 1 .unreadable with | .simple _ c => some [(c : Rat)] | _ => none)
            | "comptotal" => some [(maxCompPoints : Rat)]
            | "glyphcount" => some [(numGlyphs : Rat)]
            | "numcomponents" => some [(maxCompPoints : Rat), (maxCompElems : Rat)]
            | _ => some []
          let corr : Option Bool := some (match pred, obs with | some a, some b => a == b | _, _ => false)
          let v := commonVerdict s pr corr res [s!"n{n}"] false
          if corr == some false then { v with detail := v.detail ++ s!" [model predicts {pred}, font shows {obs}]" } else v
        | _, _ => badInput "c19big: cannot parse fontsum"
      | none => badInput "c19big: no fontsum"
    | some (.atom "err" :: _) =>
      let corr : Option Bool := some pred.isNone
      let v := commonVerdict s pr corr {} [s!"n{n}"] true
      if corr == some false then { v with detail := v.detail ++ s!" [model predicts a font with {pred}, the build failed]" } else v
    | _ => badInput "c19big: no result"
  | _, _ => badInput "c19big: cannot parse probe/bigdesign"

end Fontc.Driver.C19
