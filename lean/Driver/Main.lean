import Driver.Common
import Driver.C02
import Driver.C05
import Driver.C07
import Driver.C01
import Driver.C08
import Driver.C16
import Driver.C03
import Driver.C04
import Driver.C14
import Driver.C17
import Driver.C09
import Driver.C10
import Driver.C06
import Driver.C12
import Driver.C13
import Driver.C18
import Driver.C11
import Driver.C20
import Driver.C15
import Driver.C19

open Fontc Fontc.Driver

/-- stream name ↦ handler. One `|>.cons` line per stream (append new lines at the end of the chain). -/
def handlers : List (String × Handler) :=
  ([] : List (String × Handler))
  |>.cons ("c07", C07.handle)
  |>.cons ("c01", C01.handle)
  |>.cons ("c05sfnt", C05.handleSfnt)
  |>.cons ("c05font", C05.handleFont)
  |>.cons ("c03e2e", C03.handle)
  |>.cons ("c03glyphs", C03.handle)
  |>.cons ("c04e2e", C04.handle)
  |>.cons ("c04adv", C04.handle)
  |>.cons ("c03adv", C03.handle)
  |>.cons ("c14names", C14.handleNames)
  |>.cons ("c14paths", C14.handlePaths)
  |>.cons ("c14emit", C14.handleEmit)
  |>.cons ("c16", C16.handle)
  |>.cons ("c16e2e", C16.handleE2E)
  |>.cons ("c08", C08.handle)
  |>.cons ("c08mal", C08.handle)
  |>.cons ("c08e2e", C08.handleE2E)
  |>.cons ("c17", C17.handle)
  |>.cons ("c17x", C17.handleX)
  |>.cons ("c02", C02.handle)
  |>.cons ("c09", C09.handle)
  |>.cons ("c09e2e", C09.handleE2E)
  |>.cons ("c09wit", C09.handleE2E)
  |>.cons ("c10", C10.handle)
  |>.cons ("c10e2e", C10.handleE2E)
  |>.cons ("c10big", C10.handleBig)
  |>.cons ("c06", C06.handle) |>.cons ("c06glyphs", C06.handleGlyphs) |>.cons ("c06e2e", C06.handleE2E) |>.cons ("c06probe", C06.handleE2E)
  |>.cons ("c12e2e", C12.handle) |>.cons ("c12dir", C12.handle) |>.cons ("c12", C12.handlePure)
  |>.cons ("c13lex", C13.handleLex)
  |>.cons ("c13inc", C13.handleInc)
  |>.cons ("c18", C18.handle) |>.cons ("c18e2e", C18.handleE2E) |>.cons ("c18fea", C18.handleFea) |>.cons ("c18feax", C18.handleFea)
  |>.cons ("c11", C11.handle)
  |>.cons ("c11x", C11.handle)
  |>.cons ("c11adv", C11.handle)
  |>.cons ("c20plist", C20.handlePlist) |>.cons ("c20args", C20.handleArgs) |>.cons ("c20e2e", C20.handleE2E) |>.cons ("c20unicode", C20.handleUnicode)
  |>.cons ("c15graph", C15.handleGraph) |>.cons ("c15mut", C15.handleMut) |>.cons ("c15corpus", C15.handleCorpus)
  |>.cons ("c19e2e", C19.handle) |>.cons ("c19e2e_rel", C19.handle) |>.cons ("c19off", C19.handle) |>.cons ("c19off_rel", C19.handle) |>.cons ("c19big", C19.handleBig) |>.cons ("c19big_rel", C19.handleBig)

def processLine (line : String) : String :=
  match Sexp.parse line with
  | some (.list (.atom stream :: .atom id :: rest)) =>
    match handlers.lookup stream with
    | some h => (h (.list rest)).render stream id
    | none => (badInput s!"unknown stream {stream}").render stream id
  | _ => (badInput "unparseable line").render "?" "?"

partial def loop (h : IO.FS.Stream) (out : IO.FS.Stream) : IO Unit := do
  let line ← h.getLine
  if line.isEmpty then return ()
  let t := line.trimAscii.toString
  if !t.isEmpty then
    out.putStrLn (processLine t)
  loop h out

def main : IO Unit := do
  let stdin ← IO.getStdin
  let stdout ← IO.getStdout
  loop stdin stdout
