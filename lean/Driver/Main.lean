import Driver.Common
import Driver.C07

open Fontc Fontc.Driver

/-- stream name ↦ handler. One line per stream. -/
def handlers : List (String × Handler) := [
  ("c07", C07.handle)
]

def processLine (line : String) : String :=
  match Sexp.parse line with
  | some (.list (.atom stream :: .atom id :: rest)) =>
    match handlers.lookup stream with
    | some h => (h (.list rest)).render stream id
    | none => (badInput s!"unknown stream {stream}").render stream id
  | _ => (badInput "unparseable line").render "?" "?"

partial def loop (h : IO.FS.Stream) (out : IO.FS.Stream) : IO Unit := do
  let line ← h.getLine
  if line.isEmpty then return ()
  let t := line.trimAscii.toString
  if !t.isEmpty then
    out.putStrLn (processLine t)
  loop h out

def main : IO Unit := do
  let stdin ← IO.getStdin
  let stdout ← IO.getStdout
  loop stdin stdout
