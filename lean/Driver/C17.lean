import Driver.Common
import FontcModel.Limits

namespace Fontc.Driver.C17
open Fontc Fontc.Limits Fontc.Driver

structure GIn where
  width : Rat
  height : Option Rat
  vorg : Option Rat
  cps : List Nat
  shape : Shape

def parseOptRat (s : Sexp) : Option (Option Rat) :=
  match s with
  | .atom "none" => some none
  | _ => some <$> s.asRat?

def parsePt (s : Sexp) : Option (Int × Int) :=
  match s with
  | .list (x :: y :: _) => do some (← x.asInt?, ← y.asInt?)
  | _ => none

def parseComp (s : Sexp) : Option Component :=
  match s with
  | .list [g, dx, dy, xx, yx, xy, yy] => do
    some ⟨← g.asNat?, ⟨← xx.asRat?, ← yx.asRat?, ← xy.asRat?, ← yy.asRat?, ← dx.asRat?, ← dy.asRat?⟩⟩
  | _ => none

def parseShape (s : Sexp) : Option Shape :=
  match s with
  | .list (.atom "e" :: _) => some .empty
  | .list (.atom "s" :: cs) => do
    let contours ← cs.mapM fun c => c.mapM? parsePt
    some (.simple contours)
  | .list (.atom "c" :: cs) => do some (.composite (← cs.mapM parseComp))
  | _ => none

def parseGlyph (s : Sexp) : Option GIn :=
  match s with
  | .list [w, h, v, cps, sh] => do
    some ⟨← w.asRat?, ← parseOptRat h, ← parseOptRat v, ← cps.mapM? Sexp.asNat?, ← parseShape sh⟩
  | _ => none

def parseBox (s : Sexp) : Option (Option Box) :=
  match s with
  | .atom "none" => some none
  | .list [a, b, c, d] => do some (some ⟨← a.asInt?, ← b.asInt?, ← c.asInt?, ← d.asInt?⟩)
  | _ => none

def ints (xs : List Sexp) : Option (List Int) := xs.mapM Sexp.asInt?
def nats (xs : List Sexp) : Option (List Nat) := xs.mapM Sexp.asNat?

def u16OfInt (i : Int) : Nat := (i % 65536).toNat
def i16OfU16 (n : Nat) : Int := if n ≥ 32768 then (n : Int) - 65536 else n

def inI16 (v : Int) : Bool := -32768 ≤ v && v ≤ 32767

/-- hmtx/vmtx words as `Hmtx::new(long_metrics, first_side_bearings)` serialises them -/
def mtxWords (m : Metrics) : List Nat :=
  m.longMetrics.flatMap (fun l => [l.advance, u16OfInt l.sideBearing]) ++ m.firstSideBearings.map u16OfInt

/-- decode hmtx words per the OpenType spec -/
def decodeMtx (words : List Nat) (numLong numGlyphs : Nat) : Option (List (Nat × Int)) :=
  if words.length ≠ 2 * numLong + (numGlyphs - numLong) ∨ numLong > numGlyphs then none
  else
    let longs := (List.range numLong).map fun i => (words.getD (2 * i) 0, i16OfU16 (words.getD (2 * i + 1) 0))
    let lastAdv := (longs.getLast?.map (·.1)).getD 0
    let shorts := (List.range (numGlyphs - numLong)).map fun i => (lastAdv, i16OfU16 (words.getD (2 * numLong + i) 0))
    some (longs ++ shorts)

def minOfInts : List Int → Option Int
  | [] => none
  | x :: xs => some (xs.foldl min x)
def maxOfInts : List Int → Option Int
  | [] => none
  | x :: xs => some (xs.foldl max x)

def bitsToWords (bits : List Nat) (nWords : Nat) : List Nat :=
  (List.range nWords).map fun w => (bits.filter (fun b => b / 32 == w)).foldl (fun acc b => acc + 2 ^ (b % 32)) 0

/-- spec-side evaluation of the Unicode range bits: bit by bit, straight from the range table -/
def unicodeBitSpec (cps : List Nat) (b : Nat) : Bool :=
  cps.any fun cp =>
    (unicodeRanges.any fun r => r.2.2 == b && r.1 ≤ cp && cp ≤ r.2.1) || (b == 57 && 0x10000 ≤ cp && cp ≤ 0x10FFFF)

/-- Summary of the extrema oracle for one direction (h or v). -/
def extremaOk (ms : List GlyphMetric) (advMax minFirst minSecond maxExtent : Int) : Bool :=
  let advOk := advMax == (((ms.map fun m => (m.advance : Int)).foldl max 0))
  let withB := ms.filterMap fun m => m.boundsAdvance.map fun ba => (m.advance, m.sideBearing, ba)
  let mf := (minOfInts (withB.map fun (_, sb, _) => sb)).getD 0
  let ms2 := (minOfInts (withB.map fun (a, sb, ba) => (a : Int) - sb - ba)).getD 0
  let me := (maxOfInts (withB.map fun (_, sb, ba) => sb + ba)).getD 0
  advOk && minFirst == mf && minSecond == ms2 && maxExtent == me

def handleCore (_directed : Bool) : Handler := fun s =>
  match s.field? "panic" with
  | some msg =>
    -- a panic outside the work items (context set-up, fragment construction) is always a failure
    { corr := some false, oracle := none, cls := "impl-panic", detail := toString (Sexp.list msg) }
  | none =>
  let r : Option Verdict := do
    let asc ← (← s.field1? "asc").asRat?
    let desc ← (← s.field1? "desc").asRat?
    let vertical := (← (← s.field1? "vertical").asNat?) == 1
    let gin ← (← s.field1? "glyphs").mapM? parseGlyph
    let impl := Sexp.list (← s.field? "impl")
    let err ← impl.field1? "err"
    let n := gin.length
    let shapes := gin.map (·.shape)
    let nComposite := (shapes.filter fun sh => match sh with | .composite _ => true | _ => false).length
    let nEmpty := (shapes.filter fun sh => match sh with | .empty => true | _ => false).length
    -- ---------------- predicted outcome of the work items, in pipeline order (glyf, head, hmtx, vmtx, os2)
    let mAdv : List (Option Nat) := gin.map fun g => advanceOfWidth g.width
    let mVAdv : List (Option Nat) := gin.map fun g => advanceOfHeight g.height asc desc
    let eBoxes : List (Option Box) := ((impl.field1? "bboxes").bind (·.mapM? parseBox)).getD []
    let glyphsE : List Glyph := (shapes.zip eBoxes).map fun (sh, b) => ⟨sh, b⟩
    let mMaxpC := buildMaxpC glyphsE
    let vOrgE : List Int := gin.map fun g => satI16 (otRound (g.vorg.getD asc))
    let vOverflow := (vOrgE.zip eBoxes).any fun (o, b) => !inI16 (o - (b.map (·.yMax)).getD 0)
    let assignedUr : List Nat := ((s.field1? "assigned_ur").bind (·.mapM? Sexp.asNat?)).getD []
    -- (work, kind): kind "OutOfBounds" = the code rejects (944e88e); "panic" = an overflow point the current
    -- code still mishandles: the unchecked i16 `vertical_origin - y_max` (vertical_metrics.rs:98, C19) and a
    -- source-assigned Unicode-range bit ≥ 128 (os2.rs:328, C15)
    let predicted : Option (String × String) :=
      if mAdv.any Option.isNone then some ("hmtx", "OutOfBounds")
      else match mMaxpC with
        | .err => some ("hmtx", "OutOfBounds")
        | .panic => some ("hmtx", "panic")
        | .ok _ =>
          if vertical && mVAdv.any Option.isNone then some ("vmtx", "OutOfBounds")
          else if vertical && vOverflow then some ("vmtx", "panic")
          else if assignedUr.any (· ≥ 128) then some ("os2", "panic")
          else none
    let observed : Option (String × String) :=
      match err with
      | .list (.atom w :: .atom k :: _) => some (w, k)
      | _ => none
    if err != Sexp.atom "none" || predicted.isSome then
      let agree := predicted == observed
      let tags := ["rejected"] ++ (match predicted with
        | some (w, k) => [s!"{w}-{k}"] ++ (if k == "panic" && w == "vmtx" then ["v-tsb-out-of-i16"] else [])
        | none => [])
      if !agree then
        some { corr := some false, oracle := none, cls := "impl-outcome", tags := tags,
               detail := s!"predicted={repr predicted} observed={toString err}" }
      else if (predicted.map (·.2)) == some "panic" then
        -- still-mishandled overflow point owned by C19/C15: recorded, not judged here
        some { corr := none, oracle := none, tags := tags ++ ["panic"], detail := toString err }
      else
        -- rejected with Err(OutOfBounds) exactly where the model says: no font, nothing to summarise
        some { corr := some true, oracle := none, tags := tags }
    else
    let iBoxes ← (← impl.field1? "bboxes").mapM? parseBox
    let iSizes ← (← impl.field1? "sizes").mapM? Sexp.asNat?
    let iLocaFmt ← (← impl.field1? "locafmt").asNat?
    let iLoca ← (← impl.field1? "loca").mapM? Sexp.asNat?
    let iGlyfLen ← (← impl.field1? "glyflen").asNat?
    let iHead ← ints (← impl.field? "head")
    let iHhea ← ints (← impl.field? "hhea")
    let iHmtx ← (← impl.field1? "hmtx").mapM? Sexp.asNat?
    let iMaxp ← nats (← impl.field? "maxp")
    let iOs2 ← ints (← impl.field? "os2")
    let iVhea : Option (List Int) := (impl.field? "vhea").bind ints
    let iVmtx : Option (List Nat) := (impl.field1? "vmtx").bind (·.mapM? Sexp.asNat?)
    -- ---------------- model
    let fuel := n + 1
    let mBoxes := shapes.map (glyphBbox shapes fuel)
    let boxesAgree := mBoxes == iBoxes.map some
    let boxes : List (Option Box) := iBoxes   -- the boxes stored in glyf: the data that head/hhea summarise
    let advances : List Nat := mAdv.map (·.getD 0)
    let hms := (advances.zip boxes).map fun (a, b) => hMetricOf a b
    let hm := buildMetrics hms
    let hheaAgree := iHhea == [(hm.advanceMax : Int), hm.minFirst, hm.minSecond, hm.maxExtent, hm.longMetrics.length]
    let hmtxAgree := iHmtx == mtxWords hm
    let vAdv : List Nat := mVAdv.map (·.getD 0)
    let vOrg : List Int := gin.map fun g => satI16 (otRound (g.vorg.getD asc))
    let vms := (vAdv.zip (vOrg.zip boxes)).map fun (a, o, b) => vMetricOf a o b
    let vm := buildMetrics vms
    let vNarrow := vms.any fun m => !inI16 m.sideBearing
    let vAgree := !vertical || vNarrow ||
      (iVhea == some [(vm.advanceMax : Int), vm.minFirst, vm.minSecond, vm.maxExtent, vm.longMetrics.length]
        && iVmtx == some (mtxWords vm))
    let glyphs : List Glyph := (shapes.zip boxes).map fun (sh, b) => ⟨sh, b⟩
    let mMaxp := match buildMaxpC glyphs with | .ok m => some m | _ => none
    let maxpAgree := match mMaxp with
      | some m => iMaxp == [m.numGlyphs, m.maxPoints, m.maxContours, m.maxCompositePoints, m.maxCompositeContours,
                            m.maxComponentElements, m.maxComponentDepth]
      | none => false
    let hb := headBbox glyphs
    let offs := locaOffsets iSizes
    let fmt := locaFormat offs
    let fmtNat := match fmt with | .short => 0 | .long => 1
    let headAgree := iHead == [hb.xMin, hb.yMin, hb.xMax, hb.yMax, (fmtNat : Int)]
    let locaAgree := iLocaFmt == fmtNat && iLoca == locaEncode fmt offs
    let allCps := (gin.flatMap (·.cps))
    let mAvg := xAvgCharWidth hm.longMetrics n
    let (mFirst, mLast) := minMaxCharIndex allCps
    let ur := bitsToWords (unicodeRangeBits allCps) 4
    let cpr := bitsToWords (codepageRangeBits allCps) 2
    let os2Agree := iOs2 == ([mAvg, (mFirst : Int), (mLast : Int)] ++ (ur.map Int.ofNat) ++ (cpr.map Int.ofNat) ++ [0])
    let corr := boxesAgree && hheaAgree && hmtxAgree && vAgree && maxpAgree && headAgree && locaAgree && os2Agree
    -- ---------------- oracle: the property evaluated on the implementation's own output
    -- (a) hmtx decodes to the per-glyph advances / lsb = xMin of the stored box
    let nhm := (iHhea.getD 4 0).toNat
    let expectH : List (Nat × Int) := hms.map fun m => (m.advance, m.sideBearing)
    let hmtxOk := decodeMtx iHmtx nhm n == some expectH && (n == 0 || nhm ≥ 1)
    let vmtxOk := !vertical || vNarrow ||
      (match iVhea, iVmtx with
       | some vh, some vw => decodeMtx vw (vh.getD 4 0).toNat n == some (vms.map fun m => (m.advance, m.sideBearing))
                              && (vh.getD 4 0) ≥ 1
       | _, _ => false)
    -- (b) extrema recomputed from the inputs (no clamping: in-range is checked separately)
    let hInRange := hms.all fun m => match m.boundsAdvance with
      | some ba => inI16 ((m.advance : Int) - m.sideBearing - ba) && inI16 (m.sideBearing + ba)
      | none => true
    let vInRange := vms.all fun m => match m.boundsAdvance with
      | some ba => inI16 ((m.advance : Int) - m.sideBearing - ba) && inI16 (m.sideBearing + ba)
      | none => true
    let hheaOk := !hInRange || extremaOk hms (iHhea.getD 0 0) (iHhea.getD 1 0) (iHhea.getD 2 0) (iHhea.getD 3 0)
    let vheaOk := !vertical || vNarrow || !vInRange ||
      (match iVhea with
       | some vh => extremaOk vms (vh.getD 0 0) (vh.getD 1 0) (vh.getD 2 0) (vh.getD 3 0)
       | none => false)
    -- (c) head bbox = union of the stored glyph boxes
    let bs := boxes.filterMap id
    let headOk :=
      iHead.take 4 == [(minOfInts (bs.map (·.xMin))).getD 0, (minOfInts (bs.map (·.yMin))).getD 0,
                       (maxOfInts (bs.map (·.xMax))).getD 0, (maxOfInts (bs.map (·.yMax))).getD 0]
    -- (d) each composite's stored box covers its resolved outline (to rounding) and is tight;
    --     each simple glyph's box is the exact bounds of its points
    let boxesOk := (shapes.zip boxes).all fun (sh, b) =>
      match sh, b with
      | .empty, none => true
      | .simple cs, some b => pointsBox cs.flatten == some b
      | .composite comps, some b =>
        let pts := resolvedPoints shapes fuel comps Affine.identity
        let half : Rat := 1/2
        if pts.isEmpty then b == Box.zero
        else if pts.any (fun p => !(inI16 (otRound p.1) && inI16 (otRound p.2))) then true  -- saturates: C19
        else
          pts.all (fun p => (b.xMin : Rat) - half ≤ p.1 && p.1 < (b.xMax : Rat) + half
                         && (b.yMin : Rat) - half ≤ p.2 && p.2 < (b.yMax : Rat) + half) &&
          pts.any (fun p => p.1 < (b.xMin : Rat) + half) && pts.any (fun p => (b.xMax : Rat) - half ≤ p.1) &&
          pts.any (fun p => p.2 < (b.yMin : Rat) + half) && pts.any (fun p => (b.yMax : Rat) - half ≤ p.2)
      | _, _ => false
    -- (e) maxp maxima from the spec functions
    let gids := List.range n
    let comp := gids.filter (isComposite shapes)
    let maxpOk := iMaxp == [n,
      listMax (shapes.map fun sh => match sh with | .simple cs => (cs.map List.length).sum | _ => 0),
      listMax (shapes.map fun sh => match sh with | .simple cs => cs.length | _ => 0),
      listMax (comp.map (specPoints shapes fuel)),
      listMax (comp.map (specContours shapes fuel)),
      listMax (shapes.map fun sh => match sh with | .composite cs => cs.length | _ => 0),
      listMax (comp.map (specDepth shapes fuel))]
    -- (f) loca decodes to the running sums of glyph sizes; format field agrees; offsets fit
    let decoded := locaDecode (if iLocaFmt == 0 then .short else .long) iLoca
    let sums := (iSizes.foldl (fun (acc : List Nat × Nat) sz => (acc.1 ++ [acc.2 + sz], acc.2 + sz)) ([0], 0)).1
    let locaOk := decoded == sums && decoded.getLast? == some iGlyfLen && iHead.getD 4 (-1) == (iLocaFmt : Int)
      && (iLocaFmt == 1 || (iGlyfLen < 0x20000))
    -- (g) OS/2
    let nz := advances.filter (· != 0)
    let avgExact := avgOfExact nz.length nz.sum
    let avgInRange := inI16 avgExact
    let avgOk := iOs2.getD 0 0 == satI16 avgExact
    let uniq := allCps
    let firstLastOk := uniq.isEmpty ||
      (iOs2.getD 1 0 == ((min ((uniq.foldl min (uniq.headD 0))) 0xFFFF : Nat) : Int) &&
       iOs2.getD 2 0 == ((min ((uniq.foldl max 0)) 0xFFFF : Nat) : Int))
    let iUr := (iOs2.drop 3).take 4
    let urOk := (List.range 128).all fun b =>
      let set := ((iUr.getD (b / 32) 0).toNat / 2 ^ (b % 32)) % 2 == 1
      set == unicodeBitSpec allCps b
    let cprOk := ((iOs2.drop 7).take 2).any (· != 0)
    let os2Ok := avgOk && firstLastOk && urOk && cprOk
    let oracle := hmtxOk && vmtxOk && hheaOk && vheaOk && headOk && boxesOk && maxpOk && locaOk && os2Ok
    let maxDepth := listMax (comp.map (specDepth shapes fuel))
    let nt := n ≥ 3 && (nComposite ≥ 1 || hm.firstSideBearings.length ≥ 1)
    let cls :=
      if !oracle then
        (if !hmtxOk then "hmtx-decode" else if !vmtxOk then "vmtx-decode" else if !hheaOk then "hhea-extrema"
         else if !vheaOk then "vhea-extrema" else if !headOk then "head-bbox" else if !boxesOk then "glyph-bbox"
         else if !maxpOk then "maxp" else if !locaOk then "loca"
         else if !avgOk then "os2-avg" else if !firstLastOk then "os2-firstlast" else if !urOk then "os2-unicode-range"
         else "os2-codepage")
      else if !corr then
        (if !boxesAgree then "m-bbox" else if !hheaAgree then "m-hhea" else if !hmtxAgree then "m-hmtx"
         else if !vAgree then "m-vertical" else if !maxpAgree then "m-maxp" else if !headAgree then "m-head"
         else if !locaAgree then "m-loca" else "m-os2")
      else ""
    let tags := [s!"glyphs{if n ≤ 3 then "1-3" else if n ≤ 12 then "4-12" else "13-40"}", s!"depth{maxDepth}"] ++
      (if nComposite > 0 then ["composite"] else []) ++ (if nEmpty > 0 then ["empty"] else []) ++
      (if hm.firstSideBearings.length > 0 then ["lsb-run"] else []) ++
      (if advances.any (· == 0) then ["zero-adv"] else []) ++
      (if hms.any (fun m => m.sideBearing < 0) then ["neg-lsb"] else []) ++
      (if hms.any (fun m => match m.boundsAdvance with | some ba => (m.advance : Int) - m.sideBearing - ba < 0 | none => false) then ["neg-rsb"] else []) ++
      (if allCps.any (· ≥ 0x10000) then ["supplementary"] else []) ++
      (if vertical then ["vertical"] else []) ++ (if vertical && vNarrow then ["v-tsb-out-of-i16"] else []) ++
      (if (shapes.any fun sh => match sh with
          | .composite comps => (resolvedPoints shapes fuel comps Affine.identity).any fun p => !(inI16 (otRound p.1) && inI16 (otRound p.2))
          | _ => false) then ["bbox-saturated"] else []) ++
      (if allCps.isEmpty then ["no-codepoints"] else []) ++
      (if (shapes.any fun sh => match sh with
          | .composite comps => (resolvedPoints shapes fuel comps Affine.identity).isEmpty
          | _ => false) then ["empty-composite-counted"] else []) ++
      (if !hInRange then ["h-clamped"] else []) ++ (if !avgInRange then ["avg-out-of-i16"] else []) ++
      (if fmtNat == 1 then ["loca-long"] else []) ++
      (if avgOfF32 nz.length nz.sum != satI16 avgExact then ["avg-old-f32-would-differ"] else [])
    let detail :=
      if corr && oracle then "" else
        s!"model: hhea={repr [(hm.advanceMax : Int), hm.minFirst, hm.minSecond, hm.maxExtent, hm.longMetrics.length]} maxp={repr mMaxp} head={repr hb} os2={repr ([mAvg, (mFirst : Int), (mLast : Int)])} ur={repr ur} cpr={repr cpr} avgExact={avgExact}"
    let detail := (detail.replace "\n" " ")
    some { corr := some corr, oracle := some oracle, nontrivial := nt, cls := cls, tags := tags, detail := detail }
  r.getD (badInput "c17: cannot parse case")

def handle : Handler := handleCore false
/-- directed excluded-point cases (stream `c17x`) -/
def handleX : Handler := handleCore true

end Fontc.Driver.C17
