import Driver.Common
import FontcModel.FeatVars
import FontcModel.FeatVarsFixed

namespace Fontc.Driver.C16
open Fontc Fontc.FeatVars Fontc.Driver

def parseOptRat (s : Sexp) : Option (Option Rat) :=
  match s with
  | .atom "none" => some none
  | _ => some <$> s.asRat?

def parseRawEntry (s : Sexp) : Option (Nat × Option Rat × Option Rat) :=
  match s with
  | .list [a, lo, hi] => do some (← a.asNat?, ← parseOptRat lo, ← parseOptRat hi)
  | _ => none

def parsePair (s : Sexp) : Option (Nat × Nat) :=
  match s with
  | .list [a, b] => do some (← a.asNat?, ← b.asNat?)
  | _ => none

def parseRule (n : Nat) (s : Sexp) : Option Rule :=
  match s with
  | .list [boxes, subs] => do
    let bs ← boxes.mapM? fun b => (boxOfRaw n) <$> b.mapM? parseRawEntry
    let sm ← subs.mapM? parsePair
    some (bs, subsOfRaw sm)
  | _ => none

/-- an implementation box: its BTreeMap entries, turned back into the vector representation -/
def parseImplBox (n : Nat) (s : Sexp) : Option NBox := do
  let es ← s.mapM? fun e =>
    match e with
    | .list [a, lo, hi] => do some (← a.asNat?, ← lo.asRat?, ← hi.asRat?)
    | _ => none
  some (es.foldl (fun b (a, lo, hi) => b.set a (some (lo, hi))) (emptyBox n))

def parseImplOut (n : Nat) (maps : List Subs) (s : Sexp) : Option (List (NBox × List Subs)) :=
  s.mapM? fun e =>
    match e with
    | .list [b, ids] => do
      let b ← parseImplBox n b
      let ids ← ids.mapM? Sexp.asNat?
      let ms ← ids.mapM fun i => maps[i]?
      some (b, ms)
    | _ => none

/-! ### sample points: for every box its centre and, at four of its corners, the corner itself and the
    points just inside / just outside (diagonally) -/

def eps : Rat := 1 / 4096

def pool : List Rat := [1/8, -3/8, 5/8, -7/8, 3/8, -1/8, 7/8, -5/8]

/-- coordinate on an axis the box does not constrain -/
def freeCoord (k i : Nat) : Rat := pool.getD ((k + 3 * i) % 8) 0

/-- `sel i` = use the upper bound on axis `i`; `off` = signed offset towards the outside -/
def cornerPoint (b : NBox) (k : Nat) (sel : Nat → Bool) (off : Rat) : Point :=
  b.zipIdx.map fun (e, i) =>
    match e with
    | none => freeCoord k i
    | some (lo, hi) => if sel i then hi + off else lo - off

def centre (b : NBox) (k : Nat) : Point :=
  b.zipIdx.map fun (e, i) =>
    match e with
    | none => freeCoord k i
    | some (lo, hi) => (lo + hi) / 2

def boxPoints (b : NBox) (k : Nat) : List Point :=
  let sels : List (Nat → Bool) := [fun _ => false, fun _ => true, fun i => i % 2 == 0, fun i => i % 2 == 1]
  centre b k :: sels.flatMap fun sel => [cornerPoint b k sel 0, cornerPoint b k sel eps, cornerPoint b k sel (-eps)]

def inCube (p : Point) : Bool := p.all fun x => decide (-1 ≤ x) && decide (x ≤ 1)

def dedup (ps : List Point) : List Point :=
  ps.foldl (fun acc p => if acc.contains p then acc else p :: acc) [] |>.reverse

/-- every `stride`-th element -/
def everyNth {α} (stride : Nat) (xs : List α) : List α :=
  (xs.zipIdx.filter fun (_, i) => i % stride == 0).map (·.1)

def samplePoints (boxes : List NBox) (cap : Nat) : List Point :=
  let all := (boxes.zipIdx.flatMap fun (b, k) => boxPoints b k).filter inCube
  let all := if all.length > 4 * cap then everyNth (all.length / (4 * cap) + 1) all else all
  let all := dedup all
  if all.length > cap then everyNth (all.length / cap + 1) all else all

/-! ### hypothesis of the theorem: the point is not on a degenerate touching boundary -/

/-- some box has `x` as lower (`upper = false`) / upper bound on axis `i` -/
def isBound (boxes : List NBox) (upper : Bool) (i : Nat) (x : Rat) : Bool :=
  boxes.any fun b =>
    match b[i]? with
    | some (some (lo, hi)) => if upper then hi == x else lo == x
    | _ => false

/-- no coordinate of `p` is at the same time a lower bound and an upper bound of input boxes -/
def noTouch (boxes : List NBox) (p : Point) : Bool :=
  p.zipIdx.all fun (x, i) => !(isBound boxes false i x && isBound boxes true i x)

/-! ### the effective glyph map -/

def keysOf (rules : List Rule) : List Nat :=
  (rules.flatMap fun r => r.2.map (·.1)).eraseDups

def sameEffective (keys : List Nat) (a b : List Subs) : Bool :=
  keys.all fun g => effective a g == effective b g

/-- two of the maps give the same glyph different substitutes -/
def conflicting (keys : List Nat) (ms : List Subs) : Bool :=
  keys.any fun g => ((ms.filterMap fun m => subsGet m g).eraseDups).length > 1

/-! ### compact one-line printers for `detail` -/
def showRat (r : Rat) : String := if r.den == 1 then toString r.num else s!"{r.num}/{r.den}"
def showPoint (p : Point) : String := "[" ++ ",".intercalate (p.map showRat) ++ "]"
def showSubs (m : Subs) : String := "{" ++ ",".intercalate (m.map fun (a, b) => s!"{a}>{b}") ++ "}"
def showMaps (ms : List Subs) : String := "[" ++ ",".intercalate (ms.map showSubs) ++ "]"
def showOpt (o : Option (List Subs)) : String := match o with | none => "nomatch" | some ms => showMaps ms

def handle : Handler := fun s =>
  let r : Option Verdict := do
    let n ← (← s.field1? "naxes").asNat?
    let rules ← (← s.field1? "rules").mapM? (parseRule n)
    let implPanic := (s.field? "panic").isSome
    let implOut : Option (List (NBox × List Subs)) ←
      if implPanic then some none else do
        let impl := Sexp.list (← s.field? "impl")
        let maps ← (← impl.field1? "maps").mapM? (fun m => m.mapM? parsePair)
        some (some (← parseImplOut n maps (← impl.field1? "out")))
    -- models
    let cs := mergeSameRegionRules (mergeSameSubRules rules)
    let nOut := overlayCore natOps n cs
    let csBoxes0 := cs.flatMap (·.1)
    let pts0 := samplePoints (rules.flatMap (·.1)) 300
    -- the literal model: the code's word-vector rank as it is on the pinned tree, or — if that does not
    -- reproduce the implementation — as it reads after fixes/C16-rank.patch
    let agrees (m : Option (List (NBox × List Subs))) : Bool :=
      match implOut, m with
      | none, none => true
      | some i, some w => pts0.all fun p => firstMatch w p == firstMatch i p
      | _, _ => false
    let wCur := overlayCore wordOps n cs
    let (wOut, opsTag) :=
      if agrees wCur then (wCur, "rank-ops-current")
      else
        let wFix := overlayCore wordOpsFixed n cs
        if agrees wFix then (wFix, "rank-ops-fixed") else (wCur, "rank-ops-current")
    let csBoxes := csBoxes0
    let pts := pts0
    let keys := keysOf rules
    let emptyRegion := rules.any fun r => r.1.isEmpty
    let nMerged := cs.length
    let tagsBase := [s!"axes{n}",
        (if rules.length ≤ 6 then "rules1-6" else if rules.length ≤ 20 then "rules7-20"
         else if rules.length ≤ 64 then "rules21-64" else "rules65+"),
        (if nMerged ≥ 65 then "merged65+" else "merged<65")] ++
      (if nMerged < rules.length then ["merged-some"] else []) ++ (if nMerged ≥ 65 then [opsTag] else []) ++
      (if emptyRegion then ["empty-region"] else [])
    match implOut, wOut with
    | none, none =>
      -- both panic: index out of bounds in `conditional_subs[i]`
      some { corr := some true, oracle := some false, nontrivial := true, cls := "rank-oralign-panic",
             tags := tagsBase ++ ["panic"], detail := "impl and word model both index out of bounds" }
    | none, some _ =>
      some { corr := some false, oracle := some false, nontrivial := true, cls := "impl-panic", tags := tagsBase ++ ["panic"] }
    | some _, none =>
      some { corr := some false, oracle := none, nontrivial := true, cls := "model-panic", tags := tagsBase }
    | some iOut, some wOut =>
      let structEq := iOut == wOut
      -- correspondence: the literal (word-vector) model against the implementation, per sampled point
      let corrBad := pts.find? fun p => firstMatch wOut p != firstMatch iOut p
      let corr := corrBad.isNone
      -- oracle: the property on the implementation's output against the spec computed from the input rules
      let checked := pts.filter fun p => noTouch csBoxes p
      let spec (p : Point) := activeSubs rules p
      let got (o : List (NBox × List Subs)) (p : Point) := (firstMatch o p).getD []
      let bad := checked.filter fun p => !sameEffective keys (got iOut p) (spec p)
      let oracle := bad.isEmpty
      -- classification of a failure
      let natOk (p : Point) := match nOut with
        | some o => sameEffective keys (got o p) (spec p)
        | none => false
      let wordsDiffer := match nOut with
        | some o => o != wOut
        | none => true
      let cls :=
        match bad with
        | [] => if corr then "" else "model-vs-impl"
        | p :: _ =>
          if emptyRegion then "empty-region"
          else if conflicting keys (spec p) then "precedence"
          else if natOk p && decide (nMerged ≥ 65) && wordsDiffer then
            -- the Python-int algorithm is right here, the word-vector emulation is not
            (if got wOut p == got iOut p then
               (match nOut with
                | some o => if (o.map (·.1)) == (wOut.map (·.1)) then "rank-oralign" else "rank-wordcount"
                | none => "rank-wordcount")
             else "rank-other")
          else "first-match-wrong"
      let nTouch := pts.length - checked.length
      let anyConflict := pts.any fun p => conflicting keys (spec p)
      let nt := rules.length ≥ 3 && iOut.length ≥ 4
      let tags := tagsBase ++ (if structEq then ["struct-eq"] else ["struct-DIFF"]) ++
        (if nTouch > 0 then ["touch-skipped"] else []) ++ (if anyConflict then ["conflict"] else []) ++
        (if iOut.length ≥ 100 then ["out100+"] else [])
      let detail :=
        (match corrBad with
         | some p => s!"corr-point={showPoint p} model={showOpt (firstMatch wOut p)} impl={showOpt (firstMatch iOut p)} "
         | none => "") ++
        (match bad with
         | p :: _ => s!"oracle-point={showPoint p} impl={showMaps (got iOut p)} spec={showMaps (spec p)} nbad={bad.length}/{checked.length}"
         | [] => "")
      some { corr := some corr, oracle := some oracle, nontrivial := nt, cls := cls, tags := tags, detail := detail }
  r.getD (badInput "c16: cannot parse case")

end Fontc.Driver.C16

/-! ## c16e2e: GSUB FeatureVariations of a font built by the real fontc from a designspace with `<rules>` -/
namespace Fontc.Driver.C16
open Fontc Fontc.FeatVars Fontc.Driver

def parseNormBox (n : Nat) (s : Sexp) : Option NBox := do
  let es ← s.mapM? fun e =>
    match e with
    | .list [a, lo, hi] => do some (← a.asNat?, ← lo.asRat?, ← hi.asRat?)
    | _ => none
  some (es.foldl (fun b (a, lo, hi) => b.set a (some (lo, hi))) (emptyBox n))

structure FvRecord where
  conds : List (Nat × Rat × Rat)
  substs : List (Nat × List Nat)

def parseRecord (s : Sexp) : Option FvRecord :=
  match s with
  | .list [cs, ss] => do
    let conds ← cs.mapM? fun e =>
      match e with
      | .list [a, lo, hi] => do some (← a.asNat?, ← lo.asRat?, ← hi.asRat?)
      | _ => none
    let substs ← ss.mapM? fun e =>
      match e with
      | .list [fi, ls] => do some (← fi.asNat?, ← ls.mapM? Sexp.asNat?)
      | _ => none
    some ⟨conds, substs⟩
  | _ => none

def condHolds (p : Point) (c : Nat × Rat × Rat) : Bool :=
  match p[c.1]? with
  | some x => decide (c.2.1 ≤ x) && decide (x ≤ c.2.2)
  | none => false

/-- the lookup indices a shaping engine applies at `p`: for every feature the alternate lookup list of the
    first matching record (or the feature's own list), all merged, in lookup-list order -/
def activeLookups (features : List (List Nat)) (records : List FvRecord) (p : Point) : List Nat :=
  let rec? := records.find? fun r => r.conds.all (condHolds p)
  let perFeature := features.zipIdx.map fun (base, fi) =>
    match rec? with
    | some r => (r.substs.lookup fi).getD base
    | none => base
  (perFeature.flatten.eraseDups).mergeSort (fun a b => a ≤ b)

/-- apply single-substitution lookups one after the other -/
def applyLookups (lookups : List Subs) (order : List Nat) (g : Nat) : Nat :=
  order.foldl (fun g i => match lookups[i]? with
    | some m => (subsGet m g).getD g
    | none => g) g

/-- lexicographic order of `BTreeMap<GlyphName,GlyphName>` (glyph numbers are in name order) -/
def subsLe : Subs → Subs → Bool
  | [], _ => true
  | _ :: _, [] => false
  | (a, b) :: as, (c, d) :: cs =>
    if a < c then true else if c < a then false
    else if b < d then true else if d < b then false
    else subsLe as cs

/-- fontbe `make_substitution_lookups`: one lookup per distinct map, in sorted-map order; a record applies its
    maps in that order -/
def applySortedMaps (ms : List Subs) (g : Nat) : Nat :=
  (insSort subsLe ms).foldl (fun g m => (subsGet m g).getD g) g

/-- `NBox::to_condition_set` (fontir/src/feature_variations.rs:48-69) without the F2Dot14 rounding: conditions
    equal to the axis' whole normalized range are dropped -/
def toCondSet (range : List (Rat × Rat)) (b : NBox) : List (Nat × Rat × Rat) :=
  (entries b).filter fun (a, lo, hi) => (lo, hi) != range.getD a (-1, 1)

/-- fea-rs keeps the variations of a feature in a map keyed by condition set (feature_writer.rs:481-509: a later
    equal condition set replaces the value) and orders records by first use (compile_ctx.rs:2340) -/
def assembleRecords {ν} (recs : List (List (Nat × Rat × Rat) × ν)) : List (List (Nat × Rat × Rat) × ν) :=
  recs.foldl (fun acc (k, v) => imUpsert k v (fun _ => v) acc) []

def cellPoints (n : Nat) (range : List (Rat × Rat)) (boxes : List NBox) : List Point :=
  let perAxis : List (List Rat) := (List.range n).map fun a =>
    let (lo, hi) := range.getD a (-1, 1)
    let bs := boxes.flatMap fun b => match b[a]? with
      | some (some (x, y)) => [x, y]
      | _ => []
    let bs := ((lo :: hi :: bs).filter fun x => decide (lo ≤ x) && decide (x ≤ hi)).eraseDups
    let bs := bs.mergeSort (fun a b => decide (a ≤ b))
    if bs.length ≤ 1 then bs else (bs.zip (bs.drop 1)).map fun (x, y) => (x + y) / 2
  perAxis.foldr (fun xs acc => xs.flatMap fun x => acc.map fun p => x :: p) [[]]

def handleE2E : Handler := fun s =>
  let r : Option Verdict := do
    let n ← (← s.field1? "naxes").asNat?
    let conflictMode := (← (← s.field1? "conflict").asNat?) == 1
    let range ← (← s.field1? "range").mapM? fun e =>
      match e with
      | .list [lo, hi] => do some (← lo.asRat?, ← hi.asRat?)
      | _ => none
    let rules ← (← s.field1? "rules").mapM? fun e =>
      match e with
      | .list [boxes, subs] => do
        let bs ← boxes.mapM? fun b => (boxOfRaw n) <$> b.mapM? parseRawEntry
        let sm ← subs.mapM? parsePair
        some ((bs, subsOfRaw sm) : Rule)
      | _ => none
    let result ← (s.field? "result")
    if result.head? != some (Sexp.atom "ok") then
      some { corr := none, oracle := some false, nontrivial := false, cls := "build-failed", tags := ["build-failed"],
             detail := toString (Sexp.list result) }
    else do
    let impl := Sexp.list (← s.field? "impl")
    let features ← (← impl.field1? "features").mapM? fun e =>
      match e with
      | .list [_, ls] => ls.mapM? Sexp.asNat?
      | _ => none
    let records ← (← impl.field1? "records").mapM? parseRecord
    let lookups ← (← impl.field1? "lookups").mapM? fun e => e.mapM? parsePair
    let boxes := rules.flatMap (·.1)
    let pts := cellPoints n range boxes
    let keys := keysOf rules
    let fontMap (p : Point) (g : Nat) : Nat := applyLookups lookups (activeLookups features records p) g
    let specMap (p : Point) (g : Nat) : Nat := (effective (activeSubs rules p) g).getD g
    -- model of the whole pipeline: overlay (Nat rank) + fontbe's sorted lookups
    let mOut := (overlayFeatureVariations natOps n rules).getD []
    let mRecs := assembleRecords (mOut.map fun (b, ms) => (toCondSet range b, ms))
    let collision := mRecs.length < mOut.length
    let modelMap (p : Point) (g : Nat) : Nat :=
      match mRecs.find? fun r => r.1.all (condHolds p) with
      | some r => applySortedMaps r.2 g
      | none => g
    let corrBad := pts.find? fun p => keys.any fun g => fontMap p g != modelMap p g
    let bad := pts.filter fun p => keys.any fun g => fontMap p g != specMap p g
    let anyConflict := pts.any fun p => conflicting keys (activeSubs rules p)
    let cls := match bad with
      | [] => if corrBad.isNone then "" else "model-vs-font"
      | p :: _ => if conflicting keys (activeSubs rules p) then "precedence-e2e"
                  else if collision then "condset-collision" else "e2e-wrong"
    let detail :=
      (match corrBad with
       | some p => s!"corr-point={showPoint p} font={keys.map (fontMap p)} model={keys.map (modelMap p)} "
       | none => "") ++
      (match bad with
       | p :: _ => s!"oracle-point={showPoint p} keys={keys} font={keys.map (fontMap p)} spec={keys.map (specMap p)} active={showMaps (activeSubs rules p)} nbad={bad.length}/{pts.length}"
       | [] => "")
    some { corr := some corrBad.isNone, oracle := some bad.isEmpty, nontrivial := rules.length ≥ 2 && records.length ≥ 2,
           cls := cls,
           tags := [s!"axes{n}", s!"rules{rules.length}", s!"records{if records.length ≥ 6 then "6+" else toString records.length}"] ++
             (if conflictMode then ["conflict-mode"] else []) ++ (if anyConflict then ["conflict"] else []) ++
             (if collision then ["condset-collision"] else []),
           detail := detail }
  r.getD (badInput "c16e2e: cannot parse case")

end Fontc.Driver.C16
