import Driver.Common
import FontcModel.FeatVars

namespace Fontc.Driver.C16
open Fontc Fontc.FeatVars Fontc.Driver

def parseOptRat (s : Sexp) : Option (Option Rat) :=
  match s with
  | .atom "none" => some none
  | _ => some <$> s.asRat?

def parseRawEntry (s : Sexp) : Option (Nat × Option Rat × Option Rat) :=
  match s with
  | .list [a, lo, hi] => do some (← a.asNat?, ← parseOptRat lo, ← parseOptRat hi)
  | _ => none

def parsePair (s : Sexp) : Option (Nat × Nat) :=
  match s with
  | .list [a, b] => do some (← a.asNat?, ← b.asNat?)
  | _ => none

def parseRule (n : Nat) (s : Sexp) : Option Rule :=
  match s with
  | .list [boxes, subs] => do
    let bs ← boxes.mapM? fun b => (boxOfRaw n) <$> b.mapM? parseRawEntry
    let sm ← subs.mapM? parsePair
    some (bs, subsOfRaw sm)
  | _ => none

/-- an implementation box: its BTreeMap entries, turned back into the vector representation -/
def parseImplBox (n : Nat) (s : Sexp) : Option NBox := do
  let es ← s.mapM? fun e =>
    match e with
    | .list [a, lo, hi] => do some (← a.asNat?, ← lo.asRat?, ← hi.asRat?)
    | _ => none
  some (es.foldl (fun b (a, lo, hi) => b.set a (some (lo, hi))) (emptyBox n))

def parseImplOut (n : Nat) (maps : List Subs) (s : Sexp) : Option (List (NBox × List Subs)) :=
  s.mapM? fun e =>
    match e with
    | .list [b, ids] => do
      let b ← parseImplBox n b
      let ids ← ids.mapM? Sexp.asNat?
      let ms ← ids.mapM fun i => maps[i]?
      some (b, ms)
    | _ => none

/-! ### sample points: for every box its centre and, at four of its corners, the corner itself and the
    points just inside / just outside (diagonally) -/

def eps : Rat := 1 / 4096

def pool : List Rat := [1/8, -3/8, 5/8, -7/8, 3/8, -1/8, 7/8, -5/8]

/-- coordinate on an axis the box does not constrain -/
def freeCoord (k i : Nat) : Rat := pool.getD ((k + 3 * i) % 8) 0

/-- `sel i` = use the upper bound on axis `i`; `off` = signed offset towards the outside -/
def cornerPoint (b : NBox) (k : Nat) (sel : Nat → Bool) (off : Rat) : Point :=
  b.zipIdx.map fun (e, i) =>
    match e with
    | none => freeCoord k i
    | some (lo, hi) => if sel i then hi + off else lo - off

def centre (b : NBox) (k : Nat) : Point :=
  b.zipIdx.map fun (e, i) =>
    match e with
    | none => freeCoord k i
    | some (lo, hi) => (lo + hi) / 2

def boxPoints (b : NBox) (k : Nat) : List Point :=
  let sels : List (Nat → Bool) := [fun _ => false, fun _ => true, fun i => i % 2 == 0, fun i => i % 2 == 1]
  centre b k :: sels.flatMap fun sel => [cornerPoint b k sel 0, cornerPoint b k sel eps, cornerPoint b k sel (-eps)]

def inCube (p : Point) : Bool := p.all fun x => decide (-1 ≤ x) && decide (x ≤ 1)

def dedup (ps : List Point) : List Point :=
  ps.foldl (fun acc p => if acc.contains p then acc else p :: acc) [] |>.reverse

/-- every `stride`-th element -/
def everyNth {α} (stride : Nat) (xs : List α) : List α :=
  (xs.zipIdx.filter fun (_, i) => i % stride == 0).map (·.1)

def samplePoints (boxes : List NBox) (cap : Nat) : List Point :=
  let all := (boxes.zipIdx.flatMap fun (b, k) => boxPoints b k).filter inCube
  let all := if all.length > 4 * cap then everyNth (all.length / (4 * cap) + 1) all else all
  let all := dedup all
  if all.length > cap then everyNth (all.length / cap + 1) all else all

/-! ### hypothesis of the theorem: the point is not on a degenerate touching boundary -/

/-- some box has `x` as lower (`upper = false`) / upper bound on axis `i` -/
def isBound (boxes : List NBox) (upper : Bool) (i : Nat) (x : Rat) : Bool :=
  boxes.any fun b =>
    match b[i]? with
    | some (some (lo, hi)) => if upper then hi == x else lo == x
    | _ => false

/-- no coordinate of `p` is at the same time a lower bound and an upper bound of input boxes -/
def noTouch (boxes : List NBox) (p : Point) : Bool :=
  p.zipIdx.all fun (x, i) => !(isBound boxes false i x && isBound boxes true i x)

/-! ### the effective glyph map -/

def keysOf (rules : List Rule) : List Nat :=
  (rules.flatMap fun r => r.2.map (·.1)).eraseDups

def sameEffective (keys : List Nat) (a b : List Subs) : Bool :=
  keys.all fun g => effective a g == effective b g

/-- two of the maps give the same glyph different substitutes -/
def conflicting (keys : List Nat) (ms : List Subs) : Bool :=
  keys.any fun g => ((ms.filterMap fun m => subsGet m g).eraseDups).length > 1

/-! ### compact one-line printers for `detail` -/
def showRat (r : Rat) : String := if r.den == 1 then toString r.num else s!"{r.num}/{r.den}"
def showPoint (p : Point) : String := "[" ++ ",".intercalate (p.map showRat) ++ "]"
def showSubs (m : Subs) : String := "{" ++ ",".intercalate (m.map fun (a, b) => s!"{a}>{b}") ++ "}"
def showMaps (ms : List Subs) : String := "[" ++ ",".intercalate (ms.map showSubs) ++ "]"
def showOpt (o : Option (List Subs)) : String := match o with | none => "nomatch" | some ms => showMaps ms

def handle : Handler := fun s =>
  let r : Option Verdict := do
    let n ← (← s.field1? "naxes").asNat?
    let rules ← (← s.field1? "rules").mapM? (parseRule n)
    let implPanic := (s.field? "panic").isSome
    let implOut : Option (List (NBox × List Subs)) ←
      if implPanic then some none else do
        let impl := Sexp.list (← s.field? "impl")
        let maps ← (← impl.field1? "maps").mapM? (fun m => m.mapM? parsePair)
        some (some (← parseImplOut n maps (← impl.field1? "out")))
    -- models
    let cs := mergeSameRegionRules (mergeSameSubRules rules)
    let wOut := overlayCore wordOps n cs
    let nOut := overlayCore natOps n cs
    let csBoxes := cs.flatMap (·.1)
    let inBoxes := rules.flatMap (·.1)
    let pts := samplePoints inBoxes 300
    let keys := keysOf rules
    let emptyRegion := rules.any fun r => r.1.isEmpty
    let nMerged := cs.length
    let tagsBase := [s!"axes{n}",
        (if rules.length ≤ 6 then "rules1-6" else if rules.length ≤ 20 then "rules7-20"
         else if rules.length ≤ 64 then "rules21-64" else "rules65+"),
        (if nMerged ≥ 65 then "merged65+" else "merged<65")] ++
      (if nMerged < rules.length then ["merged-some"] else []) ++
      (if emptyRegion then ["empty-region"] else [])
    match implOut, wOut with
    | none, none =>
      -- both panic: index out of bounds in `conditional_subs[i]`
      some { corr := some true, oracle := some false, nontrivial := true, cls := "rank-oralign-panic",
             tags := tagsBase ++ ["panic"], detail := "impl and word model both index out of bounds" }
    | none, some _ =>
      some { corr := some false, oracle := some false, nontrivial := true, cls := "impl-panic", tags := tagsBase ++ ["panic"] }
    | some _, none =>
      some { corr := some false, oracle := none, nontrivial := true, cls := "model-panic", tags := tagsBase }
    | some iOut, some wOut =>
      let structEq := iOut == wOut
      -- correspondence: the literal (word-vector) model against the implementation, per sampled point
      let corrBad := pts.find? fun p => firstMatch wOut p != firstMatch iOut p
      let corr := corrBad.isNone
      -- oracle: the property on the implementation's output against the spec computed from the input rules
      let checked := pts.filter fun p => noTouch csBoxes p
      let spec (p : Point) := activeSubs rules p
      let got (o : List (NBox × List Subs)) (p : Point) := (firstMatch o p).getD []
      let bad := checked.filter fun p => !sameEffective keys (got iOut p) (spec p)
      let oracle := bad.isEmpty
      -- classification of a failure
      let natOk (p : Point) := match nOut with
        | some o => sameEffective keys (got o p) (spec p)
        | none => false
      let wordsDiffer := match nOut with
        | some o => o != wOut
        | none => true
      let cls :=
        match bad with
        | [] => if corr then "" else "model-vs-impl"
        | p :: _ =>
          if emptyRegion then "empty-region"
          else if conflicting keys (spec p) then "precedence"
          else if natOk p && decide (nMerged ≥ 65) && wordsDiffer then
            -- the Python-int algorithm is right here, the word-vector emulation is not
            (if got wOut p == got iOut p then
               (match nOut with
                | some o => if (o.map (·.1)) == (wOut.map (·.1)) then "rank-oralign" else "rank-wordcount"
                | none => "rank-wordcount")
             else "rank-other")
          else "first-match-wrong"
      let nTouch := pts.length - checked.length
      let anyConflict := pts.any fun p => conflicting keys (spec p)
      let nt := rules.length ≥ 3 && iOut.length ≥ 4
      let tags := tagsBase ++ (if structEq then ["struct-eq"] else ["struct-DIFF"]) ++
        (if nTouch > 0 then ["touch-skipped"] else []) ++ (if anyConflict then ["conflict"] else []) ++
        (if iOut.length ≥ 100 then ["out100+"] else [])
      let detail :=
        (match corrBad with
         | some p => s!"corr-point={showPoint p} model={showOpt (firstMatch wOut p)} impl={showOpt (firstMatch iOut p)} "
         | none => "") ++
        (match bad with
         | p :: _ => s!"oracle-point={showPoint p} impl={showMaps (got iOut p)} spec={showMaps (spec p)} nbad={bad.length}/{checked.length}"
         | [] => "")
      some { corr := some corr, oracle := some oracle, nontrivial := nt, cls := cls, tags := tags, detail := detail }
  r.getD (badInput "c16: cannot parse case")

end Fontc.Driver.C16
