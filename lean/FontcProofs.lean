
import FontcProofs.Rounding
import FontcProofs.VarModelAlg
import FontcProofs.VarModelGeom
import FontcProofs.VarModelSort
import FontcProofs.VarModelTri
import FontcProofs.SfntBasic
import FontcProofs.SfntLayout
import FontcProofs.SfntMain
