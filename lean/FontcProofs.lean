
import FontcProofs.Rounding
import FontcProofs.VarModelAlg
import FontcProofs.VarModelGeom
import FontcProofs.VarModelSort
import FontcProofs.VarModelTri
import FontcProofs.SfntBasic
import FontcProofs.SfntLayout
import FontcProofs.SfntMain
import FontcProofs.PathsStf
import FontcProofs.PathsKern
import FontcProofs.PathsTarget
import FontcProofs.PathsPersist
import FontcProofs.LimitsMetrics
import FontcProofs.LimitsMaxp
import FontcProofs.LimitsBbox
import FontcProofs.LimitsOs2
import FontcProofs.LimitsF32
