
import FontcProofs.Rounding
import FontcProofs.VarModelAlg
import FontcProofs.VarModelGeom
import FontcProofs.VarModelSort
import FontcProofs.VarModelTri
