
import FontcProps.C07
import FontcProps.C05
import FontcProps.C14
import FontcProps.C17
import FontcProps.C09
import FontcProps.C13
import FontcProps.C03
import FontcProps.C04
import FontcProps.C08
import FontcProps.C10
import FontcProps.C16
import FontcProps.C18
import FontcProps.C15
import FontcProps.C06
