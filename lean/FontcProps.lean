
import FontcProps.C07
import FontcProps.C05
import FontcProps.C14
