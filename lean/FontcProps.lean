
import FontcProps.C07
