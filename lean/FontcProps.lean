
import FontcProps.C07
import FontcProps.C05
import FontcProps.C14
import FontcProps.C17
