
import FontcProps.C07
import FontcProps.C05
