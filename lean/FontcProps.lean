
import FontcProps.C07
import FontcProps.C05
import FontcProps.C14
import FontcProps.C17
import FontcProps.C09
import FontcProps.C13
import FontcProps.C03
import FontcProps.C04
