/-
  Helper lemmas for C05 (1/3): byte encoders/readers, the OpenType checksum on 4-aligned
  concatenations, insertion sort.
-/
import FontcModel.Sfnt

namespace Fontc.SfntProofs
open Fontc.Bytes Fontc.Sfnt

/-! ## be16 / be32 / take2 / take4 -/

@[simp] theorem length_be16 (n : Nat) : (be16 n).length = 2 := rfl
@[simp] theorem length_be32 (n : Nat) : (be32 n).length = 4 := rfl

theorem take2_be16 (n : Nat) (rest : Bytes) (h : n < 65536) :
    take2 (be16 n ++ rest) = some (n, rest) := by
  simp [be16, take2, UInt8.toNat_ofNat']
  omega

theorem take4_be32 (n : Nat) (rest : Bytes) (h : n < 4294967296) :
    take4 (be32 n ++ rest) = some (n, rest) := by
  simp [be32, take4, word, UInt8.toNat_ofNat']
  omega

/-! ## pad4 -/

theorem pad4_ge (n : Nat) : n ≤ pad4 n := by unfold pad4; omega
theorem pad4_mod (n : Nat) : pad4 n % 4 = 0 := by unfold pad4; omega
theorem pad4_lt (n : Nat) : pad4 n < n + 4 := by unfold pad4; omega
theorem pad4_of_mod (n : Nat) (h : n % 4 = 0) : pad4 n = n := by unfold pad4; omega

/-! ## checksum -/

theorem sumWords_acc : ∀ (bs : Bytes) (acc : Nat), sumWords acc bs = acc + sumWords 0 bs
  | a :: b :: c :: d :: rest, acc => by
    simp only [sumWords]
    rw [sumWords_acc rest (acc + word a b c d), sumWords_acc rest (0 + word a b c d)]; omega
  | [_, _, _], _ => by simp [sumWords]
  | [_, _], _ => by simp [sumWords]
  | [_], _ => by simp [sumWords]
  | [], _ => by simp [sumWords]

theorem rawSum_nil : rawSum [] = 0 := rfl

theorem rawSum_cons4 (a b c d : UInt8) (rest : Bytes) :
    rawSum (a :: b :: c :: d :: rest) = word a b c d + rawSum rest := by
  simp only [rawSum, sumWords]; rw [sumWords_acc]; omega

/-- A 4-aligned prefix splits the sum. -/
theorem rawSum_append : ∀ (a b : Bytes), a.length % 4 = 0 → rawSum (a ++ b) = rawSum a + rawSum b
  | [], b, _ => by simp [rawSum_nil]
  | x :: y :: z :: w :: rest, b, h => by
    have hlen : rest.length % 4 = 0 := by simp at h; omega
    simp only [List.cons_append, rawSum_cons4, rawSum_append rest b hlen]; omega
  | [_], _, h => by simp at h
  | [_, _], _, h => by simp at h
  | [_, _, _], _, h => by simp at h

theorem rawSum_zeros (k : Nat) : rawSum (List.replicate k (0 : UInt8)) = 0 := by
  match k with
  | 0 => rfl
  | 1 => rfl
  | 2 => rfl
  | 3 => rfl
  | k + 4 =>
    have : List.replicate (k + 4) (0 : UInt8) = 0 :: 0 :: 0 :: 0 :: List.replicate k 0 := by
      simp [List.replicate_succ]
    rw [this, rawSum_cons4, rawSum_zeros k]; rfl

/-- Zero padding up to the next multiple of four does not change the sum. -/
theorem rawSum_pad (d : Bytes) (k : Nat) (hk : d.length % 4 + k ≤ 4 ∨ d.length % 4 = 0) :
    rawSum (d ++ List.replicate k 0) = rawSum d := by
  match d with
  | a :: b :: c :: e :: rest =>
    simp only [List.cons_append, rawSum_cons4]
    rw [rawSum_pad rest k (by simp at hk; omega)]
  | [] => simp [rawSum_zeros, rawSum_nil]
  | [a] =>
    have : k ≤ 3 := by simp at hk; omega
    match k, this with
    | 0, _ => rfl
    | 1, _ => rfl
    | 2, _ => rfl
    | 3, _ => rfl
  | [a, b] =>
    have : k ≤ 2 := by simp at hk; omega
    match k, this with
    | 0, _ => rfl
    | 1, _ => rfl
    | 2, _ => rfl
  | [a, b, c] =>
    have : k ≤ 1 := by simp at hk; omega
    match k, this with
    | 0, _ => rfl
    | 1, _ => rfl
termination_by d.length

theorem rawSum_be32 (v : Nat) (h : v < 4294967296) : rawSum (be32 v) = v := by
  simp [be32, rawSum_cons4, rawSum_nil, word, UInt8.toNat_ofNat']
  omega

/-! ## insertion sort -/

theorem insertBy_perm {α} (key : α → Nat) (a : α) (l : List α) : (insertBy key a l).Perm (a :: l) := by
  induction l with
  | nil => simp [insertBy]
  | cons b l ih =>
    simp only [insertBy]
    split
    · exact List.Perm.refl _
    · exact (List.Perm.cons b ih).trans (List.Perm.swap a b l)

theorem sortBy_perm {α} (key : α → Nat) (l : List α) : (sortBy key l).Perm l := by
  induction l with
  | nil => simp [sortBy]
  | cons a l ih => exact (insertBy_perm key a _).trans (List.Perm.cons a ih)

theorem insertBy_sorted {α} (key : α → Nat) (a : α) (l : List α)
    (h : List.Pairwise (fun x y => key x ≤ key y) l) :
    List.Pairwise (fun x y => key x ≤ key y) (insertBy key a l) := by
  induction l with
  | nil => simp [insertBy]
  | cons b l ih =>
    simp only [insertBy]
    rw [List.pairwise_cons] at h
    split
    · rename_i hle
      refine List.pairwise_cons.2 ⟨?_, List.pairwise_cons.2 h⟩
      intro c hc
      rcases List.mem_cons.1 hc with rfl | hc
      · exact hle
      · exact Nat.le_trans hle (h.1 c hc)
    · rename_i hnle
      refine List.pairwise_cons.2 ⟨?_, ih h.2⟩
      intro c hc
      rcases List.mem_cons.1 ((insertBy_perm key a l).mem_iff.1 hc) with rfl | hc
      · omega
      · exact h.1 c hc

theorem sortBy_sorted {α} (key : α → Nat) (l : List α) :
    List.Pairwise (fun x y => key x ≤ key y) (sortBy key l) := by
  induction l with
  | nil => simp [sortBy]
  | cons a l ih => exact insertBy_sorted key a _ ih

/-- distinct keys: sorted is strictly sorted -/
theorem sortBy_strict {α} (key : α → Nat) (l : List α) (hnd : (l.map key).Nodup) :
    List.Pairwise (fun x y => key x < key y) (sortBy key l) := by
  have hs := sortBy_sorted key l
  have hnd' : ((sortBy key l).map key).Nodup := ((sortBy_perm key l).map key).nodup_iff.2 hnd
  have hne : List.Pairwise (fun x y => key x ≠ key y) (sortBy key l) := by
    unfold List.Nodup at hnd'
    exact List.pairwise_map.1 hnd'
  exact (hs.and hne).imp (fun ⟨h1, h2⟩ => by omega)

/-- Two strictly sorted lists with the same elements are equal. -/
theorem eq_of_perm_of_strict {α} (key : α → Nat) :
    ∀ (l₁ l₂ : List α), List.Pairwise (fun x y => key x < key y) l₁ →
      List.Pairwise (fun x y => key x < key y) l₂ → l₁.Perm l₂ → l₁ = l₂
  | [], l₂, _, _, hp => (List.Perm.eq_nil (hp.symm)).symm ▸ rfl
  | a :: l₁, [], _, _, hp => by simpa using hp.length_eq
  | a :: l₁, b :: l₂, h₁, h₂, hp => by
    rw [List.pairwise_cons] at h₁ h₂
    have ha : a ∈ b :: l₂ := hp.mem_iff.1 (List.mem_cons_self)
    have hb : b ∈ a :: l₁ := hp.mem_iff.2 (List.mem_cons_self)
    have hab : a = b := by
      rcases List.mem_cons.1 ha with h | h
      · exact h
      · rcases List.mem_cons.1 hb with h' | h'
        · exact h'.symm
        · have := h₁.1 b h'; have := h₂.1 a h; omega
    subst hab
    rw [eq_of_perm_of_strict key l₁ l₂ h₁.2 h₂.2 ((List.perm_cons a).1 hp)]

end Fontc.SfntProofs
