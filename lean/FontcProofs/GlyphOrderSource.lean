/-
  C06 helper lemmas, part 6: consequences of `FinalShape` stated against the source (order, cmap).
-/
import FontcModel.GlyphOrder
import FontcProofs.GlyphOrderBasic
import FontcProofs.GlyphOrderNames
import FontcProofs.GlyphOrderTable
import FontcProofs.GlyphOrderFinal
import FontcProofs.GlyphOrderCmap

namespace Fontc.GlyphOrder

theorem mem_kept {s : Source} {n : String} (hnames : (s.glyphs.map (·.name)).Nodup) :
    n ∈ s.kept ↔ n ∈ s.prelim ∧ ∃ g ∈ s.glyphs, g.name = n ∧ g.exported = true := by
  unfold Source.kept Source.table
  rw [List.mem_filter]
  constructor
  · rintro ⟨hp, hexp⟩
    unfold Table.isExport at hexp
    cases hg : (Table.ofList s.glyphs).get n with
    | none => simp [hg] at hexp
    | some g => exact ⟨hp, g, Table.get_ofList_mem hg, Table.get_name hg, by simpa [hg] using hexp⟩
  · rintro ⟨hp, g, hg, hname, hexp⟩
    refine ⟨hp, ?_⟩
    have := Table.get_ofList_of_mem hnames hg
    unfold Table.isExport
    rw [← hname, this]
    simpa using hexp

/-- (kept ++ derived) minus `.notdef`, when no derived name is `.notdef` -/
theorem erase_notdef_append {kept derived : List String} (hd : notdef ∉ derived) :
    (kept ++ derived).erase notdef = kept.erase notdef ++ derived := by
  by_cases hk : notdef ∈ kept
  · exact List.erase_append_left _ hk
  · rw [List.erase_append_right _ hk, List.erase_of_not_mem hk, List.erase_of_not_mem hd]

theorem FinalShape.order_eq {s : Source} {f : Final} (hs : FinalShape s f) :
    ∃ derived : List String,
      f.order = notdef :: (s.kept.erase notdef ++ derived) ∧
      (s.kept ++ derived).Nodup ∧
      (∀ x ∈ derived, x ≠ notdef ∧ ∃ b k, b ∈ s.kept ∧ x = suffixed b k) := by
  obtain ⟨derived, hord, hnd, hform, _, _⟩ := hs.shape
  have hd : notdef ∉ derived := by
    intro h
    obtain ⟨b, k, _, e⟩ := hform _ h
    exact suffixed_ne_notdef b k e.symm
  refine ⟨derived, by rw [hord, erase_notdef_append hd], hnd, ?_⟩
  intro x hx
  exact ⟨fun e => hd (e ▸ hx), hform x hx⟩

theorem FinalShape.order_nodup {s : Source} {f : Final} (hs : FinalShape s f) : f.order.Nodup := by
  obtain ⟨derived, hord, hnd, hform⟩ := hs.order_eq
  rw [hord, List.nodup_cons]
  have hnd' : (s.kept.erase notdef ++ derived).Nodup := by
    rw [List.nodup_append] at hnd ⊢
    refine ⟨hnd.1.sublist List.erase_sublist, hnd.2.1, ?_⟩
    intro a ha b hb
    exact hnd.2.2 a (List.mem_of_mem_erase ha) b hb
  refine ⟨?_, hnd'⟩
  intro hmem
  rcases List.mem_append.mp hmem with h | h
  · rw [List.nodup_append] at hnd
    exact (List.Nodup.mem_erase_iff hnd.1).mp h |>.1 rfl
  · exact (hform _ h).1 rfl

theorem FinalShape.mem_order {s : Source} {f : Final} (hs : FinalShape s f) (n : String) :
    n ∈ f.order ↔ n = notdef ∨ n ∈ s.kept ∨
      (n ∈ f.order ∧ n ∉ s.kept ∧ ∃ b k, b ∈ s.kept ∧ n = suffixed b k) := by
  obtain ⟨derived, hord, hnd, hform⟩ := hs.order_eq
  constructor
  · intro hn
    by_cases hk : n ∈ s.kept
    · exact Or.inr (Or.inl hk)
    · have hn' := hn
      rw [hord] at hn'
      rcases List.mem_cons.mp hn' with e | e
      · exact Or.inl e
      · rcases List.mem_append.mp e with e | e
        · exact absurd (List.mem_of_mem_erase e) hk
        · exact Or.inr (Or.inr ⟨hn, hk, (hform n e).2⟩)
  · rintro (e | e | e)
    · rw [hord, e]; exact List.mem_cons_self
    · rw [hord]
      by_cases hn : n = notdef
      · rw [hn]; exact List.mem_cons_self
      · apply List.mem_cons_of_mem
        apply List.mem_append_left
        exact (List.mem_erase_of_ne hn).mpr e
    · exact e.1

/-- the cmap input, read against the source -/
theorem mem_mappings_source {s : Source} {f : Final} (hs : FinalShape s f)
    (hnames : (s.glyphs.map (·.name)).Nodup) (cp gid : Nat) :
    (cp, gid) ∈ cmapMappings f.order f.table ↔
      ∃ g ∈ s.glyphs, g.exported = true ∧ g.name ∈ s.prelim ∧ f.order[gid]? = some g.name ∧ cp ∈ g.codepoints := by
  obtain ⟨derived, _, _, _, hkeptmeta, hmade⟩ := hs.shape
  rw [mem_cmapMappings]
  constructor
  · rintro ⟨n, g', hget, hg', hcp⟩
    have hn : n ∈ f.order := List.mem_of_getElem? hget
    by_cases hk : n ∈ s.kept
    · have hm := hkeptmeta n hk
      rw [hg'] at hm
      cases hg0 : s.table.get n with
      | none => simp [hg0] at hm
      | some g0 =>
        rw [hg0] at hm
        simp only [Option.map_some, Option.some.injEq, Glyph.meta, Prod.mk.injEq] at hm
        obtain ⟨_, g1, hg1, hname1, hexp1⟩ := (mem_kept hnames).mp hk
        have hg0mem : g0 ∈ s.glyphs := Table.get_ofList_mem hg0
        have hg0name : g0.name = n := Table.get_name hg0
        have hkp := ((mem_kept hnames).mp hk).1
        refine ⟨g0, hg0mem, ?_, hg0name ▸ hkp, hg0name ▸ hget, hm.2.2 ▸ hcp⟩
        -- the exported glyph with this name is g0 itself
        have := Table.get_ofList_of_mem hnames hg1
        rw [hname1] at this
        have e : g1 = g0 := by
          have h2 : (Table.ofList s.glyphs).get n = some g0 := hg0
          rw [this] at h2; injection h2
        exact e ▸ hexp1
    · have hm := hmade n hn hk
      rw [hg'] at hm
      simp only [Option.map_some, Option.some.injEq, Glyph.meta, Prod.mk.injEq] at hm
      rw [hm.2.2] at hcp
      simp at hcp
  · rintro ⟨g, hg, hexp, hp, hget, hcp⟩
    have hk : g.name ∈ s.kept := (mem_kept hnames).mpr ⟨hp, g, hg, rfl, hexp⟩
    have hm := hkeptmeta g.name hk
    have hsrc : s.table.get g.name = some g := Table.get_ofList_of_mem hnames hg
    rw [hsrc] at hm
    cases hg' : f.table.get g.name with
    | none => simp [hg'] at hm
    | some g' =>
      rw [hg'] at hm
      simp only [Option.map_some, Option.some.injEq, Glyph.meta, Prod.mk.injEq] at hm
      exact ⟨g.name, g', hget, hg', hm.2.2 ▸ hcp⟩

/-- positions in a duplicate-free list determine the element and vice versa -/
theorem getElem?_inj_of_nodup : ∀ {l : List String}, l.Nodup → ∀ {i j : Nat} {x : String},
    l[i]? = some x → l[j]? = some x → i = j
  | [], _, i, j, x, hi, _ => by simp at hi
  | y :: ys, hnd, i, j, x, hi, hj => by
    have hy : y ∉ ys := (List.nodup_cons.mp hnd).1
    cases i with
    | zero =>
      cases j with
      | zero => rfl
      | succ j' =>
        simp only [List.getElem?_cons_zero, Option.some.injEq, List.getElem?_cons_succ] at hi hj
        subst hi
        exact absurd (List.mem_of_getElem? hj) hy
    | succ i' =>
      cases j with
      | zero =>
        simp only [List.getElem?_cons_zero, Option.some.injEq, List.getElem?_cons_succ] at hi hj
        subst hj
        exact absurd (List.mem_of_getElem? hi) hy
      | succ j' =>
        simp only [List.getElem?_cons_succ] at hi hj
        have := getElem?_inj_of_nodup (List.nodup_cons.mp hnd).2 hi hj
        omega

end Fontc.GlyphOrder
