/-
  C11, contextual lookups, part 2: what the builder holds after the rules of a contextual lookup —
  one raw rule per source rule (merged by `try_merge`), and the anonymous lookups.
-/
import FontcProofs.FeaChainBasic

namespace Fontc.FeaCompile
open Cmp
set_option linter.unusedSimpArgs false

/-- the anonymous lookups after a rule -/
def anonStep (fx : Fixes) (an : List Anon) : Rule → List Anon
  | .chain _ input _ inl => (anonInline fx an input inl).1
  | _ => an

/-- the raw (unmerged) rules a source rule contributes, given the anonymous lookups before it -/
def rawOf (fx : Fixes) (root : Nat) (named : String → LookupId) (an : List Anon) : Rule → List CRule
  | .chain back input look inl =>
    [⟨back.reverse, input.zipIdx.map fun ((gc, refs), i) =>
        (gc, (if i == 0 then ((anonInline fx an input inl).2.map fun j => LookupId.gsub (root + j + 1)).toList else [])
              ++ refs.map named), look⟩]
  | .ignore alts => alts.map fun (b, i, l) => ⟨b.reverse, i.map (·, []), l⟩
  | _ => []

def anonOf (fx : Fixes) : List Anon → List Rule → List Anon
  | an, [] => an
  | an, r :: rs => anonOf fx (anonStep fx an r) rs

def rawsOf (fx : Fixes) (root : Nat) (named : String → LookupId) : List Anon → List Rule → List CRule
  | _, [] => []
  | an, r :: rs => rawOf fx root named an r ++ rawsOf fx root named (anonStep fx an r) rs

theorem foldl_add_chain (fx : Fixes) (root : Nat) (named : String → LookupId) (rs : List Rule)
    (hk : ∀ r ∈ rs, r.kind = .chain) :
    ∀ (cr : List CRule) (an : List Anon),
    rs.foldl (Builder.add fx root named) (.chain cr an)
      = .chain ((rawsOf fx root named an rs).foldl addCRule cr) (anonOf fx an rs) := by
  induction rs with
  | nil => intro cr an; rfl
  | cons r rs ih =>
    intro cr an
    have hr := hk r (by simp)
    have ht : ∀ r' ∈ rs, r'.kind = .chain := fun r' h => hk r' (by simp [h])
    cases r with
    | chain back input look inl =>
      simp only [List.foldl_cons, Builder.add, rawsOf, rawOf, anonOf, anonStep, List.foldl_append, List.foldl_nil]
      rw [ih ht]
    | ignore alts =>
      simp only [List.foldl_cons, Builder.add, rawsOf, rawOf, anonOf, anonStep, List.foldl_append]
      rw [ih ht, List.foldl_map]
    | _ => simp [Rule.kind] at hr

end Fontc.FeaCompile
