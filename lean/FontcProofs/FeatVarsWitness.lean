/-
  Concrete witnesses for C16, evaluated by the kernel (`decide +kernel`: no extra axioms).
  Kept in a module of their own because the 65-rule run takes a minute or two to check.
-/
import FontcProofs.FeatVarsTouch

namespace Fontc.FeatVars

/-! ### ≥ 65 rules: the word-vector rank breaks the sort order (DESIGN §7 F5)

  Two axes (0 = wdth, 1 = wght).
  rule 0: wght ∈ [1/2, 1];  `k` filler rules, filler `j`: wght ∈ [-1 + j/64, -1 + (j+1)/64];
  last rule: wdth ∈ [1/2, 1] × wght ∈ [1/4, 3/4].  Probe: wdth 0.7, wght 0.6 — inside rule 0 and the last rule.
  The harness replays exactly this list on the real code (`vharness c16 directed`). -/
def manyRules (k : Nat) : List Rule :=
  [([[none, some (1/2, 1)]], [(0, 1000)])] ++
  ((List.range k).map fun (j : Nat) =>
    (([[none, some ((-1 + (j : Rat) / 64, -1 + ((j : Rat) + 1) / 64) : Range)]], [(300 + j, 2000 + j)]) : Rule)) ++
  [([[some (1/2, 1), some (1/4, 3/4)]], [(1, 1001)])]

def probe : Point := [7/10, 3/5]

theorem manyRules_length : (manyRules 63).length = 65 := by decide +kernel

theorem manyRules_ok : RulesOk 2 (manyRules 63) := rulesOkB_sound (by decide +kernel)

theorem probe_off_boundary : ¬ OnTouchingBoundary ((manyRules 63).flatMap (·.1)) probe :=
  offLowerBoundsB_sound (by decide +kernel)

/-- the specification at the probe: rule 0 and the last rule -/
theorem manyRules_spec : activeSubs (manyRules 63) probe = [[(0, 1000)], [(1, 1001)]] := by
  decide +kernel

set_option maxRecDepth 100000 in
/-- what the word-vector algorithm answers with 65 rules: rule 0 only -/
theorem manyRules_words :
    overlayCore wordOps 2 (manyRules 63) ≠ none ∧
    (firstMatch ((overlayCore wordOps 2 (manyRules 63)).getD []) probe).getD [] = [[(0, 1000)]] := by
  decide +kernel

/-! ### the touching boundary: two rules sharing the face wght = 1/2 -/

def touchRules : List Rule :=
  [([[some (0, 1/2)]], [(1, 11)]), ([[some (1/2, 1)]], [(2, 12)])]

theorem touchRules_ok : RulesOk 1 touchRules := rulesOkB_sound (by decide +kernel)

theorem touch_on_boundary : OnTouchingBoundary (touchRules.flatMap (·.1)) [1/2] :=
  onTouchB_sound (by decide +kernel)

theorem touch_off_boundary : ¬ OnTouchingBoundary (touchRules.flatMap (·.1)) [1/4] :=
  offLowerBoundsB_sound (by decide +kernel)

/-- on the shared face both rules are active, but the first matching box carries only one of them -/
theorem touch_first_match :
    activeSubs touchRules [1/2] = [[(1, 11)], [(2, 12)]] ∧
    (firstMatch ((overlayCore natOps 1 touchRules).getD []) [1/2]).getD [] = [[(2, 12)]] := by
  decide +kernel

end Fontc.FeatVars
