/-
  C08 helper lemmas, part 2: closed forms of the two normalisations the code builds out of
  `PiecewiseLinearMap`s.
-/
import FontcProofs.PlmBasic
import Mathlib.Tactic.SplitIfs
import Mathlib.Tactic.NormNum

namespace Fontc.PlmProofs
open Fontc Fontc.Plm Fontc.Avar

theorem normExamples_sorted (dmin ddef dmax : Rat) :
    (normExamples dmin ddef dmax).Pairwise (fun a b => ptLe a b = true) := by
  unfold normExamples
  by_cases h1 : dmin < ddef <;> by_cases h2 : ddef < dmax <;>
    simp [h1, h2, ptLe] <;> (try constructor) <;> (try left) <;> linarith

theorem plm_new_normExamples (dmin ddef dmax : Rat) :
    Plm.new (normExamples dmin ddef dmax) = ⟨normExamples dmin ddef dmax⟩ := by
  unfold Plm.new
  rw [sortPts_of_pairwise _ (normExamples_sorted dmin ddef dmax)]

/-- `design_to_normalized` of `CoordConverter::new` is the property's design normalisation on
    `[design min, design max]`. -/
theorem d2n_closed (dmin ddef dmax d : Rat) (h1 : dmin ≤ ddef) (h2 : ddef ≤ dmax) (hd1 : dmin ≤ d) (hd2 : d ≤ dmax) :
    (Plm.new (normExamples dmin ddef dmax)).map d = designNormalize dmin ddef dmax d := by
  rw [plm_new_normExamples]
  unfold normExamples designNormalize
  by_cases c1 : dmin < ddef <;> by_cases c2 : ddef < dmax <;>
    simp only [c1, c2, if_true, if_false, List.nil_append, List.append_nil, List.cons_append, Plm.map, mapGo, lerp, beq_iff_eq]
  all_goals (split_ifs <;> grind)

theorem plm_new_sorted (l : List Pt) (h : l.Pairwise (fun a b => ptLe a b = true)) : Plm.new l = ⟨l⟩ := by
  unfold Plm.new; rw [sortPts_of_pairwise _ h]

/-- the four shapes of `CoordConverter::default_normalization` -/
theorem defaultNormalization_fields (mn df mx : Rat) (h1 : mn ≤ df) (h2 : df ≤ mx) :
    (Conv.defaultNormalization mn df mx).userToDesign =
        ⟨(if mn < df then [(mn, (-1 : Rat))] else []) ++ [(df, 0)] ++ (if df < mx then [(mx, (1 : Rat))] else [])⟩ ∧
    (Conv.defaultNormalization mn df mx).designToNormalized =
        Plm.new (normExamples (if mn < df then -1 else 0) 0 (if df < mx then 1 else 0)) := by
  unfold Conv.defaultNormalization
  by_cases c1 : mn < df <;> by_cases c2 : df < mx
  · have hs : Plm.new [(mn, (-1 : Rat)), (df, 0), (mx, 1)] = ⟨[(mn, (-1 : Rat)), (df, 0), (mx, 1)]⟩ := by
      apply plm_new_sorted; simp [ptLe]; refine ⟨⟨?_, ?_⟩, ?_⟩ <;> left <;> linarith
    simp [c1, c2, Conv.new, hs, listMin, listMax, ratMin, ratMax] <;> norm_num
  · have hs : Plm.new [(mn, (-1 : Rat)), (df, 0)] = ⟨[(mn, (-1 : Rat)), (df, 0)]⟩ := by
      apply plm_new_sorted; simp [ptLe]; left; linarith
    simp [c1, c2, Conv.new, hs, listMin, listMax, ratMin, ratMax] <;> norm_num
  · have hs : Plm.new [(df, (0 : Rat)), (mx, 1)] = ⟨[(df, (0 : Rat)), (mx, 1)]⟩ := by
      apply plm_new_sorted; simp [ptLe]; left; linarith
    simp [c1, c2, Conv.new, hs, listMin, listMax, ratMin, ratMax] <;> norm_num
  · have hs : Plm.new [(df, (0 : Rat))] = ⟨[(df, (0 : Rat))]⟩ := by
      apply plm_new_sorted; simp
    simp [c1, c2, Conv.new, hs, listMin, listMax, ratMin, ratMax] <;> norm_num

theorem defaultNormalize_range (mn df mx u : Rat) (h1 : mn ≤ df) (h2 : df ≤ mx) (hu1 : mn ≤ u) (hu2 : u ≤ mx) :
    (if mn < df then (-1 : Rat) else 0) ≤ defaultNormalize mn df mx u ∧
    defaultNormalize mn df mx u ≤ (if df < mx then (1 : Rat) else 0) := by
  unfold defaultNormalize
  have e1 : ¬ u < mn := not_lt.mpr hu1
  have e2 : ¬ mx < u := not_lt.mpr hu2
  simp only [e1, e2, if_false]
  by_cases c1 : u < df
  · have hpos : 0 < df - mn := by linarith
    have hmn : mn < df := by linarith
    have hle : (df - u) / (df - mn) ≤ 1 := (div_le_one hpos).mpr (by linarith)
    have hge : 0 ≤ (df - u) / (df - mn) := div_nonneg (by linarith) (le_of_lt hpos)
    simp only [c1, hmn, if_true]
    constructor
    · linarith
    · split_ifs <;> linarith
  · by_cases c2 : df < u
    · have hpos : 0 < mx - df := by linarith
      have hmx : df < mx := by linarith
      have hle : (u - df) / (mx - df) ≤ 1 := (div_le_one hpos).mpr (by linarith)
      have hge : 0 ≤ (u - df) / (mx - df) := div_nonneg (by linarith) (le_of_lt hpos)
      simp only [c1, c2, hmx, if_true, if_false]
      constructor
      · split_ifs <;> linarith
      · linarith
    · simp only [c1, c2, if_false]
      constructor <;> split_ifs <;> norm_num

theorem u2d_default (mn df mx u : Rat) (h1 : mn ≤ df) (h2 : df ≤ mx) (hu1 : mn ≤ u) (hu2 : u ≤ mx) :
    (Conv.defaultNormalization mn df mx).userToDesign.map u = defaultNormalize mn df mx u := by
  rw [(defaultNormalization_fields mn df mx h1 h2).1]
  unfold defaultNormalize
  have e1 : ¬ u < mn := not_lt.mpr hu1
  have e2 : ¬ mx < u := not_lt.mpr hu2
  by_cases c1 : mn < df <;> by_cases c2 : df < mx <;>
    simp only [e1, e2, c1, c2, if_true, if_false, List.nil_append, List.append_nil, List.cons_append, Plm.map, mapGo, lerp, beq_iff_eq]
  all_goals (split_ifs <;> grind)

/-- **`CoordConverter::default_normalization` is the fvar default normalisation** on `[min, max]`. -/
theorem defaultConv_toNormalized (mn df mx u : Rat) (h1 : mn ≤ df) (h2 : df ≤ mx) (hu1 : mn ≤ u) (hu2 : u ≤ mx) :
    (Conv.defaultNormalization mn df mx).toNormalized u = defaultNormalize mn df mx u := by
  unfold Conv.toNormalized Conv.designToNorm Conv.toDesign
  rw [u2d_default mn df mx u h1 h2 hu1 hu2, (defaultNormalization_fields mn df mx h1 h2).2]
  have hr := defaultNormalize_range mn df mx u h1 h2 hu1 hu2
  generalize defaultNormalize mn df mx u = x at hr ⊢
  have hlo : (if mn < df then (-1 : Rat) else 0) ≤ 0 := by split_ifs <;> norm_num
  have hhi : (0 : Rat) ≤ (if df < mx then (1 : Rat) else 0) := by split_ifs <;> norm_num
  rw [d2n_closed _ 0 _ x hlo hhi hr.1 hr.2]
  unfold designNormalize
  by_cases c1 : mn < df <;> by_cases c2 : df < mx <;> simp only [c1, c2, if_true, if_false] at hr ⊢ <;>
    (split_ifs <;> grind)

/-! ### closed forms on either side of the default -/

theorem dn_left (mn df mx u : Rat) (h : mn < df) (hu1 : mn ≤ u) (hu2 : u ≤ df) (hmx : df ≤ mx) :
    defaultNormalize mn df mx u = (u - df) / (df - mn) := by
  unfold defaultNormalize
  have e1 : ¬ u < mn := not_lt.mpr hu1
  have e2 : ¬ mx < u := not_lt.mpr (le_trans hu2 hmx)
  have hne : df - mn ≠ 0 := by intro h0; linarith
  simp only [e1, e2, if_false]
  split_ifs <;> grind

theorem dn_right (mn df mx u : Rat) (h : df < mx) (hu1 : df ≤ u) (hu2 : u ≤ mx) (hmn : mn ≤ df) :
    defaultNormalize mn df mx u = (u - df) / (mx - df) := by
  unfold defaultNormalize
  have e1 : ¬ u < mn := not_lt.mpr (le_trans hmn hu1)
  have e2 : ¬ mx < u := not_lt.mpr hu2
  have hne : mx - df ≠ 0 := by intro h0; linarith
  simp only [e1, e2, if_false]
  split_ifs <;> grind

theorem desn_left (dmin ddef dmax d : Rat) (h : dmin < ddef) (hd : d ≤ ddef) :
    designNormalize dmin ddef dmax d = (d - ddef) / (ddef - dmin) := by
  unfold designNormalize
  have hne : ddef - dmin ≠ 0 := by intro h0; linarith
  split_ifs <;> grind

theorem desn_right (dmin ddef dmax d : Rat) (h : ddef < dmax) (hd : ddef ≤ d) :
    designNormalize dmin ddef dmax d = (d - ddef) / (dmax - ddef) := by
  unfold designNormalize
  have hne : dmax - ddef ≠ 0 := by intro h0; linarith
  split_ifs <;> grind

theorem desn_default (dmin ddef dmax : Rat) : designNormalize dmin ddef dmax ddef = 0 := by
  unfold designNormalize; simp

/-- the fvar default normalisation is strictly increasing on `[min, max]` -/
theorem defaultNormalize_strictMono (mn df mx : Rat) (h1 : mn ≤ df) (h2 : df ≤ mx) (s t : Rat)
    (hs : mn ≤ s ∧ s ≤ mx) (ht : mn ≤ t ∧ t ≤ mx) (hst : s < t) :
    defaultNormalize mn df mx s < defaultNormalize mn df mx t := by
  by_cases c1 : t ≤ df
  · have hmn : mn < df := by linarith [hs.1]
    rw [dn_left mn df mx s hmn hs.1 (by linarith) h2, dn_left mn df mx t hmn ht.1 c1 h2]
    exact div_lt_div_of_pos_right (by linarith) (by linarith)
  · have c1 : df < t := not_le.mp c1
    have hmx : df < mx := by linarith [ht.2]
    by_cases c2 : df ≤ s
    · rw [dn_right mn df mx s hmx c2 hs.2 h1, dn_right mn df mx t hmx (le_of_lt c1) ht.2 h1]
      exact div_lt_div_of_pos_right (by linarith) (by linarith)
    · have c2 : s < df := not_le.mp c2
      have hmn : mn < df := by linarith [hs.1]
      rw [dn_left mn df mx s hmn hs.1 (le_of_lt c2) h2, dn_right mn df mx t hmx (le_of_lt c1) ht.2 h1]
      have a : (s - df) / (df - mn) < 0 := div_neg_of_neg_of_pos (by linarith) (by linarith)
      have b : 0 < (t - df) / (mx - df) := div_pos (by linarith) (by linarith)
      linarith

/-- the design normalisation is non-decreasing -/
theorem designNormalize_mono (dmin ddef dmax : Rat) (h1 : dmin ≤ ddef) (h2 : ddef ≤ dmax) (s t : Rat)
    (hs : dmin ≤ s) (ht : t ≤ dmax) (hst : s ≤ t) :
    designNormalize dmin ddef dmax s ≤ designNormalize dmin ddef dmax t := by
  by_cases c1 : t ≤ ddef
  · by_cases hmn : dmin < ddef
    · rw [desn_left _ _ _ s hmn (by linarith), desn_left _ _ _ t hmn c1]
      exact div_le_div_of_nonneg_right (by linarith) (by linarith)
    · have e1 : s = ddef := by linarith
      have e2 : t = ddef := by linarith
      rw [e1, e2]
  · have c1 : ddef < t := not_le.mp c1
    have hmx : ddef < dmax := by linarith
    by_cases c2 : ddef ≤ s
    · rw [desn_right _ _ _ s hmx c2, desn_right _ _ _ t hmx (le_of_lt c1)]
      exact div_le_div_of_nonneg_right (by linarith) (by linarith)
    · have c2 : s < ddef := not_le.mp c2
      have hmn : dmin < ddef := by linarith
      rw [desn_left _ _ _ s hmn (le_of_lt c2), desn_right _ _ _ t hmx (le_of_lt c1)]
      have a : (s - ddef) / (ddef - dmin) < 0 := div_neg_of_neg_of_pos (by linarith) (by linarith)
      have b : 0 < (t - ddef) / (dmax - ddef) := div_pos (by linarith) (by linarith)
      linarith

theorem designNormalize_range (dmin ddef dmax d : Rat) (h1 : dmin ≤ ddef) (h2 : ddef ≤ dmax)
    (hd1 : dmin ≤ d) (hd2 : d ≤ dmax) :
    -1 ≤ designNormalize dmin ddef dmax d ∧ designNormalize dmin ddef dmax d ≤ 1 := by
  constructor
  · by_cases c : dmin < ddef
    · have := designNormalize_mono dmin ddef dmax h1 h2 dmin d (le_refl _) hd2 hd1
      rw [desn_left _ _ _ dmin c h1] at this
      have e : (dmin - ddef) / (ddef - dmin) = -1 := by
        have hne : ddef - dmin ≠ 0 := by intro h0; linarith
        field_simp; ring
      linarith
    · have e : dmin = ddef := by linarith
      have := designNormalize_mono dmin ddef dmax h1 h2 ddef d (by linarith) hd2 (by linarith)
      rw [desn_default] at this; linarith
  · by_cases c : ddef < dmax
    · have := designNormalize_mono dmin ddef dmax h1 h2 d dmax hd1 (le_refl _) hd2
      rw [desn_right _ _ _ dmax c h2] at this
      have e : (dmax - ddef) / (dmax - ddef) = 1 := by
        have hne : dmax - ddef ≠ 0 := by intro h0; linarith
        field_simp
      linarith
    · have e : dmax = ddef := by linarith
      have := designNormalize_mono dmin ddef dmax h1 h2 d ddef hd1 (by linarith) (by linarith)
      rw [desn_default] at this; linarith

/-- interpolation between two vertices stays between their values -/
theorem interp_mem (p q : Pt) (u : Rat) (h1 : p.1 < q.1) (h2 : p.2 ≤ q.2) (hu1 : p.1 ≤ u) (hu2 : u ≤ q.1) :
    p.2 ≤ interp p q u ∧ interp p q u ≤ q.2 := by
  unfold interp
  have hpos : 0 < q.1 - p.1 := by linarith
  have e : (u - p.1) * (q.2 - p.2) / (q.1 - p.1) = (u - p.1) / (q.1 - p.1) * (q.2 - p.2) := by
    field_simp
  have t0 : 0 ≤ (u - p.1) / (q.1 - p.1) := div_nonneg (by linarith) (le_of_lt hpos)
  have t1 : (u - p.1) / (q.1 - p.1) ≤ 1 := (div_le_one hpos).mpr (by linarith)
  rw [e]
  constructor
  · have := mul_nonneg t0 (by linarith : (0 : Rat) ≤ q.2 - p.2); linarith
  · have := mul_le_of_le_one_left (by linarith : (0 : Rat) ≤ q.2 - p.2) t1; linarith

end Fontc.PlmProofs
