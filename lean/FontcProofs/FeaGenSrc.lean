/-
  C11 simulation, general part 7: the source side of a feature block — what `Src.addItems` does to
  the entries, in terms of the items and their ids.
-/
import FontcProofs.FeaGenOut

namespace Fontc.FeaCompile
open Cmp
set_option linter.unusedSimpArgs false

def defLookups (items : List (Src.Reg × Src.Item)) : List Src.Lookup :=
  items.filterMap fun x => match x.2 with | .defn l => some l | .ref _ => none

theorem addRegs_map_lookup (es : List Src.Entry) (n : String) (R : List (Tag × Tag × Tag)) :
    (Src.addRegs es n R).map (·.lookup) = es.map (·.lookup) := by
  simp only [Src.addRegs, List.map_map]
  apply List.map_congr_left
  intro e _
  simp only [Function.comp]
  split <;> rfl

theorem addRegs_length (es : List Src.Entry) (n : String) (R : List (Tag × Tag × Tag)) :
    (Src.addRegs es n R).length = es.length := by simp [Src.addRegs]

theorem mem_zip_addRegs (es : List Src.Entry) (ids : List LookupId) (n : String) (R : List (Tag × Tag × Tag))
    (e1 : Src.Entry) (id : LookupId) :
    (e1, id) ∈ (Src.addRegs es n R).zip ids ↔
      ∃ e, (e, id) ∈ es.zip ids ∧ e1 = (if e.lookup.name == some n then { e with regs := e.regs ++ R } else e) := by
  induction es generalizing ids with
  | nil => simp [Src.addRegs]
  | cons e0 es ih =>
    cases ids with
    | nil => simp [Src.addRegs]
    | cons id0 ids =>
      have ih' := ih ids
      simp only [Src.addRegs, List.map_cons, List.zip_cons_cons, List.mem_cons, Prod.mk.injEq] at ih' ⊢
      constructor
      · rintro (⟨rfl, rfl⟩ | h)
        · exact ⟨e0, Or.inl ⟨rfl, rfl⟩, rfl⟩
        · obtain ⟨e, he, hh⟩ := ih'.mp h
          exact ⟨e, Or.inr he, hh⟩
      · rintro ⟨e, (⟨rfl, rfl⟩ | he), hh⟩
        · exact Or.inl ⟨hh, rfl⟩
        · exact Or.inr (ih'.mpr ⟨e, he, hh⟩)

theorem exists_zip_of_mem {α β : Type} (as : List α) (bs : List β) (h : as.length = bs.length) (a : α) (ha : a ∈ as) :
    ∃ b, (a, b) ∈ as.zip bs := by
  induction as generalizing bs with
  | nil => simp at ha
  | cons a0 as ih =>
    cases bs with
    | nil => simp at h
    | cons b0 bs =>
      rcases List.mem_cons.mp ha with rfl | ha
      · exact ⟨b0, by simp⟩
      · obtain ⟨b, hb⟩ := ih bs (by simpa using h) ha
        exact ⟨b, by simp [hb]⟩

/-- **`Src.addItems`**, given the ids of the items.  `M` is the final table of named lookups. -/
theorem addItems_spec (ls : List (Tag × Tag)) (tag : Tag) (body : List Stmt) (M : String → Option LookupId) :
    ∀ (items : List (Src.Reg × Src.Item)) (idsF : List LookupId) (es : List Src.Entry) (ids : List LookupId),
    es.length = ids.length → items.length = idsF.length →
    (∀ e id, (e, id) ∈ es.zip ids → ∀ n, e.lookup.name = some n → M n = some id) →
    (∀ reg l id, ((reg, Src.Item.defn l), id) ∈ items.zip idsF → ∀ n, l.name = some n → M n = some id) →
    (∀ reg n id, ((reg, Src.Item.ref n), id) ∈ items.zip idsF → M n = some id) →
    (∀ pre reg n post, items = pre ++ (reg, Src.Item.ref n) :: post →
      (∃ e ∈ es, e.lookup.name = some n) ∨ ∃ reg' l, (reg', Src.Item.defn l) ∈ pre ∧ l.name = some n) →
    (Src.addItems ls tag body es items).length = (ids ++ defIds items idsF).length ∧
    (Src.addItems ls tag body es items).map (·.lookup) = es.map (·.lookup) ++ defLookups items ∧
    ∀ key id, (∃ e', (e', id) ∈ (Src.addItems ls tag body es items).zip (ids ++ defIds items idsF) ∧ key ∈ e'.regs) ↔
      (∃ e, (e, id) ∈ es.zip ids ∧ key ∈ e.regs) ∨
      ∃ reg it, ((reg, it), id) ∈ items.zip idsF ∧ key ∈ Src.regsFor ls tag body reg := by
  intro items
  induction items with
  | nil =>
    intro idsF es ids hlen _ _ _ _ _
    simp [Src.addItems, defIds, defLookups, hlen]
  | cons it rest ih =>
    intro idsF es ids hlen hlenI hM hdef href hsplit
    cases idsF with
    | nil => simp at hlenI
    | cons id0 idsR =>
      have hlenR : rest.length = idsR.length := by simpa using hlenI
      obtain ⟨reg, item⟩ := it
      cases item with
      | defn l =>
        have hD : defIds ((reg, Src.Item.defn l) :: rest) (id0 :: idsR) = id0 :: defIds rest idsR := by
          simp [defIds, Src.Item.isDefn]
        have hL : defLookups ((reg, Src.Item.defn l) :: rest) = l :: defLookups rest := by simp [defLookups]
        have hzip1 : (es ++ [Src.Entry.mk l (Src.regsFor ls tag body reg)]).zip (ids ++ [id0]) =
            es.zip ids ++ [(Src.Entry.mk l (Src.regsFor ls tag body reg), id0)] := by
          rw [List.zip_append hlen]; rfl
        obtain ⟨r1, r2, r3⟩ := ih idsR (es ++ [Src.Entry.mk l (Src.regsFor ls tag body reg)]) (ids ++ [id0]) (by simp [hlen]) hlenR
          (by
            intro e id hm n hn
            rw [hzip1] at hm
            rcases List.mem_append.mp hm with hm | hm
            · exact hM e id hm n hn
            · simp only [List.mem_singleton, Prod.mk.injEq] at hm
              obtain ⟨rfl, rfl⟩ := hm
              exact hdef reg l id (by simp) n hn)
          (fun reg' l' id hm => hdef reg' l' id (by simp [hm]))
          (fun reg' n id hm => href reg' n id (by simp [hm]))
          (by
            intro pre reg' n post he
            rcases hsplit ((reg, .defn l) :: pre) reg' n post (by simp [he]) with ⟨e, he1, he2⟩ | ⟨reg'', l', hm, hl⟩
            · exact Or.inl ⟨e, List.mem_append_left _ he1, he2⟩
            · rcases List.mem_cons.mp hm with e | hm
              · cases e
                exact Or.inl ⟨Src.Entry.mk l (Src.regsFor ls tag body reg), by simp, hl⟩
              · exact Or.inr ⟨reg'', l', hm, hl⟩)
        simp only [Src.addItems, hD, hL]
        have e1 : ids ++ id0 :: defIds rest idsR = ids ++ [id0] ++ defIds rest idsR := by simp
        rw [e1]
        refine ⟨r1, by rw [r2]; simp, ?_⟩
        intro key id
        rw [r3 key id, hzip1]
        simp only [List.mem_append, List.mem_singleton, Prod.mk.injEq, List.zip_cons_cons, List.mem_cons,
          List.not_mem_nil, or_false]
        constructor
        · rintro (⟨e, (he | ⟨rfl, rfl⟩), hk⟩ | ⟨reg', it', hm, hk⟩)
          · exact Or.inl ⟨e, he, hk⟩
          · exact Or.inr ⟨reg, .defn l, Or.inl ⟨⟨rfl, rfl⟩, rfl⟩, hk⟩
          · exact Or.inr ⟨reg', it', Or.inr hm, hk⟩
        · rintro (⟨e, he, hk⟩ | ⟨reg', it', (⟨⟨rfl, rfl⟩, rfl⟩ | hm), hk⟩)
          · exact Or.inl ⟨e, Or.inl he, hk⟩
          · exact Or.inl ⟨_, Or.inr ⟨rfl, rfl⟩, hk⟩
          · exact Or.inr ⟨reg', it', hm, hk⟩
      | ref n =>
        have hD : defIds ((reg, Src.Item.ref n) :: rest) (id0 :: idsR) = defIds rest idsR := by
          simp [defIds, Src.Item.isDefn]
        have hL : defLookups ((reg, Src.Item.ref n) :: rest) = defLookups rest := by simp [defLookups]
        have hMn : M n = some id0 := href reg n id0 (by simp)
        obtain ⟨r1, r2, r3⟩ := ih idsR (Src.addRegs es n (Src.regsFor ls tag body reg)) ids (by rw [addRegs_length]; exact hlen) hlenR
          (by
            intro e1 id hm n' hn'
            obtain ⟨e, he, rfl⟩ := (mem_zip_addRegs es ids n _ e1 id).mp hm
            apply hM e id he n'
            split at hn' <;> exact hn')
          (fun reg' l' id hm => hdef reg' l' id (by simp [hm]))
          (fun reg' n' id hm => href reg' n' id (by simp [hm]))
          (by
            intro pre reg' n' post he
            rcases hsplit ((reg, .ref n) :: pre) reg' n' post (by simp [he]) with ⟨e, he1, he2⟩ | ⟨reg'', l', hm, hl⟩
            · refine Or.inl ⟨if e.lookup.name == some n then { e with regs := e.regs ++ Src.regsFor ls tag body reg } else e, ?_, ?_⟩
              · simp only [Src.addRegs, List.mem_map]; exact ⟨e, he1, rfl⟩
              · split <;> exact he2
            · rcases List.mem_cons.mp hm with e | hm
              · cases e
              · exact Or.inr ⟨reg'', l', hm, hl⟩)
        simp only [Src.addItems, hD, hL]
        refine ⟨r1, by rw [r2, addRegs_map_lookup], ?_⟩
        intro key id
        rw [r3 key id]
        -- the entries named `n` are those with id `id0`
        have hnamed : (∃ e, (e, id) ∈ es.zip ids ∧ e.lookup.name = some n) ↔ id = id0 := by
          constructor
          · rintro ⟨e, he, hn⟩
            have := hM e id he n hn
            rw [hMn] at this
            cases this; rfl
          · rintro rfl
            rcases hsplit [] reg n rest rfl with ⟨e, he1, he2⟩ | ⟨_, _, hm, _⟩
            · obtain ⟨id', hid'⟩ := exists_zip_of_mem es ids hlen e he1
              have := hM e id' hid' n he2
              rw [hMn] at this
              cases this
              exact ⟨e, hid', he2⟩
            · simp at hm
        have hleft : (∃ e, (e, id) ∈ (Src.addRegs es n (Src.regsFor ls tag body reg)).zip ids ∧ key ∈ e.regs) ↔
            (∃ e, (e, id) ∈ es.zip ids ∧ key ∈ e.regs) ∨ (id = id0 ∧ key ∈ Src.regsFor ls tag body reg) := by
          constructor
          · rintro ⟨e1, hm, hk⟩
            obtain ⟨e, he, rfl⟩ := (mem_zip_addRegs es ids n _ e1 id).mp hm
            by_cases hc : (e.lookup.name == some n) = true
            · simp only [hc, ↓reduceIte, List.mem_append] at hk
              rcases hk with hk | hk
              · exact Or.inl ⟨e, he, hk⟩
              · exact Or.inr ⟨hnamed.mp ⟨e, he, by simpa using hc⟩, hk⟩
            · simp only [hc, Bool.false_eq_true, ↓reduceIte] at hk
              exact Or.inl ⟨e, he, hk⟩
          · rintro (⟨e, he, hk⟩ | ⟨hid, hk⟩)
            · refine ⟨_, (mem_zip_addRegs es ids n _ _ id).mpr ⟨e, he, rfl⟩, ?_⟩
              split
              · exact List.mem_append_left _ hk
              · exact hk
            · obtain ⟨e, he, hn⟩ := hnamed.mpr hid
              refine ⟨_, (mem_zip_addRegs es ids n _ _ id).mpr ⟨e, he, rfl⟩, ?_⟩
              have : (e.lookup.name == some n) = true := by simp [hn]
              simp only [this, ↓reduceIte]
              exact List.mem_append_right _ hk
        rw [hleft]
        simp only [List.zip_cons_cons, List.mem_cons, Prod.mk.injEq]
        constructor
        · rintro ((h1 | ⟨rfl, hk⟩) | ⟨reg', it', hm, hk⟩)
          · exact Or.inl h1
          · exact Or.inr ⟨reg, .ref n, Or.inl ⟨⟨rfl, rfl⟩, rfl⟩, hk⟩
          · exact Or.inr ⟨reg', it', Or.inr hm, hk⟩
        · rintro (h1 | ⟨reg', it', (⟨⟨rfl, rfl⟩, rfl⟩ | hm), hk⟩)
          · exact Or.inl (Or.inl h1)
          · exact Or.inl (Or.inr ⟨rfl, hk⟩)
          · exact Or.inr ⟨reg', it', hm, hk⟩

end Fontc.FeaCompile
