/-
  C08 helper lemmas, part 6: the fixed-point conversions (`F2Dot14::from_f64`, `Fixed::from_f64`).
-/
import FontcModel.Avar
import Mathlib.Tactic.Linarith
import Mathlib.Tactic.NormNum
import Mathlib.Tactic.Ring
import Mathlib.Tactic.FieldSimp
import Mathlib.Algebra.Order.Field.Basic

namespace Fontc.PlmProofs
open Fontc Fontc.Avar

/-- round half away from zero: `(s + copysign(0.5, s)) as int` -/
def rnd (s : Rat) : Int := if s < 0 then -((-s + 1/2).floor) else (s + 1/2).floor

theorem f2dot14_def (x : Rat) : f2dot14 x =
    (if rnd (x * 16384) < -32768 then -32768 else if rnd (x * 16384) > 32767 then 32767 else rnd (x * 16384)) := rfl

theorem fixed16_def (x : Rat) : fixed16 x =
    (if rnd (x * 65536) < -2147483648 then -2147483648 else if rnd (x * 65536) > 2147483647 then 2147483647
     else rnd (x * 65536)) := rfl

/-- `Fontc.f2dot14Bits` (Basic.lean) is the same function: Basic.lean's rounding is right. -/
theorem f2dot14_eq_basic (x : Rat) : f2dot14 x = Fontc.f2dot14Bits x := by
  unfold f2dot14 Fontc.f2dot14Bits satI16; rfl

theorem floor_mono (a b : Rat) (h : a ≤ b) : a.floor ≤ b.floor := by
  have h1 := Rat.floor_le a
  have h2 := Rat.lt_floor_add_one b
  push_cast at h2
  have : (a.floor : Rat) < ((b.floor + 1 : Int) : Rat) := by push_cast; linarith
  have := Int.cast_lt.mp this
  omega

theorem floor_intCast_add_half (k : Int) : ((k : Rat) + 1/2).floor = k := by
  have h1 := Rat.floor_le ((k : Rat) + 1/2)
  have h2 := Rat.lt_floor_add_one ((k : Rat) + 1/2)
  push_cast at h2
  have a : ((((k : Rat) + 1/2).floor : Int) : Rat) < ((k + 1 : Int) : Rat) := by push_cast; linarith
  have b : ((k - 1 : Int) : Rat) < ((((k : Rat) + 1/2).floor : Int) : Rat) := by push_cast; linarith
  have := Int.cast_lt.mp a
  have := Int.cast_lt.mp b
  omega

theorem rnd_err (s : Rat) : (rnd s : Rat) - s ≤ 1/2 ∧ s - (rnd s : Rat) ≤ 1/2 := by
  unfold rnd
  split
  · have h1 := Rat.floor_le (-s + 1/2)
    have h2 := Rat.lt_floor_add_one (-s + 1/2)
    push_cast at h2
    push_cast
    constructor <;> linarith
  · have h1 := Rat.floor_le (s + 1/2)
    have h2 := Rat.lt_floor_add_one (s + 1/2)
    push_cast at h2
    constructor <;> linarith

theorem rnd_mono (s t : Rat) (h : s ≤ t) : rnd s ≤ rnd t := by
  unfold rnd
  by_cases c1 : s < 0 <;> by_cases c2 : t < 0 <;> simp only [c1, c2, if_true, if_false]
  · have := floor_mono (-t + 1/2) (-s + 1/2) (by linarith); omega
  · have a := floor_mono 0 (-s + 1/2) (by linarith)
    have b := floor_mono 0 (t + 1/2) (by linarith [not_lt.mp c2])
    have z : (0 : Rat).floor = 0 := by decide
    omega
  · exfalso; linarith [not_lt.mp c1]
  · exact floor_mono _ _ (by linarith)

theorem rnd_intCast (k : Int) : rnd (k : Rat) = k := by
  unfold rnd
  split
  · rename_i h
    have : ((-k : Int) : Rat) = -(k : Rat) := by push_cast; ring
    rw [← this, floor_intCast_add_half]; omega
  · exact floor_intCast_add_half k

theorem f2dot14_mono (x y : Rat) (h : x ≤ y) : f2dot14 x ≤ f2dot14 y := by
  have := rnd_mono (x * 16384) (y * 16384) (by linarith)
  rw [f2dot14_def, f2dot14_def]
  split_ifs <;> omega

theorem fixed16_mono (x y : Rat) (h : x ≤ y) : fixed16 x ≤ fixed16 y := by
  have := rnd_mono (x * 65536) (y * 65536) (by linarith)
  rw [fixed16_def, fixed16_def]
  split_ifs <;> omega

/-- inside the representable range the quantisation error is at most half a unit -/
theorem f2dot14_err (x : Rat) (h1 : -2 ≤ x) (h2 : x ≤ 32767 / 16384) :
    f2dot14Val (f2dot14 x) - x ≤ 1 / 32768 ∧ x - f2dot14Val (f2dot14 x) ≤ 1 / 32768 := by
  have hlo := rnd_mono (((-32768 : Int) : Rat)) (x * 16384) (by push_cast; linarith)
  have hhi := rnd_mono (x * 16384) (((32767 : Int) : Rat)) (by push_cast; linarith)
  rw [rnd_intCast] at hlo hhi
  have e := rnd_err (x * 16384)
  have : f2dot14 x = rnd (x * 16384) := by
    rw [f2dot14_def]; split_ifs <;> omega
  rw [this]
  unfold f2dot14Val
  constructor
  · rw [div_sub' (by norm_num : (16384 : Rat) ≠ 0)]
    rw [div_le_iff₀ (by norm_num)]
    linarith [e.1]
  · rw [sub_div' (by norm_num : (16384 : Rat) ≠ 0)]
    rw [div_le_iff₀ (by norm_num)]
    linarith [e.2]

/-- a value on the 2.14 grid and in range is represented exactly -/
theorem f2dot14_exact (k : Int) (h1 : -32768 ≤ k) (h2 : k ≤ 32767) : f2dot14 ((k : Rat) / 16384) = k := by
  have : (k : Rat) / 16384 * 16384 = (k : Rat) := by field_simp
  rw [f2dot14_def, this, rnd_intCast]
  split_ifs <;> omega

theorem fixed16_err (x : Rat) (h1 : -32768 ≤ x) (h2 : x ≤ 2147483647 / 65536) :
    fixed16Val (fixed16 x) - x ≤ 1 / 131072 ∧ x - fixed16Val (fixed16 x) ≤ 1 / 131072 := by
  have hlo := rnd_mono (((-2147483648 : Int) : Rat)) (x * 65536) (by push_cast; linarith)
  have hhi := rnd_mono (x * 65536) (((2147483647 : Int) : Rat)) (by push_cast; linarith)
  rw [rnd_intCast] at hlo hhi
  have e := rnd_err (x * 65536)
  have : fixed16 x = rnd (x * 65536) := by
    rw [fixed16_def]; split_ifs <;> omega
  rw [this]
  unfold fixed16Val
  constructor
  · rw [div_sub' (by norm_num : (65536 : Rat) ≠ 0)]
    rw [div_le_iff₀ (by norm_num)]
    linarith [e.1]
  · rw [sub_div' (by norm_num : (65536 : Rat) ≠ 0)]
    rw [div_le_iff₀ (by norm_num)]
    linarith [e.2]

/-- a value on the 16.16 grid and in range is represented exactly -/
theorem fixed16_exact (k : Int) (h1 : -2147483648 ≤ k) (h2 : k ≤ 2147483647) :
    fixed16 ((k : Rat) / 65536) = k := by
  have : (k : Rat) / 65536 * 65536 = (k : Rat) := by field_simp
  rw [fixed16_def, this, rnd_intCast]
  split_ifs <;> omega

end Fontc.PlmProofs
