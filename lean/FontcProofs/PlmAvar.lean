/-
  C08 helper lemmas, part 3: assembling `avar_agrees` and the structural facts about `to_segment_map`
  for a sorted vertex list.
-/
import FontcProofs.PlmNorm

namespace Fontc.PlmProofs
open Fontc Fontc.Plm Fontc.Avar

/-- the facts the proofs use about the sorted vertices `ns` of a well-formed axis -/
structure Sorted (ns : List Pt) (mn df mx dmin ddef dmax : Rat) : Prop where
  pw : ns.Pairwise (fun p q => p.1 < q.1 ∧ p.2 ≤ q.2)
  hdef : (df, ddef) ∈ ns
  hhead : ns.head? = some (mn, dmin)
  hlast : ns.getLast? = some (mx, dmax)

variable {ns : List Pt} {mn df mx dmin ddef dmax : Rat}

theorem Sorted.strict (h : Sorted ns mn df mx dmin ddef dmax) : StrictFrom ns :=
  h.pw.imp (fun hab => hab.1)

theorem Sorted.bounds (h : Sorted ns mn df mx dmin ddef dmax) :
    ∀ n ∈ ns, mn ≤ n.1 ∧ n.1 ≤ mx ∧ dmin ≤ n.2 ∧ n.2 ≤ dmax := by
  intro n hn
  have hlo : mn ≤ n.1 ∧ dmin ≤ n.2 := by
    cases ns with
    | nil => simp at hn
    | cons a t =>
      have ha : a = (mn, dmin) := by simpa using h.hhead
      rcases List.mem_cons.mp hn with rfl | hn
      · simp [ha]
      · have := (List.pairwise_cons.mp h.pw).1 n hn
        rw [ha] at this
        exact ⟨le_of_lt this.1, this.2⟩
  have hhi : n.1 ≤ mx ∧ n.2 ≤ dmax := by
    have hl := h.hlast
    rw [List.getLast?_eq_some_iff] at hl
    obtain ⟨ys, rfl⟩ := hl
    rcases List.mem_append.mp hn with hn | hn
    · have := (List.pairwise_append.mp h.pw).2.2 n hn (mx, dmax) (by simp)
      exact ⟨le_of_lt this.1, this.2⟩
    · have : n = (mx, dmax) := by simpa using hn
      simp [this]
  exact ⟨hlo.1, hhi.1, hlo.2, hhi.2⟩

theorem Sorted.head_mem (h : Sorted ns mn df mx dmin ddef dmax) : (mn, dmin) ∈ ns := by
  cases ns with
  | nil => have := h.hhead; simp at this
  | cons a t => have ha : a = (mn, dmin) := by simpa using h.hhead
                simp [ha]

theorem Sorted.last_mem (h : Sorted ns mn df mx dmin ddef dmax) : (mx, dmax) ∈ ns := by
  have hl := h.hlast
  rw [List.getLast?_eq_some_iff] at hl
  obtain ⟨ys, rfl⟩ := hl
  simp

theorem Sorted.order (h : Sorted ns mn df mx dmin ddef dmax) :
    mn ≤ df ∧ df ≤ mx ∧ dmin ≤ ddef ∧ ddef ≤ dmax := by
  have := h.bounds _ h.hdef
  exact this

/-- every segment lies entirely on one side of the default vertex, in user *and* in design space -/
theorem Sorted.sided (h : Sorted ns mn df mx dmin ddef dmax) (a b : Pt) (hc : Consec a b ns) :
    (b.1 ≤ df ∧ b.2 ≤ ddef) ∨ (df ≤ a.1 ∧ ddef ≤ a.2) := by
  obtain ⟨l, r, rfl⟩ := hc
  have hpw := h.pw
  rw [List.pairwise_append] at hpw
  obtain ⟨_, hr, hcross⟩ := hpw
  have hm := h.hdef
  rcases List.mem_append.mp hm with hm | hm
  · right
    have := hcross _ hm a (by simp)
    exact ⟨le_of_lt this.1, this.2⟩
  · rcases List.mem_cons.mp hm with hm | hm
    · right; rw [← hm]; exact ⟨le_refl _, le_refl _⟩
    · rcases List.mem_cons.mp hm with hm | hm
      · left; rw [← hm]; exact ⟨le_refl _, le_refl _⟩
      · left
        have hb := (List.pairwise_cons.mp (List.pairwise_cons.mp hr).2).1 _ hm
        exact ⟨le_of_lt hb.1, hb.2⟩

theorem Sorted.consec_rel (h : Sorted ns mn df mx dmin ddef dmax) (a b : Pt) (hc : Consec a b ns) :
    a.1 < b.1 ∧ a.2 ≤ b.2 := by
  obtain ⟨l, r, rfl⟩ := hc
  have hpw := h.pw
  rw [List.pairwise_append] at hpw
  exact (List.pairwise_cons.mp hpw.2.1).1 b (by simp)

/-- the spec-side default normalisation of the axis -/
abbrev phi (mn df mx : Rat) : Rat → Rat := defaultNormalize mn df mx
/-- user → design (model of the code) → design normalisation (property statement) -/
abbrev psi (ns : List Pt) (dmin ddef dmax : Rat) : Rat → Rat :=
  fun u => designNormalize dmin ddef dmax (Plm.map ⟨ns⟩ u)

theorem Sorted.affOn (h : Sorted ns mn df mx dmin ddef dmax) (a b : Pt) (hc : Consec a b ns) :
    AffOn (phi mn df mx) (psi ns dmin ddef dmax) a.1 b.1 := by
  intro u hu1 hu2
  obtain ⟨hab, hab2⟩ := h.consec_rel a b hc
  obtain ⟨o1, o2, o3, o4⟩ := h.order
  obtain ⟨a1, a2, a3, a4⟩ := h.bounds a hc.mem_left
  obtain ⟨b1, b2, b3, b4⟩ := h.bounds b hc.mem_right
  have hI := interp_mem a b u hab hab2 hu1 hu2
  have mu : Plm.map ⟨ns⟩ u = interp a b u := map_consec ns h.strict a b hc u hu1 hu2
  have ma : Plm.map ⟨ns⟩ a.1 = a.2 := map_vertex ns h.strict a hc.mem_left
  have mb : Plm.map ⟨ns⟩ b.1 = b.2 := map_vertex ns h.strict b hc.mem_right
  simp only [phi, psi, mu, ma, mb]
  have hIdef : interp a b u = a.2 + (u - a.1) * (b.2 - a.2) / (b.1 - a.1) := rfl
  have hne : b.1 - a.1 ≠ 0 := by intro h0; linarith
  rcases h.sided a b hc with ⟨s1, s2⟩ | ⟨s1, s2⟩
  · have hmn : mn < df := by linarith
    have hne2 : df - mn ≠ 0 := by intro h0; linarith
    rw [dn_left mn df mx u hmn (by linarith) (by linarith) o2,
        dn_left mn df mx a.1 hmn a1 (by linarith) o2, dn_left mn df mx b.1 hmn b1 s1 o2]
    by_cases c : dmin < ddef
    · have hne3 : ddef - dmin ≠ 0 := by intro h0; linarith
      rw [desn_left _ _ _ _ c (by linarith [hI.2]), desn_left _ _ _ a.2 c (by linarith),
          desn_left _ _ _ b.2 c s2, hIdef]
      field_simp
      ring
    · have e1 : a.2 = ddef := by linarith
      have e2 : b.2 = ddef := by linarith
      have e3 : interp a b u = ddef := by linarith [hI.1, hI.2]
      rw [e1, e2, e3]; ring
  · have hmx : df < mx := by linarith
    have hne2 : mx - df ≠ 0 := by intro h0; linarith
    rw [dn_right mn df mx u hmx (by linarith) (by linarith) o1,
        dn_right mn df mx a.1 hmx s1 a2 o1, dn_right mn df mx b.1 hmx (by linarith) b2 o1]
    by_cases c : ddef < dmax
    · have hne3 : dmax - ddef ≠ 0 := by intro h0; linarith
      rw [desn_right _ _ _ _ c (by linarith [hI.1]), desn_right _ _ _ a.2 c s2,
          desn_right _ _ _ b.2 c (by linarith), hIdef]
      field_simp
      ring
    · have e1 : a.2 = ddef := by linarith
      have e2 : b.2 = ddef := by linarith
      have e3 : interp a b u = ddef := by linarith [hI.1, hI.2]
      rw [e1, e2, e3]; ring

/-- **Core of `avar_agrees`**: on the un-padded vertex list. -/
theorem Sorted.core (h : Sorted ns mn df mx dmin ddef dmax) (u : Rat) (hu1 : mn ≤ u) (hu2 : u ≤ mx) :
    avarApply (ns.map fun n => (phi mn df mx n.1, psi ns dmin ddef dmax n.1)) (phi mn df mx u) =
      psi ns dmin ddef dmax u := by
  obtain ⟨o1, o2, _, _⟩ := h.order
  apply avarApply_transport (phi mn df mx) (psi ns dmin ddef dmax) (fun t => mn ≤ t ∧ t ≤ mx)
    (fun s t hs ht hst => defaultNormalize_strictMono mn df mx o1 o2 s t hs ht hst) ns h.strict
  · intro n hn; have := h.bounds n hn; exact ⟨this.1, this.2.1⟩
  · exact fun a b hc => h.affOn a b hc
  · exact ⟨hu1, hu2⟩
  · exact ⟨(mn, dmin), h.hhead, hu1⟩
  · exact ⟨(mx, dmax), h.last_mem, hu2⟩

/-- the un-padded `(default normalisation, actual normalisation)` list of `to_segment_map` -/
abbrev rawOf (ns : List Pt) (mn df mx dmin ddef dmax : Rat) : List Pt :=
  ns.map fun n => (phi mn df mx n.1, psi ns dmin ddef dmax n.1)

theorem Sorted.psi_vertex (h : Sorted ns mn df mx dmin ddef dmax) (n : Pt) (hn : n ∈ ns) :
    psi ns dmin ddef dmax n.1 = designNormalize dmin ddef dmax n.2 := by
  simp only [psi, map_vertex ns h.strict n hn]

theorem Sorted.phi_min (h : Sorted ns mn df mx dmin ddef dmax) :
    phi mn df mx mn = if mn < df then -1 else 0 := by
  obtain ⟨o1, o2, _, _⟩ := h.order
  by_cases c : mn < df
  · have hne : df - mn ≠ 0 := by intro h0; linarith
    simp only [phi, c, if_true]
    rw [dn_left mn df mx mn c (le_refl _) o1 o2]; field_simp; ring
  · have e : mn = df := by linarith
    simp only [phi, c, if_false]
    unfold defaultNormalize; subst e
    have : ¬ mx < mn := not_lt.mpr o2
    simp [this]

theorem Sorted.phi_max (h : Sorted ns mn df mx dmin ddef dmax) :
    phi mn df mx mx = if df < mx then 1 else 0 := by
  obtain ⟨o1, o2, _, _⟩ := h.order
  by_cases c : df < mx
  · have hne : mx - df ≠ 0 := by intro h0; linarith
    simp only [phi, c, if_true]
    rw [dn_right mn df mx mx c o2 (le_refl _) o1]; field_simp
  · have e : mx = df := by linarith
    simp only [phi, c, if_false]
    unfold defaultNormalize; subst e
    have : ¬ mx < mn := not_lt.mpr o1
    simp [this]

theorem desn_min (dmin ddef dmax : Rat) (h : dmin ≤ ddef) :
    designNormalize dmin ddef dmax dmin = if dmin < ddef then -1 else 0 := by
  by_cases c : dmin < ddef
  · have hne : ddef - dmin ≠ 0 := by intro h0; linarith
    simp only [c, if_true]; rw [desn_left _ _ _ _ c h]; field_simp; ring
  · have e : dmin = ddef := by linarith
    simp only [c, if_false]; rw [e, desn_default]

theorem desn_max (dmin ddef dmax : Rat) (h : ddef ≤ dmax) :
    designNormalize dmin ddef dmax dmax = if ddef < dmax then 1 else 0 := by
  by_cases c : ddef < dmax
  · have hne : dmax - ddef ≠ 0 := by intro h0; linarith
    simp only [c, if_true]; rw [desn_right _ _ _ _ c h]; field_simp
  · have e : dmax = ddef := by linarith
    simp only [c, if_false]; rw [e, desn_default]

theorem Sorted.phi_le (h : Sorted ns mn df mx dmin ddef dmax) (s t : Rat) (hs : mn ≤ s ∧ s ≤ mx)
    (ht : mn ≤ t ∧ t ≤ mx) (hst : s ≤ t) : phi mn df mx s ≤ phi mn df mx t := by
  obtain ⟨o1, o2, _, _⟩ := h.order
  rcases eq_or_lt_of_le hst with e | l
  · rw [e]
  · exact le_of_lt (defaultNormalize_strictMono mn df mx o1 o2 s t hs ht l)

theorem Sorted.rawMin_eq (h : Sorted ns mn df mx dmin ddef dmax) :
    rawMin (rawOf ns mn df mx dmin ddef dmax) = if mn < df then -1 else 0 := by
  rw [← h.phi_min]
  have hb := h.bounds
  have hpl := h.phi_le
  obtain ⟨o1, o2, _, _⟩ := h.order
  cases ns with
  | nil => have := h.hhead; simp at this
  | cons a t =>
    have ha : a = (mn, dmin) := by simpa using h.hhead
    subst ha
    simp only [rawOf, List.map_cons, rawMin]
    apply listMin_eq
    · simp
    · intro d hd
      rcases List.mem_cons.mp hd with rfl | hd
      · exact le_refl _
      · simp only [List.map_map, List.mem_map, Function.comp] at hd
        obtain ⟨n, hn, rfl⟩ := hd
        have := hb n (List.mem_cons_of_mem _ hn)
        exact hpl mn n.1 ⟨le_refl _, le_trans o1 o2⟩ ⟨this.1, this.2.1⟩ this.1

theorem Sorted.rawMax_eq (h : Sorted ns mn df mx dmin ddef dmax) :
    rawMax (rawOf ns mn df mx dmin ddef dmax) = if ddef < dmax then 1 else 0 := by
  obtain ⟨o1, o2, o3, o4⟩ := h.order
  rw [← desn_max dmin ddef dmax o4, ← h.psi_vertex (mx, dmax) h.last_mem]
  have hb := h.bounds
  have hv := h.psi_vertex
  have hlast := h.last_mem
  cases ns with
  | nil => have := h.hhead; simp at this
  | cons a t =>
    simp only [rawOf, List.map_cons, rawMax]
    apply listMax_eq
    · have : psi (a :: t) dmin ddef dmax (mx, dmax).1 ∈
          ((a :: t).map fun n => (phi mn df mx n.1, psi (a :: t) dmin ddef dmax n.1)).map (·.2) := by
        simp only [List.map_map, List.mem_map, Function.comp]
        exact ⟨(mx, dmax), hlast, rfl⟩
      simpa using this
    · intro d hd
      have hd' : d ∈ ((a :: t).map fun n => (phi mn df mx n.1, psi (a :: t) dmin ddef dmax n.1)).map (·.2) := by
        simpa using hd
      simp only [List.map_map, List.mem_map, Function.comp] at hd'
      obtain ⟨n, hn, rfl⟩ := hd'
      have bn := hb n hn
      rw [hv n hn, hv (mx, dmax) hlast]
      exact designNormalize_mono dmin ddef dmax o3 o4 n.2 dmax bn.2.2.1 (le_refl _) bn.2.2.2

theorem Sorted.padded_agrees (h : Sorted ns mn df mx dmin ddef dmax) (u : Rat) (hu1 : mn ≤ u) (hu2 : u ≤ mx) :
    avarApply (padded (rawOf ns mn df mx dmin ddef dmax)) (phi mn df mx u) = psi ns dmin ddef dmax u := by
  obtain ⟨o1, o2, o3, o4⟩ := h.order
  have hcore := h.core u hu1 hu2
  have hmin := h.rawMin_eq
  have hmax := h.rawMax_eq
  have hlast := h.last_mem
  have hphi_u_hi : phi mn df mx u ≤ phi mn df mx mx := h.phi_le u mx ⟨hu1, hu2⟩ ⟨le_trans o1 o2, le_refl _⟩ hu2
  have hphi_u_lo : phi mn df mx mn ≤ phi mn df mx u := h.phi_le mn u ⟨le_refl _, le_trans o1 o2⟩ ⟨hu1, hu2⟩ hu1
  have hmem : (phi mn df mx mx, psi ns dmin ddef dmax mx) ∈ rawOf ns mn df mx dmin ddef dmax := by
    simp only [rawOf, List.mem_map]
    exact ⟨(mx, dmax), hlast, rfl⟩
  -- the list with the optional front record
  have hfront : avarApply (if rawMin (rawOf ns mn df mx dmin ddef dmax) != -1
        then ((-1 : Rat), (-1 : Rat)) :: rawOf ns mn df mx dmin ddef dmax else rawOf ns mn df mx dmin ddef dmax)
        (phi mn df mx u) = psi ns dmin ddef dmax u := by
    rw [hmin]
    by_cases c : mn < df
    · have : ((-1 : Rat) != -1) = false := by simp
      simp only [c, if_true, this]
      exact hcore
    · have : ((0 : Rat) != -1) = true := by decide
      simp only [c, if_false, this, if_true]
      have hp := h.phi_min
      simp only [c, if_false] at hp
      cases hns : ns with
      | nil => have := h.hhead; simp [hns] at this
      | cons a t =>
        have ha : a = (mn, dmin) := by have := h.hhead; simpa [hns] using this
        have hcore' := hcore
        simp only [rawOf, hns, List.map_cons] at hcore' ⊢
        rw [avarApply_cons_front]
        · exact hcore'
        · rw [ha]; simp only; rw [hp]; norm_num
        · rw [ha]; simp only; exact hphi_u_lo
  unfold padded
  simp only []
  by_cases c2 : rawMax (rawOf ns mn df mx dmin ddef dmax) != 1
  · simp only [c2, if_true]
    rw [avarApply_append]
    · exact hfront
    · refine ⟨(phi mn df mx mx, psi ns dmin ddef dmax mx), ?_, hphi_u_hi⟩
      split_ifs
      · exact List.mem_cons_of_mem _ hmem
      · exact hmem
  · simp only [c2]
    exact hfront

/-- with identity elision: the exact (unquantised) segment map list of `to_segment_map` -/
theorem Sorted.elided_agrees (h : Sorted ns mn df mx dmin ddef dmax) (u : Rat) (hu1 : mn ≤ u) (hu2 : u ≤ mx) :
    avarApply (if (padded (rawOf ns mn df mx dmin ddef dmax)).all (fun p => p.1 == p.2) then defaultSegmentMap
               else padded (rawOf ns mn df mx dmin ddef dmax)) (phi mn df mx u) = psi ns dmin ddef dmax u := by
  have hp := h.padded_agrees u hu1 hu2
  by_cases c : (padded (rawOf ns mn df mx dmin ddef dmax)).all (fun p => p.1 == p.2) = true
  · simp only [c, if_true]
    have hall : ∀ q ∈ padded (rawOf ns mn df mx dmin ddef dmax), q.1 = q.2 := by
      intro q hq
      have := List.all_eq_true.mp c q hq
      simpa using this
    rw [avarApply_ident _ _ hall] at hp
    rw [← hp]
    apply avarApply_ident
    intro q hq
    simp only [defaultSegmentMap, List.mem_cons, List.mem_nil_iff, or_false] at hq
    rcases hq with rfl | rfl | rfl <;> rfl
  · simp only [c]
    exact hp

end Fontc.PlmProofs
