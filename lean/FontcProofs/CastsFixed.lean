/-
  C19 helper lemmas, part 8: the pipeline of the CURRENT code (after the fixes d8817db, 944e88e, f8fa190).
-/
import FontcProofs.CastsStages
import FontcProofs.Rounding

namespace Fontc.Casts
open Fontc

theorem checkedI16_in {r : Int} (h : inI16 r) : checkedI16 r = .ok (r : Int) := by simp only [checkedI16, if_pos h]
theorem checkedI16_out {r : Int} (h : ¬ inI16 r) : checkedI16 r = .err := by simp only [checkedI16, if_neg h]
theorem checkedU16_in {r : Int} (h : inU16 r) : checkedU16 r = .ok (r : Int) := by simp only [checkedU16, if_pos h]
theorem checkedU16_out {r : Int} (h : ¬ inU16 r) : checkedU16 r = .err := by simp only [checkedU16, if_neg h]

theorem roe_of_ok {f : Field} {v : Rat} {p : Profile} {w : Rat} (e : fieldPipeline f v p = .ok w) (hw : w = ideal f v) :
    RejectsOrExact f v p := by unfold RejectsOrExact; rw [e]; exact hw
theorem roe_of_panic {f : Field} {v : Rat} {p : Profile} (e : fieldPipeline f v p = .panic) :
    RejectsOrExact f v p := by unfold RejectsOrExact; rw [e]; trivial
theorem roe_of_err {f : Field} {v : Rat} {p : Profile} (e : fieldPipeline f v p = .err) :
    RejectsOrExact f v p := by unfold RejectsOrExact; rw [e]; trivial
theorem roe_of_fallback {f : Field} {v : Rat} {p : Profile} (e : fieldPipeline f v p = .fallback) :
    RejectsOrExact f v p := by unfold RejectsOrExact; rw [e]; trivial

/-- the fields whose pipeline the fixes did not touch -/
def unchangedByFix : Field → Bool
  | .tsb | .rsbExtent | .compositeBbox | .metricI16 | .metricU16 | .comp2x2 | .glyphCount | .longMetricCount | .numContours => true
  | _ => false

theorem unchanged_eq_old (f : Field) (h : unchangedByFix f = true) (v : Rat) (p : Profile) :
    fieldPipeline f v p = fieldPipelineOld f v p := by
  cases f <;> simp [unchangedByFix] at h <;> rfl

/-- Inside `Representable` the current pipeline returns exactly the ideal value. -/
theorem inrange_exact (f : Field) (v : Rat) (p : Profile) (h : Representable f v) :
    fieldPipeline f v p = .ok (ideal f v) := by
  cases f
  case tsb | rsbExtent | compositeBbox | metricI16 | metricU16 | comp2x2 | glyphCount | longMetricCount | numContours =>
    rw [unchanged_eq_old _ rfl]; exact inrange_exact_old _ v p h
  all_goals (simp only [Representable] at h; simp only [fieldPipeline, ideal])
  case outlineCoord | compOffset | lsb | kernValue | anchorCoord | valueDelta | gvarDelta | hvarDelta => rw [checkedI16_in h]
  case pointDelta => rw [checkedI16_in h]
  case advance => rw [checkedU16_in h]
  case countU16 | compositeTotal => rw [checkedU16_in ⟨cnt_nonneg v, h⟩]
  case endPt =>
    have h0 : ¬ cnt v = 0 := by omega
    rw [if_neg h0, if_pos h.2]

/-- The fixes changed nothing for representable values. -/
theorem fix_preserves_inrange (f : Field) (v : Rat) (p : Profile) (h : Representable f v) :
    fieldPipeline f v p = fieldPipelineOld f v p := by
  rw [inrange_exact f v p h, inrange_exact_old f v p h]

/-- Outside `Representable` every field covered by the fixes (or guarded before) makes the build fail. -/
theorem closed_out_of_range_fails (f : Field) (hf : isOpen f = false) (v : Rat) (p : Profile) (h : ¬ Representable f v) :
    (fieldPipeline f v p).fails = true := by
  cases f <;> simp [isOpen] at hf
  all_goals (simp only [Representable] at h; simp only [fieldPipeline])
  case outlineCoord | compOffset | lsb | kernValue | anchorCoord | valueDelta | gvarDelta | hvarDelta => rw [checkedI16_out h]; rfl
  case pointDelta => rw [checkedI16_out h]; rfl
  case advance => rw [checkedU16_out h]; rfl
  case countU16 | compositeTotal => rw [checkedU16_out (fun x => h x.2)]; rfl
  case glyphCount | longMetricCount | numContours => rw [if_neg h]; rfl
  case endPt =>
    by_cases h0 : cnt v = 0
    · rw [if_pos h0]; rfl
    · have : ¬ cnt v ≤ 65535 := by have := cnt_nonneg v; omega
      rw [if_neg h0, if_neg this]; rfl

/-- HEADLINE: on every field that is not open the current code rejects or is exact — every value, both profiles. -/
theorem rejects_or_exact (f : Field) (hf : isOpen f = false) (v : Rat) (p : Profile) : RejectsOrExact f v p := by
  by_cases h : Representable f v
  · exact roe_of_ok (inrange_exact f v p h) rfl
  · have hfail := closed_out_of_range_fails f hf v p h
    unfold RejectsOrExact
    cases e : fieldPipeline f v p <;> simp_all [Outcome.fails]

theorem profile_independent (f : Field) (v : Rat) (h : profileSensitive f = false) :
    fieldPipeline f v .debug = fieldPipeline f v .release := by
  cases f <;> simp [profileSensitive] at h <;> rfl

theorem profile_agree_iff (f : Field) (v : Rat) :
    fieldPipeline f v .debug = fieldPipeline f v .release ↔ ¬ Overflows f v := by
  cases f
  case tsb =>
    have := profile_agree_iff_old .tsb v
    simpa [Overflows, OverflowsOld, fieldPipeline, fieldPipelineOld] using this
  all_goals (simp only [Overflows, not_false_eq_true, iff_true]; rfl)

/-- If the current code emits a font for a non-representable value, the reader sees a different value
    (this can only happen on an open field). -/
theorem emitted_out_of_range_differs (f : Field) (v : Rat) (p : Profile) (w : Rat)
    (hr : ¬ Representable f v) (hw : fieldPipeline f v p = .ok w) : w ≠ ideal f v ∧ isOpen f = true := by
  by_cases ho : isOpen f = true
  · refine ⟨?_, ho⟩
    have hu : unchangedByFix f = true := by cases f <;> simp_all [isOpen, unchangedByFix]
    rw [unchanged_eq_old f hu] at hw
    rcases emitted_out_of_range_differs_old f v p w hr hw with h | ⟨h, _, _⟩
    · exact h
    · subst h; simp [isOpen] at ho
  · have hf : isOpen f = false := by simpa using ho
    have := closed_out_of_range_fails f hf v p hr
    rw [hw] at this; simp [Outcome.fails] at this

/-! ### boundaries of the fixed fields -/

def isCheckedI16Round : Field → Bool
  | .outlineCoord | .compOffset | .lsb | .kernValue | .anchorCoord | .valueDelta | .gvarDelta | .hvarDelta => true
  | _ => false

theorem boundary_checkedI16 (f : Field) (h : isCheckedI16Round f = true) (v : Rat) (p : Profile) :
    (Representable f v ↔ (-32768 - 1/2 : Rat) ≤ v ∧ v < 32767 + 1/2) ∧
    fieldPipeline f 32767 p = .ok 32767 ∧ fieldPipeline f (-32768) p = .ok (-32768) ∧
    ((32767 + 1/2 : Rat) ≤ v ∨ v < (-32768 - 1/2 : Rat) → fieldPipeline f v p = .err) := by
  have hp : ∀ w, fieldPipeline f w p = checkedI16 (otRound w) ∧ (Representable f w ↔ inI16 (otRound w)) := by
    intro w; cases f <;> simp [isCheckedI16Round] at h <;> exact ⟨rfl, Iff.rfl⟩
  refine ⟨?_, ?_, ?_, ?_⟩
  · rw [(hp v).2, inI16_otRound_iff]
  · rw [(hp 32767).1, show otRound (32767 : Rat) = 32767 from otRound_intCast 32767]; rfl
  · rw [(hp (-32768)).1, show otRound (-32768 : Rat) = -32768 from otRound_intCast (-32768)]; rfl
  · intro hv
    rw [(hp v).1]
    apply checkedI16_out
    rw [inI16_otRound_iff]
    rcases hv with hv | hv <;> grind

theorem boundary_checkedAdvance (v : Rat) (p : Profile) :
    (Representable .advance v ↔ (-1/2 : Rat) ≤ v ∧ v < 65535 + 1/2) ∧
    fieldPipeline .advance 65535 p = .ok 65535 ∧ fieldPipeline .advance 0 p = .ok 0 ∧
    ((65535 + 1/2 : Rat) ≤ v ∨ v < (-1/2 : Rat) → fieldPipeline .advance v p = .err) := by
  refine ⟨?_, ?_, ?_, ?_⟩
  · simp only [Representable]; rw [inU16_otRound_iff]
  · simp only [fieldPipeline]; rw [show otRound (65535 : Rat) = 65535 from otRound_intCast 65535]; rfl
  · simp only [fieldPipeline]; rw [show otRound (0 : Rat) = 0 from otRound_intCast 0]; rfl
  · intro hv
    simp only [fieldPipeline]
    apply checkedU16_out
    rw [inU16_otRound_iff]
    rcases hv with hv | hv <;> grind

/-! ### composite totals with `checked_add` -/

theorem foldCheckedAdd_eq (acc : Int) (ovf : Bool) (xs : List Int) (ha0 : 0 ≤ acc) (ha : acc ≤ 65535)
    (h : ∀ x ∈ xs, 0 ≤ x) :
    foldCheckedAdd acc ovf xs =
      if ovf = true ∨ 65535 < acc + listSum xs then .err else .ok ((acc + listSum xs : Int) : Rat) := by
  induction xs generalizing acc ovf with
  | nil =>
    have e : acc + listSum [] = acc := by simp [listSum]
    simp only [foldCheckedAdd, e]
    cases ovf
    · rw [if_neg (by simp), if_neg (by simp; omega)]
    · rw [if_pos rfl, if_pos (Or.inl rfl)]
  | cons e es ih =>
    have hs := listSum_nonneg es (fun y hy => h y (by simp [hy]))
    have he := h e (by simp)
    have hsum : listSum (e :: es) = e + listSum es := rfl
    simp only [foldCheckedAdd]
    by_cases h1 : acc + e ≤ 65535
    · rw [if_pos h1, ih (acc + e) ovf (by omega) h1 (fun y hy => h y (by simp [hy]))]
      have e2 : acc + e + listSum es = acc + listSum (e :: es) := by rw [hsum]; omega
      rw [e2]
    · rw [if_neg h1, ih 65535 true (by omega) (by omega) (fun y hy => h y (by simp [hy]))]
      rw [if_pos (Or.inl rfl), if_pos (Or.inr (by rw [hsum]; omega))]

end Fontc.Casts
