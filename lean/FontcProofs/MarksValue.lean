/-
  C10, anchor values: what `resolve_variable_metric` emits for an anchor coordinate, evaluated as OpenType
  evaluates it (default + Σ scalar·delta), equals the variation model's `interpolate` of the rounded deltas —
  so the C07 theorems (`deltas_reproduce_rounded`, `default_exact`) apply to the emitted anchor.
-/
import FontcModel.Marks
import FontcProofs.Rounding
import FontcProofs.VarModelAlg
import FontcProofs.VarModelSort
import FontcProofs.VarModelTri
import FontcProofs.VarModelGeom

namespace Fontc.Marks
open Fontc Fontc.VarModel

/-! ### regions without active axes -/

theorem tentFactor_of_inactive (t : Tent) (h : t.hasNonZero = false) (v : Rat) : tentFactor t v = 1 := by
  have h3 : t.min = 0 ∧ t.peak = 0 ∧ t.max = 0 := by
    simp only [Tent.hasNonZero, Bool.not_eq_false', Bool.and_eq_true, beq_iff_eq] at h
    exact ⟨h.1.1, h.1.2, h.2⟩
  unfold tentFactor
  repeat' split
  all_goals first | rfl | (exfalso; simp_all)

theorem scalarAt_of_default (r : Region) (h : isDefaultRegion r = true) (loc : Loc) : scalarAt r loc = 1 := by
  induction r generalizing loc with
  | nil => cases loc <;> simp [scalarAt]
  | cons t ts ih =>
    simp only [isDefaultRegion, List.all_cons, Bool.and_eq_true, Bool.not_eq_true'] at h
    have hts : isDefaultRegion ts = true := by simpa [isDefaultRegion] using h.2
    cases loc with
    | nil => simp [scalarAt, tentFactor_of_inactive t h.1, ih hts, Rat.mul_one]
    | cons v vs => simp [scalarAt, tentFactor_of_inactive t h.1, ih hts, Rat.mul_one]

/-! ### the emitted pair evaluates to the model's dot product -/

def rawOf (infl : List Region) (ds : List (Option Rat)) : List (Region × Rat) :=
  (infl.zip ds).filterMap fun (r, d) => d.map fun d => (r, d)

theorem rawOf_cons_some (r : Region) (I : List Region) (d : Rat) (ds : List (Option Rat)) :
    rawOf (r :: I) (some d :: ds) = (r, d) :: rawOf I ds := by
  simp [rawOf]

theorem ratSum_cons (x : Rat) (xs : List Rat) : ratSum (x :: xs) = x + ratSum xs := by
  unfold ratSum
  simp only [List.foldl_cons]
  rw [foldl_add_eq]; grind

theorem ratSum_nil : ratSum [] = 0 := rfl

/-- (a) no later region contributes to the default value -/
theorem default_part_nil (I : List Region) (ds : List (Option Rat)) (dflt : Loc)
    (hI : ∀ r ∈ I, scalarAt r dflt = 0) :
    ((rawOf I ds).filterMap fun (r, d) =>
      let s := scalarAt r dflt
      if s ≠ 0 then some (d * s) else none) = [] := by
  induction I generalizing ds with
  | nil => simp [rawOf]
  | cons r I ih =>
    cases ds with
    | nil => simp [rawOf]
    | cons d ds =>
      have hr := hI r List.mem_cons_self
      have ih' := ih ds (fun r hr => hI r (List.mem_cons_of_mem _ hr))
      cases d with
      | none => simpa [rawOf] using ih'
      | some d =>
        rw [rawOf_cons_some, List.filterMap_cons]
        simp only [hr, ne_eq, not_true_eq_false, if_false]
        exact ih'

/-- (b) every later region is kept as a delta region -/
theorem delta_part_all (I : List Region) (ds : List (Option Rat)) (dflt : Loc)
    (hI : ∀ r ∈ I, scalarAt r dflt = 0) :
    ((rawOf I ds).filter fun (r, _) => !isDefaultRegion r) = rawOf I ds := by
  rw [List.filter_eq_self]
  rintro ⟨pr, pd⟩ hp
  have hmem : pr ∈ I := by
    simp only [rawOf, List.mem_filterMap] at hp
    obtain ⟨⟨r, d⟩, hz, hd⟩ := hp
    cases d with
    | none => simp at hd
    | some d =>
      simp at hd
      rw [← hd.1]
      exact (List.of_mem_zip hz).1
  have h0 := hI pr hmem
  cases hdef : isDefaultRegion pr with
  | false => simp [hdef]
  | true =>
    have := scalarAt_of_default pr hdef dflt
    rw [h0] at this
    exact absurd this (by decide)

/-- (c) the OpenType sum over the emitted integer deltas is the model's dot product -/
theorem delta_sum_eq_dot (I : List Region) (ds : List (Option Rat)) (loc : Loc)
    (hint : ∀ d ∈ ds, ∃ k : Int, d = some (k : Rat)) :
    ratSum ((((rawOf I ds)).map fun (r, d) => (r, otRound d)).map fun (r, d) => scalarAt r loc * ((d : Int) : Rat))
      = dot I ds loc := by
  induction I generalizing ds with
  | nil => simp [rawOf, ratSum]
  | cons r I ih =>
    cases ds with
    | nil => simp [rawOf, ratSum]
    | cons d ds =>
      obtain ⟨k, hk⟩ := hint d List.mem_cons_self
      subst hk
      rw [rawOf_cons_some, List.map_cons, List.map_cons, ratSum_cons, dot_cons,
        ih ds (fun d hd => hint d (List.mem_cons_of_mem _ hd))]
      simp [term, otRound_intCast]

theorem metricOf_eval (r0 : Region) (I : List Region) (k0 : Int) (ds : List (Option Rat)) (dflt loc : Loc)
    (h0 : isDefaultRegion r0 = true)
    (hI : ∀ r ∈ I, scalarAt r dflt = 0)
    (hint : ∀ d ∈ ds, ∃ k : Int, d = some (k : Rat)) :
    (metricOf (r0 :: I) (some (k0 : Rat) :: ds) dflt).eval loc = dot (r0 :: I) (some (k0 : Rat) :: ds) loc := by
  have hraw : ((r0 :: I).zip (some (k0 : Rat) :: ds)).filterMap (fun (x : Region × Option Rat) => x.2.map fun d => (x.1, d))
      = ((r0, (k0 : Rat)) :: rawOf I ds) := by
    simp [rawOf]
  unfold Metric.eval metricOf
  simp only [hraw]
  have s0 := scalarAt_of_default r0 h0 dflt
  have s0' := scalarAt_of_default r0 h0 loc
  rw [List.filterMap_cons]
  simp only [s0, ne_eq, Rat.mul_one]
  rw [if_pos (by decide)]
  have ha := default_part_nil I ds dflt hI
  simp only [ne_eq] at ha
  rw [ha]
  rw [List.filter_cons]
  simp only [h0, Bool.not_true]
  rw [if_neg (by decide), delta_part_all I ds dflt hI, delta_sum_eq_dot I ds loc hint, dot_cons]
  simp [ratSum_cons, ratSum_nil, term, s0', otRound_intCast, Rat.add_zero, Rat.one_mul]

/-! ### the model built on an anchor's own locations -/

theorem find?_of_distinct_keys (vals : List (Loc × Rat)) (hnd : (vals.map (fun p : Loc × Rat => p.1)).Pairwise (· ≠ ·))
    (loc : Loc) (v : Rat) (h : (loc, v) ∈ vals) :
    vals.find? (fun p => p.1 == loc) = some (loc, v) := by
  induction vals with
  | nil => cases h
  | cons p ps ih =>
    simp only [List.map_cons, List.pairwise_cons] at hnd
    rcases List.mem_cons.mp h with rfl | hmem
    · simp
    · have hne : p.1 ≠ loc := hnd.1 loc (List.mem_map.mpr ⟨(loc, v), hmem, rfl⟩)
      rw [List.find?_cons_of_neg (by simpa using hne)]
      exact ih hnd.2 hmem

/-- all deltas are present and integral when every model location has a value and rounding is ties-even -/
theorem deltas_integral (infl : List Region) (locs : List Loc) (vals : Values)
    (hlen : vals.length = locs.length) (hsome : ∀ v ∈ vals, v.isSome) :
    ∀ d ∈ deltasAux Rounding.tiesEven.apply infl (locs.zip vals) [], ∃ k : Int, d = some (k : Rat) := by
  intro d hd
  obtain ⟨j, hj, rfl⟩ := List.getElem_of_mem hd
  have hjl : j < locs.length := by rw [deltas_length _ _ _ _ hlen] at hj; exact hj
  have hjv : j < vals.length := by omega
  have hs := hsome vals[j] (List.getElem_mem hjv)
  obtain ⟨v, hv⟩ := Option.isSome_iff_exists.mp hs
  have := deltas_getElem?_some Rounding.tiesEven.apply infl locs vals j locs[j] v
    (List.getElem?_eq_getElem hjl) (by rw [List.getElem?_eq_getElem hjv, hv])
  rw [List.getElem?_eq_getElem hj] at this
  have e := Option.some.inj this
  exact ⟨roundTiesEven _, by rw [e]; rfl⟩

theorem masterInfluenceAux_head (acc rs : List Region) (r : Region) (h : acc.head? = some r) :
    (masterInfluenceAux acc rs).head? = some r := by
  induction rs generalizing acc with
  | nil => simpa [masterInfluenceAux] using h
  | cons x xs ih =>
    simp only [masterInfluenceAux]
    apply ih
    cases acc with
    | nil => simp at h
    | cons a as => simpa using h

theorem regionFor_zero_default (locs : List Loc) (n : Nat) :
    isDefaultRegion (regionFor locs (List.replicate n 0)) = true := by
  simp only [isDefaultRegion, regionFor, List.all_map, List.all_eq_true]
  intro p hp
  have hv : p.1 = 0 := (List.mem_replicate.mp (List.fst_mem_of_mem_zipIdx hp)).2
  obtain ⟨v, i⟩ := p
  simp only at hv
  subst hv
  simp [Tent.new, Tent.hasNonZero]

/-- Shape of the model on `n`-axis, pairwise distinct locations containing the default: the first location is the
    default, the first region is the default region, all later regions vanish at the default. -/
theorem model_shape (n : Nat) (locs : List Loc)
    (hlen : ∀ l ∈ locs, l.length = n) (hnd : locs.Pairwise (· ≠ ·)) (hz : List.replicate n 0 ∈ locs) :
    ∃ r0 I, (Model.new n locs).influence = r0 :: I ∧ isDefaultRegion r0 = true ∧
      (∀ r ∈ I, scalarAt r (List.replicate n 0) = 0) ∧
      (Model.new n locs).locations[0]? = some (List.replicate n 0) := by
  have htri := Model.new_triangular n locs hlen hnd
  have hloc0 : (Model.new n locs).locations[0]? = some (List.replicate n 0) := by
    rw [Model.new_locations n locs hlen hnd, ← List.head?_eq_getElem?]
    exact sortLocs_head_default n locs hlen hz
  have hinfl := Model.new_influence n locs hlen hnd
  have hsl := Model.new_locations n locs hlen hnd
  -- the sorted list starts with the default
  obtain ⟨rest, hs⟩ : ∃ rest, sortLocs locs = List.replicate n 0 :: rest := by
    have := sortLocs_head_default n locs hlen hz
    cases h : sortLocs locs with
    | nil => rw [h] at this; simp at this
    | cons a as => rw [h] at this; simp at this; exact ⟨as, by rw [this]⟩
  have hhead : (Model.new n locs).influence.head? = some (regionFor (sortLocs locs) (List.replicate n 0)) := by
    rw [hinfl, masterInfluence, regionsFor]
    conv => lhs; rw [hs]
    simp only [List.map_cons, masterInfluenceAux, List.nil_append, List.foldl_nil]
    apply masterInfluenceAux_head
    rw [hs]; rfl
  cases hI : (Model.new n locs).influence with
  | nil => rw [hI] at hhead; simp at hhead
  | cons r0 I =>
    rw [hI] at hhead
    simp only [List.head?_cons, Option.some.injEq] at hhead
    refine ⟨r0, I, rfl, ?_, ?_, hloc0⟩
    · rw [hhead]; exact regionFor_zero_default _ n
    · intro r hr
      obtain ⟨j, hj, rfl⟩ := List.getElem_of_mem hr
      have h2 := htri.2.2 0 (j + 1) I[j] (List.replicate n 0) (by omega)
        (by rw [hI]; simp [List.getElem?_eq_getElem hj]) hloc0
      exact h2

theorem masterValues_length (M : Model) (vals : List (Loc × Rat)) :
    (masterValues M vals).length = M.locations.length := by simp [masterValues]

/-- The emitted value equals the model's interpolation of its (ties-even) deltas, at every location. -/
theorem resolveMetric_eval (n : Nat) (vals : List (Loc × Rat))
    (hlen : ∀ p ∈ vals, p.1.length = n) (hnd : (vals.map (fun p : Loc × Rat => p.1)).Pairwise (· ≠ ·))
    (hz : List.replicate n 0 ∈ vals.map (fun p : Loc × Rat => p.1)) (loc : Loc) :
    (resolveMetric n vals).eval loc
      = interpolate (Model.new n (vals.map (fun p : Loc × Rat => p.1))).influence
          ((Model.new n (vals.map (fun p : Loc × Rat => p.1))).deltas Rounding.tiesEven.apply
            (masterValues (Model.new n (vals.map (fun p : Loc × Rat => p.1))) vals)) loc := by
  have hlen' : ∀ l ∈ vals.map (fun p : Loc × Rat => p.1), l.length = n := by
    intro l hl; obtain ⟨p, hp, rfl⟩ := List.mem_map.mp hl; exact hlen p hp
  obtain ⟨r0, I, hI, h0, hrest, _⟩ := model_shape n (vals.map (fun p : Loc × Rat => p.1)) hlen' hnd hz
  have hloc := Model.new_locations n (vals.map (fun p : Loc × Rat => p.1)) hlen' hnd
  -- every model location has a value
  have hsome : ∀ v ∈ masterValues (Model.new n (vals.map (fun p : Loc × Rat => p.1))) vals, v.isSome := by
    intro v hv
    simp only [masterValues, List.mem_map] at hv
    obtain ⟨l, hl, rfl⟩ := hv
    rw [hloc] at hl
    have hl' : l ∈ vals.map (fun p : Loc × Rat => p.1) := (mem_sortLocs _ _).mp hl
    obtain ⟨p, hp, rfl⟩ := List.mem_map.mp hl'
    rw [find?_of_distinct_keys vals hnd p.1 p.2 hp]; rfl
  have hint := deltas_integral (Model.new n (vals.map (fun p : Loc × Rat => p.1))).influence (Model.new n (vals.map (fun p : Loc × Rat => p.1))).locations
    (masterValues (Model.new n (vals.map (fun p : Loc × Rat => p.1))) vals) (masterValues_length _ _) hsome
  have hDlen := deltas_length Rounding.tiesEven.apply (Model.new n (vals.map (fun p : Loc × Rat => p.1))).influence
    (Model.new n (vals.map (fun p : Loc × Rat => p.1))).locations (masterValues (Model.new n (vals.map (fun p : Loc × Rat => p.1))) vals) (masterValues_length _ _)
  have htri := Model.new_triangular n (vals.map (fun p : Loc × Rat => p.1)) hlen' hnd
  unfold resolveMetric Model.deltas
  simp only []
  rw [interpolate_eq_dot]
  generalize hD : deltasAux Rounding.tiesEven.apply (Model.new n (vals.map (fun p : Loc × Rat => p.1))).influence
    ((Model.new n (vals.map (fun p : Loc × Rat => p.1))).locations.zip (masterValues (Model.new n (vals.map (fun p : Loc × Rat => p.1))) vals)) [] = D at hint hDlen
  rw [hI] at *
  cases D with
  | nil =>
    have := htri.1
    simp at hDlen this
    omega
  | cons d0 ds =>
    obtain ⟨k0, hk0⟩ := hint d0 List.mem_cons_self
    subst hk0
    exact metricOf_eval r0 I k0 ds _ loc h0 hrest (fun d hd => hint d (List.mem_cons_of_mem _ hd))

/-- **Anchor coordinate at a master**: within 1/2 of the rounded source value. -/
theorem resolveMetric_at_master (n : Nat) (vals : List (Loc × Rat))
    (hlen : ∀ p ∈ vals, p.1.length = n) (hnd : (vals.map (fun p : Loc × Rat => p.1)).Pairwise (· ≠ ·))
    (hz : List.replicate n 0 ∈ vals.map (fun p : Loc × Rat => p.1)) (loc : Loc) (v : Rat) (hv : (loc, v) ∈ vals) :
    ratAbs ((resolveMetric n vals).eval loc - ((otRound v : Int) : Rat)) ≤ 1/2 := by
  have hlen' : ∀ l ∈ vals.map (fun p : Loc × Rat => p.1), l.length = n := by
    intro l hl; obtain ⟨p, hp, rfl⟩ := List.mem_map.mp hl; exact hlen p hp
  rw [resolveMetric_eval n vals hlen hnd hz loc]
  have htri := Model.new_triangular n (vals.map (fun p : Loc × Rat => p.1)) hlen' hnd
  have hloc := Model.new_locations n (vals.map (fun p : Loc × Rat => p.1)) hlen' hnd
  have hmem : loc ∈ (Model.new n (vals.map (fun p : Loc × Rat => p.1))).locations := by
    rw [hloc]; exact (mem_sortLocs _ _).mpr (List.mem_map.mpr ⟨(loc, v), hv, rfl⟩)
  obtain ⟨m, hm, hml⟩ := List.getElem_of_mem hmem
  have hmv : (masterValues (Model.new n (vals.map (fun p : Loc × Rat => p.1))) vals)[m]? = some (some ((otRound v : Int) : Rat)) := by
    simp only [masterValues, List.getElem?_map, List.getElem?_eq_getElem hm, hml, Option.map_some]
    rw [find?_of_distinct_keys vals hnd loc v hv]; rfl
  exact VarModel.deltas_reproduce_rounded Rounding.tiesEven.apply _ _ _ htri (masterValues_length _ _)
    (Rounding.apply_abs_le .tiesEven) m loc _ (by rw [List.getElem?_eq_getElem hm, hml]) hmv

/-- **Anchor coordinate at the default location**: exactly the rounded source value. -/
theorem resolveMetric_at_default (n : Nat) (vals : List (Loc × Rat))
    (hlen : ∀ p ∈ vals, p.1.length = n) (hnd : (vals.map (fun p : Loc × Rat => p.1)).Pairwise (· ≠ ·))
    (v : Rat) (hv : (List.replicate n 0, v) ∈ vals) :
    (resolveMetric n vals).eval (List.replicate n 0) = ((otRound v : Int) : Rat) := by
  have hz : List.replicate n 0 ∈ vals.map (fun p : Loc × Rat => p.1) := List.mem_map.mpr ⟨_, hv, rfl⟩
  have hlen' : ∀ l ∈ vals.map (fun p : Loc × Rat => p.1), l.length = n := by
    intro l hl; obtain ⟨p, hp, rfl⟩ := List.mem_map.mp hl; exact hlen p hp
  rw [resolveMetric_eval n vals hlen hnd hz]
  have htri := Model.new_triangular n (vals.map (fun p : Loc × Rat => p.1)) hlen' hnd
  obtain ⟨_, _, _, _, _, hloc0⟩ := model_shape n (vals.map (fun p : Loc × Rat => p.1)) hlen' hnd hz
  have hm : 0 < (Model.new n (vals.map (fun p : Loc × Rat => p.1))).locations.length := by
    rcases Nat.lt_or_ge 0 (Model.new n (vals.map (fun p : Loc × Rat => p.1))).locations.length with h | h
    · exact h
    · rw [List.getElem?_eq_none h] at hloc0; cases hloc0
  have hmv : (masterValues (Model.new n (vals.map (fun p : Loc × Rat => p.1))) vals)[0]? = some (some ((otRound v : Int) : Rat)) := by
    have h0 : (Model.new n (vals.map (fun p : Loc × Rat => p.1))).locations[0] = List.replicate n 0 := by
      rw [List.getElem?_eq_getElem hm] at hloc0; exact Option.some.inj hloc0
    simp only [masterValues, List.getElem?_map, List.getElem?_eq_getElem hm, h0, Option.map_some]
    rw [find?_of_distinct_keys vals hnd _ v hv]; rfl
  unfold Model.deltas
  rw [VarModel.default_exact Rounding.tiesEven.apply _ _ _ htri (masterValues_length _ _) _ _ hloc0 hmv]
  exact Rounding.apply_intCast .tiesEven _

end Fontc.Marks
