/-
  C09 helper lemmas, part 3: the emitted classes of one side are pairwise equal or disjoint, PROVIDED every glyph whose
  group differs between sources is, in every source, in a group that source's kerning references (or in none).
  (Without the proviso the statement is false: FontcProps/C09.lean, `classes_partition_counterexample`.)
-/
import FontcProofs.KernBuild

namespace Fontc.Kern
open Fontc

/-- The hypothesis, as a proposition. -/
def KernedWhereDivergent (srcs : List Source) : Prop :=
  ∀ side g, isDivergent srcs side g = true → ∀ s ∈ srcs, s.kernedGroupOf side g = s.groupOf side g

theorem not_divergent_of_not_mem_sideGlyphs (srcs : List Source) (side : Side) (g : Nat)
    (h : g ∉ sideGlyphs srcs side) : isDivergent srcs side g = false := by
  have hnone : ∀ s ∈ srcs, s.groupOf side g = none := by
    intro s hs
    cases hg : s.groupOf side g with
    | none => rfl
    | some G => exact absurd (groupOf_mem_sideGlyphs srcs s hs side g G hg) h
  cases srcs with
  | nil => rfl
  | cons s₀ rest =>
    simp only [isDivergent]
    rw [List.any_eq_false]
    intro x hx
    rw [hnone x (List.mem_cons_of_mem _ hx), hnone s₀ (List.mem_cons_self ..)]
    simp

/-- The executable check the driver evaluates is the same hypothesis. -/
theorem kernedWhereDivergent_iff (srcs : List Source) :
    kernedWhereDivergent srcs = true ↔ KernedWhereDivergent srcs := by
  unfold kernedWhereDivergent KernedWhereDivergent
  constructor
  · intro h side g hd s hs
    have hside : (sideGlyphs srcs side).all (fun g =>
        !isDivergent srcs side g || srcs.all fun s => s.kernedGroupOf side g == s.groupOf side g) = true := by
      rw [List.all_eq_true] at h
      cases side
      · exact h Side.first (by simp)
      · exact h Side.second (by simp)
    have hmem : g ∈ sideGlyphs srcs side := by
      apply Classical.byContradiction
      intro hn
      rw [not_divergent_of_not_mem_sideGlyphs srcs side g hn] at hd
      cases hd
    have := (List.all_eq_true.mp hside) g hmem
    rw [hd] at this
    simp only [Bool.not_true, Bool.false_or, List.all_eq_true] at this
    exact eq_of_beq (this s hs)
  · intro h
    rw [List.all_eq_true]
    intro side _
    rw [List.all_eq_true]
    intro g _
    cases hd : isDivergent srcs side g with
    | false => rfl
    | true =>
      simp only [Bool.not_true, Bool.false_or, List.all_eq_true]
      intro s hs
      rw [h side g hd s hs]
      exact beq_self_eq_true _

theorem unitsFor_group_shape (srcs : List Source) (side : Side) (G : Nat) (u : KUnit)
    (hu : u ∈ unitsFor srcs side (.group G)) (c : List Nat) (hc : u.emit = .cls c) :
    (divergentGroup srcs side G = false ∧ c = allMembers srcs side G) ∨
    (divergentGroup srcs side G = true ∧
      ∃ σ, c = (allMembers srcs side G).filter (fun g => signature srcs side g == σ)) := by
  unfold unitsFor at hu
  simp only at hu
  by_cases hd : divergentGroup srcs side G = true
  · right
    simp only [hd, if_true, List.mem_map] at hu
    obtain ⟨⟨c', σ⟩, hc', rfl⟩ := hu
    cases hc
    exact ⟨hd, σ, ((mem_refinedClasses srcs side G _ σ).mp hc').2⟩
  · left
    have hd' : divergentGroup srcs side G = false := by simpa using hd
    simp only [hd', Bool.false_eq_true, if_false] at hu
    by_cases he : (allMembers srcs side G).isEmpty = true
    · simp [he] at hu
    · simp only [he, Bool.false_eq_true, if_false, List.mem_singleton] at hu
      subst hu
      cases hc
      exact ⟨hd', rfl⟩

theorem group_eq_of_not_divergent (srcs : List Source) (side : Side) (G G' g : Nat)
    (hnd : isDivergent srcs side g = false)
    (hg : g ∈ allMembers srcs side G) (hg' : g ∈ allMembers srcs side G') : G = G' := by
  obtain ⟨_, s, hs, h⟩ := (mem_allMembers srcs side G g).mp hg
  obtain ⟨_, s', hs', h'⟩ := (mem_allMembers srcs side G' g).mp hg'
  have := groupOf_eq_of_not_divergent srcs side g hnd s s' hs hs'
  rw [h, h'] at this
  cases this; rfl

theorem allMembers_eq_filter (srcs : List Source) (side : Side) (G : Nat) :
    allMembers srcs side G = (sideGlyphs srcs side).filter (fun g => srcs.any fun s => s.groupOf side g == some G) := rfl

theorem signature_pointwise (srcs : List Source) (side : Side) (m g : Nat)
    (h : signature srcs side m = signature srcs side g) (s : Source) (hs : s ∈ srcs) :
    s.kernedGroupOf side m = s.kernedGroupOf side g := by
  unfold signature at h
  exact (List.map_inj_left.mp h) s hs

/-- Two emitted classes of one side that share a glyph are the same class. -/
theorem units_class_eq (srcs : List Source) (hK : KernedWhereDivergent srcs) (side : Side) (G G' : Nat)
    (u u' : KUnit) (hu : u ∈ unitsFor srcs side (.group G)) (hu' : u' ∈ unitsFor srcs side (.group G'))
    (c c' : List Nat) (hc : u.emit = .cls c) (hc' : u'.emit = .cls c') (g : Nat) (hg : g ∈ c) (hg' : g ∈ c') :
    c = c' := by
  rcases unitsFor_group_shape srcs side G u hu c hc with ⟨hd, rfl⟩ | ⟨hd, σ, rfl⟩
  · rcases unitsFor_group_shape srcs side G' u' hu' c' hc' with ⟨hd', rfl⟩ | ⟨hd', σ', rfl⟩
    · have hnd := not_divergent_of_group srcs side G g hd hg
      rw [group_eq_of_not_divergent srcs side G G' g hnd hg hg']
    · have hnd := not_divergent_of_group srcs side G g hd hg
      have hgm := (List.mem_filter.mp hg').1
      have := group_eq_of_not_divergent srcs side G G' g hnd hg hgm
      subst this
      rw [hd] at hd'; cases hd'
  · rcases unitsFor_group_shape srcs side G' u' hu' c' hc' with ⟨hd', rfl⟩ | ⟨hd', σ', rfl⟩
    · have hnd := not_divergent_of_group srcs side G' g hd' hg'
      have hgm := (List.mem_filter.mp hg).1
      have := group_eq_of_not_divergent srcs side G G' g hnd hgm hg'
      subst this
      rw [hd] at hd'; cases hd'
    · obtain ⟨hgm, hσ⟩ := List.mem_filter.mp hg
      obtain ⟨hgm', hσ'⟩ := List.mem_filter.mp hg'
      have hσ := eq_of_beq hσ
      have hσ' := eq_of_beq hσ'
      have hσσ : σ = σ' := by rw [← hσ, ← hσ']
      subst hσσ
      by_cases hGG : G = G'
      · subst hGG; rfl
      · -- g is divergent: its group is G in one source and G' in another
        have hdiv : isDivergent srcs side g = true := by
          cases h : isDivergent srcs side g with
          | true => rfl
          | false => exact absurd (group_eq_of_not_divergent srcs side G G' g h hgm hgm') hGG
        rw [allMembers_eq_filter, allMembers_eq_filter, List.filter_filter, List.filter_filter]
        apply List.filter_congr
        intro m _
        cases hm : (signature srcs side m == σ) with
        | false => simp
        | true =>
          have hm' : signature srcs side m = signature srcs side g := by rw [eq_of_beq hm, hσ]
          have inGroup : ∀ G₀, g ∈ allMembers srcs side G₀ →
              (srcs.any fun s => s.groupOf side m == some G₀) = true := by
            intro G₀ hg₀
            obtain ⟨_, s, hs, hsG⟩ := (mem_allMembers srcs side G₀ g).mp hg₀
            rw [List.any_eq_true]
            refine ⟨s, hs, ?_⟩
            have h1 : s.kernedGroupOf side g = some G₀ := by rw [hK side g hdiv s hs, hsG]
            have h2 : s.kernedGroupOf side m = some G₀ := by rw [signature_pointwise srcs side m g hm' s hs, h1]
            rw [(kernedGroupOf_some s side m G₀ h2).1]
            exact beq_self_eq_true _
          rw [inGroup G hgm, inGroup G' hgm']

/-! ### classes of emitted pairs -/

theorem e₁_cls_unit (srcs : List Source) (p : EPair) (hp : p ∈ build srcs) (c : List Nat) (h : p.e₁ = .cls c) :
    ∃ G u, u ∈ unitsFor srcs .first (.group G) ∧ u.emit = .cls c := by
  cases emitted_of_mem_build srcs p hp with
  | gg a b h₁ _ _ => rw [h] at h₁; cases h₁
  | cg G b u₁ hu₁ h₁ _ _ => exact ⟨G, u₁, hu₁, by rw [← h₁, h]⟩
  | cc G H u₁ u₂ hu₁ _ h₁ _ _ => exact ⟨G, u₁, hu₁, by rw [← h₁, h]⟩

theorem e₂_cls_unit (srcs : List Source) (p : EPair) (hp : p ∈ build srcs) (c : List Nat) (h : p.e₂ = .cls c) :
    ∃ H u, u ∈ unitsFor srcs .second (.group H) ∧ u.emit = .cls c := by
  cases emitted_of_mem_build srcs p hp with
  | gg a b _ h₂ _ => rw [h] at h₂; cases h₂
  | cg G b u₁ _ _ h₂ _ => rw [h] at h₂; cases h₂
  | cc G H u₁ u₂ _ hu₂ _ h₂ _ => exact ⟨H, u₂, hu₂, by rw [← h₂, h]⟩

/-- Classes of a list of pairs are pairwise equal or disjoint, on each side. -/
def Compat (l : List EPair) : Prop :=
  (∀ p ∈ l, ∀ q ∈ l, ∀ c c', p.e₁ = .cls c → q.e₁ = .cls c' → ∀ g, g ∈ c → g ∈ c' → c = c') ∧
  (∀ p ∈ l, ∀ q ∈ l, ∀ c c', p.e₂ = .cls c → q.e₂ = .cls c' → ∀ g, g ∈ c → g ∈ c' → c = c')

theorem compat_build (srcs : List Source) (hK : KernedWhereDivergent srcs) : Compat (build srcs) := by
  constructor
  · intro p hp q hq c c' hc hc' g hg hg'
    obtain ⟨G, u, hu, hue⟩ := e₁_cls_unit srcs p hp c hc
    obtain ⟨G', u', hu', hue'⟩ := e₁_cls_unit srcs q hq c' hc'
    exact units_class_eq srcs hK .first G G' u u' hu hu' c c' hue hue' g hg hg'
  · intro p hp q hq c c' hc hc' g hg hg'
    obtain ⟨G, u, hu, hue⟩ := e₂_cls_unit srcs p hp c hc
    obtain ⟨G', u', hu', hue'⟩ := e₂_cls_unit srcs q hq c' hc'
    exact units_class_eq srcs hK .second G G' u u' hu hu' c c' hue hue' g hg hg'

theorem Compat.sublist {l l' : List EPair} (h : Compat l) (hsub : ∀ p ∈ l', p ∈ l) : Compat l' :=
  ⟨fun p hp q hq => h.1 p (hsub p hp) q (hsub q hq), fun p hp q hq => h.2 p (hsub p hp) q (hsub q hq)⟩

/-- every output class of `refined_groups` is the class of some unit -/
theorem outputClasses_unit (srcs : List Source) (side : Side) (c : List Nat) (hc : c ∈ outputClasses srcs side) :
    ∃ G u, u ∈ unitsFor srcs side (.group G) ∧ u.emit = .cls c := by
  unfold outputClasses at hc
  simp only [List.mem_eraseDups, List.mem_flatMap] at hc
  obtain ⟨G, _, hcG⟩ := hc
  refine ⟨G, ?_⟩
  unfold unitsFor
  simp only
  by_cases he : (allMembers srcs side G).isEmpty = true
  · simp [he] at hcG
  · simp only [he, Bool.false_eq_true, if_false] at hcG
    by_cases hd : divergentGroup srcs side G = true
    · simp only [hd, if_true, List.mem_map] at hcG ⊢
      obtain ⟨⟨c', σ⟩, hmem, rfl⟩ := hcG
      exact ⟨⟨.perSource σ, .cls c'⟩, ⟨(c', σ), hmem, rfl⟩, rfl⟩
    · simp only [hd, Bool.false_eq_true, if_false, List.mem_singleton] at hcG ⊢
      subst hcG
      simp only [he, Bool.false_eq_true, if_false]
      exact ⟨_, List.mem_singleton.mpr rfl, rfl⟩

end Fontc.Kern
