/-
  Helper lemmas for C12 (FontcModel/Components.lean), part 1: affine laws, the algebra of the relation
  `SameDrawing` (permutation of contours + per-contour reversal), fuel-independence of `resolveWith` on acyclic
  environments and the effect of updating one glyph.
-/
import FontcModel.Components

namespace Fontc.Components
open Fontc

/-! ### Affine laws -/

theorem Affine.comp_assoc (s t u : Affine) : (s.comp t).comp u = s.comp (t.comp u) := by
  cases s; cases t; cases u
  simp only [Affine.comp, Affine.mk.injEq]
  refine ⟨?_, ?_, ?_, ?_, ?_, ?_⟩ <;> grind

theorem Affine.id_comp (t : Affine) : Affine.id.comp t = t := by
  cases t; simp only [Affine.comp, Affine.id, Affine.mk.injEq]
  refine ⟨?_, ?_, ?_, ?_, ?_, ?_⟩ <;> grind

theorem Affine.comp_id (t : Affine) : t.comp Affine.id = t := by
  cases t; simp only [Affine.comp, Affine.id, Affine.mk.injEq]
  refine ⟨?_, ?_, ?_, ?_, ?_, ?_⟩ <;> grind

theorem Affine.apply_comp (s t : Affine) (p : Pt) : (s.comp t).apply p = s.apply (t.apply p) := by
  cases s; cases t; cases p
  simp only [Affine.comp, Affine.apply, Pt.mk.injEq, and_true]
  refine ⟨?_, ?_⟩ <;> grind

theorem Affine.apply_id (p : Pt) : Affine.id.apply p = p := by
  cases p; simp only [Affine.apply, Affine.id, Pt.mk.injEq, and_true]
  refine ⟨?_, ?_⟩ <;> grind

theorem Affine.det_comp (s t : Affine) : (s.comp t).det = s.det * t.det := by
  cases s; cases t; simp only [Affine.comp, Affine.det]; grind

theorem applyC_comp (s t : Affine) (c : Contour) : applyC (s.comp t) c = applyC s (applyC t c) := by
  simp [applyC, List.map_map, Function.comp_def, Affine.apply_comp]

theorem applyC_id (c : Contour) : applyC Affine.id c = c := by
  have : Affine.id.apply = id := funext Affine.apply_id
  simp [applyC, this]

theorem flatMap_congr' {α β} {l : List α} {f g : α → List β} (h : ∀ a ∈ l, f a = g a) : l.flatMap f = l.flatMap g := by
  induction l with
  | nil => rfl
  | cons a l ih =>
    simp only [List.flatMap_cons]
    rw [h a (by simp), ih fun b hb => h b (by simp [hb])]

theorem applyC_reverse (s : Affine) (c : Contour) : applyC s c.reverse = (applyC s c).reverse := by
  simp [applyC, List.map_reverse]

theorem orient_eq_or (t : Affine) (c : Contour) : orient t c = applyC t c ∨ orient t c = (applyC t c).reverse := by
  unfold orient; split <;> simp

/-! ### RevEq and SameDrawing -/

theorem RevEq.refl : ∀ xs : List Contour, RevEq xs xs
  | [] => .nil
  | _ :: xs => .cons (Or.inl rfl) (RevEq.refl xs)

theorem RevEq.symm {xs ys : List Contour} (h : RevEq xs ys) : RevEq ys xs := by
  induction h with
  | nil => exact .nil
  | cons h _ ih =>
    refine .cons ?_ ih
    rcases h with h | h
    · exact Or.inl h.symm
    · right; rw [h, List.reverse_reverse]

theorem RevEq.trans {xs ys zs : List Contour} (h1 : RevEq xs ys) (h2 : RevEq ys zs) : RevEq xs zs := by
  induction h1 generalizing zs with
  | nil => cases h2; exact .nil
  | cons h _ ih =>
    cases h2 with
    | cons h' t' =>
      refine .cons ?_ (ih t')
      rcases h with h | h <;> rcases h' with h' | h' <;> subst h <;> subst h' <;> simp

theorem RevEq.append {xs ys xs' ys' : List Contour} (h1 : RevEq xs ys) (h2 : RevEq xs' ys') :
    RevEq (xs ++ xs') (ys ++ ys') := by
  induction h1 with
  | nil => simpa using h2
  | cons h _ ih => exact .cons h ih

/-- Mapping two transforms that agree up to reversal (e.g. `applyC t` and `orient t`) keeps `RevEq`. -/
theorem RevEq.map {xs ys : List Contour} (f g : Contour → Contour)
    (hfg : ∀ c, f c = g c ∨ f c = (g c).reverse) (hg : ∀ c, g c.reverse = (g c).reverse)
    (h : RevEq xs ys) : RevEq (xs.map f) (ys.map g) := by
  induction h with
  | nil => exact .nil
  | @cons a b _ _ h _ ih =>
    refine .cons ?_ ih
    rcases h with h | h
    · subst h; exact hfg a
    · subst h
      rcases hfg b.reverse with h' | h'
      · right; rw [h', hg]
      · left; rw [h', hg, List.reverse_reverse]

theorem RevEq.flatMap {α} (l : List α) (f g : α → List Contour) (h : ∀ a ∈ l, RevEq (f a) (g a)) :
    RevEq (l.flatMap f) (l.flatMap g) := by
  induction l with
  | nil => exact .nil
  | cons a l ih =>
    simp only [List.flatMap_cons]
    exact RevEq.append (h a (by simp)) (ih fun b hb => h b (by simp [hb]))

theorem RevEq.length {xs ys : List Contour} (h : RevEq xs ys) : xs.length = ys.length := by
  induction h with
  | nil => rfl
  | cons _ _ ih => simp [ih]

/-- A permutation on the right of a `RevEq` can be moved to the left. -/
theorem RevEq.perm_comm {xs ys ws : List Contour} (h : RevEq xs ys) (p : List.Perm ys ws) :
    ∃ zs, List.Perm xs zs ∧ RevEq zs ws := by
  induction p generalizing xs with
  | nil => cases h; exact ⟨[], .refl _, .nil⟩
  | cons b _ ih =>
    cases h with
    | cons hab t =>
      obtain ⟨zs, hp, hr⟩ := ih t
      exact ⟨_ :: zs, hp.cons _, .cons hab hr⟩
  | swap b1 b2 l =>
    cases h with
    | @cons a1 _ _ _ h1 t =>
      cases t with
      | @cons a2 _ as2 _ h2 t2 =>
        exact ⟨a2 :: a1 :: as2, List.Perm.swap _ _ _, .cons h2 (.cons h1 t2)⟩
  | trans _ _ ih1 ih2 =>
    obtain ⟨z1, hp1, hr1⟩ := ih1 h
    obtain ⟨z2, hp2, hr2⟩ := ih2 hr1
    exact ⟨z2, hp1.trans hp2, hr2⟩

theorem SameDrawing.refl (xs : List Contour) : SameDrawing xs xs := ⟨xs, .refl _, RevEq.refl xs⟩

theorem SameDrawing.of_perm {xs ys : List Contour} (p : List.Perm xs ys) : SameDrawing xs ys :=
  ⟨ys, p, RevEq.refl ys⟩

theorem SameDrawing.of_revEq {xs ys : List Contour} (h : RevEq xs ys) : SameDrawing xs ys := ⟨xs, .refl _, h⟩

theorem SameDrawing.of_eq {xs ys : List Contour} (h : xs = ys) : SameDrawing xs ys := h ▸ SameDrawing.refl xs

theorem SameDrawing.trans {xs ys zs : List Contour} (h1 : SameDrawing xs ys) (h2 : SameDrawing ys zs) :
    SameDrawing xs zs := by
  obtain ⟨a, pa, ra⟩ := h1
  obtain ⟨b, pb, rb⟩ := h2
  obtain ⟨c, pc, rc⟩ := RevEq.perm_comm ra pb
  exact ⟨c, pa.trans pc, rc.trans rb⟩

theorem SameDrawing.symm {xs ys : List Contour} (h : SameDrawing xs ys) : SameDrawing ys xs := by
  obtain ⟨a, pa, ra⟩ := h
  obtain ⟨c, pc, rc⟩ := RevEq.perm_comm ra.symm pa.symm
  exact ⟨c, pc, rc⟩

theorem SameDrawing.append {xs ys xs' ys' : List Contour} (h1 : SameDrawing xs ys) (h2 : SameDrawing xs' ys') :
    SameDrawing (xs ++ xs') (ys ++ ys') := by
  obtain ⟨a, pa, ra⟩ := h1
  obtain ⟨b, pb, rb⟩ := h2
  exact ⟨a ++ b, pa.append pb, ra.append rb⟩

theorem SameDrawing.map {xs ys : List Contour} (f g : Contour → Contour)
    (hfg : ∀ c, f c = g c ∨ f c = (g c).reverse) (hg : ∀ c, g c.reverse = (g c).reverse)
    (h : SameDrawing xs ys) : SameDrawing (xs.map f) (ys.map g) := by
  obtain ⟨a, pa, ra⟩ := h
  exact ⟨a.map f, pa.map f, ra.map f g hfg hg⟩

theorem SameDrawing.mapApply (t : Affine) {xs ys : List Contour} (h : SameDrawing xs ys) :
    SameDrawing (xs.map (applyC t)) (ys.map (applyC t)) :=
  h.map _ _ (fun _ => Or.inl rfl) (applyC_reverse t)

theorem SameDrawing.flatMap {α} (l : List α) (f g : α → List Contour) (h : ∀ a ∈ l, SameDrawing (f a) (g a)) :
    SameDrawing (l.flatMap f) (l.flatMap g) := by
  induction l with
  | nil => exact SameDrawing.refl _
  | cons a l ih =>
    simp only [List.flatMap_cons]
    exact SameDrawing.append (h a (by simp)) (ih fun b hb => h b (by simp [hb]))

theorem SameDrawing.length {xs ys : List Contour} (h : SameDrawing xs ys) : xs.length = ys.length := by
  obtain ⟨a, pa, ra⟩ := h
  rw [pa.length_eq, ra.length]

/-- `l.flatMap (f ++ g)` is a permutation of `l.flatMap f ++ l.flatMap g`. -/
theorem flatMap_append_perm {α β} (l : List α) (f g : α → List β) :
    List.Perm (l.flatMap fun a => f a ++ g a) (l.flatMap f ++ l.flatMap g) := by
  induction l with
  | nil => simp
  | cons a l ih =>
    simp only [List.flatMap_cons]
    -- (f a ++ g a) ++ rest ~ (f a ++ F) ++ (g a ++ Gs)
    have h1 : List.Perm ((f a ++ g a) ++ (l.flatMap fun a => f a ++ g a)) ((f a ++ g a) ++ (l.flatMap f ++ l.flatMap g)) :=
      List.Perm.append_left _ ih
    refine h1.trans ?_
    have : List.Perm (g a ++ (l.flatMap f ++ l.flatMap g)) (l.flatMap f ++ (g a ++ l.flatMap g)) := by
      rw [← List.append_assoc, ← List.append_assoc]
      exact List.Perm.append_right _ List.perm_append_comm
    simpa [List.append_assoc] using List.Perm.append_left (f a) this

/-! ### Fuel independence and single-glyph updates -/

theorem resolveWith_stable (tr : Affine → Contour → Contour) (G : Env) (rk : String → Nat) (hfit : Fits G rk) :
    ∀ (f f' : Nat) (n : String), rk n < f → rk n < f' → resolveWith tr G f n = resolveWith tr G f' n := by
  intro f
  induction f with
  | zero => intro f' n h; omega
  | succ f ih =>
    intro f' n h h'
    cases f' with
    | zero => omega
    | succ f' =>
      simp only [resolveWith]
      cases hG : G n with
      | none => rfl
      | some i =>
        simp only
        congr 1
        apply flatMap_congr'
        intro c hc
        have := hfit n i hG c hc
        rw [ih f' c.base (by omega) (by omega)]

theorem resolveAcc_stable (tr : Affine → Contour → Contour) (G : Env) (rk : String → Nat) (hfit : Fits G rk) :
    ∀ (f f' : Nat) (T : Affine) (n : String), rk n < f → rk n < f' → resolveAcc tr G f T n = resolveAcc tr G f' T n := by
  intro f
  induction f with
  | zero => intro f' T n h; omega
  | succ f ih =>
    intro f' T n h h'
    cases f' with
    | zero => omega
    | succ f' =>
      simp only [resolveAcc]
      cases hG : G n with
      | none => rfl
      | some i =>
        simp only
        congr 1
        apply flatMap_congr'
        intro c hc
        have := hfit n i hG c hc
        rw [ih f' _ c.base (by omega) (by omega)]

/-- Carrying the accumulated transform down is the same as transforming at every level (for `applyC`). -/
theorem resolveAcc_applyC (G : Env) : ∀ (f : Nat) (T : Affine) (n : String),
    resolveAcc applyC G f T n = (resolve G f n).map (applyC T) := by
  intro f
  induction f with
  | zero => intro T n; simp [resolveAcc, resolve, resolveWith]
  | succ f ih =>
    intro T n
    simp only [resolveAcc, resolve, resolveWith]
    cases G n with
    | none => simp
    | some i =>
      simp only [List.map_append, List.map_flatMap]
      congr 1
      apply flatMap_congr'
      intro c _
      rw [ih, List.map_map]
      apply List.map_congr_left
      intro ct _
      simp [Function.comp, applyC_comp]

theorem resolve_eq_resolveAcc (G : Env) (f : Nat) (n : String) : resolve G f n = resolveAcc applyC G f Affine.id n := by
  rw [resolveAcc_applyC]
  have : applyC Affine.id = id := funext applyC_id
  rw [this, List.map_id]

/-- The orientation-corrected outline is the drawn outline up to the direction of each contour. -/
theorem resolveAcc_orient_revEq (G : Env) : ∀ (f : Nat) (T : Affine) (n : String),
    RevEq (resolveAcc orient G f T n) (resolveAcc applyC G f T n) := by
  intro f
  induction f with
  | zero => intro T n; simp only [resolveAcc]; exact .nil
  | succ f ih =>
    intro T n
    simp only [resolveAcc]
    cases G n with
    | none => exact .nil
    | some i =>
      simp only
      apply RevEq.append
      · exact (RevEq.refl i.contours).map _ _ (orient_eq_or T) (applyC_reverse T)
      · exact RevEq.flatMap _ _ _ fun c _ => ih _ _

theorem resolveO_revEq_resolve (G : Env) (f : Nat) (n : String) : RevEq (resolveO G f n) (resolve G f n) := by
  rw [resolve_eq_resolveAcc]; exact resolveAcc_orient_revEq G f _ n

/-- Updating glyph `n` does not change the outline of any glyph of smaller rank. -/
theorem resolveWith_set_below (tr : Affine → Contour → Contour) (G : Env) (rk : String → Nat) (hfit : Fits G rk)
    (n : String) (i' : Inst) :
    ∀ (f : Nat) (b : String), rk b < rk n → resolveWith tr (G.set n i') f b = resolveWith tr G f b := by
  intro f
  induction f with
  | zero => intro b _; rfl
  | succ f ih =>
    intro b hb
    have hne : b ≠ n := by intro h; subst h; omega
    simp only [resolveWith, Env.set, hne, if_false]
    cases hG : G b with
    | none => rfl
    | some i =>
      simp only
      congr 1
      apply flatMap_congr'
      intro c hc
      have := hfit b i hG c hc
      rw [ih c.base (by omega)]

/-- One unfolding of `resolveWith` at the instance level. -/
def resolveInst (tr : Affine → Contour → Contour) (G : Env) (f : Nat) (i : Inst) : List Contour :=
  i.contours ++ i.comps.flatMap fun c => (resolveWith tr G f c.base).map (tr c.t)

theorem resolveWith_succ (tr : Affine → Contour → Contour) (G : Env) (f : Nat) (n : String) (i : Inst) (h : G n = some i) :
    resolveWith tr G (f + 1) n = resolveInst tr G f i := by
  simp [resolveWith, resolveInst, h]

end Fontc.Components
