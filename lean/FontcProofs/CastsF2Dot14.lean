/-
  C19 helper lemmas, part 6: boundary of the 2.14 component entries.
-/
import FontcProofs.CastsViolation
namespace Fontc.Casts
open Fontc

/-! ### 2.14 entries -/

theorem roundHalfAway_nonneg' {x : Rat} (h : 0 ≤ x) : roundHalfAway x = otRound x := by
  unfold roundHalfAway otRound; simp [h]; rw [truncI_nonneg (by grind)]

/-- real-interval form of `Representable .comp2x2` -/
theorem representable_comp2x2_iff (v : Rat) :
    Representable .comp2x2 v ↔ -2 ≤ v ∧ v < 2 - 1/32768 := by
  simp only [Representable]
  constructor
  · intro ⟨h1, h2⟩
    refine ⟨h1, ?_⟩
    by_cases h0 : 0 ≤ v
    · have hx : 0 ≤ v * 16384 := (scale_sign v).2 h0
      rw [roundHalfAway_nonneg' hx, otRound_le_iff] at h2
      simp at h2; grind
    · grind
  · intro ⟨h1, h2⟩
    refine ⟨h1, ?_⟩
    by_cases h0 : 0 ≤ v
    · have hx : 0 ≤ v * 16384 := (scale_sign v).2 h0
      rw [roundHalfAway_nonneg' hx, otRound_le_iff]
      simp; grind
    · have hx : v * 16384 < 0 := by grind
      unfold roundHalfAway
      have h0' : ¬ 0 ≤ v * 16384 := by grind
      simp [h0']; rw [truncI_neg (by grind)]
      have : 0 ≤ (-(v * 16384 + -1/2)).floor := by rw [Rat.le_floor_iff]; simp; grind
      omega

/-- between the largest 2.14 value's rounding limit and 2.0 the entry saturates to 0x7fff (fonttools does the same) -/
theorem comp2x2_saturates_old (v : Rat) (p : Profile) (h1 : 2 - 1/32768 ≤ v) (h2 : v ≤ 2) :
    fieldPipelineOld .comp2x2 v p = .ok (32767 / 16384) := by
  have hc : -2 ≤ v ∧ v ≤ 2 := ⟨by grind, h2⟩
  simp only [fieldPipelineOld, if_pos hc, f2dot14FromF64_eq, f2dot14ToRat]
  have hx : 0 ≤ v * 16384 := by grind
  have : 32767 < roundHalfAway (v * 16384) := by
    rw [roundHalfAway_nonneg' hx]
    have := (otRound_ge_iff (v * 16384) 32768).2 (by simp; grind)
    omega
  rw [satI16_above this]; simp

theorem comp2x2_fallback_old (v : Rat) (p : Profile) (h : v < -2 ∨ 2 < v) :
    fieldPipelineOld .comp2x2 v p = .fallback := by
  have hc : ¬ (-2 ≤ v ∧ v ≤ 2) := by grind
  simp only [fieldPipelineOld, if_neg hc]

theorem roundHalfAway_neg_le' {x : Rat} (h : x < 0) : roundHalfAway x ≤ 0 := by
  unfold roundHalfAway
  have h0 : ¬ 0 ≤ x := by grind
  simp [h0]; rw [truncI_neg (by grind)]
  have : 0 ≤ (-(x + -1/2)).floor := by rw [Rat.le_floor_iff]; simp; grind
  omega

/-- whatever is stored in a 2×2 entry is within one 2.14 step (2⁻¹⁴) of the source value -/
theorem comp2x2_within_ulp_old (v : Rat) (p : Profile) (w : Rat) (hw : fieldPipelineOld .comp2x2 v p = .ok w) :
    ratAbs (w - v) ≤ 1 / 16384 := by
  simp only [fieldPipelineOld] at hw
  by_cases hc : -2 ≤ v ∧ v ≤ 2
  · rw [if_pos hc] at hw
    injection hw with hw
    rw [← hw, f2dot14FromF64_eq, f2dot14ToRat, ratAbs_le_iff]
    by_cases hr : roundHalfAway (v * 16384) ≤ 32767
    · have hlo : -32768 ≤ roundHalfAway (v * 16384) := roundHalfAway_ge_of (by grind)
      rw [satI16_of_in ⟨hlo, hr⟩]
      -- |roundHalfAway x − x| ≤ 1/2
      have key : -(1/2 : Rat) ≤ (roundHalfAway (v * 16384) : Rat) - v * 16384 ∧
                 (roundHalfAway (v * 16384) : Rat) - v * 16384 ≤ 1/2 := by
        unfold roundHalfAway
        by_cases h0 : 0 ≤ v * 16384
        · simp [h0]; rw [truncI_nonneg (by grind)]
          have a := Rat.floor_le (v * 16384 + 1/2)
          have b := Rat.lt_floor_add_one (v * 16384 + 1/2)
          simp [Rat.intCast_add] at b
          constructor <;> grind
        · simp [h0]; rw [truncI_neg (by grind)]
          have a := Rat.floor_le (-(v * 16384 + -1/2))
          have b := Rat.lt_floor_add_one (-(v * 16384 + -1/2))
          simp [Rat.intCast_add, Rat.intCast_neg] at b ⊢
          constructor <;> grind
      constructor <;> grind
    · rw [satI16_above (by omega)]
      have hx : 0 ≤ v * 16384 := by
        apply Classical.byContradiction; intro hn
        have := roundHalfAway_neg_le' (x := v * 16384) (by grind)
        omega
      rw [roundHalfAway_nonneg' hx, otRound_le_iff] at hr
      simp at hr ⊢
      constructor <;> grind
  · rw [if_neg hc] at hw; cases hw

end Fontc.Casts
