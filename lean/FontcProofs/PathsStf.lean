/-
  Helper lemmas for C14: `string_to_filename` is injective, also up to ASCII case folding.
  Core Lean only.
-/
import FontcModel.Paths

namespace Fontc.Paths

/-! ### small arithmetic facts about characters -/

theorem toAsciiLower_eq_iff_of_nonletter (c x : Nat) (hx : ¬ (0x61 ≤ x ∧ x ≤ 0x7A))
    (h : toAsciiLower c = x) : c = x := by
  unfold toAsciiLower at h
  split at h <;> simp_all <;> omega

/-- two code points with the same ASCII folding are equal or are both ASCII letters -/
theorem toAsciiLower_eq_cases (a b : Nat) (h : toAsciiLower a = toAsciiLower b) :
    a = b ∨ (a < 0x80 ∧ b < 0x80 ∧ isReservedChar a = false ∧ isReservedChar b = false) := by
  unfold toAsciiLower at h
  split at h <;> split at h <;> simp_all [isReservedChar] <;> omega

theorem eq_of_fold_eq_of_upper_eq (a b : Nat) (h : toAsciiLower a = toAsciiLower b)
    (hu : isAsciiUpper a = isAsciiUpper b) : a = b := by
  unfold toAsciiLower at h
  unfold isAsciiUpper at hu
  split at h <;> split at h <;> simp_all <;> omega

theorem isReservedChar_lt (c : Nat) (h : isReservedChar c = true) : c < 128 := by
  simp [isReservedChar] at h
  omega

theorem toAsciiLower_of_reserved (c : Nat) (h : isReservedChar c = true) : toAsciiLower c = c := by
  simp [isReservedChar] at h
  unfold toAsciiLower
  split <;> simp_all <;> omega

theorem hex2_of_lt (c : Nat) (h : c < 256) : hex2 c = [hexDigitUpper (c / 16), hexDigitUpper (c % 16)] := by
  simp [hex2, h]

/-! ### the escape of one character -/

theorem escChar_cases (f : Bool) (c : Nat) :
    (escChar f c = [0x25, 0x32, 0x45] ∧ c = 0x2E) ∨
    (escChar f c = [c] ∧ isReservedChar c = false) ∨
    (escChar f c = [0x25, hexDigitUpper (c / 16), hexDigitUpper (c % 16)] ∧ isReservedChar c = true) := by
  unfold escChar
  by_cases hd : (f && c == 0x2E) = true
  · left
    simp only [hd, if_true, true_and]
    simp at hd
    exact hd.2
  · right
    simp only [hd]
    by_cases hr : isReservedChar c = true
    · right
      have := isReservedChar_lt c hr
      simp [hr, hex2_of_lt c (by omega)]
    · left
      have hr' : isReservedChar c = false := by simpa using hr
      simp [hr']

/-- inverse of a hexadecimal digit (either case) -/
def unhex (x : Nat) : Nat :=
  if 0x30 ≤ x ∧ x ≤ 0x39 then x - 0x30
  else if 0x41 ≤ x ∧ x ≤ 0x46 then x - 0x41 + 10
  else if 0x61 ≤ x ∧ x ≤ 0x66 then x - 0x61 + 10
  else 0

/-- decoder of the escaped name (percent escapes back to code points) -/
def unesc : List Nat → List Nat
  | [] => []
  | c :: rest =>
    if c = 0x25 then
      match rest with
      | a :: b :: r => (unhex a * 16 + unhex b) :: unesc r
      | _ => []
    else c :: unesc rest

theorem unesc_lit (c : Nat) (t : List Nat) (h : c ≠ 0x25) : unesc (c :: t) = c :: unesc t := by
  conv => lhs; unfold unesc
  simp [h]

theorem unesc_esc (a b : Nat) (t : List Nat) :
    unesc (0x25 :: a :: b :: t) = (unhex a * 16 + unhex b) :: unesc t := by
  conv => lhs; unfold unesc
  simp

theorem unhex_fold_hexDigit' : ∀ d, d < 16 → unhex (toAsciiLower (hexDigitUpper d)) = d := by decide

theorem unhex_fold_hexDigit (d : Nat) (h : d < 16) : unhex (toAsciiLower (hexDigitUpper d)) = d :=
  unhex_fold_hexDigit' d h

/-- decoding the case-folded escape of one character gives the case-folded character -/
theorem unesc_fold_escChar (f : Bool) (c : Nat) (t : List Nat) :
    unesc (asciiFold (escChar f c) ++ t) = toAsciiLower c :: unesc t := by
  rcases escChar_cases f c with ⟨h, hc⟩ | ⟨h, hr⟩ | ⟨h, hr⟩
  · subst hc
    rw [h]
    have h1 : asciiFold [37, 50, 69] = [37, 50, 101] := by decide
    have h2 : toAsciiLower 46 = 46 := by decide
    rw [h1, h2]
    exact unesc_esc 50 101 t
  · rw [h]
    have hne : toAsciiLower c ≠ 0x25 := by
      intro hh
      have := toAsciiLower_eq_iff_of_nonletter c 0x25 (by omega) hh
      subst this
      simp [isReservedChar] at hr
    simp only [asciiFold, List.map_cons, List.map_nil, List.cons_append, List.nil_append]
    exact unesc_lit _ _ hne
  · rw [h]
    have hlt := isReservedChar_lt c hr
    simp only [asciiFold, List.map_cons, List.map_nil, List.cons_append, List.nil_append]
    have h25 : toAsciiLower 0x25 = 0x25 := by decide
    rw [h25, unesc_esc, unhex_fold_hexDigit _ (by omega), unhex_fold_hexDigit _ (by omega),
      toAsciiLower_of_reserved c hr]
    congr 1
    omega

theorem asciiFold_append (a b : List Nat) : asciiFold (a ++ b) = asciiFold a ++ asciiFold b := by
  simp [asciiFold]

theorem unesc_fold_flatMap (r t : List Nat) :
    unesc (asciiFold (r.flatMap (escChar false)) ++ t) = asciiFold r ++ unesc t := by
  induction r with
  | nil => simp [asciiFold]
  | cons c r ih =>
    rw [List.flatMap_cons, asciiFold_append, List.append_assoc, unesc_fold_escChar, ih]
    simp [asciiFold]

/-- the decoder inverts the escaped name, also after ASCII case folding -/
theorem unesc_fold_escBody (n : List Nat) : unesc (asciiFold (escBody n)) = asciiFold n := by
  cases n with
  | nil => simp [escBody, asciiFold, unesc]
  | cons c r =>
    have h := unesc_fold_flatMap r []
    simp only [List.append_nil] at h
    rw [escBody, asciiFold_append, unesc_fold_escChar, h]
    simp [asciiFold, unesc]

/-! ### the separator never occurs in the escaped name or in the digits -/

theorem hexDigitUpper_fold_ne_sep' : ∀ d, d < 16 → toAsciiLower (hexDigitUpper d) ≠ 0x5E := by decide

theorem sep_not_mem_fold_escChar (f : Bool) (c : Nat) : 0x5E ∉ asciiFold (escChar f c) := by
  rcases escChar_cases f c with ⟨h, _⟩ | ⟨h, hr⟩ | ⟨h, hr⟩
  · rw [h]; decide
  · rw [h]
    simp only [asciiFold, List.map_cons, List.map_nil, List.mem_singleton]
    intro hh
    have := toAsciiLower_eq_iff_of_nonletter c 0x5E (by omega) hh.symm
    subst this
    simp [isReservedChar] at hr
  · rw [h]
    have hlt := isReservedChar_lt c hr
    simp only [asciiFold, List.map_cons, List.map_nil, List.mem_cons, List.not_mem_nil, or_false]
    intro hh
    rcases hh with hh | hh | hh
    · revert hh; decide
    · exact hexDigitUpper_fold_ne_sep' _ (by omega) hh.symm
    · exact hexDigitUpper_fold_ne_sep' _ (by omega) hh.symm

theorem sep_not_mem_fold_escBody (n : List Nat) : 0x5E ∉ asciiFold (escBody n) := by
  cases n with
  | nil => simp [escBody, asciiFold]
  | cons c r =>
    intro h
    rw [escBody, asciiFold_append, List.mem_append] at h
    rcases h with h | h
    · exact sep_not_mem_fold_escChar true c h
    · simp only [asciiFold, List.mem_map, List.mem_flatMap] at h
      obtain ⟨x, ⟨y, _, hxy⟩, hx⟩ := h
      apply sep_not_mem_fold_escChar false y
      simp only [asciiFold, List.mem_map]
      exact ⟨x, hxy, hx⟩

/-! ### splitting at the separator -/

theorem split_at_sep {s : Nat} (a a' b b' : List Nat) (ha : s ∉ a) (ha' : s ∉ a')
    (h : a ++ s :: b = a' ++ s :: b') : a = a' ∧ b = b' := by
  induction a generalizing a' with
  | nil =>
    cases a' with
    | nil => simpa using h
    | cons x r =>
      simp at h
      simp [h.1] at ha'
  | cons x r ih =>
    cases a' with
    | nil =>
      simp at h
      simp [h.1] at ha
    | cons y r' =>
      simp at h ha ha'
      obtain ⟨hr, hb⟩ := ih r' ha.2 ha'.2 h.2
      exact ⟨by simp [h.1, hr], hb⟩

theorem no_sep_of_eq {s : Nat} (a b c : List Nat) (hc : s ∉ c) (h : a ++ s :: b = c) : False := by
  apply hc
  rw [← h]
  simp

/-! ### the case digits -/

theorem chunks5_long {α : Type} (a b c d e : α) (r : List α) :
    chunks5 (a :: b :: c :: d :: e :: r) = [a, b, c, d, e] :: chunks5 r := by
  simp [chunks5]

theorem chunks5_short {α : Type} (l : List α) (h1 : l ≠ []) (h5 : l.length < 5) : chunks5 l = [l] := by
  rcases l with _ | ⟨a, _ | ⟨b, _ | ⟨c, _ | ⟨d, _ | ⟨e, r⟩⟩⟩⟩⟩
  · exact absurd rfl h1
  · simp [chunks5]
  · simp [chunks5]
  · simp [chunks5]
  · simp [chunks5]
  · simp at h5; omega

theorem chunkDigit_inj (l1 l2 : List Bool) (hl : l1.length = l2.length)
    (h : chunkDigit l1 = chunkDigit l2) : l1 = l2 := by
  induction l1 generalizing l2 with
  | nil => cases l2 with
    | nil => rfl
    | cons _ _ => simp at hl
  | cons b r ih =>
    cases l2 with
    | nil => simp at hl
    | cons b' r' =>
      simp only [chunkDigit] at h
      simp only [List.length_cons, Nat.add_right_cancel_iff] at hl
      have hb : b = b' := by
        cases b <;> cases b' <;> simp at h ⊢ <;> omega
      have hr : chunkDigit r = chunkDigit r' := by
        cases b <;> cases b' <;> simp at h hb <;> omega
      rw [hb, ih r' hl hr]

theorem chunkDigit_lt (l : List Bool) : chunkDigit l < 2 ^ l.length := by
  induction l with
  | nil => simp [chunkDigit]
  | cons b r ih =>
    simp only [chunkDigit, List.length_cons, Nat.pow_succ]
    cases b <;> simp <;> omega

/-- the digit list determines the mask among masks of one length -/
theorem digits_inj (n : Nat) : ∀ m1 m2 : List Bool, m1.length = n → m2.length = n →
    (chunks5 m1).map chunkDigit = (chunks5 m2).map chunkDigit → m1 = m2 := by
  induction n using Nat.strongRecOn with
  | _ n ih =>
    intro m1 m2 h1 h2 h
    by_cases hn : n < 5
    · by_cases h0 : n = 0
      · subst h0
        rw [List.length_eq_zero_iff.mp h1, List.length_eq_zero_iff.mp h2]
      · have e1 : m1 ≠ [] := by intro hh; subst hh; simp at h1; omega
        have e2 : m2 ≠ [] := by intro hh; subst hh; simp at h2; omega
        rw [chunks5_short m1 e1 (by omega), chunks5_short m2 e2 (by omega)] at h
        simp only [List.map_cons, List.map_nil, List.cons.injEq, and_true] at h
        exact chunkDigit_inj m1 m2 (by omega) h
    · rcases m1 with _ | ⟨a, _ | ⟨b, _ | ⟨c, _ | ⟨d, _ | ⟨e, r⟩⟩⟩⟩⟩ <;> simp at h1 <;> try omega
      rcases m2 with _ | ⟨a', _ | ⟨b', _ | ⟨c', _ | ⟨d', _ | ⟨e', r'⟩⟩⟩⟩⟩ <;> simp at h2 <;> try omega
      rw [chunks5_long, chunks5_long] at h
      simp only [List.map_cons, List.cons.injEq] at h
      have hc := chunkDigit_inj [a, b, c, d, e] [a', b', c', d', e'] (by simp) h.1
      have hr := ih (n - 5) (by omega) r r' (by omega) (by omega) h.2
      simp only [List.cons.injEq, and_true] at hc
      simp [hc, hr]

theorem chunks5_length (n : Nat) : ∀ {α : Type} (m1 m2 : List α), m1.length = n → m2.length = n →
    (chunks5 m1).length = (chunks5 m2).length := by
  induction n using Nat.strongRecOn with
  | _ n ih =>
    intro α m1 m2 h1 h2
    by_cases hn : n < 5
    · by_cases h0 : n = 0
      · subst h0
        rw [List.length_eq_zero_iff.mp h1, List.length_eq_zero_iff.mp h2]
      · have e1 : m1 ≠ [] := by intro hh; subst hh; simp at h1; omega
        have e2 : m2 ≠ [] := by intro hh; subst hh; simp at h2; omega
        rw [chunks5_short m1 e1 (by omega), chunks5_short m2 e2 (by omega)]
        simp
    · rcases m1 with _ | ⟨a, _ | ⟨b, _ | ⟨c, _ | ⟨d, _ | ⟨e, r⟩⟩⟩⟩⟩ <;> simp at h1 <;> try omega
      rcases m2 with _ | ⟨a', _ | ⟨b', _ | ⟨c', _ | ⟨d', _ | ⟨e', r'⟩⟩⟩⟩⟩ <;> simp at h2 <;> try omega
      rw [chunks5_long, chunks5_long]
      simp only [List.length_cons, Nat.add_right_cancel_iff]
      exact ih (n - 5) (by omega) r r' (by omega) (by omega)

theorem chunks5_chunk_le (n : Nat) : ∀ {α : Type} (m : List α), m.length = n →
    ∀ c ∈ chunks5 m, c.length ≤ 5 := by
  induction n using Nat.strongRecOn with
  | _ n ih =>
    intro α m h1 c hc
    by_cases hn : n < 5
    · by_cases h0 : n = 0
      · subst h0
        rw [List.length_eq_zero_iff.mp h1] at hc
        simp [chunks5] at hc
      · have e1 : m ≠ [] := by intro hh; subst hh; simp at h1; omega
        rw [chunks5_short m e1 (by omega)] at hc
        simp at hc
        subst hc
        omega
    · rcases m with _ | ⟨a, _ | ⟨b, _ | ⟨c', _ | ⟨d, _ | ⟨e, r⟩⟩⟩⟩⟩ <;> simp at h1 <;> try omega
      rw [chunks5_long] at hc
      simp only [List.mem_cons] at hc
      rcases hc with hc | hc
      · subst hc; simp
      · exact ih (n - 5) (by omega) r (by omega) c hc

/-! ### trailing zeros -/

theorem dropWhile_determined {α : Type} (p : α → Bool) (z : α) (hz : ∀ x, p x = true → x = z) :
    ∀ l l' : List α, l.length = l'.length → l.dropWhile p = l'.dropWhile p → l = l' := by
  intro l
  induction l with
  | nil =>
    intro l' hl _
    cases l' with
    | nil => rfl
    | cons _ _ => simp at hl
  | cons x xs ih =>
    intro l' hl h
    cases l' with
    | nil => simp at hl
    | cons y ys =>
      simp only [List.length_cons, Nat.add_right_cancel_iff] at hl
      rw [List.dropWhile_cons, List.dropWhile_cons] at h
      by_cases hx : p x = true <;> by_cases hy : p y = true
      · simp only [hx, hy, if_true] at h
        rw [hz x hx, hz y hy, ih ys hl h]
      · simp only [hx, hy, if_true] at h
        have h1 := (List.dropWhile_sublist (l := xs) p).length_le
        rw [h] at h1
        simp at h1
        omega
      · simp only [hx, hy, if_true] at h
        have h1 := (List.dropWhile_sublist (l := ys) p).length_le
        rw [← h] at h1
        simp at h1
        omega
      · simpa [hx, hy] using h

theorem strip_determined (a b : List Nat) (hl : a.length = b.length)
    (h : stripTrailingZeros a = stripTrailingZeros b) : a = b := by
  unfold stripTrailingZeros at h
  rw [List.reverse_inj] at h
  have := dropWhile_determined (· == 0) 0 (by intro x hx; simpa using hx) a.reverse b.reverse
    (by simp [hl]) h
  exact List.reverse_inj.mp this

theorem strip_ne_zero (a : List Nat) : stripTrailingZeros a ≠ [0] := by
  unfold stripTrailingZeros
  intro h
  have h' : List.dropWhile (· == 0) a.reverse = [0] := by
    have := congrArg List.reverse h
    simpa using this
  have hne : List.dropWhile (· == 0) a.reverse ≠ [] := by rw [h']; simp
  have := List.head_dropWhile_not (· == 0) hne
  simp [h'] at this

theorem mem_strip (a : List Nat) (x : Nat) (h : x ∈ stripTrailingZeros a) : x ∈ a := by
  unfold stripTrailingZeros at h
  rw [List.mem_reverse] at h
  have := (List.dropWhile_sublist (l := a.reverse) (· == 0)).mem h
  exact List.mem_reverse.mp this

theorem caseDigits_lt (n : List Nat) : ∀ d ∈ caseDigits n, d < 32 := by
  intro d hd
  have := mem_strip _ _ hd
  simp only [List.mem_map] at this
  obtain ⟨c, hc, rfl⟩ := this
  have hl := chunks5_chunk_le _ (upperMask n) rfl c hc
  have := chunkDigit_lt c
  have : 2 ^ c.length ≤ 2 ^ 5 := Nat.pow_le_pow_right (by omega) hl
  omega

theorem codeDigits_lt (n : List Nat) : ∀ d ∈ codeDigits n, d < 32 := by
  intro d hd
  unfold codeDigits at hd
  split at hd
  · simp at hd; omega
  · exact caseDigits_lt n d hd

/-! ### names with the same folding -/

theorem utf8Bytes_of_lt (c : Nat) (h : c < 0x80) : utf8Bytes c = [c] := by
  simp [utf8Bytes, h]

theorem upperMask_cons (c : Nat) (r : List Nat) :
    upperMask (c :: r) = (utf8Bytes c).map isAsciiUpper ++ upperMask r := by
  simp [upperMask, utf8]

theorem upperMask_length_of_fold (n1 : List Nat) : ∀ n2, asciiFold n1 = asciiFold n2 →
    (upperMask n1).length = (upperMask n2).length := by
  induction n1 with
  | nil =>
    intro n2 h
    cases n2 with
    | nil => rfl
    | cons _ _ => simp [asciiFold] at h
  | cons c r ih =>
    intro n2 h
    cases n2 with
    | nil => simp [asciiFold] at h
    | cons c' r' =>
      simp only [asciiFold, List.map_cons, List.cons.injEq] at h
      rw [upperMask_cons, upperMask_cons, List.length_append, List.length_append, ih r' h.2]
      rcases toAsciiLower_eq_cases c c' h.1 with hc | ⟨h1, h2, _⟩
      · rw [hc]
      · rw [utf8Bytes_of_lt c h1, utf8Bytes_of_lt c' h2]
        simp

theorem eq_of_fold_eq_of_mask_eq (n1 : List Nat) : ∀ n2, asciiFold n1 = asciiFold n2 →
    upperMask n1 = upperMask n2 → n1 = n2 := by
  induction n1 with
  | nil =>
    intro n2 h _
    cases n2 with
    | nil => rfl
    | cons _ _ => simp [asciiFold] at h
  | cons c r ih =>
    intro n2 h hm
    cases n2 with
    | nil => simp [asciiFold] at h
    | cons c' r' =>
      simp only [asciiFold, List.map_cons, List.cons.injEq] at h
      rw [upperMask_cons, upperMask_cons] at hm
      rcases toAsciiLower_eq_cases c c' h.1 with hc | ⟨h1, h2, _⟩
      · subst hc
        rw [ih r' h.2 (List.append_cancel_left hm)]
      · rw [utf8Bytes_of_lt c h1, utf8Bytes_of_lt c' h2] at hm
        simp only [List.map_cons, List.map_nil, List.cons_append, List.nil_append, List.cons.injEq] at hm
        rw [eq_of_fold_eq_of_upper_eq c c' h.1 hm.1, ih r' h.2 hm.2]

/-! ### the digits after the separator -/

theorem base32_fold_inj' : ∀ a, a < 32 → ∀ b, b < 32 →
    toAsciiLower (base32Char a) = toAsciiLower (base32Char b) → a = b := by decide

theorem base32_fold_ne_sep' : ∀ a, a < 32 → toAsciiLower (base32Char a) ≠ 0x5E := by decide

theorem fold_base32_inj (d1 : List Nat) : ∀ d2 : List Nat, (∀ d ∈ d1, d < 32) → (∀ d ∈ d2, d < 32) →
    asciiFold (d1.map base32Char) = asciiFold (d2.map base32Char) → d1 = d2 := by
  induction d1 with
  | nil =>
    intro d2 _ _ h
    cases d2 with
    | nil => rfl
    | cons _ _ => simp [asciiFold] at h
  | cons x r ih =>
    intro d2 h1 h2 h
    cases d2 with
    | nil => simp [asciiFold] at h
    | cons y r' =>
      simp only [asciiFold, List.map_cons, List.cons.injEq] at h
      have hx := base32_fold_inj' x (h1 x (by simp)) y (h2 y (by simp)) h.1
      have hr := ih r' (fun d hd => h1 d (by simp [hd])) (fun d hd => h2 d (by simp [hd]))
        (by simpa [asciiFold] using h.2)
      rw [hx, hr]

theorem sep_not_mem_fold_base32 (ds : List Nat) (h : ∀ d ∈ ds, d < 32) :
    0x5E ∉ asciiFold (ds.map base32Char) := by
  intro hh
  simp only [asciiFold, List.mem_map] at hh
  obtain ⟨x, ⟨d, hd, rfl⟩, hx⟩ := hh
  exact base32_fold_ne_sep' d (h d hd) hx

/-- shape of the part between the escaped name and the suffix -/
theorem caseSuffix_cases (n : List Nat) :
    (caseSuffix n = [] ∧ codeDigits n = []) ∨
    (caseSuffix n = 0x5E :: (codeDigits n).map base32Char ∧ codeDigits n ≠ []) := by
  unfold caseSuffix
  cases h : codeDigits n with
  | nil => left; simp
  | cons x r => right; simp [sepChar]

theorem caseDigits_eq_of_codeDigits_eq (n1 n2 : List Nat) (h : codeDigits n1 = codeDigits n2) :
    caseDigits n1 = caseDigits n2 := by
  unfold codeDigits at h
  split at h <;> split at h
  · rename_i h1 h2
    simp at h1 h2
    rw [h1.1, h2.1]
  · exact absurd h.symm (strip_ne_zero _)
  · exact absurd h (strip_ne_zero _)
  · exact h

/-- core of both injectivity theorems -/
theorem stf_core (n1 n2 : List Nat)
    (h : asciiFold (escBody n1 ++ caseSuffix n1) = asciiFold (escBody n2 ++ caseSuffix n2)) : n1 = n2 := by
  rw [asciiFold_append, asciiFold_append] at h
  have hb1 := sep_not_mem_fold_escBody n1
  have hb2 := sep_not_mem_fold_escBody n2
  have key : asciiFold (escBody n1) = asciiFold (escBody n2) ∧ codeDigits n1 = codeDigits n2 := by
    rcases caseSuffix_cases n1 with ⟨e1, c1⟩ | ⟨e1, c1⟩ <;> rcases caseSuffix_cases n2 with ⟨e2, c2⟩ | ⟨e2, c2⟩
    · rw [e1, e2] at h
      simp only [asciiFold, List.map_nil, List.append_nil] at h
      exact ⟨h, by rw [c1, c2]⟩
    · rw [e1, e2] at h
      simp only [asciiFold, List.map_nil, List.append_nil, List.map_cons] at h
      have h5 : toAsciiLower 0x5E = 0x5E := by decide
      rw [h5] at h
      exact (no_sep_of_eq _ _ _ hb1 h.symm).elim
    · rw [e1, e2] at h
      simp only [asciiFold, List.map_nil, List.append_nil, List.map_cons] at h
      have h5 : toAsciiLower 0x5E = 0x5E := by decide
      rw [h5] at h
      exact (no_sep_of_eq _ _ _ hb2 h).elim
    · rw [e1, e2] at h
      have h5 : asciiFold (0x5E :: (codeDigits n1).map base32Char) = 0x5E :: asciiFold ((codeDigits n1).map base32Char) := by
        simp only [asciiFold, List.map_cons]; rfl
      have h6 : asciiFold (0x5E :: (codeDigits n2).map base32Char) = 0x5E :: asciiFold ((codeDigits n2).map base32Char) := by
        simp only [asciiFold, List.map_cons]; rfl
      rw [h5, h6] at h
      obtain ⟨ha, hd⟩ := split_at_sep _ _ _ _ hb1 hb2 h
      exact ⟨ha, fold_base32_inj _ _ (codeDigits_lt n1) (codeDigits_lt n2) hd⟩
  obtain ⟨hbody, hdig⟩ := key
  have hfold : asciiFold n1 = asciiFold n2 := by
    rw [← unesc_fold_escBody n1, ← unesc_fold_escBody n2, hbody]
  have hcase := caseDigits_eq_of_codeDigits_eq n1 n2 hdig
  have hlen := upperMask_length_of_fold n1 n2 hfold
  unfold caseDigits at hcase
  have hD := strip_determined _ _
    (by simp only [List.length_map]; exact chunks5_length _ _ _ rfl hlen.symm) hcase
  have hmask := digits_inj _ _ _ rfl hlen.symm hD
  exact eq_of_fold_eq_of_mask_eq n1 n2 hfold hmask

/-- every result ends with the suffix -/
theorem stf_eq_append (n s : List Nat) : stringToFilename n s = (escBody n ++ caseSuffix n) ++ s := by
  simp [stringToFilename]

end Fontc.Paths
