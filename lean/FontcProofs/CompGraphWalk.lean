/-
  C15 helper lemmas (4/4): the final sort by (depth, name) is a permutation sorted by depth; recursive walks return
  when a rank function exists, never return from inside a closed set of glyphs (a cycle), and are monotone in fuel.
-/
import FontcProofs.CompGraphGate
namespace Fontc.CompGraph
variable {α : Type} [DecidableEq α]

/-! ### the final sort -/

omit [DecidableEq α] in
theorem mem_insertByDepth (nlt : α → α → Bool) (x y : α × Nat) (l : Depths α) :
    y ∈ insertByDepth nlt x l ↔ y = x ∨ y ∈ l := by
  induction l with
  | nil => simp [insertByDepth]
  | cons z zs ih =>
    simp only [insertByDepth]
    split
    · simp
    · simp only [List.mem_cons, ih]
      constructor
      · rintro (h | h | h) <;> simp [h]
      · rintro (h | h | h) <;> simp [h]

omit [DecidableEq α] in
theorem mem_sortByDepth (nlt : α → α → Bool) (y : α × Nat) (l : Depths α) : y ∈ sortByDepth nlt l ↔ y ∈ l := by
  induction l with
  | nil => simp [sortByDepth]
  | cons z zs ih => simp [sortByDepth, mem_insertByDepth, ih]

omit [DecidableEq α] in
theorem pairwise_insertByDepth (nlt : α → α → Bool) (x : α × Nat) (l : Depths α)
    (h : l.Pairwise fun a b => a.2 ≤ b.2) : (insertByDepth nlt x l).Pairwise fun a b => a.2 ≤ b.2 := by
  induction l with
  | nil => simp [insertByDepth]
  | cons z zs ih =>
    simp only [insertByDepth]
    have hz := List.pairwise_cons.mp h
    split
    · rename_i hc
      have hxz : x.2 ≤ z.2 := by
        simp only [Bool.or_eq_true, decide_eq_true_eq, Bool.and_eq_true, beq_iff_eq] at hc
        rcases hc with hc | hc <;> omega
      refine List.pairwise_cons.mpr ⟨?_, h⟩
      intro a ha
      rcases List.mem_cons.mp ha with ha | ha
      · subst ha; exact hxz
      · have := hz.1 a ha; omega
    · rename_i hc
      have hzx : z.2 ≤ x.2 := by
        simp only [Bool.or_eq_true, decide_eq_true_eq, Bool.and_eq_true, beq_iff_eq, not_or] at hc
        omega
      refine List.pairwise_cons.mpr ⟨?_, ih hz.2⟩
      intro a ha
      rcases (mem_insertByDepth nlt x a zs).mp ha with ha | ha
      · subst ha; exact hzx
      · exact hz.1 a ha

omit [DecidableEq α] in
theorem pairwise_sortByDepth (nlt : α → α → Bool) (l : Depths α) :
    (sortByDepth nlt l).Pairwise fun a b => a.2 ≤ b.2 := by
  induction l with
  | nil => simp [sortByDepth]
  | cons z zs ih => exact pairwise_insertByDepth nlt z _ ih

/-- in a list sorted by depth, an entry of strictly smaller depth stands before -/
theorem before_of_sorted (l : Depths α) (hs : l.Pairwise fun a b => a.2 ≤ b.2) (n c : α) (d dc : Nat)
    (hn : (n, d) ∈ l) (hc : (c, dc) ∈ l) (hlt : dc < d) :
    ∃ pre post, l = pre ++ (n, d) :: post ∧ (c, dc) ∈ pre := by
  obtain ⟨pre, post, rfl⟩ := List.append_of_mem hn
  refine ⟨pre, post, rfl, ?_⟩
  rcases List.mem_append.mp hc with h | h
  · exact h
  · rcases List.mem_cons.mp h with h | h
    · cases h; omega
    · have := (List.pairwise_cons.mp (List.pairwise_append.mp hs).2.1).1 (c, dc) h
      simp only at this; omega

/-! ### walks -/

omit [DecidableEq α] in
theorem walkAll_isSome {β : Type} (f : α → Option β) (cs : List α) (h : ∀ c ∈ cs, (f c).isSome) : (walkAll f cs).isSome := by
  induction cs with
  | nil => rfl
  | cons c cs ih =>
    obtain ⟨a, ha⟩ := Option.isSome_iff_exists.mp (h c (List.mem_cons_self ..))
    obtain ⟨b, hb⟩ := Option.isSome_iff_exists.mp (ih fun x hx => h x (List.mem_cons_of_mem _ hx))
    simp [walkAll, ha, hb]

omit [DecidableEq α] in
theorem walkAll_congr {β : Type} (f f' : α → Option β) (cs : List α) (h : ∀ c ∈ cs, f c = f' c) : walkAll f cs = walkAll f' cs := by
  induction cs with
  | nil => rfl
  | cons c cs ih =>
    simp only [walkAll]
    rw [h c (List.mem_cons_self ..), ih fun x hx => h x (List.mem_cons_of_mem _ hx)]

omit [DecidableEq α] in
theorem walkAll_none_of_mem {β : Type} (f : α → Option β) (cs : List α) (c : α) (hc : c ∈ cs) (h : f c = none) : walkAll f cs = none := by
  induction cs with
  | nil => simp at hc
  | cons x cs ih =>
    simp only [walkAll]
    rcases List.mem_cons.mp hc with hc | hc
    · subst hc; rw [h]
    · rw [ih hc]; cases f x <;> rfl

/-- with a rank function, fuel `rank n + 1` is enough for the walk from `n` to return -/
theorem walk_isSome_of_rank {β : Type} (leaf : α → β) (node : α → List β → β) (g : Graph α) (rank : α → Nat)
    (hrank : ∀ n c, c ∈ compsOf g n → rank c < rank n) :
    ∀ (fuel : Nat) (n : α), rank n < fuel → (walk leaf node fuel g n).isSome := by
  intro fuel
  induction fuel with
  | zero => intro n h; omega
  | succ fuel ih =>
    intro n h
    simp only [walk]
    split
    · rfl
    · rename_i c cs hcs
      have : (walkAll (fun x => walk leaf node fuel g x) (c :: cs)).isSome := by
        apply walkAll_isSome
        intro x hx
        apply ih
        have := hrank n x (hcs ▸ hx)
        omega
      obtain ⟨r, hr⟩ := Option.isSome_iff_exists.mp this
      simp [hr]

omit [DecidableEq α] in
theorem walkAll_mono {β : Type} (f f' : α → Option β) (hf : ∀ c r, f c = some r → f' c = some r) :
    ∀ (cs : List α) (rs : List β), walkAll f cs = some rs → walkAll f' cs = some rs := by
  intro cs
  induction cs with
  | nil => intro rs h; exact h
  | cons c cs ih =>
    intro rs h
    simp only [walkAll] at h ⊢
    cases hc : f c with
    | none => rw [hc] at h; simp at h
    | some a =>
      cases hcs : walkAll f cs with
      | none => rw [hc, hcs] at h; simp at h
      | some b =>
        rw [hc, hcs] at h
        rw [hf c a hc, ih b hcs]; exact h

theorem walk_succ {β : Type} (leaf : α → β) (node : α → List β → β) (fuel : Nat) (g : Graph α) (n : α) :
    walk leaf node (fuel + 1) g n =
      match compsOf g n with
      | [] => some (leaf n)
      | c :: cs => (walkAll (fun x => walk leaf node fuel g x) (c :: cs)).map (node n) := rfl

/-- more fuel does not change a result -/
theorem walk_mono {β : Type} (leaf : α → β) (node : α → List β → β) (g : Graph α) :
    ∀ (fuel : Nat) (n : α) (r : β), walk leaf node fuel g n = some r → walk leaf node (fuel + 1) g n = some r := by
  intro fuel
  induction fuel with
  | zero => intro n r h; simp [walk] at h
  | succ fuel ih =>
    intro n r h
    cases hcs : compsOf g n with
    | nil => rw [walk_succ] at h ⊢; simp only [hcs] at h ⊢; exact h
    | cons c cs =>
      rw [walk_succ] at h ⊢
      simp only [hcs] at h ⊢
      cases hw : walkAll (fun x => walk leaf node fuel g x) (c :: cs) with
      | none => rw [hw] at h; simp at h
      | some rs =>
        rw [hw] at h
        rw [walkAll_mono _ (fun x => walk leaf node (fuel + 1) g x) (fun c r => ih c r) _ _ hw]
        exact h

theorem walk_mono_le {β : Type} (leaf : α → β) (node : α → List β → β) (g : Graph α) (fuel fuel' : Nat) (hle : fuel ≤ fuel')
    (n : α) (r : β) (h : walk leaf node fuel g n = some r) : walk leaf node fuel' g n = some r := by
  induction hle with
  | refl => exact h
  | step _ ih => exact walk_mono leaf node g _ n r ih

/-- a set of glyphs each of which has a component in the set: no walk from inside ever returns -/
theorem walk_none_of_closed {β : Type} (leaf : α → β) (node : α → List β → β) (g : Graph α) (P : α → Prop)
    (hP : ∀ n, P n → ∃ c ∈ compsOf g n, P c) :
    ∀ (fuel : Nat) (n : α), P n → walk leaf node fuel g n = none := by
  intro fuel
  induction fuel with
  | zero => intro n _; rfl
  | succ fuel ih =>
    intro n hn
    obtain ⟨c, hc, hpc⟩ := hP n hn
    simp only [walk]
    split
    · rename_i hcs; rw [hcs] at hc; simp at hc
    · rename_i c' cs hcs
      rw [walkAll_none_of_mem _ _ c (hcs ▸ hc) (ih c hpc)]
      rfl

end Fontc.CompGraph
