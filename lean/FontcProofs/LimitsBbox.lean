/-
  Helper lemmas for C17: head bbox union, composite bounding boxes, loca offsets.
-/
import FontcModel.Limits
import FontcProofs.LimitsMetrics
import FontcProofs.LimitsMaxp

namespace Fontc.Limits

/-! ### head bbox = union of glyph boxes -/

theorem optUnion_xMin (o : Option Box) (b : Box) : (optUnion o b).map Box.xMin = optMin (o.map Box.xMin) b.xMin := by
  cases o <;> simp [optUnion, optMin, Box.union]
theorem optUnion_yMin (o : Option Box) (b : Box) : (optUnion o b).map Box.yMin = optMin (o.map Box.yMin) b.yMin := by
  cases o <;> simp [optUnion, optMin, Box.union]
theorem optUnion_xMax (o : Option Box) (b : Box) : (optUnion o b).map Box.xMax = optMax (o.map Box.xMax) b.xMax := by
  cases o <;> simp [optUnion, optMax, Box.union]
theorem optUnion_yMax (o : Option Box) (b : Box) : (optUnion o b).map Box.yMax = optMax (o.map Box.yMax) b.yMax := by
  cases o <;> simp [optUnion, optMax, Box.union]

theorem foldl_optUnion_xMin (bs : List Box) (o : Option Box) :
    (bs.foldl optUnion o).map Box.xMin = (bs.map Box.xMin).foldl optMin (o.map Box.xMin) := by
  induction bs generalizing o with
  | nil => simp
  | cons b bs ih => simp only [List.foldl_cons, List.map_cons, ih, optUnion_xMin]
theorem foldl_optUnion_yMin (bs : List Box) (o : Option Box) :
    (bs.foldl optUnion o).map Box.yMin = (bs.map Box.yMin).foldl optMin (o.map Box.yMin) := by
  induction bs generalizing o with
  | nil => simp
  | cons b bs ih => simp only [List.foldl_cons, List.map_cons, ih, optUnion_yMin]
theorem foldl_optUnion_xMax (bs : List Box) (o : Option Box) :
    (bs.foldl optUnion o).map Box.xMax = (bs.map Box.xMax).foldl optMax (o.map Box.xMax) := by
  induction bs generalizing o with
  | nil => simp
  | cons b bs ih => simp only [List.foldl_cons, List.map_cons, ih, optUnion_xMax]
theorem foldl_optUnion_yMax (bs : List Box) (o : Option Box) :
    (bs.foldl optUnion o).map Box.yMax = (bs.map Box.yMax).foldl optMax (o.map Box.yMax) := by
  induction bs generalizing o with
  | nil => simp
  | cons b bs ih => simp only [List.foldl_cons, List.map_cons, ih, optUnion_yMax]

theorem getD_zero_xMin (o : Option Box) : (o.getD Box.zero).xMin = (o.map Box.xMin).getD 0 := by
  cases o <;> simp [Box.zero]
theorem getD_zero_yMin (o : Option Box) : (o.getD Box.zero).yMin = (o.map Box.yMin).getD 0 := by
  cases o <;> simp [Box.zero]
theorem getD_zero_xMax (o : Option Box) : (o.getD Box.zero).xMax = (o.map Box.xMax).getD 0 := by
  cases o <;> simp [Box.zero]
theorem getD_zero_yMax (o : Option Box) : (o.getD Box.zero).yMax = (o.map Box.yMax).getD 0 := by
  cases o <;> simp [Box.zero]

theorem headBbox_eq (gs : List Glyph) :
    headBbox gs = ((gs.filterMap (·.bbox)).foldl optUnion none).getD Box.zero := by
  simp [headBbox, maxBuilderOf, foldl_update_bbox]

/-! ### composite bounding boxes -/

/-- bounding rectangle of a point list, folded the way `bbox_of_composite` folds -/
def ptsRect (acc : Option Rect) (pts : List (Rat × Rat)) : Option Rect :=
  pts.foldl (fun a p => some (Rect.addPt a p)) acc

theorem ptsRect_append (acc : Option Rect) (xs ys : List (Rat × Rat)) :
    ptsRect acc (xs ++ ys) = ptsRect (ptsRect acc xs) ys := by
  simp [ptsRect, List.foldl_append]

theorem ptsRect_some_isSome (a : Rect) (ps : List (Rat × Rat)) : ∃ r, ptsRect (some a) ps = some r := by
  induction ps generalizing a with
  | nil => exact ⟨a, rfl⟩
  | cons p ps ih => simp only [ptsRect, List.foldl_cons]; exact ih _

theorem ptsRect_none_eq_none (ps : List (Rat × Rat)) (h : ptsRect none ps = none) : ps = [] := by
  cases ps with
  | nil => rfl
  | cons p ps =>
    simp only [ptsRect, List.foldl_cons] at h
    obtain ⟨r, hr⟩ := ptsRect_some_isSome (Rect.addPt none p) ps
    simp only [ptsRect] at hr
    rw [hr] at h; cases h

theorem ratMin_assoc (a b c : Rat) : ratMin (ratMin a b) c = ratMin a (ratMin b c) := by
  unfold ratMin; grind
theorem ratMax_assoc (a b c : Rat) : ratMax (ratMax a b) c = ratMax a (ratMax b c) := by
  unfold ratMax; grind

theorem addPt_union (a b : Rect) (p : Rat × Rat) :
    Rect.addPt (some (a.union b)) p = a.union (Rect.addPt (some b) p) := by
  simp [Rect.addPt, Rect.union, ratMin_assoc, ratMax_assoc]

theorem ptsRect_union (a b : Rect) (ps : List (Rat × Rat)) (r : Rect) (h : ptsRect (some b) ps = some r) :
    ptsRect (some (a.union b)) ps = some (a.union r) := by
  induction ps generalizing b with
  | nil => simp [ptsRect] at h ⊢; rw [h]
  | cons p ps ih =>
    simp only [ptsRect, List.foldl_cons] at h ⊢
    rw [addPt_union]
    exact ih _ h

/-- folding points into `some a` = union of `a` with the rectangle of the points alone -/
theorem ptsRect_some_eq_union (a : Rect) (ps : List (Rat × Rat)) (r : Rect) (h : ptsRect none ps = some r) :
    ptsRect (some a) ps = some (a.union r) := by
  cases ps with
  | nil => simp [ptsRect] at h
  | cons p ps =>
    simp only [ptsRect, List.foldl_cons] at h ⊢
    have : Rect.addPt (some a) p = a.union (Rect.addPt none p) := by
      simp [Rect.addPt, Rect.union]
    rw [this]
    exact ptsRect_union a _ ps r h

/-- `bbox_of_composite` computes the bounding rectangle of the resolved outline -/
theorem bboxOfComposite_eq (g : List Shape) (fuel : Nat) (comps : List Component) (t : Affine) (acc : Option Rect) :
    ∀ r, bboxOfComposite g fuel comps t acc = some r → r = ptsRect acc (resolvedPoints g fuel comps t) := by
  induction fuel, comps, t, acc using bboxOfComposite.induct g with
  | case1 fuel t acc =>
    intro r h
    rw [bboxOfComposite] at h
    simp only [Option.some.injEq] at h
    rw [resolvedPoints]
    simp [ptsRect, h]
  | case2 c rest t acc => intro r h; rw [bboxOfComposite] at h; cases h
  | case3 fuel c rest t acc hg => intro r h; rw [bboxOfComposite] at h; simp only [hg] at h; cases h
  | case4 fuel c rest t acc hg ih =>
    intro r h
    rw [bboxOfComposite] at h; simp only [hg] at h
    rw [resolvedPoints]
    simp only [hg, List.nil_append]
    exact ih r h
  | case5 fuel c rest t acc t' contours hg acc' ih =>
    intro r h
    rw [bboxOfComposite] at h; simp only [hg] at h
    rw [resolvedPoints]
    simp only [hg]
    rw [ptsRect_append]
    have hacc : ptsRect acc (contours.flatten.map fun p => (t.mul c.xform).apply (ptToRat p)) = acc' := by
      show List.foldl _ acc (List.map _ _) = List.foldl _ acc _
      rw [List.foldl_map]
    rw [hacc]
    exact ih r h
  | case6 fuel c rest t acc t' comps hg hchild ih1 =>
    intro r h; rw [bboxOfComposite] at h; simp only [hg] at h
    rw [show bboxOfComposite g fuel comps (t.mul c.xform) none = none from hchild] at h
    cases h
  | case7 fuel c rest t acc t' comps hg hchild ih1 ih2 =>
    intro r h
    rw [bboxOfComposite] at h; simp only [hg] at h
    rw [show bboxOfComposite g fuel comps (t.mul c.xform) none = some none from hchild] at h
    simp only at h
    rw [resolvedPoints]
    simp only [hg]
    rw [ptsRect_append]
    have h1 := ih1 none hchild
    have hnil := ptsRect_none_eq_none _ h1.symm
    rw [show resolvedPoints g fuel comps (t.mul c.xform) = [] from hnil]
    simp only [ptsRect, List.foldl_nil]
    exact ih2 r h
  | case8 fuel c rest t acc t' comps hg child hchild acc' ih1 ih2 =>
    intro r h
    rw [bboxOfComposite] at h; simp only [hg] at h
    rw [show bboxOfComposite g fuel comps (t.mul c.xform) none = some (some child) from hchild] at h
    simp only at h
    rw [resolvedPoints]
    simp only [hg]
    rw [ptsRect_append]
    have h1 := ih1 (some child) hchild
    have hacc : ptsRect acc (resolvedPoints g fuel comps (t.mul c.xform)) = acc' := by
      cases acc with
      | none => exact h1.symm
      | some a => exact ptsRect_some_eq_union a _ child h1.symm
    rw [hacc]
    exact ih2 r h

/-! projections of `ptsRect` -/

def ratOptMin (o : Option Rat) (x : Rat) : Option Rat :=
  match o with
  | some v => some (ratMin v x)
  | none => some x
def ratOptMax (o : Option Rat) (x : Rat) : Option Rat :=
  match o with
  | some v => some (ratMax v x)
  | none => some x

theorem ptsRect_x0 (o : Option Rect) (ps : List (Rat × Rat)) :
    (ptsRect o ps).map Rect.x0 = (ps.map Prod.fst).foldl ratOptMin (o.map Rect.x0) := by
  induction ps generalizing o with
  | nil => simp [ptsRect]
  | cons p ps ih =>
    simp only [ptsRect, List.foldl_cons, List.map_cons] at ih ⊢
    rw [ih]; cases o <;> simp [Rect.addPt, ratOptMin]
theorem ptsRect_y0 (o : Option Rect) (ps : List (Rat × Rat)) :
    (ptsRect o ps).map Rect.y0 = (ps.map Prod.snd).foldl ratOptMin (o.map Rect.y0) := by
  induction ps generalizing o with
  | nil => simp [ptsRect]
  | cons p ps ih =>
    simp only [ptsRect, List.foldl_cons, List.map_cons] at ih ⊢
    rw [ih]; cases o <;> simp [Rect.addPt, ratOptMin]
theorem ptsRect_x1 (o : Option Rect) (ps : List (Rat × Rat)) :
    (ptsRect o ps).map Rect.x1 = (ps.map Prod.fst).foldl ratOptMax (o.map Rect.x1) := by
  induction ps generalizing o with
  | nil => simp [ptsRect]
  | cons p ps ih =>
    simp only [ptsRect, List.foldl_cons, List.map_cons] at ih ⊢
    rw [ih]; cases o <;> simp [Rect.addPt, ratOptMax]
theorem ptsRect_y1 (o : Option Rect) (ps : List (Rat × Rat)) :
    (ptsRect o ps).map Rect.y1 = (ps.map Prod.snd).foldl ratOptMax (o.map Rect.y1) := by
  induction ps generalizing o with
  | nil => simp [ptsRect]
  | cons p ps ih =>
    simp only [ptsRect, List.foldl_cons, List.map_cons] at ih ⊢
    rw [ih]; cases o <;> simp [Rect.addPt, ratOptMax]

theorem foldl_ratOptMin_some (xs : List Rat) (v0 : Rat) :
    ∃ v, xs.foldl ratOptMin (some v0) = some v ∧ v ≤ v0 ∧ (∀ x ∈ xs, v ≤ x) ∧ (v = v0 ∨ v ∈ xs) := by
  induction xs generalizing v0 with
  | nil => exact ⟨v0, rfl, Rat.le_refl, by simp, Or.inl rfl⟩
  | cons x xs ih =>
    simp only [List.foldl_cons, ratOptMin]
    obtain ⟨v, hv, h1, h2, h3⟩ := ih (ratMin v0 x)
    refine ⟨v, hv, ?_, ?_, ?_⟩
    · unfold ratMin at h1; grind
    · intro y hy
      rcases List.mem_cons.1 hy with rfl | hy
      · unfold ratMin at h1; grind
      · exact h2 y hy
    · rcases h3 with h3 | h3
      · unfold ratMin at h3
        by_cases hx : v0 ≤ x
        · left; simp [hx] at h3; exact h3
        · right; simp [hx] at h3; exact List.mem_cons.2 (Or.inl h3)
      · right; exact List.mem_cons_of_mem _ h3

theorem foldl_ratOptMax_some (xs : List Rat) (v0 : Rat) :
    ∃ v, xs.foldl ratOptMax (some v0) = some v ∧ v0 ≤ v ∧ (∀ x ∈ xs, x ≤ v) ∧ (v = v0 ∨ v ∈ xs) := by
  induction xs generalizing v0 with
  | nil => exact ⟨v0, rfl, Rat.le_refl, by simp, Or.inl rfl⟩
  | cons x xs ih =>
    simp only [List.foldl_cons, ratOptMax]
    obtain ⟨v, hv, h1, h2, h3⟩ := ih (ratMax v0 x)
    refine ⟨v, hv, ?_, ?_, ?_⟩
    · unfold ratMax at h1; grind
    · intro y hy
      rcases List.mem_cons.1 hy with rfl | hy
      · unfold ratMax at h1; grind
      · exact h2 y hy
    · rcases h3 with h3 | h3
      · unfold ratMax at h3
        by_cases hx : v0 ≤ x
        · right; simp [hx] at h3; exact List.mem_cons.2 (Or.inl h3)
        · left; simp [hx] at h3; exact h3
      · right; exact List.mem_cons_of_mem _ h3

/-- least element of a non-empty list of rationals, attained -/
theorem foldl_ratOptMin_none (xs : List Rat) (v : Rat) (h : xs.foldl ratOptMin none = some v) :
    (∀ x ∈ xs, v ≤ x) ∧ v ∈ xs := by
  cases xs with
  | nil => simp at h
  | cons x xs =>
    simp only [List.foldl_cons, ratOptMin] at h
    obtain ⟨w, hw, h1, h2, h3⟩ := foldl_ratOptMin_some xs x
    rw [hw] at h; cases h
    refine ⟨?_, ?_⟩
    · intro y hy
      rcases List.mem_cons.1 hy with rfl | hy
      · exact h1
      · exact h2 y hy
    · rcases h3 with rfl | h3
      · exact List.mem_cons_self
      · exact List.mem_cons_of_mem _ h3

theorem foldl_ratOptMax_none (xs : List Rat) (v : Rat) (h : xs.foldl ratOptMax none = some v) :
    (∀ x ∈ xs, x ≤ v) ∧ v ∈ xs := by
  cases xs with
  | nil => simp at h
  | cons x xs =>
    simp only [List.foldl_cons, ratOptMax] at h
    obtain ⟨w, hw, h1, h2, h3⟩ := foldl_ratOptMax_some xs x
    rw [hw] at h; cases h
    refine ⟨?_, ?_⟩
    · intro y hy
      rcases List.mem_cons.1 hy with rfl | hy
      · exact h1
      · exact h2 y hy
    · rcases h3 with rfl | h3
      · exact List.mem_cons_self
      · exact List.mem_cons_of_mem _ h3

/-- the rectangle of a point list is its exact bounds -/
theorem ptsRect_bounds (ps : List (Rat × Rat)) (r : Rect) (h : ptsRect none ps = some r) :
    ((∀ x ∈ ps.map Prod.fst, r.x0 ≤ x) ∧ r.x0 ∈ ps.map Prod.fst) ∧
    ((∀ y ∈ ps.map Prod.snd, r.y0 ≤ y) ∧ r.y0 ∈ ps.map Prod.snd) ∧
    ((∀ x ∈ ps.map Prod.fst, x ≤ r.x1) ∧ r.x1 ∈ ps.map Prod.fst) ∧
    ((∀ y ∈ ps.map Prod.snd, y ≤ r.y1) ∧ r.y1 ∈ ps.map Prod.snd) := by
  have hx0 := ptsRect_x0 none ps
  have hy0 := ptsRect_y0 none ps
  have hx1 := ptsRect_x1 none ps
  have hy1 := ptsRect_y1 none ps
  rw [h] at hx0 hy0 hx1 hy1
  simp only [Option.map_some, Option.map_none] at hx0 hy0 hx1 hy1
  exact ⟨foldl_ratOptMin_none _ _ hx0.symm, foldl_ratOptMin_none _ _ hy0.symm,
         foldl_ratOptMax_none _ _ hx1.symm, foldl_ratOptMax_none _ _ hy1.symm⟩

/-! ### loca -/

def prefixSums (pos : Nat) : List Nat → List Nat
  | [] => []
  | s :: rest => (pos + s) :: prefixSums (pos + s) rest

theorem locaOffsets_fold (sizes : List Nat) (acc : List Nat) (pos : Nat) :
    (sizes.foldl (fun (a : List Nat × Nat) s => (a.1 ++ [a.2 + s], a.2 + s)) (acc, pos)) =
      (acc ++ prefixSums pos sizes, pos + sizes.sum) := by
  induction sizes generalizing acc pos with
  | nil => simp [prefixSums]
  | cons s rest ih =>
    simp only [List.foldl_cons, ih, prefixSums, List.sum_cons, List.append_assoc, List.singleton_append]
    simp [Nat.add_assoc]

theorem locaOffsets_eq (sizes : List Nat) : locaOffsets sizes = 0 :: prefixSums 0 sizes := by
  simp [locaOffsets, locaOffsets_fold]

theorem prefixSums_le (pos : Nat) (sizes : List Nat) : ∀ o ∈ prefixSums pos sizes, o ≤ pos + sizes.sum := by
  induction sizes generalizing pos with
  | nil => simp [prefixSums]
  | cons s rest ih =>
    intro o ho
    simp only [prefixSums, List.mem_cons, List.sum_cons] at ho ⊢
    rcases ho with rfl | ho
    · omega
    · have := ih (pos + s) o ho; omega

theorem prefixSums_getLast? (pos : Nat) (sizes : List Nat) :
    ((pos :: prefixSums pos sizes).getLast?) = some (pos + sizes.sum) := by
  induction sizes generalizing pos with
  | nil => simp [prefixSums]
  | cons s rest ih =>
    simp only [prefixSums, List.sum_cons]
    rw [List.getLast?_cons_cons, ih]
    simp [Nat.add_assoc]

theorem prefixSums_even (pos : Nat) (sizes : List Nat) (hp : pos % 2 = 0) :
    (∀ o ∈ prefixSums pos sizes, o % 2 = 0) ↔ (∀ s ∈ sizes, s % 2 = 0) := by
  induction sizes generalizing pos with
  | nil => simp [prefixSums]
  | cons s rest ih =>
    simp only [prefixSums, List.mem_cons, forall_eq_or_imp]
    constructor
    · rintro ⟨h1, h2⟩
      have hs : s % 2 = 0 := by omega
      exact ⟨hs, (ih (pos + s) h1).1 h2⟩
    · rintro ⟨h1, h2⟩
      have : (pos + s) % 2 = 0 := by omega
      exact ⟨this, (ih (pos + s) this).2 h2⟩

/-- consecutive differences of the offsets are the glyph sizes -/
def diffs : List Nat → List Nat
  | a :: b :: rest => (b - a) :: diffs (b :: rest)
  | _ => []

theorem diffs_prefixSums (pos : Nat) (sizes : List Nat) : diffs (pos :: prefixSums pos sizes) = sizes := by
  induction sizes generalizing pos with
  | nil => simp [prefixSums, diffs]
  | cons s rest ih =>
    simp only [prefixSums, diffs]
    rw [ih]; simp

end Fontc.Limits
