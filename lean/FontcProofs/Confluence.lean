/-
  Lemmas for FontcModel/Confluence.lean: independent jobs commute, adjacent independent jobs can be swapped anywhere
  in a schedule, and two schedules that order all conflicting pairs identically end in the same store.
-/
import FontcModel.Confluence

namespace Fontc.Confluence

variable {Val : Type}

/-! ## writes -/

theorem lastWrite_none_of_not_mem {ws : List (Item × Val)} {x : Item} (h : ∀ p ∈ ws, p.1 ≠ x) :
    lastWrite ws x = none := by
  induction ws with
  | nil => rfl
  | cons p ws ih =>
    obtain ⟨i, v⟩ := p
    have h1 : i ≠ x := h (i, v) (by simp)
    have h2 := ih (fun p hp => h p (by simp [hp]))
    simp [lastWrite, h2, h1]

theorem mem_of_lastWrite_some {ws : List (Item × Val)} {x : Item} {v : Val} (h : lastWrite ws x = some v) :
    ∃ p ∈ ws, p.1 = x := by
  apply Classical.byContradiction
  intro hn
  have : lastWrite ws x = none := lastWrite_none_of_not_mem (fun p hp hx => hn ⟨p, hp, hx⟩)
  simp [this] at h

/-- a well-formed job does not touch an item outside its write set -/
theorem exec_of_not_mem_writes {j : Job Val} (wf : WF j) (s : Store Val) {x : Item} (hx : x ∉ j.writes) :
    exec j s x = s x := by
  have : lastWrite (j.run s) x = none :=
    lastWrite_none_of_not_mem (fun p hp hpx => hx (hpx ▸ wf.writes_only s p hp))
  simp [exec, Store.write, this]

theorem lastWrite_run_mem_writes {j : Job Val} (wf : WF j) {s : Store Val} {x : Item} {v : Val}
    (h : lastWrite (j.run s) x = some v) : x ∈ j.writes := by
  obtain ⟨p, hp, hpx⟩ := mem_of_lastWrite_some h
  exact hpx ▸ wf.writes_only s p hp

/-! ## conflicts -/

theorem meets_false {l₁ l₂ : List Item} (h : meets l₁ l₂ = false) {x : Item} (h1 : x ∈ l₁) (h2 : x ∈ l₂) : False := by
  simp only [meets, List.any_eq_false, List.contains_iff_mem] at h
  exact h x h1 h2

theorem conflict_comm (j k : Job Val) : conflict j k = conflict k j := by
  simp [conflict, Bool.or_comm]

theorem indep_symm {j k : Job Val} (h : indep j k) : indep k j := by
  unfold indep at *; rw [conflict_comm]; exact h

theorem indep_writes_reads {j k : Job Val} (h : indep j k) {x : Item} (h1 : x ∈ j.writes) (h2 : x ∈ k.reads) : False := by
  simp only [indep, conflict, Bool.or_eq_false_iff] at h
  exact meets_false h.1 h1 (by simp [h2])

theorem indep_writes_writes {j k : Job Val} (h : indep j k) {x : Item} (h1 : x ∈ j.writes) (h2 : x ∈ k.writes) : False := by
  simp only [indep, conflict, Bool.or_eq_false_iff] at h
  exact meets_false h.1 h1 (by simp [h2])

/-- running an independent job first does not change what a job computes -/
theorem run_exec_of_indep {j k : Job Val} (wj : WF j) (wk : WF k) (h : indep j k) (s : Store Val) :
    k.run (exec j s) = k.run s :=
  wk.reads_only _ _ (fun _ hi => exec_of_not_mem_writes wj s (fun hw => indep_writes_reads h hw hi))

/-! ## (1) independent jobs commute -/

theorem exec_comm {j k : Job Val} (wj : WF j) (wk : WF k) (h : indep j k) (s : Store Val) :
    exec k (exec j s) = exec j (exec k s) := by
  funext x
  have hk := run_exec_of_indep wj wk h s
  have hj := run_exec_of_indep wk wj (indep_symm h) s
  show (exec j s).write (k.run (exec j s)) x = (exec k s).write (j.run (exec k s)) x
  rw [hk, hj]
  simp only [Store.write, exec]
  cases hkx : lastWrite (k.run s) x with
  | none => cases hjx : lastWrite (j.run s) x <;> simp
  | some v =>
    cases hjx : lastWrite (j.run s) x with
    | none => simp
    | some w =>
      exact (indep_writes_writes h (lastWrite_run_mem_writes wj hjx) (lastWrite_run_mem_writes wk hkx)).elim

/-! ## (2) swapping adjacent independent jobs -/

theorem execAll_nil (s : Store Val) : execAll [] s = s := rfl

theorem execAll_cons (j : Job Val) (l : List (Job Val)) (s : Store Val) :
    execAll (j :: l) s = execAll l (exec j s) := rfl

theorem execAll_append (l₁ l₂ : List (Job Val)) (s : Store Val) :
    execAll (l₁ ++ l₂) s = execAll l₂ (execAll l₁ s) := by
  simp [execAll, List.foldl_append]

theorem execAll_swap {j k : Job Val} (wj : WF j) (wk : WF k) (h : indep j k) (pre post : List (Job Val))
    (s : Store Val) : execAll (pre ++ j :: k :: post) s = execAll (pre ++ k :: j :: post) s := by
  simp only [execAll_append, execAll_cons, exec_comm wj wk h]

/-- a job that is independent of everything in front of it can be moved to the front -/
theorem execAll_bubble {j : Job Val} (wj : WF j) (a b : List (Job Val)) (wa : ∀ x ∈ a, WF x)
    (ha : ∀ x ∈ a, indep x j) (s : Store Val) : execAll (a ++ j :: b) s = execAll (j :: (a ++ b)) s := by
  induction a generalizing s with
  | nil => rfl
  | cons x a ih =>
    have hx : indep x j := ha x (by simp)
    have wx : WF x := wa x (by simp)
    have := ih (fun y hy => wa y (by simp [hy])) (fun y hy => ha y (by simp [hy])) (exec x s)
    simp only [List.cons_append, execAll_cons] at this ⊢
    rw [this, exec_comm wx wj hx]

/-! ## order of a schedule -/

theorem ids_cons (j : Job Val) (l : List (Job Val)) : ids (j :: l) = j.id :: ids l := rfl

theorem ids_append (a b : List (Job Val)) : ids (a ++ b) = ids a ++ ids b := by simp [ids]

theorem id_mem_ids {j : Job Val} {l : List (Job Val)} (h : j ∈ l) : j.id ∈ ids l :=
  List.mem_map.2 ⟨j, h, rfl⟩

/-- `[a,b] <+ x :: t` when `x` does not occur in `t` -/
theorem pair_sublist_cons {x a b : Nat} {t : List Nat} :
    [a, b].Sublist (x :: t) ↔ [a, b].Sublist t ∨ (a = x ∧ b ∈ t) := by
  rw [List.sublist_cons_iff]
  constructor
  · rintro (h | ⟨r, hr, hs⟩)
    · exact .inl h
    · simp only [List.cons.injEq] at hr
      obtain ⟨rfl, rfl⟩ := hr
      exact .inr ⟨rfl, List.singleton_sublist.1 hs⟩
  · rintro (h | ⟨rfl, hb⟩)
    · exact .inl h
    · exact .inr ⟨[b], rfl, List.singleton_sublist.2 hb⟩

/-- removing an element that is not in `l` from the middle of a list keeps `l` a sublist -/
theorem sublist_remove_middle {l a b : List Nat} {x : Nat} (hx : x ∉ l) :
    l.Sublist (a ++ x :: b) ↔ l.Sublist (a ++ b) := by
  constructor
  · intro h
    obtain ⟨l1, l2, rfl, h1, h2⟩ := List.sublist_append_iff.1 h
    have h2' : l2.Sublist b := by
      rcases List.sublist_cons_iff.1 h2 with h2 | ⟨r, rfl, _⟩
      · exact h2
      · exact (hx (by simp)).elim
    exact List.Sublist.append h1 h2'
  · intro h
    exact h.trans (List.Sublist.append (List.Sublist.refl a) (List.sublist_cons_self x b))

/-- in a schedule with distinct ids no pair runs in both orders -/
theorem before_asymm {l : List (Job Val)} (nd : (ids l).Nodup) {j k : Job Val} (h1 : Before l j k) (h2 : Before l k j) :
    False := by
  unfold Before at h1 h2
  generalize ids l = L at nd h1 h2
  generalize j.id = a at h1 h2
  generalize k.id = b at h1 h2
  induction L with
  | nil => simp at h1
  | cons x t ih =>
    have hxt : x ∉ t := (List.nodup_cons.1 nd).1
    rcases pair_sublist_cons.1 h1 with g1 | ⟨rfl, hb⟩
    · rcases pair_sublist_cons.1 h2 with g2 | ⟨rfl, ha⟩
      · exact ih (List.nodup_cons.1 nd).2 g1 g2
      · exact hxt (g1.subset (List.mem_cons_of_mem _ List.mem_cons_self))
    · rcases pair_sublist_cons.1 h2 with g2 | ⟨rfl, _⟩
      · exact hxt (g2.subset (List.mem_cons_of_mem _ List.mem_cons_self))
      · exact hxt hb

/-! ## (3) schedules that order all conflicting pairs identically are equivalent -/

theorem schedule_independent (l₁ l₂ : List (Job Val)) (wf : ∀ j ∈ l₁, WF j) (perm : l₁.Perm l₂)
    (nd : (ids l₁).Nodup) (same : SameConflictOrder l₁ l₂) (s : Store Val) :
    execAll l₁ s = execAll l₂ s := by
  induction l₁ generalizing l₂ s with
  | nil => rw [List.nil_perm.1 perm]
  | cons j t ih =>
    have hjt : j.id ∉ ids t := (List.nodup_cons.1 nd).1
    have ndt : (ids t).Nodup := (List.nodup_cons.1 nd).2
    obtain ⟨a, b, rfl⟩ := List.append_of_mem (perm.subset (List.mem_cons_self))
    have permt : t.Perm (a ++ b) := (perm.trans List.perm_middle).cons_inv
    have nd₂ : (ids (a ++ j :: b)).Nodup := (perm.map _).nodup_iff.1 nd
    -- every job in front of `j` in `l₂` is independent of `j`
    have hind : ∀ x ∈ a, indep x j := by
      intro x hx
      apply Classical.byContradiction
      intro hc
      have hc : conflict x j = true := by simpa [indep] using hc
      have hxt : x ∈ t := permt.symm.subset (by simp [hx])
      have h2 : Before (a ++ j :: b) x j := by
        unfold Before
        rw [ids_append, ids_cons]
        exact (List.Sublist.append (List.singleton_sublist.2 (id_mem_ids hx))
          ((List.Sublist.refl [j.id]).trans (List.cons_sublist_cons.2 (List.nil_sublist _))))
      have h1 : Before (j :: t) x j := (same x (by simp [hxt]) j (by simp) hc).2 h2
      unfold Before at h1
      rw [ids_cons] at h1
      rcases pair_sublist_cons.1 h1 with h | ⟨_, h⟩
      · exact hjt (h.subset (List.mem_cons_of_mem _ List.mem_cons_self))
      · exact hjt h
    have wa : ∀ x ∈ a, WF x := fun x hx => wf x (by
      have : x ∈ t := permt.symm.subset (by simp [hx])
      simp [this])
    rw [execAll_bubble (wf j (by simp)) a b wa hind, execAll_cons, execAll_cons]
    apply ih (a ++ b) (fun x hx => wf x (by simp [hx])) permt ndt
    -- the tails order conflicting pairs identically
    intro x hx y hy hc
    have hxj : x.id ≠ j.id := fun h => hjt (h ▸ id_mem_ids hx)
    have hyj : y.id ≠ j.id := fun h => hjt (h ▸ id_mem_ids hy)
    have hnot : j.id ∉ [x.id, y.id] := by simp [Ne.symm hxj, Ne.symm hyj]
    have := same x (by simp [hx]) y (by simp [hy]) hc
    unfold Before at this ⊢
    rw [ids_cons, ids_append, ids_cons, sublist_remove_middle hnot, ← ids_append] at this
    rw [← this, pair_sublist_cons]
    constructor
    · exact .inl
    · rintro (h | ⟨h, _⟩)
      · exact h
      · exact (hxj h).elim

/-! ## (4) linearisations of a must-precede order that decides every conflict -/

theorem sameConflictOrder_of_respects {mustPrecede : Job Val → Job Val → Prop} {l₁ l₂ : List (Job Val)}
    (perm : l₁.Perm l₂) (nd : (ids l₁).Nodup)
    (total : ∀ j ∈ l₁, ∀ k ∈ l₁, j.id ≠ k.id → conflict j k = true → mustPrecede j k ∨ mustPrecede k j)
    (r₁ : Respects mustPrecede l₁) (r₂ : Respects mustPrecede l₂) : SameConflictOrder l₁ l₂ := by
  have nd₂ : (ids l₂).Nodup := (perm.map _).nodup_iff.1 nd
  intro j hj k hk hc
  by_cases hid : j.id = k.id
  · -- a job is never before itself
    have no : ∀ l : List (Job Val), (ids l).Nodup → ¬ Before l j k := by
      intro l ndl h
      have h' : Before l k j := by simpa [Before, hid] using h
      exact before_asymm ndl h h'
    exact ⟨fun h => (no l₁ nd h).elim, fun h => (no l₂ nd₂ h).elim⟩
  · rcases total j hj k hk hid hc with h | h
    · exact ⟨fun _ => r₂ j (perm.subset hj) k (perm.subset hk) h, fun _ => r₁ j hj k hk h⟩
    · have b₁ := r₁ k hk j hj h
      have b₂ := r₂ k (perm.subset hk) j (perm.subset hj) h
      exact ⟨fun h' => (before_asymm nd h' b₁).elim, fun h' => (before_asymm nd₂ h' b₂).elim⟩

theorem final_store_schedule_independent (mustPrecede : Job Val → Job Val → Prop) (l₁ l₂ : List (Job Val))
    (wf : ∀ j ∈ l₁, WF j) (perm : l₁.Perm l₂) (nd : (ids l₁).Nodup)
    (total : ∀ j ∈ l₁, ∀ k ∈ l₁, j.id ≠ k.id → conflict j k = true → mustPrecede j k ∨ mustPrecede k j)
    (r₁ : Respects mustPrecede l₁) (r₂ : Respects mustPrecede l₂) (s : Store Val) :
    execAll l₁ s = execAll l₂ s :=
  schedule_independent l₁ l₂ wf perm nd (sameConflictOrder_of_respects perm nd total r₁ r₂) s

end Fontc.Confluence
