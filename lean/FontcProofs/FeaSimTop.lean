/-
  C11 simulation, part 6: the top-level statements of a program whose feature blocks contain only
  `lookupflag` and rule statements; the invariant between the entries of the source (`Src.entries`)
  and the state of the compilation context.
-/
import FontcProofs.FeaSimFeature

namespace Fontc.FeaCompile
open Cmp
set_option linter.unusedSimpArgs false

/-! ### `upsert`: keys -/

theorem insertBefore_keys_perm {κ β : Type} (lt : κ → κ → Bool) (k : κ) (v : β) (m : List (κ × β)) :
    ((insertBefore lt k v m).map (·.1)).Perm (k :: m.map (·.1)) := by
  induction m with
  | nil => simp [insertBefore]
  | cons p m ih =>
    simp only [insertBefore]
    split
    · simp
    · simp only [List.map_cons]
      exact (List.Perm.cons _ ih).trans (List.Perm.swap _ _ _)

theorem upsert_keys_nodup {κ β : Type} [BEq κ] [LawfulBEq κ] (lt : κ → κ → Bool) (k : κ) (init : β) (f : β → β)
    (m : List (κ × β)) (h : (m.map (·.1)).Nodup) : ((upsert lt k init f m).map (·.1)).Nodup := by
  unfold upsert
  split
  · have : (m.map fun p => if p.1 == k then (p.1, f p.2) else p).map (·.1) = m.map (·.1) := by
      rw [List.map_map]
      apply List.map_congr_left
      intro p _
      simp only [Function.comp]
      split <;> rfl
    rw [this]; exact h
  · rename_i hany
    have hk : k ∉ m.map (·.1) := by
      intro hm
      obtain ⟨p, hp, rfl⟩ := List.mem_map.mp hm
      exact hany (List.any_eq_true.mpr ⟨p, hp, by simp⟩)
    exact (insertBefore_keys_perm lt k (f init) m).nodup_iff.mpr (List.nodup_cons.mpr ⟨hk, h⟩)

/-- the ids registered for a `(feature, script, language)` triple, in declaration order -/
def regIds (es : List Src.Entry) (ids : List LookupId) (reg : Tag × Tag × Tag) : List LookupId :=
  ((es.zip ids).filter fun x => x.1.regs.contains reg).map (·.2)

def entItems (es : List Src.Entry) : List (Src.Reg × Src.Item) := es.map fun e => (.root, .defn e.lookup)

/-- invariant between the source entries so far and the compilation context, between top-level
    statements -/
structure TopInv (fx : Fixes) (U : List (List Glyph)) (dls : List Sys) (es : List Src.Entry) (s : St)
    (ids : List LookupId) : Prop where
  closed : s.cur = none ∧ s.curName = none ∧ s.script = none ∧ s.active = none ∧ s.flag = (0, none)
  dlsOk : ∀ sys, sys ∈ s.defaultSystems ↔ sys ∈ dls
  idsInv : IdsInv s
  attachU : ∀ c ∈ s.attachIds, c ∈ U
  ents : OutRel fx s (entItems es) ids
  ordered : ids.Pairwise idLt
  below : ∀ id ∈ ids, idBelow s id
  featKeys : (s.features.map (·.1)).Nodup
  feats : ∀ tag lang script, (s.features.lookup (tag, lang, script)).getD [] = regIds es ids (tag, script, lang)
  regsUniform : ∀ e ∈ es, ∃ tag, ∀ tag' script lang,
    e.regs.contains (tag', script, lang) = true ↔ tag' = tag ∧ (script, lang) ∈ dls

theorem OutRel.append {fx : Fixes} {s : St} :
    ∀ {items : List (Src.Reg × Src.Item)} {ids : List LookupId}, OutRel fx s items ids →
    ∀ {items' : List (Src.Reg × Src.Item)} {ids' : List LookupId}, OutRel fx s items' ids' →
    OutRel fx s (items ++ items') (ids ++ ids') := by
  intro items
  induction items with
  | nil =>
    intro ids h items' ids' h'
    cases ids with
    | nil => simpa using h'
    | cons _ _ => simp [OutRel] at h
  | cons it items ih =>
    intro ids h items' ids' h'
    obtain ⟨reg, item⟩ := it
    cases item with
    | ref n => cases ids <;> simp [OutRel] at h
    | defn l0 =>
      cases ids with
      | nil => simp [OutRel] at h
      | cons id0 ids =>
        simp only [OutRel, List.cons_append] at h ⊢
        exact ⟨h.1, h.2.1, h.2.2.1, ih h.2.2.2 h'⟩

/-- the source side of a feature block whose items are all anonymous lookups at the root -/
theorem addItems_of_outRel (fx : Fixes) (s : St) (ls : List (Tag × Tag)) (tag : Tag) (body : List Stmt) :
    ∀ (items : List (Src.Reg × Src.Item)) (ids : List LookupId), OutRel fx s items ids → ∀ (es : List Src.Entry),
    ∃ new : List Src.Entry, Src.addItems ls tag body es items = es ++ new ∧ entItems new = items ∧
      ∀ e ∈ new, e.regs = Src.regsFor ls tag body .root := by
  intro items
  induction items with
  | nil => intro ids _ es; exact ⟨[], by simp [Src.addItems], rfl, by simp⟩
  | cons it items ih =>
    intro ids h es
    obtain ⟨reg, item⟩ := it
    cases item with
    | ref n => cases ids <;> simp [OutRel] at h
    | defn l =>
      cases ids with
      | nil => simp [OutRel] at h
      | cons id ids =>
        simp only [OutRel] at h
        obtain ⟨hreg, _, _, hrest⟩ := h
        subst hreg
        obtain ⟨new, h1, h2, h3⟩ := ih ids hrest (es ++ [⟨l, Src.regsFor ls tag body .root⟩])
        refine ⟨⟨l, Src.regsFor ls tag body .root⟩ :: new, ?_, ?_, ?_⟩
        · simp only [Src.addItems, h1, List.append_assoc, List.singleton_append]
        · simp [entItems] at h2 ⊢; exact h2
        · intro e he
          rcases List.mem_cons.mp he with rfl | he
          · rfl
          · exact h3 e he

/-! ### the feature map after a block -/

theorem flatFinish_spec (dls : List Sys) (ids : List LookupId) :
    ((flatFinish dls ids).map (·.1)).Nodup ∧ (∀ x ∈ flatFinish dls ids, x.2 = ids ∧ x.1 ∈ dls) ∧
    ∀ sys ∈ dls, (sys, ids) ∈ flatFinish dls ids := by
  unfold flatFinish
  have : ∀ (dls : List Sys) (acc : List (Sys × List LookupId)),
      (acc.map (·.1)).Nodup → (∀ x ∈ acc, x.2 = ids) →
      let r := dls.foldl (fun ls sys => if ls.any (·.1 == sys) then ls else ls ++ [(sys, ids)]) acc
      (r.map (·.1)).Nodup ∧ (∀ x ∈ r, x.2 = ids ∧ (x ∈ acc ∨ x.1 ∈ dls)) ∧
      (∀ x ∈ acc, x ∈ r) ∧ ∀ sys ∈ dls, (sys, ids) ∈ r := by
    intro dls
    induction dls with
    | nil => intro acc h1 h2; exact ⟨h1, fun x hx => ⟨h2 x hx, Or.inl hx⟩, fun x hx => hx, by simp⟩
    | cons sys dls ih =>
      intro acc h1 h2
      simp only [List.foldl_cons]
      by_cases hany : acc.any (·.1 == sys) = true
      · simp only [hany, ↓reduceIte]
        obtain ⟨r1, r2, r3, r4⟩ := ih acc h1 h2
        refine ⟨r1, fun x hx => ?_, r3, fun y hy => ?_⟩
        · obtain ⟨e, h⟩ := r2 x hx
          exact ⟨e, h.imp id (fun h => List.mem_cons_of_mem _ h)⟩
        · rcases List.mem_cons.mp hy with rfl | hy
          · obtain ⟨p, hp, hpe⟩ := List.any_eq_true.mp hany
            have : p = (y, ids) := by
              have e1 := h2 p hp
              have e2 : p.1 = y := by simpa using hpe
              exact Prod.ext e2 e1
            exact r3 _ (this ▸ hp)
          · exact r4 y hy
      · simp only [hany, Bool.false_eq_true, ↓reduceIte]
        have hk : sys ∉ acc.map (·.1) := by
          intro hm
          obtain ⟨p, hp, rfl⟩ := List.mem_map.mp hm
          exact hany (List.any_eq_true.mpr ⟨p, hp, by simp⟩)
        obtain ⟨r1, r2, r3, r4⟩ := ih (acc ++ [(sys, ids)])
          (by rw [List.map_append]; exact nodup_snoc _ _ h1 hk)
          (by intro x hx; rcases List.mem_append.mp hx with h | h
              · exact h2 x h
              · simp at h; subst h; rfl)
        refine ⟨r1, fun x hx => ?_, fun x hx => r3 x (List.mem_append_left _ hx), fun y hy => ?_⟩
        · obtain ⟨e, h⟩ := r2 x hx
          refine ⟨e, ?_⟩
          rcases h with h | h
          · rcases List.mem_append.mp h with h | h
            · exact Or.inl h
            · simp at h; subst h; exact Or.inr (by simp)
          · exact Or.inr (List.mem_cons_of_mem _ h)
        · rcases List.mem_cons.mp hy with rfl | hy
          · exact r3 _ (by simp)
          · exact r4 y hy
  obtain ⟨r1, r2, _, r4⟩ := this dls [] (by simp) (by simp)
  refine ⟨r1, fun x hx => ?_, r4⟩
  obtain ⟨e, h⟩ := r2 x hx
  exact ⟨e, h.resolve_left (by simp)⟩

theorem lookup_featInsert (k k' : Tag × Tag × Tag) (ls : List LookupId) (m : List ((Tag × Tag × Tag) × List LookupId)) :
    ((featInsert k ls m).lookup k').getD [] = if k' = k then (m.lookup k').getD [] ++ ls else (m.lookup k').getD [] := by
  unfold featInsert
  rw [lookup_upsert]
  by_cases h : k' = k
  · subst h; simp
  · have : (k' == k) = false := by simp [h]
    simp [this, h]

theorem lookup_foldl_featInsert (tag : Tag) (fp : List (Sys × List LookupId)) (m : List ((Tag × Tag × Tag) × List LookupId))
    (key : Tag × Tag × Tag) :
    ((fp.foldl (fun fs (x : Sys × List LookupId) => featInsert (tag, x.1.2, x.1.1) x.2 fs) m).lookup key).getD []
      = (m.lookup key).getD [] ++ ((fp.filter fun x => (tag, x.1.2, x.1.1) = key).flatMap (·.2)) := by
  induction fp generalizing m with
  | nil => simp
  | cons x fp ih =>
    simp only [List.foldl_cons, ih, lookup_featInsert, List.filter_cons]
    by_cases h : (tag, x.1.2, x.1.1) = key
    · simp [h]
    · have h' : ¬ key = (tag, x.1.2, x.1.1) := fun e => h e.symm
      simp [h, h']

theorem featKeys_foldl (tag : Tag) (fp : List (Sys × List LookupId)) (m : List ((Tag × Tag × Tag) × List LookupId))
    (h : (m.map (·.1)).Nodup) :
    ((fp.foldl (fun fs (x : Sys × List LookupId) => featInsert (tag, x.1.2, x.1.1) x.2 fs) m).map (·.1)).Nodup := by
  induction fp generalizing m with
  | nil => exact h
  | cons x fp ih => exact ih _ (upsert_keys_nodup _ _ _ _ _ h)

/-- what a block without `script` / `language` statements adds for a key of the feature map -/
theorem flat_feature_feats (tag : Tag) (dls : List Sys) (ids : List LookupId) (m : List ((Tag × Tag × Tag) × List LookupId))
    (tag' lang script : Tag) :
    (((flatFinish dls ids).foldl (fun fs (x : Sys × List LookupId) => featInsert (tag, x.1.2, x.1.1) x.2 fs) m).lookup
        (tag', lang, script)).getD []
      = (m.lookup (tag', lang, script)).getD [] ++ (if tag' = tag ∧ (script, lang) ∈ dls then ids else []) := by
  rw [lookup_foldl_featInsert]
  congr 1
  obtain ⟨hnd, hall, hmem⟩ := flatFinish_spec dls ids
  by_cases hc : tag' = tag ∧ (script, lang) ∈ dls
  · obtain ⟨rfl, hin⟩ := hc
    simp only [hin, and_self, ↓reduceIte]
    -- exactly one entry of the finished list has this key
    have hx := hmem _ hin
    generalize flatFinish dls ids = fin at hnd hall hx
    induction fin with
    | nil => simp at hx
    | cons y fin ih =>
      simp only [List.map_cons, List.nodup_cons] at hnd
      simp only [List.filter_cons]
      rcases List.mem_cons.mp hx with e | e
      · subst e
        simp only [decide_true, ↓reduceIte, List.flatMap_cons]
        have : fin.filter (fun x => (tag', x.1.2, x.1.1) = (tag', lang, script)) = [] := by
          apply List.filter_eq_nil_iff.mpr
          intro z hz
          simp only [decide_eq_true_eq, Prod.mk.injEq, true_and]
          rintro ⟨e1, e2⟩
          apply hnd.1
          have : z.1 = (script, lang) := Prod.ext e2 e1
          exact List.mem_map.mpr ⟨z, hz, this⟩
        rw [this]; simp
      · have hy : ¬ ((tag', y.1.2, y.1.1) = (tag', lang, script)) := by
          simp only [Prod.mk.injEq, true_and]
          rintro ⟨e1, e2⟩
          apply hnd.1
          have : y.1 = (script, lang) := Prod.ext e2 e1
          rw [this]
          exact List.mem_map.mpr ⟨_, e, rfl⟩
        simp only [hy, decide_false, Bool.false_eq_true, ↓reduceIte]
        exact ih hnd.2 (fun x hx => hall x (List.mem_cons_of_mem _ hx)) e
  · simp only [hc, ↓reduceIte]
    have : (flatFinish dls ids).filter (fun x => (tag, x.1.2, x.1.1) = (tag', lang, script)) = [] := by
      apply List.filter_eq_nil_iff.mpr
      intro z hz
      simp only [decide_eq_true_eq, Prod.mk.injEq]
      rintro ⟨e0, e1, e2⟩
      apply hc
      refine ⟨e0.symm, ?_⟩
      have : z.1 = (script, lang) := Prod.ext e2 e1
      rw [← this]
      exact (hall z hz).2
    rw [this]; simp

/-! ### registration on the source side -/

theorem langStmts_flat (body : List Stmt) (hflat : FlatBody body) (cur : Option Tag) : Src.langStmts cur body = [] := by
  induction body generalizing cur with
  | nil => rfl
  | cons st body ih =>
    have hb := ih (fun st' h => hflat st' (by simp [h]))
    rcases hflat st (by simp) with ⟨f, rfl⟩ | ⟨r, rfl⟩ <;> simp [Src.langStmts, hb]

theorem mem_regsFor_flat (ls : List (Tag × Tag)) (tag : Tag) (body : List Stmt) (hflat : FlatBody body)
    (tag' script lang : Tag) :
    (Src.regsFor ls tag body .root).contains (tag', script, lang) = true ↔ tag' = tag ∧ (script, lang) ∈ ls := by
  simp only [Src.regsFor, Src.allPairs, Src.registered, langStmts_flat body hflat none, List.map_nil, List.append_nil,
    List.any_nil, Bool.not_false, Bool.and_true, List.contains_iff_mem, List.mem_map, List.mem_filter,
    List.mem_eraseDups, Prod.exists, Prod.mk.injEq]
  constructor
  · rintro ⟨s, l, ⟨h1, _⟩, rfl, rfl, rfl⟩
    exact ⟨rfl, h1⟩
  · rintro ⟨rfl, h⟩
    exact ⟨script, lang, ⟨h, h⟩, rfl, rfl, rfl⟩

theorem regIds_append (es new : List Src.Entry) (ids ids' : List LookupId) (h : es.length = ids.length)
    (key : Tag × Tag × Tag) : regIds (es ++ new) (ids ++ ids') key = regIds es ids key ++ regIds new ids' key := by
  simp only [regIds, List.zip_append h, List.filter_append, List.map_append]

theorem regIds_uniform (new : List Src.Entry) (ids : List LookupId) (h : new.length = ids.length)
    (key : Tag × Tag × Tag) (c : Bool) (hc : ∀ e ∈ new, e.regs.contains key = c) :
    regIds new ids key = if c then ids else [] := by
  simp only [regIds]
  induction new generalizing ids with
  | nil => cases ids <;> simp_all
  | cons e new ih =>
    cases ids with
    | nil => simp at h
    | cons id ids =>
      simp only [List.length_cons, Nat.add_right_cancel_iff] at h
      have := ih ids h (fun e' he' => hc e' (by simp [he']))
      simp only [List.zip_cons_cons, List.filter_cons, hc e (by simp)]
      cases c
      · simpa using this
      · simpa using this

theorem entItems_length (es : List Src.Entry) : (entItems es).length = es.length := by simp [entItems]

/-- **A feature block** (only `lookupflag` and rule statements) preserves the invariant. -/
theorem top_feature (fx : Fixes) (U : List (List Glyph)) (dls : List Sys) (ls : List (Tag × Tag))
    (hls : ∀ sys, sys ∈ ls ↔ sys ∈ dls)
    (es : List Src.Entry) (s : St) (ids : List LookupId) (tag : Tag) (body : List Stmt)
    (hinv : TopInv fx U dls es s ids)
    (hflat : FlatBody body) (hflags : FlagsOk U body) (hmix : NoMixFrom {} body) :
    ∃ ids', TopInv fx U dls (Src.addItems ls tag body es (Src.featureItems body)) (s.feature fx tag body) ids' := by
  obtain ⟨idsF, hout, hord, hbel, hgrew, hidsInv, hattU, hcur, hcn, hact, hflag, hscript, hnamed, hlangsys, hfeat⟩ :=
    flat_feature_lookups fx U tag s body ⟨hinv.closed.1, hinv.closed.2.1, hinv.closed.2.2.1⟩ hinv.idsInv hinv.attachU
      hflat hflags hmix
  obtain ⟨new, hadd, hnewItems, hnewRegs⟩ := addItems_of_outRel fx (s.feature fx tag body) ls tag body _ idsF hout es
  have hlenEs : es.length = ids.length := by
    have := hinv.ents.length
    rw [entItems_length] at this
    exact this
  have hlenNew : new.length = idsF.length := by
    have := hout.length
    rw [← hnewItems, entItems_length] at this
    exact this
  refine ⟨ids ++ idsF, {
    closed := ⟨hcur, hcn, hscript, hact, hflag⟩
    dlsOk := by
      intro sys
      have : (s.feature fx tag body).defaultSystems = s.defaultSystems := by simp [St.defaultSystems, hlangsys]
      rw [this]; exact hinv.dlsOk sys
    idsInv := hidsInv
    attachU := hattU
    ents := by
      rw [hadd]
      have : entItems (es ++ new) = entItems es ++ entItems new := by simp [entItems]
      rw [this, hnewItems]
      exact (hinv.ents.mono hgrew).append hout
    ordered := by
      rw [List.pairwise_append]
      refine ⟨hinv.ordered, hord, ?_⟩
      intro a ha b hb
      have h1 := hinv.below a ha
      have h2 := (hbel b hb).2
      cases a <;> cases b <;> simp_all [idLt, idBelow] <;> omega
    below := by
      intro id hid
      rcases List.mem_append.mp hid with h | h
      · exact (hinv.below id h).mono hgrew
      · exact (hbel id h).1
    featKeys := by rw [hfeat]; exact featKeys_foldl tag _ _ hinv.featKeys
    feats := by
      intro tag' lang script
      rw [hfeat, flat_feature_feats, hinv.feats, hadd, regIds_append es new ids idsF hlenEs]
      congr 1
      rw [regIds_uniform new idsF hlenNew (tag', script, lang) (decide (tag' = tag ∧ (script, lang) ∈ s.defaultSystems))]
      · by_cases hc : tag' = tag ∧ (script, lang) ∈ s.defaultSystems <;> simp [hc]
      · intro e he
        rw [hnewRegs e he]
        rw [Bool.eq_iff_iff, mem_regsFor_flat ls tag body hflat, decide_eq_true_iff, hls, ← hinv.dlsOk]
    regsUniform := by
      intro e he
      rw [hadd] at he
      rcases List.mem_append.mp he with h | h
      · exact hinv.regsUniform e h
      · refine ⟨tag, fun tag' script lang => ?_⟩
        rw [hnewRegs e h, mem_regsFor_flat ls tag body hflat, hls] }⟩

end Fontc.FeaCompile
