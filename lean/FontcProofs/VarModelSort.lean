/-
  C07, sorting part: `sortLocs` / `keyFor` / `SortKey.le` (model of `LocationSortingHat` and the
  `sort_by_cached_key` call in `VariationModel::new`, fontdrasil/src/variations.rs).

  B1  `SortKey.le` is total, transitive and antisymmetric; `sortLocs` is a sorted permutation.
  B2  ranks (number of non-zero axes) are non-decreasing along `sortLocs locs`.
  B3  the all-zero location, if present, is first.
  B4  `keyFor pts` is injective on equal-length locations, so the sort (hence `Model.new`) does
      not depend on the order -- in fact only on the set -- of supplied locations.
-/
import FontcModel.VarModel

namespace Fontc.VarModel
open Fontc

/-! ### Lexicographic comparison of lists -/

/-- `lt` is a decidable strict total order. -/
structure StrictTotal {α} (lt : α → α → Bool) : Prop where
  irrefl : ∀ a, lt a a = false
  trans : ∀ a b c, lt a b = true → lt b c = true → lt a c = true
  tri : ∀ a b, lt a b = false → lt b a = false → a = b

theorem StrictTotal.asymm {α} {lt : α → α → Bool} (h : StrictTotal lt) (a b : α) :
    lt a b = true → lt b a = false := by
  intro hab
  cases hba : lt b a
  · rfl
  · have := h.trans a b a hab hba; rw [h.irrefl] at this; cases this

theorem strictTotal_nat : StrictTotal (fun (x y : Nat) => decide (x < y)) :=
  ⟨by simp, by simp; omega, by simp; omega⟩
theorem strictTotal_int : StrictTotal (fun (x y : Int) => decide (x < y)) :=
  ⟨by simp, by simp; omega, by simp; omega⟩
theorem strictTotal_rat : StrictTotal (fun (x y : Rat) => decide (x < y)) :=
  ⟨by simp, by simp; grind, by simp; grind⟩

section Lex
variable {α : Type} {lt : α → α → Bool} (h : StrictTotal lt)
include h

theorem lexEq_iff (a b : List α) : lexEq lt a b = true ↔ a = b := by
  induction a generalizing b with
  | nil => cases b <;> simp [lexEq]
  | cons x xs ih =>
    cases b with
    | nil => simp [lexEq]
    | cons y ys =>
      simp only [lexEq, Bool.and_eq_true, Bool.not_eq_true', ih, List.cons.injEq]
      constructor
      · rintro ⟨⟨h1, h2⟩, h3⟩; exact ⟨h.tri _ _ h1 h2, h3⟩
      · rintro ⟨rfl, rfl⟩; simp [h.irrefl]

theorem lexLe_refl (a : List α) : lexLe lt a a = true := by
  induction a with
  | nil => simp [lexLe]
  | cons x xs ih => simp [lexLe, h.irrefl, ih]

theorem lexLe_cons_iff (x y : α) (xs ys : List α) :
    lexLe lt (x :: xs) (y :: ys) = true ↔ lt x y = true ∨ (x = y ∧ lexLe lt xs ys = true) := by
  simp only [lexLe]
  cases hxy : lt x y
  · cases hyx : lt y x
    · have e := h.tri _ _ hxy hyx
      simp [e]
    · simp
      intro e; subst e; rw [h.irrefl] at hyx; cases hyx
  · simp

theorem lexLe_total (a b : List α) : lexLe lt a b = true ∨ lexLe lt b a = true := by
  induction a generalizing b with
  | nil => simp [lexLe]
  | cons x xs ih =>
    cases b with
    | nil => simp [lexLe]
    | cons y ys =>
      rw [lexLe_cons_iff h, lexLe_cons_iff h]
      cases hxy : lt x y
      · cases hyx : lt y x
        · have e := h.tri _ _ hxy hyx
          subst e
          rcases ih ys with h1 | h1 <;> simp [h1]
        · simp
      · simp

theorem lexLe_antisymm (a b : List α) : lexLe lt a b = true → lexLe lt b a = true → a = b := by
  induction a generalizing b with
  | nil => cases b <;> simp [lexLe]
  | cons x xs ih =>
    cases b with
    | nil => simp [lexLe]
    | cons y ys =>
      rw [lexLe_cons_iff h, lexLe_cons_iff h]
      rintro (h1 | ⟨rfl, h1⟩) (h2 | ⟨e2, h2⟩)
      · have := h.asymm _ _ h1; rw [h2] at this; cases this
      · subst e2; rw [h.irrefl] at h1; cases h1
      · rw [h.irrefl] at h2; cases h2
      · rw [ih ys h1 h2]

theorem lexLe_trans (a b c : List α) :
    lexLe lt a b = true → lexLe lt b c = true → lexLe lt a c = true := by
  induction a generalizing b c with
  | nil => simp [lexLe]
  | cons x xs ih =>
    cases b with
    | nil => simp [lexLe]
    | cons y ys =>
      cases c with
      | nil => simp [lexLe]
      | cons z zs =>
        rw [lexLe_cons_iff h, lexLe_cons_iff h, lexLe_cons_iff h]
        rintro (h1 | ⟨rfl, h1⟩) (h2 | ⟨rfl, h2⟩)
        · exact Or.inl (h.trans _ _ _ h1 h2)
        · exact Or.inl h1
        · exact Or.inl h2
        · exact Or.inr ⟨rfl, ih ys zs h1 h2⟩
end Lex

/-! ### `SortKey.le` is a total preorder, antisymmetric -/

/-- The three list comparisons used by `SortKey.le`, as opaque-to-automation names. -/
def lexLeN (a b : List Nat) : Bool := lexLe (fun (x y : Nat) => decide (x < y)) a b
def lexLeI (a b : List Int) : Bool := lexLe (fun (x y : Int) => decide (x < y)) a b
def lexLeQ (a b : List Rat) : Bool := lexLe (fun (x y : Rat) => decide (x < y)) a b

theorem SortKey.le_iff (a b : SortKey) : a.le b = true ↔
    a.rank < b.rank ∨ (a.rank = b.rank ∧ (a.onAxis < b.onAxis ∨ (a.onAxis = b.onAxis ∧
      ((a.knownAxes ≠ b.knownAxes ∧ lexLeN a.knownAxes b.knownAxes = true) ∨
       (a.knownAxes = b.knownAxes ∧
        ((a.signs ≠ b.signs ∧ lexLeI a.signs b.signs = true) ∨
         (a.signs = b.signs ∧ lexLeQ a.abs b.abs = true))))))) := by
  have eN := lexEq_iff strictTotal_nat a.knownAxes b.knownAxes
  have eI := lexEq_iff strictTotal_int a.signs b.signs
  unfold SortKey.le lexLeN lexLeI lexLeQ
  split
  · simp [*]
  · split
    · have : ¬ a.rank = b.rank := by omega
      simp [*]
    · have e : a.rank = b.rank := by omega
      split
      · simp [*]
      · split
        · have : ¬ a.onAxis = b.onAxis := by omega
          have : ¬ a.onAxis < b.onAxis := by omega
          simp [*]
        · have e' : a.onAxis = b.onAxis := by omega
          split
          · rename_i hk
            have : a.knownAxes ≠ b.knownAxes := by
              intro hh; rw [← eN] at hh; simp [hh] at hk
            simp [*]
          · rename_i hk
            have hk' : a.knownAxes = b.knownAxes := by
              rw [← eN]; simpa using hk
            split
            · rename_i hs
              have : a.signs ≠ b.signs := by
                intro hh; rw [← eI] at hh; simp [hh] at hs
              simp [*]
            · rename_i hs
              have hs' : a.signs = b.signs := by
                rw [← eI]; simpa using hs
              simp [*]

theorem lexLeN_total (a b : List Nat) : lexLeN a b = true ∨ lexLeN b a = true :=
  lexLe_total strictTotal_nat a b
theorem lexLeN_trans (a b c : List Nat) : lexLeN a b = true → lexLeN b c = true → lexLeN a c = true :=
  lexLe_trans strictTotal_nat a b c
theorem lexLeN_antisymm (a b : List Nat) : lexLeN a b = true → lexLeN b a = true → a = b :=
  lexLe_antisymm strictTotal_nat a b
theorem lexLeI_total (a b : List Int) : lexLeI a b = true ∨ lexLeI b a = true :=
  lexLe_total strictTotal_int a b
theorem lexLeI_trans (a b c : List Int) : lexLeI a b = true → lexLeI b c = true → lexLeI a c = true :=
  lexLe_trans strictTotal_int a b c
theorem lexLeI_antisymm (a b : List Int) : lexLeI a b = true → lexLeI b a = true → a = b :=
  lexLe_antisymm strictTotal_int a b
theorem lexLeQ_total (a b : List Rat) : lexLeQ a b = true ∨ lexLeQ b a = true :=
  lexLe_total strictTotal_rat a b
theorem lexLeQ_trans (a b c : List Rat) : lexLeQ a b = true → lexLeQ b c = true → lexLeQ a c = true :=
  lexLe_trans strictTotal_rat a b c
theorem lexLeQ_antisymm (a b : List Rat) : lexLeQ a b = true → lexLeQ b a = true → a = b :=
  lexLe_antisymm strictTotal_rat a b

theorem SortKey.le_total (a b : SortKey) : (a.le b || b.le a) = true := by
  rw [Bool.or_eq_true, SortKey.le_iff, SortKey.le_iff]
  have tN := lexLeN_total a.knownAxes b.knownAxes
  have tI := lexLeI_total a.signs b.signs
  have tQ := lexLeQ_total a.abs b.abs
  grind

theorem SortKey.le_trans (a b c : SortKey) : a.le b = true → b.le c = true → a.le c = true := by
  rw [SortKey.le_iff, SortKey.le_iff, SortKey.le_iff]
  have tN := lexLeN_trans a.knownAxes b.knownAxes c.knownAxes
  have tI := lexLeI_trans a.signs b.signs c.signs
  have tQ := lexLeQ_trans a.abs b.abs c.abs
  have aN := lexLeN_antisymm a.knownAxes b.knownAxes
  have aN' := lexLeN_antisymm b.knownAxes c.knownAxes
  have aI := lexLeI_antisymm a.signs b.signs
  have aI' := lexLeI_antisymm b.signs c.signs
  grind (splits := 40)

theorem SortKey.le_antisymm (a b : SortKey) : a.le b = true → b.le a = true → a = b := by
  rw [SortKey.le_iff, SortKey.le_iff]
  have aN := lexLeN_antisymm a.knownAxes b.knownAxes
  have aI := lexLeI_antisymm a.signs b.signs
  have aQ := lexLeQ_antisymm a.abs b.abs
  cases a; cases b
  grind

theorem SortKey.rank_le_of_le (a b : SortKey) : a.le b = true → a.rank ≤ b.rank := by
  rw [SortKey.le_iff]; omega

/-! ### B1: `sortLocs` is a sorted permutation -/

theorem sortLocs_perm (locs : List Loc) : (sortLocs locs).Perm locs :=
  List.mergeSort_perm _ _

theorem sortLocs_pairwise (locs : List Loc) :
    (sortLocs locs).Pairwise
      (fun a b => (keyFor (onAxisPoints locs) a).le (keyFor (onAxisPoints locs) b) = true) :=
  List.pairwise_mergeSort (le := fun a b => (keyFor (onAxisPoints locs) a).le (keyFor (onAxisPoints locs) b))
    (fun _ _ _ => SortKey.le_trans _ _ _) (fun _ _ => SortKey.le_total _ _) locs

theorem mem_sortLocs (locs : List Loc) (l : Loc) : l ∈ sortLocs locs ↔ l ∈ locs :=
  (sortLocs_perm locs).mem_iff

theorem sortLocs_length (locs : List Loc) : (sortLocs locs).length = locs.length :=
  (sortLocs_perm locs).length_eq

theorem sortLocs_nodup (locs : List Loc) (h : locs.Nodup) : (sortLocs locs).Nodup :=
  (sortLocs_perm locs).symm.nodup h

/-! ### B2: ranks are non-decreasing -/

theorem filter_zipIdx_map_fst (p : Rat → Bool) (l : Loc) (k : Nat) :
    ((l.zipIdx k).filter (fun q => p q.1)).map (·.1) = l.filter p := by
  induction l generalizing k with
  | nil => simp
  | cons x xs ih =>
    simp only [List.zipIdx_cons, List.filter_cons]
    split <;> simp [ih]

theorem keyFor_rank (pts : List (Nat × Rat)) (l : Loc) : (keyFor pts l).rank = rank l := by
  unfold keyFor rank
  simp only
  rw [← filter_zipIdx_map_fst (fun x => !isZero x) l 0, List.length_map]

theorem sortLocs_rank_sorted (locs : List Loc) :
    (sortLocs locs).Pairwise (fun a b => rank a ≤ rank b) := by
  refine (sortLocs_pairwise locs).imp ?_
  intro a b hab
  have := SortKey.rank_le_of_le _ _ hab
  rwa [keyFor_rank, keyFor_rank] at this

/-! ### B3: the default location comes first -/

theorem rank_eq_zero_iff (l : Loc) : rank l = 0 ↔ l = List.replicate l.length 0 := by
  unfold rank
  induction l with
  | nil => simp
  | cons x xs ih =>
    simp only [List.filter_cons, List.length_cons, List.replicate_succ, List.cons.injEq]
    by_cases hx : x = 0
    · have : (!isZero x) = false := by simp [hx, isZero]
      rw [this]; simp only [Bool.false_eq_true, if_false]
      rw [ih]; simp [hx]
    · have : (!isZero x) = true := by simp [hx, isZero]
      rw [this]; simp [hx]

theorem rank_replicate_zero (n : Nat) : rank (List.replicate n 0) = 0 := by
  rw [rank_eq_zero_iff]; simp

/-- If the all-zero location of length `n` is among `locs` and all locations have length `n`,
    it is the first location of the model. -/
theorem sortLocs_head_default (n : Nat) (locs : List Loc)
    (hlen : ∀ l ∈ locs, l.length = n) (hz : List.replicate n 0 ∈ locs) :
    (sortLocs locs).head? = some (List.replicate n 0) := by
  have hmem : List.replicate n 0 ∈ sortLocs locs := (mem_sortLocs _ _).mpr hz
  have hs := sortLocs_rank_sorted locs
  cases hsl : sortLocs locs with
  | nil => rw [hsl] at hmem; cases hmem
  | cons a rest =>
    rw [hsl] at hmem hs
    have ha : a ∈ locs := (mem_sortLocs _ _).mp (by rw [hsl]; exact List.mem_cons_self)
    have hr : rank a = 0 := by
      rcases List.mem_cons.mp hmem with h | h
      · rw [← h]; exact rank_replicate_zero n
      · have := List.rel_of_pairwise_cons hs h
        rw [rank_replicate_zero] at this; omega
    have := (rank_eq_zero_iff a).mp hr
    rw [hlen a ha] at this
    simp [this]

/-! ### B4: the key determines the location; order independence -/

theorem eq_of_sign_abs (a b : Rat) (hs : sign a = sign b) (ha : ratAbs a = ratAbs b) : a = b := by
  unfold sign ratAbs at *
  grind

/-- Non-zero coordinates with their axis index (offset `k`). -/
def nzs (l : Loc) (k : Nat) : List (Rat × Nat) := (l.zipIdx k).filter (fun p => !isZero p.1)

theorem nzs_cons_zero (xs : Loc) (k : Nat) : nzs ((0 : Rat) :: xs) k = nzs xs (k + 1) := by
  simp [nzs, isZero]

theorem nzs_cons_ne (x : Rat) (hx : x ≠ 0) (xs : Loc) (k : Nat) :
    nzs (x :: xs) k = (x, k) :: nzs xs (k + 1) := by
  simp [nzs, isZero, hx]

theorem le_of_mem_nzs_snd (l : Loc) (k i : Nat) (h : i ∈ (nzs l k).map (·.2)) : k ≤ i := by
  obtain ⟨p, hp, rfl⟩ := List.mem_map.mp h
  exact List.le_snd_of_mem_zipIdx (List.mem_filter.mp hp).1

theorem nzs_inj (l₁ l₂ : Loc) (k : Nat) (hlen : l₁.length = l₂.length)
    (hk : (nzs l₁ k).map (·.2) = (nzs l₂ k).map (·.2))
    (hs : (nzs l₁ k).map (fun p => sign p.1) = (nzs l₂ k).map (fun p => sign p.1))
    (ha : (nzs l₁ k).map (fun p => ratAbs p.1) = (nzs l₂ k).map (fun p => ratAbs p.1)) :
    l₁ = l₂ := by
  induction l₁ generalizing l₂ k with
  | nil => cases l₂ with
    | nil => rfl
    | cons _ _ => simp at hlen
  | cons x xs ih =>
    cases l₂ with
    | nil => simp at hlen
    | cons y ys =>
      have hlen' : xs.length = ys.length := by simpa using hlen
      by_cases hx : x = 0 <;> by_cases hy : y = 0
      · subst hx; subst hy
        rw [nzs_cons_zero, nzs_cons_zero] at hk hs ha
        rw [ih ys (k+1) hlen' hk hs ha]
      · subst hx
        rw [nzs_cons_zero, nzs_cons_ne y hy] at hk
        have : k ∈ (nzs xs (k+1)).map (·.2) := by rw [hk]; simp
        have := le_of_mem_nzs_snd _ _ _ this
        omega
      · subst hy
        rw [nzs_cons_zero, nzs_cons_ne x hx] at hk
        have : k ∈ (nzs ys (k+1)).map (·.2) := by rw [← hk]; simp
        have := le_of_mem_nzs_snd _ _ _ this
        omega
      · rw [nzs_cons_ne x hx, nzs_cons_ne y hy] at hk hs ha
        simp only [List.map_cons, List.cons.injEq] at hk hs ha
        rw [eq_of_sign_abs x y hs.1 ha.1, ih ys (k+1) hlen' hk.2 hs.2 ha.2]

/-- `keyFor pts` is injective on locations of equal length. -/
theorem keyFor_inj (pts : List (Nat × Rat)) (l₁ l₂ : Loc) (hlen : l₁.length = l₂.length)
    (h : keyFor pts l₁ = keyFor pts l₂) : l₁ = l₂ := by
  have hk : (keyFor pts l₁).knownAxes = (keyFor pts l₂).knownAxes := by rw [h]
  have hs : (keyFor pts l₁).signs = (keyFor pts l₂).signs := by rw [h]
  have ha : (keyFor pts l₁).abs = (keyFor pts l₂).abs := by rw [h]
  exact nzs_inj l₁ l₂ 0 hlen hk hs ha

/-- `keyFor` uses `pts` only through membership. -/
theorem keyFor_congr (pts₁ pts₂ : List (Nat × Rat)) (h : ∀ p, p ∈ pts₁ ↔ p ∈ pts₂) (l : Loc) :
    keyFor pts₁ l = keyFor pts₂ l := by
  unfold keyFor
  have : (fun p : Rat × Nat => pts₁.contains (p.2, p.1)) = (fun p => pts₂.contains (p.2, p.1)) := by
    funext p
    rw [Bool.eq_iff_iff]; simp [h (p.2, p.1)]
  simp only [this]

theorem onAxisPoints_perm (locs₁ locs₂ : List Loc) (h : locs₁.Perm locs₂) :
    (onAxisPoints locs₁).Perm (onAxisPoints locs₂) :=
  h.filterMap _

/-- Order independence of the sort: permuting the input (all of one length) does not change the
    sorted list. -/
theorem sortLocs_perm_invariant (n : Nat) (locs₁ locs₂ : List Loc)
    (hlen : ∀ l ∈ locs₁, l.length = n) (hperm : locs₁.Perm locs₂) :
    sortLocs locs₁ = sortLocs locs₂ := by
  have hkey : ∀ l, keyFor (onAxisPoints locs₂) l = keyFor (onAxisPoints locs₁) l := fun l =>
    keyFor_congr _ _ (fun p => (onAxisPoints_perm _ _ hperm).symm.mem_iff) l
  have hs1 := sortLocs_pairwise locs₁
  have hs2 := sortLocs_pairwise locs₂
  simp only [hkey] at hs2
  refine List.Perm.eq_of_pairwise ?_ hs1 hs2
    ((sortLocs_perm locs₁).trans (hperm.trans (sortLocs_perm locs₂).symm))
  intro a b ha hb hab hba
  have ha' := hlen a ((mem_sortLocs _ _).mp ha)
  have hb' := hlen b (hperm.symm.mem_iff.mp ((mem_sortLocs _ _).mp hb))
  exact keyFor_inj _ a b (by omega) (SortKey.le_antisymm _ _ hab hba)

/-! ### `Model.new` on well-formed input -/

theorem fit_of_length (n : Nat) (l : Loc) (h : l.length = n) : fit n l = l := by
  unfold fit
  rw [List.take_append_of_le_length (by omega), List.take_of_length_le (by omega)]

theorem map_fit_of_length (n : Nat) (locs : List Loc) (h : ∀ l ∈ locs, l.length = n) :
    locs.map (fit n) = locs := by
  induction locs with
  | nil => rfl
  | cons x xs ih =>
    rw [List.map_cons, fit_of_length n x (h x List.mem_cons_self),
      ih (fun l hl => h l (List.mem_cons_of_mem _ hl))]

theorem eraseDups_of_nodup {α} [BEq α] [LawfulBEq α] (l : List α) (h : l.Nodup) : l.eraseDups = l := by
  induction l with
  | nil => rfl
  | cons x xs ih =>
    rw [List.nodup_cons] at h
    rw [List.eraseDups_cons]
    have : xs.filter (fun b => !b == x) = xs := by
      rw [List.filter_eq_self]
      intro a ha
      have : a ≠ x := fun e => h.1 (e ▸ ha)
      simp [this]
    rw [this, ih h.2]

/-- On input that is already expanded to `n` axes and duplicate-free, `Model.new` is just
    sort + regions + influence. -/
theorem Model.new_eq (n : Nat) (locs : List Loc) (hlen : ∀ l ∈ locs, l.length = n)
    (hnd : locs.Nodup) :
    Model.new n locs =
      { locations := sortLocs locs, influence := masterInfluence (regionsFor (sortLocs locs)) } := by
  unfold Model.new
  rw [map_fit_of_length n locs hlen, eraseDups_of_nodup locs hnd]

theorem Model.new_locations (n : Nat) (locs : List Loc) (hlen : ∀ l ∈ locs, l.length = n)
    (hnd : locs.Nodup) : (Model.new n locs).locations = sortLocs locs := by
  rw [Model.new_eq n locs hlen hnd]

theorem Model.new_influence (n : Nat) (locs : List Loc) (hlen : ∀ l ∈ locs, l.length = n)
    (hnd : locs.Nodup) :
    (Model.new n locs).influence = masterInfluence (regionsFor (sortLocs locs)) := by
  rw [Model.new_eq n locs hlen hnd]

/-- (B4) The model does not depend on the order in which the masters were supplied. -/
theorem Model.new_perm_invariant (n : Nat) (locs₁ locs₂ : List Loc)
    (hlen : ∀ l ∈ locs₁, l.length = n) (hnd : locs₁.Nodup) (hperm : locs₁.Perm locs₂) :
    Model.new n locs₁ = Model.new n locs₂ := by
  have hlen₂ : ∀ l ∈ locs₂, l.length = n := fun l hl => hlen l (hperm.symm.mem_iff.mp hl)
  rw [Model.new_eq n locs₁ hlen hnd, Model.new_eq n locs₂ hlen₂ (hperm.nodup hnd),
    sortLocs_perm_invariant n locs₁ locs₂ hlen hperm]

/-! ### Stronger form: only the *set* of supplied locations matters (Rust takes a `HashSet`) -/

theorem nodup_eraseDups {α} [BEq α] [LawfulBEq α] (l : List α) : l.eraseDups.Nodup := by
  generalize hn : l.length = n
  induction n using Nat.strongRecOn generalizing l with
  | _ n ih =>
    cases l with
    | nil => simp
    | cons x xs =>
      rw [List.eraseDups_cons, List.nodup_cons]
      constructor
      · rw [List.mem_eraseDups, List.mem_filter]; simp
      · have hle : (xs.filter (fun b => !b == x)).length ≤ xs.length := List.length_filter_le _ _
        exact ih _ (by simp at hn; omega) _ rfl

theorem fit_length (n : Nat) (l : Loc) : (fit n l).length = n := by
  unfold fit; simp

/-- The model depends only on the set of locations supplied (no hypotheses at all). -/
theorem Model.new_set_invariant (n : Nat) (locs₁ locs₂ : List Loc)
    (hset : ∀ l, l ∈ locs₁ ↔ l ∈ locs₂) :
    Model.new n locs₁ = Model.new n locs₂ := by
  unfold Model.new
  have hperm : ((locs₁.map (fit n)).eraseDups).Perm ((locs₂.map (fit n)).eraseDups) := by
    rw [List.perm_ext_iff_of_nodup (nodup_eraseDups _) (nodup_eraseDups _)]
    intro a
    simp only [List.mem_eraseDups, List.mem_map, hset]
  have hlen : ∀ l ∈ (locs₁.map (fit n)).eraseDups, l.length = n := by
    intro l hl
    rw [List.mem_eraseDups, List.mem_map] at hl
    obtain ⟨l', _, rfl⟩ := hl
    exact fit_length n l'
  simp only [sortLocs_perm_invariant n _ _ hlen hperm]

/-- If the input is already sorted by key, `sortLocs` leaves it alone (used for concrete examples:
    `mergeSort` is defined by well-founded recursion and does not evaluate in the kernel). -/
theorem sortLocs_of_pairwise (locs : List Loc)
    (h : locs.Pairwise
      (fun a b => (keyFor (onAxisPoints locs) a).le (keyFor (onAxisPoints locs) b) = true)) :
    sortLocs locs = locs :=
  List.mergeSort_of_pairwise h

end Fontc.VarModel
