/-
  C09 helper lemmas, part 2: what `build` (the model of `build_variable_kern_adjustments`) emits —
  membership characterisation, the value every emitted pair carries at every source, completeness.
-/
import FontcProofs.KernBasic

namespace Fontc.Kern
open Fontc

/-! ### glyph universe, union membership, divergence -/

theorem mem_sideGlyphs (srcs : List Source) (side : Side) (g : Nat) :
    g ∈ sideGlyphs srcs side ↔ ∃ s ∈ srcs, ∃ p ∈ s.groups side, g ∈ p.2 := by
  unfold sideGlyphs
  rw [mem_insertSort, List.mem_eraseDups, List.mem_flatMap]
  constructor
  · rintro ⟨s, hs, hg⟩
    obtain ⟨p, hp, hgp⟩ := List.mem_flatMap.mp hg
    exact ⟨s, hs, p, hp, hgp⟩
  · rintro ⟨s, hs, p, hp, hgp⟩
    exact ⟨s, hs, List.mem_flatMap.mpr ⟨p, hp, hgp⟩⟩

theorem groupOf_mem_sideGlyphs (srcs : List Source) (s : Source) (hs : s ∈ srcs) (side : Side) (g G : Nat)
    (h : s.groupOf side g = some G) : g ∈ sideGlyphs srcs side := by
  obtain ⟨ms, hm, hg⟩ := groupOfLast_some_mem _ g G h
  exact (mem_sideGlyphs srcs side g).mpr ⟨s, hs, (G, ms), hm, hg⟩

theorem mem_allMembers (srcs : List Source) (side : Side) (G g : Nat) :
    g ∈ allMembers srcs side G ↔ g ∈ sideGlyphs srcs side ∧ ∃ s ∈ srcs, s.groupOf side g = some G := by
  unfold allMembers
  rw [List.mem_filter, List.any_eq_true]
  constructor
  · rintro ⟨h1, s, hs, h2⟩
    exact ⟨h1, s, hs, eq_of_beq h2⟩
  · rintro ⟨h1, s, hs, h2⟩
    exact ⟨h1, s, hs, by rw [h2]; exact beq_self_eq_true _⟩

theorem mem_allMembers_of_groupOf (srcs : List Source) (s : Source) (hs : s ∈ srcs) (side : Side) (g G : Nat)
    (h : s.groupOf side g = some G) : g ∈ allMembers srcs side G :=
  (mem_allMembers srcs side G g).mpr ⟨groupOf_mem_sideGlyphs srcs s hs side g G h, s, hs, h⟩

theorem groupOf_eq_of_not_divergent (srcs : List Source) (side : Side) (g : Nat)
    (h : isDivergent srcs side g = false) (s s' : Source) (hs : s ∈ srcs) (hs' : s' ∈ srcs) :
    s.groupOf side g = s'.groupOf side g := by
  cases srcs with
  | nil => cases hs
  | cons s₀ rest =>
    simp only [isDivergent] at h
    have hall : ∀ x ∈ rest, x.groupOf side g = s₀.groupOf side g := by
      intro x hx
      have := (List.any_eq_false.mp h) x hx
      simpa using this
    have key : ∀ x ∈ s₀ :: rest, x.groupOf side g = s₀.groupOf side g := by
      intro x hx
      rcases List.mem_cons.mp hx with rfl | hx
      · rfl
      · exact hall x hx
    rw [key s hs, key s' hs']

theorem not_divergent_of_group (srcs : List Source) (side : Side) (G g : Nat)
    (hG : divergentGroup srcs side G = false) (hg : g ∈ allMembers srcs side G) :
    isDivergent srcs side g = false := by
  unfold divergentGroup at hG
  have := (List.any_eq_false.mp hG) g hg
  simpa using this

/-! ### kerned groups -/

theorem kernedGroupOf_some (s : Source) (side : Side) (g H : Nat) (h : s.kernedGroupOf side g = some H) :
    s.groupOf side g = some H ∧ H ∈ s.kernedNames side := by
  unfold Source.kernedGroupOf at h
  cases hg : s.groupOf side g with
  | none => rw [hg] at h; cases h
  | some G =>
    rw [hg] at h
    by_cases hc : (s.kernedNames side).contains G = true
    · simp only [hc, if_true] at h
      cases h
      exact ⟨rfl, List.contains_iff_mem.mp hc⟩
    · simp only [hc] at h
      cases h

theorem kernedGroupOf_none (s : Source) (side : Side) (g : Nat) (h : s.kernedGroupOf side g = none) :
    s.groupOf side g = none ∨ ∃ H, s.groupOf side g = some H ∧ H ∉ s.kernedNames side := by
  unfold Source.kernedGroupOf at h
  cases hg : s.groupOf side g with
  | none => exact Or.inl rfl
  | some G =>
    rw [hg] at h
    by_cases hc : (s.kernedNames side).contains G = true
    · simp only [hc, if_true] at h
      cases h
    · exact Or.inr ⟨G, rfl, fun hm => hc (List.contains_iff_mem.mpr hm)⟩

theorem lookup_none_of_unkerned_first (s : Source) (H : Nat) (h : H ∉ s.kernedNames .first) (k₂ : KSide) :
    s.kerns.lookup (KSide.group H, k₂) = none := by
  cases hl : s.kerns.lookup (KSide.group H, k₂) with
  | none => rfl
  | some v =>
    exfalso
    apply h
    have hm := lookup_mem _ _ _ hl
    unfold Source.kernedNames
    rw [List.mem_filterMap]
    exact ⟨_, hm, rfl⟩

theorem lookup_none_of_unkerned_second (s : Source) (H : Nat) (h : H ∉ s.kernedNames .second) (k₁ : KSide) :
    s.kerns.lookup (k₁, KSide.group H) = none := by
  cases hl : s.kerns.lookup (k₁, KSide.group H) with
  | none => rfl
  | some v =>
    exfalso
    apply h
    have hm := lookup_mem _ _ _ hl
    unfold Source.kernedNames
    rw [List.mem_filterMap]
    exact ⟨_, hm, rfl⟩

/-! ### class-level UFO values -/

def G1of (s : Source) (g : Nat) : Option KSide := (s.groupOf .first g).map KSide.group
def G2of (s : Source) (g : Nat) : Option KSide := (s.groupOf .second g).map KSide.group

/-- the UFO cascade of (g₁, b) from its third step on: (group₁, glyph) → (group₁, group₂) → 0 -/
def ufoCG (s : Source) (g₁ b : Nat) : Rat :=
  firstHit s.kerns [optPair (G1of s g₁) (some (.glyph b)), optPair (G1of s g₁) (G2of s b)]

/-- the last step of the UFO cascade: (group₁, group₂) → 0 -/
def ufoCC (s : Source) (g₁ g₂ : Nat) : Rat :=
  firstHit s.kerns [optPair (G1of s g₁) (G2of s g₂)]

/-- The per-source lookup name `n.at i` stands for glyph `g` in source `s`: it is `g`'s group there, or it is absent
    and `g` is in no group that `s` kerns. -/
def NamesRep (n : Names) (i : Nat) (s : Source) (side : Side) (g : Nat) : Prop :=
  (∃ H, n.at i = some (.group H) ∧ s.groupOf side g = some H) ∨ (n.at i = none ∧ s.kernedGroupOf side g = none)

theorem ufoCG_zero_of_unkerned (s : Source) (g₁ b : Nat) (h : s.kernedGroupOf .first g₁ = none) :
    ufoCG s g₁ b = 0 := by
  unfold ufoCG G1of
  rcases kernedGroupOf_none s .first g₁ h with hn | ⟨H, hH, hk⟩
  · rw [hn]; rfl
  · rw [hH]
    simp only [Option.map]
    cases G2of s b with
    | none => simp [optPair, firstHit, lookup_none_of_unkerned_first s H hk]
    | some k => simp [optPair, firstHit, lookup_none_of_unkerned_first s H hk]

theorem ufoCC_zero_of_unkerned_first (s : Source) (g₁ g₂ : Nat) (h : s.kernedGroupOf .first g₁ = none) :
    ufoCC s g₁ g₂ = 0 := by
  unfold ufoCC G1of
  rcases kernedGroupOf_none s .first g₁ h with hn | ⟨H, hH, hk⟩
  · rw [hn]; rfl
  · rw [hH]
    simp only [Option.map]
    cases G2of s g₂ with
    | none => rfl
    | some k => simp [optPair, firstHit, lookup_none_of_unkerned_first s H hk]

theorem ufoCC_zero_of_unkerned_second (s : Source) (g₁ g₂ : Nat) (h : s.kernedGroupOf .second g₂ = none) :
    ufoCC s g₁ g₂ = 0 := by
  unfold ufoCC G2of
  rcases kernedGroupOf_none s .second g₂ h with hn | ⟨H, hH, hk⟩
  · rw [hn]; cases G1of s g₁ <;> rfl
  · rw [hH]
    simp only [Option.map]
    cases G1of s g₁ with
    | none => rfl
    | some k => simp [optPair, firstHit, lookup_none_of_unkerned_second s H hk]

/-- value of a (class, glyph) unit pair at source `s` -/
theorem val_cg (s : Source) (n₁ : Names) (i : Nat) (g₁ b : Nat) (h : NamesRep n₁ i s .first g₁) :
    (match n₁.at i, (Names.uniform (.glyph b)).at i with
      | some a, some c => s.lookup (a, c)
      | _, _ => 0) = ufoCG s g₁ b := by
  rcases h with ⟨H, hat, hg⟩ | ⟨hat, hk⟩
  · rw [hat]
    simp only [Names.at]
    unfold ufoCG G1of Source.lookup lookupKerningValue
    rw [hg]
    simp only [Option.map, getGroupIfGlyph, KSide.isGlyph, optPair, firstHit]
    cases hl : s.kerns.lookup (KSide.group H, KSide.glyph b) with
    | some v => simp
    | none =>
      simp only [Bool.false_eq_true, if_false, if_true, firstHit, hl, G2of]
      cases s.groupOf .second b <;> simp [firstHit]
  · rw [hat, ufoCG_zero_of_unkerned s g₁ b hk]

/-- value of a (class, class) unit pair at source `s` -/
theorem val_cc (s : Source) (n₁ n₂ : Names) (i : Nat) (g₁ g₂ : Nat)
    (h₁ : NamesRep n₁ i s .first g₁) (h₂ : NamesRep n₂ i s .second g₂) :
    (match n₁.at i, n₂.at i with
      | some a, some c => s.lookup (a, c)
      | _, _ => 0) = ufoCC s g₁ g₂ := by
  rcases h₁ with ⟨H₁, hat₁, hg₁⟩ | ⟨hat₁, hk₁⟩
  · rcases h₂ with ⟨H₂, hat₂, hg₂⟩ | ⟨hat₂, hk₂⟩
    · rw [hat₁, hat₂]
      unfold ufoCC G1of G2of Source.lookup lookupKerningValue
      rw [hg₁, hg₂]
      simp only [Option.map, getGroupIfGlyph, KSide.isGlyph, optPair, firstHit]
      cases hl : s.kerns.lookup (KSide.group H₁, KSide.group H₂) with
      | some v => simp
      | none => simp [firstHit, hl]
    · rw [hat₂, ufoCC_zero_of_unkerned_second s g₁ g₂ hk₂]
      cases n₁.at i <;> rfl
  · rw [hat₁, ufoCC_zero_of_unkerned_first s g₁ g₂ hk₁]

/-! ### `resolve_units` at one source -/

theorem resolvePair_getElem? (srcs : List Source) (pair : Key) (i : Nat) (s : Source) (hs : srcs[i]? = some s) :
    (resolvePair srcs pair)[i]? = some (s.lookup pair) := by
  unfold resolvePair
  rw [List.getElem?_map, hs]
  rfl

theorem resolveUnits_getElem? (srcs : List Source) (u₁ u₂ : KUnit) (i : Nat) (s : Source)
    (hs : srcs[i]? = some s) :
    (resolveUnits srcs u₁ u₂)[i]? =
      some (match u₁.names.at i, u₂.names.at i with
        | some a, some b => s.lookup (a, b)
        | _, _ => 0) := by
  have hz : ∀ (f : Source × Nat → Rat), (srcs.zipIdx.map f)[i]? = some (f (s, i)) := by
    intro f
    rw [List.getElem?_map, List.getElem?_zipIdx, hs]
    simp
  unfold resolveUnits
  cases h₁ : u₁.names with
  | uniform a =>
    cases h₂ : u₂.names with
    | uniform b =>
      simp only [Names.at]
      exact resolvePair_getElem? srcs (a, b) i s hs
    | perSource σ =>
      simp only []
      rw [hz]; rfl
  | perSource σ =>
    simp only []
    rw [hz]; rfl

theorem resolvePair_length (srcs : List Source) (pair : Key) : (resolvePair srcs pair).length = srcs.length := by
  simp [resolvePair]

theorem resolveUnits_length (srcs : List Source) (u₁ u₂ : KUnit) :
    (resolveUnits srcs u₁ u₂).length = srcs.length := by
  unfold resolveUnits
  cases u₁.names <;> cases u₂.names <;> simp [resolvePair]

/-! ### units -/

theorem signature_getElem? (srcs : List Source) (side : Side) (g i : Nat) (s : Source) (hs : srcs[i]? = some s) :
    (signature srcs side g)[i]? = some (s.kernedGroupOf side g) := by
  unfold signature
  rw [List.getElem?_map, hs]
  rfl

theorem mem_refinedClasses (srcs : List Source) (side : Side) (G : Nat) (c : List Nat) (σ : List (Option Nat)) :
    (c, σ) ∈ refinedClasses srcs side G ↔
      (∃ m ∈ allMembers srcs side G, signature srcs side m = σ) ∧
      c = (allMembers srcs side G).filter (fun g => signature srcs side g == σ) := by
  unfold refinedClasses
  simp only [List.mem_map, List.mem_eraseDups]
  constructor
  · rintro ⟨σ', ⟨m, hm, hσ⟩, heq⟩
    cases heq
    exact ⟨⟨m, hm, hσ⟩, rfl⟩
  · rintro ⟨⟨m, hm, hσ⟩, rfl⟩
    exact ⟨σ, ⟨m, hm, hσ⟩, rfl⟩

theorem unitsFor_group_spec (srcs : List Source) (side : Side) (G : Nat) (u : KUnit)
    (hu : u ∈ unitsFor srcs side (.group G)) :
    ∃ c, u.emit = .cls c ∧ c ≠ [] ∧ (∀ g ∈ c, g ∈ allMembers srcs side G) ∧
      ∀ g ∈ c, ∀ i s, srcs[i]? = some s → NamesRep u.names i s side g := by
  unfold unitsFor at hu
  simp only at hu
  by_cases hd : divergentGroup srcs side G = true
  · simp only [hd, if_true, List.mem_map] at hu
    obtain ⟨⟨c, σ⟩, hc, rfl⟩ := hu
    obtain ⟨⟨m, hm, hσ⟩, hceq⟩ := (mem_refinedClasses srcs side G c σ).mp hc
    have hmem : ∀ g, g ∈ c ↔ g ∈ allMembers srcs side G ∧ signature srcs side g = σ := by
      intro g
      rw [hceq, List.mem_filter]
      constructor
      · rintro ⟨h1, h2⟩; exact ⟨h1, eq_of_beq h2⟩
      · rintro ⟨h1, h2⟩; exact ⟨h1, by rw [h2]; exact beq_self_eq_true _⟩
    refine ⟨c, rfl, ?_, fun g hg => ((hmem g).mp hg).1, ?_⟩
    · intro hnil
      have : m ∈ c := (hmem m).mpr ⟨hm, hσ⟩
      rw [hnil] at this
      cases this
    · intro g hg i s hs
      have hsig := ((hmem g).mp hg).2
      have hi : σ[i]? = some (s.kernedGroupOf side g) := by
        rw [← hsig]; exact signature_getElem? srcs side g i s hs
      unfold NamesRep
      simp only [Names.at, hi]
      cases hk : s.kernedGroupOf side g with
      | none => exact Or.inr ⟨rfl, rfl⟩
      | some H => exact Or.inl ⟨H, rfl, (kernedGroupOf_some s side g H hk).1⟩
  · have hd' : divergentGroup srcs side G = false := by simpa using hd
    simp only [hd', Bool.false_eq_true, if_false] at hu
    by_cases he : (allMembers srcs side G).isEmpty = true
    · simp [he] at hu
    · simp only [he, Bool.false_eq_true, if_false, List.mem_singleton] at hu
      subst hu
      refine ⟨allMembers srcs side G, rfl, ?_, fun g hg => hg, ?_⟩
      · intro hnil; apply he; rw [hnil]; rfl
      · intro g hg i s hs
        obtain ⟨_, s', hs', hG⟩ := (mem_allMembers srcs side G g).mp hg
        have hnd := not_divergent_of_group srcs side G g hd' hg
        have hsm : s ∈ srcs := List.mem_of_getElem? hs
        have := groupOf_eq_of_not_divergent srcs side g hnd s s' hsm hs'
        exact Or.inl ⟨G, rfl, by rw [this, hG]⟩

theorem unitsFor_group_cover (srcs : List Source) (side : Side) (G g : Nat)
    (hg : g ∈ allMembers srcs side G) :
    ∃ u ∈ unitsFor srcs side (.group G), ∃ c, u.emit = .cls c ∧ g ∈ c := by
  unfold unitsFor
  simp only
  by_cases hd : divergentGroup srcs side G = true
  · simp only [hd, if_true]
    let σ := signature srcs side g
    let c := (allMembers srcs side G).filter (fun m => signature srcs side m == σ)
    have hc : (c, σ) ∈ refinedClasses srcs side G :=
      (mem_refinedClasses srcs side G c σ).mpr ⟨⟨g, hg, rfl⟩, rfl⟩
    refine ⟨⟨.perSource σ, .cls c⟩, List.mem_map.mpr ⟨(c, σ), hc, rfl⟩, c, rfl, ?_⟩
    exact List.mem_filter.mpr ⟨hg, beq_self_eq_true _⟩
  · have hd' : divergentGroup srcs side G = false := by simpa using hd
    have he : (allMembers srcs side G).isEmpty = false := by
      cases h : allMembers srcs side G with
      | nil => rw [h] at hg; cases hg
      | cons _ _ => rfl
    simp only [hd', he, Bool.false_eq_true, if_false]
    exact ⟨_, List.mem_singleton.mpr rfl, _, rfl, hg⟩

/-! ### membership in `build` -/

theorem mem_allKeys (srcs : List Source) (key : Key) :
    key ∈ allKeys srcs ↔ ∃ s ∈ srcs, ∃ v, (key, v) ∈ s.kerns := by
  unfold allKeys
  rw [List.mem_eraseDups, List.mem_flatMap]
  constructor
  · rintro ⟨s, hs, hk⟩
    obtain ⟨⟨k, v⟩, hkv, rfl⟩ := List.mem_map.mp hk
    exact ⟨s, hs, v, hkv⟩
  · rintro ⟨s, hs, v, hkv⟩
    exact ⟨s, hs, List.mem_map.mpr ⟨(key, v), hkv, rfl⟩⟩

theorem mem_build (srcs : List Source) (p : EPair) :
    p ∈ build srcs ↔ ∃ key ∈ allKeys srcs, p ∈ emitKey srcs key := by
  unfold build
  exact List.mem_flatMap

theorem mem_emitKey_glyph_group (srcs : List Source) (f S : Nat) (p : EPair) :
    p ∈ emitKey srcs (.glyph f, .group S) ↔
      ∃ m ∈ allMembers srcs .second S, p = ⟨.glyph f, .glyph m, resolvePair srcs (.glyph f, .glyph m)⟩ := by
  simp only [emitKey, List.mem_map]
  constructor
  · rintro ⟨m, hm, rfl⟩; exact ⟨m, hm, rfl⟩
  · rintro ⟨m, hm, rfl⟩; exact ⟨m, hm, rfl⟩

/-- the generic branch of `emitKey` -/
def emitGeneric (srcs : List Source) (key : Key) : List EPair :=
  let cc := !key.1.isGlyph && !key.2.isGlyph
  (unitsFor srcs .first key.1).flatMap fun u₁ =>
    (unitsFor srcs .second key.2).filterMap fun u₂ =>
      let vals := resolveUnits srcs u₁ u₂
      if cc && vals.all (· == 0) then none else some ⟨u₁.emit, u₂.emit, vals⟩

theorem emitKey_glyph_glyph (srcs : List Source) (a b : Nat) :
    emitKey srcs (.glyph a, .glyph b) = emitGeneric srcs (.glyph a, .glyph b) := rfl
theorem emitKey_group_glyph (srcs : List Source) (G b : Nat) :
    emitKey srcs (.group G, .glyph b) = emitGeneric srcs (.group G, .glyph b) := rfl
theorem emitKey_group_group (srcs : List Source) (G H : Nat) :
    emitKey srcs (.group G, .group H) = emitGeneric srcs (.group G, .group H) := rfl

theorem mem_emitGeneric (srcs : List Source) (key : Key) (p : EPair) :
    p ∈ emitGeneric srcs key ↔
      ∃ u₁ ∈ unitsFor srcs .first key.1, ∃ u₂ ∈ unitsFor srcs .second key.2,
        p = ⟨u₁.emit, u₂.emit, resolveUnits srcs u₁ u₂⟩ ∧
        ((!key.1.isGlyph && !key.2.isGlyph) && (resolveUnits srcs u₁ u₂).all (· == 0)) = false := by
  unfold emitGeneric
  simp only [List.mem_flatMap, List.mem_filterMap]
  constructor
  · rintro ⟨u₁, h₁, u₂, h₂, h⟩
    refine ⟨u₁, h₁, u₂, h₂, ?_⟩
    split at h
    · cases h
    · rename_i hc
      cases h
      exact ⟨rfl, by simpa using hc⟩
  · rintro ⟨u₁, h₁, u₂, h₂, rfl, hc⟩
    refine ⟨u₁, h₁, u₂, h₂, ?_⟩
    rw [if_neg (by simp [hc])]

/-- Every emitted pair, classified. -/
inductive Emitted (srcs : List Source) (p : EPair) : Prop
  | gg (a b : Nat) (h₁ : p.e₁ = .glyph a) (h₂ : p.e₂ = .glyph b)
      (hv : p.vals = resolvePair srcs (.glyph a, .glyph b))
  | cg (G b : Nat) (u₁ : KUnit) (hu₁ : u₁ ∈ unitsFor srcs .first (.group G)) (h₁ : p.e₁ = u₁.emit) (h₂ : p.e₂ = .glyph b)
      (hv : p.vals = resolveUnits srcs u₁ ⟨.uniform (.glyph b), .glyph b⟩)
  | cc (G H : Nat) (u₁ u₂ : KUnit) (hu₁ : u₁ ∈ unitsFor srcs .first (.group G))
      (hu₂ : u₂ ∈ unitsFor srcs .second (.group H)) (h₁ : p.e₁ = u₁.emit) (h₂ : p.e₂ = u₂.emit)
      (hv : p.vals = resolveUnits srcs u₁ u₂)

theorem resolveUnits_uniform (srcs : List Source) (a b : KSide) (e₁ e₂ : Emit) :
    resolveUnits srcs ⟨.uniform a, e₁⟩ ⟨.uniform b, e₂⟩ = resolvePair srcs (a, b) := rfl

theorem emitted_of_mem_build (srcs : List Source) (p : EPair) (hp : p ∈ build srcs) : Emitted srcs p := by
  obtain ⟨key, _, hpk⟩ := (mem_build srcs p).mp hp
  obtain ⟨k₁, k₂⟩ := key
  cases k₁ with
  | glyph a =>
    cases k₂ with
    | glyph b =>
      rw [emitKey_glyph_glyph] at hpk
      obtain ⟨u₁, h₁, u₂, h₂, rfl, _⟩ := (mem_emitGeneric srcs _ p).mp hpk
      simp only [unitsFor, List.mem_singleton] at h₁ h₂
      subst h₁ h₂
      exact .gg a b rfl rfl rfl
    | group S =>
      obtain ⟨m, _, rfl⟩ := (mem_emitKey_glyph_group srcs a S p).mp hpk
      exact .gg a m rfl rfl rfl
  | group G =>
    cases k₂ with
    | glyph b =>
      rw [emitKey_group_glyph] at hpk
      obtain ⟨u₁, h₁, u₂, h₂, rfl, _⟩ := (mem_emitGeneric srcs _ p).mp hpk
      have h₂' : u₂ = ⟨.uniform (.glyph b), .glyph b⟩ := by
        simpa [unitsFor] using h₂
      subst h₂'
      exact .cg G b u₁ h₁ rfl rfl rfl
    | group H =>
      rw [emitKey_group_group] at hpk
      obtain ⟨u₁, h₁, u₂, h₂, rfl, _⟩ := (mem_emitGeneric srcs _ p).mp hpk
      exact .cc G H u₁ u₂ h₁ h₂ rfl rfl rfl

theorem vals_length_of_mem_build (srcs : List Source) (p : EPair) (hp : p ∈ build srcs) :
    p.vals.length = srcs.length := by
  cases emitted_of_mem_build srcs p hp with
  | gg a b _ _ hv => rw [hv, resolvePair_length]
  | cg G b u₁ _ _ _ hv => rw [hv, resolveUnits_length]
  | cc G H u₁ u₂ _ _ _ _ hv => rw [hv, resolveUnits_length]

/-! ### values of emitted pairs -/

/-- never (glyph, class): a glyph-to-class key is expanded cell by cell -/
theorem e₂_glyph_of_e₁_glyph (srcs : List Source) (p : EPair) (hp : p ∈ build srcs) (a : Nat)
    (h : p.e₁ = .glyph a) : ∃ b, p.e₂ = .glyph b := by
  cases emitted_of_mem_build srcs p hp with
  | gg a' b _ h₂ _ => exact ⟨b, h₂⟩
  | cg G b u₁ hu₁ h₁ _ _ =>
    obtain ⟨c, hc, _⟩ := unitsFor_group_spec srcs .first G u₁ hu₁
    rw [h₁, hc] at h; cases h
  | cc G H u₁ u₂ hu₁ _ h₁ _ _ =>
    obtain ⟨c, hc, _⟩ := unitsFor_group_spec srcs .first G u₁ hu₁
    rw [h₁, hc] at h; cases h

theorem val_gg (srcs : List Source) (p : EPair) (hp : p ∈ build srcs) (a b : Nat)
    (h₁ : p.e₁ = .glyph a) (h₂ : p.e₂ = .glyph b) (i : Nat) (s : Source) (hs : srcs[i]? = some s) :
    p.vals[i]? = some (s.lookup (.glyph a, .glyph b)) := by
  cases emitted_of_mem_build srcs p hp with
  | gg a' b' h₁' h₂' hv =>
    rw [h₁] at h₁'; rw [h₂] at h₂'
    cases h₁'; cases h₂'
    rw [hv]; exact resolvePair_getElem? srcs _ i s hs
  | cg G b' u₁ hu₁ h₁' _ _ =>
    obtain ⟨c, hc, _⟩ := unitsFor_group_spec srcs .first G u₁ hu₁
    rw [h₁', hc] at h₁; cases h₁
  | cc G H u₁ u₂ hu₁ _ h₁' _ _ =>
    obtain ⟨c, hc, _⟩ := unitsFor_group_spec srcs .first G u₁ hu₁
    rw [h₁', hc] at h₁; cases h₁

theorem val_cg_of_mem (srcs : List Source) (p : EPair) (hp : p ∈ build srcs) (c : List Nat) (g₁ b : Nat)
    (h₁ : p.e₁ = .cls c) (hg : g₁ ∈ c) (h₂ : p.e₂ = .glyph b) (i : Nat) (s : Source) (hs : srcs[i]? = some s) :
    p.vals[i]? = some (ufoCG s g₁ b) := by
  cases emitted_of_mem_build srcs p hp with
  | gg a' b' h₁' _ _ => rw [h₁] at h₁'; cases h₁'
  | cg G b' u₁ hu₁ h₁' h₂' hv =>
    obtain ⟨c', hc', _, _, hrep⟩ := unitsFor_group_spec srcs .first G u₁ hu₁
    rw [h₁, hc'] at h₁'; cases h₁'
    rw [h₂] at h₂'; cases h₂'
    rw [hv, resolveUnits_getElem? srcs _ _ i s hs]
    exact congrArg some (val_cg s u₁.names i g₁ b (hrep g₁ hg i s hs))
  | cc G H u₁ u₂ _ hu₂ _ h₂' _ =>
    obtain ⟨c', hc', _⟩ := unitsFor_group_spec srcs .second H u₂ hu₂
    rw [h₂', hc'] at h₂; cases h₂

theorem unit_pair_val (srcs : List Source) (G H : Nat) (u₁ u₂ : KUnit)
    (hu₁ : u₁ ∈ unitsFor srcs .first (.group G)) (hu₂ : u₂ ∈ unitsFor srcs .second (.group H))
    (c₁ c₂ : List Nat) (h₁ : u₁.emit = .cls c₁) (h₂ : u₂.emit = .cls c₂) (g₁ g₂ : Nat) (hg₁ : g₁ ∈ c₁) (hg₂ : g₂ ∈ c₂)
    (i : Nat) (s : Source) (hs : srcs[i]? = some s) :
    (resolveUnits srcs u₁ u₂)[i]? = some (ufoCC s g₁ g₂) := by
  obtain ⟨c₁', hc₁, _, _, hrep₁⟩ := unitsFor_group_spec srcs .first G u₁ hu₁
  obtain ⟨c₂', hc₂, _, _, hrep₂⟩ := unitsFor_group_spec srcs .second H u₂ hu₂
  rw [h₁] at hc₁; cases hc₁
  rw [h₂] at hc₂; cases hc₂
  rw [resolveUnits_getElem? srcs _ _ i s hs]
  exact congrArg some (val_cc s u₁.names u₂.names i g₁ g₂ (hrep₁ g₁ hg₁ i s hs) (hrep₂ g₂ hg₂ i s hs))

theorem val_cc_of_mem (srcs : List Source) (p : EPair) (hp : p ∈ build srcs) (c₁ c₂ : List Nat) (g₁ g₂ : Nat)
    (h₁ : p.e₁ = .cls c₁) (hg₁ : g₁ ∈ c₁) (h₂ : p.e₂ = .cls c₂) (hg₂ : g₂ ∈ c₂)
    (i : Nat) (s : Source) (hs : srcs[i]? = some s) :
    p.vals[i]? = some (ufoCC s g₁ g₂) := by
  cases emitted_of_mem_build srcs p hp with
  | gg a' b' h₁' _ _ => rw [h₁] at h₁'; cases h₁'
  | cg G b' u₁ _ _ h₂' _ => rw [h₂] at h₂'; cases h₂'
  | cc G H u₁ u₂ hu₁ hu₂ h₁' h₂' hv =>
    rw [hv]
    exact unit_pair_val srcs G H u₁ u₂ hu₁ hu₂ c₁ c₂ (by rw [← h₁', h₁]) (by rw [← h₂', h₂]) g₁ g₂ hg₁ hg₂ i s hs

/-! ### completeness: every defined key reaches the output -/

theorem complete_gg (srcs : List Source) (s : Source) (hs : s ∈ srcs) (a b : Nat) (v : Rat)
    (hk : ((KSide.glyph a, KSide.glyph b), v) ∈ s.kerns) :
    ∃ p ∈ build srcs, p.e₁ = .glyph a ∧ p.e₂ = .glyph b := by
  refine ⟨⟨.glyph a, .glyph b, resolveUnits srcs ⟨.uniform (.glyph a), .glyph a⟩ ⟨.uniform (.glyph b), .glyph b⟩⟩, ?_, rfl, rfl⟩
  rw [mem_build]
  refine ⟨_, (mem_allKeys srcs _).mpr ⟨s, hs, v, hk⟩, ?_⟩
  rw [emitKey_glyph_glyph, mem_emitGeneric]
  exact ⟨_, List.mem_singleton.mpr rfl, _, List.mem_singleton.mpr rfl, rfl, rfl⟩

theorem complete_gG (srcs : List Source) (s : Source) (hs : s ∈ srcs) (a b H : Nat) (v : Rat)
    (hk : ((KSide.glyph a, KSide.group H), v) ∈ s.kerns) (hb : b ∈ allMembers srcs .second H) :
    ∃ p ∈ build srcs, p.e₁ = .glyph a ∧ p.e₂ = .glyph b := by
  refine ⟨⟨.glyph a, .glyph b, resolvePair srcs (.glyph a, .glyph b)⟩, ?_, rfl, rfl⟩
  rw [mem_build]
  refine ⟨_, (mem_allKeys srcs _).mpr ⟨s, hs, v, hk⟩, ?_⟩
  exact (mem_emitKey_glyph_group srcs a H _).mpr ⟨b, hb, rfl⟩

theorem complete_Gg (srcs : List Source) (s : Source) (hs : s ∈ srcs) (G a b : Nat) (v : Rat)
    (hk : ((KSide.group G, KSide.glyph b), v) ∈ s.kerns) (ha : a ∈ allMembers srcs .first G) :
    ∃ p ∈ build srcs, ∃ c, p.e₁ = .cls c ∧ a ∈ c ∧ p.e₂ = .glyph b := by
  obtain ⟨u₁, hu₁, c, hc, hac⟩ := unitsFor_group_cover srcs .first G a ha
  refine ⟨⟨u₁.emit, .glyph b, resolveUnits srcs u₁ ⟨.uniform (.glyph b), .glyph b⟩⟩, ?_, c, hc, hac, rfl⟩
  rw [mem_build]
  refine ⟨_, (mem_allKeys srcs _).mpr ⟨s, hs, v, hk⟩, ?_⟩
  rw [emitKey_group_glyph, mem_emitGeneric]
  exact ⟨u₁, hu₁, _, List.mem_singleton.mpr rfl, rfl, rfl⟩

/-- A class/class key reaches the output for every member pair unless all its values there are exactly zero. -/
theorem complete_GG (srcs : List Source) (s : Source) (hs : s ∈ srcs) (G H a b : Nat) (v : Rat)
    (hk : ((KSide.group G, KSide.group H), v) ∈ s.kerns)
    (ha : a ∈ allMembers srcs .first G) (hb : b ∈ allMembers srcs .second H) :
    ∃ u₁ ∈ unitsFor srcs .first (.group G), ∃ u₂ ∈ unitsFor srcs .second (.group H), ∃ c₁ c₂,
      u₁.emit = .cls c₁ ∧ u₂.emit = .cls c₂ ∧ a ∈ c₁ ∧ b ∈ c₂ ∧
      ((⟨.cls c₁, .cls c₂, resolveUnits srcs u₁ u₂⟩ : EPair) ∈ build srcs ∨
        (resolveUnits srcs u₁ u₂).all (· == 0) = true) := by
  obtain ⟨u₁, hu₁, c₁, hc₁, hac⟩ := unitsFor_group_cover srcs .first G a ha
  obtain ⟨u₂, hu₂, c₂, hc₂, hbc⟩ := unitsFor_group_cover srcs .second H b hb
  refine ⟨u₁, hu₁, u₂, hu₂, c₁, c₂, hc₁, hc₂, hac, hbc, ?_⟩
  by_cases hz : (resolveUnits srcs u₁ u₂).all (· == 0) = true
  · exact Or.inr hz
  · left
    rw [mem_build]
    refine ⟨_, (mem_allKeys srcs _).mpr ⟨s, hs, v, hk⟩, ?_⟩
    rw [emitKey_group_group, mem_emitGeneric]
    refine ⟨u₁, hu₁, u₂, hu₂, by rw [hc₁, hc₂], ?_⟩
    simp only [KSide.isGlyph, Bool.not_false, Bool.and_self, Bool.true_and]
    simpa using hz

end Fontc.Kern
