/-
  Helper lemmas for C18: names supplied through feature code — fea-rs' `NameBuilder` (explicit `nameid` records in any
  order, anonymous groups taking the next free id) and fontbe's merge with the compiler's own names. Core Lean only.
-/
import FontcProofs.NamesAlloc

namespace Fontc.Names

/-! ### explicit records -/

theorem foldl_add_records (l : List (Nat × FeaSpec)) (b : FeaBuilder) :
    (l.foldl (fun b p => b.add p.1 p.2) b).records = b.records ++ l := by
  induction l generalizing b with
  | nil => simp
  | cons p t ih =>
    rw [List.foldl_cons, ih]
    simp [FeaBuilder.add]

theorem foldl_add_last (l : List (Nat × FeaSpec)) (b : FeaBuilder) :
    b.last ≤ (l.foldl (fun b p => b.add p.1 p.2) b).last ∧
    (∀ p ∈ l, p.1 ≤ (l.foldl (fun b p => b.add p.1 p.2) b).last) ∧
    ((l.foldl (fun b p => b.add p.1 p.2) b).last = b.last ∨ ∃ p ∈ l, p.1 = (l.foldl (fun b p => b.add p.1 p.2) b).last) := by
  induction l generalizing b with
  | nil => simp
  | cons q t ih =>
    obtain ⟨h1, h2, h3⟩ := ih (b.add q.1 q.2)
    have hq : (b.add q.1 q.2).last = max b.last q.1 := rfl
    simp only [List.foldl_cons]
    refine ⟨by omega, ?_, ?_⟩
    · intro p hp
      rcases List.mem_cons.mp hp with e | hp
      · subst e; omega
      · exact h2 p hp
    · rcases h3 with h | ⟨p, hp, e⟩
      · by_cases hle : q.1 ≤ b.last
        · left; rw [h, hq]; omega
        · right; exact ⟨q, List.mem_cons_self, by rw [h, hq]; omega⟩
      · right; exact ⟨p, List.mem_cons_of_mem _ hp, e⟩

theorem feaExplicit_records (expl : List (Nat × FeaSpec)) : (feaExplicit expl).records = expl := by
  simp [feaExplicit, foldl_add_records, FeaBuilder.empty]

/-- `last_nonreserved_id` after the explicit records: the largest explicit id, at least 255 — whatever their order -/
theorem feaExplicit_last (expl : List (Nat × FeaSpec)) :
    255 ≤ (feaExplicit expl).last ∧ (∀ p ∈ expl, p.1 ≤ (feaExplicit expl).last) ∧
    ((feaExplicit expl).last = 255 ∨ ∃ p ∈ expl, p.1 = (feaExplicit expl).last) :=
  foldl_add_last expl FeaBuilder.empty

theorem feaExplicit_last_perm {e₁ e₂ : List (Nat × FeaSpec)} (h : e₁.Perm e₂) :
    (feaExplicit e₁).last = (feaExplicit e₂).last := by
  obtain ⟨a1, a2, a3⟩ := feaExplicit_last e₁
  obtain ⟨b1, b2, b3⟩ := feaExplicit_last e₂
  apply Nat.le_antisymm
  · rcases a3 with h' | ⟨p, hp, e⟩
    · omega
    · rw [← e]; exact b2 p (h.mem_iff.mp hp)
  · rcases b3 with h' | ⟨p, hp, e⟩
    · omega
    · rw [← e]; exact a2 p (h.mem_iff.mpr hp)

/-! ### anonymous groups -/

def nonEmptySpecs (g : List FeaSpec) : List FeaSpec := g.filter fun e => !e.str.isEmpty

theorem foldl_add_const_last (id : Nat) (l : List FeaSpec) (b : FeaBuilder) :
    (l.foldl (fun c e => c.add id e) b).last = if l = [] then b.last else max b.last id := by
  induction l generalizing b with
  | nil => simp
  | cons e t ih =>
    simp only [List.foldl_cons, ih, reduceCtorEq, if_false]
    have : (b.add id e).last = max b.last id := rfl
    split <;> simp [this]

theorem foldl_add_const_records (id : Nat) (l : List FeaSpec) (b : FeaBuilder) :
    (l.foldl (fun c e => c.add id e) b).records = b.records ++ l.map (fun e => (id, e)) := by
  induction l generalizing b with
  | nil => simp
  | cons e t ih =>
    rw [List.foldl_cons, ih]
    simp [FeaBuilder.add]

theorem addAnonGroup_id (b : FeaBuilder) (g : List FeaSpec) : (b.addAnonGroup g).2 = b.last + 1 := rfl

theorem addAnonGroup_records (b : FeaBuilder) (g : List FeaSpec) :
    (b.addAnonGroup g).1.records = b.records ++ (nonEmptySpecs g).map (fun e => (b.last + 1, e)) := by
  simp [FeaBuilder.addAnonGroup, FeaBuilder.nextId, foldl_add_const_records, nonEmptySpecs]

theorem addAnonGroup_last (b : FeaBuilder) (g : List FeaSpec) :
    (b.addAnonGroup g).1.last = if nonEmptySpecs g = [] then b.last else b.last + 1 := by
  simp only [FeaBuilder.addAnonGroup, FeaBuilder.nextId, foldl_add_const_last, nonEmptySpecs]
  by_cases h : List.filter (fun e => !List.isEmpty e.str) g = []
  · simp [h]
  · simp only [h, if_false]; omega

/-- the ids handed out depend on nothing but `last_nonreserved_id` -/
theorem addGroups_ids_congr (groups : List (List FeaSpec)) (b b' : FeaBuilder) (h : b.last = b'.last) :
    (b.addGroups groups).2 = (b'.addGroups groups).2 := by
  induction groups generalizing b b' with
  | nil => rfl
  | cons g gs ih =>
    simp only [FeaBuilder.addGroups, addAnonGroup_id, h]
    congr 1
    apply ih
    rw [addAnonGroup_last, addAnonGroup_last, h]

theorem addGroups_ids_gt (groups : List (List FeaSpec)) (b : FeaBuilder) :
    ∀ id ∈ (b.addGroups groups).2, b.last < id := by
  induction groups generalizing b with
  | nil => simp [FeaBuilder.addGroups]
  | cons g gs ih =>
    intro id hid
    simp only [FeaBuilder.addGroups, List.mem_cons] at hid
    rcases hid with e | hid
    · rw [e, addAnonGroup_id]; omega
    · have := ih _ id hid
      rw [addAnonGroup_last] at this
      split at this <;> omega

theorem addGroups_ids_increasing (groups : List (List FeaSpec)) (b : FeaBuilder)
    (hne : ∀ g ∈ groups, nonEmptySpecs g ≠ []) : (b.addGroups groups).2.Pairwise (· < ·) := by
  induction groups generalizing b with
  | nil => simp [FeaBuilder.addGroups]
  | cons g gs ih =>
    simp only [FeaBuilder.addGroups, List.pairwise_cons]
    refine ⟨?_, ih _ (fun g' hg' => hne g' (List.mem_cons_of_mem _ hg'))⟩
    intro id hid
    have := addGroups_ids_gt gs _ id hid
    rw [addAnonGroup_last, if_neg (hne g List.mem_cons_self)] at this
    rw [addAnonGroup_id]; exact this

theorem addGroups_length (groups : List (List FeaSpec)) (b : FeaBuilder) :
    (b.addGroups groups).2.length = groups.length := by
  induction groups generalizing b with
  | nil => rfl
  | cons g gs ih => simp [FeaBuilder.addGroups, ih]

/-- the records after all groups: the old ones, then each group's non-empty entries under the group's id -/
theorem addGroups_records (groups : List (List FeaSpec)) (b : FeaBuilder) :
    (b.addGroups groups).1.records =
      b.records ++ (groups.zip (b.addGroups groups).2).flatMap fun p => (nonEmptySpecs p.1).map fun e => (p.2, e) := by
  induction groups generalizing b with
  | nil => simp [FeaBuilder.addGroups]
  | cons g gs ih =>
    simp only [FeaBuilder.addGroups, List.zip_cons_cons, List.flatMap_cons]
    rw [ih, addAnonGroup_records, addAnonGroup_id, List.append_assoc]

/-- Under a group's id there is exactly what the group says (non-empty entries), nothing else. -/
theorem addGroups_exact (groups : List (List FeaSpec)) (b : FeaBuilder)
    (hold : ∀ r ∈ b.records, r.1 ≤ b.last) (hne : ∀ g ∈ groups, nonEmptySpecs g ≠ [])
    (g : List FeaSpec) (id : Nat) (hz : (g, id) ∈ groups.zip (b.addGroups groups).2) (sp : FeaSpec) :
    (id, sp) ∈ (b.addGroups groups).1.records ↔ sp ∈ nonEmptySpecs g := by
  induction groups generalizing b with
  | nil => simp [FeaBuilder.addGroups] at hz
  | cons g' gs ih =>
    have hne' : ∀ g ∈ gs, nonEmptySpecs g ≠ [] := fun g hg => hne g (List.mem_cons_of_mem _ hg)
    have hlast : (b.addAnonGroup g').1.last = b.last + 1 := by
      rw [addAnonGroup_last, if_neg (hne g' List.mem_cons_self)]
    have hold' : ∀ r ∈ (b.addAnonGroup g').1.records, r.1 ≤ (b.addAnonGroup g').1.last := by
      intro r hr
      rw [addAnonGroup_records] at hr
      rw [hlast]
      rcases List.mem_append.mp hr with h | h
      · have := hold r h; omega
      · obtain ⟨e, _, rfl⟩ := List.mem_map.mp h; simp
    simp only [FeaBuilder.addGroups, List.zip_cons_cons, List.mem_cons, Prod.mk.injEq] at hz
    simp only [FeaBuilder.addGroups]
    rcases hz with ⟨rfl, rfl⟩ | hz
    · -- the head group: later ids are larger, older ids are smaller
      rw [addGroups_records, addAnonGroup_records, addAnonGroup_id]
      simp only [List.mem_append, List.mem_map, List.mem_flatMap]
      constructor
      · rintro ((h | ⟨e, he, heq⟩) | ⟨p, hp, e, _, heq⟩)
        · have := hold _ h; simp at this; omega
        · simp at heq; rw [← heq]; exact he
        · have hgt := addGroups_ids_gt gs (b.addAnonGroup g).1 p.2 (List.of_mem_zip hp).2
          rw [hlast] at hgt
          simp at heq; omega
      · intro h
        exact Or.inl (Or.inr ⟨sp, h, rfl⟩)
    · have hgt := addGroups_ids_gt gs (b.addAnonGroup g').1 id (List.of_mem_zip hz).2
      rw [hlast] at hgt
      exact ih (b.addAnonGroup g').1 hold' hne' hz

/-! ### fontbe's merge -/

theorem alookup_foldl_ainsert (l : Table) (t : Table) (k : NameKey) :
    alookup k (l.foldl (fun t p => ainsert p.1 p.2 t) t) = (alookup k l.reverse).or (alookup k t) := by
  induction l generalizing t with
  | nil => simp
  | cons p l ih =>
    rw [List.foldl_cons, ih, List.reverse_cons, alookup_append, alookup_ainsert]
    obtain ⟨a, b⟩ := p
    simp only [alookup_cons, alookup_nil]
    cases alookup k l.reverse <;> split <;> simp

theorem alookup_reverse_of_nodup {l : Table} (hn : (akeys l).Nodup) (k : NameKey) : alookup k l.reverse = alookup k l := by
  have hn' : (akeys l.reverse).Nodup := by
    simp only [akeys, List.map_reverse]
    exact List.pairwise_reverse.mpr (List.Pairwise.imp (fun h => Ne.symm h) hn)
  cases h : alookup k l with
  | none =>
    rw [alookup_eq_none_iff] at h ⊢
    intro v hv; exact h v (List.mem_reverse.mp hv)
  | some v =>
    exact alookup_of_mem_nodup hn' (List.mem_reverse.mpr (mem_of_alookup h))

/-- the merged table: FEA's record if there is one for the key, else the compiler's own -/
theorem alookup_mergeNames {own fea : Table} (ho : (akeys own).Nodup) (hf : (akeys fea).Nodup) (k : NameKey) :
    alookup k (mergeNames own fea) = (alookup k fea).or (alookup k own) := by
  unfold mergeNames
  rw [alookup_foldl_ainsert, List.reverse_append, alookup_append, alookup_reverse_of_nodup ho,
    alookup_reverse_of_nodup hf]
  simp

end Fontc.Names
