/-
  C06 helper lemmas, part 5: cmap, the inlining of non-export components, which glyphs get compiled.
-/
import FontcModel.GlyphOrder
import FontcProofs.GlyphOrderBasic
import FontcProofs.GlyphOrderTable
import FontcProofs.GlyphOrderFinal

namespace Fontc.GlyphOrder

/-! ### cmap -/

theorem mem_cmapMappings {order : List String} {t : Table} {cp gid : Nat} :
    (cp, gid) ∈ cmapMappings order t ↔
      ∃ n g, order[gid]? = some n ∧ t.get n = some g ∧ cp ∈ g.codepoints := by
  unfold cmapMappings
  simp only [List.mem_flatMap, List.mem_map, Prod.mk.injEq]
  constructor
  · rintro ⟨⟨n, i⟩, hmem, cp', hcp, rfl, rfl⟩
    have hget : order[i]? = some n := List.mem_zipIdx_iff_getElem?.mp hmem
    cases hg : t.get n with
    | none => simp [hg] at hcp
    | some g => exact ⟨n, g, hget, hg, by simpa [hg] using hcp⟩
  · rintro ⟨n, g, hget, hg, hcp⟩
    refine ⟨(n, gid), List.mem_zipIdx_iff_getElem?.mpr hget, cp, ?_, rfl, rfl⟩
    simp [hg, hcp]

theorem fromMappings_eq_some {m m' : List (Nat × Nat)} (h : fromMappings m = some m') :
    m' = m ∧ ∀ a ∈ m, ∀ b ∈ m, a.1 = b.1 → a.2 = b.2 := by
  unfold fromMappings at h
  split at h
  · rename_i hall
    injection h with h
    refine ⟨h.symm, ?_⟩
    intro a ha b hb hab
    have := List.all_eq_true.mp hall a ha
    have := List.all_eq_true.mp this b hb
    simp only [Bool.or_eq_true, bne_iff_ne, ne_eq, beq_iff_eq] at this
    rcases this with h1 | h1
    · exact absurd hab h1
    · exact h1
  · simp at h

theorem fromMappings_eq_none {m : List (Nat × Nat)} (h : fromMappings m = none) :
    ∃ a ∈ m, ∃ b ∈ m, a.1 = b.1 ∧ a.2 ≠ b.2 := by
  unfold fromMappings at h
  split at h
  · simp at h
  · rename_i hall
    apply Classical.byContradiction
    intro hno
    apply hall
    simp only [List.all_eq_true, Bool.or_eq_true, bne_iff_ne, ne_eq, beq_iff_eq]
    intro a ha b hb
    by_cases e : a.1 = b.1
    · right
      by_cases e2 : a.2 = b.2
      · exact e2
      · exact absurd ⟨a, ha, b, hb, e, e2⟩ hno
    · left; exact e

theorem fromMappings_of_functional {m : List (Nat × Nat)} (h : ∀ a ∈ m, ∀ b ∈ m, a.1 = b.1 → a.2 = b.2) :
    fromMappings m = some m := by
  unfold fromMappings
  rw [if_pos]
  simp only [List.all_eq_true, Bool.or_eq_true, bne_iff_ne, ne_eq, beq_iff_eq]
  intro a ha b hb
  by_cases e : a.1 = b.1
  · exact Or.inr (h a ha b hb e)
  · exact Or.inl e

/-! ### inlining non-export components (`flattenAll`) -/

theorem flattenOne_get_other (snap cur : Table) (n m : String) (h : m ≠ n) :
    (flattenOne snap cur n).get m = cur.get m := by
  unfold flattenOne
  cases hg : snap.get n with
  | none => rfl
  | some g =>
    simp only
    split
    · rw [Table.get_set]
      have : ¬ g.name = m := by rw [Table.get_name hg]; exact fun e => h e.symm
      simp [this]
    · rfl

/-- the processing order is topological for non-export references: a non-export component was processed before,
    or needs no processing itself -/
def TopoOk (snap : Table) : List String → List String → Prop
  | _, [] => True
  | pre, n :: post =>
    (∀ c ∈ snap.comps n, snap.isExport c = false →
      c ∈ pre ∨ ∀ c' ∈ snap.comps c, snap.isExport c' = true) ∧ TopoOk snap (pre ++ [n]) post

structure FlatInv (snap cur : Table) (pre : List String) : Prop where
  done : ∀ n ∈ pre, ∀ c ∈ cur.comps n, snap.isExport c = true
  rest : ∀ n, n ∉ pre → cur.get n = snap.get n

theorem flattenOne_inv (snap cur : Table) (pre : List String) (n : String) (h : FlatInv snap cur pre)
    (htopo : ∀ c ∈ snap.comps n, snap.isExport c = false →
      c ∈ pre ∨ ∀ c' ∈ snap.comps c, snap.isExport c' = true) :
    FlatInv snap (flattenOne snap cur n) (pre ++ [n]) := by
  -- components of a non-export component of n, as seen in cur, are exported
  have hsub : ∀ c ∈ snap.comps n, snap.isExport c = false → ∀ c' ∈ cur.comps c, snap.isExport c' = true := by
    intro c hc hne c' hc'
    by_cases hp : c ∈ pre
    · exact h.done c hp c' hc'
    · rcases htopo c hc hne with h1 | h1
      · exact absurd h1 hp
      · have : cur.comps c = snap.comps c := by unfold Table.comps; rw [h.rest c hp]
        exact h1 c' (this ▸ hc')
  constructor
  · intro m hm c hc
    by_cases hmn : m = n
    · subst hmn
      unfold flattenOne at hc
      cases hg : snap.get m with
      | none =>
        simp only [hg] at hc
        by_cases hp : m ∈ pre
        · exact h.done m hp c hc
        · unfold Table.comps at hc; rw [h.rest m hp, hg] at hc; simp at hc
      | some g =>
        simp only [hg] at hc
        have hcomps : snap.comps m = g.components := by unfold Table.comps; rw [hg]; rfl
        split at hc
        · unfold Table.comps at hc
          rw [Table.get_set] at hc
          simp only [Table.get_name hg, if_true, Option.map_some, Option.getD_some, List.mem_flatMap] at hc
          obtain ⟨c0, hc0, hcm⟩ := hc
          by_cases he : snap.isExport c0 = true
          · simp only [he, if_true, List.mem_singleton] at hcm
            rw [hcm]; exact he
          · have he' : snap.isExport c0 = false := by simpa using he
            simp only [he', Bool.false_eq_true, if_false] at hcm
            exact hsub c0 (hcomps ▸ hc0) he' c hcm
        · rename_i hany
          -- no non-export component: every component of the snapshot glyph is exported
          have hall : ∀ c ∈ g.components, snap.isExport c = true := by
            intro c0 hc0
            have := hany
            simp only [List.any_eq_true, Bool.not_eq_eq_eq_not, Bool.not_true, not_exists, not_and,
              Bool.not_eq_false] at this
            exact this c0 hc0
          by_cases hp : m ∈ pre
          · exact h.done m hp c hc
          · unfold Table.comps at hc; rw [h.rest m hp, hg] at hc
            exact hall c (by simpa using hc)
    · have hm' : m ∈ pre := by
        rcases List.mem_append.mp hm with h1 | h1
        · exact h1
        · simp only [List.mem_singleton] at h1; exact absurd h1 hmn
      have : (flattenOne snap cur n).comps m = cur.comps m := by
        unfold Table.comps; rw [flattenOne_get_other snap cur n m hmn]
      rw [this] at hc
      exact h.done m hm' c hc
  · intro m hm
    have hmn : m ≠ n := fun e => hm (by simp [e])
    have hmp : m ∉ pre := fun e => hm (List.mem_append_left _ e)
    rw [flattenOne_get_other snap cur n m hmn]
    exact h.rest m hmp

theorem foldl_flattenOne_inv (snap : Table) : ∀ (order pre : List String) (cur : Table),
    FlatInv snap cur pre → TopoOk snap pre order →
    FlatInv snap (order.foldl (flattenOne snap) cur) (pre ++ order)
  | [], pre, cur, h, _ => by simpa using h
  | n :: rest, pre, cur, h, ht => by
    have := foldl_flattenOne_inv snap rest (pre ++ [n]) (flattenOne snap cur n)
      (flattenOne_inv snap cur pre n h ht.1) ht.2
    simpa using this

/-! ### compiled glyphs -/

theorem allCompiled_of_no_shadow (s : Source) (f : Final) (hs : FinalShape s f)
    (hyp : ∀ g ∈ s.glyphs, g.exported = false → g.name ∉ f.order) : allCompiled s f = true := by
  unfold allCompiled
  rw [List.all_eq_true]
  intro n hn
  apply decide_eq_true
  unfold compiledNames
  rw [List.mem_append]
  by_cases hk : n ∈ s.kept
  · left
    unfold Source.kept at hk
    obtain ⟨_, hexp⟩ := List.mem_filter.mp hk
    unfold Table.isExport at hexp
    cases hg : s.table.get n with
    | none => simp [hg] at hexp
    | some g =>
      rw [List.mem_map]
      exact ⟨g, List.mem_filter.mpr ⟨Table.get_ofList_mem hg, by simpa [hg] using hexp⟩, Table.get_name hg⟩
  · by_cases hp : n ∈ s.prelim
    · exfalso
      have hsome := hs.prelim_known n hp
      cases hg : s.table.get n with
      | none => simp [hg] at hsome
      | some g =>
        have hne : g.exported = false := by
          have : s.table.isExport n = false := by
            cases hx : s.table.isExport n with
            | false => rfl
            | true => exact absurd (List.mem_filter.mpr ⟨hp, hx⟩) hk
          unfold Table.isExport at this
          simpa [hg] using this
        have := hyp g (Table.get_ofList_mem hg) hne
        rw [Table.get_name hg] at this
        exact this hn
    · right
      exact List.mem_filter.mpr ⟨hn, by simpa using hp⟩

end Fontc.GlyphOrder
