/-
  One iteration of the outer loop of `overlay_feature_variations` preserves the invariant.
-/
import FontcProofs.FeatVarsInv

namespace Fontc.FeatVars

section
variable {ρ : Type} {ops : RankOps ρ} {N : Nat} (law : LawfulRank ops N)
variable {n : Nat} {L H : Bnd} {p : Point} {k : Nat} {reg : Region} {A A' : Nat → Prop}

/-- the standing assumptions of one iteration of the outer loop (rule `k`, region `reg`) -/
structure StepCtx (N n : Nat) (L H : Bnd) (p : Point) (k : Nat) (reg : Region) (A A' : Nat → Prop) : Prop where
  hk : k < N
  hp : p.length = n
  hnt : NoTouch L H p
  hreg : ∀ c ∈ reg, c.length = n ∧ BoxOk c ∧ InB L H c
  hA' : ∀ j, A' j ↔ (A j ∨ (j = k ∧ regionContains reg p = true))

theorem stepBox_pres (ctx : StepCtx N n L H p k reg A A') {box : NBox} {rank : ρ} {acc : BoxMap ρ} {c : NBox}
    (hc : c ∈ reg) (hbox : box.length = n ∧ BoxOk box ∧ law.Inv rank)
    (hsound : contains box p = true → ∀ j, law.bits rank j = true → A j)
    (hs : Shape law n acc) (hm : SoundAt law p A' acc) :
    Shape law n (stepBox ops (ops.single k) box rank acc c) ∧
    SoundAt law p A' (stepBox ops (ops.single k) box rank acc c) ∧
    (HasWit law L H p A' acc → HasWit law L H p A' (stepBox ops (ops.single k) box rank acc c)) := by
  obtain ⟨hcl, hcok, _⟩ := ctx.hreg c hc
  have hl : c.length = box.length := by rw [hcl, hbox.1]
  have hpl : p.length = box.length := by rw [ctx.hp, hbox.1]
  have hInvOr : law.Inv (ops.or rank (ops.single k)) := law.inv_or _ _ hbox.2.2 (law.inv_single k ctx.hk)
  unfold stepBox
  -- first add: the intersection
  have h1 : ∀ i, (overlayOnto c box).1 = some i →
      Shape law n (boxmapAdd ops acc i (ops.or rank (ops.single k))) ∧
      SoundAt law p A' (boxmapAdd ops acc i (ops.or rank (ops.single k))) ∧
      (HasWit law L H p A' acc → HasWit law L H p A' (boxmapAdd ops acc i (ops.or rank (ops.single k)))) := by
    intro i hi
    obtain ⟨il, iok, ieq⟩ := overlayOnto_inter_shape hcok hbox.2.1 hl hi
    have hbr : contains i p = true → ∀ j, law.bits (ops.or rank (ops.single k)) j = true → A' j := by
      intro hci j hj
      rw [ieq, contains_inter c box p hcok hbox.2.1 hl hpl] at hci
      have hci := Bool.and_eq_true_iff.1 hci
      rw [law.bits_or _ _ _ hbox.2.2 (law.inv_single k ctx.hk), law.bits_single _ _ ctx.hk] at hj
      rw [ctx.hA']
      rcases Bool.or_eq_true_iff.1 hj with hj | hj
      · exact Or.inl (hsound hci.2 j hj)
      · refine Or.inr ⟨by simpa using hj, ?_⟩
        exact List.any_eq_true.2 ⟨c, hc, hci.1⟩
    exact ⟨shape_add law hs ⟨by rw [il, hbox.1], iok⟩ hInvOr, sound_add law hs hm hInvOr hbr,
      fun hw => wit_add_keep law hs hw hInvOr hbr⟩
  -- second add: the remainder
  have h2 : ∀ (acc : BoxMap ρ) r, Shape law n acc → SoundAt law p A' acc → (overlayOnto c box).2 = some r →
      Shape law n (boxmapAdd ops acc r rank) ∧ SoundAt law p A' (boxmapAdd ops acc r rank) ∧
      (HasWit law L H p A' acc → HasWit law L H p A' (boxmapAdd ops acc r rank)) := by
    intro acc r hs hm hr
    obtain ⟨rl, rok, rsub⟩ := overlayOnto_rem_shape hcok hbox.2.1 hl hr
    have hbr : contains r p = true → ∀ j, law.bits rank j = true → A' j := by
      intro hcr j hj
      rw [ctx.hA']
      exact Or.inl (hsound (rsub p hcr) j hj)
    exact ⟨shape_add law hs ⟨by rw [rl, hbox.1], rok⟩ hbox.2.2, sound_add law hs hm hbox.2.2 hbr,
      fun hw => wit_add_keep law hs hw hbox.2.2 hbr⟩
  cases hi : (overlayOnto c box).1 with
  | none =>
    cases hr : (overlayOnto c box).2 with
    | none =>
      have : overlayOnto c box = (none, none) := Prod.ext hi hr
      simp only [this]
      exact ⟨hs, hm, fun h => h⟩
    | some r =>
      have : overlayOnto c box = (none, some r) := Prod.ext hi hr
      simp only [this]
      exact h2 acc r hs hm hr
  | some i =>
    obtain ⟨a1, a2, a3⟩ := h1 i hi
    cases hr : (overlayOnto c box).2 with
    | none =>
      have : overlayOnto c box = (some i, none) := Prod.ext hi hr
      simp only [this]
      exact ⟨a1, a2, a3⟩
    | some r =>
      have : overlayOnto c box = (some i, some r) := Prod.ext hi hr
      simp only [this]
      obtain ⟨b1, b2, b3⟩ := h2 _ r a1 a2 hr
      exact ⟨b1, b2, fun h => b3 (a3 h)⟩

/-- the step that creates the new witness: the old witness box `box` overlaid with a suitable box `c` of the
    region (one containing `p` if there is one, any box otherwise) -/
theorem stepBox_est (ctx : StepCtx N n L H p k reg A A') {box : NBox} {rank : ρ} {acc : BoxMap ρ} {c : NBox}
    (hc : c ∈ reg) (hbox : box.length = n ∧ BoxOk box ∧ law.Inv rank)
    (hg : Good L H box p) (hbits : ∀ j, law.bits rank j = true ↔ A j)
    (hcase : contains c p = true ∨ regionContains reg p = false)
    (hs : Shape law n acc) (hm : SoundAt law p A' acc) :
    HasWit law L H p A' (stepBox ops (ops.single k) box rank acc c) := by
  obtain ⟨hcl, hcok, hcin⟩ := ctx.hreg c hc
  have hl : c.length = box.length := by rw [hcl, hbox.1]
  have hpl : p.length = box.length := by rw [ctx.hp, hbox.1]
  have hInvOr : law.Inv (ops.or rank (ops.single k)) := law.inv_or _ _ hbox.2.2 (law.inv_single k ctx.hk)
  have hsound : contains box p = true → ∀ j, law.bits rank j = true → A j := fun _ j hj => (hbits j).1 hj
  -- soundness side conditions of the two adds
  have hbrI : ∀ i, (overlayOnto c box).1 = some i →
      (i.length = n ∧ BoxOk i) ∧ (contains i p = true → ∀ j, law.bits (ops.or rank (ops.single k)) j = true → A' j) := by
    intro i hi
    obtain ⟨il, iok, ieq⟩ := overlayOnto_inter_shape hcok hbox.2.1 hl hi
    refine ⟨⟨by rw [il, hbox.1], iok⟩, ?_⟩
    intro hci j hj
    rw [ieq, contains_inter c box p hcok hbox.2.1 hl hpl] at hci
    have hci := Bool.and_eq_true_iff.1 hci
    rw [law.bits_or _ _ _ hbox.2.2 (law.inv_single k ctx.hk), law.bits_single _ _ ctx.hk] at hj
    rw [ctx.hA']
    rcases Bool.or_eq_true_iff.1 hj with hj | hj
    · exact Or.inl (hsound hci.2 j hj)
    · exact Or.inr ⟨by simpa using hj, List.any_eq_true.2 ⟨c, hc, hci.1⟩⟩
  have hbrR : ∀ r, (overlayOnto c box).2 = some r →
      (r.length = n ∧ BoxOk r) ∧ (contains r p = true → ∀ j, law.bits rank j = true → A' j) := by
    intro r hr
    obtain ⟨rl, rok, rsub⟩ := overlayOnto_rem_shape hcok hbox.2.1 hl hr
    refine ⟨⟨by rw [rl, hbox.1], rok⟩, ?_⟩
    intro hcr j hj
    rw [ctx.hA']
    exact Or.inl (hsound (rsub p hcr) j hj)
  unfold stepBox
  rcases hcase with hcp | hnone
  · -- `p` is in `c`: the intersection is the new witness
    obtain ⟨hi, hgi⟩ := step_inter c box p hg hcp hcin ctx.hnt hcok hbox.2.1 hl hpl
    have hbitsI : ∀ j, law.bits (ops.or rank (ops.single k)) j = true ↔ A' j := by
      intro j
      rw [law.bits_or _ _ _ hbox.2.2 (law.inv_single k ctx.hk), law.bits_single _ _ ctx.hk, ctx.hA',
        Bool.or_eq_true_iff]
      have hrc : regionContains reg p = true := List.any_eq_true.2 ⟨c, hc, hcp⟩
      constructor
      · rintro (h | h)
        · exact Or.inl ((hbits j).1 h)
        · exact Or.inr ⟨by simpa using h, hrc⟩
      · rintro (h | h)
        · exact Or.inl ((hbits j).2 h)
        · exact Or.inr (by simpa using h.1)
    obtain ⟨ishape, _⟩ := hbrI _ hi
    have w1 := wit_add_new law hs hm hInvOr hgi hbitsI
    have s1 := shape_add law hs ishape hInvOr
    cases hr : (overlayOnto c box).2 with
    | none =>
      have : overlayOnto c box = (some (interBox c box), none) := Prod.ext hi hr
      simp only [this]; exact w1
    | some r =>
      have : overlayOnto c box = (some (interBox c box), some r) := Prod.ext hi hr
      simp only [this]
      obtain ⟨_, hbr⟩ := hbrR r hr
      exact wit_add_keep law s1 w1 hbox.2.2 hbr
  · -- `p` is in no box of the region: the remainder is the new witness, and `A' = A`
    have hcp : contains c p = false := by
      cases h : contains c p with
      | false => rfl
      | true =>
        have : regionContains reg p = true := List.any_eq_true.2 ⟨c, hc, h⟩
        rw [hnone] at this; cases this
    obtain ⟨r, hr, hgr⟩ := step_rem c box p hg hcp hcok hbox.2.1 hl hpl
    have hbitsR : ∀ j, law.bits rank j = true ↔ A' j := by
      intro j
      rw [ctx.hA', hnone, hbits j]
      simp
    obtain ⟨rshape, _⟩ := hbrR r hr
    cases hi : (overlayOnto c box).1 with
    | none =>
      have : overlayOnto c box = (none, some r) := Prod.ext hi hr
      simp only [this]
      exact wit_add_new law hs hm hbox.2.2 hgr hbitsR
    | some i =>
      have : overlayOnto c box = (some i, some r) := Prod.ext hi hr
      simp only [this]
      obtain ⟨ishape, hbr⟩ := hbrI i hi
      exact wit_add_new law (shape_add law hs ishape hInvOr) (sound_add law hs hm hInvOr hbr) hbox.2.2 hgr hbitsR

theorem initMap_shape : Shape law n (initMap ops n) := by
  intro e he
  simp [initMap] at he
  subst he
  exact ⟨by simp [emptyBox], emptyBox_ok n, law.inv_zero⟩

theorem initMap_sound : SoundAt law p A' (initMap ops n) := by
  intro e he _ j hj
  simp [initMap] at he
  subst he
  simp [law.bits_zero] at hj

/-- inner loop over the boxes of the region, for one old entry -/
theorem innerFold_pres (ctx : StepCtx N n L H p k reg A A') {box : NBox} {rank : ρ}
    (hbox : box.length = n ∧ BoxOk box ∧ law.Inv rank)
    (hsound : contains box p = true → ∀ j, law.bits rank j = true → A j)
    (cs : List NBox) (hcs : ∀ c ∈ cs, c ∈ reg) (acc : BoxMap ρ)
    (h : Shape law n acc ∧ SoundAt law p A' acc) :
    (Shape law n (cs.foldl (stepBox ops (ops.single k) box rank) acc) ∧
      SoundAt law p A' (cs.foldl (stepBox ops (ops.single k) box rank) acc)) ∧
    (HasWit law L H p A' acc → HasWit law L H p A' (cs.foldl (stepBox ops (ops.single k) box rank) acc)) := by
  induction cs generalizing acc with
  | nil => exact ⟨h, fun h => h⟩
  | cons c cs ih =>
    simp only [List.foldl_cons]
    obtain ⟨a1, a2, a3⟩ := stepBox_pres law ctx (hcs c (by simp)) hbox hsound h.1 h.2
    obtain ⟨b1, b2⟩ := ih (fun c' hc' => hcs c' (List.mem_cons_of_mem _ hc')) _ ⟨a1, a2⟩
    exact ⟨b1, fun hw => b2 (a3 hw)⟩

theorem stepRule_inv (ctx : StepCtx N n L H p k reg A A') (hne : reg ≠ []) {m : BoxMap ρ}
    (hs : Shape law n m) (hm : SoundAt law p A m) (hw : HasWit law L H p A m) :
    Shape law n (stepRule ops n m k reg) ∧ SoundAt law p A' (stepRule ops n m k reg) ∧
      HasWit law L H p A' (stepRule ops n m k reg) := by
  unfold stepRule
  -- the outer fold function, with the pair projected
  have hf : (fun (acc : BoxMap ρ) (x : NBox × ρ) =>
        match x with | (box, rank) => reg.foldl (stepBox ops (ops.single k) box rank) acc) =
      fun acc x => reg.foldl (stepBox ops (ops.single k) x.1 x.2) acc := by
    funext acc x; cases x; rfl
  rw [hf]
  have hP : ∀ (b : BoxMap ρ) (e : NBox × ρ), e ∈ m → (Shape law n b ∧ SoundAt law p A' b) →
      (Shape law n (reg.foldl (stepBox ops (ops.single k) e.1 e.2) b) ∧
        SoundAt law p A' (reg.foldl (stepBox ops (ops.single k) e.1 e.2) b)) := by
    intro b e he hb
    exact (innerFold_pres law ctx (hs e he) (hm e he) reg (fun _ h => h) b hb).1
  have hQ : ∀ (b : BoxMap ρ) (e : NBox × ρ), e ∈ m → (Shape law n b ∧ SoundAt law p A' b) →
      HasWit law L H p A' b → HasWit law L H p A' (reg.foldl (stepBox ops (ops.single k) e.1 e.2) b) := by
    intro b e he hb hwb
    exact (innerFold_pres law ctx (hs e he) (hm e he) reg (fun _ h => h) b hb).2 hwb
  have hinit : Shape law n (initMap ops n) ∧ SoundAt law p A' (initMap ops n) :=
    ⟨initMap_shape law, initMap_sound law⟩
  refine ⟨(foldl_preserve (P := fun b => Shape law n b ∧ SoundAt law p A' b) hP _ hinit).1,
    (foldl_preserve (P := fun b => Shape law n b ∧ SoundAt law p A' b) hP _ hinit).2, ?_⟩
  obtain ⟨e, he, hg, hbits⟩ := hw
  -- the box of the region used with the old witness
  have hcstar : ∃ c ∈ reg, contains c p = true ∨ regionContains reg p = false := by
    cases hrc : regionContains reg p with
    | true =>
      obtain ⟨c, hc, hcp⟩ := List.any_eq_true.1 hrc
      exact ⟨c, hc, Or.inl hcp⟩
    | false =>
      cases reg with
      | nil => exact absurd rfl hne
      | cons c _ => exact ⟨c, by simp, Or.inr rfl⟩
  obtain ⟨c, hc, hcase⟩ := hcstar
  refine foldl_establish (P := fun b => Shape law n b ∧ SoundAt law p A' b) (Q := HasWit law L H p A')
    he hP hQ ?_ _ hinit
  intro b hb
  have hbox := hs e he
  have hsound : contains e.1 p = true → ∀ j, law.bits e.2 j = true → A j := hm e he
  refine foldl_establish (P := fun b => Shape law n b ∧ SoundAt law p A' b) (Q := HasWit law L H p A')
    hc ?_ ?_ ?_ b hb
  · intro b' c' hc' hb'
    obtain ⟨a1, a2, _⟩ := stepBox_pres law ctx hc' hbox hsound hb'.1 hb'.2
    exact ⟨a1, a2⟩
  · intro b' c' hc' hb' hw'
    exact (stepBox_pres law ctx hc' hbox hsound hb'.1 hb'.2).2.2 hw'
  · intro b' hb'
    exact stepBox_est law ctx hc hbox hg hbits hcase hb'.1 hb'.2
end
end Fontc.FeatVars
