/-
  C11 simulation, part 4: a feature block whose statements are `lookupflag` and rule statements.
-/
import FontcProofs.FeaSimRun

namespace Fontc.FeaCompile
open Cmp
set_option linter.unusedSimpArgs false

theorem CompiledRun.mono {fx : Fixes} {aIds fIds : List (List Glyph)} {f : Flag} {rules : List Rule} {id : LookupId}
    {ls : List OT.Lookup} (h : CompiledRun fx aIds fIds f rules id ls) (a' f' : List (List Glyph)) :
    CompiledRun fx (aIds ++ a') (fIds ++ f') f rules id ls := by
  obtain ⟨h1, h2, h0, cf, named, root, h3, h4, h5⟩ := h
  exact ⟨h1, h2, h0, cf, named, root, h3.mono a' f', h4, h5⟩

/-- the `lookupflag` statement -/
theorem flag_step (fx : Fixes) (w : Src.Walk) (s : St) (f : Flag)
    (hrel : RunRel fx w.cur w.flag s) (hids : IdsInv s) :
    RunRel fx w.cur f (s.setLookupFlag f) ∧ IdsInv (s.setLookupFlag f) ∧
    (∃ a', (s.setLookupFlag f).attachIds = s.attachIds ++ a' ∧ ∀ c ∈ a', f.attach.map sortedSet = some c) ∧
    (∃ f', (s.setLookupFlag f).filterIds = s.filterIds ++ f') ∧
    (s.setLookupFlag f).gsub = s.gsub ∧ (s.setLookupFlag f).gpos = s.gpos ∧
    (s.setLookupFlag f).curName = s.curName ∧ (s.setLookupFlag f).named = s.named ∧
    (s.setLookupFlag f).langsys = s.langsys ∧ (s.setLookupFlag f).active = s.active ∧
    (s.setLookupFlag f).script = s.script ∧ (s.setLookupFlag f).features = s.features := by
  obtain ⟨hcode, hids', ⟨a', ha', hall⟩, ⟨f', hf'⟩, hg, hp, hc, hcn, hn, hl, hact, hsc, hfe⟩ := setLookupFlag_spec s f hids
  refine ⟨⟨hcode, ?_⟩, hids', ⟨a', ha', hall⟩, ⟨f', hf'⟩, hg, hp, hcn, hn, hl, hact, hsc, hfe⟩
  obtain ⟨_, hcur⟩ := hrel
  cases hw : w.cur with
  | none => rw [hw] at hcur; simp only at hcur ⊢; rw [hc]; exact hcur
  | some p =>
    obtain ⟨reg, f0, rules⟩ := p
    rw [hw] at hcur
    simp only at hcur ⊢
    obtain ⟨hne, hk, cf, hscur, hcf⟩ := hcur
    refine ⟨hne, hk, cf, ?_, ?_⟩
    · rw [hc, hg, namedId_congr hn]; exact hscur
    · rw [ha', hf']; exact hcf.mono a' f'

/-- the state only grew: lookups and ids were appended -/
def Grew (s s' : St) : Prop :=
  (∃ g, s'.gsub = s.gsub ++ g) ∧ (∃ p, s'.gpos = s.gpos ++ p) ∧
  (∃ a, s'.attachIds = s.attachIds ++ a) ∧ (∃ f, s'.filterIds = s.filterIds ++ f)

theorem Grew.refl (s : St) : Grew s s := ⟨⟨[], by simp⟩, ⟨[], by simp⟩, ⟨[], by simp⟩, ⟨[], by simp⟩⟩

theorem Grew.trans {a b c : St} (h1 : Grew a b) (h2 : Grew b c) : Grew a c := by
  obtain ⟨⟨g1, e1⟩, ⟨p1, e2⟩, ⟨a1, e3⟩, ⟨f1, e4⟩⟩ := h1
  obtain ⟨⟨g2, d1⟩, ⟨p2, d2⟩, ⟨a2, d3⟩, ⟨f2, d4⟩⟩ := h2
  exact ⟨⟨g1 ++ g2, by rw [d1, e1, List.append_assoc]⟩, ⟨p1 ++ p2, by rw [d2, e2, List.append_assoc]⟩,
    ⟨a1 ++ a2, by rw [d3, e3, List.append_assoc]⟩, ⟨f1 ++ f2, by rw [d4, e4, List.append_assoc]⟩⟩

/-- order of lookup ids within a table -/
def idLt : LookupId → LookupId → Prop
  | .gsub m, .gsub n => m < n
  | .gpos m, .gpos n => m < n
  | _, _ => True

def idBelow (s : St) : LookupId → Prop
  | .gsub n => n < s.gsub.length
  | .gpos n => n < s.gpos.length
  | .empty => False

theorem idBelow.mono {s s' : St} (h : Grew s s') {id : LookupId} (hb : idBelow s id) : idBelow s' id := by
  obtain ⟨⟨g, e1⟩, ⟨p, e2⟩, _, _⟩ := h
  cases id <;> simp_all [idBelow] <;> omega

/-- the anonymous lookups (runs of rules) a feature block has put out ↔ their ids -/
def OutRel (fx : Fixes) (s : St) : List (Src.Reg × Src.Item) → List LookupId → Prop
  | [], [] => True
  | (reg, .defn l) :: items, id :: ids =>
    reg = .root ∧ l.name = none ∧
    (∃ ls, CompiledRun fx s.attachIds s.filterIds l.flag l.rules id ls ∧ Placed s.gsub s.gpos id ls) ∧
    OutRel fx s items ids
  | _, _ => False

theorem OutRel.mono {fx : Fixes} {s s' : St} (h : Grew s s') :
    ∀ {items : List (Src.Reg × Src.Item)} {ids : List LookupId}, OutRel fx s items ids → OutRel fx s' items ids := by
  obtain ⟨⟨g, e1⟩, ⟨p, e2⟩, ⟨a, e3⟩, ⟨f, e4⟩⟩ := h
  intro items
  induction items with
  | nil => intro ids h; cases ids <;> simp_all [OutRel]
  | cons it items ih =>
    intro ids h
    obtain ⟨reg, item⟩ := it
    cases item with
    | ref n => cases ids <;> simp [OutRel] at h
    | defn l =>
      cases ids with
      | nil => simp [OutRel] at h
      | cons id ids =>
        simp only [OutRel] at h ⊢
        obtain ⟨h1, h2, ⟨ls, hc, hp⟩, h4⟩ := h
        refine ⟨h1, h2, ⟨ls, ?_, ?_⟩, ih h4⟩
        · rw [e3, e4]; exact hc.mono a f
        · rw [e1, e2]; exact hp.mono g p

theorem OutRel.snoc {fx : Fixes} {s : St} :
    ∀ {items : List (Src.Reg × Src.Item)} {ids : List LookupId}, OutRel fx s items ids →
    ∀ (l : Src.Lookup) (id : LookupId), l.name = none →
    (∃ ls, CompiledRun fx s.attachIds s.filterIds l.flag l.rules id ls ∧ Placed s.gsub s.gpos id ls) →
    OutRel fx s (items ++ [(.root, .defn l)]) (ids ++ [id]) := by
  intro items
  induction items with
  | nil =>
    intro ids h l id hn hc
    cases ids with
    | nil => exact ⟨rfl, hn, hc, trivial⟩
    | cons _ _ => simp [OutRel] at h
  | cons it items ih =>
    intro ids h l id hn hc
    obtain ⟨reg, item⟩ := it
    cases item with
    | ref n => cases ids <;> simp [OutRel] at h
    | defn l0 =>
      cases ids with
      | nil => simp [OutRel] at h
      | cons id0 ids =>
        simp only [OutRel, List.cons_append] at h ⊢
        exact ⟨h.1, h.2.1, h.2.2.1, ih h.2.2.2 l id hn hc⟩

theorem OutRel.length {fx : Fixes} {s : St} :
    ∀ {items : List (Src.Reg × Src.Item)} {ids : List LookupId}, OutRel fx s items ids → items.length = ids.length := by
  intro items
  induction items with
  | nil => intro ids h; cases ids <;> simp_all [OutRel]
  | cons it items ih =>
    intro ids h
    obtain ⟨reg, item⟩ := it
    cases item with
    | ref n => cases ids <;> simp [OutRel] at h
    | defn l =>
      cases ids with
      | nil => simp [OutRel] at h
      | cons id ids => simp only [OutRel] at h; simp [ih h.2.2.2]

/-- no rule statement mixes with the run in progress when it arrives -/
def NoMixFrom (w : Src.Walk) : List Stmt → Prop
  | [] => True
  | st :: rest =>
    (match st with
     | .rule r => ∀ reg f rules, w.cur = some (reg, f, rules) → f = w.flag → Wf.mixes (headKind rules) r.kind = false
     | _ => True) ∧ NoMixFrom (Src.walkStmt w st) rest

/-- every `lookupflag` of the statements is normalised and takes its attachment class from `U` -/
def FlagsOk (U : List (List Glyph)) (body : List Stmt) : Prop :=
  ∀ f, Stmt.flag f ∈ body → FlagNorm f ∧ ∀ c, f.attach = some c → sortedSet c ∈ U

def rootKey : Sys := ("DFLT", "dflt")

/-- invariant of the walk through a feature block without `script` / `language` statements, lookup
    blocks and lookup references -/
structure FlatInv (fx : Fixes) (U : List (List Glyph)) (tag : Tag) (dls : List Sys) (s0 : St)
    (w : Src.Walk) (s : St) (ids : List LookupId) : Prop where
  rel : RunRel fx w.cur w.flag s
  idsInv : IdsInv s
  attachU : ∀ c ∈ s.attachIds, c ∈ U
  normFlag : FlagNorm w.flag
  normCur : ∀ reg f rules, w.cur = some (reg, f, rules) → FlagNorm f
  reg : w.reg = .root
  curReg : ∀ reg f rules, w.cur = some (reg, f, rules) → reg = .root
  out : OutRel fx s w.out ids
  ordered : ids.Pairwise idLt
  below : ∀ id ∈ ids, idBelow s id
  fresh : ∀ id ∈ ids, ¬ idBelow s0 id
  ctx : s.curName = none ∧ s.named = s0.named ∧ s.langsys = s0.langsys ∧ s.script = none ∧ s.features = s0.features
  grew : Grew s0 s
  active : ∃ a, s.active = some a ∧ a.tag = tag ∧ a.defaults = dls ∧ a.curSys = none ∧ a.scriptDefault = [] ∧
    a.lookups = (if ids = [] then [] else [(rootKey, ids)])

theorem assocPush_root (ids : List LookupId) (id : LookupId) :
    assocPush rootKey id (if ids = [] then [] else [(rootKey, ids)]) = [(rootKey, ids ++ [id])] := by
  by_cases h : ids = []
  · subst h; simp [assocPush]
  · simp [h, assocPush]

theorem pairwise_snoc {α : Type} {R : α → α → Prop} {l : List α} {a : α} (h : l.Pairwise R) (ha : ∀ x ∈ l, R x a) :
    (l ++ [a]).Pairwise R := by
  rw [List.pairwise_append]
  exact ⟨h, by simp, by intro x hx y hy; simp at hy; subst hy; exact ha x hx⟩

theorem flat_stmt (fx : Fixes) (U : List (List Glyph)) (tag : Tag) (dls : List Sys) (s0 : St)
    (w : Src.Walk) (s : St) (ids : List LookupId) (st : Stmt)
    (hinv : FlatInv fx U tag dls s0 w s ids)
    (hst : (∃ f, st = .flag f ∧ FlagNorm f ∧ ∀ c, f.attach = some c → sortedSet c ∈ U) ∨
           (∃ r, st = .rule r ∧ ∀ reg f rules, w.cur = some (reg, f, rules) → f = w.flag → Wf.mixes (headKind rules) r.kind = false)) :
    ∃ ids', FlatInv fx U tag dls s0 (Src.walkStmt w st) (s.stmt fx st) ids' := by
  rcases hst with ⟨f, rfl, hnf, hU⟩ | ⟨r, rfl, hmix⟩
  · -- lookupflag
    obtain ⟨hrel, hids, ⟨a', ha', hall⟩, ⟨f', hf'⟩, hg, hp, hcn, hn, hl, hact, hsc, hfe⟩ := flag_step fx w s f hinv.rel hinv.idsInv
    have hgrew : Grew s (s.setLookupFlag f) := ⟨⟨[], by simp [hg]⟩, ⟨[], by simp [hp]⟩, ⟨a', ha'⟩, ⟨f', hf'⟩⟩
    refine ⟨ids, ?_⟩
    simp only [Src.walkStmt, St.stmt]
    exact {
      rel := hrel
      idsInv := hids
      attachU := by
        intro c hc
        rw [ha'] at hc
        rcases List.mem_append.mp hc with h | h
        · exact hinv.attachU c h
        · have := hall c h
          cases hfa : f.attach with
          | none => simp [hfa] at this
          | some c0 => simp [hfa] at this; subst this; exact hU c0 hfa
      normFlag := hnf
      normCur := hinv.normCur
      reg := hinv.reg
      curReg := hinv.curReg
      out := hinv.out.mono hgrew
      ordered := hinv.ordered
      below := fun id h => (hinv.below id h).mono hgrew
      fresh := hinv.fresh
      ctx := ⟨hcn.trans hinv.ctx.1, hn.trans hinv.ctx.2.1, hl.trans hinv.ctx.2.2.1, hsc.trans hinv.ctx.2.2.2.1, hfe.trans hinv.ctx.2.2.2.2⟩
      grew := hinv.grew.trans hgrew
      active := by rw [hact]; exact hinv.active }
  · -- rule
    obtain ⟨hrel, hctx, hreg, hflag, hout⟩ := rule_step fx w s r hinv.rel hinv.idsInv hinv.normFlag hinv.normCur hmix
    simp only [St.stmt]
    have hctx0 : (s.addRule fx r).curName = none ∧ (s.addRule fx r).named = s0.named ∧ (s.addRule fx r).langsys = s0.langsys ∧
        (s.addRule fx r).script = none ∧ (s.addRule fx r).features = s0.features :=
      ⟨hctx.1.trans hinv.ctx.1, hctx.2.1.trans hinv.ctx.2.1, hctx.2.2.2.2.2.1.trans hinv.ctx.2.2.1,
        hctx.2.2.2.2.2.2.1.trans hinv.ctx.2.2.2.1, hctx.2.2.2.2.2.2.2.trans hinv.ctx.2.2.2.2⟩
    have hidsInv : IdsInv (s.addRule fx r) := by
      unfold IdsInv; rw [hctx.2.2.2.1, hctx.2.2.2.2.1]; exact hinv.idsInv
    have hattU : ∀ c ∈ (s.addRule fx r).attachIds, c ∈ U := by rw [hctx.2.2.2.1]; exact hinv.attachU
    have hnormCur : ∀ reg f rules, (Src.walkStmt w (.rule r)).cur = some (reg, f, rules) → FlagNorm f := by
      intro reg f rules h
      simp only [Src.walkStmt] at h
      cases hw : w.cur with
      | none => simp [hw] at h; rw [← h.2.1]; exact hinv.normFlag
      | some p =>
        obtain ⟨reg0, f0, rules0⟩ := p
        simp only [hw] at h
        split at h
        · simp at h; rw [← h.2.1]; exact hinv.normCur reg0 f0 rules0 hw
        · simp [Src.Walk.flush, hw] at h; rw [← h.2.1]; exact hinv.normFlag
    have hcurReg : ∀ reg f rules, (Src.walkStmt w (.rule r)).cur = some (reg, f, rules) → reg = .root := by
      intro reg f rules h
      simp only [Src.walkStmt] at h
      cases hw : w.cur with
      | none => simp [hw] at h; rw [← h.1]; exact hinv.reg
      | some p =>
        obtain ⟨reg0, f0, rules0⟩ := p
        simp only [hw] at h
        split at h
        · simp at h; rw [← h.1]; exact hinv.curReg reg0 f0 rules0 hw
        · simp [Src.Walk.flush, hw] at h; rw [← h.1]; exact hinv.reg
    rcases hout with ⟨hout, hg, hp, hact⟩ | ⟨reg, f, rules, hw, hout, hem⟩
    · have hgrew : Grew s (s.addRule fx r) :=
        ⟨⟨[], by simp [hg]⟩, ⟨[], by simp [hp]⟩, ⟨[], by simp [hctx.2.2.2.1]⟩, ⟨[], by simp [hctx.2.2.2.2.1]⟩⟩
      exact ⟨ids, {
        rel := hrel, idsInv := hidsInv, attachU := hattU
        normFlag := by rw [hflag]; exact hinv.normFlag
        normCur := hnormCur
        reg := hreg.trans hinv.reg
        curReg := hcurReg
        out := by rw [hout]; exact hinv.out.mono hgrew
        ordered := hinv.ordered
        below := fun id h => (hinv.below id h).mono hgrew
        fresh := hinv.fresh
        ctx := hctx0
        grew := hinv.grew.trans hgrew
        active := by rw [hact]; exact hinv.active }⟩
    · have hregroot : reg = .root := hinv.curReg reg f rules hw
      subst hregroot
      obtain ⟨a, hsa, ha1, ha2, ha3, ha4, ha5⟩ := hinv.active
      simp only [Emits] at hem
      by_cases hpos : (headKind rules).isPos = true
      · simp only [hpos, ↓reduceIte] at hem
        obtain ⟨hg, hact, ls, hp, hcomp⟩ := hem
        have hgrew : Grew s (s.addRule fx r) :=
          ⟨⟨[], by simp [hg]⟩, ⟨ls, hp⟩, ⟨[], by simp [hctx.2.2.2.1]⟩, ⟨[], by simp [hctx.2.2.2.2.1]⟩⟩
        refine ⟨ids ++ [.gpos s.gpos.length], {
          rel := hrel, idsInv := hidsInv, attachU := hattU
          normFlag := by rw [hflag]; exact hinv.normFlag
          normCur := hnormCur
          reg := hreg.trans hinv.reg
          curReg := hcurReg
          out := ?_
          ordered := ?_
          below := ?_
          fresh := by
            intro id hid
            rcases List.mem_append.mp hid with h | h
            · exact hinv.fresh id h
            · simp at h; subst h
              obtain ⟨⟨g0, e1⟩, ⟨p0, e2⟩, _, _⟩ := hinv.grew
              simp [idBelow, e1, e2]
          ctx := hctx0
          grew := hinv.grew.trans hgrew
          active := ?_ }⟩
        · rw [hout]
          refine (hinv.out.mono hgrew).snoc ⟨none, f, rules⟩ _ rfl ⟨ls, ?_, ?_⟩
          · rw [hctx.2.2.2.1, hctx.2.2.2.2.1]; exact hcomp
          · exact ⟨s.gpos, [], by simp [hp], rfl⟩
        · apply pairwise_snoc hinv.ordered
          intro x hx
          have := hinv.below x hx
          cases x <;> simp_all [idLt, idBelow]
        · intro id hid
          rcases List.mem_append.mp hid with h | h
          · exact (hinv.below id h).mono hgrew
          · simp at h; subst h
            have : ls ≠ [] := by
              obtain ⟨_, _, _, cf, nm, root, _, _, hls⟩ := hcomp
              rw [hls]; unfold builtLookups; split <;> simp
            simp only [idBelow, hp, List.length_append]
            have : 0 < ls.length := List.length_pos_iff.mpr this
            omega
        · refine ⟨a.addLookup (.gpos s.gpos.length), by rw [hact, hsa]; rfl, ?_⟩
          simp only [Active.addLookup, ha3, ha1, ha2, ha4, true_and]
          rw [ha5]
          have := assocPush_root ids (.gpos s.gpos.length)
          simp only [rootKey] at this ⊢
          rw [this]
          simp
      · simp only [hpos, Bool.false_eq_true, ↓reduceIte] at hem
        obtain ⟨hp, hact, ls, hg, hcomp⟩ := hem
        have hgrew : Grew s (s.addRule fx r) :=
          ⟨⟨ls, hg⟩, ⟨[], by simp [hp]⟩, ⟨[], by simp [hctx.2.2.2.1]⟩, ⟨[], by simp [hctx.2.2.2.2.1]⟩⟩
        refine ⟨ids ++ [.gsub s.gsub.length], {
          rel := hrel, idsInv := hidsInv, attachU := hattU
          normFlag := by rw [hflag]; exact hinv.normFlag
          normCur := hnormCur
          reg := hreg.trans hinv.reg
          curReg := hcurReg
          out := ?_
          ordered := ?_
          below := ?_
          fresh := by
            intro id hid
            rcases List.mem_append.mp hid with h | h
            · exact hinv.fresh id h
            · simp at h; subst h
              obtain ⟨⟨g0, e1⟩, ⟨p0, e2⟩, _, _⟩ := hinv.grew
              simp [idBelow, e1, e2]
          ctx := hctx0
          grew := hinv.grew.trans hgrew
          active := ?_ }⟩
        · rw [hout]
          refine (hinv.out.mono hgrew).snoc ⟨none, f, rules⟩ _ rfl ⟨ls, ?_, ?_⟩
          · rw [hctx.2.2.2.1, hctx.2.2.2.2.1]; exact hcomp
          · exact ⟨s.gsub, [], by simp [hg], rfl⟩
        · apply pairwise_snoc hinv.ordered
          intro x hx
          have := hinv.below x hx
          cases x <;> simp_all [idLt, idBelow]
        · intro id hid
          rcases List.mem_append.mp hid with h | h
          · exact (hinv.below id h).mono hgrew
          · simp at h; subst h
            have : ls ≠ [] := by
              obtain ⟨_, _, _, cf, nm, root, _, _, hls⟩ := hcomp
              rw [hls]; unfold builtLookups; split <;> simp
            simp only [idBelow, hg, List.length_append]
            have : 0 < ls.length := List.length_pos_iff.mpr this
            omega
        · refine ⟨a.addLookup (.gsub s.gsub.length), by rw [hact, hsa]; rfl, ?_⟩
          simp only [Active.addLookup, ha3, ha1, ha2, ha4, true_and]
          rw [ha5]
          have := assocPush_root ids (.gsub s.gsub.length)
          simp only [rootKey] at this ⊢
          rw [this]
          simp

end Fontc.FeaCompile
