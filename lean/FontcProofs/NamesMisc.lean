/-
  Helper lemmas for C18: front-end `add` sequences give unique ids.
  Core Lean only.
-/
import FontcProofs.NamesFallback

namespace Fontc.Names

theorem ofAdds_nodup_aux (adds : List (Nat × Str)) (b : Builder) (h : (akeys b.names).Nodup) :
    (akeys (adds.foldl (fun b p => b.add p.1 p.2) b).names).Nodup := by
  induction adds generalizing b with
  | nil => exact h
  | cons p t ih => exact ih _ (Builder.add_nodup b p.1 p.2 h)

theorem ofAdds_nodup (adds : List (Nat × Str)) (major : Int) (minor : Nat) :
    (akeys (Builder.ofAdds adds major minor).names).Nodup :=
  ofAdds_nodup_aux adds _ (by simp [akeys])

end Fontc.Names
