/-
  Helper lemmas for C18: front-end `add` sequences give unique ids; FEA name-id shifting.
  Core Lean only.
-/
import FontcProofs.NamesFallback

namespace Fontc.Names

theorem ofAdds_nodup_aux (adds : List (Nat × Str)) (b : Builder) (h : (akeys b.names).Nodup) :
    (akeys (adds.foldl (fun b p => b.add p.1 p.2) b).names).Nodup := by
  induction adds generalizing b with
  | nil => exact h
  | cons p t ih => exact ih _ (Builder.add_nodup b p.1 p.2 h)

theorem ofAdds_nodup (adds : List (Nat × Str)) (major : Int) (minor : Nat) :
    (akeys (Builder.ofAdds adds major minor).names).Nodup :=
  ofAdds_nodup_aux adds _ (by simp [akeys])

/-! ### FEA ids -/

theorem foldl_max_ge (t : Table) (m : Nat) : m ≤ t.foldl (fun m p => max m p.1.id) m ∧
    ∀ p ∈ t, p.1.id ≤ t.foldl (fun m p => max m p.1.id) m := by
  induction t generalizing m with
  | nil => simp
  | cons q t ih =>
    obtain ⟨h1, h2⟩ := ih (max m q.1.id)
    refine ⟨by simp only [List.foldl_cons]; omega, ?_⟩
    intro p hp
    simp only [List.foldl_cons]
    rcases List.mem_cons.mp hp with e | hp
    · subst e; omega
    · exact h2 p hp

theorem le_maxId {t : Table} {p : NameKey × Str} (h : p ∈ t) : p.1.id ≤ maxId t := (foldl_max_ge t 255).2 p h
theorem maxId_ge (t : Table) : 255 ≤ maxId t := (foldl_max_ge t 255).1

end Fontc.Names
