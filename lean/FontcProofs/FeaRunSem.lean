/-
  C11: from "the lookups of a run sit at its id" to "applying that lookup to a string is applying the
  source lookup" for every lookup type whose correctness is proved, and a decidable form of the
  conditions.
-/
import FontcProofs.FeaLookupSem
import FontcProofs.FeaChainCorrect

namespace Fontc.FeaCompile
open Cmp
set_option linter.unusedSimpArgs false

/-- a substitution lookup of the source for which the per-lookup correctness is proved -/
def GsubRunOk (rules : List Rule) : Prop :=
  ((headKind rules).isMapGsub = true ∧ (rules.flatMap Wf.targets).Nodup) ∨
  (headKind rules = .ligature ∧ (rules.flatMap Wf.ligSeqs).Nodup ∧
    ∀ r ∈ rules, ∀ ts x, r = Rule.ligature ts x → ts ≠ []) ∨
  (headKind rules = .chain ∧ (∀ r ∈ rules, inlineShapeOk r) ∧ SingleOk rules [])

/-- a positioning lookup of the source for which the per-lookup correctness is proved -/
def GposRunOk (rules : List Rule) : Prop :=
  headKind rules = .spos ∧ (rules.flatMap Wf.targets).Nodup

theorem builtLookups_nonchain (cf : CFlag) (b : Builder) (h : b.kind ≠ .chain) : builtLookups cf b = [buildLookup cf b] := by
  cases b <;> simp_all [builtLookups, Builder.kind]

/-- **A substitution run at its id** (single / multiple / alternate / ligature): the table lookup
    does to every string what the source lookup does. -/
theorem run_applyGsub_correct (fx : Fixes) (gdefSrc : List (Glyph × Nat)) (aIds fIds : List (List Glyph))
    (f : Flag) (rules : List Rule) (n : Nat) (ls : List OT.Lookup) (t : OT.Tables)
    (hc : CompiledRun fx aIds fIds f rules (.gsub n) ls) (hp : Placed t.gsub.lookups t.gpos.lookups (.gsub n) ls)
    (hgdef : t.gdef = gdefOf gdefSrc aIds fIds)
    (hok : GsubRunOk rules)
    (hg : (gdefSrc.map (·.1)).Nodup) (ha : (aIds.flatMap id).Nodup)
    (alt : Nat) (env : String → Option Src.Lookup) (name : Option String) :
    ∃ L, t.gsub.lookups[n]? = some L ∧
      ∀ str, OT.applyGsub t alt L str = Src.applyGsub gdefSrc alt env ⟨name, f, rules⟩ str := by
  obtain ⟨hne, hk, _, cf, named, root, hcf, hroot, hls⟩ := hc
  have hign : ∀ g, OT.ignored t.gdef cf.1 cf.2 g = Src.ignored gdefSrc f g := by
    intro g; rw [hgdef]; exact ignored_correct gdefSrc aIds fIds cf f hg ha hcf g
  rcases hok with ⟨hmap, hnd⟩ | ⟨hl, hnd, hcomp⟩ | ⟨hch, hshape, hsok⟩
  · have hkind : (rules.foldl (Builder.add fx root named) (Builder.new (headKind rules))).kind ≠ .chain := by
      rw [Builder.foldl_add_kind, Builder.new_kind]
      intro e; rw [e] at hmap; simp [Kind.isMapGsub] at hmap
    rw [builtLookups_nonchain cf _ hkind] at hls
    subst hls
    refine ⟨_, hp.head, fun str => ?_⟩
    simp only [OT.applyGsub, Src.applyGsub]
    rw [OT.pass_eq_src]
    apply Src.pass_congr
    · intro g; simp only [OT.Lookup.ign, buildLookup]; exact hign g
    · intro rev g suf
      exact map_run_step_correct fx root named rules (headKind rules) hne hk hmap hnd gdefSrc env f name t.gdef cf alt _ _ rev g suf
  · have hkind : (rules.foldl (Builder.add fx root named) (Builder.new (headKind rules))).kind ≠ .chain := by
      rw [Builder.foldl_add_kind, Builder.new_kind, hl]; simp
    rw [builtLookups_nonchain cf _ hkind] at hls
    subst hls
    refine ⟨_, hp.head, fun str => ?_⟩
    simp only [OT.applyGsub, Src.applyGsub]
    rw [OT.pass_eq_src]
    apply Src.pass_congr
    · intro g; simp only [OT.Lookup.ign, buildLookup]; exact hign g
    · intro rev g suf
      rw [hl] at hk ⊢
      exact lig_run_step_correct fx root named rules hne hk hnd hcomp gdefSrc env f name t.gdef cf hign alt _ _ rev g suf
  · -- contextual lookup followed by its anonymous lookups
    rw [hch] at hk hls hroot
    have hrootn : root = n := by simpa [LookupId.gsubIdx] using hroot (by rfl)
    subst hrootn
    have hB : rules.foldl (Builder.add fx root named) (Builder.new .chain)
        = .chain ((rawsOf fx root named [] rules).foldl addCRule []) (anonOf fx [] rules) := by
      simp only [Builder.new]; exact foldl_add_chain fx root named rules hk [] []
    have hls' : ls = buildLookup cf (rules.foldl (Builder.add fx root named) (Builder.new .chain))
        :: (anonOf fx [] rules).map (buildAnonLookup cf) := by
      rw [hls, hB]; rfl
    obtain ⟨pre, post, hlist, hprelen⟩ := hp
    have hplaced : ∀ j a, (anonOf fx [] rules)[j]? = some a → t.gsub.lookups[root + j + 1]? = some (buildAnonLookup cf a) := by
      intro j a hja
      rw [hlist, hls', ← hprelen]
      simp only [List.append_assoc, List.cons_append]
      rw [List.getElem?_append_right (by omega)]
      have : pre.length + j + 1 - pre.length = j + 1 := by omega
      rw [this, List.getElem?_cons_succ, List.getElem?_append_left (by
        rw [List.length_map]; exact (List.getElem?_eq_some_iff.mp hja).1)]
      simp [hja]
    refine ⟨buildLookup cf (rules.foldl (Builder.add fx root named) (Builder.new .chain)), ?_, fun str => ?_⟩
    · rw [hlist, hls', ← hprelen]; simp
    simp only [OT.applyGsub, Src.applyGsub]
    rw [OT.pass_eq_src]
    apply Src.pass_congr
    · intro g; simp only [OT.Lookup.ign, buildLookup]; exact hign g
    · intro rev g suf
      exact chain_lookup_correct fx root named gdefSrc t.gdef cf f alt env t.gsub.lookups 5 rules hne hk hshape hsok hign
        hplaced name rev g suf

/-- **A single-positioning run at its id.** -/
theorem run_applyGpos_correct (fx : Fixes) (gdefSrc : List (Glyph × Nat)) (aIds fIds : List (List Glyph))
    (f : Flag) (rules : List Rule) (n : Nat) (ls : List OT.Lookup) (t : OT.Tables)
    (hc : CompiledRun fx aIds fIds f rules (.gpos n) ls) (hp : Placed t.gsub.lookups t.gpos.lookups (.gpos n) ls)
    (hgdef : t.gdef = gdefOf gdefSrc aIds fIds)
    (hkind : headKind rules = .spos) (hnd : (rules.flatMap Wf.targets).Nodup)
    (hg : (gdefSrc.map (·.1)).Nodup) (ha : (aIds.flatMap id).Nodup) (name : Option String) :
    ∃ L, t.gpos.lookups[n]? = some L ∧
      ∀ str, OT.applyGpos t L str = Src.applyGpos gdefSrc ⟨name, f, rules⟩ str := by
  obtain ⟨hne, hk, _, cf, named, root, hcf, _, hls⟩ := hc
  rw [hkind] at hk hls
  have hkb : (rules.foldl (Builder.add fx root named) (Builder.new .spos)).kind ≠ .chain := by
    rw [Builder.foldl_add_kind, Builder.new_kind]; simp
  rw [builtLookups_nonchain cf _ hkb] at hls
  subst hls
  refine ⟨_, hp.head_gpos, fun str => ?_⟩
  simp only [OT.applyGpos, Src.applyGpos]
  rw [OT.ppass_eq_src]
  apply Src.ppass_congr
  · intro g
    simp only [OT.Lookup.ign, buildLookup, hgdef]
    exact ignored_correct gdefSrc aIds fIds cf f hg ha hcf g
  · intro rev x suf
    have hsk : Src.Lookup.kind ⟨name, f, rules⟩ = .spos := by
      cases rules with
      | nil => exact absurd rfl hne
      | cons r rs => simp [Src.Lookup.kind, hk r (by simp)]
    simp only [Src.posStep, hsk, OT.posLookupStep, buildLookup]
    exact spos_lookup_correct fx root named rules hk hnd _ rev x suf

/-! a decidable form of the per-lookup conditions -/

def ligHasComps : Rule → Bool
  | .ligature [] _ => false
  | _ => true

def pairsFunctionalB (pairs : List (Glyph × Glyph)) : Bool :=
  pairs.all fun p => pairs.all fun q => p.1 != q.1 || p.2 == q.2

theorem pairsFunctional_of_B (pairs : List (Glyph × Glyph)) (h : pairsFunctionalB pairs = true) : PairsFunctional pairs := by
  intro p hp q hq e
  simp only [pairsFunctionalB, List.all_eq_true, Bool.or_eq_true, bne_iff_ne, ne_eq, beq_iff_eq] at h
  rcases h p hp q hq with h | h
  · exact absurd e h
  · exact h

def inlineShapeOkB : Rule → Bool
  | .chain _ [(t, [])] _ (.single by_) =>
    t.glyphs.all fun g => (singlePairs (normSingle t by_).1 (normSingle t by_).2).any (·.1 == g)
  | .chain _ [(.g _, [])] _ (.multi _) => true
  | .chain _ input _ .none => !input.isEmpty && input.all (·.2.isEmpty)
  | .ignore alts => alts.all (!·.2.1.isEmpty)
  | _ => false

theorem inlineShapeOk_of_B (r : Rule) (h : inlineShapeOkB r = true) : inlineShapeOk r := by
  cases r with
  | chain b input l inl =>
    cases inl with
    | none =>
      simp only [inlineShapeOkB, Bool.and_eq_true, Bool.not_eq_true', List.isEmpty_eq_false_iff, List.all_eq_true,
        List.isEmpty_iff] at h
      exact ⟨h.1, h.2⟩
    | single by_ =>
      cases input with
      | nil => simp [inlineShapeOkB] at h
      | cons x xs =>
        obtain ⟨t, refs⟩ := x
        cases xs with
        | cons _ _ => simp [inlineShapeOkB] at h
        | nil =>
          cases refs with
          | cons _ _ => simp [inlineShapeOkB] at h
          | nil =>
            refine ⟨t, rfl, ?_⟩
            simp only [inlineShapeOkB, List.all_eq_true, List.any_eq_true, beq_iff_eq] at h
            intro g hg
            obtain ⟨⟨a, b⟩, hm, he⟩ := h g hg
            simp only at he; subst he
            exact ⟨b, hm⟩
    | lig r => simp [inlineShapeOkB] at h
    | multi rs =>
      cases input with
      | nil => simp [inlineShapeOkB] at h
      | cons x xs =>
        obtain ⟨t, refs⟩ := x
        cases xs with
        | cons _ _ => simp [inlineShapeOkB] at h
        | nil =>
          cases refs with
          | cons _ _ => simp [inlineShapeOkB] at h
          | nil =>
            cases t with
            | g a => exact ⟨a, rfl⟩
            | c _ => simp [inlineShapeOkB] at h
  | ignore alts =>
    simp only [inlineShapeOkB, List.all_eq_true, Bool.not_eq_true', List.isEmpty_eq_false_iff] at h
    exact fun x hx => h x hx
  | _ => simp [inlineShapeOkB] at h

def singleOkB : List Rule → List (Glyph × Glyph) → Bool
  | [], _ => true
  | r :: rs, earlier =>
    match inlineSinglePairs r with
    | some (c2g, pairs) =>
      pairsFunctionalB pairs && (!c2g || pairs.all fun p => earlier.all fun q => p.1 != q.1 || p.2 == q.2) &&
      singleOkB rs (earlier ++ pairs)
    | none => singleOkB rs earlier

theorem singleOk_of_B : ∀ (rs : List Rule) (earlier : List (Glyph × Glyph)), singleOkB rs earlier = true → SingleOk rs earlier := by
  intro rs
  induction rs with
  | nil => intro _ _; trivial
  | cons r rs ih =>
    intro earlier h
    simp only [singleOkB] at h
    simp only [SingleOk]
    cases hq : inlineSinglePairs r with
    | none => rw [hq] at h; exact ih earlier h
    | some x =>
      obtain ⟨c2g, pairs⟩ := x
      rw [hq] at h
      simp only [Bool.and_eq_true, Bool.or_eq_true, Bool.not_eq_true', List.all_eq_true, bne_iff_ne, ne_eq, beq_iff_eq] at h
      refine ⟨pairsFunctional_of_B pairs h.1.1, ?_, ih _ h.2⟩
      intro hc p hp q hq' e
      rcases h.1.2 with hcf | hall
      · rw [hc] at hcf; cases hcf
      · rcases hall p hp q hq' with h' | h'
        · exact absurd e h'
        · exact h'

/-- the lookup is of a type, and satisfies the conditions, for which correctness is proved -/
def runOkB (rules : List Rule) : Bool :=
  ((headKind rules).isMapGsub && decide (rules.flatMap Wf.targets).Nodup)
  || (headKind rules == .ligature && decide (rules.flatMap Wf.ligSeqs).Nodup && rules.all ligHasComps)
  || (headKind rules == .chain && rules.all inlineShapeOkB && singleOkB rules [])
  || (headKind rules == .spos && decide (rules.flatMap Wf.targets).Nodup)

theorem runOk_of_runOkB (rules : List Rule) (h : runOkB rules = true) : GsubRunOk rules ∨ GposRunOk rules := by
  simp only [runOkB, Bool.or_eq_true, Bool.and_eq_true, decide_eq_true_eq, beq_iff_eq, List.all_eq_true] at h
  rcases h with ((⟨h1, h2⟩ | ⟨⟨h1, h2⟩, h3⟩) | ⟨⟨h1, h2⟩, h3⟩) | ⟨h1, h2⟩
  · exact Or.inl (Or.inl ⟨h1, h2⟩)
  · refine Or.inl (Or.inr (Or.inl ⟨h1, h2, ?_⟩))
    intro r hr ts x e
    have := h3 r hr
    subst e
    cases ts with
    | nil => simp [ligHasComps] at this
    | cons _ _ => simp
  · exact Or.inl (Or.inr (Or.inr ⟨h1, fun r hr => inlineShapeOk_of_B r (h2 r hr), singleOk_of_B rules [] h3⟩))
  · exact Or.inr ⟨h1, h2⟩

end Fontc.FeaCompile
