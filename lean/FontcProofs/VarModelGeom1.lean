/-
  Geometry of the variation model, part 1: arithmetic helpers, per-tent facts, `scalarAt` facts,
  column bounds, the region/location invariant `RegInv` established by `regionFor`, and a
  proof-friendly description of the best-ratio search `cutAll` / `applyCuts`.
  Helper lemmas for FontcProofs/VarModelGeom.lean (triangularity of master_influence).
-/
import FontcModel.VarModel

namespace Fontc.VarModel.Geom
open Fontc Fontc.VarModel

/-! ### Arithmetic -/

theorem div_pos_of_neg_neg {a b : Rat} (ha : a < 0) (hb : b < 0) : 0 < a / b := by
  have h : (a / b) * b = a := Rat.div_mul_cancel (by grind)
  by_cases hx : 0 < a / b
  · exact hx
  · have := Rat.mul_nonneg (a := -(a / b)) (b := -b) (by grind) (by grind)
    grind

theorem div_lt_one_of_neg {a b : Rat} (ha : a < 0) (hb : b < a) : a / b < 1 := by
  have h : (a / b) * b = a := Rat.div_mul_cancel (by grind)
  by_cases hx : a / b < 1
  · exact hx
  · have := Rat.mul_nonneg (a := (a / b) - 1) (b := -b) (by grind) (by grind)
    grind

theorem div_pos_of_pos_pos {a b : Rat} (ha : 0 < a) (hb : 0 < b) : 0 < a / b := by
  have := (Rat.lt_div_iff (a := 0) (b := a) hb).2 (by grind)
  exact this

theorem div_lt_one_of_pos {a b : Rat} (ha : 0 < a) (hb : a < b) : a / b < 1 := by
  have := (Rat.div_lt_iff (a := a) (c := 1) (b := b) (by grind)).2 (by grind)
  exact this

theorem validate_iff (t : Tent) : t.validate = true ↔
    (t.min ≤ t.peak ∧ t.peak ≤ t.max ∧ ¬ (t.min < 0 ∧ 0 < t.max)) := by
  unfold Tent.validate
  by_cases h1 : t.peak < t.min <;> by_cases h2 : t.max < t.peak <;> by_cases h3 : t.min < 0 <;>
    by_cases h4 : 0 < t.max <;> simp [h1, h2, h3, h4] <;> grind

/-- every per-axis factor lies in the unit interval, for every tent whatsoever. -/
theorem tentFactor_bounds (t : Tent) (v : Rat) :
    0 ≤ tentFactor t v ∧ tentFactor t v ≤ 1 := by
  unfold tentFactor
  by_cases hv : t.validate = true
  · have h := (validate_iff t).1 hv
    simp only [hv]
    split
    · grind
    split
    · grind
    split
    · grind
    split
    · grind
    split
    · have h1 := div_pos_of_pos_pos (a := v - t.min) (b := t.peak - t.min) (by grind) (by grind)
      have h2 := div_lt_one_of_pos (a := v - t.min) (b := t.peak - t.min) (by grind) (by grind)
      grind
    · have h1 := div_pos_of_neg_neg (a := v - t.max) (b := t.peak - t.max) (by grind) (by grind)
      have h2 := div_lt_one_of_neg (a := v - t.max) (b := t.peak - t.max) (by grind) (by grind)
      grind
  · simp [hv] <;> grind

theorem scalarAt_bounds (r : Region) (p : Loc) : 0 ≤ scalarAt r p ∧ scalarAt r p ≤ 1 := by
  fun_induction scalarAt r p with
  | case1 => simp <;> grind
  | case2 t ts ih =>
    have := tentFactor_bounds t 0
    have h1 := Rat.mul_nonneg this.1 ih.1
    have h2 := Rat.mul_nonneg (a := 1 - tentFactor t 0) (b := scalarAt ts []) (by grind) ih.1
    grind
  | case3 t ts v vs ih =>
    have := tentFactor_bounds t v
    have h1 := Rat.mul_nonneg this.1 ih.1
    have h2 := Rat.mul_nonneg (a := 1 - tentFactor t v) (b := scalarAt ts vs) (by grind) ih.1
    grind

/-! ### scalarAt -/

theorem scalarAt_eq_zero {r : Region} {l : Loc}
    (h : ∃ (a : Nat) (t : Tent) (v : Rat), r[a]? = some t ∧ l[a]? = some v ∧ tentFactor t v = 0) : scalarAt r l = 0 := by
  fun_induction scalarAt r l with
  | case1 => simp at h
  | case2 t ts ih => simp at h
  | case3 t ts v vs ih =>
    obtain ⟨a, t', v', h1, h2, h3⟩ := h
    cases a with
    | zero => simp at h1 h2; subst h1 h2; simp [h3, Rat.zero_mul]
    | succ a =>
      simp at h1 h2
      rw [ih ⟨a, t', v', h1, h2, h3⟩, Rat.mul_zero]

theorem scalarAt_eq_one {r : Region} {l : Loc} (hl : r.length ≤ l.length)
    (h : ∀ (a : Nat) (t : Tent) (v : Rat), r[a]? = some t → l[a]? = some v → tentFactor t v = 1) : scalarAt r l = 1 := by
  fun_induction scalarAt r l with
  | case1 => rfl
  | case2 t ts ih => simp at hl
  | case3 t ts v vs ih =>
    have h0 := h 0 t v (by simp) (by simp)
    have := ih (by simpa using hl) (fun a t' v' h1 h2 => h (a+1) t' v' (by simpa using h1) (by simpa using h2))
    rw [h0, this, Rat.mul_one]

theorem applyCuts_getElem? (r : Region) (cuts : List (Nat × Tent)) (a : Nat) :
    (applyCuts r cuts)[a]? = r[a]?.map (fun t =>
      match cuts.find? (fun c => c.1 == a) with
      | some c => c.2
      | none => t) := by
  simp [applyCuts, List.getElem?_map, List.getElem?_zipIdx]
  cases r[a]? <;> simp
  rfl

/-! ### Columns and regionFor -/

def TentOrd (t : Tent) : Prop :=
  (t.peak = 0 → t.min = 0 ∧ t.max = 0) ∧
  (0 < t.peak → 0 ≤ t.min ∧ t.min < t.peak ∧ t.peak ≤ t.max) ∧
  (t.peak < 0 → t.min ≤ t.peak ∧ t.peak < t.max ∧ t.max ≤ 0)

/-- `x` is `0` or the `a`-th coordinate of one of the locations. -/
def InCol (locs : List Loc) (a : Nat) (x : Rat) : Prop := x = 0 ∨ ∃ l ∈ locs, l.getD a 0 = x

theorem foldMax_spec (i : Nat) (locs : List Loc) (m : Rat) :
    let M := locs.foldl (fun m l => let v := l.getD i 0; if m < v then v else m) m
    m ≤ M ∧ (∀ l ∈ locs, l.getD i 0 ≤ M) ∧ (M = m ∨ ∃ l ∈ locs, l.getD i 0 = M) := by
  induction locs generalizing m with
  | nil => simp
  | cons l ls ih =>
    simp only [List.foldl_cons]
    have := ih (if m < l.getD i 0 then l.getD i 0 else m)
    simp only [List.mem_cons] 
    grind

theorem foldMin_spec (i : Nat) (locs : List Loc) (m : Rat) :
    let M := locs.foldl (fun m l => let v := l.getD i 0; if v < m then v else m) m
    M ≤ m ∧ (∀ l ∈ locs, M ≤ l.getD i 0) ∧ (M = m ∨ ∃ l ∈ locs, l.getD i 0 = M) := by
  induction locs generalizing m with
  | nil => simp
  | cons l ls ih =>
    simp only [List.foldl_cons]
    have := ih (if l.getD i 0 < m then l.getD i 0 else m)
    simp only [List.mem_cons] 
    grind

theorem colMax_spec (locs : List Loc) (i : Nat) :
    0 ≤ colMax locs i ∧ (∀ l ∈ locs, l.getD i 0 ≤ colMax locs i) ∧ InCol locs i (colMax locs i) :=
  foldMax_spec i locs 0

theorem colMin_spec (locs : List Loc) (i : Nat) :
    colMin locs i ≤ 0 ∧ (∀ l ∈ locs, colMin locs i ≤ l.getD i 0) ∧ InCol locs i (colMin locs i) :=
  foldMin_spec i locs 0

/-- Invariant tying a region to the location it was built from. -/
def RegInv (locs : List Loc) (l : Loc) (r : Region) : Prop :=
  l ∈ locs ∧ r.length = l.length ∧
  ∀ (a : Nat) (t : Tent) (v : Rat), r[a]? = some t → l[a]? = some v →
    t.peak = v ∧ TentOrd t ∧ InCol locs a t.min ∧ InCol locs a t.max

theorem regionFor_getElem? (locs : List Loc) (l : Loc) (a : Nat) :
    (regionFor locs l)[a]? = l[a]?.map (fun v =>
      if v = 0 then Tent.new 0 0 0 else Tent.new (colMin locs a) v (colMax locs a)) := by
  simp [regionFor, List.getElem?_map, List.getElem?_zipIdx]
  cases l[a]? <;> simp

theorem regionFor_inv {locs : List Loc} {l : Loc} (hl : l ∈ locs) : RegInv locs l (regionFor locs l) := by
  refine ⟨hl, by simp [regionFor], ?_⟩
  intro a t v h1 h2
  rw [regionFor_getElem?, h2] at h1
  simp at h1
  have hmax := colMax_spec locs a
  have hmin := colMin_spec locs a
  have hv : l.getD a 0 = v := by simp [List.getD, h2]
  have h3 := hmax.2.1 l hl
  have h4 := hmin.2.1 l hl
  subst h1
  unfold TentOrd Tent.new InCol
  unfold InCol at hmax hmin
  by_cases hv0 : v = 0
  · simp [hv0] <;> grind
  · by_cases hp : 0 < v
    · simp [hv0, hp]; grind
    · simp [hv0, hp]; grind

/-! ### cutAxis / cutAll -/

def cutTent (t p : Tent) : Tent :=
  if p.peak < t.peak then { t with min := p.peak } else { t with max := p.peak }
def cutRatio (t p : Tent) : Rat :=
  if p.peak < t.peak then (p.peak - t.peak) / (t.min - t.peak)
  else (p.peak - t.peak) / (t.max - t.peak)
def Cand (t p : Tent) : Prop := t.hasNonZero = true ∧ p.peak ≠ t.peak

instance (t p : Tent) : Decidable (Cand t p) := by unfold Cand; infer_instance

theorem cutAxis_eq (st : Cuts) (i : Nat) (t p : Tent) : cutAxis st i t p =
    if ¬ Cand t p then st else
      if st.best < cutRatio t p then ⟨cutRatio t p, [(i, cutTent t p)]⟩
      else if cutRatio t p = st.best then ⟨st.best, st.cuts ++ [(i, cutTent t p)]⟩ else st := by
  unfold cutAxis Cand cutRatio cutTent
  by_cases h1 : t.hasNonZero = true <;> by_cases h2 : p.peak = t.peak <;> simp [h1, h2]
  by_cases h3 : p.peak < t.peak <;> simp [h3]
  all_goals split <;> simp
  all_goals grind

def J (st : Cuts) : Prop := st.cuts ≠ [] ∨ st.best ≤ -1

theorem cutAxis_mem {st : Cuts} {i : Nat} {t p : Tent} {c : Nat × Tent}
    (h : c ∈ (cutAxis st i t p).cuts) : c ∈ st.cuts ∨ (Cand t p ∧ c = (i, cutTent t p)) := by
  rw [cutAxis_eq] at h
  split at h
  · exact .inl h
  · rename_i hc
    have hc : Cand t p := Classical.not_not.1 hc
    split at h
    · simp at h; exact .inr ⟨hc, h⟩
    · split at h
      · simp at h; rcases h with h | h
        · exact .inl h
        · exact .inr ⟨hc, h⟩
      · exact .inl h

theorem cutAxis_keep {st : Cuts} {i : Nat} {t p : Tent} (h : st.cuts ≠ []) :
    (cutAxis st i t p).cuts ≠ [] := by
  rw [cutAxis_eq]
  split
  · exact h
  · split
    · simp
    · split
      · simp
      · exact h

theorem cutAxis_J {st : Cuts} {i : Nat} {t p : Tent} (h : J st) : J (cutAxis st i t p) := by
  rw [cutAxis_eq]; unfold J at *
  split
  · exact h
  · split
    · simp
    · split
      · simp
      · exact h

theorem cutAxis_new {st : Cuts} {i : Nat} {t p : Tent} (h : J st) (hc : Cand t p)
    (hr : -1 < cutRatio t p) : (cutAxis st i t p).cuts ≠ [] := by
  rw [cutAxis_eq]; unfold J at *
  simp only [hc, not_true_eq_false, if_false]
  split
  · simp
  · split
    · simp
    · rcases h with h | h
      · exact h
      · grind

theorem cutAll_mem {st : Cuts} {i : Nat} {ts ps : Region} {c : Nat × Tent}
    (h : c ∈ (cutAll st i ts ps).cuts) :
    c ∈ st.cuts ∨ ∃ (k : Nat) (t p : Tent), ts[k]? = some t ∧ ps[k]? = some p ∧ Cand t p ∧
      c = (i + k, cutTent t p) := by
  fun_induction cutAll st i ts ps with
  | case1 => exact .inl h
  | case2 => exact .inl h
  | case3 st i t ts p ps ih =>
    rcases ih h with h' | ⟨k, t', p', h1, h2, h3, h4⟩
    · rcases cutAxis_mem h' with h'' | ⟨h5, h6⟩
      · exact .inl h''
      · exact .inr ⟨0, t, p, by simp, by simp, h5, by simpa using h6⟩
    · exact .inr ⟨k + 1, t', p', by simpa using h1, by simpa using h2, h3, by rw [h4]; congr 1; omega⟩

theorem cutAll_keep {st : Cuts} {i : Nat} {ts ps : Region} (h : st.cuts ≠ []) :
    (cutAll st i ts ps).cuts ≠ [] := by
  fun_induction cutAll st i ts ps with
  | case1 => exact h
  | case2 => exact h
  | case3 st i t ts p ps ih => exact ih (cutAxis_keep h)

theorem cutAll_nonempty {st : Cuts} {i : Nat} {ts ps : Region} (hJ : J st)
    (h : ∃ (k : Nat) (t p : Tent), ts[k]? = some t ∧ ps[k]? = some p ∧ Cand t p ∧ -1 < cutRatio t p) :
    (cutAll st i ts ps).cuts ≠ [] := by
  fun_induction cutAll st i ts ps with
  | case1 => simp at h
  | case2 => simp at h
  | case3 st i t ts p ps ih =>
    obtain ⟨k, t', p', h1, h2, h3, h4⟩ := h
    cases k with
    | zero =>
      simp at h1 h2; subst h1 h2
      exact cutAll_keep (cutAxis_new hJ h3 h4)
    | succ k =>
      exact ih (cutAxis_J hJ) ⟨k, t', p', by simpa using h1, by simpa using h2, h3, h4⟩

end Fontc.VarModel.Geom
