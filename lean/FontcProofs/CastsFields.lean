/-
  C19 helper lemmas, part 2: 2.14 conversion facts and `inrange_exact_old` per field.
-/
import FontcProofs.Casts
set_option maxRecDepth 2000
namespace Fontc.Casts
open Fontc

theorem cnt_nonneg (v : Rat) : 0 ≤ cnt v := by unfold cnt; omega
theorem truncI_nonneg {x : Rat} (h : 0 ≤ x) : truncI x = x.floor := by
  unfold truncI; split <;> grind
theorem truncI_neg {x : Rat} (h : x < 0) : truncI x = -((-x).floor) := by
  unfold truncI; split <;> grind
theorem scale_sign (v : Rat) : (0 ≤ v * 16384) ↔ 0 ≤ v := by
  constructor <;> intro h <;> grind
theorem f2dot14FromF64_eq (v : Rat) : f2dot14FromF64 v = satI16 (roundHalfAway (v * 16384)) := by
  unfold f2dot14FromF64 roundHalfAway asI16
  by_cases h : 0 ≤ v
  · have := (scale_sign v).2 h; simp [h, this]
  · have h' : ¬ 0 ≤ v * 16384 := fun x => h ((scale_sign v).1 x)
    simp [h, h']
theorem roundHalfAway_ge_of {x : Rat} (h : -32768 ≤ x) : -32768 ≤ roundHalfAway x := by
  unfold roundHalfAway
  by_cases h0 : 0 ≤ x
  · simp [h0]; rw [truncI_nonneg (by grind)]; rw [Rat.le_floor_iff]; simp; grind
  · simp [h0]; rw [truncI_neg (by grind)]
    have : (-(x + -1/2)).floor < 32769 := by rw [Rat.floor_lt_iff]; simp; grind
    omega
theorem roundHalfAway_gt_of {x : Rat} (h : 32768 < x) : 32768 ≤ roundHalfAway x := by
  unfold roundHalfAway
  have h0 : 0 ≤ x := by grind
  simp [h0]; rw [truncI_nonneg (by grind)]; rw [Rat.le_floor_iff]; simp; grind

theorem inrange_comp2x2_old (v : Rat) (h : Representable .comp2x2 v) (p : Profile) :
    fieldPipelineOld .comp2x2 v p = .ok (ideal .comp2x2 v) := by
  obtain ⟨h1, h2⟩ := h
  have hv2 : v ≤ 2 := by
    apply Classical.byContradiction; intro hn
    have : 32768 ≤ roundHalfAway (v * 16384) := roundHalfAway_gt_of (by grind)
    omega
  have hlo : -32768 ≤ roundHalfAway (v * 16384) := roundHalfAway_ge_of (by grind)
  simp only [fieldPipelineOld, ideal, h1, hv2, and_self, if_true, f2dot14FromF64_eq, f2dot14ToRat]
  rw [satI16_of_in ⟨hlo, h2⟩]

theorem inrange_exact_old (f : Field) (v : Rat) (p : Profile) (h : Representable f v) :
    fieldPipelineOld f v p = .ok (ideal f v) := by
  cases f
  case comp2x2 => exact inrange_comp2x2_old v h p
  all_goals (simp only [Representable] at h; simp only [fieldPipelineOld, ideal, otRoundI16, otRoundU16])
  case outlineCoord | compOffset | lsb | kernValue | anchorCoord | valueDelta | gvarDelta | hvarDelta | metricI16 | compositeBbox =>
    rw [satI16_of_in h]
  case advance | metricU16 => rw [satU16_of_in h]
  case pointDelta | tsb => simp [subI16, h]
  case rsbExtent => rw [satI16_of_in h]
  case glyphCount | longMetricCount => simp [h]
  case countU16 => rw [wrapU16_of_in ⟨cnt_nonneg v, h⟩]
  case endPt =>
    rw [wrapU16_of_in ⟨by omega, h.2⟩]
    have : 0 ≤ cnt v - 1 := by omega
    simp only [subU16, if_pos this]
  case numContours => simp [h]
  case compositeTotal => simp [addU16, h]
end Fontc.Casts
