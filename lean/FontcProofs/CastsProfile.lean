/-
  C19 helper lemmas, part 3: the two build profiles agree exactly where no unchecked fixed-width add or subtract overflows.
-/
import FontcProofs.CastsFields
namespace Fontc.Casts
open Fontc

theorem profile_independent_old (f : Field) (v : Rat) (h : profileSensitiveOld f = false) :
    fieldPipelineOld f v .debug = fieldPipelineOld f v .release := by
  cases f <;> simp [profileSensitiveOld] at h <;> rfl

theorem profile_agree_iff_old (f : Field) (v : Rat) :
    fieldPipelineOld f v .debug = fieldPipelineOld f v .release ↔ ¬ OverflowsOld f v := by
  cases f
  case pointDelta | tsb =>
    simp only [fieldPipelineOld, OverflowsOld, subI16, Int.sub_zero]
    by_cases h : inI16 v.floor
    · rw [if_pos h, if_pos h]; exact ⟨fun _ hn => hn h, fun _ => rfl⟩
    · rw [if_neg h, if_neg h]; exact ⟨fun hc => (by cases hc), fun hn => by exfalso; exact hn h⟩
  case endPt =>
    simp only [fieldPipelineOld, OverflowsOld, subU16]
    have := wrapU16_range (cnt v)
    unfold inU16 at this
    by_cases h : 0 ≤ wrapU16 (cnt v) - 1
    · rw [if_pos h, if_pos h]; exact ⟨fun _ => (by omega), fun _ => rfl⟩
    · rw [if_neg h, if_neg h]; exact ⟨fun hc => (by cases hc), fun hw => by exfalso; omega⟩
  case compositeTotal =>
    simp only [fieldPipelineOld, OverflowsOld, addU16, Int.zero_add]
    by_cases h : cnt v ≤ 65535
    · rw [if_pos h, if_pos h]; exact ⟨fun _ => (by omega), fun _ => rfl⟩
    · rw [if_neg h, if_neg h]; exact ⟨fun hc => (by cases hc), fun hw => by exfalso; omega⟩
  all_goals (simp only [OverflowsOld, not_false_eq_true, iff_true]; rfl)

end Fontc.Casts
