/-
  The word-vector rank of the code: lawful for at most 64 rules (one word).
-/
import FontcProofs.FeatVarsNat

namespace Fontc.FeatVars

/-- the only word of a rank of at most one word (0 for the empty vector) -/
def word0 (a : WRank) : UInt64 := a.headD 0

theorem wrank_len_le_one (a : WRank) (h : a.length ≤ 1) : a = [] ∨ a = [word0 a] := by
  match a, h with
  | [], _ => exact Or.inl rfl
  | [x], _ => exact Or.inr rfl

theorem u64_eq_zero_iff (x : UInt64) : x = 0 ↔ x.toNat = 0 := by
  rw [← UInt64.toNat_inj]; rfl

theorem u64_shiftLeft_one_toNat (i : Nat) (hi : i < 64) : ((1 : UInt64) <<< (i % 64).toUInt64).toNat = 2 ^ i := by
  have h1 : (i % 64).toUInt64.toNat = i := by
    show (UInt64.ofNat (i % 64)).toNat = i
    rw [UInt64.toNat_ofNat']; omega
  rw [UInt64.toNat_shiftLeft, h1, UInt64.toNat_one, Nat.one_shiftLeft, Nat.mod_eq_of_lt hi]
  exact Nat.mod_eq_of_lt (Nat.pow_lt_pow_right (by omega) hi)

theorem u64_shr1_toNat (x : UInt64) : (x >>> 1).toNat = x.toNat / 2 := by
  rw [UInt64.toNat_shiftRight]; simp [Nat.shiftRight_eq_div_pow]

theorem u64_and1_toNat (x : UInt64) : (x &&& 1).toNat = x.toNat % 2 := by
  rw [UInt64.toNat_and]; simp [Nat.and_one_is_mod]

theorem word0_new (i : Nat) (hi : i < 64) : WRank.new i = [(1 : UInt64) <<< (i % 64).toUInt64] := by
  simp [WRank.new, Nat.div_eq_of_lt hi]

theorem bitor_small (a b : WRank) (ha : a.length ≤ 1) (hb : b.length ≤ 1) :
    (WRank.bitor a b).length ≤ 1 ∧ word0 (WRank.bitor a b) = word0 a ||| word0 b := by
  rcases wrank_len_le_one a ha with h1 | h1 <;> rcases wrank_len_le_one b hb with h2 | h2 <;>
    rw [h1, h2] <;> simp [WRank.bitor, orFront, word0, UInt64.or_comm]

theorem bitorAssign_small (a b : WRank) (ha : a.length ≤ 1) (hb : b.length ≤ 1) :
    (WRank.bitorAssign a b).length ≤ 1 ∧ word0 (WRank.bitorAssign a b) = word0 a ||| word0 b := by
  rcases wrank_len_le_one a ha with h1 | h1 <;> rcases wrank_len_le_one b hb with h2 | h2 <;>
    rw [h1, h2] <;> simp [WRank.bitorAssign, orFront, word0]

theorem shift_small (a : WRank) (ha : a.length ≤ 1) :
    (WRank.rightShiftOne a).length ≤ 1 ∧ (word0 (WRank.rightShiftOne a)).toNat = (word0 a).toNat / 2 := by
  rcases wrank_len_le_one a ha with h1 | h1 <;> rw [h1]
  · simp [WRank.rightShiftOne, shiftAux, word0]
  · simp only [WRank.rightShiftOne, shiftAux, word0, List.headD_cons, List.length_cons, List.length_nil]
    refine ⟨by omega, ?_⟩
    have : ((0 : UInt64) <<< 63) = 0 := by decide
    rw [this, UInt64.or_zero, u64_shr1_toNat]

theorem testBit_lt_of_lt_two_pow {a N j : Nat} (ha : a < 2 ^ N) (hj : a.testBit j = true) : j < N := by
  apply Classical.byContradiction
  intro hn
  have : a < 2 ^ j := Nat.lt_of_lt_of_le ha (Nat.pow_le_pow_right (by omega) (by omega))
  rw [Nat.testBit_lt_two_pow this] at hj; cases hj

theorem popcount_le_of_lt_two_pow {a N : Nat} (ha : a < 2 ^ N) : popcount a ≤ N := by
  rw [popcount_eq_filter N a ha]; exact Nat.le_trans (List.length_filter_le _ _) (by simp)

theorem nat_eq_zero_iff_testBit (a : Nat) : a = 0 ↔ ∀ j, a.testBit j = false := by
  constructor
  · intro h j; subst h; exact Nat.zero_testBit j
  · intro h; exact Nat.eq_of_testBit_eq (fun i => by rw [h i, Nat.zero_testBit])

/-- **With at most 64 rules the word vectors are a lawful rank representation**: every rank that occurs has
    at most one word. -/
def wordLaw64 (N : Nat) (hN : N ≤ 64) : LawfulRank wordOps N where
  Inv a := a.length ≤ 1 ∧ (word0 a).toNat < 2 ^ N
  bits a j := (word0 a).toNat.testBit j
  inv_zero := ⟨by show ([] : WRank).length ≤ 1; simp, by show (word0 []).toNat < 2 ^ N; simp [word0]; exact Nat.two_pow_pos N⟩
  inv_single i hi := by
    show (WRank.new i).length ≤ 1 ∧ (word0 (WRank.new i)).toNat < 2 ^ N
    rw [word0_new i (by omega)]
    refine ⟨by simp, ?_⟩
    simp only [word0, List.headD_cons]
    rw [u64_shiftLeft_one_toNat i (by omega)]
    exact Nat.pow_lt_pow_right (by omega) hi
  inv_or a b ha hb := by
    obtain ⟨h1, h2⟩ := bitor_small a b ha.1 hb.1
    refine ⟨h1, ?_⟩
    show (word0 (WRank.bitor a b)).toNat < 2 ^ N
    rw [h2, UInt64.toNat_or]; exact Nat.or_lt_two_pow ha.2 hb.2
  inv_orAssign a b ha hb := by
    obtain ⟨h1, h2⟩ := bitorAssign_small a b ha.1 hb.1
    refine ⟨h1, ?_⟩
    show (word0 (WRank.bitorAssign a b)).toNat < 2 ^ N
    rw [h2, UInt64.toNat_or]; exact Nat.or_lt_two_pow ha.2 hb.2
  inv_shift a ha := by
    obtain ⟨h1, h2⟩ := shift_small a ha.1
    refine ⟨h1, ?_⟩
    show (word0 (WRank.rightShiftOne a)).toNat < 2 ^ N
    rw [h2]; have := ha.2; omega
  bits_lt a j ha hj := testBit_lt_of_lt_two_pow ha.2 hj
  bits_zero j := by show (word0 []).toNat.testBit j = false; simp [word0]
  bits_single i j hi := by
    show (word0 (WRank.new i)).toNat.testBit j = decide (j = i)
    rw [word0_new i (by omega)]
    simp only [word0, List.headD_cons]
    rw [u64_shiftLeft_one_toNat i (by omega), Nat.testBit_two_pow]
    by_cases h : i = j <;> simp [h, eq_comm]
  bits_or a b j ha hb := by
    show (word0 (WRank.bitor a b)).toNat.testBit j = _
    rw [(bitor_small a b ha.1 hb.1).2, UInt64.toNat_or, Nat.testBit_or]
  bits_orAssign a b j ha hb := by
    show (word0 (WRank.bitorAssign a b)).toNat.testBit j = _
    rw [(bitorAssign_small a b ha.1 hb.1).2, UInt64.toNat_or, Nat.testBit_or]
  key a := a.countZeros
  le_iff a b _ _ := by show decide (a.countZeros ≤ b.countZeros) = true ↔ _; simp
  key_card a b ha hb hza hzb := by
    show a.countZeros ≤ b.countZeros ↔ _
    have nonempty : ∀ c : WRank, c.length ≤ 1 → WRank.isAllZeros c = false → c = [word0 c] := by
      intro c hc hz
      rcases wrank_len_le_one c hc with h | h
      · rw [h] at hz; simp [WRank.isAllZeros] at hz
      · exact h
    have ea := nonempty a ha.1 hza
    have eb := nonempty b hb.1 hzb
    have ca : a.countZeros = 64 - popcount (word0 a).toNat := by
      rw [ea]; simp [WRank.countZeros, countZeros64, word0]
    have cb : b.countZeros = 64 - popcount (word0 b).toNat := by
      rw [eb]; simp [WRank.countZeros, countZeros64, word0]
    rw [ca, cb, ← popcount_eq_filter N _ ha.2, ← popcount_eq_filter N _ hb.2]
    have := popcount_le_of_lt_two_pow ha.2
    have := popcount_le_of_lt_two_pow hb.2
    omega
  isZero_iff a ha := by
    show WRank.isAllZeros a = true ↔ ∀ j, (word0 a).toNat.testBit j = false
    rw [← nat_eq_zero_iff_testBit, ← u64_eq_zero_iff]
    rcases wrank_len_le_one a ha.1 with h | h
    · rw [h]; simp [WRank.isAllZeros, word0]
    · rw [h]; simp [WRank.isAllZeros, word0]
  firstBit_eq a ha := by
    show WRank.firstBitIsSet a = (word0 a).toNat.testBit 0
    have key : ∀ x : UInt64, ((x &&& 1) != 0) = x.toNat.testBit 0 := by
      intro x
      rw [Nat.testBit_zero, ← u64_and1_toNat]
      have h01 : (x &&& 1).toNat = 0 ∨ (x &&& 1).toNat = 1 := by rw [u64_and1_toNat]; omega
      rcases h01 with h | h
      · have : (x &&& 1) = 0 := (u64_eq_zero_iff _).2 h
        simp [this]
      · have : (x &&& 1) ≠ 0 := fun h0 => by rw [(u64_eq_zero_iff _).1 h0] at h; cases h
        simp [h, this]
    rcases wrank_len_le_one a ha.1 with h | h
    · rw [h]; simp [WRank.firstBitIsSet, word0]
    · rw [h]; simp only [WRank.firstBitIsSet, List.getLast?_singleton, Option.getD_some, word0, List.headD_cons]
      exact key _
  bits_shift a j ha := by
    show (word0 (WRank.rightShiftOne a)).toNat.testBit j = (word0 a).toNat.testBit (j + 1)
    rw [(shift_small a ha.1).2, Nat.testBit_succ]
  bound_spec a j ha hj := by
    show j < 64 * a.length
    rcases wrank_len_le_one a ha.1 with h | h
    · rw [h] at hj; simp [word0] at hj
    · have : j < 64 := testBit_lt_of_lt_two_pow (UInt64.toNat_lt _) hj
      rw [h]; simpa using this

end Fontc.FeatVars
