/-
  Helper lemmas for C18 / C01: the allocation (after commit c4dd162) does not depend on the hash-iteration order of `names`.
  Core Lean only.
-/
import FontcProofs.NamesAlloc

namespace Fontc.Names

theorem extend_init_noop (order : List NameKey) (names : Table) : extend names (initReusable order names) = names :=
  extend_noop (fun p hp => (mem_initReusable p hp).1)

/-- two allocation states that differ only in their (equivalent) initial parts -/
structure Rel (i₁ i₂ : List (Str × NameKey)) (st₁ st₂ : St) : Prop where
  ex : ∃ f, st₁.reusable = i₁ ++ f ∧ st₂.reusable = i₂ ++ f
  gen : st₁.gen = st₂.gen

theorem rel_register {i₁ i₂ : List (Str × NameKey)} (hdom : ∀ s, (alookup s i₁).isSome = (alookup s i₂).isSome)
    {st₁ st₂ : St} (h : Rel i₁ i₂ st₁ st₂) (n : Str) : Rel i₁ i₂ (register st₁ n) (register st₂ n) := by
  obtain ⟨⟨f, h₁, h₂⟩, hg⟩ := h
  have l₁ : alookup n st₁.reusable = (alookup n i₁).or (alookup n f) := by rw [h₁, alookup_append]
  have l₂ : alookup n st₂.reusable = (alookup n i₂).or (alookup n f) := by rw [h₂, alookup_append]
  have hd := hdom n
  cases e₁ : alookup n i₁ with
  | some k₁ =>
    cases e₂ : alookup n i₂ with
    | none => simp [e₁, e₂] at hd
    | some k₂ =>
      rw [e₁] at l₁; rw [e₂] at l₂
      simp only [Option.some_or] at l₁ l₂
      rw [register_of_some l₁, register_of_some l₂]
      exact ⟨⟨f, h₁, h₂⟩, hg⟩
  | none =>
    cases e₂ : alookup n i₂ with
    | some k₂ => simp [e₁, e₂] at hd
    | none =>
      rw [e₁] at l₁; rw [e₂] at l₂
      simp only [Option.none_or] at l₁ l₂
      cases ef : alookup n f with
      | some k =>
        rw [ef] at l₁ l₂
        rw [register_of_some l₁, register_of_some l₂]
        exact ⟨⟨f, h₁, h₂⟩, hg⟩
      | none =>
        rw [ef] at l₁ l₂
        rw [register_of_none l₁, register_of_none l₂]
        refine ⟨⟨f ++ [(n, NameKey.new (st₁.gen + 1) n)], ?_, ?_⟩, ?_⟩
        · simp [h₁]
        · simp [h₂, hg]
        · simp [hg]

theorem rel_foldl_register {i₁ i₂ : List (Str × NameKey)} (hdom : ∀ s, (alookup s i₁).isSome = (alookup s i₂).isSome)
    (reqs : List Str) {st₁ st₂ : St} (h : Rel i₁ i₂ st₁ st₂) :
    Rel i₁ i₂ (reqs.foldl register st₁) (reqs.foldl register st₂) := by
  induction reqs generalizing st₁ st₂ with
  | nil => exact h
  | cons n t ih => exact ih (rel_register hdom h n)

/-- a string the initial part knows is never registered again -/
theorem rel_register_known {i₁ i₂ : List (Str × NameKey)} {st₁ st₂ : St} (h : Rel i₁ i₂ st₁ st₂) {n : Str}
    (k₁ : (alookup n i₁).isSome) (k₂ : (alookup n i₂).isSome) : register st₁ n = st₁ ∧ register st₂ n = st₂ := by
  obtain ⟨⟨f, h₁, h₂⟩, _⟩ := h
  constructor
  · cases e : alookup n i₁ with
    | none => simp [e] at k₁
    | some k => exact register_of_some (k := k) (by rw [h₁, alookup_append, e]; simp)
  · cases e : alookup n i₂ with
    | none => simp [e] at k₂
    | some k => exact register_of_some (k := k) (by rw [h₂, alookup_append, e]; simp)

theorem initReusable_dom_perm {names : Table} {o₁ o₂ : List NameKey} (hp : o₁.Perm o₂) (s : Str) :
    (alookup s (initReusable o₁ names)).isSome = (alookup s (initReusable o₂ names)).isSome := by
  rw [Bool.eq_iff_iff, isSome_initReusable, isSome_initReusable]
  constructor
  · rintro ⟨k, hk, h⟩; exact ⟨k, hp.mem_iff.mp hk, h⟩
  · rintro ⟨k, hk, h⟩; exact ⟨k, hp.mem_iff.mpr hk, h⟩

theorem rel_regInst {names : Table} {o₁ o₂ : List NameKey} (hp : o₁.Perm o₂) (ni : Inst)
    {st₁ st₂ : St} (h : Rel (initReusable o₁ names) (initReusable o₂ names) st₁ st₂) :
    Rel (initReusable o₁ names) (initReusable o₂ names) (regInst o₁ names st₁ ni) (regInst o₂ names st₂ ni) := by
  have hdom := initReusable_dom_perm (names := names) hp
  have hstep : Rel (initReusable o₁ names) (initReusable o₂ names)
      (if reuseSubfamily o₁ names ni then st₁ else register st₁ ni.name)
      (if reuseSubfamily o₂ names ni then st₂ else register st₂ ni.name) := by
    rw [reuseSubfamily_perm hp ni]
    split
    · exact h
    · exact rel_register hdom h _
  unfold regInst
  cases ni.ps with
  | none => exact hstep
  | some p => exact rel_register hdom hstep p

theorem rel_foldl_regInst {names : Table} {o₁ o₂ : List NameKey} (hp : o₁.Perm o₂) (l : List Inst)
    {st₁ st₂ : St} (h : Rel (initReusable o₁ names) (initReusable o₂ names) st₁ st₂) :
    Rel (initReusable o₁ names) (initReusable o₂ names) (l.foldl (regInst o₁ names) st₁) (l.foldl (regInst o₂ names) st₂) := by
  induction l generalizing st₁ st₂ with
  | nil => exact h
  | cons ni t ih => exact ih (rel_regInst hp ni h)

/-- The allocation is independent of the hash-iteration order of `names`: full strength, every input. -/
theorem alloc_perm (x : Input) (o₁ o₂ : List NameKey) (hp : o₁.Perm o₂) : alloc o₁ x = alloc o₂ x := by
  have hdom := initReusable_dom_perm (names := x.names) hp
  have h0 : Rel (initReusable o₁ x.names) (initReusable o₂ x.names)
      ⟨initReusable o₁ x.names, maxId x.names⟩ ⟨initReusable o₂ x.names, maxId x.names⟩ := ⟨⟨[], by simp⟩, rfl⟩
  have h1 := rel_foldl_register hdom x.labels h0
  have h2 := rel_foldl_regInst hp (effInsts x) h1
  obtain ⟨⟨f, e₁, e₂⟩, _⟩ := h2
  have a₁ : (allocState o₁ x).reusable = initReusable o₁ x.names ++ f := e₁
  have a₂ : (allocState o₂ x).reusable = initReusable o₂ x.names ++ f := e₂
  unfold alloc
  rw [a₁, a₂, extend_append, extend_append, extend_init_noop, extend_init_noop]

end Fontc.Names
