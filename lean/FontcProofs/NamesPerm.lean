/-
  Helper lemmas for C18 / C01: the allocation does not depend on the hash-iteration order of `names`
  as long as no default-located instance name is ambiguous between id 2/17 and another reserved id.
  Core Lean only.
-/
import FontcProofs.NamesAlloc

namespace Fontc.Names

theorem extend_init_noop (order : List NameKey) (names : Table) : extend names (initReusable order names) = names :=
  extend_noop (fun p hp => (mem_initReusable p hp).1)

/-- two allocation states that differ only in their (equivalent) initial parts -/
structure Rel (i₁ i₂ : List (Str × NameKey)) (st₁ st₂ : St) : Prop where
  ex : ∃ f, st₁.reusable = i₁ ++ f ∧ st₂.reusable = i₂ ++ f
  gen : st₁.gen = st₂.gen

theorem rel_register {i₁ i₂ : List (Str × NameKey)} (hdom : ∀ s, (alookup s i₁).isSome = (alookup s i₂).isSome)
    {st₁ st₂ : St} (h : Rel i₁ i₂ st₁ st₂) (n : Str) : Rel i₁ i₂ (register st₁ n) (register st₂ n) := by
  obtain ⟨⟨f, h₁, h₂⟩, hg⟩ := h
  have l₁ : alookup n st₁.reusable = (alookup n i₁).or (alookup n f) := by rw [h₁, alookup_append]
  have l₂ : alookup n st₂.reusable = (alookup n i₂).or (alookup n f) := by rw [h₂, alookup_append]
  have hd := hdom n
  cases e₁ : alookup n i₁ with
  | some k₁ =>
    cases e₂ : alookup n i₂ with
    | none => simp [e₁, e₂] at hd
    | some k₂ =>
      rw [e₁] at l₁; rw [e₂] at l₂
      simp only [Option.some_or] at l₁ l₂
      rw [register_of_some l₁, register_of_some l₂]
      exact ⟨⟨f, h₁, h₂⟩, hg⟩
  | none =>
    cases e₂ : alookup n i₂ with
    | some k₂ => simp [e₁, e₂] at hd
    | none =>
      rw [e₁] at l₁; rw [e₂] at l₂
      simp only [Option.none_or] at l₁ l₂
      cases ef : alookup n f with
      | some k =>
        rw [ef] at l₁ l₂
        rw [register_of_some l₁, register_of_some l₂]
        exact ⟨⟨f, h₁, h₂⟩, hg⟩
      | none =>
        rw [ef] at l₁ l₂
        rw [register_of_none l₁, register_of_none l₂]
        refine ⟨⟨f ++ [(n, NameKey.new (st₁.gen + 1) n)], ?_, ?_⟩, ?_⟩
        · simp [h₁]
        · simp [h₂, hg]
        · simp [hg]

theorem rel_foldl_register {i₁ i₂ : List (Str × NameKey)} (hdom : ∀ s, (alookup s i₁).isSome = (alookup s i₂).isSome)
    (reqs : List Str) {st₁ st₂ : St} (h : Rel i₁ i₂ st₁ st₂) :
    Rel i₁ i₂ (reqs.foldl register st₁) (reqs.foldl register st₂) := by
  induction reqs generalizing st₁ st₂ with
  | nil => exact h
  | cons n t ih => exact ih (rel_register hdom h n)

/-- a string the initial part knows is never registered again -/
theorem rel_register_known {i₁ i₂ : List (Str × NameKey)} {st₁ st₂ : St} (h : Rel i₁ i₂ st₁ st₂) {n : Str}
    (k₁ : (alookup n i₁).isSome) (k₂ : (alookup n i₂).isSome) : register st₁ n = st₁ ∧ register st₂ n = st₂ := by
  obtain ⟨⟨f, h₁, h₂⟩, _⟩ := h
  constructor
  · cases e : alookup n i₁ with
    | none => simp [e] at k₁
    | some k => exact register_of_some (k := k) (by rw [h₁, alookup_append, e]; simp)
  · cases e : alookup n i₂ with
    | none => simp [e] at k₂
    | some k => exact register_of_some (k := k) (by rw [h₂, alookup_append, e]; simp)

theorem initReusable_dom_perm {names : Table} {o₁ o₂ : List NameKey} (hp : o₁.Perm o₂) (s : Str) :
    (alookup s (initReusable o₁ names)).isSome = (alookup s (initReusable o₂ names)).isSome := by
  rw [Bool.eq_iff_iff, isSome_initReusable, isSome_initReusable]
  constructor
  · rintro ⟨k, hk, h⟩; exact ⟨k, hp.mem_iff.mp hk, h⟩
  · rintro ⟨k, hk, h⟩; exact ⟨k, hp.mem_iff.mpr hk, h⟩

/-- When the two orders decide differently for a default-located instance, a source record with a font-specific id
    already carries its name (under the unambiguity hypothesis). -/
theorem decision_differs {names : Table} {o₁ o₂ : List NameKey} (hn : (akeys names).Nodup)
    (p₁ : o₁.Perm (akeys names)) (p₂ : o₂.Perm (akeys names)) (ni : Inst)
    (hun : ni.atDefault = true →
      (∃ k, (k, ni.name) ∈ names ∧ 255 < k.id) ∨
      (∀ k, (k, ni.name) ∈ names → isSub k.id = true) ∨
      (∀ k, (k, ni.name) ∈ names → isSub k.id = false))
    (hd : reuseSubfamily o₁ names ni ≠ reuseSubfamily o₂ names ni) :
    (alookup ni.name (initReusable o₁ names)).isSome ∧ (alookup ni.name (initReusable o₂ names)).isSome := by
  -- an all-or-nothing situation makes both orders decide the same
  have key : ∀ (o o' : List NameKey), o.Perm (akeys names) → o'.Perm (akeys names) →
      reuseSubfamily o names ni = true → reuseSubfamily o' names ni = false →
      ∃ k, (k, ni.name) ∈ names ∧ 255 < k.id := by
    intro o o' po po' ht hf
    unfold reuseSubfamily at ht hf
    simp only [Bool.and_eq_true] at ht
    obtain ⟨hdef, hm⟩ := ht
    simp only [hdef, Bool.true_and] at hf
    split at hm
    · next id hfm =>
      obtain ⟨k, hko, hk, hkid⟩ := firstMatch_some hfm
      have hkn : (k, ni.name) ∈ names := mem_of_alookup hk
      rcases hun hdef with h | h | h
      · exact h
      · -- all carriers are subfamily ids: the other order reuses as well
        exfalso
        split at hf
        · next id' hfm' =>
          obtain ⟨k', _, hk', hkid'⟩ := firstMatch_some hfm'
          have := h k' (mem_of_alookup hk')
          rw [hkid'] at this; rw [this] at hf; cases hf
        · next hnone =>
          have hk' : k ∈ o' := po'.mem_iff.mpr (po.mem_iff.mp hko)
          exact firstMatch_none hnone k hk' hk
      · exfalso
        have := h k hkn
        rw [hkid] at this; rw [this] at hm; cases hm
    · cases hm
  have hex : ∃ k, (k, ni.name) ∈ names ∧ 255 < k.id := by
    cases h₁ : reuseSubfamily o₁ names ni <;> cases h₂ : reuseSubfamily o₂ names ni
    · simp [h₁, h₂] at hd
    · exact key o₂ o₁ p₂ p₁ h₂ h₁
    · exact key o₁ o₂ p₁ p₂ h₁ h₂
    · simp [h₁, h₂] at hd
  obtain ⟨k, hk, hid⟩ := hex
  have hkey : k ∈ akeys names := List.mem_map.mpr ⟨(k, ni.name), hk, rfl⟩
  have hl := alookup_of_mem_nodup hn hk
  exact ⟨(isSome_initReusable _ _).mpr ⟨k, p₁.mem_iff.mpr hkey, hl, hid⟩,
         (isSome_initReusable _ _).mpr ⟨k, p₂.mem_iff.mpr hkey, hl, hid⟩⟩

theorem rel_regInst {names : Table} {o₁ o₂ : List NameKey} (hn : (akeys names).Nodup)
    (p₁ : o₁.Perm (akeys names)) (p₂ : o₂.Perm (akeys names)) (ni : Inst)
    (hun : ni.atDefault = true →
      (∃ k, (k, ni.name) ∈ names ∧ 255 < k.id) ∨
      (∀ k, (k, ni.name) ∈ names → isSub k.id = true) ∨
      (∀ k, (k, ni.name) ∈ names → isSub k.id = false))
    {st₁ st₂ : St} (h : Rel (initReusable o₁ names) (initReusable o₂ names) st₁ st₂) :
    Rel (initReusable o₁ names) (initReusable o₂ names) (regInst o₁ names st₁ ni) (regInst o₂ names st₂ ni) := by
  have hdom := initReusable_dom_perm (names := names) (p₁.trans p₂.symm)
  -- after the subfamily-name step the states are still related
  have hstep : Rel (initReusable o₁ names) (initReusable o₂ names)
      (if reuseSubfamily o₁ names ni then st₁ else register st₁ ni.name)
      (if reuseSubfamily o₂ names ni then st₂ else register st₂ ni.name) := by
    by_cases hd : reuseSubfamily o₁ names ni = reuseSubfamily o₂ names ni
    · rw [hd]
      split
      · exact h
      · exact rel_register hdom h _
    · obtain ⟨k₁, k₂⟩ := decision_differs hn p₁ p₂ ni hun hd
      obtain ⟨r₁, r₂⟩ := rel_register_known h k₁ k₂
      split <;> split
      all_goals first | exact h | (rw [r₁]; exact h) | (rw [r₂]; exact h) | (rw [r₁, r₂]; exact h)
  unfold regInst
  cases ni.ps with
  | none => exact hstep
  | some p => exact rel_register hdom hstep p

theorem rel_foldl_regInst {names : Table} {o₁ o₂ : List NameKey} (hn : (akeys names).Nodup)
    (p₁ : o₁.Perm (akeys names)) (p₂ : o₂.Perm (akeys names)) (l : List Inst)
    (hun : ∀ ni ∈ l, ni.atDefault = true →
      (∃ k, (k, ni.name) ∈ names ∧ 255 < k.id) ∨
      (∀ k, (k, ni.name) ∈ names → isSub k.id = true) ∨
      (∀ k, (k, ni.name) ∈ names → isSub k.id = false))
    {st₁ st₂ : St} (h : Rel (initReusable o₁ names) (initReusable o₂ names) st₁ st₂) :
    Rel (initReusable o₁ names) (initReusable o₂ names) (l.foldl (regInst o₁ names) st₁) (l.foldl (regInst o₂ names) st₂) := by
  induction l generalizing st₁ st₂ with
  | nil => exact h
  | cons ni t ih =>
    exact ih (fun n hn' => hun n (List.mem_cons_of_mem _ hn'))
      (rel_regInst hn p₁ p₂ ni (hun ni List.mem_cons_self) h)

theorem alloc_perm_invariant_of_unambiguous (x : Input) (o₁ o₂ : List NameKey) (hn : (akeys x.names).Nodup)
    (p₁ : o₁.Perm (akeys x.names)) (p₂ : o₂.Perm (akeys x.names))
    (hun : ∀ ni ∈ effInsts x, ni.atDefault = true →
      (∃ k, (k, ni.name) ∈ x.names ∧ 255 < k.id) ∨
      (∀ k, (k, ni.name) ∈ x.names → isSub k.id = true) ∨
      (∀ k, (k, ni.name) ∈ x.names → isSub k.id = false)) :
    alloc o₁ x = alloc o₂ x := by
  have hdom := initReusable_dom_perm (names := x.names) (p₁.trans p₂.symm)
  have h0 : Rel (initReusable o₁ x.names) (initReusable o₂ x.names)
      ⟨initReusable o₁ x.names, 255⟩ ⟨initReusable o₂ x.names, 255⟩ := ⟨⟨[], by simp⟩, rfl⟩
  have h1 := rel_foldl_register hdom x.labels h0
  have h2 := rel_foldl_regInst hn p₁ p₂ (effInsts x) hun h1
  obtain ⟨⟨f, e₁, e₂⟩, _⟩ := h2
  have a₁ : (allocState o₁ x).reusable = initReusable o₁ x.names ++ f := e₁
  have a₂ : (allocState o₂ x).reusable = initReusable o₂ x.names ++ f := e₂
  unfold alloc
  rw [a₁, a₂, extend_append, extend_append, extend_init_noop, extend_init_noop]

end Fontc.Names
