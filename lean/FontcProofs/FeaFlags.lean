/-
  C11: lookup flags.  A lookup flag is written in the source with glyph sets; fea-rs turns the mark
  attachment class and the mark filtering set into ids (first use first) and records the sets in
  GDEF.  Under the compiled flag and the compiled GDEF the same glyphs are skipped as under the
  source flag and the source GDEF classes.
-/
import FontcModel.FeaCompile
import FontcProofs.FeaMap

namespace Fontc.FeaCompile
open Cmp

def flagBits (f : Flag) : Nat :=
  (if f.rtl then 1 else 0) + (if f.ib then 2 else 0) + (if f.il then 4 else 0) + (if f.im then 8 else 0)

theorem bits_decode (f : Flag) (x k : Nat) (hx : x ≤ 1) :
    ((flagBits f + 16 * x + 256 * k) / 2 % 2 == 1) = f.ib ∧ ((flagBits f + 16 * x + 256 * k) / 4 % 2 == 1) = f.il
    ∧ ((flagBits f + 16 * x + 256 * k) / 8 % 2 == 1) = f.im ∧ ((flagBits f + 16 * x + 256 * k) / 16 % 2 == 1) = (x == 1)
    ∧ (flagBits f + 16 * x + 256 * k) / 256 = k := by
  obtain ⟨rtl, ib, il, im, a, fl⟩ := f
  have hx' : x = 0 ∨ x = 1 := by omega
  rcases hx' with rfl | rfl <;> cases rtl <;> cases ib <;> cases il <;> cases im <;> simp [flagBits] <;> omega

/-- `cf` is the compiled form of the source flag `f` under the id tables: attachment class `k`
    is `aIds[k-1]`, filtering set `i` is `fIds[i]`. -/
def FlagCode (aIds fIds : List (List Glyph)) (cf : CFlag) (f : Flag) : Prop :=
  ∃ ka x, cf.1 = flagBits f + 16 * x + 256 * ka ∧
    (match f.attach with
     | none => ka = 0
     | some c => ∃ j, ka = j + 1 ∧ aIds[j]? = some (sortedSet c)) ∧
    (match f.filter with
     | none => x = 0 ∧ cf.2 = none
     | some c => x = 1 ∧ ∃ i, cf.2 = some i ∧ fIds[i]? = some (sortedSet c))

theorem FlagCode.mono {aIds fIds : List (List Glyph)} {cf : CFlag} {f : Flag} (h : FlagCode aIds fIds cf f)
    (a' f' : List (List Glyph)) : FlagCode (aIds ++ a') (fIds ++ f') cf f := by
  obtain ⟨ka, x, h1, h2, h3⟩ := h
  refine ⟨ka, x, h1, ?_, ?_⟩
  · cases hfa : f.attach with
    | none => simpa [hfa] using h2
    | some c =>
      rw [hfa] at h2
      obtain ⟨j, hj, hget⟩ := h2
      exact ⟨j, hj, by rw [List.getElem?_append_left (by
        rcases List.getElem?_eq_some_iff.mp hget with ⟨hlt, _⟩; exact hlt)]; exact hget⟩
  · cases hff : f.filter with
    | none => simpa [hff] using h3
    | some c =>
      rw [hff] at h3
      obtain ⟨hx, i, hi, hget⟩ := h3
      exact ⟨hx, i, hi, by rw [List.getElem?_append_left (by
        rcases List.getElem?_eq_some_iff.mp hget with ⟨hlt, _⟩; exact hlt)]; exact hget⟩

/-! association lists with distinct keys -/

theorem lookup_eq_some_iff_mem {β : Type} (l : List (Glyph × β)) (h : (l.map (·.1)).Nodup) (k : Glyph) (v : β) :
    l.lookup k = some v ↔ (k, v) ∈ l := by
  induction l with
  | nil => simp [List.lookup]
  | cons p l ih =>
    obtain ⟨a, b⟩ := p
    simp only [List.map_cons, List.nodup_cons] at h
    simp only [List.lookup, List.mem_cons, Prod.mk.injEq]
    by_cases hka : k = a
    · subst hka
      simp only [beq_self_eq_true, Option.some.injEq, true_and]
      constructor
      · intro e; exact Or.inl e.symm
      · rintro (e | hm)
        · exact e.symm
        · exact absurd (List.mem_map_of_mem (f := (·.1)) hm) h.1
    · have : (k == a) = false := by simp [hka]
      simp [this, hka, ih h.2]

theorem lookup_perm {β : Type} (l l' : List (Glyph × β)) (hp : l.Perm l') (h : (l.map (·.1)).Nodup) (k : Glyph) :
    l.lookup k = l'.lookup k := by
  have h' : (l'.map (·.1)).Nodup := (hp.map _).nodup_iff.mp h
  apply Option.ext
  intro v
  rw [lookup_eq_some_iff_mem l h, lookup_eq_some_iff_mem l' h', hp.mem_iff]

theorem mem_sortedSet (xs : List Glyph) (g : Glyph) : g ∈ sortedSet xs ↔ g ∈ xs := by
  have hins : ∀ (x : Nat) (ys : List Nat), g ∈ OT.insertSorted x ys ↔ g = x ∨ g ∈ ys := by
    intro x ys
    induction ys with
    | nil => simp [OT.insertSorted]
    | cons y ys ih =>
      simp only [OT.insertSorted]
      split
      · simp
      · split
        · subst_vars; simp
        · simp [ih]; constructor <;> (rintro (h | h | h) <;> simp [h])
  unfold sortedSet OT.sortDedup
  induction xs with
  | nil => simp
  | cons x xs ih => simp [List.foldr_cons, hins, ih]

theorem contains_sortedSet (xs : List Glyph) (g : Glyph) : (sortedSet xs).contains g = xs.contains g := by
  rw [Bool.eq_iff_iff]; simp [mem_sortedSet]

/-- the GDEF tables written for the id tables (`buildGdef`) -/
def gdefOf (gdefSrc : List (Glyph × Nat)) (aIds fIds : List (List Glyph)) : OT.Gdef :=
  { classes := (gdefSrc.filter (·.2 != 0)).mergeSort (fun a b => a.1 ≤ b.1),
    attach := (aIds.zipIdx.flatMap fun (c, i) => c.map (·, i + 1)).mergeSort (fun a b => a.1 ≤ b.1),
    sets := fIds }

theorem buildGdef_eq (p : Program) (s : St) : buildGdef p s = gdefOf p.gdef s.attachIds s.filterIds := rfl

theorem classOf_classes (gdefSrc : List (Glyph × Nat)) (hnd : (gdefSrc.map (·.1)).Nodup) (g : Glyph) :
    OT.classOf ((gdefSrc.filter (·.2 != 0)).mergeSort (fun a b => a.1 ≤ b.1)) g = (gdefSrc.lookup g).getD 0 := by
  have hnd' : ((gdefSrc.filter (·.2 != 0)).map (·.1)).Nodup :=
    (List.Sublist.map _ List.filter_sublist).nodup hnd
  unfold OT.classOf
  rw [← lookup_perm _ _ (List.mergeSort_perm _ _).symm hnd' g]
  cases hq : gdefSrc.lookup g with
  | none =>
    have : (gdefSrc.filter (·.2 != 0)).lookup g = none := by
      apply lookup_eq_none_of_not_mem
      intro hm
      obtain ⟨⟨a, b⟩, hab, rfl⟩ := List.mem_map.mp hm
      have hmem : (a, b) ∈ gdefSrc := (List.mem_filter.mp hab).1
      have := (lookup_eq_some_iff_mem gdefSrc hnd a b).mpr hmem
      simp_all
    simp [this]
  | some c =>
    have hmem := (lookup_eq_some_iff_mem gdefSrc hnd g c).mp hq
    by_cases hc : c = 0
    · subst hc
      have : (gdefSrc.filter (·.2 != 0)).lookup g = none := by
        apply lookup_eq_none_of_not_mem
        intro hm
        obtain ⟨⟨a, b⟩, hab, hfst⟩ := List.mem_map.mp hm
        simp only at hfst; subst hfst
        have hf := List.mem_filter.mp hab
        have hb := (lookup_eq_some_iff_mem gdefSrc hnd a b).mpr hf.1
        rw [hq] at hb
        simp_all
      simp [this]
    · have : (gdefSrc.filter (·.2 != 0)).lookup g = some c :=
        (lookup_eq_some_iff_mem _ hnd' g c).mpr (List.mem_filter.mpr ⟨hmem, by simp [hc]⟩)
      simp [this]

theorem attach_keys (aIds : List (List Glyph)) :
    (aIds.zipIdx.flatMap fun (c, i) => c.map (·, i + 1)).map (·.1) = aIds.flatMap id := by
  have : ∀ (k : Nat), ((aIds.zipIdx k).flatMap fun (c, i) => c.map (·, i + 1)).map (·.1) = aIds.flatMap id := by
    induction aIds with
    | nil => intro k; rfl
    | cons c cs ih =>
      intro k
      simp only [List.zipIdx_cons, List.flatMap_cons, List.map_append, ih (k + 1), id]
      simp [Function.comp_def]
  exact this 0

theorem mem_attach (aIds : List (List Glyph)) (g : Glyph) (k : Nat) :
    (g, k) ∈ (aIds.zipIdx.flatMap fun (c, i) => c.map (·, i + 1)) ↔ ∃ j c, k = j + 1 ∧ aIds[j]? = some c ∧ g ∈ c := by
  simp only [List.mem_flatMap, List.mem_map, Prod.mk.injEq, Prod.exists, List.mem_zipIdx_iff_getElem?]
  constructor
  · rintro ⟨c, i, hget, a, ha, rfl, rfl⟩
    exact ⟨i, c, rfl, by simpa using hget, ha⟩
  · rintro ⟨j, c, rfl, hget, hg⟩
    exact ⟨c, j, by simpa using hget, g, hg, rfl, rfl⟩

theorem classOf_attach (aIds : List (List Glyph)) (hnd : (aIds.flatMap id).Nodup) (g : Glyph) (j : Nat)
    (c : List Glyph) (hc : aIds[j]? = some c) :
    (OT.classOf ((aIds.zipIdx.flatMap fun (c, i) => c.map (·, i + 1)).mergeSort (fun a b => a.1 ≤ b.1)) g = j + 1)
      ↔ g ∈ c := by
  have hk : ((aIds.zipIdx.flatMap fun (c, i) => c.map (·, i + 1)).map (·.1)).Nodup := by
    rw [attach_keys]; exact hnd
  unfold OT.classOf
  rw [← lookup_perm _ _ (List.mergeSort_perm _ _).symm hk g]
  constructor
  · intro h
    cases hq : (aIds.zipIdx.flatMap fun (c, i) => c.map (·, i + 1)).lookup g with
    | none => simp [hq] at h
    | some k =>
      simp only [hq, Option.getD_some] at h
      subst h
      obtain ⟨j', c', hj', hget', hg⟩ := (mem_attach aIds g (j + 1)).mp ((lookup_eq_some_iff_mem _ hk g (j + 1)).mp hq)
      have : j' = j := by omega
      subst this
      rw [hc] at hget'
      cases hget'
      exact hg
  · intro hg
    have : (aIds.zipIdx.flatMap fun (c, i) => c.map (·, i + 1)).lookup g = some (j + 1) :=
      (lookup_eq_some_iff_mem _ hk g (j + 1)).mpr ((mem_attach aIds g (j + 1)).mpr ⟨j, c, rfl, hc, hg⟩)
    simp [this]

/-- **Lookup flags.**  With distinct GDEF entries and pairwise disjoint mark attachment classes the
    compiled flag skips exactly the glyphs the source flag skips. -/
theorem ignored_correct (gdefSrc : List (Glyph × Nat)) (aIds fIds : List (List Glyph)) (cf : CFlag) (f : Flag)
    (hg : (gdefSrc.map (·.1)).Nodup) (ha : (aIds.flatMap id).Nodup) (hc : FlagCode aIds fIds cf f) (g : Glyph) :
    OT.ignored (gdefOf gdefSrc aIds fIds) cf.1 cf.2 g = Src.ignored gdefSrc f g := by
  obtain ⟨ka, x, hbits, hatt, hfil⟩ := hc
  have hx : x ≤ 1 := by
    cases hff : f.filter <;> simp [hff] at hfil <;> omega
  obtain ⟨d2, d4, d8, d16, d256⟩ := bits_decode f x ka hx
  unfold OT.ignored Src.ignored
  simp only [gdefOf, classOf_classes gdefSrc hg g, hbits, d2, d4, d8, d16, d256]
  cases hq : gdefSrc.lookup g with
  | none => simp
  | some cl =>
    simp only [Option.getD_some]
    match cl with
    | 0 => rfl
    | 1 => rfl
    | 2 => rfl
    | 3 =>
      simp only
      congr 1
      · congr 1
        cases hff : f.filter with
        | none =>
          rw [hff] at hfil
          simp [hfil.1]
        | some c =>
          rw [hff] at hfil
          obtain ⟨hx1, i, hi, hget⟩ := hfil
          simp [hx1, hi, hget, mem_sortedSet]
      · cases hfa : f.attach with
        | none =>
          rw [hfa] at hatt
          simp [hatt]
        | some c =>
          rw [hfa] at hatt
          obtain ⟨j, hj, hget⟩ := hatt
          subst hj
          have hcl := classOf_attach aIds ha g j (sortedSet c) hget
          simp only [mem_sortedSet] at hcl
          by_cases hgc : g ∈ c
          · have := hcl.mpr hgc
            simp [this, hgc]
          · have : OT.classOf ((aIds.zipIdx.flatMap fun (c, i) => c.map (·, i + 1)).mergeSort (fun a b => a.1 ≤ b.1)) g ≠ j + 1 :=
              fun h => hgc (hcl.mp h)
            simp [this, hgc]
    | n + 4 => rfl

end Fontc.FeaCompile
