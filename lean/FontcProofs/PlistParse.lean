/-
  C20 — the reader reads back every value in every style: `parseRec` on `printVal v st ++ rest`.
-/
import FontcModel.Plist
import FontcProofs.PlistLex
namespace Fontc.Plist
set_option linter.unusedSimpArgs false
set_option linter.unusedVariables false

/-! ### induction principle for the nested value type -/

theorem PVal.induct {P : PVal → Prop}
    (hstr : ∀ s, P (.str s)) (hint : ∀ i, P (.int i)) (hflt : ∀ t, P (.flt t)) (hdata : ∀ b, P (.data b))
    (harr : ∀ xs, (∀ x ∈ xs, P x) → P (.arr xs))
    (hdict : ∀ kvs, (∀ kv ∈ kvs, P kv.2) → P (.dict kvs)) : ∀ v, P v
  | .str s => hstr s
  | .int i => hint i
  | .flt t => hflt t
  | .data b => hdata b
  | .arr xs => harr xs (fun x hx => PVal.induct hstr hint hflt hdata harr hdict x)
  | .dict kvs => hdict kvs (fun kv hkv => PVal.induct hstr hint hflt hdata harr hdict kv.2)
termination_by v => sizeOf v
decreasing_by
  · have := List.sizeOf_lt_of_mem hx; simp; omega
  · have := List.sizeOf_lt_of_mem hkv
    cases kv; simp at *; omega

/-! ### tokens of printed text -/

theorem stop_ws_append (l r : List Char) (h : Stop r) : Stop (ws l ++ r) := by
  intro d hd
  cases hl : ws l with
  | nil => rw [hl] at hd; exact h d (by simpa using hd)
  | cons a w =>
    rw [hl] at hd; simp at hd; subst hd
    have := ws_all l a (by simp [hl])
    cases h : isAlnum a with
    | false => rfl
    | true => rw [isAlnum_not_ws h] at this; cases this

theorem ws_append (a b : List Char) : ws a ++ ws b = ws (a ++ b) := by simp [ws]

theorem lex_punct (l : List Char) (c : Char) (r : List Char) (tok : Tok) (hw : isWs c = false)
    (h : ∀ r, (if c == '{' then some (Tok.openBrace, r) else if c == '(' then some (Tok.openParen, r)
      else if c == '<' then (lexData r).map fun (bs, r') => (Tok.data bs, r')
      else if c == '"' then (lexQuoted r.length [] r).map fun (t, r') => (Tok.str t, r')
      else if isAlnum c then some (Tok.atom ((c :: r).takeWhile isAlnum), (c :: r).dropWhile isAlnum)
      else none) = some (tok, r)) :
    lex (ws l ++ c :: r) = some (tok, r) := by
  unfold lex
  rw [skipWs_ws_append l (c :: r) (noWs_cons r hw)]
  exact h r

theorem lex_openParen (l r : List Char) : lex (ws l ++ '(' :: r) = some (.openParen, r) :=
  lex_punct l '(' r _ (by decide) (fun r => by simp)

theorem lex_openBrace (l r : List Char) : lex (ws l ++ '{' :: r) = some (.openBrace, r) :=
  lex_punct l '{' r _ (by decide) (fun r => by simp)

theorem isAlnum_head_facts {c : Char} (h : isAlnum c = true) :
    isWs c = false ∧ (c == '{') = false ∧ (c == '(') = false ∧ (c == '<') = false ∧ (c == '"') = false ∧
    (c == ')') = false ∧ (c == '}') = false := by
  refine ⟨isAlnum_not_ws h, ?_, ?_, ?_, ?_, ?_, ?_⟩
  all_goals (cases hc : (c == _) with
    | false => rfl
    | true => simp at hc; subst hc; revert h; decide)

theorem lex_atom (l a r : List Char) (hne : a ≠ []) (ha : a.all isAlnum = true) (hr : Stop r) :
    lex (ws l ++ (a ++ r)) = some (.atom a, r) := by
  cases a with
  | nil => exact absurd rfl hne
  | cons c t =>
    have hc : isAlnum c = true := by simp at ha; exact ha.1
    obtain ⟨f1, f2, f3, f4, f5, _, _⟩ := isAlnum_head_facts hc
    obtain ⟨h1, h2⟩ := takeWhile_alnum (c :: t) r ha hr
    unfold lex
    rw [List.cons_append, skipWs_ws_append l (c :: (t ++ r)) (noWs_cons _ f1)]
    simp only [f2, f3, f4, f5, hc, Bool.false_eq_true, if_false, if_true]
    rw [← List.cons_append, h1, h2]

theorem lex_quoted (l s : List Char) (es : List Esc) (r : List Char) :
    lex (ws l ++ (printQuoted s es ++ r)) = some (.str s, r) := by
  unfold lex printQuoted
  simp only [List.cons_append, List.append_assoc]
  rw [skipWs_ws_append l _ (noWs_cons _ (by decide))]
  have key := fun n hn => lexQuoted_body s es n hn [] r
  simp only [List.reverse_nil, List.nil_append] at key
  simp
  exact key _ (by have := quotedBody_length s es; omega)

theorem lex_data (l : List Char) (bs : List UInt8) (us : List Bool) (r : List Char) :
    lex (ws l ++ ('<' :: hexBytes bs us ++ ['>'] ++ r)) = some (.data bs, r) := by
  unfold lex
  simp only [List.cons_append, List.append_assoc]
  rw [skipWs_ws_append l _ (noWs_cons _ (by decide))]
  have := lexData_hex bs us r
  simp only [List.append_assoc, List.singleton_append] at this ⊢
  simp [this]

/-! ### leaves -/

theorem parseAtom_of_not_numeric (s : List Char) (h : looksNumeric s = false) : parseAtom s = .str s := by
  unfold parseAtom
  unfold looksNumeric at h
  cases hn : numericOk s with
  | false => simp
  | true =>
    simp [hn] at h
    simp [h.1, h.2]

theorem parseAtom_floatAtom (t : List Char) (h : isFloatAtom t = true) : parseAtom t = .flt t := by
  unfold isFloatAtom at h
  simp only [Bool.and_eq_true] at h
  obtain ⟨⟨⟨⟨_, _⟩, h3⟩, h4⟩, h5⟩ := h
  unfold parseAtom
  rw [if_pos h3]
  cases hp : parseI64 t with
  | none => simp [h5]
  | some i => simp [hp] at h4

/-- what a printed string token reads back as -/
theorem lex_printStr_parse (s : List Char) (n : NodeStyle) (l r : List Char) (hr : Stop r) (f : Nat) :
    parseRec (f + 1) (ws l ++ (printStr s n ++ r)) = some (.str s, r) := by
  unfold printStr
  split
  · next h =>
    simp only [Bool.and_eq_true, bareOk] at h
    obtain ⟨_, ⟨⟨h1, h2⟩, h3⟩⟩ := h
    have hne : s ≠ [] := by intro h; subst h; simp at h1
    rw [parseRec, lex_atom l s r hne h2 hr]
    simp [parseAtom_of_not_numeric s (by simpa using h3)]
  · rw [parseRec, lex_quoted]

/-! ### the head of a printed value is not a closing bracket -/

def HeadOk (t : List Char) : Prop :=
  ∃ c u, t = c :: u ∧ isWs c = false ∧ (c == ')') = false ∧ (c == '}') = false

theorem headOk_alnum (a : List Char) (hne : a ≠ []) (ha : a.all isAlnum = true) : HeadOk a := by
  cases a with
  | nil => exact absurd rfl hne
  | cons c t =>
    have hc : isAlnum c = true := by simp at ha; exact ha.1
    obtain ⟨f1, _, _, _, _, f6, f7⟩ := isAlnum_head_facts hc
    exact ⟨c, t, rfl, f1, f6, f7⟩

theorem headOk_append {t : List Char} (h : HeadOk t) (r : List Char) : HeadOk (t ++ r) := by
  obtain ⟨c, u, rfl, h1, h2, h3⟩ := h
  exact ⟨c, u ++ r, rfl, h1, h2, h3⟩

theorem headOk_printStr (s : List Char) (n : NodeStyle) : HeadOk (printStr s n) := by
  unfold printStr
  split
  · next h =>
    simp only [Bool.and_eq_true, bareOk] at h
    obtain ⟨_, ⟨⟨h1, h2⟩, _⟩⟩ := h
    exact headOk_alnum s (by intro h; subst h; simp at h1) h2
  · exact ⟨'"', _, rfl, by decide, by decide, by decide⟩

theorem headOk_printKey (k : List Char) (n : NodeStyle) : HeadOk (printKey k n) := by
  unfold printKey
  split
  · next h =>
    simp only [Bool.and_eq_true, bareKeyOk] at h
    obtain ⟨_, ⟨h1, h2⟩⟩ := h
    exact headOk_alnum k (by intro h; subst h; simp at h1) h2
  · exact ⟨'"', _, rfl, by decide, by decide, by decide⟩

theorem floatAtom_alnum (t : List Char) (h : isFloatAtom t = true) : t ≠ [] ∧ t.all isAlnum = true := by
  unfold isFloatAtom at h
  simp only [Bool.and_eq_true] at h
  obtain ⟨⟨⟨⟨h1, h2⟩, _⟩, _⟩, _⟩ := h
  exact ⟨by intro h; subst h; simp at h1, h2⟩

/-- `printVal v st = ws pre ++ body` with a body that starts a token -/
theorem printVal_head (v : PVal) (hv : valid v = true) (st : Style) :
    ∃ body, printVal v st = ws (st []).pre ++ body ∧ HeadOk body := by
  cases v with
  | str s => exact ⟨_, by rw [printVal], headOk_printStr s _⟩
  | int i =>
    obtain ⟨h1, h2⟩ := intText_alnum i
    exact ⟨_, by rw [printVal], headOk_alnum _ h2 h1⟩
  | flt t =>
    simp only [valid] at hv
    obtain ⟨h1, h2⟩ := floatAtom_alnum t hv
    exact ⟨_, by rw [printVal], headOk_alnum _ h1 h2⟩
  | data bs =>
    exact ⟨'<' :: (hexBytes bs (st []).upper ++ ['>']), by rw [printVal]; simp only [List.append_assoc, List.cons_append], ⟨'<', _, rfl, by decide, by decide, by decide⟩⟩
  | arr xs =>
    exact ⟨'(' :: (printItems xs st 0 ++ ws (st []).close ++ [')']), by rw [printVal]; simp only [List.append_assoc, List.cons_append],
      ⟨'(', _, rfl, by decide, by decide, by decide⟩⟩
  | dict kvs =>
    exact ⟨'{' :: (printEntries kvs st 0 ++ ws (st []).close ++ ['}']), by rw [printVal]; simp only [List.append_assoc, List.cons_append],
      ⟨'{', _, rfl, by decide, by decide, by decide⟩⟩

theorem expect_headOk_paren (l : List Char) {t : List Char} (h : HeadOk t) : expect (ws l ++ t) ')' = none := by
  obtain ⟨c, u, rfl, h1, h2, _⟩ := h
  exact expect_miss l ')' c u h1 h2

theorem expect_headOk_brace (l : List Char) {t : List Char} (h : HeadOk t) : expect (ws l ++ t) '}' = none := by
  obtain ⟨c, u, rfl, h1, _, h3⟩ := h
  exact expect_miss l '}' c u h1 h3

theorem expect_printVal_paren (v : PVal) (hv : valid v = true) (st : Style) (r : List Char) :
    expect (printVal v st ++ r) ')' = none := by
  obtain ⟨body, hb, hh⟩ := printVal_head v hv st
  rw [hb, List.append_assoc]
  exact expect_headOk_paren _ (headOk_append hh r)

/-! ### the statement proved by induction -/

/-- `v` reads back (as `canon v`) from any of its printed forms, whatever follows, given enough fuel -/
def ReadsBack (v : PVal) : Prop :=
  ∀ (st : Style) (r : List Char) (f : Nat), Stop r → (printVal v st).length < f →
    parseRec f (printVal v st ++ r) = some (canon v, r)

theorem readsBack_str (s : List Char) : ReadsBack (.str s) := by
  intro st r f hr hf
  cases f with
  | zero => simp at hf
  | succ f =>
    simp only [printVal, List.append_assoc, canon]
    exact lex_printStr_parse s _ _ r hr f

theorem readsBack_int (i : Int) (hv : valid (.int i) = true) : ReadsBack (.int i) := by
  intro st r f hr hf
  cases f with
  | zero => simp at hf
  | succ f =>
    simp only [valid, Bool.and_eq_true, decide_eq_true_eq] at hv
    obtain ⟨h1, h2⟩ := intText_alnum i
    simp only [printVal, List.append_assoc, canon]
    rw [parseRec, lex_atom _ _ r h2 h1 hr]
    simp [parseAtom_intText i hv.1 hv.2]

theorem readsBack_flt (t : List Char) (hv : valid (.flt t) = true) : ReadsBack (.flt t) := by
  intro st r f hr hf
  cases f with
  | zero => simp at hf
  | succ f =>
    simp only [valid] at hv
    obtain ⟨h1, h2⟩ := floatAtom_alnum t hv
    simp only [printVal, List.append_assoc, canon]
    rw [parseRec, lex_atom _ _ r h1 h2 hr]
    simp [parseAtom_floatAtom t hv]

theorem readsBack_data (bs : List UInt8) : ReadsBack (.data bs) := by
  intro st r f hr hf
  cases f with
  | zero => simp at hf
  | succ f =>
    simp only [printVal, canon]
    have := lex_data (st []).pre bs (st []).upper r
    simp only [List.append_assoc, List.cons_append] at this ⊢
    rw [parseRec, this]

/-! ### arrays -/

theorem validL_cons {x : PVal} {xs : List PVal} (h : validL (x :: xs) = true) : valid x = true ∧ validL xs = true := by
  simpa [validL] using h
theorem validE_cons {k : Key} {x : PVal} {kvs : List (Key × PVal)} (h : validE ((k, x) :: kvs) = true) :
    valid x = true ∧ validE kvs = true := by
  simpa [validE] using h

theorem printItems_one (x : PVal) (st : Style) (i : Nat) :
    printItems [x] st i = printVal x (st.sub i) ++ (ws (st [i]).post ++ if (st []).trailingComma = true then [','] else []) := by
  rw [printItems.eq_2, List.append_assoc]

theorem printItems_two (x y : PVal) (ys : List PVal) (st : Style) (i : Nat) :
    printItems (x :: y :: ys) st i = printVal x (st.sub i) ++ (ws (st [i]).post ++ ',' :: printItems (y :: ys) st (i + 1)) := by
  rw [printItems.eq_3, List.append_assoc]

theorem printItems_headOk (x : PVal) (xs : List PVal) (hv : valid x = true) (st : Style) (i : Nat) (r : List Char) :
    ∃ l body, printItems (x :: xs) st i ++ r = ws l ++ body ∧ HeadOk body := by
  obtain ⟨body, hb, hh⟩ := printVal_head x hv (st.sub i)
  cases xs with
  | nil =>
    rw [printItems_one, hb]
    exact ⟨_, body ++ _, by simp only [List.append_assoc]; rfl, headOk_append hh _⟩
  | cons y ys =>
    rw [printItems_two, hb]
    exact ⟨_, body ++ _, by simp only [List.append_assoc]; rfl, headOk_append hh _⟩

/-- the array loop on the printed items -/
theorem parseArr_items (xs : List PVal) (st : Style)
    (ih : ∀ x ∈ xs, valid x = true → ReadsBack x) (hv : validL xs = true) :
    ∀ (i : Nat) (acc : List PVal) (f : Nat) (r : List Char),
      (printItems xs st i ++ ws (st []).close ++ [')']).length < f →
      parseArr f acc (printItems xs st i ++ ws (st []).close ++ ')' :: r) = some (.arr (acc.reverse ++ canonL xs), r) := by
  induction xs with
  | nil =>
    intro i acc f r hf
    cases f with
    | zero => simp at hf
    | succ f =>
      simp only [printItems, List.nil_append, canonL, List.append_nil]
      rw [parseArr, expect_hit _ ')' r (by decide)]
  | cons x xs ihx =>
    intro i acc f r hf
    obtain ⟨hvx, hvxs⟩ := validL_cons hv
    have hx := ih x (by simp) hvx
    cases f with
    | zero => simp at hf
    | succ f =>
      -- the loop head: not a closing parenthesis
      obtain ⟨l0, body0, hb0, hh0⟩ := printItems_headOk x xs hvx st i (ws (st []).close ++ ')' :: r)
      have e0 : expect (printItems (x :: xs) st i ++ ws (st []).close ++ ')' :: r) ')' = none := by
        rw [List.append_assoc, hb0]; exact expect_headOk_paren _ hh0
      rw [parseArr, e0]
      simp only
      cases xs with
      | nil =>
        by_cases htc : (st []).trailingComma = true
        · -- `x ,` then the closing parenthesis
          have htxt : printItems [x] st i ++ ws (st []).close ++ ')' :: r =
              printVal x (st.sub i) ++ (ws (st [i]).post ++ ',' :: (ws (st []).close ++ ')' :: r)) := by
            rw [printItems_one, if_pos htc]; simp only [List.append_assoc, List.cons_append, List.nil_append]
          have hlen : (printVal x (st.sub i)).length < f := by
            rw [printItems_one, if_pos htc] at hf
            simp only [List.length_append, List.length_cons, List.length_nil] at hf; omega
          rw [htxt, hx (st.sub i) _ f (stop_ws_cons _ ',' _ (by decide)) hlen]
          simp only [expect_miss (st [i]).post ')' ',' _ (by decide) (by decide),
            expect_hit (st [i]).post ',' _ (by decide), expect_hit (st []).close ')' r (by decide)]
          simp [canonL]
        · have htxt : printItems [x] st i ++ ws (st []).close ++ ')' :: r =
              printVal x (st.sub i) ++ (ws ((st [i]).post ++ (st []).close) ++ ')' :: r) := by
            rw [printItems_one, if_neg htc, ← ws_append]; simp only [List.append_assoc, List.append_nil]
          have hlen : (printVal x (st.sub i)).length < f := by
            rw [printItems_one, if_neg htc] at hf
            simp only [List.length_append, List.length_cons, List.length_nil] at hf; omega
          rw [htxt, hx (st.sub i) _ f (stop_ws_cons _ ')' _ (by decide)) hlen]
          simp only [expect_hit ((st [i]).post ++ (st []).close) ')' r (by decide)]
          simp [canonL]
      | cons y ys =>
        have htxt : printItems (x :: y :: ys) st i ++ ws (st []).close ++ ')' :: r =
            printVal x (st.sub i) ++ (ws (st [i]).post ++ ',' ::
              (printItems (y :: ys) st (i + 1) ++ ws (st []).close ++ ')' :: r)) := by
          rw [printItems_two]; simp only [List.append_assoc, List.cons_append]
        have hlen : (printVal x (st.sub i)).length < f ∧
            (printItems (y :: ys) st (i + 1) ++ ws (st []).close ++ [')']).length < f := by
          rw [printItems_two] at hf
          simp only [List.append_assoc, List.cons_append, List.length_append, List.length_cons] at hf ⊢
          omega
        obtain ⟨l1, body1, hb1, hh1⟩ := printItems_headOk y ys (validL_cons hvxs).1 st (i + 1) (ws (st []).close ++ ')' :: r)
        have e1 : expect (printItems (y :: ys) st (i + 1) ++ ws (st []).close ++ ')' :: r) ')' = none := by
          rw [List.append_assoc, hb1]; exact expect_headOk_paren _ hh1
        rw [htxt, hx (st.sub i) _ f (stop_ws_cons _ ',' _ (by decide)) hlen.1]
        simp only [expect_miss (st [i]).post ')' ',' _ (by decide) (by decide),
            expect_hit (st [i]).post ',' _ (by decide), e1]
        rw [ihx (fun z hz => ih z (by simp [hz])) hvxs (i + 1) (canon x :: acc) f r hlen.2]
        simp [canonL]


/-! ### dictionaries, and the theorem -/

theorem printEntries_cons (k : Key) (v : PVal) (kvs : List (Key × PVal)) (st : Style) (i : Nat) :
    printEntries ((k, v) :: kvs) st i = ws (st [i]).keyPre ++ (printKey k (st [i]) ++ (ws (st [i]).eqPre ++ '=' ::
      (printVal v (st.sub i) ++ (ws (st [i]).post ++ ';' :: printEntries kvs st (i + 1))))) := by
  rw [printEntries.eq_2]; simp only [List.append_assoc, List.cons_append]

/-- a printed key, bare or quoted, lexes to a token whose key text is `k` -/
theorem lex_printKey (k : Key) (n : NodeStyle) (l r : List Char) (hr : Stop r) :
    ∃ tok, lex (ws l ++ (printKey k n ++ r)) = some (tok, r) ∧ tok.asKey = some k := by
  unfold printKey
  split
  · next h =>
    simp only [Bool.and_eq_true, bareKeyOk] at h
    obtain ⟨_, ⟨h1, h2⟩⟩ := h
    exact ⟨.atom k, lex_atom l k r (by intro h; subst h; simp at h1) h2 hr, rfl⟩
  · exact ⟨.str k, lex_quoted l k _ r, rfl⟩

/-- the dictionary loop on the printed entries -/
theorem parseDict_entries (kvs : List (Key × PVal)) (st : Style)
    (ih : ∀ kv ∈ kvs, valid kv.2 = true → ReadsBack kv.2) (hv : validE kvs = true) :
    ∀ (i : Nat) (m : List (Key × PVal)) (f : Nat) (r : List Char),
      (printEntries kvs st i ++ ws (st []).close ++ ['}']).length < f →
      parseDict f m (printEntries kvs st i ++ ws (st []).close ++ '}' :: r) = some (.dict (canonE kvs m), r) := by
  induction kvs with
  | nil =>
    intro i m f r hf
    cases f with
    | zero => simp at hf
    | succ f =>
      simp only [printEntries, List.nil_append, canonE]
      rw [parseDict, expect_hit _ '}' r (by decide)]
  | cons kv kvs ihk =>
    obtain ⟨k, v⟩ := kv
    intro i m f r hf
    obtain ⟨hvv, hvk⟩ := validE_cons hv
    have hx := ih (k, v) (by simp) hvv
    cases f with
    | zero => simp at hf
    | succ f =>
      have htxt : printEntries ((k, v) :: kvs) st i ++ ws (st []).close ++ '}' :: r =
          ws (st [i]).keyPre ++ (printKey k (st [i]) ++ (ws (st [i]).eqPre ++ '=' ::
            (printVal v (st.sub i) ++ (ws (st [i]).post ++ ';' ::
              (printEntries kvs st (i + 1) ++ ws (st []).close ++ '}' :: r))))) := by
        rw [printEntries_cons]; simp only [List.append_assoc, List.cons_append]
      have hlen : (printVal v (st.sub i)).length < f ∧
          (printEntries kvs st (i + 1) ++ ws (st []).close ++ ['}']).length < f := by
        rw [printEntries_cons] at hf
        simp only [List.append_assoc, List.cons_append, List.length_append, List.length_cons] at hf ⊢
        omega
      have e0 : expect (ws (st [i]).keyPre ++ (printKey k (st [i]) ++ (ws (st [i]).eqPre ++ '=' ::
            (printVal v (st.sub i) ++ (ws (st [i]).post ++ ';' ::
              (printEntries kvs st (i + 1) ++ ws (st []).close ++ '}' :: r)))))) '}' = none :=
        expect_headOk_brace _ (headOk_append (headOk_printKey k _) _)
      obtain ⟨tok, hlex, hkey⟩ := lex_printKey k (st [i]) (st [i]).keyPre
        (ws (st [i]).eqPre ++ '=' :: (printVal v (st.sub i) ++ (ws (st [i]).post ++ ';' ::
              (printEntries kvs st (i + 1) ++ ws (st []).close ++ '}' :: r))))
        (stop_ws_cons _ '=' _ (by decide))
      rw [htxt, parseDict, e0]
      simp only [hlex, hkey, expect_hit (st [i]).eqPre '=' _ (by decide),
        hx (st.sub i) _ f (stop_ws_cons _ ';' _ (by decide)) hlen.1, expect_hit (st [i]).post ';' _ (by decide)]
      rw [ihk (fun z hz => ih z (by simp [hz])) hvk (i + 1) _ f r hlen.2]
      simp [canonE]

/-- every valid value reads back from every printed form -/
theorem readsBack (v : PVal) : valid v = true → ReadsBack v := by
  induction v using PVal.induct with
  | hstr s => exact fun _ => readsBack_str s
  | hint i => exact readsBack_int i
  | hflt t => exact readsBack_flt t
  | hdata b => exact fun _ => readsBack_data b
  | harr xs ih =>
    intro hv st r f hr hf
    simp only [valid] at hv
    cases f with
    | zero => simp at hf
    | succ f =>
      have htxt : printVal (.arr xs) st ++ r =
          ws (st []).pre ++ '(' :: (printItems xs st 0 ++ ws (st []).close ++ ')' :: r) := by
        rw [printVal]; simp only [List.append_assoc, List.cons_append, List.nil_append]
      have hlen : (printItems xs st 0 ++ ws (st []).close ++ [')']).length < f := by
        rw [printVal] at hf
        simp only [List.append_assoc, List.cons_append, List.length_append, List.length_cons] at hf ⊢
        omega
      rw [htxt, parseRec, lex_openParen]
      simp only
      rw [parseArr_items xs st ih hv 0 [] f r hlen]
      simp [canon]
  | hdict kvs ih =>
    intro hv st r f hr hf
    simp only [valid] at hv
    cases f with
    | zero => simp at hf
    | succ f =>
      have htxt : printVal (.dict kvs) st ++ r =
          ws (st []).pre ++ '{' :: (printEntries kvs st 0 ++ ws (st []).close ++ '}' :: r) := by
        rw [printVal]; simp only [List.append_assoc, List.cons_append, List.nil_append]
      have hlen : (printEntries kvs st 0 ++ ws (st []).close ++ ['}']).length < f := by
        rw [printVal] at hf
        simp only [List.append_assoc, List.cons_append, List.length_append, List.length_cons] at hf ⊢
        omega
      rw [htxt, parseRec, lex_openBrace]
      simp only
      rw [parseDict_entries kvs st ih hv 0 [] f r hlen]
      simp [canon]

/-- **the reader reads back every valid value from every style** (as its canonical form) -/
theorem parse_print (v : PVal) (hv : valid v = true) (st : Style) : parse (print v st) = some (canon v) := by
  unfold parse print
  rw [readsBack v hv st (ws (st []).post) _ (stop_ws _) (by simp only [List.length_append]; omega)]
  rfl


end Fontc.Plist
