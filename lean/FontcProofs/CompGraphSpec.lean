/-
  C15 helper lemmas (5/5): `depthSort`'s output in terms of the loop's final state, a uniform recursion bound on acyclic
  graphs, the workload model's stop conditions.
-/
import FontcProofs.CompGraphWalk
namespace Fontc.CompGraph
variable {α : Type} [DecidableEq α]

/-- what `depthSort` reports as placed is exactly what has a depth at the end of the loop -/
theorem mem_placed_iff (nlt : α → α → Bool) (g : Graph α) (hnd : (names g).Nodup) (n : α) (d : Nat) :
    (n, d) ∈ (depthSort nlt g).placed ↔ depthOf (depthCore g).1 n = some d := by
  have hI := depthCore_inv g hnd
  simp only [depthSort, mem_sortByDepth, List.mem_filter]
  constructor
  · rintro ⟨h, _⟩; exact depthOf_of_mem_nodup _ hI.nodup n d h
  · intro h
    refine ⟨depthOf_mem _ n d h, ?_⟩
    simp only [Bool.not_eq_true', List.any_eq_false, beq_iff_eq]
    intro e he heq
    have := hI.fresh e he
    rw [heq, h] at this; cases this

theorem mem_leftover_iff (nlt : α → α → Bool) (g : Graph α) (n : α) :
    n ∈ (depthSort nlt g).leftover ↔ ∃ e ∈ (depthCore g).2, e.1 = n := by
  simp [depthSort, List.mem_map]

/-- an acyclic graph has a uniform recursion bound -/
theorem acyclic_walk_bounded {β : Type} (leaf : α → β) (node : α → List β → β) (g : Graph α) (h : Acyclic g) :
    ∃ B, ∀ n, (walk leaf node B g n).isSome := by
  obtain ⟨rank, hrank⟩ := h
  refine ⟨(names g).foldr (fun n a => max (rank n) a) 0 + 1, ?_⟩
  intro n
  by_cases hn : n ∈ names g
  · apply walk_isSome_of_rank leaf node g rank hrank
    have : ∀ (l : List α), n ∈ l → rank n ≤ l.foldr (fun n a => max (rank n) a) 0 := by
      intro l
      induction l with
      | nil => intro h; simp at h
      | cons x xs ih =>
        intro h
        simp only [List.foldr_cons]
        rcases List.mem_cons.mp h with h | h
        · subst h; omega
        · have := ih h; omega
    have := this _ hn
    omega
  · rw [walk_succ, compsOf_eq_nil_of_not_mem g n hn]; rfl

theorem workload_panic (jobs : List JobResult) (pending : Nat) (m : String) (h : JobResult.panic m ∈ jobs) :
    ∃ e, workload jobs pending = .error e := by
  induction jobs with
  | nil => simp at h
  | cons j js ih =>
    cases j with
    | ok =>
      simp only [workload]
      rcases List.mem_cons.mp h with h | h
      · cases h
      · exact ih h
    | err m' => exact ⟨_, rfl⟩
    | panic m' => exact ⟨_, rfl⟩

theorem workload_ok (jobs : List JobResult) (pending : Nat) (h : workload jobs pending = .ok ()) :
    pending = 0 ∧ ∀ j ∈ jobs, j = JobResult.ok := by
  induction jobs with
  | nil => cases pending <;> simp [workload] at h ⊢
  | cons j js ih =>
    cases j with
    | ok =>
      simp only [workload] at h
      obtain ⟨h1, h2⟩ := ih h
      exact ⟨h1, by intro j hj; rcases List.mem_cons.mp hj with hj | hj; exact hj; exact h2 j hj⟩
    | err m' => simp [workload] at h
    | panic m' => simp [workload] at h

end Fontc.CompGraph
