/-
  Lemmas about the remainder loop of `NBox::overlay_onto` and the function as a whole.
-/
import FontcProofs.FeatVarsBox

namespace Fontc.FeatVars

theorem map_cons_eq_some {o : Option (NBox × Bool)} {x : Option Range} {r : NBox} {e : Bool}
    (h : (o.map fun (re : NBox × Bool) => (x :: re.1, re.2)) = some (r, e)) :
    ∃ r', o = some (r', e) ∧ r = x :: r' := by
  cases o with
  | none => simp at h
  | some re => obtain ⟨r', e'⟩ := re; simp at h; exact ⟨r', by rw [h.2], h.1.symm⟩

/-- once `extruding` is set the loop either gives up or returns `other` unchanged -/
theorem remLoop_true (c w : NBox) (r : NBox) (e : Bool) (hcok : BoxOk c) (hwok : BoxOk w)
    (hl : c.length = w.length) (h : remLoop (c.zip w) true = some (r, e)) : r = w ∧ e = true := by
  induction c generalizing w r e with
  | nil =>
    cases w with
    | nil => simp [remLoop_nil] at h; exact ⟨by grind, by grind⟩
    | cons _ _ => simp at hl
  | cons ce c ih =>
    cases w with
    | nil => simp at hl
    | cons we w =>
      have hl' : c.length = w.length := by simpa using hl
      simp only [List.zip_cons_cons] at h
      cases ce with
      | none =>
        rw [remLoop_none_left] at h
        obtain ⟨r', hr, rfl⟩ := map_cons_eq_some h
        have := ih w r' e hcok.tail hwok.tail hl' hr
        rw [this.1]; exact ⟨rfl, this.2⟩
      | some rc =>
        obtain ⟨a, b⟩ := rc
        cases we with
        | none =>
          rw [remLoop_none_right] at h
          obtain ⟨r', hr, rfl⟩ := map_cons_eq_some h
          have := ih w r' e hcok.tail hwok.tail hl' hr
          rw [this.1]; exact ⟨rfl, this.2⟩
        | some rw' =>
          obtain ⟨min2, max2⟩ := rw'
          rw [remLoop_ss_ok hcok.head hwok.head] at h
          by_cases c1 : a ≤ min2 ∧ max2 ≤ b
          · rw [if_pos c1] at h
            obtain ⟨r', hr, rfl⟩ := map_cons_eq_some h
            have := ih w r' e hcok.tail hwok.tail hl' hr
            rw [this.1]; exact ⟨rfl, this.2⟩
          · rw [if_neg c1] at h; simp at h

/-- ... and in that case, when `self` has no axis of its own, `self` covers `other` -/
theorem remLoop_true_cover (c w : NBox) (r : NBox) (e : Bool) (p : Point) (hcok : BoxOk c) (hwok : BoxOk w)
    (hl : c.length = w.length) (hp : p.length = w.length)
    (hso : (c.zip w).any (fun x => selfOnly x.1 x.2) = false)
    (h : remLoop (c.zip w) true = some (r, e)) (hw : contains w p = true) : contains c p = true := by
  induction c generalizing w r e p with
  | nil => simp [contains]
  | cons ce c ih =>
    cases w with
    | nil => simp at hl
    | cons we w =>
      cases p with
      | nil => simp at hp
      | cons x p =>
        have hl' : c.length = w.length := by simpa using hl
        have hp' : p.length = w.length := by simpa using hp
        simp only [List.zip_cons_cons, List.any_cons, Bool.or_eq_false_iff] at h hso
        cases ce with
        | none =>
          rw [remLoop_none_left] at h
          obtain ⟨r', hr, rfl⟩ := map_cons_eq_some h
          have hw' : contains w p = true := by
            cases we with
            | none => simpa [contains] using hw
            | some rr => obtain ⟨u, v⟩ := rr; simp [contains] at hw; exact hw.2
          simpa [contains] using ih w r' e p hcok.tail hwok.tail hl' hp' hso.2 hr hw'
        | some rc =>
          obtain ⟨a, b⟩ := rc
          cases we with
          | none => simp [selfOnly] at hso
          | some rw' =>
            obtain ⟨min2, max2⟩ := rw'
            rw [remLoop_ss_ok hcok.head hwok.head] at h
            by_cases c1 : a ≤ min2 ∧ max2 ≤ b
            · rw [if_pos c1] at h
              obtain ⟨r', hr, rfl⟩ := map_cons_eq_some h
              simp [contains] at hw
              have := ih w r' e p hcok.tail hwok.tail hl' hp' hso.2 hr hw.2
              simp [contains, this]; grind
            · rw [if_neg c1] at h; simp at h

/-- **Remainder step of the invariant.**  Loop entered with `extruding = false` (so `self` has no axis of
    its own) and run to the end: a point of a good `other` is in `self`, or the remainder is good for it;
    and if the loop ends with `extruding = false` ("fully inside") the point is in `self`. -/
theorem remLoop_false {L H : Bnd} (c w : NBox) (r : NBox) (e : Bool) (p : Point) (hcok : BoxOk c) (hwok : BoxOk w)
    (hl : c.length = w.length) (hp : p.length = w.length)
    (hso : (c.zip w).any (fun x => selfOnly x.1 x.2) = false)
    (h : remLoop (c.zip w) false = some (r, e)) (hg : Good L H w p) :
    (e = false → contains c p = true) ∧ (contains c p = true ∨ Good L H r p) := by
  induction c generalizing L H w r e p with
  | nil =>
    cases w with
    | nil => simp [remLoop_nil] at h; simp [contains]
    | cons _ _ => simp at hl
  | cons ce c ih =>
    cases w with
    | nil => simp at hl
    | cons we w =>
      cases p with
      | nil => simp at hp
      | cons x p =>
        have hl' : c.length = w.length := by simpa using hl
        have hp' : p.length = w.length := by simpa using hp
        simp only [List.zip_cons_cons, List.any_cons, Bool.or_eq_false_iff] at h hso
        cases ce with
        | none =>
          rw [remLoop_none_left] at h
          obtain ⟨r', hr, rfl⟩ := map_cons_eq_some h
          cases we with
          | none =>
            simp only [Good] at hg ⊢
            have := ih w r' e p hcok.tail hwok.tail hl' hp' hso.2 hr hg
            simpa [contains] using this
          | some rr =>
            obtain ⟨u, v⟩ := rr
            simp only [Good] at hg ⊢
            have := ih w r' e p hcok.tail hwok.tail hl' hp' hso.2 hr hg.2.2.2.2
            simp only [contains]
            grind
        | some rc =>
          obtain ⟨a, b⟩ := rc
          cases we with
          | none => simp [selfOnly] at hso
          | some rw' =>
            obtain ⟨min2, max2⟩ := rw'
            rw [remLoop_ss_ok hcok.head hwok.head] at h
            simp only [Good] at hg
            obtain ⟨g1, g2, g3, g4, g5⟩ := hg
            by_cases c1 : a ≤ min2 ∧ max2 ≤ b
            · rw [if_pos c1] at h
              obtain ⟨r', hr, rfl⟩ := map_cons_eq_some h
              have := ih w r' e p hcok.tail hwok.tail hl' hp' hso.2 hr g5
              simp only [contains, Good]
              grind
            · rw [if_neg c1] at h
              simp only [Bool.false_eq_true, if_false] at h
              by_cases c2 : a ≤ min2
              · rw [if_pos c2] at h
                obtain ⟨r', hr, rfl⟩ := map_cons_eq_some h
                have ht := remLoop_true c w r' e hcok.tail hwok.tail hl' hr
                have hcov := remLoop_true_cover c w r' e p hcok.tail hwok.tail hl' hp' hso.2 hr g5.contains
                obtain ⟨rfl, rfl⟩ := ht
                refine ⟨by simp, ?_⟩
                simp only [contains, Good, hcov]
                rcases ratMax_cases b min2 with ⟨e1, o1⟩ | ⟨e1, o1⟩ <;> rw [e1] <;> grind
              · rw [if_neg c2] at h
                by_cases c3 : max2 ≤ b
                · rw [if_pos c3] at h
                  obtain ⟨r', hr, rfl⟩ := map_cons_eq_some h
                  have ht := remLoop_true c w r' e hcok.tail hwok.tail hl' hr
                  have hcov := remLoop_true_cover c w r' e p hcok.tail hwok.tail hl' hp' hso.2 hr g5.contains
                  obtain ⟨rfl, rfl⟩ := ht
                  refine ⟨by simp, ?_⟩
                  simp only [contains, Good, hcov]
                  rcases ratMin_cases a max2 with ⟨e1, o1⟩ | ⟨e1, o1⟩ <;> rw [e1] <;> grind
                · rw [if_neg c3] at h; simp at h

/-- whatever the loop returns is a box of the same shape inside `other` -/
theorem remLoop_sub (c w : NBox) (ex : Bool) (r : NBox) (e : Bool) (hcok : BoxOk c) (hwok : BoxOk w)
    (hl : c.length = w.length) (h : remLoop (c.zip w) ex = some (r, e)) :
    r.length = w.length ∧ BoxOk r ∧ ∀ p : Point, contains r p = true → contains w p = true := by
  induction c generalizing w r e ex with
  | nil =>
    cases w with
    | nil => simp [remLoop_nil] at h; obtain ⟨rfl, _⟩ := h; exact ⟨rfl, BoxOk.nil, fun _ h => h⟩
    | cons _ _ => simp at hl
  | cons ce c ih =>
    cases w with
    | nil => simp at hl
    | cons we w =>
      have hl' : c.length = w.length := by simpa using hl
      simp only [List.zip_cons_cons] at h
      -- the three "keep other's entry" situations
      have keep : ∀ r' : NBox, remLoop (c.zip w) ex = some (r', e) → r = we :: r' →
          r.length = (we :: w).length ∧ BoxOk r ∧ ∀ p : Point, contains r p = true → contains (we :: w) p = true := by
        intro r' hr hr2
        obtain ⟨i1, i2, i3⟩ := ih w ex r' e hcok.tail hwok.tail hl' hr
        subst hr2
        refine ⟨by simp [i1], ?_, ?_⟩
        · intro lo hi hm
          simp at hm
          rcases hm with hm | hm
          · exact hwok lo hi (by simp [hm])
          · exact i2 lo hi hm
        · intro p hp
          cases p with
          | nil => cases we <;> simp [contains] at hp
          | cons x p =>
            cases we with
            | none => simp only [contains] at hp ⊢; exact i3 p hp
            | some rr =>
              obtain ⟨u, v⟩ := rr
              simp only [contains, Bool.and_eq_true] at hp ⊢
              exact ⟨hp.1, i3 p hp.2⟩
      cases ce with
      | none =>
        rw [remLoop_none_left] at h
        obtain ⟨r', hr, hr2⟩ := map_cons_eq_some h
        exact keep r' hr hr2
      | some rc =>
        obtain ⟨a, b⟩ := rc
        cases we with
        | none =>
          rw [remLoop_none_right] at h
          obtain ⟨r', hr, hr2⟩ := map_cons_eq_some h
          exact keep r' hr hr2
        | some rw' =>
          obtain ⟨min2, max2⟩ := rw'
          have hb := hwok.head
          rw [remLoop_ss_ok hcok.head hwok.head] at h
          -- a cut entry
          have cut : ∀ (lo hi : Rat) (r' : NBox), min2 ≤ lo → hi ≤ max2 →
              remLoop (c.zip w) true = some (r', e) → r = some (lo, hi) :: r' →
              r.length = (some (min2, max2) :: w).length ∧ BoxOk r ∧
                ∀ p : Point, contains r p = true → contains (some (min2, max2) :: w) p = true := by
            intro lo hi r' h1 h2 hr hr2
            obtain ⟨i1, i2, i3⟩ := ih w true r' e hcok.tail hwok.tail hl' hr
            subst hr2
            refine ⟨by simp [i1], BoxOk.cons_some (by grind) (by grind) i2, ?_⟩
            intro p hp
            cases p with
            | nil => simp [contains] at hp
            | cons x p =>
              simp only [contains, Bool.and_eq_true, decide_eq_true_eq] at hp ⊢
              exact ⟨⟨by grind, by grind⟩, i3 p hp.2⟩
          by_cases c1 : a ≤ min2 ∧ max2 ≤ b
          · rw [if_pos c1] at h
            obtain ⟨r', hr, hr2⟩ := map_cons_eq_some h
            exact keep r' hr hr2
          · rw [if_neg c1] at h
            cases ex with
            | true => simp at h
            | false =>
              simp only [Bool.false_eq_true, if_false] at h
              by_cases c2 : a ≤ min2
              · rw [if_pos c2] at h
                obtain ⟨r', hr, hr2⟩ := map_cons_eq_some h
                refine cut _ _ r' ?_ (by grind) hr hr2
                rcases ratMax_cases b min2 with ⟨e1, o1⟩ | ⟨e1, o1⟩ <;> rw [e1] <;> grind
              · rw [if_neg c2] at h
                by_cases c3 : max2 ≤ b
                · rw [if_pos c3] at h
                  obtain ⟨r', hr, hr2⟩ := map_cons_eq_some h
                  refine cut _ _ r' (by grind) ?_ hr hr2
                  rcases ratMin_cases a max2 with ⟨e1, o1⟩ | ⟨e1, o1⟩ <;> rw [e1] <;> grind
                · rw [if_neg c3] at h; simp at h

end Fontc.FeatVars
