/-
  The Python-int rank (`Nat`) is a lawful rank representation for every number of rules.
-/
import FontcProofs.FeatVarsFinal

namespace Fontc.FeatVars

theorem popcountAux_fuel : ∀ f m, m ≤ f → popcountAux f m = popcountAux m m := by
  intro f
  induction f using Nat.strongRecOn with
  | _ f ih =>
    intro m hm
    cases f with
    | zero => have : m = 0 := by omega
              subst this; rfl
    | succ f' =>
      cases m with
      | zero => simp [popcountAux]
      | succ m' =>
        simp only [popcountAux, Nat.add_one_ne_zero, if_false]
        rw [ih f' (by omega) ((m' + 1) / 2) (by omega), ih m' (by omega) ((m' + 1) / 2) (by omega)]

theorem popcount_zero : popcount 0 = 0 := rfl
theorem popcount_step (a : Nat) : popcount a = a % 2 + popcount (a / 2) := by
  unfold popcount
  cases a with
  | zero => rfl
  | succ a' =>
    simp only [popcountAux, Nat.add_one_ne_zero, if_false]
    rw [popcountAux_fuel a' ((a' + 1) / 2) (by omega)]

/-- `popcount` counts the set bits below any bound on the width -/
theorem popcount_eq_filter (N : Nat) : ∀ a, a < 2 ^ N → popcount a = ((List.range N).filter a.testBit).length := by
  induction N with
  | zero => intro a h; have : a = 0 := by simpa using h
            subst this; simp [popcount_zero]
  | succ N ih =>
    intro a h
    rw [popcount_step, ih (a / 2) (by rw [Nat.pow_succ] at h; omega), List.range_succ_eq_map, List.filter_cons,
      List.filter_map]
    have hcomp : (a.testBit ∘ Nat.succ) = (a / 2).testBit := by
      funext j; simp [Function.comp, Nat.testBit_succ]
    rw [hcomp, Nat.testBit_zero]
    rcases Nat.mod_two_eq_zero_or_one a with h2 | h2 <;> simp [h2] <;> omega

def natLaw (N : Nat) : LawfulRank natOps N where
  Inv a := a < 2 ^ N
  bits a j := a.testBit j
  inv_zero := Nat.two_pow_pos N
  inv_single i hi := by
    show 1 <<< i < 2 ^ N
    rw [Nat.one_shiftLeft]; exact Nat.pow_lt_pow_right (by omega) hi
  inv_or a b ha hb := Nat.or_lt_two_pow ha hb
  inv_orAssign a b ha hb := Nat.or_lt_two_pow ha hb
  inv_shift a ha := by show a / 2 < 2 ^ N; omega
  bits_lt a j ha hj := by
    apply Classical.byContradiction
    intro hn
    have : a < 2 ^ j := Nat.lt_of_lt_of_le ha (Nat.pow_le_pow_right (by omega) (by omega))
    rw [Nat.testBit_lt_two_pow this] at hj; cases hj
  bits_zero j := Nat.zero_testBit j
  bits_single i j _ := by
    show (1 <<< i).testBit j = decide (j = i)
    rw [Nat.one_shiftLeft, Nat.testBit_two_pow]
    by_cases h : i = j <;> simp [h, eq_comm]
  bits_or a b j _ _ := Nat.testBit_or a b j
  bits_orAssign a b j _ _ := Nat.testBit_or a b j
  key a := N - popcount a
  le_iff a b ha hb := by
    show decide (popcount b ≤ popcount a) = true ↔ N - popcount a ≤ N - popcount b
    have h1 : popcount a ≤ N := by rw [popcount_eq_filter N a ha]; exact Nat.le_trans (List.length_filter_le _ _) (by simp)
    have h2 : popcount b ≤ N := by rw [popcount_eq_filter N b hb]; exact Nat.le_trans (List.length_filter_le _ _) (by simp)
    simp; omega
  key_card a b ha hb _ _ := by
    show N - popcount a ≤ N - popcount b ↔ _
    have h1 : popcount a ≤ N := by rw [popcount_eq_filter N a ha]; exact Nat.le_trans (List.length_filter_le _ _) (by simp)
    have h2 : popcount b ≤ N := by rw [popcount_eq_filter N b hb]; exact Nat.le_trans (List.length_filter_le _ _) (by simp)
    rw [← popcount_eq_filter N a ha, ← popcount_eq_filter N b hb]; omega
  isZero_iff a _ := by
    show (a == 0) = true ↔ _
    constructor
    · intro h j; have : a = 0 := by simpa using h
      subst this; exact Nat.zero_testBit j
    · intro h; simpa using Nat.eq_of_testBit_eq (x := a) (y := 0) (fun i => by rw [h i, Nat.zero_testBit])
  firstBit_eq a _ := by
    show (a % 2 == 1) = a.testBit 0
    rw [Nat.testBit_zero]; rcases Nat.mod_two_eq_zero_or_one a with h | h <;> simp [h]
  bits_shift a j _ := by show (a / 2).testBit j = a.testBit (j + 1); rw [Nat.testBit_succ]
  bound_spec a j _ hj := by
    show j < a
    have := Nat.ge_two_pow_of_testBit hj
    exact Nat.lt_of_lt_of_le Nat.lt_two_pow_self this

end Fontc.FeatVars
