/-
  C11 simulation, general part 6: a whole feature block with lookup blocks, lookup references and
  `script` / `language` statements.
-/
import FontcProofs.FeaGenStmt

namespace Fontc.FeaCompile
open Cmp
set_option linter.unusedSimpArgs false

/-- a lookup block of the modelled subset: `lookupflag` statements, then rules of one type -/
def BlockOk (U : List (List Glyph)) (body : List BStmt) : Prop :=
  ∃ (fl : List Flag) (rs : List Rule) (k : Kind), body = fl.map BStmt.flag ++ rs.map BStmt.rule ∧
    (∀ f ∈ fl, FlagNorm f ∧ ∀ c, f.attach = some c → sortedSet c ∈ U) ∧ (∀ r ∈ rs, r.kind = k) ∧ rs ≠ []

/-- what a statement has to satisfy when the walk is in state `w` and the names `used` are defined -/
def StmtOk (U : List (List Glyph)) (w : Src.Walk) (used : List String) : Stmt → Prop
  | .flag f => FlagNorm f ∧ ∀ c, f.attach = some c → sortedSet c ∈ U
  | .rule r => ∀ reg f rules, w.cur = some (reg, f, rules) → f = w.flag → Wf.mixes (headKind rules) r.kind = false
  | .ref n => n ∈ used
  | .lookup n body => n ∉ used ∧ BlockOk U body
  | .script t => w.reg ≠ .script t
  | .language _ _ => True

def BodyOk (U : List (List Glyph)) : Src.Walk → List String → List Stmt → Prop
  | _, _, [] => True
  | w, used, st :: rest => StmtOk U w used st ∧ BodyOk U (Src.walkStmt w st) (namesAfter used [st]) rest

theorem namesAfter_cons (used : List String) (st : Stmt) (rest : List Stmt) :
    namesAfter used (st :: rest) = namesAfter (namesAfter used [st]) rest := by
  cases st <;> rfl

theorem regScript_walkStmt (w : Src.Walk) (st : Stmt) :
    regScript (Src.walkStmt w st).reg = scriptAfterStmt (regScript w.reg) st := by
  have hfl : w.flush.reg = w.reg := by
    simp only [Src.Walk.flush]; split <;> rfl
  cases st with
  | script t => rfl
  | language l ex =>
    simp only [Src.walkStmt, scriptAfterStmt, hfl]
    split <;> cases w.reg <;> rfl
  | flag f => rfl
  | rule r =>
    simp only [Src.walkStmt, scriptAfterStmt]
    split
    · split
      · rfl
      · simp only [hfl]
    · rfl
  | lookup n body => simp only [Src.walkStmt, scriptAfterStmt, hfl]
  | ref n => rfl

/-- **The statements of a feature block.** -/
theorem gen_body (fx : Fixes) (U : List (List Glyph)) (tag : Tag) (dls : List Sys) (s0 : St) (body : List Stmt) :
    ∀ (w : Src.Walk) (s : St) (evs : List Ev) (ids : List LookupId) (used : List String),
    GenInv fx U tag dls s0 w s evs ids used → BodyOk U w used body →
    ∃ evs' ids', GenInv fx U tag dls s0 (body.foldl Src.walkStmt w) (body.foldl (St.stmt fx) s) evs' ids' (namesAfter used body) ∧
      sysEvs evs' = sysEvs evs ++ stmtSys (regScript w.reg) body := by
  induction body with
  | nil => intro w s evs ids used h _; exact ⟨evs, ids, h, by simp [stmtSys]⟩
  | cons st body ih =>
    intro w s evs ids used h hok
    obtain ⟨hst, hrest⟩ := hok
    have step : ∃ evs1 ids1, GenInv fx U tag dls s0 (Src.walkStmt w st) (s.stmt fx st) evs1 ids1 (namesAfter used [st]) ∧
        sysEvs evs1 = sysEvs evs ++ stmtSys1 (regScript w.reg) st := by
      cases st with
      | flag f => exact ⟨evs, ids, gen_flag fx U tag dls s0 w s evs ids used f h hst.1 hst.2, by simp [stmtSys1]⟩
      | rule r =>
        obtain ⟨e, i, h1, h2⟩ := gen_rule fx U tag dls s0 w s evs ids used r h hst
        exact ⟨e, i, h1, by simp [stmtSys1, h2]⟩
      | ref n =>
        obtain ⟨e, i, h1, h2⟩ := gen_ref fx U tag dls s0 w s evs ids used n h hst
        exact ⟨e, i, h1, by simp [stmtSys1, h2]⟩
      | lookup n b =>
        obtain ⟨hn, fl, rs, k, rfl, hfl, hk, hne⟩ := hst
        obtain ⟨e, i, h1, h2⟩ := gen_lookup fx U tag dls s0 w s evs ids used n fl rs k h hfl hk hne hn
        exact ⟨e, i, h1, by simp [stmtSys1, h2]⟩
      | script t =>
        obtain ⟨e, i, h1, h2⟩ := gen_script fx U tag dls s0 w s evs ids used t h hst
        exact ⟨e, i, h1, by simp [stmtSys1, h2]⟩
      | language l ex =>
        obtain ⟨e, i, h1, h2⟩ := gen_language fx U tag dls s0 w s evs ids used l ex h
        exact ⟨e, i, h1, by simp [stmtSys1, h2]⟩
    obtain ⟨evs1, ids1, h1, hs1⟩ := step
    obtain ⟨evs2, ids2, h2, hs2⟩ := ih _ _ evs1 ids1 _ h1 hrest
    refine ⟨evs2, ids2, ?_, ?_⟩
    · rw [namesAfter_cons]; exact h2
    · rw [hs2, hs1, regScript_walkStmt, List.append_assoc]; rfl


/-- what a feature block leaves behind -/
structure FeatOut (fx : Fixes) (U : List (List Glyph)) (tag : Tag) (s s' : St) (items : List (Src.Reg × Src.Item))
    (evs : List Ev) (ids : List LookupId) (used' : List String) : Prop where
  out : OutRelG fx s' items ids
  evrel : EvRel .root evs items ids
  ordered : (defIds items ids).Pairwise idLt
  below : ∀ id ∈ ids, idBelow s' id
  fresh : ∀ id ∈ defIds items ids, ¬ idBelow s id
  grew : Grew s s'
  idsInv : IdsInv s'
  attachU : ∀ c ∈ s'.attachIds, c ∈ U
  closed : s'.cur = none ∧ s'.curName = none ∧ s'.script = none ∧ s'.active = none ∧ s'.flag = (0, none)
  langsys : s'.langsys = s.langsys
  namedExt : NamedExt s s'
  namedKeys : ∀ n, (s'.named.lookup n).isSome = true ↔ n ∈ used'
  namedBelow : ∀ n id, s'.named.lookup n = some id → idBelow s' id
  namedNew : ∀ n id, s'.named.lookup n = some id →
    s.named.lookup n = some id ∨ ∃ reg l, ((reg, Src.Item.defn l), id) ∈ items.zip ids ∧ l.name = some n
  feats : s'.features = ((evs.foldl evStep (a0 tag s.defaultSystems)).finish).foldl
    (fun fs (x : Sys × List LookupId) => featInsert (tag, x.1.2, x.1.1) x.2 fs) s.features
  refsBack : RefsBack s items

theorem tag_fold (evs : List Ev) (a : Active) : (evs.foldl evStep a).tag = a.tag := by
  induction evs generalizing a with
  | nil => rfl
  | cons e evs ih =>
    simp only [List.foldl_cons, ih]
    cases e with
    | item id =>
      simp only [evStep, Active.addLookup]
      split
      · split <;> rfl
      · rfl
    | sys sy ex =>
      simp only [evStep, Active.setSystem]
      split
      · split <;> rfl
      · rfl

/-- **A feature block.** -/
theorem gen_feature (fx : Fixes) (U : List (List Glyph)) (tag : Tag) (s : St) (body : List Stmt) (used : List String)
    (hcl : s.cur = none ∧ s.curName = none ∧ s.script = none) (hids : IdsInv s) (hU : ∀ c ∈ s.attachIds, c ∈ U)
    (hnk : ∀ n, (s.named.lookup n).isSome = true ↔ n ∈ used) (hnb : ∀ n id, s.named.lookup n = some id → idBelow s id)
    (hbody : BodyOk U {} used body) :
    ∃ evs ids, FeatOut fx U tag s (s.feature fx tag body) (Src.featureItems body) evs ids (namesAfter used body) ∧
      sysEvs evs = stmtSys "DFLT" body := by
  rw [feature_eq]
  have hinit : GenInv fx U tag s.defaultSystems s {} (featureStart s tag) [] [] used := {
    rel := ⟨flagCode_empty _ _, by simp [featureStart, St.clearFlags, hcl.1]⟩
    normFlag := ⟨by simp, by simp⟩
    normCur := by simp
    reg := rfl
    curReg := by simp
    script := by simp [featureStart, St.clearFlags, hcl.2.2, regScript]
    o := {
      idsInv := hids
      attachU := hU
      out := trivial
      evrel := trivial
      ordered := List.Pairwise.nil
      below := by simp
      fresh := by simp [defIds]
      ctx := ⟨hcl.2.1, rfl, rfl⟩
      namedExt := NamedExt.refl s
      namedKeys := hnk
      namedBelow := hnb
      namedNew := fun n id h => Or.inl h
      grew := Grew.refl s
      active := rfl
      refsBack := by intro pre reg n post he; cases pre <;> simp at he } }
  obtain ⟨evs2, ids2, h2, hs2⟩ := gen_body fx U tag s.defaultSystems s body {} (featureStart s tag) [] [] used hinit hbody
  generalize body.foldl (St.stmt fx) (featureStart s tag) = s2 at h2 ⊢
  obtain ⟨evs3, ids3, h3, hs3, hcur3, _, _, _, _⟩ := gen_flush fx U tag s.defaultSystems s _ s2 evs2 ids2 _ h2
  have hitems : Src.featureItems body = (body.foldl Src.walkStmt {}).flush.out := rfl
  have hact3 := h3.o.active
  have hfields : (featureTail s2).cur = s2.finishAndAdd.cur ∧ (featureTail s2).curName = s2.finishAndAdd.curName ∧
      (featureTail s2).active = none ∧ (featureTail s2).flag = (0, none) ∧ (featureTail s2).script = none ∧
      (featureTail s2).named = s2.finishAndAdd.named ∧ (featureTail s2).langsys = s2.finishAndAdd.langsys ∧
      (featureTail s2).attachIds = s2.finishAndAdd.attachIds ∧ (featureTail s2).filterIds = s2.finishAndAdd.filterIds ∧
      (featureTail s2).gsub = s2.finishAndAdd.gsub ∧ (featureTail s2).gpos = s2.finishAndAdd.gpos ∧
      (featureTail s2).features = (evs3.foldl evStep (a0 tag s.defaultSystems)).finish.foldl
        (fun fs ((script, lang), ls) => featInsert ((evs3.foldl evStep (a0 tag s.defaultSystems)).tag, lang, script) ls fs)
        s2.finishAndAdd.features := by
    simp only [featureTail, hact3, St.clearFlags]
    simp
  obtain ⟨f1, f2, f3, f4, f5, f6, f7, f8, f9, f10, f11, f12⟩ := hfields
  have hgF : Grew s2.finishAndAdd (featureTail s2) :=
    ⟨⟨[], by simp [f10]⟩, ⟨[], by simp [f11]⟩, ⟨[], by simp [f8]⟩, ⟨[], by simp [f9]⟩⟩
  refine ⟨evs3, ids3, ?_, ?_⟩
  · rw [hitems]
    exact {
      out := h3.o.out.mono hgF (NamedExt.of_eq f6)
      evrel := h3.o.evrel
      ordered := h3.o.ordered
      below := fun id hid => (h3.o.below id hid).mono hgF
      fresh := h3.o.fresh
      grew := h3.o.grew.trans hgF
      idsInv := by unfold IdsInv; rw [f8, f9]; exact h3.o.idsInv
      attachU := by rw [f8]; exact h3.o.attachU
      closed := ⟨f1.trans hcur3, f2.trans h3.o.ctx.1, f5, f3, f4⟩
      langsys := f7.trans h3.o.ctx.2.1
      namedExt := h3.o.namedExt.trans (NamedExt.of_eq f6)
      namedKeys := by rw [f6]; exact h3.o.namedKeys
      namedBelow := by intro n id hn; rw [f6] at hn; exact (h3.o.namedBelow n id hn).mono hgF
      namedNew := by rw [f6]; exact h3.o.namedNew
      feats := by
        rw [f12, tag_fold, h3.o.ctx.2.2]
        rfl
      refsBack := h3.o.refsBack }
  · rw [hs3, hs2]; simp [regScript, sysEvs]

end Fontc.FeaCompile
