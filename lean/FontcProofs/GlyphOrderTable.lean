/-
  C06 helper lemmas, part 3: the glyph table; name / export flag / codepoints of a glyph survive
  `pruneMissing`, `flattenAll`, `decomposeDangling`; the kept order.
-/
import FontcModel.GlyphOrder
import FontcProofs.GlyphOrderBasic

namespace Fontc.GlyphOrder

/-! ### table -/

theorem Table.get_set (t : Table) (g : Glyph) (n : String) :
    (t.set g).get n = if g.name = n then some g else t.get n := by
  unfold Table.get Table.set
  by_cases h : g.name = n <;> simp [List.find?_cons, h]

theorem Table.get_name {t : Table} {n : String} {g : Glyph} (h : t.get n = some g) : g.name = n := by
  unfold Table.get at h
  simpa using List.find?_some h

theorem Table.get_ofList_mem {gs : List Glyph} {n : String} {g : Glyph} (h : (Table.ofList gs).get n = some g) :
    g ∈ gs := List.mem_of_find?_eq_some h

theorem Table.get_ofList_of_mem : ∀ {gs : List Glyph} {g : Glyph}, (gs.map (·.name)).Nodup → g ∈ gs →
    (Table.ofList gs).get g.name = some g
  | [], _, _, h => by simp at h
  | x :: xs, g, hnd, h => by
    simp only [List.map_cons, List.nodup_cons] at hnd
    unfold Table.get Table.ofList
    rcases List.mem_cons.mp h with e | e
    · subst e; simp [List.find?_cons]
    · have hne : x.name ≠ g.name := by
        intro heq
        exact hnd.1 (heq ▸ List.mem_map_of_mem (f := (·.name)) e)
      have ih := Table.get_ofList_of_mem hnd.2 e
      unfold Table.get Table.ofList at ih
      simp [List.find?_cons, hne, ih]

/-- what the order / cmap / post pipeline reads of a glyph -/
def Glyph.meta (g : Glyph) : String × Bool × List Nat := (g.name, g.exported, g.codepoints)

/-- two tables agree on names, export flags and codepoints -/
def SameMeta (t t' : Table) : Prop := ∀ n, (t.get n).map Glyph.meta = (t'.get n).map Glyph.meta

theorem SameMeta.refl (t : Table) : SameMeta t t := fun _ => rfl

theorem SameMeta.trans {a b c : Table} (h1 : SameMeta a b) (h2 : SameMeta b c) : SameMeta a c :=
  fun n => (h1 n).trans (h2 n)

/-- overwriting an entry by a glyph with the same name, flag and codepoints -/
theorem SameMeta.set {t0 t : Table} {g g' : Glyph} (h : SameMeta t0 t) (hg : t0.get g.name = some g)
    (hm : g'.meta = g.meta) : SameMeta t0 (t.set g') := by
  intro n
  rw [Table.get_set]
  have hname : g'.name = g.name := congrArg Prod.fst hm
  by_cases hn : g'.name = n
  · simp only [hn, if_true]
    have : g.name = n := hname ▸ hn
    rw [← this, hg]
    simp [hm]
  · simp only [hn, if_false]
    exact h n

theorem SameMeta.isExport {t t' : Table} (h : SameMeta t t') (n : String) : t.isExport n = t'.isExport n := by
  unfold Table.isExport
  have := h n
  cases h1 : t.get n <;> cases h2 : t'.get n <;> simp_all [Glyph.meta]

theorem SameMeta.isSome {t t' : Table} (h : SameMeta t t') (n : String) : (t.get n).isSome = (t'.get n).isSome := by
  have := h n
  cases h1 : t.get n <;> cases h2 : t'.get n <;> simp_all

/-! ### prune / flatten / decomposeDangling keep the meta data -/

theorem foldl_sameMeta {t0 : Table} (step : Table → String → Table)
    (hstep : ∀ acc n, SameMeta t0 acc → SameMeta t0 (step acc n)) :
    ∀ (l : List String) (acc : Table), SameMeta t0 acc → SameMeta t0 (l.foldl step acc)
  | [], _, h => h
  | n :: rest, acc, h => foldl_sameMeta step hstep rest _ (hstep acc n h)

theorem pruneMissing_sameMeta (names : List String) (t : Table) : SameMeta t (pruneMissing names t) := by
  unfold pruneMissing
  apply foldl_sameMeta _ _ names t (SameMeta.refl t)
  intro acc n hacc
  cases hg : t.get n with
  | none => simpa [hg] using hacc
  | some g =>
    simp only
    split
    · exact hacc
    · have hname := Table.get_name hg
      exact SameMeta.set (g := g) hacc (by rw [hname]; exact hg) rfl

theorem flattenOne_sameMeta (snap cur : Table) (n : String) (h : SameMeta snap cur) :
    SameMeta snap (flattenOne snap cur n) := by
  unfold flattenOne
  cases hg : snap.get n with
  | none => simpa using h
  | some g =>
    simp only
    split
    · have hname := Table.get_name hg
      exact SameMeta.set (g := g) h (by rw [hname]; exact hg) rfl
    · exact h

theorem flattenAll_sameMeta (order : List String) (t : Table) : SameMeta t (flattenAll order t) := by
  unfold flattenAll
  exact foldl_sameMeta _ (fun acc n h => flattenOne_sameMeta t acc n h) order t (SameMeta.refl t)

theorem decomposeDangling_sameMeta (kept : List String) (t : Table) : SameMeta t (decomposeDangling kept t) := by
  unfold decomposeDangling
  apply foldl_sameMeta _ _ kept t (SameMeta.refl t)
  intro acc n hacc
  cases hg : acc.get n with
  | none => simpa [hg] using hacc
  | some g =>
    simp only
    split
    · -- acc has the same meta as t at g.name, so t has an entry there too
      intro m
      rw [Table.get_set]
      have hname := Table.get_name hg
      by_cases hm : g.name = m
      · simp only [hm, if_true]
        have := hacc m
        rw [← hm, hname, hg] at this
        rw [← hm, hname, this]
        simp [Glyph.meta, hname]
      · simp only [hm, if_false]
        exact hacc m
    · exact hacc

/-! ### the kept order (glyph.rs:854-861) -/

theorem keptOrder_eq {prelim kept : List String} {t : Table} (h : keptOrder prelim t = some kept) :
    kept = prelim.filter t.isExport ∧ ∀ n ∈ prelim, (t.get n).isSome = true := by
  unfold keptOrder at h
  split at h
  · rename_i hall
    injection h with h
    exact ⟨h.symm, by simpa using hall⟩
  · simp at h

end Fontc.GlyphOrder
