/-
  C11 simulation, general part 4: the part of the feature-block invariant that concerns the items put
  out so far, their ids, the events seen by `ActiveFeature` and the named lookups; and how each kind
  of step changes it.
-/
import FontcProofs.FeaGenInv

namespace Fontc.FeaCompile
open Cmp
set_option linter.unusedSimpArgs false

def a0 (tag : Tag) (dls : List Sys) : Active := { tag := tag, defaults := dls }

/-- the name `n` is known when a reference to it appears after the items `pre` -/
def KnownAt (s0 : St) (n : String) (pre : List (Src.Reg × Src.Item)) : Prop :=
  (s0.named.lookup n).isSome = true ∨ ∃ reg l, (reg, Src.Item.defn l) ∈ pre ∧ l.name = some n

def RefsBack (s0 : St) (wout : List (Src.Reg × Src.Item)) : Prop :=
  ∀ pre reg n post, wout = pre ++ (reg, Src.Item.ref n) :: post → KnownAt s0 n pre

theorem RefsBack.snoc {s0 : St} {wout : List (Src.Reg × Src.Item)} (h : RefsBack s0 wout) (x : Src.Reg × Src.Item)
    (hx : ∀ reg n, x = (reg, .ref n) → KnownAt s0 n wout) : RefsBack s0 (wout ++ [x]) := by
  intro pre reg n post he
  rcases List.eq_nil_or_concat post with rfl | ⟨post', y, rfl⟩
  · have := List.append_inj' he (by simp)
    simp only [List.cons.injEq, and_true] at this
    obtain ⟨rfl, rfl⟩ := this
    exact hx reg n rfl
  · rw [List.concat_eq_append, ← List.cons_append, ← List.append_assoc] at he
    have := List.append_inj' he (by simp)
    exact h pre reg n post' this.1

structure OutInv (fx : Fixes) (U : List (List Glyph)) (tag : Tag) (dls : List Sys) (s0 : St)
    (wout : List (Src.Reg × Src.Item)) (s : St) (evs : List Ev) (ids : List LookupId) (used : List String) : Prop where
  idsInv : IdsInv s
  attachU : ∀ c ∈ s.attachIds, c ∈ U
  out : OutRelG fx s wout ids
  evrel : EvRel .root evs wout ids
  ordered : (defIds wout ids).Pairwise idLt
  below : ∀ id ∈ ids, idBelow s id
  fresh : ∀ id ∈ defIds wout ids, ¬ idBelow s0 id
  ctx : s.curName = none ∧ s.langsys = s0.langsys ∧ s.features = s0.features
  namedExt : NamedExt s0 s
  namedKeys : ∀ n, (s.named.lookup n).isSome = true ↔ n ∈ used
  namedBelow : ∀ n id, s.named.lookup n = some id → idBelow s id
  namedNew : ∀ n id, s.named.lookup n = some id →
    s0.named.lookup n = some id ∨ ∃ reg l, ((reg, Src.Item.defn l), id) ∈ wout.zip ids ∧ l.name = some n
  grew : Grew s0 s
  active : s.active = some (evs.foldl evStep (a0 tag dls))
  refsBack : RefsBack s0 wout

theorem mem_zip_append_left {α β : Type} {as as' : List α} {bs bs' : List β} {x : α × β} (h : x ∈ as.zip bs) :
    x ∈ (as ++ as').zip (bs ++ bs') := by
  induction as generalizing bs with
  | nil => simp at h
  | cons a as ih =>
    cases bs with
    | nil => simp at h
    | cons b bs =>
      simp only [List.zip_cons_cons, List.mem_cons, List.cons_append] at h ⊢
      rcases h with h | h
      · exact Or.inl h
      · exact Or.inr (ih h)

/-- a step that leaves items, events and names alone -/
theorem OutInv.same {fx : Fixes} {U : List (List Glyph)} {tag : Tag} {dls : List Sys} {s0 : St}
    {wout : List (Src.Reg × Src.Item)} {s s' : St} {evs : List Ev} {ids : List LookupId} {used : List String}
    (h : OutInv fx U tag dls s0 wout s evs ids used)
    (hg : Grew s s') (hnamed : s'.named = s.named) (hact : s'.active = s.active)
    (hcn : s'.curName = s.curName) (hls : s'.langsys = s.langsys) (hfe : s'.features = s.features)
    (hids : IdsInv s') (hU : ∀ c ∈ s'.attachIds, c ∈ U) :
    OutInv fx U tag dls s0 wout s' evs ids used := {
  idsInv := hids
  attachU := hU
  out := h.out.mono hg (NamedExt.of_eq hnamed)
  evrel := h.evrel
  ordered := h.ordered
  below := fun id hid => (h.below id hid).mono hg
  fresh := h.fresh
  ctx := ⟨hcn.trans h.ctx.1, hls.trans h.ctx.2.1, hfe.trans h.ctx.2.2⟩
  namedExt := h.namedExt.trans (NamedExt.of_eq hnamed)
  namedKeys := by rw [hnamed]; exact h.namedKeys
  namedBelow := by intro n id hn; rw [hnamed] at hn; exact (h.namedBelow n id hn).mono hg
  namedNew := by rw [hnamed]; exact h.namedNew
  grew := h.grew.trans hg
  active := by rw [hact]; exact h.active
  refsBack := h.refsBack }

theorem foldl_evStep_snoc (a : Active) (evs : List Ev) (e : Ev) : (evs ++ [e]).foldl evStep a = evStep (evs.foldl evStep a) e := by
  simp [List.foldl_append]

theorem compiledRun_ls_ne {fx : Fixes} {aIds fIds : List (List Glyph)} {f : Flag} {rules : List Rule} {id : LookupId}
    {ls : List OT.Lookup} (h : CompiledRun fx aIds fIds f rules id ls) : ls ≠ [] := by
  obtain ⟨_, _, _, cf, nm, root, _, _, hls⟩ := h
  rw [hls]; unfold builtLookups; split <;> simp

/-- a run of rules is written out as an anonymous lookup -/
theorem OutInv.emit {fx : Fixes} {U : List (List Glyph)} {tag : Tag} {dls : List Sys} {s0 : St}
    {wout : List (Src.Reg × Src.Item)} {s s' : St} {evs : List Ev} {ids : List LookupId} {used : List String}
    (h : OutInv fx U tag dls s0 wout s evs ids used) (f : Flag) (rules : List Rule)
    (hem : Emits fx s s' (some (f, rules))) (hctx : SameCtx s s') :
    ∃ id, OutInv fx U tag dls s0 (wout ++ [(regAfter .root evs, .defn ⟨none, f, rules⟩)]) s'
      (evs ++ [.item id]) (ids ++ [id]) used := by
  obtain ⟨c1, c2, c3, c4, c5, c6, c7, c8⟩ := hctx
  have hlen : wout.length = ids.length := h.out.length
  have hidsInv : IdsInv s' := by unfold IdsInv; rw [c4, c5]; exact h.idsInv
  have hattU : ∀ c ∈ s'.attachIds, c ∈ U := by rw [c4]; exact h.attachU
  -- the two tables are treated alike
  have key : ∀ (id : LookupId) (ls : List OT.Lookup), Grew s s' → s'.active = addIdToActive s.active id →
      CompiledRun fx s.attachIds s.filterIds f rules id ls → Placed s'.gsub s'.gpos id ls →
      idBelow s' id → ¬ idBelow s id → (∀ x, idBelow s x → idLt x id) →
      OutInv fx U tag dls s0 (wout ++ [(regAfter .root evs, .defn ⟨none, f, rules⟩)]) s'
        (evs ++ [.item id]) (ids ++ [id]) used := by
    intro id ls hgrew hact hcomp hpl hbel hnbel hlt
    exact {
      idsInv := hidsInv
      attachU := hattU
      out := by
        refine (h.out.mono hgrew (NamedExt.of_eq c2)).snoc ?_
        simp only [ItemOk]
        refine ⟨⟨ls, ?_, hpl⟩, by simp⟩
        rw [c4, c5]; exact hcomp
      evrel := h.evrel.snoc_item _ _ _ _ _ _
      ordered := by
        rw [defIds_snoc _ _ hlen]
        simp only [Src.Item.isDefn, ↓reduceIte]
        apply pairwise_snoc h.ordered
        intro x hx
        have : x ∈ ids := by
          simp only [defIds, List.mem_map, List.mem_filter] at hx
          obtain ⟨p, ⟨hp, _⟩, rfl⟩ := hx
          exact (List.of_mem_zip hp).2
        exact hlt x (h.below x this)
      below := by
        intro x hx
        rcases List.mem_append.mp hx with hx | hx
        · exact (h.below x hx).mono hgrew
        · simp at hx; subst hx; exact hbel
      fresh := by
        intro x hx
        rw [defIds_snoc _ _ hlen] at hx
        simp only [Src.Item.isDefn, ↓reduceIte] at hx
        rcases List.mem_append.mp hx with hx | hx
        · exact h.fresh x hx
        · simp at hx; subst hx
          intro hb; exact hnbel (hb.mono h.grew)
      ctx := ⟨c1.trans h.ctx.1, c6.trans h.ctx.2.1, c8.trans h.ctx.2.2⟩
      namedExt := h.namedExt.trans (NamedExt.of_eq c2)
      namedKeys := by rw [c2]; exact h.namedKeys
      namedBelow := by intro n x hn; rw [c2] at hn; exact (h.namedBelow n x hn).mono hgrew
      namedNew := by
        intro n x hn
        rw [c2] at hn
        rcases h.namedNew n x hn with h1 | ⟨reg, l, hm, hl⟩
        · exact Or.inl h1
        · exact Or.inr ⟨reg, l, mem_zip_append_left hm, hl⟩
      grew := h.grew.trans hgrew
      active := by
        rw [hact, h.active, foldl_evStep_snoc]; rfl
      refsBack := h.refsBack.snoc _ (by intro reg n e; cases e) }
  simp only [Emits] at hem
  by_cases hpos : (headKind rules).isPos = true
  · simp only [hpos, ↓reduceIte] at hem
    obtain ⟨hg, hact, ls, hp, hcomp⟩ := hem
    have hlsne := compiledRun_ls_ne hcomp
    have hpos_len : 0 < ls.length := List.length_pos_iff.mpr hlsne
    refine ⟨.gpos s.gpos.length, key _ ls ⟨⟨[], by simp [hg]⟩, ⟨ls, hp⟩, ⟨[], by simp [c4]⟩, ⟨[], by simp [c5]⟩⟩ hact hcomp
      ⟨s.gpos, [], by simp [hp], rfl⟩ ?_ (by simp [idBelow]) ?_⟩
    · simp only [idBelow, hp, List.length_append]; omega
    · intro x hx; cases x <;> simp_all [idLt, idBelow]
  · simp only [hpos, Bool.false_eq_true, ↓reduceIte] at hem
    obtain ⟨hp, hact, ls, hg, hcomp⟩ := hem
    have hlsne := compiledRun_ls_ne hcomp
    have hpos_len : 0 < ls.length := List.length_pos_iff.mpr hlsne
    refine ⟨.gsub s.gsub.length, key _ ls ⟨⟨ls, hg⟩, ⟨[], by simp [hp]⟩, ⟨[], by simp [c4]⟩, ⟨[], by simp [c5]⟩⟩ hact hcomp
      ⟨s.gsub, [], by simp [hg], rfl⟩ ?_ (by simp [idBelow]) ?_⟩
    · simp only [idBelow, hg, List.length_append]; omega
    · intro x hx; cases x <;> simp_all [idLt, idBelow]


theorem lookup_cons_ne {β : Type} (n n' : String) (v : β) (m : List (String × β)) (h : n' ≠ n) :
    ((n, v) :: m).lookup n' = m.lookup n' := by
  have : (n' == n) = false := by simp [h]
  simp [List.lookup, this]

/-- a named lookup block inside the feature block -/
theorem OutInv.named {fx : Fixes} {U : List (List Glyph)} {tag : Tag} {dls : List Sys} {s0 : St}
    {wout : List (Src.Reg × Src.Item)} {s s' : St} {evs : List Ev} {ids : List LookupId} {used : List String}
    (h : OutInv fx U tag dls s0 wout s evs ids used) (n : String) (f : Flag) (rules : List Rule)
    (id : LookupId) (ls : List OT.Lookup)
    (hfreshName : n ∉ used) (hgrew : Grew s s') (hnamed : s'.named = (n, id) :: s.named)
    (hact : s'.active = addIdToActive s.active id)
    (hcomp : CompiledRun fx s'.attachIds s'.filterIds f rules id ls) (hpl : Placed s'.gsub s'.gpos id ls)
    (hbel : idBelow s' id) (hnbel : ¬ idBelow s id) (hlt : ∀ x, idBelow s x → idLt x id)
    (hcn : s'.curName = none) (hls : s'.langsys = s.langsys) (hfe : s'.features = s.features)
    (hidsInv : IdsInv s') (hattU : ∀ c ∈ s'.attachIds, c ∈ U) :
    OutInv fx U tag dls s0 (wout ++ [(regAfter .root evs, .defn ⟨some n, f, rules⟩)]) s'
      (evs ++ [.item id]) (ids ++ [id]) (n :: used) := by
  have hlen : wout.length = ids.length := h.out.length
  have hnone : s.named.lookup n = none := by
    cases hq : s.named.lookup n with
    | none => rfl
    | some v => exact absurd ((h.namedKeys n).mp (by rw [hq]; rfl)) hfreshName
  have hext : NamedExt s s' := by
    intro n' id' hn'
    rw [hnamed, lookup_cons_ne]
    · exact hn'
    · intro e; rw [e, hnone] at hn'; cases hn'
  exact {
    idsInv := hidsInv
    attachU := hattU
    out := by
      refine (h.out.mono hgrew hext).snoc ?_
      simp only [ItemOk]
      refine ⟨⟨ls, hcomp, hpl⟩, ?_⟩
      intro n' hn'
      simp only [Option.some.injEq] at hn'
      subst hn'
      rw [hnamed]; simp [List.lookup]
    evrel := h.evrel.snoc_item _ _ _ _ _ _
    ordered := by
      rw [defIds_snoc _ _ hlen]
      simp only [Src.Item.isDefn, ↓reduceIte]
      apply pairwise_snoc h.ordered
      intro x hx
      have : x ∈ ids := by
        simp only [defIds, List.mem_map, List.mem_filter] at hx
        obtain ⟨p, ⟨hp, _⟩, rfl⟩ := hx
        exact (List.of_mem_zip hp).2
      exact hlt x (h.below x this)
    below := by
      intro x hx
      rcases List.mem_append.mp hx with hx | hx
      · exact (h.below x hx).mono hgrew
      · simp at hx; subst hx; exact hbel
    fresh := by
      intro x hx
      rw [defIds_snoc _ _ hlen] at hx
      simp only [Src.Item.isDefn, ↓reduceIte] at hx
      rcases List.mem_append.mp hx with hx | hx
      · exact h.fresh x hx
      · simp at hx; subst hx
        intro hb; exact hnbel (hb.mono h.grew)
    ctx := ⟨hcn, hls.trans h.ctx.2.1, hfe.trans h.ctx.2.2⟩
    namedExt := h.namedExt.trans hext
    namedKeys := by
      intro n'
      rw [hnamed]
      by_cases e : n' = n
      · subst e; simp [List.lookup]
      · rw [lookup_cons_ne _ _ _ _ e, h.namedKeys]; simp [e]
    namedBelow := by
      intro n' x hn'
      rw [hnamed] at hn'
      by_cases e : n' = n
      · subst e; simp [List.lookup] at hn'; subst hn'; exact hbel
      · rw [lookup_cons_ne _ _ _ _ e] at hn'; exact (h.namedBelow n' x hn').mono hgrew
    namedNew := by
      intro n' x hn'
      rw [hnamed] at hn'
      by_cases e : n' = n
      · subst e
        simp [List.lookup] at hn'; subst hn'
        refine Or.inr ⟨regAfter .root evs, ⟨some n', f, rules⟩, ?_, rfl⟩
        rw [List.zip_append hlen]
        simp
      · rw [lookup_cons_ne _ _ _ _ e] at hn'
        rcases h.namedNew n' x hn' with h1 | ⟨reg, l, hm, hl⟩
        · exact Or.inl h1
        · exact Or.inr ⟨reg, l, mem_zip_append_left hm, hl⟩
    grew := h.grew.trans hgrew
    active := by rw [hact, h.active, foldl_evStep_snoc]; rfl
    refsBack := h.refsBack.snoc _ (by intro reg n e; cases e) }

/-- a reference to a named lookup -/
theorem OutInv.ref {fx : Fixes} {U : List (List Glyph)} {tag : Tag} {dls : List Sys} {s0 : St}
    {wout : List (Src.Reg × Src.Item)} {s : St} {evs : List Ev} {ids : List LookupId} {used : List String}
    (h : OutInv fx U tag dls s0 wout s evs ids used) (n : String) (hn : n ∈ used) :
    ∃ id, s.addToFeature (s.namedId n) = { s with active := addIdToActive s.active id } ∧
      OutInv fx U tag dls s0 (wout ++ [(regAfter .root evs, .ref n)]) { s with active := addIdToActive s.active id }
        (evs ++ [.item id]) (ids ++ [id]) used := by
  have hsome := (h.namedKeys n).mpr hn
  cases hq : s.named.lookup n with
  | none => rw [hq] at hsome; cases hsome
  | some id =>
    have hbel := h.namedBelow n id hq
    have hlen : wout.length = ids.length := h.out.length
    refine ⟨id, ?_, ?_⟩
    · simp only [St.namedId, hq, Option.getD_some, St.addToFeature, h.active, addIdToActive, Option.map_some]
      cases id with
      | empty => exact absurd hbel (by simp [idBelow])
      | gsub k => rfl
      | gpos k => rfl
    · have hgrew : Grew s { s with active := addIdToActive s.active id } := Grew.refl s
      exact {
        idsInv := h.idsInv
        attachU := h.attachU
        out := by
          refine (h.out.mono hgrew (NamedExt.refl s)).snoc ?_
          simp only [ItemOk]
          exact ⟨hq, hbel⟩
        evrel := h.evrel.snoc_item _ _ _ _ _ _
        ordered := by
          rw [defIds_snoc _ _ hlen]
          simp only [Src.Item.isDefn, Bool.false_eq_true, ↓reduceIte, List.append_nil]
          exact h.ordered
        below := by
          intro x hx
          rcases List.mem_append.mp hx with hx | hx
          · exact h.below x hx
          · simp at hx; subst hx; exact hbel
        fresh := by
          intro x hx
          rw [defIds_snoc _ _ hlen] at hx
          simp only [Src.Item.isDefn, Bool.false_eq_true, ↓reduceIte, List.append_nil] at hx
          exact h.fresh x hx
        ctx := h.ctx
        namedExt := h.namedExt
        namedKeys := h.namedKeys
        namedBelow := h.namedBelow
        namedNew := by
          intro n' x hn'
          rcases h.namedNew n' x hn' with h1 | ⟨reg, l, hm, hl⟩
          · exact Or.inl h1
          · exact Or.inr ⟨reg, l, mem_zip_append_left hm, hl⟩
        grew := h.grew
        active := by
          show addIdToActive s.active id = _
          rw [h.active, foldl_evStep_snoc]; rfl
        refsBack := by
          apply h.refsBack.snoc
          intro reg n' e
          cases e
          rcases h.namedNew n id hq with h1 | ⟨reg', l, hm, hl⟩
          · exact Or.inl (by rw [h1]; rfl)
          · exact Or.inr ⟨reg', l, (List.of_mem_zip hm).1, hl⟩ }

/-- a `script` / `language` statement (after the current lookup has been flushed) -/
theorem OutInv.sys {fx : Fixes} {U : List (List Glyph)} {tag : Tag} {dls : List Sys} {s0 : St}
    {wout : List (Src.Reg × Src.Item)} {s : St} {evs : List Ev} {ids : List LookupId} {used : List String}
    (h : OutInv fx U tag dls s0 wout s evs ids used) (sys : Sys) (ex : Bool) :
    OutInv fx U tag dls s0 wout { s with active := s.active.map (·.setSystem sys ex) } (evs ++ [.sys sys ex]) ids used := {
  idsInv := h.idsInv
  attachU := h.attachU
  out := h.out.mono (Grew.refl s) (NamedExt.refl s)
  evrel := h.evrel.snoc_sys _ _ _ _ _ _
  ordered := h.ordered
  below := h.below
  fresh := h.fresh
  ctx := h.ctx
  namedExt := h.namedExt
  namedKeys := h.namedKeys
  namedBelow := h.namedBelow
  namedNew := h.namedNew
  grew := h.grew
  active := by
    show s.active.map (·.setSystem sys ex) = _
    rw [h.active, foldl_evStep_snoc]; rfl
  refsBack := h.refsBack }

end Fontc.FeaCompile
