/-
  C11 simulation, general part 1: a named lookup block `lookup NAME { lookupflag …; rules } NAME;`
  whose rules are of one type.
-/
import FontcProofs.FeaSimFeature

namespace Fontc.FeaCompile
open Cmp
set_option linter.unusedSimpArgs false

/-- rules of one type added to a fresh current lookup -/
theorem block_rules (fx : Fixes) (k : Kind) (rs : List Rule) (hk : ∀ r ∈ rs, r.kind = k) (hne : rs ≠ []) :
    ∀ (s : St), s.cur = none →
    SameCtx s (rs.foldl (St.addRule fx) s) ∧ (rs.foldl (St.addRule fx) s).gsub = s.gsub ∧
    (rs.foldl (St.addRule fx) s).gpos = s.gpos ∧ (rs.foldl (St.addRule fx) s).active = s.active ∧
    (rs.foldl (St.addRule fx) s).cur
      = some (s.flag, rs.foldl (Builder.add fx s.gsub.length s.namedId) (Builder.new k)) := by
  cases rs with
  | nil => exact absurd rfl hne
  | cons r rs =>
    intro s hcur
    have hkr : r.kind = k := hk r (by simp)
    have hnm : NoMerge s r := by simp [NoMerge, hcur]
    obtain ⟨hctx, hfl, hc'⟩ := addRule_new fx s r hnm (by intro cf b h; rw [hcur] at h; cases h)
    simp only [Flushed, hcur] at hfl
    simp only [List.foldl_cons]
    -- the remaining rules join
    have hjoin : ∀ (rest : List Rule) (s1 : St) (b : Builder), (∀ r' ∈ rest, r'.kind = k) → b.kind = k →
        s1.cur = some (s1.flag, b) →
        SameCtx s1 (rest.foldl (St.addRule fx) s1) ∧ (rest.foldl (St.addRule fx) s1).gsub = s1.gsub ∧
        (rest.foldl (St.addRule fx) s1).gpos = s1.gpos ∧ (rest.foldl (St.addRule fx) s1).active = s1.active ∧
        (rest.foldl (St.addRule fx) s1).cur = some (s1.flag, rest.foldl (Builder.add fx s1.gsub.length s1.namedId) b) := by
      intro rest
      induction rest with
      | nil => intro s1 b _ _ hc; exact ⟨SameCtx.refl _, rfl, rfl, rfl, hc⟩
      | cons r' rest ih =>
        intro s1 b hk' hb hc
        have hkr' : r'.kind = k := hk' r' (by simp)
        obtain ⟨hctx1, hg1, hp1, ha1, hc1⟩ := addRule_join fx s1 r' s1.flag b hc (hb.trans hkr'.symm) rfl
        simp only [List.foldl_cons]
        have := ih (s1.addRule fx r') (b.add fx s1.gsub.length s1.namedId r') (fun x hx => hk' x (by simp [hx]))
          (by rw [Builder.add_kind]; exact hb) (by rw [hc1, hctx1.2.2.1])
        obtain ⟨h1, h2, h3, h4, h5⟩ := this
        refine ⟨hctx1.trans h1, h2.trans hg1, h3.trans hp1, h4.trans ha1, ?_⟩
        rw [h5, hctx1.2.2.1, hg1, namedId_congr hctx1.2.1]
    have := hjoin rs (s.addRule fx r) ((Builder.new r.kind).add fx (s.addRule fx r).gsub.length s.namedId r)
      (fun x hx => hk x (by simp [hx])) (by rw [Builder.add_kind, Builder.new_kind]; exact hkr)
      (by rw [hc', hctx.2.2.1])
    obtain ⟨h1, h2, h3, h4, h5⟩ := this
    refine ⟨hctx.trans h1, h2.trans hfl.1, h3.trans hfl.2.1, h4.trans hfl.2.2, ?_⟩
    rw [h5, hctx.2.2.1, hfl.1, namedId_congr hctx.2.1, hkr]

/-- `lookupflag` statements at the head of a block -/
theorem block_flags (U : List (List Glyph)) (fl : List Flag)
    (hfl : ∀ f ∈ fl, FlagNorm f ∧ ∀ c, f.attach = some c → sortedSet c ∈ U) :
    ∀ (s : St) (f0 : Flag), IdsInv s → (∀ c ∈ s.attachIds, c ∈ U) → FlagCode s.attachIds s.filterIds s.flag f0 →
    let s' := fl.foldl St.setLookupFlag s
    FlagCode s'.attachIds s'.filterIds s'.flag (fl.getLast?.getD f0) ∧ IdsInv s' ∧ (∀ c ∈ s'.attachIds, c ∈ U) ∧
    Grew s s' ∧ s'.gsub = s.gsub ∧ s'.gpos = s.gpos ∧ s'.cur = s.cur ∧ s'.curName = s.curName ∧ s'.named = s.named ∧
    s'.langsys = s.langsys ∧ s'.active = s.active ∧ s'.script = s.script ∧ s'.features = s.features := by
  induction fl with
  | nil =>
    intro s f0 hi hu hc
    exact ⟨hc, hi, hu, Grew.refl s, rfl, rfl, rfl, rfl, rfl, rfl, rfl, rfl, rfl⟩
  | cons f fl ih =>
    intro s f0 hi hu hc
    obtain ⟨hcode, hids', ⟨a', ha', hall⟩, ⟨f', hf'⟩, hg, hp, hcur, hcn, hn, hl, hact, hsc, hfe⟩ := setLookupFlag_spec s f hi
    have hU' : ∀ c ∈ (s.setLookupFlag f).attachIds, c ∈ U := by
      intro c hc'
      rw [ha'] at hc'
      rcases List.mem_append.mp hc' with h | h
      · exact hu c h
      · have := hall c h
        cases hfa : f.attach with
        | none => simp [hfa] at this
        | some c0 => simp [hfa] at this; subst this; exact (hfl f (by simp)).2 c0 hfa
    obtain ⟨r1, r2, r3, r4, r5, r6, r7, r8, r9, r10, r11, r12, r13⟩ :=
      ih (fun x hx => hfl x (by simp [hx])) (s.setLookupFlag f) f hids' hU' hcode
    simp only [List.foldl_cons]
    have hlast : (f :: fl).getLast?.getD f0 = fl.getLast?.getD f := by
      cases fl with
      | nil => rfl
      | cons x xs =>
        rw [List.getLast?_cons_cons]
        cases hq : (x :: xs).getLast? with
        | none => simp at hq
        | some y => rfl
    rw [hlast]
    have hgrew : Grew s (s.setLookupFlag f) := ⟨⟨[], by simp [hg]⟩, ⟨[], by simp [hp]⟩, ⟨a', ha'⟩, ⟨f', hf'⟩⟩
    exact ⟨r1, r2, r3, hgrew.trans r4, r5.trans hg, r6.trans hp, r7.trans hcur, r8.trans hcn, r9.trans hn, r10.trans hl,
      r11.trans hact, r12.trans hsc, r13.trans hfe⟩

theorem foldl_blockStmt_flags (fx : Fixes) (fl : List Flag) (s : St) :
    (fl.map BStmt.flag).foldl (St.blockStmt fx) s = fl.foldl St.setLookupFlag s := by
  induction fl generalizing s with
  | nil => rfl
  | cons f fl ih => simp [List.foldl_cons, St.blockStmt, ih]

theorem foldl_blockStmt_rules (fx : Fixes) (rs : List Rule) (s : St) :
    (rs.map BStmt.rule).foldl (St.blockStmt fx) s = rs.foldl (St.addRule fx) s := by
  induction rs generalizing s with
  | nil => rfl
  | cons r rs ih => simp [List.foldl_cons, St.blockStmt, ih]

/-- `finish_current` at the end of a named block -/
theorem finishCurrent_named (s : St) (n : String) (cf : CFlag) (b : Builder) (hc : s.cur = some (cf, b)) (hn : s.curName = some n) :
    let r := s.finishCurrent
    r.2 = some (if b.kind.isPos then .gpos s.gpos.length else .gsub s.gsub.length) ∧
    r.1.cur = none ∧ r.1.curName = none ∧
    r.1.named = (n, if b.kind.isPos then LookupId.gpos s.gpos.length else .gsub s.gsub.length) :: s.named ∧
    (if b.kind.isPos then r.1.gpos = s.gpos ++ builtLookups cf b ∧ r.1.gsub = s.gsub
     else r.1.gsub = s.gsub ++ builtLookups cf b ∧ r.1.gpos = s.gpos) ∧
    r.1.flag = s.flag ∧ r.1.attachIds = s.attachIds ∧ r.1.filterIds = s.filterIds ∧ r.1.langsys = s.langsys ∧
    r.1.active = s.active ∧ r.1.script = s.script ∧ r.1.features = s.features := by
  obtain ⟨gsub, gpos, cur, curName, named, flag, aIds, fIds, ls, active, script, features⟩ := s
  simp only at hc hn
  subst hc hn
  by_cases hpos : b.kind.isPos = true
  · simp [St.finishCurrent, push_eq, hpos]
  · simp [St.finishCurrent, push_eq, hpos]


theorem headKind_of_all (rs : List Rule) (k : Kind) (hk : ∀ r ∈ rs, r.kind = k) (hne : rs ≠ []) : headKind rs = k := by
  cases rs with
  | nil => exact absurd rfl hne
  | cons r rs => simp [headKind, hk r (by simp)]

/-- **A named lookup block**: from `start_lookup_block` (name recorded, no current lookup) to
    `finish_current` at its end. -/
theorem block_core (fx : Fixes) (U : List (List Glyph)) (n : String) (fl : List Flag) (rs : List Rule) (k : Kind)
    (hfl : ∀ f ∈ fl, FlagNorm f ∧ ∀ c, f.attach = some c → sortedSet c ∈ U)
    (hk : ∀ r ∈ rs, r.kind = k) (hne : rs ≠ [])
    (s2 : St) (f0 : Flag) (hcur : s2.cur = none) (hcn : s2.curName = some n) (hi : IdsInv s2)
    (hu : ∀ c ∈ s2.attachIds, c ∈ U) (hc : FlagCode s2.attachIds s2.filterIds s2.flag f0) :
    ∃ (s4 : St) (id : LookupId) (ls : List OT.Lookup),
      ((fl.map BStmt.flag ++ rs.map BStmt.rule).foldl (St.blockStmt fx) s2).finishCurrent = (s4, some id) ∧
      (id = if k.isPos then .gpos s2.gpos.length else .gsub s2.gsub.length) ∧
      CompiledRun fx s4.attachIds s4.filterIds (fl.getLast?.getD f0) rs id ls ∧
      (if k.isPos then s4.gpos = s2.gpos ++ ls ∧ s4.gsub = s2.gsub else s4.gsub = s2.gsub ++ ls ∧ s4.gpos = s2.gpos) ∧
      s4.named = (n, id) :: s2.named ∧ s4.cur = none ∧ s4.curName = none ∧
      FlagCode s4.attachIds s4.filterIds s4.flag (fl.getLast?.getD f0) ∧ IdsInv s4 ∧ (∀ c ∈ s4.attachIds, c ∈ U) ∧
      (∃ a, s4.attachIds = s2.attachIds ++ a) ∧ (∃ f, s4.filterIds = s2.filterIds ++ f) ∧
      s4.langsys = s2.langsys ∧ s4.active = s2.active ∧ s4.script = s2.script ∧ s4.features = s2.features := by
  rw [List.foldl_append, foldl_blockStmt_flags, foldl_blockStmt_rules]
  obtain ⟨r1, r2, r3, r4, r5, r6, r7, r8, r9, r10, r11, r12, r13⟩ := block_flags U fl hfl s2 f0 hi hu hc
  generalize fl.foldl St.setLookupFlag s2 = s2' at r1 r2 r3 r4 r5 r6 r7 r8 r9 r10 r11 r12 r13
  obtain ⟨hctx, hg, hp, hact, hcur3⟩ := block_rules fx k rs hk hne s2' (r7.trans hcur)
  generalize rs.foldl (St.addRule fx) s2' = s3 at hctx hg hp hact hcur3
  obtain ⟨c1, c2, c3, c4, c5, c6, c7, c8⟩ := hctx
  have hfin := finishCurrent_named s3 n _ _ hcur3 (c1.trans (r8.trans hcn))
  simp only at hfin
  have hbk : (rs.foldl (Builder.add fx s2'.gsub.length s2'.namedId) (Builder.new k)).kind = k := by
    rw [Builder.foldl_add_kind, Builder.new_kind]
  rw [hbk] at hfin
  obtain ⟨f1, f2, f3, f4, f5, f6, f7, f8, f9, f10, f11, f12⟩ := hfin
  have hhk := headKind_of_all rs k hk hne
  obtain ⟨_, _, ⟨a, ha⟩, ⟨ff, hff⟩⟩ := r4
  refine ⟨s3.finishCurrent.1, if k.isPos then .gpos s2.gpos.length else .gsub s2.gsub.length,
    builtLookups s2'.flag (rs.foldl (Builder.add fx s2'.gsub.length s2'.namedId) (Builder.new k)), ?_, rfl, ?_, ?_, ?_,
    f2, f3, ?_, ?_, ?_, ⟨a, by rw [f7, c4, ha]⟩, ⟨ff, by rw [f8, c5, hff]⟩, by rw [f9, c6, r10], by rw [f10, hact, r11],
    by rw [f11, c7, r12], by rw [f12, c8, r13]⟩
  · apply Prod.ext
    · rfl
    · simp only [f1, hg, hp, r5, r6]
  · refine ⟨hne, fun r hr => (hk r hr).trans hhk.symm, ?_, s2'.flag, s2'.namedId, s2'.gsub.length, ?_, ?_, ?_⟩
    · rw [hhk]; cases k.isPos <;> rfl
    · rw [f7, f8, c4, c5]; exact r1
    · intro hpos
      rw [hhk] at hpos
      simp [hpos, LookupId.gsubIdx, r5]
    · rw [hhk]
  · by_cases hpos : k.isPos = true
    · simp only [hpos, ↓reduceIte] at f5 ⊢
      rw [f5.1, f5.2, hp, hg, r5, r6]; exact ⟨rfl, rfl⟩
    · simp only [hpos, Bool.false_eq_true, ↓reduceIte] at f5 ⊢
      rw [f5.1, f5.2, hp, hg, r5, r6]; exact ⟨rfl, rfl⟩
  · rw [f4, hg, hp, r5, r6, c2, r9]
  · rw [f7, f8, f6, c3, c4, c5]; exact r1
  · unfold IdsInv; rw [f7, f8, c4, c5]; exact r2
  · rw [f7, c4]; exact r3

end Fontc.FeaCompile
