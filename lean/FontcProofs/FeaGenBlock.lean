/-
  C11 simulation, general part 1: a named lookup block `lookup NAME { lookupflag …; rules } NAME;`
  whose rules are of one type.
-/
import FontcProofs.FeaSimFeature

namespace Fontc.FeaCompile
open Cmp
set_option linter.unusedSimpArgs false

/-- rules of one type added to a fresh current lookup -/
theorem block_rules (fx : Fixes) (k : Kind) (rs : List Rule) (hk : ∀ r ∈ rs, r.kind = k) (hne : rs ≠ []) :
    ∀ (s : St), s.cur = none →
    SameCtx s (rs.foldl (St.addRule fx) s) ∧ (rs.foldl (St.addRule fx) s).gsub = s.gsub ∧
    (rs.foldl (St.addRule fx) s).gpos = s.gpos ∧ (rs.foldl (St.addRule fx) s).active = s.active ∧
    (rs.foldl (St.addRule fx) s).cur
      = some (s.flag, rs.foldl (Builder.add fx s.gsub.length s.namedId) (Builder.new k)) := by
  cases rs with
  | nil => exact absurd rfl hne
  | cons r rs =>
    intro s hcur
    have hkr : r.kind = k := hk r (by simp)
    have hnm : NoMerge s r := by simp [NoMerge, hcur]
    obtain ⟨hctx, hfl, hc'⟩ := addRule_new fx s r hnm (by intro cf b h; rw [hcur] at h; cases h)
    simp only [Flushed, hcur] at hfl
    simp only [List.foldl_cons]
    -- the remaining rules join
    have hjoin : ∀ (rest : List Rule) (s1 : St) (b : Builder), (∀ r' ∈ rest, r'.kind = k) → b.kind = k →
        s1.cur = some (s1.flag, b) →
        SameCtx s1 (rest.foldl (St.addRule fx) s1) ∧ (rest.foldl (St.addRule fx) s1).gsub = s1.gsub ∧
        (rest.foldl (St.addRule fx) s1).gpos = s1.gpos ∧ (rest.foldl (St.addRule fx) s1).active = s1.active ∧
        (rest.foldl (St.addRule fx) s1).cur = some (s1.flag, rest.foldl (Builder.add fx s1.gsub.length s1.namedId) b) := by
      intro rest
      induction rest with
      | nil => intro s1 b _ _ hc; exact ⟨SameCtx.refl _, rfl, rfl, rfl, hc⟩
      | cons r' rest ih =>
        intro s1 b hk' hb hc
        have hkr' : r'.kind = k := hk' r' (by simp)
        obtain ⟨hctx1, hg1, hp1, ha1, hc1⟩ := addRule_join fx s1 r' s1.flag b hc (hb.trans hkr'.symm) rfl
        simp only [List.foldl_cons]
        have := ih (s1.addRule fx r') (b.add fx s1.gsub.length s1.namedId r') (fun x hx => hk' x (by simp [hx]))
          (by rw [Builder.add_kind]; exact hb) (by rw [hc1, hctx1.2.2.1])
        obtain ⟨h1, h2, h3, h4, h5⟩ := this
        refine ⟨hctx1.trans h1, h2.trans hg1, h3.trans hp1, h4.trans ha1, ?_⟩
        rw [h5, hctx1.2.2.1, hg1, namedId_congr hctx1.2.1]
    have := hjoin rs (s.addRule fx r) ((Builder.new r.kind).add fx (s.addRule fx r).gsub.length s.namedId r)
      (fun x hx => hk x (by simp [hx])) (by rw [Builder.add_kind, Builder.new_kind]; exact hkr)
      (by rw [hc', hctx.2.2.1])
    obtain ⟨h1, h2, h3, h4, h5⟩ := this
    refine ⟨hctx.trans h1, h2.trans hfl.1, h3.trans hfl.2.1, h4.trans hfl.2.2, ?_⟩
    rw [h5, hctx.2.2.1, hfl.1, namedId_congr hctx.2.1, hkr]

/-- `lookupflag` statements at the head of a block -/
theorem block_flags (U : List (List Glyph)) (fl : List Flag)
    (hfl : ∀ f ∈ fl, FlagNorm f ∧ ∀ c, f.attach = some c → sortedSet c ∈ U) :
    ∀ (s : St) (f0 : Flag), IdsInv s → (∀ c ∈ s.attachIds, c ∈ U) → FlagCode s.attachIds s.filterIds s.flag f0 →
    let s' := fl.foldl St.setLookupFlag s
    FlagCode s'.attachIds s'.filterIds s'.flag (fl.getLast?.getD f0) ∧ IdsInv s' ∧ (∀ c ∈ s'.attachIds, c ∈ U) ∧
    Grew s s' ∧ s'.gsub = s.gsub ∧ s'.gpos = s.gpos ∧ s'.cur = s.cur ∧ s'.curName = s.curName ∧ s'.named = s.named ∧
    s'.langsys = s.langsys ∧ s'.active = s.active ∧ s'.script = s.script ∧ s'.features = s.features := by
  induction fl with
  | nil =>
    intro s f0 hi hu hc
    exact ⟨hc, hi, hu, Grew.refl s, rfl, rfl, rfl, rfl, rfl, rfl, rfl, rfl, rfl⟩
  | cons f fl ih =>
    intro s f0 hi hu hc
    obtain ⟨hcode, hids', ⟨a', ha', hall⟩, ⟨f', hf'⟩, hg, hp, hcur, hcn, hn, hl, hact, hsc, hfe⟩ := setLookupFlag_spec s f hi
    have hU' : ∀ c ∈ (s.setLookupFlag f).attachIds, c ∈ U := by
      intro c hc'
      rw [ha'] at hc'
      rcases List.mem_append.mp hc' with h | h
      · exact hu c h
      · have := hall c h
        cases hfa : f.attach with
        | none => simp [hfa] at this
        | some c0 => simp [hfa] at this; subst this; exact (hfl f (by simp)).2 c0 hfa
    obtain ⟨r1, r2, r3, r4, r5, r6, r7, r8, r9, r10, r11, r12, r13⟩ :=
      ih (fun x hx => hfl x (by simp [hx])) (s.setLookupFlag f) f hids' hU' hcode
    simp only [List.foldl_cons]
    have hlast : (f :: fl).getLast?.getD f0 = fl.getLast?.getD f := by
      cases fl with
      | nil => rfl
      | cons x xs =>
        rw [List.getLast?_cons_cons]
        cases hq : (x :: xs).getLast? with
        | none => simp at hq
        | some y => rfl
    rw [hlast]
    have hgrew : Grew s (s.setLookupFlag f) := ⟨⟨[], by simp [hg]⟩, ⟨[], by simp [hp]⟩, ⟨a', ha'⟩, ⟨f', hf'⟩⟩
    exact ⟨r1, r2, r3, hgrew.trans r4, r5.trans hg, r6.trans hp, r7.trans hcur, r8.trans hcn, r9.trans hn, r10.trans hl,
      r11.trans hact, r12.trans hsc, r13.trans hfe⟩

theorem foldl_blockStmt_flags (fx : Fixes) (fl : List Flag) (s : St) :
    (fl.map BStmt.flag).foldl (St.blockStmt fx) s = fl.foldl St.setLookupFlag s := by
  induction fl generalizing s with
  | nil => rfl
  | cons f fl ih => simp [List.foldl_cons, St.blockStmt, ih]

theorem foldl_blockStmt_rules (fx : Fixes) (rs : List Rule) (s : St) :
    (rs.map BStmt.rule).foldl (St.blockStmt fx) s = rs.foldl (St.addRule fx) s := by
  induction rs generalizing s with
  | nil => rfl
  | cons r rs ih => simp [List.foldl_cons, St.blockStmt, ih]

/-- `finish_current` at the end of a named block -/
theorem finishCurrent_named (s : St) (n : String) (cf : CFlag) (b : Builder) (hc : s.cur = some (cf, b)) (hn : s.curName = some n) :
    let r := s.finishCurrent
    r.2 = some (if b.kind.isPos then .gpos s.gpos.length else .gsub s.gsub.length) ∧
    r.1.cur = none ∧ r.1.curName = none ∧
    r.1.named = (n, if b.kind.isPos then LookupId.gpos s.gpos.length else .gsub s.gsub.length) :: s.named ∧
    (if b.kind.isPos then r.1.gpos = s.gpos ++ builtLookups cf b ∧ r.1.gsub = s.gsub
     else r.1.gsub = s.gsub ++ builtLookups cf b ∧ r.1.gpos = s.gpos) ∧
    r.1.flag = s.flag ∧ r.1.attachIds = s.attachIds ∧ r.1.filterIds = s.filterIds ∧ r.1.langsys = s.langsys ∧
    r.1.active = s.active ∧ r.1.script = s.script ∧ r.1.features = s.features := by
  obtain ⟨gsub, gpos, cur, curName, named, flag, aIds, fIds, ls, active, script, features⟩ := s
  simp only at hc hn
  subst hc hn
  by_cases hpos : b.kind.isPos = true
  · simp [St.finishCurrent, push_eq, hpos]
  · simp [St.finishCurrent, push_eq, hpos]

end Fontc.FeaCompile
