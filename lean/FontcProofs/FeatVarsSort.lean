/-
  Sorting, bit counting and the extraction loop: auxiliary facts for the final theorem.
-/
import FontcProofs.FeatVarsLoop

namespace Fontc.FeatVars

/-! ### the stable insertion sort -/

theorem mem_insSorted {α} (le : α → α → Bool) (x y : α) (l : List α) :
    y ∈ insSorted le x l ↔ y = x ∨ y ∈ l := by
  induction l with
  | nil => simp [insSorted]
  | cons z l ih =>
    simp only [insSorted]
    split
    · simp
    · simp [ih]; grind

theorem mem_insSort {α} (le : α → α → Bool) (y : α) (l : List α) : y ∈ insSort le l ↔ y ∈ l := by
  induction l with
  | nil => simp [insSort]
  | cons x l ih => simp [insSort, mem_insSorted, ih]

theorem pairwise_insSorted {α} (le : α → α → Bool) (key : α → Nat) (x : α) (l : List α)
    (hle : ∀ y ∈ l, (le x y = true ↔ key x ≤ key y))
    (hs : l.Pairwise fun a b => key a ≤ key b) :
    (insSorted le x l).Pairwise fun a b => key a ≤ key b := by
  induction l with
  | nil => simp [insSorted]
  | cons z l ih =>
    simp only [insSorted]
    have hz := hle z (by simp)
    rw [List.pairwise_cons] at hs
    split
    · rename_i h
      have hzx : key x ≤ key z := hz.1 h
      refine List.pairwise_cons.2 ⟨?_, List.pairwise_cons.2 hs⟩
      intro a ha
      rcases List.mem_cons.1 ha with rfl | ha
      · exact hzx
      · exact Nat.le_trans hzx (hs.1 a ha)
    · rename_i h
      have hxz : key z ≤ key x := by
        have : ¬ key x ≤ key z := fun h' => h (hz.2 h')
        omega
      refine List.pairwise_cons.2 ⟨?_, ih (fun y hy => hle y (List.mem_cons_of_mem _ hy)) hs.2⟩
      intro a ha
      rcases (mem_insSorted le x a l).1 ha with rfl | ha
      · exact hxz
      · exact hs.1 a ha

/-- the insertion sort sorts, for any comparison that is "`≤` on a key" -/
theorem pairwise_insSort {α} (le : α → α → Bool) (key : α → Nat) (l : List α)
    (hle : ∀ x ∈ l, ∀ y ∈ l, (le x y = true ↔ key x ≤ key y)) :
    (insSort le l).Pairwise fun a b => key a ≤ key b := by
  induction l with
  | nil => simp [insSort]
  | cons x l ih =>
    simp only [insSort]
    apply pairwise_insSorted
    · intro y hy
      exact hle x (by simp) y (List.mem_cons_of_mem _ ((mem_insSort le y l).1 hy))
    · exact ih fun a ha b hb => hle a (List.mem_cons_of_mem _ ha) b (List.mem_cons_of_mem _ hb)

/-! ### counting set bits -/

theorem filter_length_mono (l : List Nat) (f g : Nat → Bool) (h : ∀ j, f j = true → g j = true) :
    (l.filter f).length ≤ (l.filter g).length := by
  induction l with
  | nil => simp
  | cons a l ih =>
    simp only [List.filter_cons]
    cases hf : f a <;> cases hg : g a <;> simp <;> first | omega | (have := h a hf; simp [hg] at this)

theorem filter_subset_eq (l : List Nat) (f g : Nat → Bool) (h : ∀ j, f j = true → g j = true)
    (hc : (l.filter g).length ≤ (l.filter f).length) : ∀ j ∈ l, g j = true → f j = true := by
  induction l with
  | nil => simp
  | cons a l ih =>
    have hm := filter_length_mono l f g h
    simp only [List.filter_cons] at hc
    intro j hj hgj
    cases hf : f a <;> cases hg : g a <;> simp [hf, hg] at hc
    · rcases List.mem_cons.1 hj with rfl | hj
      · rw [hg] at hgj; cases hgj
      · exact ih hc j hj hgj
    · omega
    · have := h a hf; rw [hg] at this; cases this
    · rcases List.mem_cons.1 hj with rfl | hj
      · exact hf
      · exact ih (by omega) j hj hgj
section
variable {ρ : Type} {ops : RankOps ρ} {N : Nat} (law : LawfulRank ops N)

/-- the extraction loop returns the substitutions of the set bits, lowest bit first -/
theorem extract_spec (subs : List Subs) :
    ∀ (f : Nat) (r : ρ) (i : Nat), law.Inv r → (∀ t, law.bits r t = true → t < f) →
      (∀ t, law.bits r t = true → i + t < subs.length) →
      extract ops subs f r i = some (((List.range f).filter (law.bits r)).filterMap fun t => subs[i + t]?) := by
  intro f
  induction f with
  | zero =>
    intro r i hr hf _
    have hz : ops.isZero r = true := (law.isZero_iff r hr).2 fun j => by
      cases h : law.bits r j with
      | false => rfl
      | true => exact absurd (hf j h) (by omega)
    simp [extract, hz]
  | succ f ih =>
    intro r i hr hf hs
    simp only [extract]
    by_cases hz : ops.isZero r = true
    · have hall := (law.isZero_iff r hr).1 hz
      have : (List.range (f + 1)).filter (law.bits r) = [] := by
        apply List.filter_eq_nil_iff.2
        intro a _; simp [hall a]
      simp [hz, this]
    · simp only [hz, Bool.false_eq_true, if_false]
      have hr' := law.inv_shift r hr
      have hrec := ih (ops.shift r) (i + 1) hr'
        (fun t ht => by
          rw [law.bits_shift r t hr] at ht
          have := hf (t + 1) ht; omega)
        (fun t ht => by
          rw [law.bits_shift r t hr] at ht
          have := hs (t + 1) ht; omega)
      rw [hrec]
      have hshift : (List.range f).filter (law.bits (ops.shift r)) = (List.range f).filter (fun t => law.bits r (t + 1)) := by
        apply List.filter_congr
        intro t _; exact law.bits_shift r t hr
      rw [hshift, List.range_succ_eq_map, List.filter_cons, List.filter_map, law.firstBit_eq r hr]
      have hfm : List.filterMap (fun t => subs[i + t]?) (List.map Nat.succ (List.filter (law.bits r ∘ Nat.succ) (List.range f)))
          = List.filterMap (fun t => subs[i + 1 + t]?) (List.filter (fun t => law.bits r (t + 1)) (List.range f)) := by
        rw [List.filterMap_map]
        have : ((fun t => subs[i + t]?) ∘ Nat.succ) = fun t => subs[i + 1 + t]? := by
          funext t
          simp only [Function.comp, Nat.succ_eq_add_one]
          congr 1; omega
        rw [this]
        rfl
      cases h0 : law.bits r 0 with
      | false => simp only [Bool.false_eq_true, if_false]; rw [hfm]
      | true =>
        have hlt : i + 0 < subs.length := hs 0 h0
        have hget : subs[i]? = some subs[i] := List.getElem?_eq_getElem (by omega)
        simp only [if_true, hget, List.filterMap_cons, Nat.add_zero, Option.map_some]
        rw [hfm]
end

/-- reading a filtered list through indices -/
theorem filterMap_range_eq {α β : Type} (l : List α) (q : α → Bool) (fn : α → β) (g : Nat → Bool)
    (hg : ∀ t (h : t < l.length), g t = q l[t]) :
    ((List.range l.length).filter g).filterMap (fun t => (l.map fn)[t]?) = (l.filter q).map fn := by
  induction l generalizing g with
  | nil => simp
  | cons a l ih =>
    have h0 : g 0 = q a := hg 0 (by simp)
    have ih' := ih (fun t => g (t + 1)) (fun t h => by
      have := hg (t + 1) (by simp; omega)
      rw [this]; simp)
    simp only [List.length_cons, List.range_succ_eq_map, List.filter_cons, List.filter_map, List.map_cons]
    have hfm : List.filterMap (fun t => (fn a :: List.map fn l)[t]?) (List.map Nat.succ (List.filter (g ∘ Nat.succ) (List.range l.length)))
        = List.filterMap (fun t => (List.map fn l)[t]?) (List.filter (fun t => g (t + 1)) (List.range l.length)) := by
      rw [List.filterMap_map]
      rfl
    cases hq : q a with
    | false => simp only [h0, hq, Bool.false_eq_true, if_false]; rw [hfm, ih']
    | true => simp only [h0, hq, if_true, List.filterMap_cons, List.getElem?_cons_zero, List.map_cons]; rw [hfm, ih']

theorem mapM_option_eq_map {α β : Type} (l : List α) (f : α → Option β) (g : α → β)
    (h : ∀ x ∈ l, f x = some (g x)) : l.mapM f = some (l.map g) := by
  induction l with
  | nil => rfl
  | cons a l ih =>
    rw [List.mapM_cons, h a (by simp), ih fun x hx => h x (List.mem_cons_of_mem _ hx)]
    rfl

theorem filter_range_le (g : Nat → Bool) (a b : Nat) (hab : a ≤ b) (ha : ∀ t, g t = true → t < a) :
    (List.range b).filter g = (List.range a).filter g := by
  obtain ⟨d, rfl⟩ := Nat.exists_eq_add_of_le hab
  rw [List.range_add, List.filter_append]
  have : List.filter g (List.map (fun x => a + x) (List.range d)) = [] := by
    apply List.filter_eq_nil_iff.2
    intro x hx
    obtain ⟨y, _, rfl⟩ := List.mem_map.1 hx
    intro h; have := ha _ h; omega
  rw [this]; simp

theorem filter_range_eq (g : Nat → Bool) (a b : Nat) (ha : ∀ t, g t = true → t < a) (hb : ∀ t, g t = true → t < b) :
    (List.range a).filter g = (List.range b).filter g := by
  rcases Nat.le_total a b with h | h
  · exact (filter_range_le g a b h ha).symm
  · exact filter_range_le g b a h hb

section
variable {ρ : Type} {ops : RankOps ρ} {N : Nat} (law : LawfulRank ops N) {n : Nat}

theorem stepBox_shape {k : Nat} (hk : k < N) {box : NBox} {rank : ρ} {acc : BoxMap ρ} {c : NBox}
    (hc : c.length = n ∧ BoxOk c) (hbox : box.length = n ∧ BoxOk box ∧ law.Inv rank)
    (hs : Shape law n acc) : Shape law n (stepBox ops (ops.single k) box rank acc c) := by
  have hl : c.length = box.length := by rw [hc.1, hbox.1]
  have hInvOr : law.Inv (ops.or rank (ops.single k)) := law.inv_or _ _ hbox.2.2 (law.inv_single k hk)
  unfold stepBox
  have h1 : ∀ i, (overlayOnto c box).1 = some i → Shape law n (boxmapAdd ops acc i (ops.or rank (ops.single k))) := by
    intro i hi
    obtain ⟨il, iok, _⟩ := overlayOnto_inter_shape hc.2 hbox.2.1 hl hi
    exact shape_add law hs ⟨by rw [il, hbox.1], iok⟩ hInvOr
  have h2 : ∀ (acc : BoxMap ρ) r, Shape law n acc → (overlayOnto c box).2 = some r → Shape law n (boxmapAdd ops acc r rank) := by
    intro acc r hs hr
    obtain ⟨rl, rok, _⟩ := overlayOnto_rem_shape hc.2 hbox.2.1 hl hr
    exact shape_add law hs ⟨by rw [rl, hbox.1], rok⟩ hbox.2.2
  cases hi : (overlayOnto c box).1 with
  | none =>
    cases hr : (overlayOnto c box).2 with
    | none => have : overlayOnto c box = (none, none) := Prod.ext hi hr; simp only [this]; exact hs
    | some r => have : overlayOnto c box = (none, some r) := Prod.ext hi hr; simp only [this]; exact h2 acc r hs hr
  | some i =>
    cases hr : (overlayOnto c box).2 with
    | none => have : overlayOnto c box = (some i, none) := Prod.ext hi hr; simp only [this]; exact h1 i hi
    | some r =>
      have : overlayOnto c box = (some i, some r) := Prod.ext hi hr
      simp only [this]; exact h2 _ r (h1 i hi) hr

theorem stepRule_shape {k : Nat} (hk : k < N) {reg : Region} (hreg : ∀ c ∈ reg, c.length = n ∧ BoxOk c)
    {m : BoxMap ρ} (hs : Shape law n m) : Shape law n (stepRule ops n m k reg) := by
  unfold stepRule
  have hf : (fun (acc : BoxMap ρ) (x : NBox × ρ) =>
        match x with | (box, rank) => reg.foldl (stepBox ops (ops.single k) box rank) acc) =
      fun acc x => reg.foldl (stepBox ops (ops.single k) x.1 x.2) acc := by
    funext acc x; cases x; rfl
  rw [hf]
  refine foldl_preserve (P := Shape law n) ?_ _ (initMap_shape law)
  intro b e he hb
  refine foldl_preserve (P := Shape law n) ?_ _ hb
  intro b' c hc hb'
  exact stepBox_shape law hk (hreg c hc) (hs e he) hb'

theorem overlayLoop_shape (rs : List Region) (hreg : ∀ reg ∈ rs, ∀ c ∈ reg, c.length = n ∧ BoxOk c) :
    ∀ (i : Nat) (m : BoxMap ρ), i + rs.length ≤ N → Shape law n m → Shape law n (overlayLoop ops n rs i m) := by
  induction rs with
  | nil => intro i m _ hs; exact hs
  | cons r rs ih =>
    intro i m hi hs
    simp only [overlayLoop]
    apply ih (fun reg hr => hreg reg (List.mem_cons_of_mem _ hr)) (i + 1) _ (by simp at hi; omega)
    exact stepRule_shape law (by simp at hi; omega) (hreg r (by simp)) hs
end

end Fontc.FeatVars
