/-
  C15 helper lemmas (2/3): the loop invariant of `depth_sorted_composite_glyphs` (`Inv`): placed glyphs have all
  their components placed strictly lower; placed and indeterminate glyphs partition the graph.
-/
import FontcProofs.CompGraphBasic
namespace Fontc.CompGraph
variable {α : Type} [DecidableEq α]

/-- The loop invariant of `depth_sorted_composite_glyphs` on graph `g`: `ds` = depths so far, `ind` = still indeterminate. -/
structure Inv (g : Graph α) (ds : Depths α) (ind : Graph α) : Prop where
  /-- a glyph with a depth has all its components placed strictly lower -/
  rank : ∀ n d, depthOf ds n = some d → ∀ c ∈ compsOf g n, ∃ dc, depthOf ds c = some dc ∧ dc < d
  sub : ind.Sublist g
  fresh : ∀ e ∈ ind, depthOf ds e.1 = none
  cover : ∀ e ∈ g, (depthOf ds e.1).isSome ∨ e ∈ ind
  known : ∀ n d, depthOf ds n = some d → n ∈ names g
  nodup : (ds.map (·.1)).Nodup

omit [DecidableEq α] in
theorem names_nodup_of_sublist {g h : Graph α} (hs : h.Sublist g) (hnd : (names g).Nodup) : (names h).Nodup :=
  List.Sublist.nodup (List.Sublist.map (fun e : α × List α => e.1) hs) hnd

/-- placing one glyph keeps the invariant -/
theorem Inv.place {g : Graph α} (hnd : (names g).Nodup) {ds : Depths α} {pre rest : Graph α} {n : α} {cs : List α} {m : Nat}
    (hI : Inv g ds (pre ++ (n, cs) :: rest)) (hm : maxCompDepth ds cs = some m) :
    Inv g ((n, m + 1) :: ds) (pre ++ rest) := by
  have hmem : (n, cs) ∈ g := hI.sub.subset (by simp)
  have hfresh : depthOf ds n = none := hI.fresh (n, cs) (by simp)
  have hcs : compsOf g n = cs := compsOf_of_mem g hnd n cs hmem
  have hsub : (pre ++ rest).Sublist (pre ++ (n, cs) :: rest) :=
    List.Sublist.append (List.Sublist.refl _) (List.sublist_cons_self _ _)
  have hnd2 : (names (pre ++ (n, cs) :: rest)).Nodup := names_nodup_of_sublist hI.sub hnd
  have hne : ∀ e ∈ pre ++ rest, n ≠ e.1 := by
    intro e he heq
    simp only [names, List.map_append, List.map_cons] at hnd2
    have h1 := List.nodup_append.mp hnd2
    have h2 := List.nodup_cons.mp h1.2.1
    rcases List.mem_append.mp he with he | he
    · exact h1.2.2 e.1 (List.mem_map.mpr ⟨e, he, rfl⟩) n (List.mem_cons_self ..) heq.symm
    · exact h2.1 (heq ▸ List.mem_map.mpr ⟨e, he, rfl⟩)
  refine ⟨?_, hsub.trans hI.sub, ?_, ?_, ?_, ?_⟩
  · intro x d hx c hc
    rw [depthOf_cons] at hx
    by_cases hxn : n = x
    · subst hxn
      simp only [if_true, Option.some.injEq] at hx
      rw [hcs] at hc
      obtain ⟨dc, h1, h2⟩ := maxCompDepth_some ds cs m hm c hc
      have : n ≠ c := by intro e; subst e; rw [hfresh] at h1; cases h1
      exact ⟨dc, by rw [depthOf_cons]; simp [this, h1], by omega⟩
    · simp only [hxn, if_false] at hx
      obtain ⟨dc, h1, h2⟩ := hI.rank x d hx c hc
      have : n ≠ c := by intro e; subst e; rw [hfresh] at h1; cases h1
      exact ⟨dc, by rw [depthOf_cons]; simp [this, h1], h2⟩
  · intro e he
    rw [depthOf_cons]
    simp only [hne e he, if_false]
    exact hI.fresh e (hsub.subset he)
  · intro e he
    rcases hI.cover e he with h | h
    · left; rw [depthOf_cons]; split <;> simp [h]
    · rcases List.mem_append.mp h with h | h
      · right; exact List.mem_append_left _ h
      · rcases List.mem_cons.mp h with h | h
        · left; subst h; rw [depthOf_cons]; simp
        · right; exact List.mem_append_right _ h
  · intro x d hx
    rw [depthOf_cons] at hx
    by_cases hxn : n = x
    · subst hxn; exact List.mem_map.mpr ⟨(n, cs), hmem, rfl⟩
    · simp only [hxn, if_false] at hx; exact hI.known x d hx
  · simp only [List.map_cons, List.nodup_cons]
    exact ⟨(depthOf_none_iff ds n).mp hfresh, hI.nodup⟩

/-- one round keeps the invariant (`pre` = what this round has already decided to retain) -/
theorem Inv.round {g : Graph α} (hnd : (names g).Nodup) (rest : Graph α) : ∀ (ds : Depths α) (pre : Graph α),
    Inv g ds (pre ++ rest) → Inv g (round ds rest).1 (pre ++ (round ds rest).2) := by
  induction rest with
  | nil => intro ds pre h; simpa [CompGraph.round] using h
  | cons e rest ih =>
    intro ds pre h
    obtain ⟨n, cs⟩ := e
    simp only [CompGraph.round]
    split
    · rename_i m hm
      exact ih _ pre (h.place hnd hm)
    · have h' : Inv g ds ((pre ++ [(n, cs)]) ++ rest) := by simpa using h
      have := ih ds (pre ++ [(n, cs)]) h'
      simpa using this

theorem Inv.loop {g : Graph α} (hnd : (names g).Nodup) : ∀ (fuel p : Nat) (ds : Depths α) (ind : Graph α) r,
    loop fuel p ds ind = some r → Inv g ds ind → Inv g r.1 r.2 := by
  intro fuel
  induction fuel with
  | zero =>
    intro p ds ind r h hI
    cases p with
    | zero => rw [loop_zero] at h; cases h; exact hI
    | succ p => simp [CompGraph.loop] at h
  | succ fuel ih =>
    intro p ds ind r h hI
    cases p with
    | zero => rw [loop_zero] at h; cases h; exact hI
    | succ p =>
      simp only [CompGraph.loop] at h
      have := Inv.round hnd ind ds [] (by simpa using hI)
      exact ih _ _ _ _ h (by simpa using this)

omit [DecidableEq α] in
theorem mem_simples {g : Graph α} {e : α × List α} : e ∈ simples g ↔ e ∈ g ∧ e.2 = [] := by
  simp [simples, List.mem_filter]
omit [DecidableEq α] in
theorem mem_composites {g : Graph α} {e : α × List α} : e ∈ composites g ↔ e ∈ g ∧ e.2 ≠ [] := by
  simp [composites, List.mem_filter]

theorem Inv.init {g : Graph α} (hnd : (names g).Nodup) :
    Inv g ((simples g).map fun e => (e.1, 0)) (composites g) := by
  have key : ∀ n d, depthOf ((simples g).map fun e => (e.1, 0)) n = some d → (n, []) ∈ g := by
    intro n d h
    have := depthOf_mem _ _ _ h
    obtain ⟨e, he, heq⟩ := List.mem_map.mp this
    obtain ⟨he1, he2⟩ := mem_simples.mp he
    cases heq
    obtain ⟨a, b⟩ := e
    simp only at he2; subst he2; exact he1
  refine ⟨?_, List.filter_sublist, ?_, ?_, ?_, ?_⟩
  · intro n d h c hc
    rw [compsOf_of_mem g hnd n [] (key n d h)] at hc
    simp at hc
  · intro e he
    obtain ⟨he1, he2⟩ := mem_composites.mp he
    cases hd : depthOf ((simples g).map fun e => (e.1, 0)) e.1 with
    | none => rfl
    | some d =>
      have h1 := compsOf_of_mem g hnd e.1 [] (key e.1 d hd)
      have h2 := compsOf_of_mem g hnd e.1 e.2 he1
      exact absurd (h2.symm.trans h1) he2
  · intro e he
    by_cases h : e.2 = []
    · left
      have : (e.1, 0) ∈ (simples g).map fun e => (e.1, 0) := List.mem_map.mpr ⟨e, mem_simples.mpr ⟨he, h⟩, rfl⟩
      cases hd : depthOf ((simples g).map fun e => (e.1, 0)) e.1 with
      | some d => rfl
      | none =>
        have := (depthOf_none_iff _ _).mp hd
        exact absurd (List.mem_map.mpr ⟨(e.1, 0), ‹_›, rfl⟩) this
    · right; exact mem_composites.mpr ⟨he, h⟩
  · intro n d h
    exact List.mem_map.mpr ⟨(n, []), key n d h, rfl⟩
  · have : ((simples g).map fun e => (e.1, 0)).map (·.1) = names (simples g) := by
      simp [names, List.map_map, Function.comp_def]
    rw [this]
    exact names_nodup_of_sublist List.filter_sublist hnd

end Fontc.CompGraph
