/-
  Helper lemmas for C17: OS/2 derived fields (average width on the compressed hmtx, first/last
  character index, Unicode range bits).
-/
import FontcModel.Limits
import FontcProofs.LimitsMetrics

namespace Fontc.Limits

/-! ### x_avg_char_width: the computation on the compressed hmtx equals the computation on all glyphs -/

/-- non-zero advances -/
def nonZero (advs : List Nat) : List Nat := advs.filter (· != 0)

theorem avgCountTotal_expand (longs : List LongMetric) (lsbs : List Int) :
    avgCountTotal longs (longs.length + lsbs.length) =
      ((nonZero ((hmtxExpand longs lsbs).map (·.advance))).length,
       (nonZero ((hmtxExpand longs lsbs).map (·.advance))).sum) := by
  unfold avgCountTotal hmtxExpand nonZero
  cases hl : longs.getLast? with
  | none =>
    have : longs = [] := List.getLast?_eq_none_iff.1 hl
    subst this; simp
  | some l =>
    simp only [Option.map_some, Option.getD_some, List.map_append, List.map_map, List.filter_append,
      List.length_append, List.sum_append, Nat.add_sub_cancel_left]
    have hmap : (lsbs.map ((fun (x : LongMetric) => x.advance) ∘ fun sb => (⟨l.advance, sb⟩ : LongMetric)))
        = List.replicate lsbs.length l.advance := by
      simp only [Function.comp_def]; exact List.map_const'
    rw [hmap, List.filter_replicate]
    by_cases h0 : l.advance = 0
    · simp [h0]
    · have hpos : l.advance > 0 := by omega
      simp [h0, hpos, List.sum_replicate_nat]

/-! ### first / last character index -/

theorem foldl_minmax (cps : List Nat) (a b : Nat) :
    cps.foldl (fun (acc : Nat × Nat) cp => (min cp acc.1, max cp acc.2)) (a, b) =
      (cps.foldl min a, cps.foldl max b) := by
  induction cps generalizing a b with
  | nil => rfl
  | cons c cs ih =>
    simp only [List.foldl_cons, ih]
    rw [Nat.min_comm c a, Nat.max_comm c b]

theorem foldl_min_nat (xs : List Nat) (v0 : Nat) :
    xs.foldl min v0 ≤ v0 ∧ (∀ x ∈ xs, xs.foldl min v0 ≤ x) ∧ (xs.foldl min v0 = v0 ∨ xs.foldl min v0 ∈ xs) := by
  induction xs generalizing v0 with
  | nil => simp
  | cons x xs ih =>
    simp only [List.foldl_cons, List.mem_cons]
    have h := ih (min v0 x)
    refine ⟨by omega, ?_, ?_⟩
    · intro y hy
      rcases hy with rfl | hy
      · omega
      · exact h.2.1 y hy
    · rcases h.2.2 with h1 | h1
      · rw [h1]
        by_cases hx : v0 ≤ x
        · left; omega
        · right; left; omega
      · right; right; exact h1

/-! ### Unicode range bits -/

theorem unicodeRanges_pairwise :
    List.Pairwise (fun (r1 r2 : Nat × Nat × Nat) => r1.2.1 < r2.1) unicodeRanges := by decide +kernel

theorem unicodeRanges_wf : ∀ r ∈ unicodeRanges, r.1 ≤ r.2.1 ∧ r.2.2 < 128 := by decide +kernel

/-- two table entries containing the same codepoint are the same entry -/
theorem pairwise_unique {l : List (Nat × Nat × Nat)}
    (hp : List.Pairwise (fun (r1 r2 : Nat × Nat × Nat) => r1.2.1 < r2.1) l)
    (hw : ∀ r ∈ l, r.1 ≤ r.2.1) (cp : Nat) (r1 r2 : Nat × Nat × Nat)
    (h1 : r1 ∈ l) (h2 : r2 ∈ l) (c1 : r1.1 ≤ cp ∧ cp ≤ r1.2.1) (c2 : r2.1 ≤ cp ∧ cp ≤ r2.2.1) : r1 = r2 := by
  induction l with
  | nil => cases h1
  | cons a rest ih =>
    rw [List.pairwise_cons] at hp
    rcases List.mem_cons.1 h1 with rfl | h1'
    · rcases List.mem_cons.1 h2 with rfl | h2'
      · rfl
      · have := hp.1 r2 h2'; omega
    · rcases List.mem_cons.1 h2 with rfl | h2'
      · have := hp.1 r1 h1'; omega
      · exact ih hp.2 (fun r hr => hw r (List.mem_cons_of_mem _ hr)) h1' h2'

theorem mem_bitSet (bits : List Nat) (b : Nat) : b ∈ bitSet bits ↔ b < 128 ∧ b ∈ bits := by
  simp [bitSet]

end Fontc.Limits
