/-
  C07, algebraic part: `deltasAux` (model of `VariationModel::deltas_with_rounding`) followed by
  `interpolate` (model of `interpolate_from_deltas`) reproduces the master values, given that the
  influence regions are unitriangular on the master locations (`Triangular`; proved for
  `Model.new` in FontcProofs/VarModelGeom.lean).

  All statements are for arbitrary lists; positions are addressed with `l[j]? = some x`, so every
  index condition is explicit (no `getD`/`get!` defaults).
-/
import FontcModel.VarModel
import FontcProofs.Rounding

namespace Fontc.VarModel
open Fontc

def term (r : Region) (d : Option Rat) (loc : Loc) : Rat :=
  match d with
  | some dk => scalarAt r loc * dk
  | none => 0

def dot : List Region → List (Option Rat) → Loc → Rat
  | r :: rs, d :: ds, loc => term r d loc + dot rs ds loc
  | [], _, _ => 0
  | _ :: _, [], _ => 0

@[simp] theorem dot_nil_left (ds : List (Option Rat)) (loc : Loc) : dot [] ds loc = 0 := by
  simp [dot]
@[simp] theorem dot_nil_right (rs : List Region) (loc : Loc) : dot rs [] loc = 0 := by
  cases rs <;> simp [dot]
@[simp] theorem dot_cons (r : Region) (rs) (d : Option Rat) (ds) (loc : Loc) :
    dot (r :: rs) (d :: ds) loc = term r d loc + dot rs ds loc := by simp [dot]

theorem foldl_add_eq (l : List Rat) (a : Rat) : l.foldl (· + ·) a = a + l.foldl (· + ·) 0 := by
  induction l generalizing a with
  | nil => simp [Rat.add_zero]
  | cons x xs ih => simp only [List.foldl_cons]; rw [ih (a + x), ih (0 + x)]; grind

theorem foldl_sub_eq (l : List Rat) (a : Rat) :
    l.foldl (fun acc c => acc - c) a = a - l.foldl (· + ·) 0 := by
  induction l generalizing a with
  | nil => simp [Rat.sub_eq_add_neg, Rat.add_zero]
  | cons x xs ih => simp only [List.foldl_cons]; rw [ih (a - x), foldl_add_eq xs (0 + x)]; grind

theorem interpolate_eq_dot (infl : List Region) (ds : List (Option Rat)) (loc : Loc) :
    interpolate infl ds loc = dot infl ds loc := by
  unfold interpolate
  induction infl generalizing ds with
  | nil => simp
  | cons r rs ih =>
    cases ds with
    | nil => simp
    | cons d ds =>
      simp only [List.zip_cons_cons, List.map_cons, List.foldl_cons, dot_cons]
      rw [foldl_add_eq, ih]
      cases d <;> simp [term] <;> grind

theorem contrib_sum_eq_dot (infl : List Region) (done : List (Option Rat)) (loc : Loc)
    (f : Option Rat × Region → Rat) (hf : ∀ d inf, f (d, inf) = term inf d loc) :
    ((done.zip infl).map f).foldl (· + ·) 0 = dot infl done loc := by
  induction infl generalizing done with
  | nil => simp
  | cons r rs ih =>
    cases done with
    | nil => simp
    | cons d ds =>
      simp only [List.zip_cons_cons, List.map_cons, List.foldl_cons, dot_cons]
      rw [foldl_add_eq, ih, hf]
      grind

def step (round : Rat → Rat) (infl : List Region) (done : List (Option Rat))
    (p : Loc × Option Rat) : Option Rat :=
  match p.2 with
  | none => none
  | some v => some (round (v - dot infl done p.1))

theorem deltasAux_cons (round : Rat → Rat) (infl : List Region) (p : Loc × Option Rat)
    (rest : List (Loc × Option Rat)) (done : List (Option Rat)) :
    deltasAux round infl (p :: rest) done
      = deltasAux round infl rest (done ++ [step round infl done p]) := by
  obtain ⟨loc, ov⟩ := p
  cases ov with
  | none => simp [deltasAux, step]
  | some v =>
    simp only [deltasAux, step]
    rw [foldl_sub_eq, contrib_sum_eq_dot _ _ loc _ (by intro d inf; cases d <;> rfl)]

theorem deltasAux_nil (round : Rat → Rat) (infl : List Region) (done : List (Option Rat)) :
    deltasAux round infl [] done = done := by simp [deltasAux]

theorem deltasAux_append (round : Rat → Rat) (infl : List Region)
    (l₁ l₂ : List (Loc × Option Rat)) (done : List (Option Rat)) :
    deltasAux round infl (l₁ ++ l₂) done = deltasAux round infl l₂ (deltasAux round infl l₁ done) := by
  induction l₁ generalizing done with
  | nil => simp [deltasAux_nil]
  | cons p ps ih => simp only [List.cons_append, deltasAux_cons, ih]

theorem deltasAux_prefix (round : Rat → Rat) (infl : List Region)
    (l : List (Loc × Option Rat)) (done : List (Option Rat)) :
    ∃ ext, deltasAux round infl l done = done ++ ext ∧ ext.length = l.length := by
  induction l generalizing done with
  | nil => exact ⟨[], by simp [deltasAux_nil]⟩
  | cons p ps ih =>
    obtain ⟨ext, h, hl⟩ := ih (done ++ [step round infl done p])
    exact ⟨step round infl done p :: ext, by rw [deltasAux_cons, h]; simp, by simp [hl]⟩

theorem deltasAux_length (round : Rat → Rat) (infl : List Region)
    (l : List (Loc × Option Rat)) (done : List (Option Rat)) :
    (deltasAux round infl l done).length = done.length + l.length := by
  obtain ⟨ext, h, hl⟩ := deltasAux_prefix round infl l done
  rw [h]; simp [hl]

/-- The recurrence: the `j`-th output is `step` applied to the first `j` outputs. -/
theorem deltasAux_getElem? (round : Rat → Rat) (infl : List Region)
    (l : List (Loc × Option Rat)) (j : Nat) (p : Loc × Option Rat) (hp : l[j]? = some p) :
    (deltasAux round infl l [])[j]?
      = some (step round infl ((deltasAux round infl l []).take j) p) := by
  have hj : j < l.length := by
    rcases Nat.lt_or_ge j l.length with h | h
    · exact h
    · rw [List.getElem?_eq_none h] at hp; cases hp
  have hsplit : l = l.take j ++ p :: l.drop (j + 1) := by
    have : l[j] = p := by rw [List.getElem?_eq_getElem hj] at hp; exact Option.some.inj hp
    rw [← this]; simp
  have hlenP : (deltasAux round infl (l.take j) []).length = j := by
    rw [deltasAux_length]; simp; omega
  generalize hP : deltasAux round infl (l.take j) [] = P at hlenP
  have hD : deltasAux round infl l [] = deltasAux round infl (l.drop (j+1)) (P ++ [step round infl P p]) := by
    conv => lhs; rw [hsplit]
    rw [deltasAux_append, hP, deltasAux_cons]
  obtain ⟨ext, h, _⟩ := deltasAux_prefix round infl (l.drop (j+1)) (P ++ [step round infl P p])
  rw [hD, h]
  have htake : (P ++ [step round infl P p] ++ ext).take j = P := by
    rw [List.append_assoc, List.take_append_of_le_length (by omega), List.take_of_length_le (by omega)]
  rw [htake]
  rw [List.append_assoc, List.getElem?_append_right (by omega)]
  simp [hlenP]

/-! ### A0 / A1 in terms of `locs`, `vals` -/

theorem deltas_length (round : Rat → Rat) (infl : List Region) (locs : List Loc) (vals : Values)
    (hlen : vals.length = locs.length) :
    (deltasAux round infl (locs.zip vals) []).length = locs.length := by
  rw [deltasAux_length]; simp [hlen]

theorem deltas_getElem?_none (round : Rat → Rat) (infl : List Region) (locs : List Loc) (vals : Values)
    (hlen : vals.length = locs.length) (j : Nat) :
    (deltasAux round infl (locs.zip vals) [])[j]? = some none ↔ vals[j]? = some none := by
  rcases Nat.lt_or_ge j locs.length with hj | hj
  · have hjv : j < vals.length := by omega
    have hp : (locs.zip vals)[j]? = some (locs[j], vals[j]) := by
      rw [List.getElem?_zip_eq_some]; simp [hj, hjv]
    rw [deltasAux_getElem? round infl _ j _ hp, List.getElem?_eq_getElem hjv]
    simp only [step]
    cases vals[j] <;> simp
  · rw [List.getElem?_eq_none (by rw [deltas_length _ _ _ _ hlen]; exact hj),
        List.getElem?_eq_none (by omega)]

theorem deltas_getElem?_some (round : Rat → Rat) (infl : List Region) (locs : List Loc) (vals : Values)
    (j : Nat) (loc : Loc) (v : Rat) (hl : locs[j]? = some loc) (hv : vals[j]? = some (some v)) :
    (deltasAux round infl (locs.zip vals) [])[j]?
      = some (some (round (v - dot infl ((deltasAux round infl (locs.zip vals) []).take j) loc))) := by
  have hp : (locs.zip vals)[j]? = some (loc, some v) := by
    rw [List.getElem?_zip_eq_some]; exact ⟨hl, hv⟩
  rw [deltasAux_getElem? round infl _ j _ hp]
  simp [step]

/-! ### `dot` splitting -/

theorem dot_append (l₁ l₂ : List Region) (d₁ d₂ : List (Option Rat)) (loc : Loc)
    (h : l₁.length = d₁.length) :
    dot (l₁ ++ l₂) (d₁ ++ d₂) loc = dot l₁ d₁ loc + dot l₂ d₂ loc := by
  induction l₁ generalizing d₁ with
  | nil =>
    cases d₁ with
    | nil => simp [Rat.zero_add]
    | cons _ _ => simp at h
  | cons r rs ih =>
    cases d₁ with
    | nil => simp at h
    | cons d ds =>
      simp only [List.cons_append, dot_cons]
      rw [ih ds (by simpa using h)]
      grind

theorem dot_eq_zero (l : List Region) (d : List (Option Rat)) (loc : Loc)
    (h : ∀ r ∈ l, scalarAt r loc = 0) : dot l d loc = 0 := by
  induction l generalizing d with
  | nil => simp
  | cons r rs ih =>
    cases d with
    | nil => simp
    | cons d ds =>
      rw [dot_cons, ih ds (fun r hr => h r (List.mem_cons_of_mem _ hr))]
      have := h r List.mem_cons_self
      cases d <;> simp [term, this, Rat.zero_mul, Rat.add_zero]

/-! ### Triangularity -/

/-- The influence regions are *unitriangular* on the master locations: region `j` is 1 at master `j`
    and 0 at every earlier master `i < j`.  (`[·]?` form: all index conditions are explicit.) -/
def Triangular (infl : List Region) (locs : List Loc) : Prop :=
  infl.length = locs.length ∧
  (∀ (j : Nat) (r : Region) (l : Loc), infl[j]? = some r → locs[j]? = some l → scalarAt r l = 1) ∧
  (∀ (i j : Nat) (r : Region) (l : Loc), i < j → infl[j]? = some r → locs[i]? = some l → scalarAt r l = 0)

/-- Same thing with bounded indexing `infl[j]`, `locs[j]`. -/
theorem triangular_iff_getElem (infl : List Region) (locs : List Loc) :
    Triangular infl locs ↔
      infl.length = locs.length ∧
      (∀ (j : Nat) (hi : j < infl.length) (hl : j < locs.length), scalarAt infl[j] locs[j] = 1) ∧
      (∀ (i j : Nat) (_ : i < j) (hj : j < infl.length) (hi : i < locs.length), scalarAt infl[j] locs[i] = 0) := by
  unfold Triangular
  constructor
  · rintro ⟨h0, h1, h2⟩
    refine ⟨h0, ?_, ?_⟩
    · intro j hi hl; exact h1 j _ _ (List.getElem?_eq_getElem hi) (List.getElem?_eq_getElem hl)
    · intro i j hij hj hi
      exact h2 i j _ _ hij (List.getElem?_eq_getElem hj) (List.getElem?_eq_getElem hi)
  · rintro ⟨h0, h1, h2⟩
    refine ⟨h0, ?_, ?_⟩
    · intro j r l hr hl
      obtain ⟨hi, rfl⟩ := List.getElem?_eq_some_iff.mp hr
      obtain ⟨hl', rfl⟩ := List.getElem?_eq_some_iff.mp hl
      exact h1 j hi hl'
    · intro i j r l hij hr hl
      obtain ⟨hj, rfl⟩ := List.getElem?_eq_some_iff.mp hr
      obtain ⟨hi, rfl⟩ := List.getElem?_eq_some_iff.mp hl
      exact h2 i j hij hj hi

/-- Value of a delta as a number (`none` contributes nothing). -/
def deltaVal : Option Rat → Rat
  | some d => d
  | none => 0

/-- At master `m`, the interpolation sum collapses: regions after `m` vanish, region `m` has
    scalar 1, and regions before `m` give the partial sum over the first `m` deltas. -/
theorem dot_at_master (infl : List Region) (locs : List Loc) (D : List (Option Rat))
    (htri : Triangular infl locs) (hD : D.length = locs.length)
    (m : Nat) (loc : Loc) (hl : locs[m]? = some loc) (dm : Option Rat) (hdm : D[m]? = some dm) :
    dot infl D loc = dot infl (D.take m) loc + deltaVal dm := by
  obtain ⟨h0, h1, h2⟩ := htri
  obtain ⟨hm, _⟩ := List.getElem?_eq_some_iff.mp hl
  have hmi : m < infl.length := by omega
  have hmD : m < D.length := by omega
  have hdm' : D[m] = dm := by rw [List.getElem?_eq_getElem hmD] at hdm; exact Option.some.inj hdm
  have hsI : infl = infl.take m ++ infl[m] :: infl.drop (m + 1) := by simp
  have hsD : D = D.take m ++ D[m] :: D.drop (m + 1) := by simp
  have hlen : (infl.take m).length = (D.take m).length := by simp; omega
  have e1 : dot infl D loc
      = dot (infl.take m) (D.take m) loc
        + (term infl[m] D[m] loc + dot (infl.drop (m+1)) (D.drop (m+1)) loc) := by
    conv => lhs; rw [hsI, hsD]
    rw [dot_append _ _ _ _ _ hlen, dot_cons]
  have e2 : dot infl (D.take m) loc = dot (infl.take m) (D.take m) loc := by
    conv => lhs; rw [hsI]
    have := dot_append (infl.take m) (infl[m] :: infl.drop (m+1)) (D.take m) [] loc hlen
    rw [List.append_nil] at this
    rw [this, dot_nil_right, Rat.add_zero]
  have e3 : dot (infl.drop (m+1)) (D.drop (m+1)) loc = 0 := by
    apply dot_eq_zero
    intro r hr
    obtain ⟨k, hk, rfl⟩ := List.getElem_of_mem hr
    have hk' : m + 1 + k < infl.length := by simp at hk; omega
    rw [List.getElem_drop]
    exact h2 m (m + 1 + k) _ _ (by omega) (List.getElem?_eq_getElem hk') hl
  have e4 : term infl[m] D[m] loc = deltaVal dm := by
    have := h1 m _ _ (List.getElem?_eq_getElem hmi) hl
    rw [hdm']
    cases dm <;> simp [term, deltaVal, this, Rat.one_mul]
  rw [e1, e2, e3, e4, Rat.add_zero]

/-! ### A2–A4 -/

/-- Core identity: at master `m` the interpolated value is `S + round (v − S)`, where `S` is the
    contribution of the earlier masters. -/
theorem interpolate_at_master (round : Rat → Rat) (infl : List Region) (locs : List Loc)
    (vals : Values) (htri : Triangular infl locs) (hlen : vals.length = locs.length)
    (m : Nat) (loc : Loc) (v : Rat) (hl : locs[m]? = some loc) (hv : vals[m]? = some (some v)) :
    interpolate infl (deltasAux round infl (locs.zip vals) []) loc
      = dot infl ((deltasAux round infl (locs.zip vals) []).take m) loc
        + round (v - dot infl ((deltasAux round infl (locs.zip vals) []).take m) loc) := by
  rw [interpolate_eq_dot]
  rw [dot_at_master infl locs _ htri (deltas_length round infl locs vals hlen) m loc hl _
        (deltas_getElem?_some round infl locs vals m loc v hl hv)]
  rfl

/-- (A2) Without rounding, interpolating the deltas at a master location gives back the master value. -/
theorem deltas_reproduce_exact (round : Rat → Rat) (infl : List Region) (locs : List Loc)
    (vals : Values) (htri : Triangular infl locs) (hlen : vals.length = locs.length)
    (hround : ∀ x, round x = x)
    (m : Nat) (loc : Loc) (v : Rat) (hl : locs[m]? = some loc) (hv : vals[m]? = some (some v)) :
    interpolate infl (deltasAux round infl (locs.zip vals) []) loc = v := by
  rw [interpolate_at_master round infl locs vals htri hlen m loc v hl hv, hround]
  grind

/-- (A3) With a rounding function that moves values by at most 1/2, the reproduced master value
    is within 1/2 of the original (errors do not accumulate). -/
theorem deltas_reproduce_rounded (round : Rat → Rat) (infl : List Region) (locs : List Loc)
    (vals : Values) (htri : Triangular infl locs) (hlen : vals.length = locs.length)
    (hround : ∀ x, ratAbs (round x - x) ≤ 1/2)
    (m : Nat) (loc : Loc) (v : Rat) (hl : locs[m]? = some loc) (hv : vals[m]? = some (some v)) :
    ratAbs (interpolate infl (deltasAux round infl (locs.zip vals) []) loc - v) ≤ 1/2 := by
  rw [interpolate_at_master round infl locs vals htri hlen m loc v hl hv]
  generalize dot infl _ loc = S
  have h := hround (v - S)
  rw [ratAbs_le_iff] at h ⊢
  grind

/-- (A3, instantiated) `RoundingBehaviour::{None, TiesEven}`. -/
theorem deltas_reproduce_rounding (rb : Rounding) (infl : List Region) (locs : List Loc)
    (vals : Values) (htri : Triangular infl locs) (hlen : vals.length = locs.length)
    (m : Nat) (loc : Loc) (v : Rat) (hl : locs[m]? = some loc) (hv : vals[m]? = some (some v)) :
    ratAbs (interpolate infl (deltasAux rb.apply infl (locs.zip vals) []) loc - v) ≤ 1/2 :=
  deltas_reproduce_rounded rb.apply infl locs vals htri hlen (Rounding.apply_abs_le rb) m loc v hl hv

/-- (A4) At the first location the interpolated value is exactly `round v₀`. -/
theorem default_exact (round : Rat → Rat) (infl : List Region) (locs : List Loc)
    (vals : Values) (htri : Triangular infl locs) (hlen : vals.length = locs.length)
    (loc : Loc) (v : Rat) (hl : locs[0]? = some loc) (hv : vals[0]? = some (some v)) :
    interpolate infl (deltasAux round infl (locs.zip vals) []) loc = round v := by
  rw [interpolate_at_master round infl locs vals htri hlen 0 loc v hl hv]
  simp [Rat.sub_eq_add_neg, Rat.add_zero, Rat.zero_add]

theorem default_exact_of_fixed (round : Rat → Rat) (infl : List Region) (locs : List Loc)
    (vals : Values) (htri : Triangular infl locs) (hlen : vals.length = locs.length)
    (loc : Loc) (v : Rat) (hl : locs[0]? = some loc) (hv : vals[0]? = some (some v))
    (hfix : round v = v) :
    interpolate infl (deltasAux round infl (locs.zip vals) []) loc = v := by
  rw [default_exact round infl locs vals htri hlen loc v hl hv, hfix]

end Fontc.VarModel
